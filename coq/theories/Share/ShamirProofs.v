(* Theorems about the model of share/poly.go (ShamirSM.v): property C07.

   Part A: evaluation, commitment, Check, Add, Mul.
   Part B: the share selection of xyScalar / xyCommit.
   Part C: Lagrange interpolation (RecoverSecret, RecoverCommit, RecoverPriPoly,
           RecoverPubPoly) for every iteration order of the Go maps.
   Part D: the end-to-end statements. *)
From Coq Require Import ZArith Znumtheory List Bool Lia Ring Field Permutation Sorted.
From Kyber Require Import Algebra.Zq Algebra.Grp Share.ShamirSM Share.PolyFacts.
Import ListNotations.

Section ShamirProofs.
  Variable q : Z.
  Hypothesis q_prime : prime q.
  Notation F := (zq q).
  Add Field zqF2 : (zq_field q q_prime).

  Local Notation peval_cons := (peval_cons q).
  Local Notation peval_nil := (peval_nil q).

  (* ================================================================ Part A *)

  Lemma peval_commit (b : F) (c : list F) x : peval (commit b c) x = smul (peval c x) b.
  Proof.
    induction c as [|a c IH].
    - unfold commit. cbn [map]. rewrite !peval_nil. unfold smul. ring.
    - unfold commit in *. cbn [map]. rewrite !peval_cons, IH. unfold smul. ring.
  Qed.

  (* the public commitment polynomial evaluates at index i to the commitment of
     private share i (Horner in the group vs Horner in the field) *)
  Theorem eval_commit_commute (b : F) (c : list F) (i : Z) :
    pub_eval (commit b c) i = (i, smul (snd (pri_eval c i)) b).
  Proof.
    unfold pub_eval, pri_eval. cbn [snd]. rewrite (pub_peval_eq q q_prime), peval_commit. reflexivity.
  Qed.

  Theorem pub_shares_commit (b : F) (c : list F) (n : nat) :
    pub_shares (commit b c) n = map (fun s => (fst s, smul (snd s) b)) (pri_shares c n).
  Proof.
    unfold pub_shares, pri_shares. rewrite map_map. apply map_ext. intros i.
    rewrite eval_commit_commute. reflexivity.
  Qed.

  Lemma pri_shares_nth (c : list F) (n i : nat) : (i < n)%nat ->
    nth_error (pri_shares c n) i = Some (pri_eval c (Z.of_nat i)).
  Proof.
    intros H. unfold pri_shares, zseq. rewrite map_map.
    rewrite nth_error_map. rewrite nth_error_nth' with (d := O) by (rewrite seq_length; exact H).
    rewrite seq_nth by exact H. reflexivity.
  Qed.

  (* Check against an arbitrary public polynomial: accepted iff v*b is the
     evaluation of the commitments at the share's index *)
  Theorem check_spec (b : F) (cm : list F) (i : Z) (v : F) :
    check b cm (i, v) = true <-> pub_peval cm (xeval q i) = smul v b.
  Proof.
    unfold check, pub_eval, peqb. cbn [fst snd]. apply zeqb_eq.
  Qed.

  (* Check against the dealer's commitment: accepted iff the share commits to
     the same point as the share on the polynomial ... *)
  Theorem check_commit_spec (b : F) (c : list F) (i : Z) (v : F) :
    check b (commit b c) (i, v) = true <-> smul v b = smul (peval c (xeval q i)) b.
  Proof.
    rewrite check_spec, (pub_peval_eq q q_prime), peval_commit. split; intros H; symmetry; exact H.
  Qed.

  (* ... hence, for a base point other than the identity (every such point
     generates the prime-order group), iff the share lies on the polynomial *)
  Theorem check_iff_on_poly (b : F) (c : list F) (i : Z) (v : F) :
    b <> pzero ->
    (check b (commit b c) (i, v) = true <-> v = peval c (xeval q i)).
  Proof.
    intros Hb. rewrite check_commit_spec. split; [|intros ->; reflexivity].
    unfold smul. intros H.
    assert (E : zmul (zsub v (peval c (xeval q i))) b = zzero).
    { transitivity (zsub (zmul v b) (zmul (peval c (xeval q i)) b)); [ring|]. rewrite H. ring. }
    apply (zmul_eq_0 q q_prime) in E. destruct E as [E|E]; [|contradiction].
    apply (zsub_eq_0 q q_prime). exact E.
  Qed.

  (* Add *)
  Theorem poly_add_some (p r : list F) :
    length p = length r <-> poly_add p r = Some (zip_add p r).
  Proof.
    unfold poly_add. destruct (Nat.eqb (length p) (length r)) eqn:E.
    - apply Nat.eqb_eq in E. tauto.
    - apply Nat.eqb_neq in E. split; [tauto|discriminate].
  Qed.

  Theorem poly_add_none (p r : list F) : length p <> length r <-> poly_add p r = None.
  Proof.
    unfold poly_add. destruct (Nat.eqb (length p) (length r)) eqn:E.
    - apply Nat.eqb_eq in E. split; [tauto|discriminate].
    - apply Nat.eqb_neq in E. tauto.
  Qed.

  Theorem add_eval (p r s : list F) (i : Z) : poly_add p r = Some s ->
    pri_eval s i = (i, zadd (snd (pri_eval p i)) (snd (pri_eval r i))) /\ length s = length p.
  Proof.
    unfold poly_add. destruct (Nat.eqb (length p) (length r)) eqn:E; [|discriminate].
    apply Nat.eqb_eq in E. intros H. apply Some_inj in H. subst s.
    unfold pri_eval. cbn [snd]. rewrite (peval_zip_add q q_prime) by exact E.
    split; [reflexivity|apply length_zip_add; exact E].
  Qed.

  Lemma commit_zip_add (b : F) : forall (p r : list F),
    zip_add (commit b p) (commit b r) = commit b (zip_add p r).
  Proof.
    induction p as [|a p IH]; intros [|a' r]; try reflexivity.
    unfold commit in *. cbn [map zip_add]. rewrite IH. f_equal. unfold smul. ring.
  Qed.

  (* commitment is additive: Commit(p) + Commit(q) = Commit(p + q), and fails
     exactly when p + q fails *)
  Theorem add_commit (b : F) (p r : list F) :
    pub_add (commit b p) (commit b r) = option_map (commit b) (poly_add p r).
  Proof.
    unfold pub_add, poly_add, commit. rewrite !map_length.
    destruct (Nat.eqb (length p) (length r)); [|reflexivity].
    cbn [option_map]. f_equal. apply commit_zip_add.
  Qed.

  Theorem pub_add_eval (p r s : list F) (i : Z) : pub_add p r = Some s ->
    pub_eval s i = (i, padd (snd (pub_eval p i)) (snd (pub_eval r i))).
  Proof.
    unfold pub_add. destruct (Nat.eqb (length p) (length r)) eqn:E; [|discriminate].
    apply Nat.eqb_eq in E. intros H. apply Some_inj in H. subst s.
    unfold pub_eval. cbn [snd]. rewrite !(pub_peval_eq q q_prime).
    rewrite (peval_zip_add q q_prime) by exact E. reflexivity.
  Qed.

  (* Mul *)
  Theorem mul_eval (p r m : list F) (i : Z) : poly_mul p r = Some m ->
    pri_eval m i = (i, zmul (snd (pri_eval p i)) (snd (pri_eval r i))) /\
    length m = (length p + length r - 1)%nat.
  Proof.
    intros H. unfold pri_eval. cbn [snd]. rewrite (poly_mul_eval q q_prime p r m _ H).
    split; [reflexivity|apply (poly_mul_length q); exact H].
  Qed.

  Theorem mul_commit_eval (b : F) (p r m : list F) (i : Z) : poly_mul p r = Some m ->
    pub_eval (commit b m) i = (i, smul (zmul (snd (pri_eval p i)) (snd (pri_eval r i))) b).
  Proof.
    intros H. rewrite eval_commit_commute. destruct (mul_eval p r m i H) as [E _]. rewrite E. reflexivity.
  Qed.

  Theorem mul_defined (p r : list F) : p <> [] -> r <> [] -> exists m, poly_mul p r = Some m.
  Proof.
    intros Hp Hr. destruct (poly_mul p r) as [m|] eqn:E; [exists m; reflexivity|].
    exfalso. apply (poly_mul_defined q p r (or_introl Hp)). exact E.
  Qed.

  Lemma list_zeqb_eq : forall (p r : list F), list_zeqb p r = true <-> p = r.
  Proof.
    induction p as [|a p IH]; intros [|b r]; cbn [list_zeqb]; try (split; [discriminate|congruence]).
    - tauto.
    - rewrite andb_true_iff, IH, zeqb_eq. split; [intros [-> ->]; reflexivity|intros H; inversion H; tauto].
  Qed.

  (* ================================================================ Part B *)

  Definition keys (m : list (Z * F)) : list Z := map fst m.

  (* indices of the entries that carry a value *)
  Definition vidx (l : list (Z * option F)) : list Z :=
    flat_map (fun s => match snd s with Some _ => [fst s] | None => [] end) l.
  Definition valid_idx (sh : list (entry q)) : list Z := vidx (nonnil sh).

  Lemma in_vidx l i : In i (vidx l) <-> exists y, In (i, Some y) l.
  Proof.
    unfold vidx. rewrite in_flat_map. split.
    - intros [[j [y|]] [Hin H]]; cbn in H; [|contradiction].
      destruct H as [<-|[]]. exists y. exact Hin.
    - intros [y H]. exists (i, Some y). split; [exact H|left; reflexivity].
  Qed.

  Lemma in_nonnil (sh : list (entry q)) s : In s (nonnil sh) <-> In (Some s) sh.
  Proof.
    unfold nonnil. rewrite in_flat_map. split.
    - intros [[s'|] [Hin H]]; [|contradiction]. destruct H as [<-|[]]. exact Hin.
    - intros H. exists (Some s). split; [exact H|left; reflexivity].
  Qed.

  Lemma insert_by_idx_perm s : forall l : list (Z * option F), Permutation (insert_by_idx s l) (s :: l).
  Proof.
    induction l as [|h r IH]; [reflexivity|].
    cbn [insert_by_idx]. destruct (fst s <? fst h); [reflexivity|].
    rewrite IH. apply perm_swap.
  Qed.

  Lemma sort_by_idx_perm : forall l : list (Z * option F), Permutation (sort_by_idx l) l.
  Proof.
    induction l as [|h r IH]; [reflexivity|].
    unfold sort_by_idx in *. cbn [fold_right]. rewrite insert_by_idx_perm. constructor. exact IH.
  Qed.

  Lemma insert_by_idx_sorted s : forall l : list (Z * option F),
    Sorted.Sorted (fun a b => fst a <= fst b) l ->
    Sorted.Sorted (fun a b => fst a <= fst b) (insert_by_idx s l).
  Proof.
    induction l as [|h r IH]; intros H.
    - repeat constructor.
    - cbn [insert_by_idx]. destruct (fst s <? fst h) eqn:E.
      + apply Z.ltb_lt in E. constructor; [exact H|constructor; lia].
      + apply Z.ltb_ge in E. inversion H as [|? ? Hs Hh]; subst.
        constructor; [apply IH; exact Hs|].
        destruct r as [|h' r']; cbn [insert_by_idx].
        * constructor. exact E.
        * destruct (fst s <? fst h'); constructor; [exact E|].
          inversion Hh; assumption.
  Qed.

  (* the model's sort really sorts (by index, ascending) *)
  Lemma sort_by_idx_sorted : forall l : list (Z * option F),
    Sorted.Sorted (fun a b => fst a <= fst b) (sort_by_idx l).
  Proof.
    induction l as [|h r IH]; [constructor|].
    unfold sort_by_idx in *. cbn [fold_right]. apply insert_by_idx_sorted. exact IH.
  Qed.

  (* --- upsert *)
  Lemma upsert_keys : forall (m : list (Z * F)) i y,
    keys (upsert i y m) = if in_dec Z.eq_dec i (keys m) then keys m else keys m ++ [i].
  Proof.
    induction m as [|[j z] r IH]; intros i y.
    - reflexivity.
    - cbn [upsert]. destruct (i =? j) eqn:E.
      + apply Z.eqb_eq in E. subst j. cbn [keys map fst].
        destruct (in_dec Z.eq_dec i (i :: map fst r)) as [_|H]; [reflexivity|].
        exfalso. apply H. left. reflexivity.
      + apply Z.eqb_neq in E. unfold keys in *. cbn [map fst]. rewrite IH.
        destruct (in_dec Z.eq_dec i (map fst r)) as [H|H];
          destruct (in_dec Z.eq_dec i (j :: map fst r)) as [H'|H']; try reflexivity.
        * exfalso. apply H'. right. exact H.
        * exfalso. destruct H' as [H'|H']; [congruence|contradiction].
  Qed.

  Lemma upsert_keys_in (m : list (Z * F)) i y j :
    In j (keys (upsert i y m)) <-> j = i \/ In j (keys m).
  Proof.
    rewrite upsert_keys. destruct (in_dec Z.eq_dec i (keys m)) as [H|H].
    - split; [tauto|]. intros [->|H']; assumption.
    - rewrite in_app_iff. cbn [In]. split; [intros [H'|[H'|[]]]; auto|intros [H'|H']; auto].
  Qed.

  Lemma upsert_NoDup (m : list (Z * F)) i y : NoDup (keys m) -> NoDup (keys (upsert i y m)).
  Proof.
    intros H. rewrite upsert_keys. destruct (in_dec Z.eq_dec i (keys m)) as [Hi|Hi]; [exact H|].
    apply (Permutation_NoDup (Permutation_cons_append (keys m) i)). constructor; assumption.
  Qed.

  Lemma upsert_length (m : list (Z * F)) i y :
    (length m <= length (upsert i y m) <= S (length m))%nat.
  Proof.
    assert (E : length (upsert i y m) = length (keys (upsert i y m))) by (unfold keys; rewrite map_length; reflexivity).
    assert (E' : length m = length (keys m)) by (unfold keys; rewrite map_length; reflexivity).
    rewrite E, upsert_keys. destruct (in_dec Z.eq_dec i (keys m)).
    - lia.
    - rewrite app_length. cbn [length]. lia.
  Qed.

  Lemma upsert_in : forall (m : list (Z * F)) i y e,
    In e (upsert i y m) -> e = (i, y) \/ In e m.
  Proof.
    induction m as [|[j z] r IH]; intros i y e H.
    - cbn in H. destruct H as [<-|[]]. left. reflexivity.
    - cbn [upsert] in H. destruct (i =? j).
      + destruct H as [<-|H]; [left; reflexivity|right; right; exact H].
      + destruct H as [<-|H]; [right; left; reflexivity|].
        destruct (IH _ _ _ H) as [->|H']; [left; reflexivity|right; right; exact H'].
  Qed.

  (* --- walk *)
  Lemma vidx_cons_some i y (r : list (Z * option F)) : vidx ((i, Some y) :: r) = i :: vidx r.
  Proof. reflexivity. Qed.
  Lemma vidx_cons_none i (r : list (Z * option F)) : vidx ((i, None) :: r) = vidx r.
  Proof. reflexivity. Qed.

  Lemma walk_keys_mono t : forall (l : list (Z * option F)) (m : list (Z * F)) j,
    In j (keys m) -> In j (keys (walk t m l)).
  Proof.
    induction l as [|[i [y|]] r IH]; intros m j H; cbn [walk].
    - exact H.
    - destruct (Nat.eqb (length (upsert i y m)) t).
      + apply upsert_keys_in. right. exact H.
      + apply IH. apply upsert_keys_in. right. exact H.
    - apply IH. exact H.
  Qed.

  Lemma walk_keys_incl t : forall (l : list (Z * option F)) (m : list (Z * F)) j,
    In j (keys (walk t m l)) -> In j (keys m) \/ In j (vidx l).
  Proof.
    induction l as [|[i [y|]] r IH]; intros m j H; cbn [walk] in H.
    - left. exact H.
    - rewrite vidx_cons_some. cbn [In].
      destruct (Nat.eqb (length (upsert i y m)) t).
      + apply upsert_keys_in in H. destruct H as [->|H]; auto.
      + apply IH in H. destruct H as [H|H]; [|auto].
        apply upsert_keys_in in H. destruct H as [->|H]; auto.
    - rewrite vidx_cons_none. apply IH. exact H.
  Qed.

  Lemma walk_NoDup t : forall (l : list (Z * option F)) (m : list (Z * F)),
    NoDup (keys m) -> NoDup (keys (walk t m l)).
  Proof.
    induction l as [|[i [y|]] r IH]; intros m H; cbn [walk].
    - exact H.
    - destruct (Nat.eqb (length (upsert i y m)) t); [|apply IH]; apply upsert_NoDup; exact H.
    - apply IH. exact H.
  Qed.

  Lemma walk_in t : forall (l : list (Z * option F)) (m : list (Z * F)) e,
    In e (walk t m l) -> In e m \/ In (fst e, Some (snd e)) l.
  Proof.
    induction l as [|[i [y|]] r IH]; intros m e H; cbn [walk] in H.
    - left. exact H.
    - assert (U : In e (upsert i y m) -> In e m \/ In (fst e, Some (snd e)) ((i, Some y) :: r)).
      { intros H'. apply upsert_in in H'. destruct H' as [->|H']; [right; left; reflexivity|left; exact H']. }
      destruct (Nat.eqb (length (upsert i y m)) t); [exact (U H)|].
      apply IH in H. destruct H as [H|H]; [exact (U H)|right; right; exact H].
    - apply IH in H. destruct H as [H|H]; [left; exact H|right; right; exact H].
  Qed.

  Lemma walk_length_le t : forall (l : list (Z * option F)) (m : list (Z * F)),
    (length m < t)%nat -> (length (walk t m l) <= t)%nat.
  Proof.
    induction l as [|[i [y|]] r IH]; intros m H; cbn [walk].
    - lia.
    - pose proof (upsert_length m i y) as L.
      destruct (Nat.eqb (length (upsert i y m)) t) eqn:E.
      + apply Nat.eqb_eq in E. lia.
      + apply Nat.eqb_neq in E. apply IH. lia.
    - apply IH. exact H.
  Qed.

  (* if the loop ends with fewer than t keys it never stopped early: every
     index that carries a value is a key *)
  Lemma walk_full t : forall (l : list (Z * option F)) (m : list (Z * F)),
    (length (walk t m l) < t)%nat -> forall j, In j (vidx l) -> In j (keys (walk t m l)).
  Proof.
    induction l as [|[i [y|]] r IH]; intros m H j Hj; cbn [walk] in *.
    - contradiction.
    - rewrite vidx_cons_some in Hj.
      destruct (Nat.eqb (length (upsert i y m)) t) eqn:E.
      + apply Nat.eqb_eq in E. lia.
      + destruct Hj as [<-|Hj].
        * apply walk_keys_mono. apply upsert_keys_in. left. reflexivity.
        * apply IH; assumption.
    - rewrite vidx_cons_none in Hj. apply IH; assumption.
  Qed.

  Lemma keys_length (m : list (Z * F)) : length (keys m) = length m.
  Proof. unfold keys. apply map_length. Qed.

  (* the selection: distinct keys, each selected pair is one of the valued
     entries, exactly t pairs iff at least t distinct valued indices exist *)
  Lemma select_NoDup t l : NoDup (keys (@select_from q t l)).
  Proof. apply walk_NoDup. constructor. Qed.

  Lemma select_in t l e : In e (@select_from q t l) -> In (fst e, Some (snd e)) l.
  Proof. intros H. apply walk_in in H. destruct H as [[]|H]. exact H. Qed.

  Lemma select_length_le t l : (1 <= t)%nat -> (length (@select_from q t l) <= t)%nat.
  Proof. intros H. apply walk_length_le. cbn [length]. lia. Qed.

  Lemma select_enough t l : (1 <= t)%nat ->
    (t <= length (nodup Z.eq_dec (vidx l)))%nat -> length (@select_from q t l) = t.
  Proof.
    intros Ht Hd. pose proof (select_length_le t l Ht) as Hle.
    destruct (Nat.eq_dec (length (select_from t l)) t) as [|Hne]; [assumption|exfalso].
    assert (Hlt : (length (select_from t l) < t)%nat) by lia.
    assert (Hincl : incl (nodup Z.eq_dec (vidx l)) (keys (select_from t l))).
    { intros j Hj. apply nodup_In in Hj. unfold select_from. apply walk_full; assumption. }
    pose proof (NoDup_incl_length (NoDup_nodup Z.eq_dec (vidx l)) Hincl) as L.
    rewrite keys_length in L. lia.
  Qed.

  Lemma select_too_few t l :
    (length (nodup Z.eq_dec (vidx l)) < t)%nat -> (length (@select_from q t l) < t)%nat.
  Proof.
    intros Hd.
    assert (Hincl : incl (keys (select_from t l)) (nodup Z.eq_dec (vidx l))).
    { intros j Hj. apply nodup_In. unfold select_from in Hj. apply walk_keys_incl in Hj.
      destruct Hj as [[]|Hj]. exact Hj. }
    pose proof (NoDup_incl_length (select_NoDup t l) Hincl) as L.
    rewrite keys_length in L. lia.
  Qed.

  (* the count of distinct valued indices does not depend on the order *)
  Lemma vidx_perm (l l' : list (Z * option F)) : Permutation l l' -> Permutation (vidx l) (vidx l').
  Proof.
    intros H. induction H as [| [i [y|]] l l' _ IH | [i [y|]] [j [z|]] l | l l' l'' _ IH1 _ IH2].
    - reflexivity.
    - rewrite !vidx_cons_some. constructor. exact IH.
    - rewrite !vidx_cons_none. exact IH.
    - rewrite !vidx_cons_some. apply perm_swap.
    - rewrite !vidx_cons_some, !vidx_cons_none. reflexivity.
    - rewrite !vidx_cons_some, !vidx_cons_none. reflexivity.
    - rewrite !vidx_cons_none. reflexivity.
    - etransitivity; eassumption.
  Qed.

  Lemma nodup_length_perm (a b : list Z) : Permutation a b ->
    length (nodup Z.eq_dec a) = length (nodup Z.eq_dec b).
  Proof.
    intros H. apply Nat.le_antisymm; apply NoDup_incl_length; try apply NoDup_nodup;
      intros j Hj; apply nodup_In; apply nodup_In in Hj.
    - apply (Permutation_in _ H). exact Hj.
    - apply (Permutation_in _ (Permutation_sym H)). exact Hj.
  Qed.

  (* --- which shares are selected: the first t distinct valued indices in
     slice order (after the sort: the t smallest) *)
  Fixpoint dedup_acc (seen : list Z) (l : list Z) : list Z :=
    match l with
    | [] => seen
    | i :: r => dedup_acc (if in_dec Z.eq_dec i seen then seen else seen ++ [i]) r
    end.

  Lemma dedup_acc_prefix : forall l seen, exists s, dedup_acc seen l = seen ++ s.
  Proof.
    induction l as [|i r IH]; intros seen.
    - exists []. cbn. rewrite app_nil_r. reflexivity.
    - cbn [dedup_acc]. destruct (in_dec Z.eq_dec i seen).
      + apply IH.
      + destruct (IH (seen ++ [i])) as [s E]. exists ([i] ++ s). rewrite E, app_assoc. reflexivity.
  Qed.

  Lemma walk_keys_spec t : forall (l : list (Z * option F)) (m : list (Z * F)),
    (length m < t)%nat -> keys (walk t m l) = firstn t (dedup_acc (keys m) (vidx l)).
  Proof.
    induction l as [|[i [y|]] r IH]; intros m H; cbn [walk].
    - cbn [vidx flat_map dedup_acc]. rewrite firstn_all2; [reflexivity|]. rewrite keys_length. lia.
    - rewrite vidx_cons_some. cbn [dedup_acc]. rewrite <- upsert_keys with (y := y).
      pose proof (upsert_length m i y) as L.
      destruct (Nat.eqb (length (upsert i y m)) t) eqn:E.
      + apply Nat.eqb_eq in E.
        destruct (dedup_acc_prefix (vidx r) (keys (upsert i y m))) as [s Es]. rewrite Es.
        rewrite firstn_app, keys_length, E, Nat.sub_diag. cbn [firstn]. rewrite app_nil_r.
        rewrite firstn_all2; [reflexivity|]. rewrite keys_length. lia.
      + apply Nat.eqb_neq in E. apply IH. lia.
    - rewrite vidx_cons_none. apply IH. exact H.
  Qed.

  Theorem select_keys_spec t l : (1 <= t)%nat ->
    keys (@select_from q t l) = firstn t (dedup_acc [] (vidx l)).
  Proof. intros H. unfold select_from. rewrite walk_keys_spec by (cbn [length]; lia). reflexivity. Qed.

  (* ================================================================ Part C *)

  Lemma zmul_neq_0 (a b : F) : a <> zzero -> b <> zzero -> zmul a b <> zzero.
  Proof.
    intros Ha Hb H. apply (zmul_eq_0 q q_prime) in H. tauto.
  Qed.

  Lemma zsub_neq_0 (a b : F) : a <> b -> zsub a b <> zzero.
  Proof. intros H E. apply H. apply (zsub_eq_0 q q_prime). exact E. Qed.

  Lemma zprod_cons (a : F) l : zprod (a :: l) = zmul a (zprod l).
  Proof. reflexivity. Qed.
  Lemma zsum_cons (a : F) l : zsum (a :: l) = zadd a (zsum l).
  Proof. reflexivity. Qed.

  Lemma zprod_zero : forall l : list F, In zzero l -> zprod l = zzero.
  Proof.
    induction l as [|a l IH]; intros H; [contradiction|].
    rewrite zprod_cons. destruct H as [->|H]; [ring|]. rewrite IH by exact H. ring.
  Qed.

  Lemma zprod_neq_0 : forall l : list F, Forall (fun a => a <> zzero) l -> zprod l <> zzero.
  Proof.
    induction l as [|a l IH]; intros H.
    - apply (zone_neq_zzero q q_prime).
    - rewrite zprod_cons. inversion H; subst. apply zmul_neq_0; auto.
  Qed.

  Lemma zprod_inv : forall l : list F, Forall (fun a => a <> zzero) l ->
    zmul (zprod l) (zprod (map zinv l)) = zone.
  Proof.
    induction l as [|a l IH]; intros H.
    - cbn [map]. unfold zprod. cbn [fold_right]. ring.
    - inversion H as [|? ? Ha Hl]; subst. cbn [map]. rewrite !zprod_cons.
      transitivity (zmul (zmul a (zinv a)) (zmul (zprod l) (zprod (map zinv l)))); [ring|].
      rewrite IH by exact Hl. field. exact Ha.
  Qed.

  Lemma zsum_zero {A} (f : A -> F) : forall l, (forall e, In e l -> f e = zzero) -> zsum (map f l) = zzero.
  Proof.
    induction l as [|a l IH]; intros H; [reflexivity|].
    cbn [map]. rewrite zsum_cons, (H a (or_introl eq_refl)), IH; [ring|].
    intros e He. apply H. right. exact He.
  Qed.

  Lemma NoDup_map_on {A B} (f : A -> B) : forall l : list A,
    NoDup l -> (forall a b, In a l -> In b l -> f a = f b -> a = b) -> NoDup (map f l).
  Proof.
    induction l as [|a l IH]; intros Hnd Hinj; [constructor|].
    inversion Hnd as [|? ? Hn Hnd']; subst. cbn [map]. constructor.
    - intros H. apply in_map_iff in H. destruct H as [b [E Hb]].
      assert (b = a) by (apply Hinj; [right; exact Hb|left; reflexivity|exact E]). subst b. contradiction.
    - apply IH; [exact Hnd'|]. intros x y Hx Hy. apply Hinj; right; assumption.
  Qed.

  (* --- the map as seen by the interpolation: distinct keys with distinct x *)
  Definition good (m : list (Z * F)) : Prop :=
    NoDup (keys m) /\ forall i j, In i (keys m) -> In j (keys m) -> xrec q i = xrec q j -> i = j.

  Lemma keys_perm (m m' : list (Z * F)) : Permutation m m' -> Permutation (keys m) (keys m').
  Proof. apply Permutation_map. Qed.

  Lemma good_perm (m m' : list (Z * F)) : good m -> Permutation m' m -> good m'.
  Proof.
    intros [Hnd Hinj] P. pose proof (keys_perm _ _ P) as PK. split.
    - apply (Permutation_NoDup (Permutation_sym PK)). exact Hnd.
    - intros i j Hi Hj. apply Hinj; apply (Permutation_in _ PK); assumption.
  Qed.

  Lemma others_in i (m : list (Z * F)) e : In e (others i m) <-> In e m /\ fst e <> i.
  Proof.
    unfold others. rewrite filter_In, negb_true_iff, Z.eqb_neq. reflexivity.
  Qed.

  Lemma others_notin i : forall m : list (Z * F), ~ In i (keys m) -> others i m = m.
  Proof.
    induction m as [|[j z] r IH]; intros H; [reflexivity|].
    unfold others in *. cbn [filter fst]. cbn [keys map fst In] in H.
    destruct (j =? i) eqn:E; [apply Z.eqb_eq in E; tauto|].
    cbn [negb]. f_equal. apply IH. tauto.
  Qed.

  Lemma others_length i : forall m : list (Z * F), NoDup (keys m) -> In i (keys m) ->
    S (length (others i m)) = length m.
  Proof.
    induction m as [|[j z] r IH]; intros Hnd Hin; [contradiction|].
    cbn [keys map fst] in Hnd, Hin. inversion Hnd as [|? ? Hn Hnd']; subst.
    unfold others in *. cbn [filter fst]. destruct (j =? i) eqn:E.
    - apply Z.eqb_eq in E. subst j. cbn [negb length]. f_equal.
      change (length (others i r) = length r). rewrite others_notin by exact Hn. reflexivity.
    - apply Z.eqb_neq in E. cbn [negb length]. f_equal. apply IH; [exact Hnd'|].
      destruct Hin as [Hin|Hin]; [congruence|exact Hin].
  Qed.

  Lemma peval_minus_const (c x : F) : peval (minus_const c) x = zsub x c.
  Proof. unfold minus_const. rewrite !peval_cons, peval_nil. ring. Qed.

  Lemma fold_basis (xi x : F) : forall (o : list (Z * F)) (st : list F * F), fst st <> [] ->
    let st' := fold_left (basis_step xi) o st in
    peval (fst st') x = zmul (peval (fst st) x) (zprod (map (fun e => zsub x (xrec q (fst e))) o)) /\
    snd st' = zmul (snd st) (zprod (map (fun e => zinv (zsub xi (xrec q (fst e)))) o)) /\
    length (fst st') = (length (fst st) + length o)%nat.
  Proof.
    induction o as [|e o IH]; intros st Hne; cbv zeta.
    - cbn [fold_left map length]. unfold zprod. cbn [fold_right]. repeat split; try ring. lia.
    - cbn [fold_left map]. rewrite !zprod_cons.
      set (st1 := basis_step xi st e).
      assert (L1 : length (fst st1) = S (length (fst st))).
      { subst st1. unfold basis_step. cbn [fst]. rewrite (length_mul_aux q) by (unfold minus_const; congruence).
        unfold minus_const. cbn [length]. destruct (fst st); [congruence|cbn [length]; lia]. }
      assert (Hne1 : fst st1 <> []) by (destruct (fst st1); [discriminate|congruence]).
      destruct (IH st1 Hne1) as [E1 [E2 E3]]. cbv zeta in E1, E2, E3.
      rewrite E1, E2, E3, L1. subst st1. unfold basis_step. cbn [fst snd length].
      rewrite (peval_mul_aux q q_prime), peval_minus_const. repeat split; try ring. lia.
  Qed.

  Lemma lagrange_basis_eval i (inner : list (Z * F)) x :
    peval (lagrange_basis i inner) x =
      zmul (zprod (map (fun e => zsub x (xrec q (fst e))) (others i inner)))
           (zprod (map (fun e => zinv (zsub (xrec q i) (xrec q (fst e)))) (others i inner))) /\
    length (lagrange_basis i inner) = S (length (others i inner)).
  Proof.
    unfold lagrange_basis.
    destruct (fold_basis (xrec q i) x (others i inner) ([zone], zone)) as [E1 [E2 E3]]; [cbn [fst]; congruence|].
    cbv zeta in E1, E2, E3. cbn [fst snd length] in E1, E2, E3.
    rewrite (peval_pscale q q_prime), (length_pscale q), E1, E2, E3.
    rewrite peval_cons, peval_nil. split; [ring|reflexivity].
  Qed.

  Lemma lagrange_basis_length i (inner : list (Z * F)) : good inner -> In i (keys inner) ->
    length (lagrange_basis i inner) = length inner.
  Proof.
    intros [Hnd _] Hi. destruct (lagrange_basis_eval i inner zzero) as [_ L]. rewrite L.
    apply others_length; assumption.
  Qed.

  (* the basis polynomial of index i is 1 at x_i and 0 at the other points *)
  Lemma lagrange_basis_one i (inner : list (Z * F)) : good inner -> In i (keys inner) ->
    peval (lagrange_basis i inner) (xrec q i) = zone.
  Proof.
    intros [Hnd Hinj] Hi. destruct (lagrange_basis_eval i inner (xrec q i)) as [E _]. rewrite E.
    rewrite <- (map_map (fun e => zsub (xrec q i) (xrec q (fst e))) zinv).
    apply zprod_inv. rewrite Forall_forall. intros a Ha. apply in_map_iff in Ha.
    destruct Ha as [e [<- He]]. apply others_in in He. destruct He as [He Hne].
    apply zsub_neq_0. intros Hx. apply Hne. symmetry. apply Hinj; [exact Hi| |exact Hx].
    unfold keys. apply in_map. exact He.
  Qed.

  Lemma lagrange_basis_zero i j (inner : list (Z * F)) : In j (keys inner) -> j <> i ->
    peval (lagrange_basis i inner) (xrec q j) = zzero.
  Proof.
    intros Hj Hne. destruct (lagrange_basis_eval i inner (xrec q j)) as [E _]. rewrite E.
    rewrite zprod_zero; [ring|].
    unfold keys in Hj. apply in_map_iff in Hj. destruct Hj as [e [Ej He]].
    apply in_map_iff. exists e. split; [subst j; ring|].
    apply others_in. split; [exact He|congruence].
  Qed.

  (* --- accumulation of the terms L_j * y_j *)
  Lemma fold_acc_add (g : Z * F -> list F) n : forall (outer : list (Z * F)) (a0 : list F),
    (forall e, In e outer -> length (g e) = n) -> length a0 = n ->
    exists a, fold_left (fun acc e => acc_add acc (g e)) outer (Some (Some a0)) = Some (Some a) /\
              length a = n /\
              forall x, peval a x = zadd (peval a0 x) (zsum (map (fun e => peval (g e) x) outer)).
  Proof.
    induction outer as [|e outer IH]; intros a0 Hg Ha0.
    - exists a0. cbn [fold_left map]. repeat split; [exact Ha0|]. intros x. unfold zsum. cbn [fold_right]. ring.
    - cbn [fold_left acc_add]. unfold poly_add.
      assert (Hge : length (g e) = n) by (apply Hg; left; reflexivity).
      rewrite Ha0, Hge, Nat.eqb_refl.
      destruct (IH (zip_add a0 (g e))) as [a [E1 [E2 E3]]].
      + intros e' He'. apply Hg. right. exact He'.
      + rewrite (length_zip_add q) by congruence. exact Ha0.
      + exists a. repeat split; [exact E1|exact E2|]. intros x. rewrite E3.
        rewrite (peval_zip_add q q_prime) by congruence. cbn [map]. rewrite zsum_cons. ring.
  Qed.

  Lemma interp_gen_spec (outer : list (Z * F)) (inner : Z -> list (Z * F)) n :
    outer <> [] ->
    (forall e, In e outer -> length (lagrange_basis (fst e) (inner (fst e))) = n) ->
    exists a, interp_gen outer inner = Some a /\ length a = n /\
      forall x, peval a x =
        zsum (map (fun e => zmul (snd e) (peval (lagrange_basis (fst e) (inner (fst e))) x)) outer).
  Proof.
    intros Hne Hlen. unfold interp_gen.
    set (g := fun e : Z * F => pscale (snd e) (lagrange_basis (fst e) (inner (fst e)))).
    change (fun (acc : option (option (list F))) (e : Z * F) =>
              acc_add acc (pscale (snd e) (lagrange_basis (fst e) (inner (fst e)))))
      with (fun (acc : option (option (list F))) (e : Z * F) => acc_add acc (g e)).
    destruct outer as [|e0 outer]; [congruence|].
    cbn [fold_left]. cbn [acc_add].
    assert (Hg : forall e, In e (e0 :: outer) -> length (g e) = n).
    { intros e He. subst g. cbv beta. rewrite (length_pscale q). apply Hlen. exact He. }
    destruct (fold_acc_add g n outer (g e0)) as [a [E1 [E2 E3]]].
    - intros e He. apply Hg. right. exact He.
    - apply Hg. left. reflexivity.
    - rewrite E1. exists a. repeat split; [exact E2|]. intros x. rewrite E3.
      cbn [map]. rewrite zsum_cons. subst g. cbv beta. rewrite (peval_pscale q q_prime).
      f_equal; [ring|]. f_equal. apply map_ext. intros e. rewrite (peval_pscale q q_prime). ring.
  Qed.

  Lemma sum_delta (f : Z * F -> F) j yj : forall outer : list (Z * F),
    NoDup (keys outer) -> In (j, yj) outer ->
    (forall e, In e outer -> f e = if fst e =? j then snd e else zzero) ->
    zsum (map f outer) = yj.
  Proof.
    induction outer as [|e0 r IH]; intros Hnd Hin Hf; [contradiction|].
    cbn [keys map] in Hnd. inversion Hnd as [|? ? Hn Hnd']; subst.
    cbn [map]. rewrite zsum_cons. destruct Hin as [->|Hin].
    - rewrite (Hf (j, yj) (or_introl eq_refl)). cbn [fst snd]. rewrite Z.eqb_refl.
      rewrite zsum_zero; [ring|]. intros e He. rewrite (Hf e (or_intror He)).
      destruct (fst e =? j) eqn:E; [|reflexivity]. apply Z.eqb_eq in E.
      exfalso. apply Hn. cbn [fst]. rewrite <- E. apply in_map. exact He.
    - rewrite (Hf e0 (or_introl eq_refl)).
      destruct (fst e0 =? j) eqn:E.
      + apply Z.eqb_eq in E. exfalso. apply Hn. rewrite E.
        change j with (fst (j, yj)). apply in_map. exact Hin.
      + rewrite IH; [ring|exact Hnd'|exact Hin|]. intros e He. apply Hf. right. exact He.
  Qed.

  Section Interp.
    Variable m : list (Z * F).
    Hypothesis m_good : good m.
    Hypothesis m_nonempty : m <> [].
    Variable outer : list (Z * F).
    Variable inner : Z -> list (Z * F).
    Hypothesis outer_perm : Permutation outer m.
    Hypothesis inner_perm : forall i, Permutation (inner i) m.

    Lemma in_outer_key e : In e outer -> In (fst e) (keys (inner (fst e))).
    Proof.
      intros He. apply (Permutation_in _ (Permutation_sym (keys_perm _ _ (inner_perm (fst e))))).
      apply (Permutation_in _ (keys_perm _ _ outer_perm)). unfold keys. apply in_map. exact He.
    Qed.

    (* Lagrange interpolation in every iteration order: a polynomial with
       |m| coefficients through all the selected points *)
    Lemma interp_through_points :
      exists a, interp_gen outer inner = Some a /\ length a = length m /\
        (forall j yj, In (j, yj) m -> peval a (xrec q j) = yj) /\
        (forall x, peval a x =
           zsum (map (fun e => zmul (snd e) (peval (lagrange_basis (fst e) (inner (fst e))) x)) outer)).
    Proof.
      destruct (interp_gen_spec outer inner (length m)) as [a [E1 [E2 E3]]].
      - intros E. rewrite E in outer_perm. apply Permutation_nil in outer_perm. congruence.
      - intros e He. rewrite lagrange_basis_length.
        + apply Permutation_length. apply inner_perm.
        + apply (good_perm m); [exact m_good|apply inner_perm].
        + apply in_outer_key. exact He.
      - exists a. repeat split; [exact E1|exact E2| |exact E3].
        intros j yj Hj. rewrite E3.
        apply (sum_delta _ j yj).
        + apply (Permutation_NoDup (Permutation_sym (keys_perm _ _ outer_perm))). apply m_good.
        + apply (Permutation_in _ (Permutation_sym outer_perm)). exact Hj.
        + intros e He. destruct (fst e =? j) eqn:E.
          * apply Z.eqb_eq in E. rewrite <- E. rewrite lagrange_basis_one; [ring| |].
            -- apply (good_perm m); [exact m_good|apply inner_perm].
            -- apply in_outer_key. exact He.
          * apply Z.eqb_neq in E. rewrite lagrange_basis_zero; [ring| |congruence].
            apply (Permutation_in _ (Permutation_sym (keys_perm _ _ (inner_perm (fst e))))).
            unfold keys. change j with (fst (j, yj)). apply in_map. exact Hj.
    Qed.

    Lemma xs_NoDup : NoDup (map (xrec q) (keys m)).
    Proof. destruct m_good as [Hnd Hinj]. apply NoDup_map_on; assumption. Qed.

    (* the result does not depend on the iteration orders, whatever the share values are *)
    Lemma interp_order_independent : interp_gen outer inner = interp_gen m (fun _ => m).
    Proof.
      destruct interp_through_points as [a [E1 [L1 [P1 _]]]].
      assert (X : exists a', interp_gen m (fun _ => m) = Some a' /\ length a' = length m /\
                  (forall j yj, In (j, yj) m -> peval a' (xrec q j) = yj)).
      { destruct (interp_gen_spec m (fun _ => m) (length m)) as [a' [E1' [E2' E3']]].
        - exact m_nonempty.
        - intros e He. apply lagrange_basis_length; [exact m_good|]. unfold keys. apply in_map. exact He.
        - exists a'. repeat split; [exact E1'|exact E2'|]. intros j yj Hj. rewrite E3'.
          apply (sum_delta _ j yj); [apply m_good|exact Hj|].
          intros e He. destruct (fst e =? j) eqn:E.
          + apply Z.eqb_eq in E. rewrite <- E. rewrite lagrange_basis_one; [ring|exact m_good|].
            unfold keys. apply in_map. exact He.
          + apply Z.eqb_neq in E. rewrite lagrange_basis_zero; [ring| |congruence].
            unfold keys. change j with (fst (j, yj)). apply in_map. exact Hj. }
      destruct X as [a' [E1' [L1' P1']]]. rewrite E1, E1'. f_equal.
      apply (interp_unique q q_prime (map (xrec q) (keys m))).
      - exact xs_NoDup.
      - congruence.
      - rewrite map_length, keys_length. lia.
      - intros x Hx. apply in_map_iff in Hx. destruct Hx as [j [<- Hj]].
        unfold keys in Hj. apply in_map_iff in Hj. destruct Hj as [[j' yj] [<- Hj]]. cbn [fst].
        rewrite (P1 _ _ Hj), (P1' _ _ Hj). reflexivity.
    Qed.

    Variable c : list F.
    Hypothesis c_len : length c = length m.
    Hypothesis on_poly : forall j yj, In (j, yj) m -> yj = peval c (xrec q j).

    (* ... and when the points lie on a polynomial with |m| coefficients it IS that polynomial *)
    Lemma interp_correct : interp_gen outer inner = Some c.
    Proof.
      destruct interp_through_points as [a [E1 [L1 [P1 _]]]]. rewrite E1. f_equal.
      apply (interp_unique q q_prime (map (xrec q) (keys m))).
      - exact xs_NoDup.
      - congruence.
      - rewrite map_length, keys_length. lia.
      - intros x Hx. apply in_map_iff in Hx. destruct Hx as [j [<- Hj]].
        unfold keys in Hj. apply in_map_iff in Hj. destruct Hj as [[j' yj] [<- Hj]]. cbn [fst].
        rewrite (P1 _ _ Hj). apply on_poly. exact Hj.
    Qed.

    (* one Lagrange-at-zero term of RecoverSecret is y_j * L_j(0) *)
    Lemma secret_term_eq e : In e outer ->
      secret_term (inner (fst e)) e = zmul (snd e) (peval (lagrange_basis (fst e) (inner (fst e))) zzero).
    Proof.
      intros He. destruct (lagrange_basis_eval (fst e) (inner (fst e)) zzero) as [E _]. rewrite E.
      unfold secret_term. cbv zeta.
      assert (G : good (inner (fst e))) by (apply (good_perm m); [exact m_good|apply inner_perm]).
      destruct G as [_ Hinj]. pose proof (in_outer_key e He) as Hk.
      set (xi := xrec q (fst e)).
      assert (Ho : forall e', In e' (others (fst e) (inner (fst e))) -> xrec q (fst e') <> xi).
      { intros e' He'. apply others_in in He'. destruct He' as [He' Hne]. intros Hx. apply Hne.
        apply Hinj; [unfold keys; apply in_map; exact He'|exact Hk|exact Hx]. }
      revert Ho. generalize (others (fst e) (inner (fst e))) as o. intros o Ho.
      assert (K : zprod (map (fun e' => zsub (xrec q (fst e')) xi) o) <> zzero /\
                  zmul (zprod (map (fun e' => xrec q (fst e')) o))
                       (zinv (zprod (map (fun e' => zsub (xrec q (fst e')) xi) o))) =
                  zmul (zprod (map (fun e' => zsub zzero (xrec q (fst e'))) o))
                       (zprod (map (fun e' => zinv (zsub xi (xrec q (fst e')))) o))).
      { induction o as [|e' o IH].
        - cbn [map]. unfold zprod. cbn [fold_right]. split; [apply (zone_neq_zzero q q_prime)|].
          field. apply (zone_neq_zzero q q_prime).
        - destruct IH as [IH1 IH2]; [intros e'' H; apply Ho; right; exact H|].
          assert (N1 : zsub (xrec q (fst e')) xi <> zzero) by (apply zsub_neq_0; apply Ho; left; reflexivity).
          assert (N2 : zsub xi (xrec q (fst e')) <> zzero).
          { apply zsub_neq_0. intros Hx. symmetry in Hx. revert Hx. apply Ho. left. reflexivity. }
          cbn [map]. rewrite !zprod_cons. split; [apply zmul_neq_0; assumption|].
          set (P := zprod (map (fun e' => xrec q (fst e')) o)) in *.
          set (D := zprod (map (fun e' => zsub (xrec q (fst e')) xi) o)) in *.
          transitivity (zmul (zmul (xrec q (fst e')) (zinv (zsub (xrec q (fst e')) xi))) (zmul P (zinv D))).
          + field. split; assumption.
          + rewrite IH2. field. split; assumption. }
      destruct K as [_ K]. unfold zdiv.
      transitivity (zmul (snd e) (zmul (zprod (map (fun e' => xrec q (fst e')) o))
                                       (zinv (zprod (map (fun e' => zsub (xrec q (fst e')) xi) o))))); [ring|].
      rewrite K. reflexivity.
    Qed.

    Lemma lagrange0_is_eval0 a : interp_gen outer inner = Some a ->
      lagrange0_gen outer inner = peval a zzero.
    Proof.
      intros Ea. destruct interp_through_points as [a' [E1 [_ [_ P2]]]].
      assert (a' = a) by congruence. subst a'. rewrite P2. unfold lagrange0_gen. f_equal.
      apply map_ext_in. intros e He. apply secret_term_eq. exact He.
    Qed.

    Lemma peval_zero (p : list F) : peval p zzero = hd zzero p.
    Proof. destruct p as [|a p]; [reflexivity|]. rewrite peval_cons. cbn [hd]. ring. Qed.

    (* RecoverSecret's sum, in every iteration order, is the constant term *)
    Lemma lagrange0_correct : lagrange0_gen outer inner = hd zzero c.
    Proof. rewrite (lagrange0_is_eval0 c interp_correct). apply peval_zero. Qed.
  End Interp.

  (* RecoverCommit computes the same field expression on the logarithms *)
  Lemma lagrange0_pub_eq (outer : list (Z * F)) (inner : Z -> list (Z * F)) :
    lagrange0_pub_gen outer inner = lagrange0_gen outer inner.
  Proof.
    unfold lagrange0_pub_gen, lagrange0_gen.
    induction outer as [|e outer IH]; [reflexivity|].
    cbn [map]. unfold psum in *. cbn [fold_right]. rewrite IH. rewrite zsum_cons. unfold padd. f_equal.
    unfold commit_term, secret_term, smul, zdiv. cbv zeta. ring.
  Qed.

  (* ================================================================ Part D *)

  (* share indices for which the x-coordinates i+1 are non-zero, distinct mod q
     and computed without uint32 wrap-around *)
  Definition idx_ok (i : Z) : Prop := (0 <= i < q - 1 /\ i < 4294967295)%Z.

  Lemma xrec_xeval i : idx_ok i -> xrec q i = xeval q i.
  Proof.
    intros [H1 H2]. unfold xrec, xeval. rewrite Z.mod_small by lia. f_equal. lia.
  Qed.

  Lemma xeval_inj i j : idx_ok i -> idx_ok j -> xeval q i = xeval q j -> i = j.
  Proof.
    intros [H1 _] [H2 _] H. unfold xeval in H. apply (f_equal val) in H. rewrite !val_of_Z in H.
    rewrite !Z.mod_small in H by lia. lia.
  Qed.

  Lemma xeval_nonzero i : idx_ok i -> xeval q i <> zzero.
  Proof.
    intros [H1 _] H. unfold xeval, zzero in H. apply (f_equal val) in H. rewrite !val_of_Z in H.
    rewrite !Z.mod_small in H by lia. lia.
  Qed.

  (* every valued entry is a share of the polynomial c (entries without value
     and nil entries are unconstrained) *)
  Definition on_polynomial (c : list F) (l : list (Z * option F)) : Prop :=
    forall i y, In (i, Some y) l -> idx_ok i /\ y = peval c (xeval q i).

  Definition indices_ok (l : list (Z * option F)) : Prop :=
    forall i y, In (i, Some y) l -> idx_ok i.

  Definition distinct (l : list (Z * option F)) : nat := length (nodup Z.eq_dec (vidx l)).

  Lemma select_good t l : indices_ok l -> good (@select_from q t l).
  Proof.
    intros Hok. split; [apply select_NoDup|].
    assert (K : forall i, In i (keys (select_from t l)) -> idx_ok i).
    { intros i Hi. unfold keys in Hi. apply in_map_iff in Hi. destruct Hi as [e [<- He]].
      apply select_in in He. exact (Hok _ _ He). }
    intros i j Hi Hj H. rewrite !xrec_xeval in H by auto. apply xeval_inj; auto.
  Qed.

  Lemma on_polynomial_ok c l : on_polynomial c l -> indices_ok l.
  Proof. intros H i y Hi. exact (proj1 (H i y Hi)). Qed.

  Lemma on_polynomial_perm c l l' : Permutation l' l -> on_polynomial c l -> on_polynomial c l'.
  Proof. intros P H i y Hi. apply H. apply (Permutation_in _ P). exact Hi. Qed.

  Lemma distinct_perm l l' : Permutation l' l -> distinct l' = distinct l.
  Proof. intros P. unfold distinct. apply nodup_length_perm. apply vidx_perm. exact P. Qed.

  Section Recover.
    Variable t : nat.
    Hypothesis t_pos : (1 <= t)%nat.
    Variable l : list (Z * option F).

    (* --- refusal below the threshold: no premise on the share values at all *)
    Theorem recover_secret_from_refuses : (distinct l < t)%nat -> recover_secret_from t l = None.
    Proof.
      intros H. unfold recover_secret_from. pose proof (select_too_few t l H) as L.
      apply Nat.ltb_lt in L. cbv zeta. rewrite L. reflexivity.
    Qed.

    Theorem recover_commit_from_refuses : (distinct l < t)%nat -> recover_commit_from t l = None.
    Proof.
      intros H. unfold recover_commit_from. pose proof (select_too_few t l H) as L.
      apply Nat.ltb_lt in L. cbv zeta. rewrite L. reflexivity.
    Qed.

    Theorem recover_pripoly_from_refuses : (distinct l < t)%nat -> recover_pripoly_from t l = None.
    Proof.
      intros H. unfold recover_pripoly_from. pose proof (select_too_few t l H) as L.
      cbv zeta. destruct (Nat.eqb (length (select_from t l)) t) eqn:E; [|reflexivity].
      apply Nat.eqb_eq in E. lia.
    Qed.

    Theorem recover_pubpoly_from_refuses : (distinct l < t)%nat -> recover_pubpoly_from t l = None.
    Proof.
      intros H. unfold recover_pubpoly_from. pose proof (select_too_few t l H) as L.
      apply Nat.ltb_lt in L. cbv zeta. rewrite L. reflexivity.
    Qed.

    (* --- with at least t distinct valued indices exactly t points are selected *)
    Hypothesis enough : (t <= distinct l)%nat.

    Lemma sel_length : length (@select_from q t l) = t.
    Proof. apply select_enough; assumption. Qed.

    Lemma sel_nonempty : @select_from q t l <> [].
    Proof. pose proof sel_length as L. destruct (select_from t l); [cbn in L; lia|congruence]. Qed.

    (* the outputs do not depend on the map iteration orders (nor on anything
       but the selected points), whatever the share values are *)
    Theorem recover_order_independent (outer : list (Z * F)) (inner : Z -> list (Z * F)) :
      indices_ok l ->
      Permutation outer (select_from t l) -> (forall i, Permutation (inner i) (select_from t l)) ->
      let m := select_from t l in
      interp_gen outer inner = interp_gen m (fun _ => m) /\
      lagrange0_gen outer inner = lagrange0_gen m (fun _ => m) /\
      lagrange0_pub_gen outer inner = lagrange0_pub_gen m (fun _ => m).
    Proof.
      intros Hok Po Pi. cbv zeta. set (m := select_from t l) in *.
      pose proof (select_good t l Hok) as G. fold m in G.
      pose proof (interp_order_independent m G sel_nonempty outer inner Po Pi) as E.
      assert (E0 : lagrange0_gen outer inner = lagrange0_gen m (fun _ => m)).
      { destruct (interp_through_points m G sel_nonempty outer inner Po Pi) as [a [Ea _]].
        rewrite (lagrange0_is_eval0 m G sel_nonempty outer inner Po Pi a Ea).
        rewrite E in Ea.
        rewrite (lagrange0_is_eval0 m G sel_nonempty m (fun _ => m) (Permutation_refl m) (fun _ => Permutation_refl m) a Ea).
        reflexivity. }
      repeat split; [exact E|exact E0|]. rewrite !lagrange0_pub_eq. exact E0.
    Qed.

    Variable c : list F.
    Hypothesis c_len : length c = t.
    Hypothesis valid : on_polynomial c l.

    Lemma sel_on_poly j yj : In (j, yj) (@select_from q t l) -> yj = peval c (xrec q j).
    Proof.
      intros H. apply select_in in H. cbn [fst snd] in H. destruct (valid _ _ H) as [Hok ->].
      rewrite xrec_xeval by exact Hok. reflexivity.
    Qed.

    (* --- Lagrange interpolation over the selected shares, in EVERY iteration
       order of the maps: the secret, its commitment and the polynomial *)
    Theorem recover_any_order (outer : list (Z * F)) (inner : Z -> list (Z * F)) :
      Permutation outer (select_from t l) -> (forall i, Permutation (inner i) (select_from t l)) ->
      lagrange0_gen outer inner = hd zzero c /\
      lagrange0_pub_gen outer inner = hd zzero c /\
      interp_gen outer inner = Some c.
    Proof.
      intros Po Pi.
      pose proof (select_good t l (on_polynomial_ok c l valid)) as G.
      assert (L : length c = length (select_from t l)) by (rewrite sel_length; exact c_len).
      assert (E0 : lagrange0_gen outer inner = hd zzero c).
      { apply (lagrange0_correct (select_from t l) G sel_nonempty outer inner Po Pi c L sel_on_poly). }
      repeat split; [exact E0|rewrite lagrange0_pub_eq; exact E0|].
      apply (interp_correct (select_from t l) G sel_nonempty outer inner Po Pi c L sel_on_poly).
    Qed.

    Theorem recover_secret_from_correct : recover_secret_from t l = Some (hd zzero c).
    Proof.
      unfold recover_secret_from. cbv zeta. rewrite sel_length, Nat.ltb_irrefl. f_equal.
      apply recover_any_order; intros; apply Permutation_refl.
    Qed.

    Theorem recover_commit_from_correct : recover_commit_from t l = Some (hd pzero c).
    Proof.
      unfold recover_commit_from. cbv zeta. rewrite sel_length, Nat.ltb_irrefl. f_equal.
      apply recover_any_order; intros; apply Permutation_refl.
    Qed.

    Theorem recover_pripoly_from_correct : recover_pripoly_from t l = Some c.
    Proof.
      unfold recover_pripoly_from. cbv zeta. rewrite sel_length, Nat.eqb_refl.
      apply recover_any_order; intros; apply Permutation_refl.
    Qed.

    (* the commitments are recovered exactly; the stored base point is the value
       of one of the selected public shares (see the model), not the dealer's base *)
    Theorem recover_pubpoly_from_correct :
      exists b0, recover_pubpoly_from t l = Some (b0, c) /\
                 (forall y, b0 = Some y -> exists i, In (i, Some y) l).
    Proof.
      unfold recover_pubpoly_from. cbv zeta. rewrite sel_length, Nat.ltb_irrefl.
      assert (E : interp_gen (select_from t l) (fun _ => select_from t l) = Some c)
        by (apply recover_any_order; intros; apply Permutation_refl).
      rewrite E. eexists. split; [reflexivity|].
      intros y Hy. destruct (select_from t l) as [|[i y'] r] eqn:Es; [discriminate|].
      cbn in Hy. injection Hy as ->. exists i.
      assert (H : In (i, y) (select_from t l)) by (rewrite Es; left; reflexivity).
      apply select_in in H. exact H.
    Qed.
  End Recover.

  (* ---------------------------------------------------------------- on share slices *)

  Definition shares_on (c : list F) (sh : list (entry q)) : Prop :=
    forall i y, In (Some (i, Some y)) sh ->
      (0 <= i < q - 1)%Z /\ (i < 4294967295)%Z /\ y = peval c (xeval q i).

  Lemma shares_on_nonnil c sh : shares_on c sh -> on_polynomial c (nonnil sh).
  Proof.
    intros H i y Hi. apply in_nonnil in Hi. destruct (H i y Hi) as [A [B C]].
    split; [split; assumption|exact C].
  Qed.

  (* [sorted] is what ANY sorting algorithm (stable or not) or none at all
     produces from the non-nil entries *)
  Theorem recover_secret_correct_any_sort (t : nat) (c : list F) (sh : list (entry q)) sorted :
    (1 <= t)%nat -> length c = t -> shares_on c sh ->
    (t <= length (nodup Z.eq_dec (valid_idx sh)))%nat ->
    Permutation sorted (nonnil sh) ->
    recover_secret_from t sorted = Some (hd zzero c) /\
    recover_commit_from t sorted = Some (hd zzero c) /\
    recover_pripoly_from t sorted = Some c /\
    exists b0, recover_pubpoly_from t sorted = Some (b0, c).
  Proof.
    intros Ht Hc Hsh Hd P.
    assert (V : on_polynomial c sorted) by (apply (on_polynomial_perm c (nonnil sh)); [exact P|apply shares_on_nonnil; exact Hsh]).
    assert (D : (t <= distinct sorted)%nat) by (rewrite (distinct_perm (nonnil sh)); [exact Hd|exact P]).
    repeat split.
    - apply recover_secret_from_correct; assumption.
    - apply (recover_commit_from_correct t Ht sorted D c Hc V).
    - apply recover_pripoly_from_correct; assumption.
    - destruct (recover_pubpoly_from_correct t Ht sorted D c Hc V) as [b0 [E _]]. exists b0. exact E.
  Qed.

  Theorem recover_secret_correct (t : nat) (c : list F) (sh : list (entry q)) :
    (1 <= t)%nat -> length c = t -> shares_on c sh ->
    (t <= length (nodup Z.eq_dec (valid_idx sh)))%nat ->
    recover_secret t sh = Some (hd zzero c).
  Proof.
    intros Ht Hc Hsh Hd.
    apply (recover_secret_correct_any_sort t c sh (sort_by_idx (nonnil sh)) Ht Hc Hsh Hd (sort_by_idx_perm _)).
  Qed.

  Theorem recover_commit_correct (t : nat) (cm : list F) (psh : list (entry q)) :
    (1 <= t)%nat -> length cm = t ->
    (forall i y, In (Some (i, Some y)) psh ->
       (0 <= i < q - 1)%Z /\ (i < 4294967295)%Z /\ y = snd (pub_eval cm i)) ->
    (t <= length (nodup Z.eq_dec (valid_idx psh)))%nat ->
    recover_commit t psh = Some (hd pzero cm) /\
    exists b0, recover_pubpoly t psh = Some (b0, cm).
  Proof.
    intros Ht Hc Hsh Hd.
    assert (Hsh' : shares_on cm psh).
    { intros i y Hi. destruct (Hsh i y Hi) as [A [B C]]. split; [exact A|split; [exact B|]].
      rewrite C. unfold pub_eval. cbn [snd]. apply (pub_peval_eq q q_prime). }
    destruct (recover_secret_correct_any_sort t cm psh (sort_by_idx (nonnil psh)) Ht Hc Hsh' Hd (sort_by_idx_perm _))
      as [_ [E2 [_ E4]]].
    split; [exact E2|exact E4].
  Qed.

  Theorem recover_pripoly_correct (t : nat) (c : list F) (sh : list (entry q)) :
    (1 <= t)%nat -> length c = t -> shares_on c sh ->
    (t <= length (nodup Z.eq_dec (valid_idx sh)))%nat ->
    recover_pripoly t sh = Some c.
  Proof.
    intros Ht Hc Hsh Hd.
    apply (recover_secret_correct_any_sort t c sh (sort_by_idx (nonnil sh)) Ht Hc Hsh Hd (sort_by_idx_perm _)).
  Qed.

  (* fewer than t distinct indices with a value: all four functions refuse,
     whatever the values, the order and the sorting algorithm *)
  Theorem recover_refuses (t : nat) (sh : list (entry q)) sorted :
    (length (nodup Z.eq_dec (valid_idx sh)) < t)%nat ->
    Permutation sorted (nonnil sh) ->
    recover_secret_from t sorted = None /\ recover_commit_from t sorted = None /\
    recover_pripoly_from t sorted = None /\ recover_pubpoly_from t sorted = None.
  Proof.
    intros Hd P.
    assert (D : (distinct sorted < t)%nat) by (rewrite (distinct_perm (nonnil sh)); [exact Hd|exact P]).
    repeat split.
    - apply recover_secret_from_refuses; solve [exact D | lia].
    - apply recover_commit_from_refuses; solve [exact D | lia].
    - apply recover_pripoly_from_refuses; solve [exact D | lia].
    - apply recover_pubpoly_from_refuses; solve [exact D | lia].
  Qed.

  Theorem recover_secret_refuses (t : nat) (sh : list (entry q)) :
    (length (nodup Z.eq_dec (valid_idx sh)) < t)%nat ->
    recover_secret t sh = None /\ recover_commit t sh = None /\
    recover_pripoly t sh = None /\ recover_pubpoly t sh = None.
  Proof.
    intros Hd. apply (recover_refuses t sh (sort_by_idx (nonnil sh)) Hd (sort_by_idx_perm _)).
  Qed.

  (* any reordering of the slice, insertion of nil entries, of entries without
     value, of duplicates or of surplus shares leaves all results unchanged *)
  Corollary recover_slice_independent (t : nat) (c : list F) (sh sh' : list (entry q)) :
    (1 <= t)%nat -> length c = t -> shares_on c sh -> shares_on c sh' ->
    (t <= length (nodup Z.eq_dec (valid_idx sh)))%nat ->
    (t <= length (nodup Z.eq_dec (valid_idx sh')))%nat ->
    recover_secret t sh = recover_secret t sh' /\ recover_commit t sh = recover_commit t sh' /\
    recover_pripoly t sh = recover_pripoly t sh'.
  Proof.
    intros Ht Hc H1 H2 D1 D2.
    destruct (recover_secret_correct_any_sort t c sh _ Ht Hc H1 D1 (sort_by_idx_perm _)) as [A1 [A2 [A3 _]]].
    destruct (recover_secret_correct_any_sort t c sh' _ Ht Hc H2 D2 (sort_by_idx_perm _)) as [B1 [B2 [B3 _]]].
    unfold recover_secret, recover_commit, recover_pripoly.
    rewrite A1, A2, A3, B1, B2, B3. repeat split.
  Qed.

  (* the dealer's own shares satisfy the premises *)
  Lemma pri_shares_on (c : list F) (n : nat) : (Z.of_nat n < q)%Z -> (Z.of_nat n < 4294967296)%Z ->
    shares_on c (map (fun s => Some (fst s, Some (snd s))) (pri_shares c n)).
  Proof.
    intros Hq H32 i y Hi. apply in_map_iff in Hi. destruct Hi as [s [E Hs]].
    unfold pri_shares in Hs. apply in_map_iff in Hs. destruct Hs as [k [<- Hk]].
    unfold zseq in Hk. apply in_map_iff in Hk. destruct Hk as [k' [<- Hk']]. apply in_seq in Hk'.
    unfold pri_eval in E. cbn [fst snd] in E. injection E as <- <-.
    repeat split; lia.
  Qed.
End ShamirProofs.

Arguments keys {q} m.
Arguments vidx {q} l.
Arguments valid_idx {q} sh.
Arguments good {q} m.
Arguments on_polynomial {q} c l.
Arguments indices_ok {q} l.
Arguments distinct {q} l.
Arguments shares_on {q} c sh.

(* ---------------------------------------------------------------- end to end:
   any slice built from the dealer's Shares(n) / the commitment's Shares(n) *)
Section Dealer.
  Variable q : Z.
  Hypothesis q_prime : prime q.
  Notation F := (zq q).

  Variables (t n : nat) (c : list F) (b : F).
  Hypothesis t_pos : (1 <= t)%nat.
  Hypothesis c_len : length c = t.
  Hypothesis n_small : (Z.of_nat n < q)%Z /\ (Z.of_nat n < 4294967296)%Z.

  Lemma in_pri_shares i y : In (i, y) (pri_shares c n) ->
    (0 <= i < q - 1)%Z /\ (i < 4294967295)%Z /\ y = peval c (xeval q i).
  Proof.
    intros H.
    apply (pri_shares_on q c n (proj1 n_small) (proj2 n_small) i y).
    apply in_map_iff. exists (i, y). split; [reflexivity|exact H].
  Qed.

  Theorem recover_from_dealer_shares (sh psh : list (entry q)) :
    (forall i y, In (Some (i, Some y)) sh -> In (i, y) (pri_shares c n)) ->
    (forall i y, In (Some (i, Some y)) psh -> In (i, y) (pub_shares (commit b c) n)) ->
    ((t <= length (nodup Z.eq_dec (valid_idx sh)))%nat ->
       recover_secret t sh = Some (hd zzero c) /\ recover_pripoly t sh = Some c) /\
    ((t <= length (nodup Z.eq_dec (valid_idx psh)))%nat ->
       recover_commit t psh = Some (smul (hd zzero c) b) /\
       exists b0, recover_pubpoly t psh = Some (b0, commit b c)).
  Proof.
    intros Hs Hp. split; intros Hd.
    - assert (V : shares_on c sh) by (intros i y Hi; apply in_pri_shares; apply Hs; exact Hi).
      split; [apply recover_secret_correct|apply recover_pripoly_correct]; assumption.
    - assert (E : hd pzero (commit b c) = smul (hd zzero c) b).
      { destruct c as [|a c']; [|reflexivity]. cbn [commit map hd]. unfold smul, pzero.
        pose proof (zq_ring q) as R. symmetry. rewrite (Rmul_comm R). apply zq_eq.
        unfold zmul, zzero. rewrite !val_of_Z. rewrite Z.mul_0_r. reflexivity. }
      rewrite <- E. apply (recover_commit_correct q q_prime); try assumption.
      + unfold commit. rewrite map_length. exact c_len.
      + intros i y Hi. apply Hp in Hi. rewrite (pub_shares_commit q q_prime) in Hi.
        apply in_map_iff in Hi. destruct Hi as [[i' y'] [E' Hi]]. cbn [fst snd] in E'.
        injection E' as <- <-. destruct (in_pri_shares _ _ Hi) as [A [B C]].
        split; [exact A|split; [exact B|]].
        rewrite (eval_commit_commute q q_prime). cbn [snd pri_eval]. rewrite C. reflexivity.
  Qed.
End Dealer.
