(* Order independence of share selection on ARBITRARY values (not only shares
   of one polynomial): what a Pedersen resharing feeds to RecoverPriPoly /
   RecoverCommit are values of unrelated polynomials, so which t entries are
   selected matters.  For slices whose non-nil entries carry pairwise distinct
   indices, every permutation of the slice (and any placement of nil entries)
   sorts to the same list; hence selection and all four recover functions
   return the same result. *)
From Coq Require Import ZArith List Bool Lia Permutation Sorted.
From Kyber Require Import Algebra.Zq Algebra.Grp Share.ShamirSM Share.ShamirProofs.
Import ListNotations.
Local Open Scope Z_scope.

Section Perm.
  Variable q : Z.
  Notation F := (zq q).
  Notation item := (Z * option F)%type.

  Definition lt_idx (a b : item) : Prop := fst a < fst b.
  Definition le_idx (a b : item) : Prop := fst a <= fst b.

  Lemma le_idx_trans : Relations_1.Transitive le_idx.
  Proof. intros a b c; unfold le_idx; lia. Qed.

  Lemma strongly_le_nodup_lt (l : list item) :
    StronglySorted le_idx l -> NoDup (map fst l) -> StronglySorted lt_idx l.
  Proof.
    induction l as [|h r IH]; intros Hs Hn; [constructor|].
    inversion Hs as [|? ? Hs' Hall]; subst. inversion Hn as [|? ? Hnotin Hn']; subst.
    constructor; [apply IH; assumption|].
    rewrite Forall_forall in *. intros x Hx. specialize (Hall x Hx). unfold le_idx, lt_idx in *.
    assert (fst x <> fst h); [|lia].
    intros E. apply Hnotin. rewrite <- E. apply in_map. exact Hx.
  Qed.

  Lemma strict_sorted_perm_unique (l1 l2 : list item) :
    StronglySorted lt_idx l1 -> StronglySorted lt_idx l2 -> Permutation l1 l2 -> l1 = l2.
  Proof.
    revert l2. induction l1 as [|h1 r1 IH]; intros l2 S1 S2 P.
    - apply Permutation_nil in P. subst. reflexivity.
    - destruct l2 as [|h2 r2]; [apply Permutation_sym, Permutation_nil in P; discriminate|].
      inversion S1 as [|? ? S1' A1]; subst. inversion S2 as [|? ? S2' A2]; subst.
      rewrite Forall_forall in A1, A2.
      assert (E : h1 = h2).
      { assert (I1 : In h1 (h2 :: r2)) by (eapply Permutation_in; [exact P|left; reflexivity]).
        assert (I2 : In h2 (h1 :: r1)) by (eapply Permutation_in; [apply Permutation_sym; exact P|left; reflexivity]).
        destruct I1 as [E|I1]; [symmetry; exact E|].
        destruct I2 as [E|I2]; [exact E|].
        specialize (A2 _ I1). specialize (A1 _ I2). unfold lt_idx in *. lia. }
      subst h2. f_equal. apply IH; try assumption.
      eapply Permutation_cons_inv. exact P.
  Qed.

  Lemma sort_strict (l : list item) : NoDup (map fst l) -> StronglySorted lt_idx (sort_by_idx l).
  Proof.
    intros Hn. apply strongly_le_nodup_lt.
    - apply Sorted_StronglySorted; [exact le_idx_trans|]. apply sort_by_idx_sorted.
    - eapply Permutation_NoDup; [|exact Hn]. apply Permutation_map, Permutation_sym, sort_by_idx_perm.
  Qed.

  Theorem sort_perm_invariant (l1 l2 : list item) :
    NoDup (map fst l1) -> Permutation l1 l2 -> sort_by_idx l1 = sort_by_idx l2.
  Proof.
    intros Hn P. assert (Hn2 : NoDup (map fst l2)) by (eapply Permutation_NoDup; [apply Permutation_map; exact P|exact Hn]).
    apply strict_sorted_perm_unique; try (apply sort_strict; assumption).
    rewrite (sort_by_idx_perm q l1), (sort_by_idx_perm q l2). exact P.
  Qed.

  (* the slice level: nil pointers anywhere, any order *)
  Theorem select_perm_invariant (t : nat) (sh1 sh2 : list (entry q)) :
    NoDup (map fst (nonnil sh1)) -> Permutation (nonnil sh1) (nonnil sh2) ->
    select t sh1 = select t sh2 /\
    recover_secret t sh1 = recover_secret t sh2 /\
    recover_commit t sh1 = recover_commit t sh2 /\
    recover_pripoly t sh1 = recover_pripoly t sh2.
  Proof.
    intros Hn P. unfold select, recover_secret, recover_commit, recover_pripoly.
    rewrite (sort_perm_invariant _ _ Hn P). repeat split.
  Qed.
End Perm.
