(* Runner for the C07 correspondence: evaluates the model of share/poly.go on
   the inputs the harness ran the implementation on (driven over the
   transparent discrete-log group, so every scalar and every point logarithm is
   known exactly) and lists the cases whose observations differ.  Not used by
   any theorem. *)
From Coq Require Import ZArith List Bool.
From Kyber Require Import Algebra.Zq Algebra.Grp Share.ShamirSM.
Import ListNotations.
Local Open Scope Z_scope.

Definition zs (q : Z) (l : list Z) : list (zq q) := map (of_Z q) l.
Definition vals {q} (l : list (zq q)) : list Z := map val l.

Fixpoint zlist_eqb (a b : list Z) : bool :=
  match a, b with
  | [], [] => true
  | x :: a', y :: b' => (x =? y) && zlist_eqb a' b'
  | _, _ => false
  end.

Fixpoint pairs_eqb (a b : list (Z * Z)) : bool :=
  match a, b with
  | [], [] => true
  | (i, x) :: a', (j, y) :: b' => (i =? j) && (x =? y) && pairs_eqb a' b'
  | _, _ => false
  end.

Definition oz_eqb (a b : option Z) : bool :=
  match a, b with
  | None, None => true
  | Some x, Some y => x =? y
  | _, _ => false
  end.

Definition ol_eqb (a b : option (list Z)) : bool :=
  match a, b with
  | None, None => true
  | Some x, Some y => zlist_eqb x y
  | _, _ => false
  end.

Definition mk_entry (q : Z) (e : option (Z * option Z)) : entry q :=
  match e with
  | None => None
  | Some (i, v) => Some (i, option_map (of_Z q) v)
  end.

Definition vshares {q} (l : list (Z * zq q)) : list (Z * Z) := map (fun s => (fst s, val (snd s))) l.

Inductive case :=
(* one polynomial: Shares(n), Commit(base), PubPoly.Shares(n), Eval at arbitrary
   uint32 indices (private value, public value), Check verdicts *)
| CPoly (id q : Z) (coeffs : list Z) (base n : Z)
        (shares : list (Z * Z)) (commits : list Z) (pshares : list (Z * Z))
        (evals : list (Z * (Z * Z))) (checks : list (Z * (Z * bool)))
(* PriPoly.Add / Mul / Equal, PubPoly.Add / Equal on Commit(base) of both; None = error or panic *)
| CArith (id q : Z) (p1 p2 : list Z) (base : Z)
         (sum prod pubsum : option (list Z)) (eq pubeq : bool)
(* the four Recover functions on one share slice (private and public) *)
| CRec (id q t : Z) (sh psh : list (option (Z * option Z)))
       (sec com : option Z) (pri : option (list Z)) (pub : option (Z * list Z))
(* RecoverSecret / RecoverCommit only (large thresholds, where the full
   interpolation is expensive to recompute) *)
| CRecS (id q t : Z) (sh psh : list (option (Z * option Z))) (sec com : option Z).

Definition check_case (c : case) : option Z :=
  match c with
  | CPoly id q coeffs base n shares commits pshares evals checks =>
      let c := zs q coeffs in
      let b := of_Z q base in
      let cm := commit b c in
      let ok :=
        pairs_eqb (vshares (pri_shares c (Z.to_nat n))) shares
        && zlist_eqb (vals cm) commits
        && pairs_eqb (vshares (pub_shares cm (Z.to_nat n))) pshares
        && forallb (fun e => let '(i, (v, pv)) := e in
                             (val (snd (pri_eval c i)) =? v) && (val (snd (pub_eval cm i)) =? pv)) evals
        && forallb (fun e => let '(i, (v, verdict)) := e in
                             Bool.eqb (check b cm (i, of_Z q v)) verdict) checks in
      if ok then None else Some id
  | CArith id q p1 p2 base sum prod pubsum eq pubeq =>
      let a := zs q p1 in
      let b := zs q p2 in
      let g := of_Z q base in
      let ok :=
        ol_eqb (option_map vals (poly_add a b)) sum
        && ol_eqb (option_map vals (poly_mul a b)) prod
        && ol_eqb (option_map vals (pub_add (commit g a) (commit g b))) pubsum
        && Bool.eqb (list_zeqb a b) eq
        && Bool.eqb (list_zeqb (commit g a) (commit g b)) pubeq in
      if ok then None else Some id
  | CRec id q t sh psh sec com pri pub =>
      let tn := Z.to_nat t in
      let s := map (mk_entry q) sh in
      let p := map (mk_entry q) psh in
      let okpub :=
        match recover_pubpoly tn p, pub with
        | None, None => true
        | Some (_, c), Some (b, c') =>
            zlist_eqb (vals c) c'
            (* the stored base is the value of whichever share the map iteration
               yielded first: some valued entry of the slice (which one is not
               an observable the property speaks about) *)
            && existsb (fun e => match e with Some (_, Some y) => val y =? b | _ => false end) p
        | _, _ => false
        end in
      let ok :=
        oz_eqb (option_map val (recover_secret tn s)) sec
        && oz_eqb (option_map val (recover_commit tn p)) com
        && ol_eqb (option_map vals (recover_pripoly tn s)) pri
        && okpub in
      if ok then None else Some id
  | CRecS id q t sh psh sec com =>
      let tn := Z.to_nat t in
      let s := map (mk_entry q) sh in
      let p := map (mk_entry q) psh in
      if oz_eqb (option_map val (recover_secret tn s)) sec
         && oz_eqb (option_map val (recover_commit tn p)) com
      then None else Some id
  end.

Definition mismatches (cs : list case) : list Z :=
  flat_map (fun c => match check_case c with Some i => [i] | None => [] end) cs.
