(* Polynomials over the prime field zq q, as coefficient lists (low to high),
   with the operations of the model ShamirSM.v: Horner evaluation, sum,
   product, scaling; the factor theorem, the bound on the number of roots and
   uniqueness of interpolation. *)
From Coq Require Import ZArith Znumtheory List Bool Lia Ring Field Permutation.
From Kyber Require Import Algebra.Zq Algebra.Grp Share.ShamirSM.
Import ListNotations.

Section PolyFacts.
  Variable q : Z.
  Hypothesis q_prime : prime q.
  Notation F := (zq q).
  Add Field zqF : (zq_field q q_prime).

  Lemma peval_nil (x : F) : peval (@nil F) x = zzero.
  Proof. reflexivity. Qed.

  Lemma peval_cons (c : F) p x : peval (c :: p) x = zadd (zmul (peval p x) x) c.
  Proof. reflexivity. Qed.

  Lemma pub_peval_eq (c : list F) x : pub_peval c x = peval c x.
  Proof.
    induction c as [|a c IH]; [reflexivity|].
    unfold pub_peval in *. cbn [fold_right]. rewrite IH. rewrite peval_cons.
    unfold padd, smul. ring.
  Qed.

  Lemma peval_zip_add : forall (p r : list F) x, length p = length r ->
    peval (zip_add p r) x = zadd (peval p x) (peval r x).
  Proof.
    induction p as [|a p IH]; intros [|b r] x H; try discriminate.
    - cbn [zip_add]. rewrite peval_nil. ring.
    - cbn [zip_add]. rewrite !peval_cons. rewrite IH by (cbn in H; lia). ring.
  Qed.

  Lemma length_zip_add : forall (p r : list F), length p = length r -> length (zip_add p r) = length p.
  Proof.
    induction p as [|a p IH]; intros [|b r] H; try discriminate; [reflexivity|].
    cbn [zip_add length]. f_equal. apply IH. cbn in H. lia.
  Qed.

  Lemma peval_ext_add : forall (p r : list F) x,
    peval (ext_add p r) x = zadd (peval p x) (peval r x).
  Proof.
    induction p as [|a p IH]; intros r x.
    - cbn [ext_add]. rewrite peval_nil. ring.
    - destruct r as [|b r].
      + cbn [ext_add]. rewrite peval_nil. ring.
      + cbn [ext_add]. rewrite !peval_cons. rewrite IH. ring.
  Qed.

  Lemma length_ext_add : forall (p r : list F), length (ext_add p r) = Nat.max (length p) (length r).
  Proof.
    induction p as [|a p IH]; intros r.
    - reflexivity.
    - destruct r as [|b r]; [reflexivity|]. cbn [ext_add length]. rewrite IH. reflexivity.
  Qed.

  Lemma peval_pscale a (p : list F) x : peval (pscale a p) x = zmul (peval p x) a.
  Proof.
    induction p as [|c p IH].
    - unfold pscale. cbn [map]. rewrite peval_nil. ring.
    - unfold pscale in *. cbn [map]. rewrite !peval_cons. rewrite IH. ring.
  Qed.

  Lemma length_pscale a (p : list F) : length (pscale a p) = length p.
  Proof. unfold pscale. apply map_length. Qed.

  Lemma peval_map_mul a (p : list F) x : peval (map (fun c => zmul a c) p) x = zmul a (peval p x).
  Proof.
    induction p as [|c p IH].
    - cbn [map]. rewrite peval_nil. ring.
    - cbn [map]. rewrite !peval_cons. rewrite IH. ring.
  Qed.

  Lemma peval_map_opp (p : list F) x : peval (map zopp p) x = zopp (peval p x).
  Proof.
    induction p as [|c p IH].
    - cbn [map]. rewrite peval_nil. ring.
    - cbn [map]. rewrite !peval_cons. rewrite IH. ring.
  Qed.

  Lemma peval_repeat_zero n (x : F) : peval (repeat zzero n) x = zzero.
  Proof.
    induction n as [|n IH]; [reflexivity|]. cbn [repeat]. rewrite peval_cons, IH. ring.
  Qed.

  Lemma peval_mul_aux : forall (p r : list F) x, peval (mul_aux p r) x = zmul (peval p x) (peval r x).
  Proof.
    induction p as [|a p IH]; intros r x.
    - cbn [mul_aux]. rewrite peval_nil. ring.
    - cbn [mul_aux]. rewrite peval_ext_add, peval_map_mul, !peval_cons, IH. ring.
  Qed.

  Lemma length_mul_aux : forall (p r : list F), p <> [] -> r <> [] ->
    length (mul_aux p r) = (length p + length r - 1)%nat.
  Proof.
    induction p as [|a p IH]; intros r Hp Hr; [congruence|].
    cbn [mul_aux]. rewrite length_ext_add, map_length. cbn [length].
    destruct p as [|a' p].
    - cbn [mul_aux length]. destruct r; [congruence|]. cbn [length]. lia.
    - rewrite IH by (congruence). cbn [length]. lia.
  Qed.

  Lemma Some_inj {A} (a b : A) : Some a = Some b -> a = b.
  Proof. congruence. Qed.

  (* PriPoly.Mul commutes with evaluation; the product has t1 + t2 - 1 coefficients *)
  Lemma poly_mul_eval (p r m : list F) x : poly_mul p r = Some m ->
    peval m x = zmul (peval p x) (peval r x).
  Proof.
    unfold poly_mul. destruct p as [|a p]; destruct r as [|b r]; intros H; try discriminate; apply Some_inj in H; rewrite <- H.
    - rewrite peval_repeat_zero, peval_nil. ring.
    - rewrite peval_repeat_zero, peval_nil. ring.
    - apply peval_mul_aux.
  Qed.

  Lemma poly_mul_length (p r m : list F) : poly_mul p r = Some m ->
    length m = (length p + length r - 1)%nat.
  Proof.
    unfold poly_mul. destruct p as [|a p]; destruct r as [|b r]; intros H; try discriminate; apply Some_inj in H; rewrite <- H.
    - rewrite repeat_length. cbn [length]. lia.
    - rewrite repeat_length. cbn [length]. lia.
    - apply length_mul_aux; congruence.
  Qed.

  Lemma poly_mul_defined (p r : list F) : p <> [] \/ r <> [] -> poly_mul p r <> None.
  Proof.
    unfold poly_mul. destruct p, r; intros [H|H]; congruence.
  Qed.

  (* ---------------------------------------------------------------- factor theorem *)

  (* synthetic division by (X - a): (p(a), quotient) *)
  Fixpoint divx (a : F) (p : list F) : F * list F :=
    match p with
    | [] => (zzero, [])
    | c :: p' =>
        match p' with
        | [] => (c, [])
        | _ => let rq := divx a p' in (zadd c (zmul a (fst rq)), fst rq :: snd rq)
        end
    end.

  Lemma divx_cons2 a c c' p' :
    divx a (c :: c' :: p') =
    (zadd c (zmul a (fst (divx a (c' :: p')))), fst (divx a (c' :: p')) :: snd (divx a (c' :: p'))).
  Proof. reflexivity. Qed.

  Lemma divx_spec a : forall p x,
    peval p x = zadd (fst (divx a p)) (zmul (zsub x a) (peval (snd (divx a p)) x)).
  Proof.
    induction p as [|c p IH]; intros x.
    - cbn [divx fst snd]. rewrite peval_nil. ring.
    - destruct p as [|c' p'].
      + cbn [divx fst snd]. rewrite peval_cons, !peval_nil. ring.
      + rewrite divx_cons2. set (rq := divx a (c' :: p')) in *.
        cbn [fst snd]. rewrite peval_cons. rewrite (IH x).
        rewrite (peval_cons (fst rq)). ring.
  Qed.

  Lemma divx_length a : forall p, length (snd (divx a p)) = pred (length p).
  Proof.
    induction p as [|c p IH]; [reflexivity|].
    destruct p as [|c' p']; [reflexivity|].
    rewrite divx_cons2. set (rq := divx a (c' :: p')) in *.
    cbn [snd length]. cbn [length] in IH. rewrite IH. reflexivity.
  Qed.

  Lemma divx_zero a : forall p, fst (divx a p) = zzero ->
    Forall (fun c => c = zzero) (snd (divx a p)) -> Forall (fun c => c = zzero) p.
  Proof.
    induction p as [|c p IH]; intros H0 HQ; [constructor|].
    destruct p as [|c' p'].
    - cbn [divx fst] in H0. constructor; [exact H0|constructor].
    - rewrite divx_cons2 in H0, HQ. set (rq := divx a (c' :: p')) in *.
      cbn [fst snd] in H0, HQ.
      apply Forall_cons_iff in HQ. destruct HQ as [Hr Hq'].
      constructor.
      + rewrite Hr in H0. rewrite <- H0. ring.
      + apply IH; assumption.
  Qed.

  Lemma zsub_eq_0 (a b : F) : zsub a b = zzero -> a = b.
  Proof.
    intros H. assert (E : a = zadd (zsub a b) b) by ring. rewrite E, H. ring.
  Qed.

  (* a polynomial with at most t coefficients (degree < t) that vanishes at t
     distinct points is the zero polynomial *)
  Lemma roots_bound : forall (xs : list F) (p : list F),
    NoDup xs -> (length p <= length xs)%nat ->
    (forall x, In x xs -> peval p x = zzero) -> Forall (fun c => c = zzero) p.
  Proof.
    induction xs as [|a xs IH]; intros p Hnd Hlen Hroots.
    - destruct p; [constructor|cbn in Hlen; lia].
    - destruct p as [|c p']; [constructor|].
      set (p := c :: p') in *.
      inversion Hnd as [|? ? Hnotin Hnd']; subst.
      assert (Ha : fst (divx a p) = zzero).
      { pose proof (divx_spec a p a) as S. rewrite (Hroots a (or_introl eq_refl)) in S.
        rewrite S. ring. }
      apply (divx_zero a); [exact Ha|].
      apply IH; [exact Hnd'| |].
      + rewrite divx_length. subst p. cbn [length] in *. lia.
      + intros x Hx.
        pose proof (divx_spec a p x) as S. rewrite (Hroots x (or_intror Hx)), Ha in S.
        assert (M : zmul (zsub x a) (peval (snd (divx a p)) x) = zzero) by (rewrite S; ring).
        apply (zmul_eq_0 q q_prime) in M. destruct M as [M|M]; [|exact M].
        apply zsub_eq_0 in M. subst x. contradiction.
  Qed.

  Lemma zip_sub_zero : forall (p r : list F), length p = length r ->
    Forall (fun c => c = zzero) (zip_add p (map zopp r)) -> p = r.
  Proof.
    induction p as [|a p IH]; intros [|b r] H HF; try discriminate; [reflexivity|].
    cbn [map zip_add] in HF. inversion HF as [|? ? H0 HF']; subst.
    f_equal.
    - assert (E : a = zadd (zadd a (zopp b)) b) by ring. rewrite E, H0. ring.
    - apply IH; [cbn in H; lia|exact HF'].
  Qed.

  (* uniqueness of interpolation: two coefficient lists of the same length t
     that agree at t distinct points are equal *)
  Theorem interp_unique (xs : list F) (p r : list F) :
    NoDup xs -> length p = length r -> (length p <= length xs)%nat ->
    (forall x, In x xs -> peval p x = peval r x) -> p = r.
  Proof.
    intros Hnd Hlen Hle Hag.
    apply zip_sub_zero; [exact Hlen|].
    apply (roots_bound xs); [exact Hnd| |].
    - rewrite length_zip_add by (rewrite map_length; exact Hlen). exact Hle.
    - intros x Hx. rewrite peval_zip_add by (rewrite map_length; exact Hlen).
      rewrite peval_map_opp, (Hag x Hx). ring.
  Qed.

  (* a non-zero polynomial of degree < t has fewer than t distinct roots *)
  Corollary nonzero_poly_few_roots (xs : list F) (p : list F) :
    NoDup xs -> (exists c, In c p /\ c <> zzero) ->
    (forall x, In x xs -> peval p x = zzero) -> (length xs < length p)%nat.
  Proof.
    intros Hnd [c [Hin Hc]] Hroots.
    destruct (Nat.le_gt_cases (length p) (length xs)) as [Hle|Hlt]; [|exact Hlt].
    exfalso. pose proof (roots_bound xs p Hnd Hle Hroots) as HF.
    rewrite Forall_forall in HF. exact (Hc (HF c Hin)).
  Qed.
End PolyFacts.
