(* Store-level theorems for sign/anon Decrypt: the repaired code computes the
   pure function [decrypt_pure true] and leaves the caller's buffer untouched;
   in the code as found the re-derived header is appended in place onto
   ciphertext[:enclen], i.e. it IS the ciphertext it is compared with. *)
From Coq Require Import ZArith Znumtheory List Bool Lia.
From Kyber Require Import Algebra.Zq Algebra.Grp Enc.EncBase Enc.AnonEnc.
Import ListNotations.
Local Open Scope Z_scope.

Lemma skipn_skipn_add {A} a : forall b (l : list A), skipn b (skipn a l) = skipn (a + b) l.
Proof. induction a; intros b l; [reflexivity|]. destruct l; [rewrite !skipn_nil; reflexivity|]. cbn. apply IHa. Qed.

Lemma set_nth_length {A} (v : A) : forall l i, length (set_nth i v l) = length l.
Proof. induction l; destruct i; cbn; auto. Qed.

Lemma nth_set_nth_eq {A} (v d : A) : forall l i, (i < length l)%nat -> nth i (set_nth i v l) d = v.
Proof. induction l; destruct i; cbn; intros; try lia; auto. apply IHl. lia. Qed.

Lemma nth_set_nth_neq {A} (v d : A) : forall l i j, i <> j -> nth j (set_nth i v l) d = nth j l d.
Proof. induction l; destruct i, j; cbn; intros; try congruence; auto. Qed.

Lemma upd_length l off d : (off + length d <= length l)%nat -> length (upd l off d) = length l.
Proof. intros H. unfold upd. rewrite !app_length, firstn_length, skipn_length. lia. Qed.

(* reading back a region that ends with freshly written data *)
Lemma upd_read l off len d : (off + len + length d <= length l)%nat ->
  firstn (len + length d) (skipn off (upd l (off + len) d)) = firstn len (skipn off l) ++ d.
Proof.
  intros H. unfold upd.
  rewrite skipn_app. rewrite firstn_length. replace (off - Nat.min (off + len) (length l))%nat with 0%nat by lia.
  cbn [skipn]. rewrite skipn_firstn_comm. replace (off + len - off)%nat with len by lia.
  rewrite app_assoc. rewrite firstn_app.
  assert (L : length (firstn len (skipn off l) ++ d) = (len + length d)%nat)
    by (rewrite app_length, firstn_length, skipn_length; lia).
  rewrite L, Nat.sub_diag. cbn [firstn]. rewrite app_nil_r. rewrite <- L. apply firstn_all.
Qed.

(* a region in front of the written data is not affected *)
Lemma upd_read_before l off d lo n : (lo + n <= off)%nat -> (off + length d <= length l)%nat ->
  firstn n (skipn lo (upd l off d)) = firstn n (skipn lo l).
Proof.
  intros H1 H2. unfold upd. rewrite skipn_app, firstn_app.
  rewrite skipn_length, !firstn_length.
  replace (lo - Nat.min off (length l))%nat with 0%nat by lia.
  replace (n - (Nat.min off (length l) - lo))%nat with 0%nat by lia.
  cbn [firstn skipn]. rewrite app_nil_r. rewrite skipn_firstn_comm, firstn_firstn.
  f_equal. lia.
Qed.

(* a region behind the written data is not affected *)
Lemma upd_read_after l off d lo n : (off + length d <= lo)%nat -> (off + length d <= length l)%nat ->
  firstn n (skipn lo (upd l off d)) = firstn n (skipn lo l).
Proof.
  intros H1 H2. unfold upd. f_equal.
  rewrite app_assoc. rewrite skipn_app.
  assert (L : length (firstn off l ++ d) = (off + length d)%nat) by (rewrite app_length, firstn_length; lia).
  rewrite L. rewrite (skipn_all2 (firstn off l ++ d)) by lia. cbn [app].
  rewrite skipn_skipn_add. f_equal. lia.
Qed.

Section Store.
  Variable q : Z.
  Notation F := (zq q).
  Variable plen slen : nat.
  Variable penc : F -> bytes.
  Variable pdec : bytes -> option F.
  Variable sdec : bytes -> option F.
  Variable xof : bytes -> nat -> bytes.
  Hypothesis xof_len : forall s n, length (xof s n) = n.

  Notation slot := (slot q penc xof).
  Notation header := (header q penc xof).
  Notation header_bytes := (header_bytes q penc xof).
  Notation decrypt_key := (decrypt_key q plen slen penc pdec sdec xof).
  Notation decrypt := (decrypt q plen slen penc pdec sdec xof).
  Notation decrypt_pure := (decrypt_pure q plen slen penc pdec sdec xof).

  Lemma slot_len x xb Y : length (slot x xb Y) = length xb.
  Proof. unfold AnonEnc.slot. rewrite xorb_length_eq; auto. Qed.

  (* append within the capacity: written in place, everything else unchanged *)
  Lemma sappend_inplace st b off len cap d :
    (b < length st)%nat -> (off + cap <= length (nth b st []))%nat -> (len + length d <= cap)%nat ->
    let r := sappend st (mkslice b off len cap) d in
    snd r = mkslice b off (len + length d) cap /\
    sread (fst r) (snd r) = sread st (mkslice b off len cap) ++ d /\
    length (fst r) = length st /\
    (forall b', b' <> b -> nth b' (fst r) [] = nth b' st []) /\
    length (nth b (fst r) []) = length (nth b st []) /\
    (forall lo n, (lo + n <= off + len)%nat -> firstn n (skipn lo (nth b (fst r) [])) = firstn n (skipn lo (nth b st []))).
  Proof.
    intros Hb Hcap Hd r. unfold r, sappend. cbn [s_len s_cap s_buf s_off].
    destruct (Nat.leb_spec (len + length d) cap); [|lia]. cbn [fst snd].
    split; [reflexivity|]. unfold sread, swrite. cbn [s_len s_cap s_buf s_off].
    rewrite nth_set_nth_eq by exact Hb.
    split; [apply upd_read; lia|]. split; [apply set_nth_length|].
    split; [intros b' Hb'; apply nth_set_nth_neq; congruence|].
    split; [apply upd_length; lia|].
    intros lo n Hl. apply upd_read_before; lia.
  Qed.

  (* the loop of header(): all appends stay within the capacity *)
  Lemma header_fold x xb : forall set st b off len cap,
    (b < length st)%nat -> (off + cap <= length (nth b st []))%nat ->
    (len + length xb * length set <= cap)%nat ->
    let r := fold_left (fun acc Y => sappend (fst acc) (snd acc) (slot x xb Y)) set (st, mkslice b off len cap) in
    snd r = mkslice b off (len + length xb * length set) cap /\
    sread (fst r) (snd r) = sread st (mkslice b off len cap) ++ flat_map (slot x xb) set /\
    length (fst r) = length st /\
    (forall b', b' <> b -> nth b' (fst r) [] = nth b' st []) /\
    length (nth b (fst r) []) = length (nth b st []) /\
    (forall lo n, (lo + n <= off + len)%nat -> firstn n (skipn lo (nth b (fst r) [])) = firstn n (skipn lo (nth b st []))).
  Proof.
    induction set as [|Y set IH]; intros st b off len cap Hb Hcap Hl; cbn [fold_left flat_map length].
    - cbn [fst snd]. rewrite Nat.mul_0_r, Nat.add_0_r, app_nil_r. repeat split; auto.
    - cbn [fst snd].
      pose proof (sappend_inplace st b off len cap (slot x xb Y) Hb Hcap) as SA.
      rewrite slot_len in SA. specialize (SA ltac:(cbn [length] in Hl; lia)). cbv zeta in SA.
      destruct (sappend st (mkslice b off len cap) (slot x xb Y)) as [st1 s1] eqn:E1. cbn [fst snd] in SA.
      destruct SA as [S1 [S2 [S3 [S4 [S5 S6]]]]]. subst s1.
      specialize (IH st1 b off (len + length xb)%nat cap ltac:(lia) ltac:(lia) ltac:(cbn [length] in Hl; lia)).
      cbv zeta in IH. destruct IH as [I1 [I2 [I3 [I4 [I5 I6]]]]].
      split; [etransitivity; [apply I1|]; f_equal; cbn [length]; lia|].
      split; [etransitivity; [apply I2|]; rewrite S2, <- app_assoc; reflexivity|].
      split; [etransitivity; [apply I3|]; exact S3|].
      split; [intros b' Hb'; etransitivity; [apply I4; exact Hb'|]; apply S4; exact Hb'|].
      split; [etransitivity; [apply I5|]; exact S5|].
      intros lo n Hln. etransitivity; [apply I6; lia|]. apply S6. exact Hln.
  Qed.

  (* ---------------------------------------------------------------- repaired code *)
  (* header() of the repaired code: a new array holding Xb || slots; the
     existing arrays are not written *)
  Lemma header_fresh st x Xb xb set :
    length (sread st Xb) = s_len Xb ->
    let r := header true st x Xb xb set in
    s_len (snd r) = (s_len Xb + length xb * length set)%nat /\
    sread (fst r) (snd r) = header_bytes x (sread st Xb) xb set /\
    (forall b', (b' < length st)%nat -> nth b' (fst r) [] = nth b' st []).
  Proof.
    intros EL r. unfold r, AnonEnc.header, smake.
    set (tot := (s_len Xb + length set * length xb)%nat).
    set (st1 := st ++ [repeat 0 tot]).
    pose proof (sappend_inplace st1 (length st) 0 0 tot (sread st Xb)) as SA.
    assert (B1 : nth (length st) st1 [] = repeat 0 tot) by (unfold st1; rewrite app_nth2, Nat.sub_diag by lia; reflexivity).
    rewrite B1, repeat_length in SA.
    specialize (SA ltac:(unfold st1; rewrite app_length; cbn; lia) ltac:(lia) ltac:(unfold tot; lia)).
    cbv zeta in SA. destruct (sappend st1 _ (sread st Xb)) as [st2 s2] eqn:E2. cbn [fst snd] in SA.
    destruct SA as [S1 [S2 [S3 [S4 [S5 S6]]]]]. subst s2. rewrite EL in *.
    pose proof (header_fold x xb set st2 (length st) 0 (0 + s_len Xb)%nat tot) as HF.
    specialize (HF ltac:(rewrite S3; unfold st1; rewrite app_length; cbn; lia) ltac:(rewrite S5; lia) ltac:(unfold tot; lia)).
    cbv zeta in HF. destruct HF as [I1 [I2 [I3 [I4 [I5 I6]]]]].
    split; [etransitivity; [exact (f_equal s_len I1)|]; reflexivity|]. split.
    - etransitivity; [exact I2|]. rewrite S2. unfold sread at 1. cbn [s_len firstn]. reflexivity.
    - intros b' Hb'. etransitivity; [apply I4; lia|]. rewrite S4 by lia. unfold st1. apply app_nth1. exact Hb'.
  Qed.

  (* The repaired Decrypt, run on a ciphertext slice ct = buf[:len] of an
     arbitrary backing array, returns exactly [decrypt_pure true] of the
     ciphertext bytes and leaves the caller's array untouched. *)
  Theorem anon_repaired_refines buf len set mine priv :
    (len <= length buf)%nat ->
    let ct := mkslice 0 0 len (length buf) in
    let r := decrypt repaired [buf] ct set mine priv in
    snd r = decrypt_pure true (firstn len buf) set mine priv /\ nth 0 (fst r) [] = buf.
  Proof.
    intros Hlen ct r. unfold r, AnonEnc.decrypt, AnonEnc.decrypt_key, AnonEnc.decrypt_pure.
    cbn [hdr_fresh mac_fresh repaired].
    set (c := firstn len buf).
    assert (Lc : length c = len) by (unfold c; rewrite firstn_length; lia).
    rewrite Lc. change (s_len ct) with len.
    destruct (Nat.ltb_spec len plen) as [|L0]; [cbn; auto|].
    assert (RD : forall st lo hi, nth 0 st [] = buf -> (hi <= len)%nat ->
                 sread st (subslice ct lo hi) = firstn (hi - lo) (skipn lo c)).
    { intros st lo hi Hst Hhi. unfold sread, subslice, ct. cbn [s_buf s_off s_len]. rewrite Hst. unfold c.
      rewrite skipn_firstn_comm, firstn_firstn. f_equal. lia. }
    rewrite (RD [buf] 0%nat plen) by (auto; lia). rewrite Nat.sub_0_r. cbn [skipn].
    destruct (pdec (firstn plen c)) as [X|]; [|cbn; auto].
    destruct ((mine <? 0) || (Z.of_nat (length set) <=? mine)) eqn:Ei; [cbn; auto|].
    apply orb_false_iff in Ei. destruct Ei as [E1 E2]. apply Z.ltb_ge in E1. apply Z.leb_gt in E2.
    destruct (Nat.ltb_spec len (plen + slen * length set)) as [|L1]; [cbn; auto|].
    assert (Hm : (Z.to_nat mine < length set)%nat) by lia.
    set (secofs := (plen + slen * Z.to_nat mine)%nat).
    assert (Hs : (secofs + slen <= len)%nat) by (unfold secofs; nia).
    rewrite (RD [buf] secofs (secofs + slen)%nat) by (auto; lia).
    replace (secofs + slen - secofs)%nat with slen by lia.
    set (xb := xorb (firstn slen (skipn secofs c)) (xof (penc (smul priv X)) slen)).
    assert (Lxb : length xb = slen).
    { unfold xb. rewrite xorb_length_eq; rewrite firstn_length, skipn_length, ?xof_len; lia. }
    destruct (sdec xb) as [x|]; [|cbn; auto].
    destruct (negb (zeqb X (smul x pbase))); [cbn; auto|].
    assert (LX : length (sread [buf] (subslice ct 0 plen)) = s_len (subslice ct 0 plen)).
    { rewrite (RD [buf] 0%nat plen) by (auto; lia). cbn [subslice s_len skipn]. rewrite firstn_length. lia. }
    pose proof (header_fresh [buf] x (subslice ct 0 plen) xb set LX) as HF. cbv zeta in HF.
    destruct (header true [buf] x (subslice ct 0 plen) xb set) as [st' hdr] eqn:EH. cbn [fst snd] in HF.
    destruct HF as [H1 [H2 H3]]. specialize (H3 0%nat ltac:(cbn; lia)). cbn [nth] in H3.
    cbn [subslice s_len] in H1. rewrite Nat.sub_0_r, Lxb in H1.
    rewrite H1, Nat.eqb_refl. cbn [negb andb].
    rewrite H2. rewrite (RD [buf] 0%nat plen) by (auto; lia). rewrite Nat.sub_0_r. cbn [skipn].
    rewrite (RD st' 0%nat (plen + slen * length set)%nat) by (auto; lia). rewrite Nat.sub_0_r. cbn [skipn].
    destruct (negb (beq _ _)); [cbn; auto|].
    destruct (Nat.ltb_spec len (plen + slen * length set + macSize)) as [|L2]; [cbn; auto|].
    rewrite (RD st' (plen + slen * length set)%nat (len - macSize)%nat) by (auto; lia).
    rewrite (RD st' (len - macSize)%nat len) by (auto; lia).
    replace (firstn (len - (len - macSize)) (skipn (len - macSize) c)) with (skipn (len - macSize) c)
      by (symmetry; apply firstn_all2; rewrite skipn_length; lia).
    destruct (all_zero_b _); cbn; auto.
  Qed.

  (* ---------------------------------------------------------------- code as found *)
  (* header() appends onto ciphertext[:enclen]: the capacity of that slice is the
     capacity of the ciphertext, so every append writes INTO the ciphertext and
     the returned slice is ciphertext[:hdrlen] itself.  The comparison
     ConstantTimeCompare(hdr, ciphertext[:hdrlen]) therefore compares a buffer
     with itself: the key header is accepted as soon as the reader's own slot
     is consistent, WHATEVER the slots of the other recipients contain. *)
  Theorem anon_as_found_check_vacuous buf len set mine priv X x :
    (len <= length buf)%nat ->
    let ct := mkslice 0 0 len (length buf) in
    let c := firstn len buf in
    0 <= mine < Z.of_nat (length set) ->
    (plen + slen * length set <= len)%nat ->
    pdec (firstn plen c) = Some X ->
    let xb := xorb (firstn slen (skipn (plen + slen * Z.to_nat mine) c)) (xof (penc (smul priv X)) slen) in
    sdec xb = Some x -> X = smul x pbase ->
    snd (decrypt_key false [buf] ct set mine priv) = Ok (xb, (plen + slen * length set)%nat).
  Proof.
    intros Hlen ct c Hi L1 EX xb Ex EXx. unfold AnonEnc.decrypt_key.
    change (s_len ct) with len.
    destruct (Nat.ltb_spec len plen) as [|L0]; [lia|].
    assert (RD : forall lo hi, (hi <= len)%nat -> sread [buf] (subslice ct lo hi) = firstn (hi - lo) (skipn lo c)).
    { intros lo hi Hhi. unfold sread, subslice, ct. cbn [s_buf s_off s_len nth]. unfold c.
      rewrite skipn_firstn_comm, firstn_firstn. f_equal. lia. }
    rewrite (RD 0%nat plen) by lia. rewrite Nat.sub_0_r. cbn [skipn]. rewrite EX.
    replace ((mine <? 0) || (Z.of_nat (length set) <=? mine)) with false
      by (symmetry; apply orb_false_iff; split; [apply Z.ltb_ge|apply Z.leb_gt]; lia).
    destruct (Nat.ltb_spec len (plen + slen * length set)); [lia|].
    assert (Hm : (Z.to_nat mine < length set)%nat) by lia.
    set (secofs := (plen + slen * Z.to_nat mine)%nat).
    assert (Hs : (secofs + slen <= len)%nat) by (unfold secofs; nia).
    rewrite (RD secofs (secofs + slen)%nat) by lia.
    replace (secofs + slen - secofs)%nat with slen by lia. subst secofs. fold xb. rewrite Ex.
    destruct (zeqb_spec q X (smul x pbase)); [|contradiction]. cbn [negb].
    assert (Lxb : length xb = slen).
    { unfold xb. rewrite xorb_length_eq; rewrite firstn_length, skipn_length, ?xof_len; unfold c; rewrite ?firstn_length; lia. }
    unfold AnonEnc.header.
    pose proof (header_fold x xb set [buf] 0%nat (0 + 0)%nat (plen - 0)%nat (length buf - 0)%nat) as HF.
    specialize (HF ltac:(cbn; lia) ltac:(cbn; lia) ltac:(rewrite Lxb; lia)). cbv zeta in HF.
    destruct HF as [I1 _].
    change (mkslice 0 (0 + 0) (plen - 0) (length buf - 0)) with (subslice ct 0 plen) in I1.
    match goal with |- context [fold_left ?f set ?i] => remember (fold_left f set i) as R eqn:ER end.
    assert (I1' : snd R = mkslice 0 (0 + 0) (plen - 0 + length xb * length set) (length buf - 0)) by (rewrite ER; exact I1).
    clear ER I1. destruct R as [st' hdr]. cbn [snd] in I1'. subst hdr. cbn [s_len].
    rewrite Lxb. replace (plen - 0 + slen * length set)%nat with (plen + slen * length set)%nat by lia.
    rewrite Nat.eqb_refl. cbn [negb].
    unfold sread, subslice, ct. cbn [s_buf s_off s_len]. rewrite ?Nat.sub_0_r, ?Nat.add_0_r.
    rewrite beq_refl. reflexivity.
  Qed.
End Store.
