(* Runner for the C16 correspondence: instantiates the oracles of the models
   (HKDF, AES-GCM, SHA-256, BLAKE2Xb, hash-to-point) by the finite tables the
   harness recorded, the groups by the transparent discrete-log groups the
   implementation was driven over, evaluates the models on the recorded inputs
   and lists the cases whose observables differ.  Not used by any theorem. *)
From Coq Require Import ZArith List Bool.
From Kyber Require Import Base.Wire Algebra.Zq Algebra.Grp Enc.EncBase Enc.ECIES Enc.IBE Enc.AnonEnc.
Import ListNotations.
Local Open Scope Z_scope.

Definition q61 : Z := 2305843009213693951.   (* 2^61 - 1 *)
(* order of BLS12-381 (255 bits): scalars marshal to 32 bytes = SHA-256 size *)
Definition qbls : Z := 52435875175126190479447740508185965837690552500527637822603658699938581184513.

Definition be_bytes (n : nat) (v : Z) : bytes := be_bytes_acc n v [].
Definition be_val (b : bytes) : Z := fold_left (fun acc x => acc * 256 + x) b 0.

(* vh.DlogGroup encoding: points 0x04 || fixed-length big-endian logarithm, scalars big-endian *)
Definition penc_g (q : Z) (n : nat) (tag : Z) (P : zq q) : bytes := tag :: be_bytes n (val P).
Definition sdec_g (q : Z) (n : nat) (b : bytes) : option (zq q) :=
  if (length b =? n)%nat then let v := be_val b in if v <? q then Some (of_Z q v) else None else None.
Definition pdec_g (q : Z) (n : nat) (tag : Z) (b : bytes) : option (zq q) :=
  match b with
  | t :: r => if t =? tag then sdec_g q n r else None
  | [] => None
  end.
Definition senc_g (q : Z) (n : nat) (s : zq q) : bytes := be_bytes n (val s).

(* oracle tables *)
Definition tbl := list (bytes * bytes).
Fixpoint tlook (t : tbl) (x : bytes) : bytes :=
  match t with [] => [] | (i, o) :: r => if beq i x then o else tlook r x end.
Definition tbl2 := list (bytes * bytes * bytes).
Fixpoint tlook2 (t : tbl2) (k x : bytes) : bytes :=
  match t with [] => [-1] | (k', i, o) :: r => if beq k' k && beq i x then o else tlook2 r k x end.
Definition otbl := list (bytes * bytes * option bytes).
Fixpoint olook (t : otbl) (k x : bytes) : option bytes :=
  match t with [] => Some [-1] | (k', i, o) :: r => if beq k' k && beq i x then o else olook r k x end.
Definition itbl := list (bool * bytes * Z).
Fixpoint ilook (q : Z) (t : itbl) (g : bool) (x : bytes) : zq q :=
  match t with [] => of_Z q 0 | (g', i, o) :: r => if Bool.eqb g g' && beq i x then of_Z q o else ilook q r g x end.

Definition res_eqb (r : res bytes) (cls : Z) (out : bytes) : bool :=
  match r with
  | Ok m => (cls =? 0) && beq m out
  | Err c => (cls =? c)
  | Panic => (cls =? -1)
  end.

Definition zl (q : Z) (l : list Z) : list (zq q) := map (of_Z q) l.

Inductive case :=
| CEciesEnc (id : Z) (kdfT : tbl) (sealT : tbl2) (X r : Z) (m ct : bytes)
| CEciesDec (id : Z) (kdfT : tbl) (openT : otbl) (x : Z) (ctx : bytes) (cls : Z) (out : bytes)
| CIbeEnc (id : Z) (hT : tbl) (idT : itbl) (g2 : bool) (master : Z) (ID msg sigma : bytes)
          (cls U : Z) (V W : bytes)
| CIbeDec (id : Z) (hT : tbl) (g2 : bool) (private U : Z) (V W : bytes) (cls : Z) (out : bytes)
| CCpaEnc (id : Z) (hT : tbl) (idT : itbl) (base public : Z) (ID msg : bytes) (r : Z)
          (cls RP : Z) (C : bytes)
| CCpaDec (id : Z) (hT : tbl) (private RP : Z) (C : bytes) (cls : Z) (out : bytes)
| CAnonEnc (id : Z) (xofT : tbl) (set : list Z) (x : Z) (m ct : bytes)
| CAnonDec (id : Z) (xofT : tbl) (buf : bytes) (len : Z) (set : list Z) (mine priv : Z)
           (cls : Z) (out bufafter : bytes).

Definition P9 := penc_g q61 8 4.
Definition D9 := pdec_g q61 8 4.

Definition ibe_gtenc (g : zq qbls) : bytes := 3 :: be_bytes 32 (val g).

Definition check (c : case) : option Z :=
  match c with
  | CEciesEnc id kdfT sealT X r m ct =>
      let got := ECIES.encrypt q61 P9 (tlook kdfT) (tlook2 sealT) (of_Z q61 X) (of_Z q61 r) m in
      if beq got ct then None else Some id
  | CEciesDec id kdfT openT x ctx cls out =>
      let got := ECIES.decrypt q61 9 P9 D9 (tlook kdfT) (olook openT) (of_Z q61 x) ctx in
      if res_eqb got cls out then None else Some id
  | CIbeEnc id hT idT g2 master ID msg sigma cls U V W =>
      let got := encrypt_cca qbls 32 (tlook hT) (ilook qbls idT) ibe_gtenc (sdec_g qbls 32) true 1
                   g2 (of_Z qbls master) ID msg sigma in
      match got with
      | Ok (U', V', W') => if (cls =? 0) && (val U' =? U) && beq V' V && beq W' W then None else Some id
      | Err e => if cls =? e then None else Some id
      | Panic => if cls =? -1 then None else Some id
      end
  | CIbeDec id hT g2 private U V W cls out =>
      let got := decrypt_cca qbls 32 (tlook hT) ibe_gtenc (sdec_g qbls 32) true 1
                   g2 (of_Z qbls private) (of_Z qbls U, V, W) in
      if res_eqb got cls out then None else Some id
  | CCpaEnc id hT idT base public ID msg r cls RP C =>
      let got := encrypt_cpa qbls 32 (tlook hT) (ilook qbls idT) ibe_gtenc true
                   (of_Z qbls base) (of_Z qbls public) ID msg (of_Z qbls r) in
      match got with
      | Ok (RP', C') => if (cls =? 0) && (val RP' =? RP) && beq C' C then None else Some id
      | Err e => if cls =? e then None else Some id
      | Panic => if cls =? -1 then None else Some id
      end
  | CCpaDec id hT private RP C cls out =>
      let got := decrypt_cpa qbls 32 (tlook hT) ibe_gtenc true (of_Z qbls private) (of_Z qbls RP, C) in
      if res_eqb got cls out then None else Some id
  | CAnonEnc id xofT set x m ct =>
      let got := AnonEnc.encrypt q61 P9 (senc_g q61 8) (fun s n => firstn n (tlook xofT s))
                   (zl q61 set) (of_Z q61 x) m in
      if beq got ct then None else Some id
  | CAnonDec id xofT buf len set mine priv cls out bufafter =>
      let ct := mkslice 0 0 (Z.to_nat len) (length buf) in
      let '(st, got) := AnonEnc.decrypt q61 9 8 P9 D9 (sdec_g q61 8) (fun s n => firstn n (tlook xofT s))
                          repaired [buf] ct (zl q61 set) mine (of_Z q61 priv) in
      let pure := AnonEnc.decrypt_pure q61 9 8 P9 D9 (sdec_g q61 8) (fun s n => firstn n (tlook xofT s))
                    true (firstn (Z.to_nat len) buf) (zl q61 set) mine (of_Z q61 priv) in
      if res_eqb got cls out && res_eqb pure cls out && beq (nth 0 st []) bufafter then None else Some id
  end.

Definition mismatches (cs : list case) : list Z :=
  flat_map (fun c => match check c with Some i => [i] | None => [] end) cs.
