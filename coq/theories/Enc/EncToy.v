(* A small concrete instance of the oracles (group of order 251, toy KDF / AEAD
   / hash / XOF) on which the premises of the C16 theorems hold and the models
   can be evaluated: used for the non-vacuity example and for the concrete
   witnesses of the two defects of the code as found. *)
From Coq Require Import ZArith Znumtheory List Bool Lia.
From Kyber Require Import Algebra.Zq Algebra.Grp Enc.EncBase Enc.ECIES Enc.IBE Enc.AnonEnc.
Import ListNotations.
Local Open Scope Z_scope.

Definition tq : Z := 251.
Definition bsum (b : bytes) : Z := fold_right Z.add 0 b.

Definition tpenc (P : zq tq) : bytes := [val P].
Definition tpdec (b : bytes) : option (zq tq) :=
  match b with
  | [v] => if (0 <=? v) && (v <? tq) then Some (of_Z tq v) else None
  | _ => None
  end.
Definition tkdf (d : bytes) : bytes := d ++ [42].
(* toy AEAD: tag = the key in front, body = m XOR stream *)
Definition tks (k : bytes) (n : nat) : bytes :=
  map (fun i => (bsum k * 7 + Z.of_nat i * 13 + 5) mod 256) (seq 0 n).
Definition tseal (k m : bytes) : bytes := xorb m (tks k (length m)) ++ k.
Definition topen (k ct : bytes) : option bytes :=
  let n := (length ct - length k)%nat in
  if (length k <=? length ct)%nat && beq (skipn n ct) k then Some (xorb (firstn n ct) (tks k n)) else None.
Definition tH (x : bytes) : bytes := map (fun i => (bsum x * 31 + Z.of_nat i * 17 + 1) mod 256) (seq 0 32).
Definition thashId (g2 : bool) (id : bytes) : zq tq := of_Z tq (bsum id + (if g2 then 4 else 3)).
Definition tsdec (b : bytes) : option (zq tq) := Some (of_Z tq (bsum b)).

Lemma val_lt (P : zq tq) : 0 <= val P < tq.
Proof. apply val_range. reflexivity. Qed.

Lemma tpenc_len P : length (tpenc P) = 1%nat.
Proof. reflexivity. Qed.

Lemma tpdec_tpenc P : tpdec (tpenc P) = Some P.
Proof.
  unfold tpdec, tpenc. pose proof (val_lt P) as R.
  destruct (Z.leb_spec 0 (val P)); [|lia]. destruct (Z.ltb_spec (val P) tq); [|lia]. cbn [andb].
  f_equal. apply zq_eq. rewrite val_of_Z. apply Z.mod_small. exact R.
Qed.

Lemma tks_len k n : length (tks k n) = n.
Proof. unfold tks. rewrite map_length, seq_length. reflexivity. Qed.

Lemma topen_tseal k m : topen k (tseal k m) = Some m.
Proof.
  unfold topen, tseal.
  assert (L : length (xorb m (tks k (length m))) = length m) by (apply xorb_length_eq; rewrite tks_len; reflexivity).
  rewrite app_length, L. replace (length m + length k - length k)%nat with (length m) by lia.
  destruct (Nat.leb_spec (length k) (length m + length k)); [|lia]. cbn [andb].
  rewrite <- L at 1. rewrite skipn_app, skipn_all, Nat.sub_diag. cbn [skipn app]. rewrite beq_refl.
  rewrite <- L at 1. rewrite firstn_app, firstn_all, Nat.sub_diag. cbn [firstn]. rewrite app_nil_r.
  f_equal. apply xorb_cancel. rewrite tks_len. reflexivity.
Qed.

Lemma tH_len x : length (tH x) = 32%nat.
Proof. unfold tH. rewrite map_length, seq_length. reflexivity. Qed.

Lemma prime_tq : prime tq.
Proof. exact prime_251. Qed.

(* ---- ECIES on the toy instance *)
Definition t_ecies_enc := ECIES.encrypt tq tpenc tkdf tseal.
Definition t_ecies_dec := ECIES.decrypt tq 1 tpenc tpdec tkdf topen.

(* ---- IBE on the toy instance (hash size 32) *)
Definition t_cca_enc := encrypt_cca tq 32 tH thashId tpenc tsdec true 1.
Definition t_cca_dec := decrypt_cca tq 32 tH tpenc tsdec true 1.
Definition t_cpa_enc g := encrypt_cpa tq 32 tH thashId tpenc g.
Definition t_cpa_dec g := decrypt_cpa tq 32 tH tpenc g.

(* ---- anon on the toy instance *)
Definition t_anon_enc := AnonEnc.encrypt tq tpenc tpenc tks.
Definition t_anon_dec v := AnonEnc.decrypt tq 1 1 tpenc tpdec tpdec tks v.
Definition t_anon_pure := AnonEnc.decrypt_pure tq 1 1 tpenc tpdec tpdec tks true.

Definition zt (v : Z) : zq tq := of_Z tq v.
Definition msg40 : bytes := map Z.of_nat (seq 1 40).

Definition flip (i : nat) (c : bytes) : bytes := firstn i c ++ Z.lxor (nth i c 0) 1 :: skipn (S i) c.

(* the premises of the theorems are satisfiable, and the models compute on a
   non-trivial instance: round trips, refusal, rejection of altered inputs *)
Lemma toy_nonvacuous :
  prime tq /\ (forall P, length (tpenc P) = 1%nat) /\ (forall P, tpdec (tpenc P) = Some P) /\
  (forall k m, topen k (tseal k m) = Some m) /\ (forall x, length (tH x) = 32%nat) /\
  (forall s n, length (tks s n) = n) /\
  (* ECIES *)
  t_ecies_dec (zt 9) (t_ecies_enc (zt 9) (zt 5) [1; 2; 3]) = Ok [1; 2; 3] /\
  t_ecies_dec (zt 9) (flip 2 (t_ecies_enc (zt 9) (zt 5) [1; 2; 3])) = Ok [1; 3; 3] /\ (* toy AEAD has no integrity: [auth] is a real premise *)
  t_ecies_dec (zt 9) [] = Err 1 /\
  (* IBE CCA, both assignments: 20-byte message *)
  (forall g2, match t_cca_enc g2 (zt 6) [7; 7] (firstn 20 msg40) (repeat 9 20) with
              | Ok c => t_cca_dec g2 (smul (zt 6) (thashId g2 [7; 7])) c = Ok (firstn 20 msg40) /\
                        (let '(U, V, W) := c in
                         t_cca_dec g2 (smul (zt 6) (thashId g2 [7; 7])) (U, flip 3 V, W) = Err 4 /\
                         t_cca_dec g2 (smul (zt 6) (thashId g2 [7; 7])) (U, V, firstn 19 W) = Err 3)
              | _ => False end) /\
  t_cca_enc false (zt 6) [7; 7] msg40 (repeat 9 40) = Err 1 /\
  (* IBE CPA: the repaired code refuses 40 bytes, the code as found sends bytes 32.. in the clear *)
  t_cpa_enc true (zt 1) (zt 6) [7] msg40 (zt 11) = Err 1 /\
  match t_cpa_enc false (zt 1) (zt 6) [7] msg40 (zt 11) with
  | Ok (_, C) => skipn 32 C = skipn 32 msg40
  | _ => False end /\
  (* anon: three recipients, every index *)
  (forall i, In i [0; 1; 2] ->
     t_anon_pure (t_anon_enc [zt 3; zt 5; zt 8] (zt 7) msg40) [zt 3; zt 5; zt 8] i (nth (Z.to_nat i) [zt 3; zt 5; zt 8] (zt 0)) = Ok msg40).
Proof.
  split; [exact prime_tq|]. split; [exact tpenc_len|]. split; [exact tpdec_tpenc|].
  split; [exact topen_tseal|]. split; [exact tH_len|]. split; [exact tks_len|].
  split; [vm_compute; reflexivity|]. split; [vm_compute; reflexivity|]. split; [vm_compute; reflexivity|].
  split; [intros [|]; vm_compute; repeat split|].
  split; [vm_compute; reflexivity|]. split; [vm_compute; reflexivity|]. split; [vm_compute; reflexivity|].
  intros i [<-|[<-|[<-|[]]]]; vm_compute; reflexivity.
Qed.

(* Witness of the aliasing defect (sign/anon Decrypt as found): recipient 0
   decrypts a ciphertext whose slot for recipient 2 was altered.  The code as
   found accepts it (and rewrites the caller's buffer: the altered slot is
   silently repaired, the MAC is zeroed); the repaired code rejects it and
   leaves the buffer alone. *)
Lemma toy_anon_aliasing_witness :
  let set := [zt 3; zt 5; zt 8] in
  let c := t_anon_enc set (zt 7) msg40 in
  let c' := flip 3 c in                       (* byte 3 = slot of recipient 2 *)
  let ct := mkslice 0 0 (length c') (length c') in
  snd (t_anon_dec as_found [c'] ct set 0 (zt 3)) = Ok msg40 /\
  nth 0 (fst (t_anon_dec as_found [c'] ct set 0 (zt 3))) [] <> c' /\
  snd (t_anon_dec repaired [c'] ct set 0 (zt 3)) = Err 4 /\
  nth 0 (fst (t_anon_dec repaired [c'] ct set 0 (zt 3))) [] = c' /\
  (* a second Decrypt of the buffer the code as found left behind fails *)
  snd (t_anon_dec as_found [nth 0 (fst (t_anon_dec as_found [c] ct set 0 (zt 3))) []] ct set 1 (zt 5)) = Err 5.
Proof.
  vm_compute. repeat split; try reflexivity. discriminate.
Qed.
