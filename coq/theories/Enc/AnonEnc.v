(* Model of sign/anon/enc.go: anonymity-set encryption.
     ciphertext = X || (x XOR ks(x*Y_i))_i || m XOR ks(x) || ks(body)[0..16]
   Decrypt is modelled over an explicit byte-array store with Go slice
   semantics (backing array, offset, length, capacity; append writes in place
   when the capacity allows), because the code as found builds the re-derived
   header with append() onto ciphertext[:enclen] - i.e. INTO the ciphertext it
   is then compared with - and XORs the MAC in place.  The [variant] selects
   the code as found (both flags false) or the repaired code (both true). *)
From Coq Require Import ZArith Znumtheory List Bool Lia Ring Field.
From Kyber Require Import Algebra.Zq Algebra.Grp Enc.EncBase.
Import ListNotations.
Local Open Scope Z_scope.

(* ------------------------------------------------------------ byte store *)
Definition store := list bytes.
Record slice := mkslice { s_buf : nat; s_off : nat; s_len : nat; s_cap : nat }.

Definition sread (st : store) (s : slice) : bytes :=
  firstn (s_len s) (skipn (s_off s) (nth (s_buf s) st [])).

Definition upd (l : bytes) (off : nat) (data : bytes) : bytes :=
  firstn off l ++ data ++ skipn (off + length data) l.

Fixpoint set_nth {A} (i : nat) (v : A) (l : list A) : list A :=
  match l, i with
  | [], _ => []
  | _ :: t, O => v :: t
  | x :: t, S k => x :: set_nth k v t
  end.

Definition swrite (st : store) (b off : nat) (data : bytes) : store :=
  set_nth b (upd (nth b st []) off data) st.

(* s[lo:hi] *)
Definition subslice (s : slice) (lo hi : nat) : slice :=
  mkslice (s_buf s) (s_off s + lo) (hi - lo) (s_cap s - lo).

(* append(s, data...): in place if the capacity allows, else a new array *)
Definition sappend (st : store) (s : slice) (data : bytes) : store * slice :=
  if (s_len s + length data <=? s_cap s)%nat then
    (swrite st (s_buf s) (s_off s + s_len s) data,
     mkslice (s_buf s) (s_off s) (s_len s + length data) (s_cap s))
  else
    let l := (s_len s + length data)%nat in
    (st ++ [sread st s ++ data], mkslice (length st) 0 l l).

(* make([]byte, 0, cap) *)
Definition smake (st : store) (cap : nat) : store * slice :=
  (st ++ [repeat 0 cap], mkslice (length st) 0 0 cap).

Fixpoint all_zero_b (a : bytes) : bool :=
  match a with [] => true | x :: t => (x =? 0) && all_zero_b t end.

Record variant := mkvariant { hdr_fresh : bool; mac_fresh : bool }.
Definition as_found := mkvariant false false.
Definition repaired := mkvariant true true.

Section Anon.
  Variable q : Z.
  Notation F := (zq q).
  Variable plen slen : nat.
  Variable penc : F -> bytes.
  Variable pdec : bytes -> option F.
  Variable senc : F -> bytes.
  Variable sdec : bytes -> option F.
  (* first n bytes of the key stream of suite.XOF(seed) *)
  Variable xof : bytes -> nat -> bytes.

  Definition macSize := 16%nat.

  Definition E_SHORT := 1.    (* ciphertext too short *)
  Definition E_POINT := 2.    (* X does not decode *)
  Definition E_SCALAR := 3.   (* unwrapped master secret does not decode *)
  Definition E_INVALID := 4.  (* invalid ciphertext: X <> x*B or header mismatch *)
  Definition E_MAC := 5.      (* failed MAC check *)

  (* one header slot: the master secret wrapped for recipient Y *)
  Definition slot (x : F) (xb : bytes) (Y : F) : bytes :=
    xorb xb (xof (penc (smul x Y)) (length xb)).

  (* header(): hdr := xb1; for each Y: hdr = append(hdr, slot...) *)
  Definition header (fresh : bool) (st : store) (x : F) (xb1 : slice) (xb2 : bytes) (set : list F)
    : store * slice :=
    let start :=
      if fresh then
        let '(st1, h) := smake st (s_len xb1 + length set * length xb2) in
        sappend st1 h (sread st xb1)
      else (st, xb1) in
    fold_left (fun acc Y => sappend (fst acc) (snd acc) (slot x xb2 Y)) set start.

  (* pure value of the header *)
  Definition header_bytes (x : F) (Xb xb : bytes) (set : list F) : bytes :=
    Xb ++ flat_map (slot x xb) set.

  (* Encrypt with the ephemeral key x (key.Pair.Gen).  The header is built on a
     private fresh array there, so its value is [header_bytes]. *)
  Definition encrypt (set : list F) (x : F) (m : bytes) : bytes :=
    let xb := senc x in
    let body := xorb m (xof xb (length m)) in
    header_bytes x (penc (smul x pbase)) xb set ++ body ++ xof body macSize.

  Definition decrypt_key (fresh : bool) (st : store) (ct : slice) (set : list F) (mine : Z) (priv : F)
    : store * res (bytes * nat) :=
    if (s_len ct <? plen)%nat then (st, Err E_SHORT) else
    let Xb := subslice ct 0 plen in
    match pdec (sread st Xb) with
    | None => (st, Err E_POINT)
    | Some X =>
        let n := length set in
        if (mine <? 0) || (Z.of_nat n <=? mine) then (st, Panic) else
        if (s_len ct <? plen + slen * n)%nat then (st, Err E_SHORT) else
        let secofs := (plen + slen * Z.to_nat mine)%nat in
        let xb := xorb (sread st (subslice ct secofs (secofs + slen)))
                       (xof (penc (smul priv X)) slen) in
        match sdec xb with
        | None => (st, Err E_SCALAR)
        | Some x =>
            if negb (zeqb X (smul x pbase)) then (st, Err E_INVALID) else
            let '(st', hdr) := header fresh st x Xb xb set in
            let hdrlen := s_len hdr in
            if negb (hdrlen =? plen + slen * n)%nat then (st', Panic) else
            if negb (beq (sread st' hdr) (sread st' (subslice ct 0 hdrlen)))
            then (st', Err E_INVALID)
            else (st', Ok (xb, hdrlen))
        end
    end.

  Definition decrypt (v : variant) (st : store) (ct : slice) (set : list F) (mine : Z) (priv : F)
    : store * res bytes :=
    match decrypt_key (hdr_fresh v) st ct set mine priv with
    | (st1, Err e) => (st1, Err e)
    | (st1, Panic) => (st1, Panic)
    | (st1, Ok (xb, hdrlen)) =>
        if (s_len ct <? hdrlen + macSize)%nat then (st1, Err E_SHORT) else
        let msghi := (s_len ct - macSize)%nat in
        let body := sread st1 (subslice ct hdrlen msghi) in
        let macs := subslice ct msghi (s_len ct) in
        let msg := xorb body (xof xb (length body)) in
        let macx := xorb (sread st1 macs) (xof body macSize) in
        let st2 := if mac_fresh v then st1 else swrite st1 (s_buf macs) (s_off macs) macx in
        if all_zero_b macx then (st2, Ok msg) else (st2, Err E_MAC)
    end.

  (* ---- the same function on plain byte strings, with the header comparison
     made against the received bytes (what the code means to do; [check] = false
     drops the comparison) *)
  Definition decrypt_pure (check : bool) (c : bytes) (set : list F) (mine : Z) (priv : F) : res bytes :=
    if (length c <? plen)%nat then Err E_SHORT else
    match pdec (firstn plen c) with
    | None => Err E_POINT
    | Some X =>
        let n := length set in
        if (mine <? 0) || (Z.of_nat n <=? mine) then Panic else
        if (length c <? plen + slen * n)%nat then Err E_SHORT else
        let secofs := (plen + slen * Z.to_nat mine)%nat in
        let xb := xorb (firstn slen (skipn secofs c)) (xof (penc (smul priv X)) slen) in
        match sdec xb with
        | None => Err E_SCALAR
        | Some x =>
            if negb (zeqb X (smul x pbase)) then Err E_INVALID else
            let hdrlen := (plen + slen * n)%nat in
            if check && negb (beq (header_bytes x (firstn plen c) xb set) (firstn hdrlen c))
            then Err E_INVALID else
            if (length c <? hdrlen + macSize)%nat then Err E_SHORT else
            let msghi := (length c - macSize)%nat in
            let body := firstn (msghi - hdrlen) (skipn hdrlen c) in
            let mac := skipn msghi c in
            if all_zero_b (xorb mac (xof body macSize))
            then Ok (xorb body (xof xb (length body))) else Err E_MAC
        end
    end.
End Anon.
