(* Model of encrypt/ibe/ibe.go (Boneh-Franklin): CCA variant with the
   Fujisaki-Okamoto re-encryption check on either group assignment, CPA variant
   on G1.  Groups and the pairing are modelled by discrete logarithms
   (Algebra/Grp.v); the suite hash [H], hash-to-point [hashId], the GT encoding
   and scalar decoding are oracles.  The length logic of gtToHash / h3 / h4 /
   xor is modelled exactly, including the places where the Go code would panic
   (outcome [Panic]). *)
From Coq Require Import ZArith Znumtheory List Bool Lia Ring Field.
From Kyber Require Import Algebra.Zq Algebra.Grp Enc.EncBase.
Import ListNotations.
Local Open Scope Z_scope.

Section IBE.
  Variable q : Z.
  Notation F := (zq q).

  Variable hsize : nat.                 (* s.Hash().Size() *)
  Variable H : bytes -> bytes.          (* s.Hash() *)
  Variable hashId : bool -> bytes -> F. (* HashablePoint.Hash on G2 (false) / G1 (true) *)
  Variable gtenc : F -> bytes.          (* GT MarshalTo *)
  Variable sdec : bytes -> option F.    (* Scalar.UnmarshalBinary: None if wrong size / not below the order *)
  Variable bigendian : bool.            (* Scalar.ByteOrder() *)
  Variable tomask : Z.                  (* 8*MarshalSize - bitlen(order) *)

  Definition tag2 : bytes := [73;66;69;45;72;50].  (* "IBE-H2" *)
  Definition tag3 : bytes := [73;66;69;45;72;51].  (* "IBE-H3" *)
  Definition tag4 : bytes := [73;66;69;45;72;52].  (* "IBE-H4" *)

  Definition E_LONG := 1.   (* plaintext / ciphertext too long for the hash *)
  Definition E_H3 := 2.     (* rejection sampling failure *)
  Definition E_VLEN := 3.   (* XorSigma is of invalid length *)
  Definition E_CHECK := 4.  (* invalid proof: rP check failed *)

  (* xor(a, b []byte): panics on different lengths *)
  Definition xor_strict (a b : bytes) : option bytes :=
    if (length a =? length b)%nat then Some (xorb a b) else None.

  (* gtToHash: reads the hash of tag || gt into a zeroed buffer of the requested
     length: only min(length, hash size) bytes are filled *)
  Definition gt_to_hash (gt : F) (n : nat) : bytes := take_pad n (H (tag2 ++ gtenc gt)).

  (* h4: Sum(nil)[:length]; slicing beyond the hash size panics *)
  Definition h4 (sigma : bytes) (n : nat) : option bytes :=
    if (n <=? hsize)%nat then Some (firstn n (H (tag4 ++ sigma))) else None.

  Definition le16 (i : Z) : bytes := [i mod 256; (i / 256) mod 256].

  Definition mask_first (h : bytes) : bytes :=
    match h with [] => [] | x :: t => Z.shiftr x tomask :: t end.
  Definition mask (h : bytes) : bytes :=
    if bigendian then mask_first h else rev (mask_first (rev h)).

  (* h3: rejection sampling of a scalar from H(i || H(tag || sigma || msg)), i = 1 .. 65534 *)
  Fixpoint h3_loop (fuel : nat) (i : Z) (buffer : bytes) : option F :=
    match fuel with
    | O => None
    | S f => match sdec (mask (H (le16 i ++ buffer))) with
             | Some r => Some r
             | None => h3_loop f (i + 1) buffer
             end
    end.
  Definition h3 (sigma msg : bytes) : option F :=
    h3_loop (Z.to_nat 65534) 1 (H (tag3 ++ sigma ++ msg)).

  Definition ctxt := (F * bytes * bytes)%type.    (* U, V, W *)

  (* g2 = false: EncryptCCAonG1 (master, U in G1; identities in G2);
     g2 = true : EncryptCCAonG2.  sigma is the crypto/rand string of len(msg) bytes *)
  Definition gid (g2 : bool) (master Qid : F) : F := if g2 then pair Qid master else pair master Qid.

  Definition encrypt_cca (g2 : bool) (master : F) (ID msg sigma : bytes) : res ctxt :=
    if (hsize <? length msg)%nat then Err E_LONG else
    let Gid := gid g2 master (hashId g2 ID) in
    match h3 sigma msg with
    | None => Err E_H3
    | Some r =>
        let U := smul r pbase in
        let hr := gt_to_hash (smul r Gid) (length msg) in
        match xor_strict sigma hr with
        | None => Panic
        | Some V =>
            match h4 sigma (length msg) with
            | None => Panic
            | Some hs =>
                match xor_strict msg hs with
                | None => Panic
                | Some W => Ok (U, V, W)
                end
            end
        end
    end.

  Definition decrypt_cca (g2 : bool) (private : F) (c : ctxt) : res bytes :=
    let '(U, V, W) := c in
    if (hsize <? length W)%nat then Err E_LONG else
    let rGid := if g2 then pair private U else pair U private in
    let hr := gt_to_hash rGid (length W) in
    if negb (length hr =? length V)%nat then Err E_VLEN else
    match xor_strict hr V with
    | None => Panic
    | Some sigma =>
        match h4 sigma (length W) with
        | None => Panic
        | Some hs =>
            match xor_strict hs W with
            | None => Panic
            | Some msg =>
                match h3 sigma msg with
                | None => Err E_H3
                | Some r => if zeqb (smul r pbase) U then Ok msg else Err E_CHECK
                end
            end
        end
    end.

  (* CPA on G1.  [guarded] = true: the repaired code (messages longer than the
     hash are refused, as in the CCA variants); false: the code as found, whose
     only guard is len(msg) < 2^16. *)
  Definition cpa_refused (guarded : bool) (n : nat) : bool :=
    if guarded then (hsize <? n)%nat else (65536 <=? Z.of_nat n).

  Definition encrypt_cpa (guarded : bool) (base public : F) (ID msg : bytes) (r : F) : res (F * bytes) :=
    if cpa_refused guarded (length msg) then Err E_LONG else
    let Qid := hashId false ID in
    let GidT := pair public (smul r Qid) in
    match xor_strict msg (gt_to_hash GidT (length msg)) with
    | None => Panic
    | Some C => Ok (smul r base, C)
    end.

  Definition decrypt_cpa (guarded : bool) (private : F) (c : F * bytes) : res bytes :=
    let '(RP, C) := c in
    if guarded && (hsize <? length C)%nat then Err E_LONG else
    match xor_strict C (gt_to_hash (pair RP private) (length C)) with
    | None => Panic
    | Some m => Ok m
    end.

  (* ---------------------------------------------------------------- proofs *)
  Hypothesis q_prime : prime q.
  Add Field zqF_ibe : (zq_field q q_prime).
  Hypothesis H_len : forall x, length (H x) = hsize.
  Local Opaque tag2 tag3 tag4.

  Lemma gt_to_hash_len g n : length (gt_to_hash g n) = n.
  Proof. apply take_pad_length. Qed.

  Lemma xor_strict_some a b : length a = length b -> xor_strict a b = Some (xorb a b).
  Proof. intros E. unfold xor_strict. rewrite E, Nat.eqb_refl. reflexivity. Qed.

  Lemma h4_some sigma n : (n <= hsize)%nat -> h4 sigma n = Some (firstn n (H (tag4 ++ sigma))).
  Proof. intros L. unfold h4. destruct (Nat.leb_spec n hsize); [reflexivity|lia]. Qed.

  Lemma h4_pad_len sigma n : (n <= hsize)%nat -> length (firstn n (H (tag4 ++ sigma))) = n.
  Proof. intros L. rewrite firstn_length, H_len. lia. Qed.

  Lemma smul_base_inj (a b : F) : smul a pbase = smul b pbase -> a = b.
  Proof.
    unfold smul, pbase. intros E. transitivity (zmul a zone); [ring|]. rewrite E. ring.
  Qed.

  (* the pairing value the holder of s*Qid computes equals the sender's r*Gid *)
  Lemma gid_agree (g2 : bool) (s r Qid : F) :
    (if g2 then pair (smul s Qid) (smul r pbase) else pair (smul r pbase) (smul s Qid)) =
    smul r (gid g2 (smul s pbase) Qid).
  Proof. unfold gid, pair, smul, pbase. destruct g2; ring. Qed.

  (* what encryption outputs, when it is not refused *)
  Lemma encrypt_cca_ok g2 master ID msg sigma (r : F) :
    length sigma = length msg -> (length msg <= hsize)%nat -> h3 sigma msg = Some r ->
    encrypt_cca g2 master ID msg sigma =
    Ok (smul r pbase,
        xorb sigma (gt_to_hash (smul r (gid g2 master (hashId g2 ID))) (length msg)),
        xorb msg (firstn (length msg) (H (tag4 ++ sigma)))).
  Proof.
    intros Hs Hl Hr. unfold encrypt_cca.
    destruct (Nat.ltb_spec hsize (length msg)); [lia|]. rewrite Hr.
    rewrite xor_strict_some by (rewrite gt_to_hash_len; exact Hs).
    rewrite h4_some by exact Hl.
    rewrite xor_strict_some by (rewrite h4_pad_len; auto). reflexivity.
  Qed.

  (* Encrypt never panics: it answers with a ciphertext or refuses *)
  Theorem cca_encrypt_total g2 master ID msg sigma :
    length sigma = length msg ->
    (exists c, encrypt_cca g2 master ID msg sigma = Ok c) \/
    encrypt_cca g2 master ID msg sigma = Err E_LONG \/
    encrypt_cca g2 master ID msg sigma = Err E_H3.
  Proof.
    intros Hs. destruct (Nat.ltb_spec hsize (length msg)) as [L|L].
    - right. left. unfold encrypt_cca. destruct (Nat.ltb_spec hsize (length msg)); [reflexivity|lia].
    - destruct (h3 sigma msg) as [r|] eqn:E.
      + left. eexists. apply (encrypt_cca_ok g2 master ID msg sigma r); auto.
      + right. right. unfold encrypt_cca. destruct (Nat.ltb_spec hsize (length msg)); [lia|]. rewrite E. reflexivity.
  Qed.

  (* messages the scheme cannot protect are refused *)
  Theorem cca_refuses_long g2 master ID msg sigma :
    (hsize < length msg)%nat -> encrypt_cca g2 master ID msg sigma = Err E_LONG.
  Proof. intros L. unfold encrypt_cca. destruct (Nat.ltb_spec hsize (length msg)); [reflexivity|lia]. Qed.

  Theorem cca_decrypt_refuses_long g2 private U V W :
    (hsize < length W)%nat -> decrypt_cca g2 private (U, V, W) = Err E_LONG.
  Proof. intros L. unfold decrypt_cca. destruct (Nat.ltb_spec hsize (length W)); [reflexivity|lia]. Qed.

  (* exact behaviour of Decrypt behind its guards *)
  Lemma decrypt_cca_unfold (g2 : bool) (private U : F) V W :
    (length W <= hsize)%nat -> length V = length W ->
    let rGid := if g2 then pair private U else pair U private in
    let sigma := xorb (gt_to_hash rGid (length W)) V in
    let msg := xorb (firstn (length W) (H (tag4 ++ sigma))) W in
    decrypt_cca g2 private (U, V, W) =
    match h3 sigma msg with
    | None => Err E_H3
    | Some r => if zeqb (smul r pbase) U then Ok msg else Err E_CHECK
    end.
  Proof.
    intros Hl Hv rGid sigma msg. unfold decrypt_cca.
    destruct (Nat.ltb_spec hsize (length W)); [lia|]. fold rGid.
    rewrite gt_to_hash_len, Hv, Nat.eqb_refl. cbn [negb].
    rewrite xor_strict_some by (rewrite gt_to_hash_len; auto). fold sigma.
    rewrite h4_some by exact Hl. rewrite xor_strict_some by (rewrite h4_pad_len; auto). reflexivity.
  Qed.

  (* Decrypt never panics, whatever the ciphertext and key *)
  Theorem cca_decrypt_no_panic g2 private c : decrypt_cca g2 private c <> Panic.
  Proof.
    destruct c as [[U V] W].
    destruct (Nat.ltb_spec hsize (length W)) as [L|L].
    - rewrite cca_decrypt_refuses_long by exact L. discriminate.
    - destruct (Nat.eq_dec (length V) (length W)) as [E|E].
      + rewrite decrypt_cca_unfold by assumption. cbv zeta.
        destruct (h3 _ _); [|discriminate]. destruct (zeqb _ _); discriminate.
      + unfold decrypt_cca. destruct (Nat.ltb_spec hsize (length W)); [lia|].
        rewrite gt_to_hash_len. destruct (Nat.eqb_spec (length W) (length V)); [congruence|]. discriminate.
  Qed.

  (* accept-iff characterisation: a plaintext is returned exactly when the
     re-encryption check U = H3(sigma, m) * P holds for the recovered sigma, m *)
  Theorem cca_accept_iff (g2 : bool) (private U : F) V W m :
    decrypt_cca g2 private (U, V, W) = Ok m <->
    (length W <= hsize)%nat /\ length V = length W /\
    let rGid := if g2 then pair private U else pair U private in
    let sigma := xorb (gt_to_hash rGid (length W)) V in
    m = xorb (firstn (length W) (H (tag4 ++ sigma))) W /\
    exists r, h3 sigma m = Some r /\ smul r pbase = U.
  Proof.
    destruct (Nat.ltb_spec hsize (length W)) as [L|L].
    { rewrite cca_decrypt_refuses_long by exact L. split; [discriminate|]. intros [? _]. lia. }
    destruct (Nat.eq_dec (length V) (length W)) as [E|E].
    - rewrite decrypt_cca_unfold by assumption. cbv zeta.
      set (sigma := xorb _ V). set (msg := xorb _ W).
      split.
      + destruct (h3 sigma msg) as [r|] eqn:E3; [|discriminate].
        destruct (zeqb_spec q (smul r pbase) U) as [EU|NU]; [|discriminate].
        intros [= <-]. repeat split; auto. exists r. split; auto.
      + intros [_ [_ [-> [r [E3 EU]]]]]. fold msg in E3. rewrite E3.
        destruct (zeqb_spec q (smul r pbase) U); [reflexivity|contradiction].
    - split.
      + unfold decrypt_cca. destruct (Nat.ltb_spec hsize (length W)); [lia|].
        rewrite gt_to_hash_len. destruct (Nat.eqb_spec (length W) (length V)); [congruence|]. discriminate.
      + intros [_ [E' _]]. contradiction.
  Qed.

  (* round trip, both group assignments, every message the scheme accepts
     (0 .. hash size bytes), every master key, identity and sigma *)
  Theorem cca_roundtrip g2 (s : F) ID msg sigma c :
    length sigma = length msg ->
    encrypt_cca g2 (smul s pbase) ID msg sigma = Ok c ->
    decrypt_cca g2 (smul s (hashId g2 ID)) c = Ok msg.
  Proof.
    intros Hs He.
    destruct (Nat.ltb_spec hsize (length msg)) as [L|L].
    { rewrite cca_refuses_long in He by exact L. discriminate. }
    destruct (h3 sigma msg) as [r|] eqn:E3.
    2:{ unfold encrypt_cca in He. destruct (Nat.ltb_spec hsize (length msg)); [lia|]. rewrite E3 in He. discriminate. }
    rewrite (encrypt_cca_ok g2 _ ID msg sigma r) in He by assumption. injection He as <-.
    set (pad := gt_to_hash (smul r (gid g2 (smul s pbase) (hashId g2 ID))) (length msg)).
    assert (Lp : length pad = length msg) by apply gt_to_hash_len.
    assert (LW : length (xorb msg (firstn (length msg) (H (tag4 ++ sigma)))) = length msg)
      by (apply xorb_length_eq; rewrite h4_pad_len; auto).
    assert (LV : length (xorb sigma pad) = length msg) by (rewrite xorb_length_eq; congruence).
    apply cca_accept_iff. rewrite LW, LV. split; [exact L|]. split; [reflexivity|].
    rewrite gid_agree. cbv zeta. fold pad.
    assert (ES : xorb pad (xorb sigma pad) = sigma).
    { rewrite (xorb_comm sigma pad). apply xorb_cancel_l. congruence. }
    rewrite ES. split.
    - rewrite (xorb_comm msg). symmetry. apply xorb_cancel_l. rewrite h4_pad_len; auto.
    - exists r. split; [exact E3|reflexivity].
  Qed.

  (* -------- altered ciphertexts.  [h3_coll_free sigma msg]: no other input of H3
     gives the scalar of (sigma, msg) (explicit premise: H3 is a random oracle) *)
  Definition h3_coll_free (sigma msg : bytes) : Prop :=
    forall s' m', h3 s' m' = h3 sigma msg -> s' = sigma /\ m' = msg.

  (* V or W altered or truncated, U unchanged: rejected *)
  Theorem cca_tamper_VW g2 (s : F) ID msg sigma U V W V' W' :
    length sigma = length msg ->
    encrypt_cca g2 (smul s pbase) ID msg sigma = Ok (U, V, W) ->
    h3_coll_free sigma msg ->
    (V', W') <> (V, W) ->
    is_err (decrypt_cca g2 (smul s (hashId g2 ID)) (U, V', W')).
  Proof.
    intros Hs He Hcf Hne.
    destruct (decrypt_cca g2 (smul s (hashId g2 ID)) (U, V', W')) as [m'|cls|] eqn:D.
    2:{ exists cls. reflexivity. }
    2:{ exfalso. revert D. apply cca_decrypt_no_panic. }
    exfalso. apply Hne.
    destruct (Nat.ltb_spec hsize (length msg)) as [L|L].
    { rewrite cca_refuses_long in He by exact L. discriminate. }
    destruct (h3 sigma msg) as [r|] eqn:E3.
    2:{ unfold encrypt_cca in He. destruct (Nat.ltb_spec hsize (length msg)); [lia|]. rewrite E3 in He. discriminate. }
    rewrite (encrypt_cca_ok g2 _ ID msg sigma r) in He by assumption. injection He as <- <- <-.
    apply cca_accept_iff in D. destruct D as [LW [LV D]]. cbv zeta in D. destruct D as [Em [r' [E3' EU]]].
    apply smul_base_inj in EU. subst r'.
    rewrite gid_agree in *.
    set (sigma' := xorb _ V') in *.
    destruct (Hcf sigma' m') as [Es Emm]; [congruence|].
    assert (Ls' : length sigma' = length W').
    { unfold sigma'. rewrite xorb_length_eq; rewrite gt_to_hash_len; auto. }
    assert (LWm : length W' = length msg) by congruence.
    rewrite LWm in *.
    set (pad := gt_to_hash (smul r (gid g2 (smul s pbase) (hashId g2 ID))) (length msg)) in *.
    assert (Lp : length pad = length msg) by apply gt_to_hash_len.
    f_equal.
    - (* V' *) apply (xorb_inj_l pad); [congruence | rewrite xorb_length_eq; congruence |].
      assert (Esp : sigma' = xorb pad V') by (unfold sigma', pad; rewrite LWm; reflexivity).
      rewrite (xorb_comm V' pad), <- Esp, Es. symmetry. apply xorb_cancel. congruence.
    - (* W' *) rewrite Es in Em. set (p4 := firstn (length msg) (H (tag4 ++ sigma))) in *.
      assert (L4 : length p4 = length msg) by (apply h4_pad_len; exact L).
      apply (xorb_inj_l p4); [congruence | rewrite xorb_length_eq; congruence |].
      rewrite (xorb_comm W' p4), <- Em, Emm. symmetry. apply xorb_cancel. congruence.
  Qed.

  (* U altered: acceptance is the H3 event "H3(sigma', m') * P = U'" for the
     sigma', m' determined by U' (accept-iff); in particular U' must be the
     image of an H3 output *)
  Theorem cca_tamper_U (g2 : bool) (private U' : F) V W m' :
    decrypt_cca g2 private (U', V, W) = Ok m' ->
    exists sigma' r', h3 sigma' m' = Some r' /\ U' = smul r' pbase /\
                      sigma' = xorb (gt_to_hash (if g2 then pair private U' else pair U' private) (length W)) V.
  Proof.
    intros D. apply cca_accept_iff in D. destruct D as [_ [_ D]]. cbv zeta in D.
    destruct D as [_ [r [E3 EU]]]. eexists. exists r. split; [exact E3|]. split; [symmetry; exact EU|reflexivity].
  Qed.

  (* any other key / identity: never a different plaintext; an error unless the
     H2 pads of the two keys coincide on the message length *)
  Theorem cca_wrong_key (g2 : bool) (s : F) ID msg sigma (U : F) V W (private' : F) :
    length sigma = length msg ->
    encrypt_cca g2 (smul s pbase) ID msg sigma = Ok (U, V, W) ->
    h3_coll_free sigma msg ->
    let pad k := gt_to_hash (if g2 then pair k U else pair U k) (length msg) in
    (pad private' <> pad (smul s (hashId g2 ID)) -> is_err (decrypt_cca g2 private' (U, V, W))) /\
    (forall m', decrypt_cca g2 private' (U, V, W) = Ok m' -> m' = msg).
  Proof.
    intros Hs He Hcf pad.
    destruct (Nat.ltb_spec hsize (length msg)) as [L|L].
    { rewrite cca_refuses_long in He by exact L. discriminate. }
    destruct (h3 sigma msg) as [r|] eqn:E3.
    2:{ unfold encrypt_cca in He. destruct (Nat.ltb_spec hsize (length msg)); [lia|]. rewrite E3 in He. discriminate. }
    rewrite (encrypt_cca_ok g2 _ ID msg sigma r) in He by assumption. injection He as <- <- <-.
    assert (Lp : forall k, length (pad k) = length msg) by (intros; apply gt_to_hash_len).
    assert (LW : length (xorb msg (firstn (length msg) (H (tag4 ++ sigma)))) = length msg)
      by (apply xorb_length_eq; rewrite h4_pad_len; auto).
    assert (Key : forall m', decrypt_cca g2 private' (smul r pbase,
                    xorb sigma (gt_to_hash (smul r (gid g2 (smul s pbase) (hashId g2 ID))) (length msg)),
                    xorb msg (firstn (length msg) (H (tag4 ++ sigma)))) = Ok m' ->
                  m' = msg /\ pad private' = pad (smul s (hashId g2 ID))).
    { intros m' D. apply cca_accept_iff in D. destruct D as [_ [LV D]]. cbv zeta in D.
      rewrite LW in D. destruct D as [Em [r' [E3' EU]]].
      apply smul_base_inj in EU. subst r'.
      change (gt_to_hash (if g2 then pair private' (smul r pbase) else pair (smul r pbase) private') (length msg))
        with (pad private') in *.
      set (sigma' := xorb (pad private') _) in *.
      destruct (Hcf sigma' m') as [Es Emm]; [congruence|]. split; [exact Emm|].
      unfold pad at 2. rewrite gid_agree.
      set (p0 := gt_to_hash (smul r (gid g2 (smul s pbase) (hashId g2 ID))) (length msg)) in *.
      assert (L0 : length p0 = length msg) by apply gt_to_hash_len.
      (* sigma' = pad' xor (sigma xor p0) = sigma  ==> pad' = p0 *)
      apply (xorb_inj_l (xorb sigma p0)); [rewrite xorb_length_eq; rewrite ?Lp; congruence | rewrite xorb_length_eq; congruence|].
      fold sigma'. rewrite Es. rewrite (xorb_comm p0). symmetry. rewrite (xorb_comm sigma p0).
      rewrite (xorb_comm (xorb p0 sigma)). apply xorb_cancel_l. congruence. }
    split.
    - intros Hpad. destruct (decrypt_cca g2 private' _) as [m'|cls|] eqn:D.
      + exfalso. apply Hpad. apply (Key m'). reflexivity.
      + exists cls. reflexivity.
      + exfalso. revert D. apply cca_decrypt_no_panic.
    - intros m' D. apply (Key m'). exact D.
  Qed.

  (* quirk of the scheme as coded (sigma has the length of the message): the
     empty message is "authenticated" by nothing - its ciphertext opens under
     every key *)
  Theorem cca_empty_any_key g2 master ID c private' :
    encrypt_cca g2 master ID [] [] = Ok c -> decrypt_cca g2 private' c = Ok [].
  Proof.
    intros He. destruct (h3 [] []) as [r|] eqn:E3.
    2:{ unfold encrypt_cca in He. cbn [length] in He. destruct (Nat.ltb_spec hsize 0); [lia|]. rewrite E3 in He. discriminate. }
    rewrite (encrypt_cca_ok g2 _ ID [] [] r) in He by (auto; cbn; lia). injection He as <-.
    apply cca_accept_iff. cbn. repeat split; try lia.
    unfold gt_to_hash, take_pad. cbn. exists r. split; [exact E3|reflexivity].
  Qed.

  (* no plaintext block in the clear (CCA): W = m XOR H4(sigma)[:len] *)
  Theorem cca_no_clear_block g2 master ID msg sigma U V W j :
    length sigma = length msg ->
    encrypt_cca g2 master ID msg sigma = Ok (U, V, W) ->
    (block j W = block j msg <-> all_zero (block j (firstn (length msg) (H (tag4 ++ sigma))))).
  Proof.
    intros Hs He.
    destruct (Nat.ltb_spec hsize (length msg)) as [L|L].
    { rewrite cca_refuses_long in He by exact L. discriminate. }
    destruct (h3 sigma msg) as [r|] eqn:E3.
    2:{ unfold encrypt_cca in He. destruct (Nat.ltb_spec hsize (length msg)); [lia|]. rewrite E3 in He. discriminate. }
    rewrite (encrypt_cca_ok g2 _ ID msg sigma r) in He by assumption. injection He as <- <- <-.
    apply block_clear_iff. rewrite h4_pad_len; auto.
  Qed.

  (* ------------------------------------------------------------------ CPA *)
  Lemma cpa_pair_agree (s r base Qid : F) :
    pair (smul r base) (smul s Qid) = pair (smul s base) (smul r Qid).
  Proof. unfold pair, smul. ring. Qed.

  Lemma encrypt_cpa_ok guarded (base public : F) ID msg (r : F) :
    cpa_refused guarded (length msg) = false ->
    encrypt_cpa guarded base public ID msg r =
    Ok (smul r base, xorb msg (gt_to_hash (pair public (smul r (hashId false ID))) (length msg))).
  Proof.
    intros G. unfold encrypt_cpa. rewrite G. rewrite xor_strict_some by (rewrite gt_to_hash_len; auto). reflexivity.
  Qed.

  Theorem cpa_roundtrip guarded (s base : F) ID msg r c :
    encrypt_cpa guarded base (smul s base) ID msg r = Ok c ->
    decrypt_cpa guarded (smul s (hashId false ID)) c = Ok msg.
  Proof.
    intros He. destruct (cpa_refused guarded (length msg)) eqn:G.
    { unfold encrypt_cpa in He. rewrite G in He. discriminate. }
    rewrite encrypt_cpa_ok in He by exact G. injection He as <-.
    unfold decrypt_cpa.
    set (pad := gt_to_hash (pair (smul s base) _) (length msg)).
    assert (Lp : length pad = length msg) by apply gt_to_hash_len.
    assert (LC : length (xorb msg pad) = length msg) by (apply xorb_length_eq; congruence).
    rewrite LC. rewrite cpa_pair_agree. fold pad.
    replace (guarded && (hsize <? length msg)%nat) with false.
    2:{ destruct guarded; [|reflexivity]. unfold cpa_refused in G. rewrite G. reflexivity. }
    rewrite xor_strict_some by congruence. f_equal. apply xorb_cancel. congruence.
  Qed.

  Theorem cpa_refuses_long base public ID msg r :
    (hsize < length msg)%nat -> encrypt_cpa true base public ID msg r = Err E_LONG.
  Proof. intros L. unfold encrypt_cpa, cpa_refused. destruct (Nat.ltb_spec hsize (length msg)); [reflexivity|lia]. Qed.

  Theorem cpa_decrypt_no_panic guarded private c : decrypt_cpa guarded private c <> Panic.
  Proof.
    destruct c as [RP C]. unfold decrypt_cpa. destruct (guarded && _); [discriminate|].
    rewrite xor_strict_some by (rewrite gt_to_hash_len; auto). discriminate.
  Qed.

  Theorem cpa_encrypt_no_panic guarded base public ID msg r : encrypt_cpa guarded base public ID msg r <> Panic.
  Proof.
    unfold encrypt_cpa. destruct (cpa_refused _ _); [discriminate|].
    rewrite xor_strict_some by (rewrite gt_to_hash_len; auto). discriminate.
  Qed.

  (* pad coverage: which ciphertext bytes are m XOR pad and which are plain m *)
  Theorem cpa_pad_spec guarded base public ID msg r RP C :
    encrypt_cpa guarded base public ID msg r = Ok (RP, C) ->
    let h := H (tag2 ++ gtenc (pair public (smul r (hashId false ID)))) in
    length C = length msg /\
    forall i, (i < length msg)%nat ->
      nth i C 0 = if (i <? hsize)%nat then Z.lxor (nth i msg 0) (nth i h 0) else nth i msg 0.
  Proof.
    intros He h. destruct (cpa_refused guarded (length msg)) eqn:G.
    { unfold encrypt_cpa in He. rewrite G in He. discriminate. }
    rewrite encrypt_cpa_ok in He by exact G. injection He as <- <-.
    split; [apply xorb_length_eq; rewrite gt_to_hash_len; reflexivity|].
    intros i Hi. rewrite xorb_nth by (rewrite ?gt_to_hash_len; auto). unfold gt_to_hash. fold h.
    destruct (Nat.ltb_spec i hsize).
    - rewrite take_pad_nth_lo by (unfold h; rewrite ?H_len; auto). reflexivity.
    - rewrite take_pad_nth_hi by (unfold h; rewrite H_len; auto). apply Z.lxor_0_r.
  Qed.

  (* repaired code: every accepted message is covered by the pad entirely, and
     a block is in the clear only if the hash block is zero *)
  Theorem cpa_no_clear_block base public ID msg r RP C j :
    encrypt_cpa true base public ID msg r = Ok (RP, C) ->
    let h := H (tag2 ++ gtenc (pair public (smul r (hashId false ID)))) in
    (length msg <= hsize)%nat /\ C = xorb msg (firstn (length msg) h) /\
    (block j C = block j msg <-> all_zero (block j (firstn (length msg) h))).
  Proof.
    intros He h. destruct (cpa_refused true (length msg)) eqn:G.
    { unfold encrypt_cpa in He. rewrite G in He. discriminate. }
    rewrite encrypt_cpa_ok in He by exact G. injection He as <- <-.
    unfold cpa_refused in G. destruct (Nat.ltb_spec hsize (length msg)); [discriminate|].
    unfold gt_to_hash. fold h. rewrite take_pad_le by (unfold h; rewrite H_len; auto).
    split; [assumption|]. split; [reflexivity|]. apply block_clear_iff.
    rewrite firstn_length. unfold h. rewrite H_len. lia.
  Qed.

  (* the code as found: every block beyond the hash size is sent in the clear *)
  Theorem cpa_unguarded_clear_refuted base public ID msg r RP C j :
    encrypt_cpa false base public ID msg r = Ok (RP, C) ->
    (hsize <= 16 * j)%nat -> (16 * j + 16 <= length msg)%nat ->
    block j C = block j msg.
  Proof.
    intros He L1 L2. destruct (cpa_refused false (length msg)) eqn:G.
    { unfold encrypt_cpa in He. rewrite G in He. discriminate. }
    rewrite encrypt_cpa_ok in He by exact G. injection He as <- <-.
    apply block_clear_iff; [rewrite gt_to_hash_len; reflexivity|].
    unfold block, gt_to_hash, take_pad. rewrite skipn_app.
    rewrite (skipn_all2 (firstn _ _)) by (rewrite firstn_length, H_len; lia).
    cbn [app]. rewrite firstn_length, H_len.
    apply all_zero_firstn, all_zero_skipn, all_zero_repeat.
  Qed.
End IBE.
