(* Model of encrypt/ecies/ecies.go: ciphertext = marshal(R) || AEAD(kdf(marshal(x*R))).
   Groups are modelled by discrete logarithms (Algebra/Grp.v).  HKDF and
   AES-256-GCM are oracles (Section variables); what they are assumed to
   satisfy is an explicit premise of each theorem. *)
From Coq Require Import ZArith Znumtheory List Bool Lia Ring Field.
From Kyber Require Import Algebra.Zq Algebra.Grp Enc.EncBase.
Import ListNotations.
Local Open Scope Z_scope.

Section ECIES.
  Variable q : Z.
  Notation F := (zq q).

  (* point encoding of the group: MarshalBinary / UnmarshalBinary, PointLen *)
  Variable plen : nat.
  Variable penc : F -> bytes.
  Variable pdec : bytes -> option F.
  (* HKDF(hash, marshal(dh)) -> 44 bytes (key || nonce) *)
  Variable kdf : bytes -> bytes.
  (* AES-GCM under (key || nonce) *)
  Variable seal : bytes -> bytes -> bytes.
  Variable open : bytes -> bytes -> option bytes.

  (* error classes of Decrypt *)
  Definition E_SHORT := 1.   (* "invalid ecies cipher" *)
  Definition E_POINT := 2.   (* UnmarshalBinary of the ephemeral point failed *)
  Definition E_AUTH := 3.    (* AEAD open failed *)

  (* Encrypt with ephemeral scalar r (drawn from random.New() in the code) *)
  Definition encrypt (X : F) (r : F) (m : bytes) : bytes :=
    penc (smul r pbase) ++ seal (kdf (penc (smul r X))) m.

  Definition decrypt (x : F) (ctx : bytes) : res bytes :=
    if (length ctx <? plen)%nat then Err E_SHORT else
    match pdec (firstn plen ctx) with
    | None => Err E_POINT
    | Some R =>
        match open (kdf (penc (smul x R))) (skipn plen ctx) with
        | Some m => Ok m
        | None => Err E_AUTH
        end
    end.

  (* ---------------------------------------------------------------- proofs *)
  Hypothesis q_prime : prime q.
  Add Field zqF_ecies : (zq_field q q_prime).

  Hypothesis penc_len : forall P, length (penc P) = plen.
  Hypothesis pdec_penc : forall P, pdec (penc P) = Some P.

  Lemma penc_inj P Q : penc P = penc Q -> P = Q.
  Proof. intros H. assert (E : pdec (penc P) = pdec (penc Q)) by (rewrite H; reflexivity). rewrite !pdec_penc in E. congruence. Qed.

  Lemma dh_agree (x r : F) : smul x (smul r pbase) = smul r (smul x pbase).
  Proof. unfold smul, pbase. ring. Qed.

  Lemma split_ct (e c : bytes) : length e = plen -> firstn plen (e ++ c) = e /\ skipn plen (e ++ c) = c.
  Proof.
    intros H. split.
    - rewrite firstn_app, <- H, firstn_all, Nat.sub_diag. cbn. apply app_nil_r.
    - rewrite skipn_app, <- H, skipn_all, Nat.sub_diag. reflexivity.
  Qed.

  (* exact behaviour on a well-framed input *)
  Lemma decrypt_framed x (e c : bytes) : length e = plen ->
    decrypt x (e ++ c) =
    match pdec e with
    | None => Err E_POINT
    | Some R => match open (kdf (penc (smul x R))) c with Some m => Ok m | None => Err E_AUTH end
    end.
  Proof.
    intros H. unfold decrypt. destruct (split_ct e c H) as [-> ->].
    rewrite app_length, H. destruct (Nat.ltb_spec (plen + length c) plen); [lia|]. reflexivity.
  Qed.

  (* round trip: every message (any length), every key pair, every ephemeral scalar *)
  Theorem ecies_roundtrip :
    (forall k m, open k (seal k m) = Some m) ->
    forall x r m, decrypt x (encrypt (smul x pbase) r m) = Ok m.
  Proof.
    intros Hos x r m. unfold encrypt. rewrite decrypt_framed by apply penc_len.
    rewrite pdec_penc, dh_agree, Hos. reflexivity.
  Qed.

  (* guards: anything shorter than a point is refused; nothing panics *)
  Theorem ecies_short x ctx : (length ctx < plen)%nat -> decrypt x ctx = Err E_SHORT.
  Proof. intros H. unfold decrypt. destruct (Nat.ltb_spec (length ctx) plen); [reflexivity|lia]. Qed.

  Theorem ecies_no_panic x ctx : decrypt x ctx <> Panic.
  Proof.
    unfold decrypt. destruct (_ <? _)%nat; [discriminate|]. destruct (pdec _); [|discriminate].
    destruct (open _ _); discriminate.
  Qed.

  (* Decrypt returns a plaintext only through a successful AEAD opening under the
     key derived from x*R: the accept-iff characterisation *)
  Theorem ecies_accept_iff x ctx m :
    decrypt x ctx = Ok m <->
    (plen <= length ctx)%nat /\
    exists R, pdec (firstn plen ctx) = Some R /\ open (kdf (penc (smul x R))) (skipn plen ctx) = Some m.
  Proof.
    unfold decrypt. destruct (Nat.ltb_spec (length ctx) plen).
    - split; [discriminate|]. intros [L _]. lia.
    - destruct (pdec (firstn plen ctx)) as [R|].
      + destruct (open _ _) as [m'|] eqn:E.
        * split. -- intros [= ->]. split; [lia|]. exists R. split; [reflexivity|exact E].
                 -- intros [_ [R' [[= <-] E']]]. rewrite E in E'. congruence.
        * split; [discriminate|]. intros [_ [R' [[= <-] E']]]. congruence.
      + split; [discriminate|]. intros [_ [R' [E' _]]]. discriminate.
  Qed.

  (* -------- tampering.  [auth k c0]: c0 is the only string that opens under k
     (AEAD ciphertext integrity for a key used once); [wrong d0 c]: c opens under
     no key derived from another DH value (AEAD keys are committing / HKDF has
     no collisions).  Both are explicit premises. *)
  Definition auth (k c0 : bytes) : Prop := forall c m', open k c = Some m' -> c = c0.
  Definition wrongkey (d0 c : bytes) : Prop := forall d, d <> d0 -> open (kdf d) c = None.

  (* altered / truncated / extended body or tag, same ephemeral point *)
  Theorem ecies_tamper_body x r m c' :
    let k := kdf (penc (smul r (smul x pbase))) in
    auth k (seal k m) -> c' <> seal k m ->
    decrypt x (penc (smul r pbase) ++ c') = Err E_AUTH.
  Proof.
    intros k Ha Hc. rewrite decrypt_framed by apply penc_len. rewrite pdec_penc, dh_agree. fold k.
    destruct (open k c') as [m'|] eqn:E; [|reflexivity]. apply Ha in E. contradiction.
  Qed.

  (* every truncation of an honest ciphertext is refused with an error *)
  Theorem ecies_truncated x r m n :
    let k := kdf (penc (smul r (smul x pbase))) in
    let ct := encrypt (smul x pbase) r m in
    auth k (seal k m) -> (n < length ct)%nat -> is_err (decrypt x (firstn n ct)).
  Proof.
    intros k ct Ha Hn. destruct (Nat.lt_ge_cases n plen) as [L|G].
    - exists E_SHORT. apply ecies_short. rewrite firstn_length. lia.
    - exists E_AUTH. unfold ct, encrypt in *. rewrite app_length, penc_len in Hn.
      rewrite firstn_app, penc_len. rewrite firstn_all2 by (rewrite penc_len; lia).
      apply (ecies_tamper_body x r m); [exact Ha|]. fold k. intros E.
      assert (L : length (firstn (n - plen) (seal k m)) = length (seal k m)) by (rewrite E; reflexivity).
      rewrite firstn_length in L. unfold k in *. lia.
  Qed.

  (* altered ephemeral point (canonical encodings: pdec e = Some P -> e = penc P) *)
  Theorem ecies_tamper_point x r m e' :
    let c := seal (kdf (penc (smul r (smul x pbase)))) m in
    (forall e P, pdec e = Some P -> e = penc P) ->
    x <> zzero ->
    wrongkey (penc (smul r (smul x pbase))) c ->
    length e' = plen -> e' <> penc (smul r pbase) ->
    is_err (decrypt x (e' ++ c)).
  Proof.
    intros c Hcanon Hx Hw Hl Hne. rewrite decrypt_framed by exact Hl.
    destruct (pdec e') as [R'|] eqn:E; [|exists E_POINT; reflexivity].
    exists E_AUTH. rewrite Hw; [reflexivity|].
    intros Hd. apply penc_inj in Hd. apply Hcanon in E. apply Hne. rewrite E. f_equal.
    unfold smul, pbase in *.
    assert (H : zmul x (zsub R' (zmul r zone)) = zzero) by (rewrite <- dh_agree in Hd; unfold smul, pbase in Hd; transitivity (zsub (zmul x R') (zmul x (zmul r zone))); [ring| rewrite Hd; ring]).
    apply (zmul_eq_0 q q_prime) in H. destruct H as [H|H]; [contradiction|].
    transitivity (zadd (zsub R' (zmul r zone)) (zmul r zone)); [ring|rewrite H; ring].
  Qed.

  (* decryption with any other private key *)
  Theorem ecies_wrong_key x x' r m :
    let c := seal (kdf (penc (smul r (smul x pbase)))) m in
    wrongkey (penc (smul r (smul x pbase))) c ->
    x' <> x -> r <> zzero ->
    decrypt x' (encrypt (smul x pbase) r m) = Err E_AUTH.
  Proof.
    intros c Hw Hx Hr. unfold encrypt. rewrite decrypt_framed by apply penc_len. rewrite pdec_penc.
    fold c. rewrite Hw; [reflexivity|].
    intros Hd. apply penc_inj in Hd. apply Hx. unfold smul, pbase in Hd.
    assert (H : zmul r (zsub x' x) = zzero) by (transitivity (zsub (zmul x' (zmul r zone)) (zmul r (zmul x zone))); [ring|rewrite Hd; ring]).
    apply (zmul_eq_0 q q_prime) in H. destruct H as [H|H]; [contradiction|].
    transitivity (zadd (zsub x' x) x); [ring|rewrite H; ring].
  Qed.

  (* -------- no plaintext block in the clear.  GCM is a counter mode: the body is
     m XOR keystream (premise [seal_stream]); a ciphertext block equals the
     plaintext block exactly when the key-stream block is zero. *)
  Variable ks : bytes -> nat -> bytes.
  Theorem ecies_no_clear_block X r m j :
    (forall k m, firstn (length m) (seal k m) = xorb m (ks k (length m))) ->
    (forall k n, length (ks k n) = n) ->
    (16 * j + 16 <= length m)%nat ->
    let k := kdf (penc (smul r X)) in
    (block j (skipn plen (encrypt X r m)) = block j m <-> all_zero (block j (ks k (length m)))).
  Proof.
    intros Hs Hl Hj k. unfold encrypt. rewrite skipn_app, penc_len, Nat.sub_diag.
    rewrite <- (penc_len (smul r pbase)), skipn_all. cbn [skipn app]. fold k.
    rewrite <- (firstn_skipn (length m) (seal k m)). rewrite Hs.
    rewrite block_app_l by (rewrite xorb_length_eq; rewrite ?Hl; auto).
    apply block_clear_iff. rewrite Hl. reflexivity.
  Qed.
End ECIES.
