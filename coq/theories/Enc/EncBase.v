(* Byte-string helpers shared by the encryption models of property C16:
   XOR of byte strings (as Go's loop over equal-length slices), padding a hash
   to a requested length, 16-byte blocks, outcomes. *)
From Coq Require Import ZArith List Bool Lia.
Import ListNotations.
Local Open Scope Z_scope.

Notation bytes := (list Z) (only parsing).

(* outcome of an operation of the implementation: value, error (class), panic *)
Inductive res (A : Type) :=
| Ok (a : A)
| Err (cls : Z)
| Panic.
Arguments Ok {A} a.
Arguments Err {A} cls.
Arguments Panic {A}.

Definition is_err {A} (r : res A) : Prop := exists c, r = Err c.

Fixpoint beq (a b : bytes) : bool :=
  match a, b with
  | [], [] => true
  | x :: a', y :: b' => (x =? y) && beq a' b'
  | _, _ => false
  end.

Lemma beq_eq a : forall b, beq a b = true <-> a = b.
Proof.
  induction a as [|x a IH]; destruct b as [|y b]; cbn; split; try congruence; try reflexivity.
  - intros H. apply andb_true_iff in H. destruct H as [H1 H2]. apply Z.eqb_eq in H1. apply IH in H2. congruence.
  - intros H. injection H as -> ->. rewrite Z.eqb_refl. cbn. apply IH. reflexivity.
Qed.

Lemma beq_refl a : beq a a = true.
Proof. apply beq_eq. reflexivity. Qed.

Lemma beq_neq a b : a <> b -> beq a b = false.
Proof. intros H. destruct (beq a b) eqn:E; [|reflexivity]. apply beq_eq in E. contradiction. Qed.

(* byte-wise XOR over the common prefix (callers guarantee equal lengths) *)
Fixpoint xorb (a b : bytes) : bytes :=
  match a, b with
  | x :: a', y :: b' => Z.lxor x y :: xorb a' b'
  | _, _ => []
  end.

Lemma xorb_length a : forall b, length (xorb a b) = Nat.min (length a) (length b).
Proof. induction a; destruct b; cbn; auto. Qed.

Lemma xorb_length_eq a b : length a = length b -> length (xorb a b) = length a.
Proof. intros H. rewrite xorb_length, H. apply Nat.min_id. Qed.

Lemma xorb_comm a : forall b, xorb a b = xorb b a.
Proof. induction a; destruct b; cbn; auto. rewrite Z.lxor_comm. f_equal. apply IHa. Qed.

(* (a xor p) xor p = a *)
Lemma xorb_cancel a : forall p, length a = length p -> xorb (xorb a p) p = a.
Proof.
  induction a as [|x a IH]; destruct p as [|y p]; cbn; try discriminate; auto.
  intros H. injection H as H. rewrite Z.lxor_assoc, Z.lxor_nilpotent, Z.lxor_0_r. f_equal. apply IH. exact H.
Qed.

Lemma xorb_cancel_l a p : length a = length p -> xorb p (xorb p a) = a.
Proof. intros H. rewrite (xorb_comm p a), (xorb_comm p). apply xorb_cancel. exact H. Qed.

Lemma xorb_inj_l p : forall a b, length a = length p -> length b = length p -> xorb a p = xorb b p -> a = b.
Proof.
  intros a b Ha Hb H. rewrite <- (xorb_cancel a p Ha), <- (xorb_cancel b p Hb). rewrite H. reflexivity.
Qed.

Lemma xorb_nth a : forall b i, (i < length a)%nat -> (i < length b)%nat ->
  nth i (xorb a b) 0 = Z.lxor (nth i a 0) (nth i b 0).
Proof.
  induction a as [|x a IH]; destruct b as [|y b]; cbn; intros i H1 H2; try lia.
  destruct i; [reflexivity|]. apply IH; lia.
Qed.

Lemma xorb_zero a : xorb a (repeat 0 (length a)) = a.
Proof. induction a; cbn; auto. rewrite Z.lxor_0_r. f_equal. exact IHa. Qed.

Lemma xorb_app a1 : forall a2 b1 b2, length a1 = length b1 ->
  xorb (a1 ++ a2) (b1 ++ b2) = xorb a1 b1 ++ xorb a2 b2.
Proof.
  induction a1 as [|x a1 IH]; destruct b1 as [|y b1]; cbn; intros; try discriminate; auto.
  f_equal. apply IH. lia.
Qed.

Lemma xorb_firstn n : forall a b, firstn n (xorb a b) = xorb (firstn n a) (firstn n b).
Proof.
  induction n; intros a b; [reflexivity|]. destruct a as [|x a]; [reflexivity|].
  destruct b as [|y b]; cbn; [reflexivity|]. f_equal. apply IHn.
Qed.

Lemma xorb_skipn n : forall a b, skipn n (xorb a b) = xorb (skipn n a) (skipn n b).
Proof.
  induction n; intros a b; [reflexivity|]. destruct a as [|x a]; [reflexivity|].
  destruct b as [|y b]; cbn; [destruct (skipn n a); reflexivity|]. apply IHn.
Qed.

(* Go: b := make([]byte, n); bytes.NewReader(h).Read(b) -- fills min(n, len h)
   bytes and leaves the rest zero *)
Definition take_pad (n : nat) (h : bytes) : bytes := firstn n h ++ repeat 0 (n - length h).

Lemma take_pad_length n h : length (take_pad n h) = n.
Proof. unfold take_pad. rewrite app_length, firstn_length, repeat_length. lia. Qed.

Lemma take_pad_le n h : (n <= length h)%nat -> take_pad n h = firstn n h.
Proof. intros H. unfold take_pad. replace (n - length h)%nat with 0%nat by lia. apply app_nil_r. Qed.

Lemma take_pad_nth_lo n h i : (i < n)%nat -> (i < length h)%nat -> nth i (take_pad n h) 0 = nth i h 0.
Proof.
  intros H1 H2. unfold take_pad. rewrite app_nth1 by (rewrite firstn_length; lia).
  rewrite <- (firstn_skipn n h) at 2. rewrite app_nth1 by (rewrite firstn_length; lia). reflexivity.
Qed.

Lemma take_pad_nth_hi n h i : (length h <= i)%nat -> nth i (take_pad n h) 0 = 0.
Proof.
  intros H. unfold take_pad. destruct (Nat.lt_ge_cases i n) as [L|G].
  - rewrite app_nth2 by (rewrite firstn_length; lia). rewrite firstn_length.
    destruct (nth_in_or_default (i - Nat.min n (length h)) (repeat 0 (n - length h)) 0) as [I|E]; [|exact E].
    apply repeat_spec in I. exact I.
  - apply nth_overflow. rewrite app_length, firstn_length, repeat_length. lia.
Qed.

(* 16-byte block j of a byte string *)
Definition block (j : nat) (a : bytes) : bytes := firstn 16 (skipn (16 * j) a).

Definition all_zero (a : bytes) : Prop := Forall (fun x => x = 0) a.

Lemma all_zero_repeat n : all_zero (repeat 0 n).
Proof. induction n; cbn; constructor; auto. Qed.

Lemma all_zero_firstn n : forall a, all_zero a -> all_zero (firstn n a).
Proof. induction n; intros a Ha; [constructor|]. destruct a; [constructor|]. inversion Ha; subst. cbn. constructor; auto. apply IHn; auto. Qed.

Lemma all_zero_skipn n : forall a, all_zero a -> all_zero (skipn n a).
Proof. induction n; intros a Ha; [exact Ha|]. destruct a; [constructor|]. inversion Ha; subst. cbn. apply IHn; auto. Qed.

Lemma lxor_eq_l x p : Z.lxor x p = x <-> p = 0.
Proof.
  split; intros H.
  - assert (E : Z.lxor x (Z.lxor x p) = Z.lxor x x) by (rewrite H; reflexivity).
    rewrite <- Z.lxor_assoc, Z.lxor_nilpotent, Z.lxor_0_l in E. exact E.
  - subst. apply Z.lxor_0_r.
Qed.

Lemma xorb_eq_iff a : forall p, length a = length p -> (xorb a p = a <-> all_zero p).
Proof.
  induction a as [|x a IH]; destruct p as [|y p]; cbn; try discriminate; intros H.
  - split; intros; [constructor|reflexivity].
  - injection H as H. split; intros E.
    + injection E as E1 E2. constructor; [apply (lxor_eq_l x y); exact E1| apply IH; assumption].
    + inversion E; subst. rewrite Z.lxor_0_r. f_equal. apply IH; assumption.
Qed.

(* a ciphertext block equals the plaintext block iff the pad block is zero *)
Lemma block_clear_iff m p j : length m = length p ->
  (block j (xorb m p) = block j m <-> all_zero (block j p)).
Proof.
  intros H. unfold block. rewrite xorb_skipn, xorb_firstn. apply xorb_eq_iff.
  rewrite !firstn_length, !skipn_length, H. reflexivity.
Qed.

Lemma block_app_l j a b : (16 * j + 16 <= length a)%nat -> block j (a ++ b) = block j a.
Proof.
  intros H. unfold block. rewrite skipn_app. rewrite firstn_app.
  rewrite skipn_length. replace (16 - (length a - 16 * j))%nat with 0%nat by lia.
  cbn [firstn]. rewrite app_nil_r. reflexivity.
Qed.

Lemma block_length j a : (16 * j + 16 <= length a)%nat -> length (block j a) = 16%nat.
Proof. intros H. unfold block. rewrite firstn_length, skipn_length. lia. Qed.

Definition is_byte (x : Z) : Prop := 0 <= x < 256.
