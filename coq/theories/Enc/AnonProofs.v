(* Theorems about the anonymity-set encryption model (AnonEnc.v). *)
From Coq Require Import ZArith Znumtheory List Bool Lia Ring Field.
From Kyber Require Import Algebra.Zq Algebra.Grp Enc.EncBase Enc.AnonEnc.
Import ListNotations.
Local Open Scope Z_scope.

Lemma firstn_app_exact {A} (a b : list A) n : length a = n -> firstn n (a ++ b) = a.
Proof. intros <-. rewrite firstn_app, firstn_all, Nat.sub_diag. cbn. apply app_nil_r. Qed.

Lemma skipn_app_exact {A} (a b : list A) n : length a = n -> skipn n (a ++ b) = b.
Proof. intros <-. rewrite skipn_app, skipn_all, Nat.sub_diag. reflexivity. Qed.

Lemma skipn_skipn_plus {A} a : forall b (l : list A), skipn b (skipn a l) = skipn (a + b) l.
Proof. induction a; intros b l; [reflexivity|]. destruct l; [rewrite !skipn_nil; reflexivity|]. cbn. apply IHa. Qed.

Lemma all_zero_b_xorb a : forall b, length a = length b -> (all_zero_b (xorb a b) = true <-> a = b).
Proof.
  induction a as [|x a IH]; destruct b as [|y b]; cbn; try discriminate; intros H.
  - split; reflexivity.
  - injection H as H. rewrite andb_true_iff, Z.eqb_eq, (IH b H). split.
    + intros [E ->]. f_equal. apply Z.lxor_eq in E. exact E.
    + intros [= -> ->]. split; [apply Z.lxor_nilpotent|reflexivity].
Qed.

Section AnonProofs.
  Variable q : Z.
  Notation F := (zq q).
  Variable plen slen : nat.
  Variable penc : F -> bytes.
  Variable pdec : bytes -> option F.
  Variable senc : F -> bytes.
  Variable sdec : bytes -> option F.
  Variable xof : bytes -> nat -> bytes.

  Hypothesis q_prime : prime q.
  Add Field zqF_anon : (zq_field q q_prime).
  Hypothesis penc_len : forall P, length (penc P) = plen.
  Hypothesis pdec_penc : forall P, pdec (penc P) = Some P.
  Hypothesis senc_len : forall s, length (senc s) = slen.
  Hypothesis sdec_senc : forall s, sdec (senc s) = Some s.
  Hypothesis xof_len : forall s n, length (xof s n) = n.

  Notation slot := (slot q penc xof).
  Notation header_bytes := (header_bytes q penc xof).
  Notation encrypt := (encrypt q penc senc xof).
  Notation decrypt_pure := (decrypt_pure q plen slen penc pdec sdec xof).

  Lemma slot_len x xb Y : length (slot x xb Y) = length xb.
  Proof. unfold AnonEnc.slot. rewrite xorb_length_eq; auto. Qed.

  Lemma slots_len x xb set : length (flat_map (slot x xb) set) = (length xb * length set)%nat.
  Proof. induction set as [|Y s IH]; cbn; [lia|]. rewrite app_length, slot_len, IH. lia. Qed.

  Lemma header_len x Xb xb set : length (header_bytes x Xb xb set) = (length Xb + length xb * length set)%nat.
  Proof. unfold AnonEnc.header_bytes. rewrite app_length, slots_len. reflexivity. Qed.

  (* the i-th slot of a well-formed header *)
  Lemma slots_nth x xb : forall set i rest, (i < length set)%nat ->
    firstn (length xb) (skipn (length xb * i) (flat_map (slot x xb) set ++ rest)) = slot x xb (nth i set zzero).
  Proof.
    induction set as [|Y s IH]; intros i rest Hi; cbn in Hi; [lia|].
    destruct i as [|i].
    - rewrite Nat.mul_0_r. cbn [skipn flat_map nth]. rewrite <- app_assoc.
      apply firstn_app_exact. apply slot_len.
    - cbn [flat_map nth]. rewrite <- app_assoc.
      replace (length xb * S i)%nat with (length xb + length xb * i)%nat by lia.
      rewrite <- skipn_skipn_plus. rewrite (skipn_app_exact (slot x xb Y)) by apply slot_len.
      apply IH. lia.
  Qed.

  Lemma header_slot x Xb xb set i rest : (i < length set)%nat -> length Xb = plen -> length xb = slen ->
    firstn slen (skipn (plen + slen * i) (header_bytes x Xb xb set ++ rest)) = slot x xb (nth i set zzero).
  Proof.
    intros Hi HX Hx. unfold AnonEnc.header_bytes. rewrite <- app_assoc.
    rewrite <- skipn_skipn_plus. rewrite (skipn_app_exact Xb) by exact HX.
    rewrite <- Hx. apply slots_nth. exact Hi.
  Qed.

  (* a member's DH value equals the sender's *)
  Lemma dh_member (x priv : F) : smul priv (smul x pbase) = smul x (smul priv pbase).
  Proof. unfold smul, pbase. ring. Qed.

  Lemma unwrap x xb Y : xorb (slot x xb Y) (xof (penc (smul x Y)) (length xb)) = xb.
  Proof. unfold AnonEnc.slot. apply xorb_cancel. rewrite xof_len. reflexivity. Qed.

  (* ------------------------------------------------------------ inversion *)
  (* what an accepted ciphertext looks like *)
  Record accepted (c : bytes) (set : list F) (mine : Z) (priv : F) (m : bytes) (X x : F) (xb : bytes) : Prop := {
    acc_idx : 0 <= mine < Z.of_nat (length set);
    acc_len : (plen + slen * length set + macSize <= length c)%nat;
    acc_X : pdec (firstn plen c) = Some X;
    acc_xb : xb = xorb (firstn slen (skipn (plen + slen * Z.to_nat mine) c)) (xof (penc (smul priv X)) slen);
    acc_x : sdec xb = Some x;
    acc_Xx : X = smul x pbase;
    acc_hdr : firstn (plen + slen * length set) c = header_bytes x (firstn plen c) xb set;
    acc_mac : skipn (length c - macSize) c =
              xof (firstn (length c - macSize - (plen + slen * length set)) (skipn (plen + slen * length set) c)) macSize;
    acc_msg : m = let body := firstn (length c - macSize - (plen + slen * length set)) (skipn (plen + slen * length set) c) in
                  xorb body (xof xb (length body))
  }.

  Theorem anon_accept_iff c set mine priv m :
    decrypt_pure true c set mine priv = Ok m <-> exists X x xb, accepted c set mine priv m X x xb.
  Proof.
    unfold AnonEnc.decrypt_pure. split.
    - destruct (Nat.ltb_spec (length c) plen) as [|L0]; [discriminate|].
      destruct (pdec (firstn plen c)) as [X|] eqn:EX; [|discriminate].
      destruct ((mine <? 0) || (Z.of_nat (length set) <=? mine)) eqn:Ei; [discriminate|].
      destruct (Nat.ltb_spec (length c) (plen + slen * length set)) as [|L1]; [discriminate|].
      set (xb := xorb _ _).
      destruct (sdec xb) as [x|] eqn:Ex; [|discriminate].
      destruct (zeqb_spec q X (smul x pbase)) as [EXx|]; [|discriminate]. cbn [negb andb].
      destruct (beq _ _) eqn:Eh; [|discriminate]. cbn [negb].
      destruct (Nat.ltb_spec (length c) (plen + slen * length set + macSize)) as [|L2]; [discriminate|].
      destruct (all_zero_b _) eqn:Em; [|discriminate].
      intros [= <-]. exists X, x, xb. apply beq_eq in Eh.
      apply orb_false_iff in Ei. destruct Ei as [E1 E2]. apply Z.ltb_ge in E1. apply Z.leb_gt in E2.
      constructor; auto; try lia.
      apply all_zero_b_xorb in Em; [exact Em|].
      rewrite skipn_length, xof_len. unfold macSize in *. lia.
    - intros [X [x [xb A]]]. destruct A.
      destruct (Nat.ltb_spec (length c) plen); [unfold macSize in *; lia|].
      rewrite acc_X0.
      replace ((mine <? 0) || (Z.of_nat (length set) <=? mine)) with false
        by (symmetry; apply orb_false_iff; split; [apply Z.ltb_ge|apply Z.leb_gt]; lia).
      destruct (Nat.ltb_spec (length c) (plen + slen * length set)); [unfold macSize in *; lia|].
      rewrite <- acc_xb0, acc_x0.
      destruct (zeqb_spec q X (smul x pbase)); [|contradiction]. cbn [negb andb].
      rewrite <- acc_hdr0, beq_refl. cbn [negb].
      destruct (Nat.ltb_spec (length c) (plen + slen * length set + macSize)); [lia|].
      rewrite acc_mac0 at 1.
      replace (all_zero_b _) with true; [rewrite acc_msg0; reflexivity|].
      symmetry. apply all_zero_b_xorb; [rewrite !xof_len; reflexivity|reflexivity].
  Qed.

  (* never a panic for a valid index, whatever the ciphertext *)
  Theorem anon_no_panic check c set mine priv :
    0 <= mine < Z.of_nat (length set) -> decrypt_pure check c set mine priv <> Panic.
  Proof.
    intros Hi. unfold AnonEnc.decrypt_pure.
    destruct (_ <? _)%nat; [discriminate|]. destruct (pdec _); [|discriminate].
    replace ((mine <? 0) || (Z.of_nat (length set) <=? mine)) with false
      by (symmetry; apply orb_false_iff; split; [apply Z.ltb_ge|apply Z.leb_gt]; lia).
    destruct (_ <? _)%nat; [discriminate|]. destruct (sdec _); [|discriminate].
    destruct (negb (zeqb _ _)); [discriminate|]. destruct (check && _); [discriminate|].
    destruct (_ <? _)%nat; [discriminate|]. destruct (all_zero_b _); discriminate.
  Qed.

  (* anything shorter than header + tag is refused *)
  Theorem anon_short check c set mine priv :
    0 <= mine < Z.of_nat (length set) ->
    (length c < plen + slen * length set + macSize)%nat -> is_err (decrypt_pure check c set mine priv).
  Proof.
    intros Hi L. unfold AnonEnc.decrypt_pure.
    destruct (_ <? _)%nat; [eexists; reflexivity|]. destruct (pdec _); [|eexists; reflexivity].
    replace ((mine <? 0) || (Z.of_nat (length set) <=? mine)) with false
      by (symmetry; apply orb_false_iff; split; [apply Z.ltb_ge|apply Z.leb_gt]; lia).
    destruct (_ <? _)%nat; [eexists; reflexivity|]. destruct (sdec _); [|eexists; reflexivity].
    destruct (negb (zeqb _ _)); [eexists; reflexivity|]. destruct (check && _); [eexists; reflexivity|].
    destruct (Nat.ltb_spec (length c) (plen + slen * length set + macSize)); [eexists; reflexivity|lia].
  Qed.

  (* ------------------------------------------------------------ round trip *)
  Lemma encrypt_accepted set (x : F) m i (priv : F) :
    (i < length set)%nat -> nth i set zzero = smul priv pbase ->
    accepted (encrypt set x m) set (Z.of_nat i) priv m (smul x pbase) x (senc x).
  Proof.
    intros Hi HY. unfold AnonEnc.encrypt.
    set (xb := senc x). set (body := xorb m (xof xb (length m))).
    set (hdr := header_bytes x (penc (smul x pbase)) xb set).
    assert (Lxb : length xb = slen) by apply senc_len.
    assert (Lh : length hdr = (plen + slen * length set)%nat)
      by (unfold hdr; rewrite header_len, penc_len, Lxb; reflexivity).
    assert (Lb : length body = length m) by (unfold body; rewrite xorb_length_eq; rewrite ?xof_len; auto).
    assert (Lc : length (hdr ++ body ++ xof body macSize) = (plen + slen * length set + length m + macSize)%nat)
      by (rewrite !app_length, Lh, Lb, xof_len; lia).
    assert (FX : firstn plen (hdr ++ body ++ xof body macSize) = penc (smul x pbase)).
    { unfold hdr, AnonEnc.header_bytes. rewrite <- app_assoc. apply firstn_app_exact. apply penc_len. }
    constructor.
    - lia.
    - rewrite Lc. lia.
    - rewrite FX. apply pdec_penc.
    - rewrite Nat2Z.id. unfold hdr. rewrite header_slot by (auto; apply penc_len).
      rewrite HY, dh_member. rewrite <- Lxb. symmetry. apply unwrap.
    - apply sdec_senc.
    - reflexivity.
    - rewrite FX. apply firstn_app_exact. exact Lh.
    - rewrite Lc.
      replace (plen + slen * length set + length m + macSize - macSize)%nat with (length hdr + length body)%nat by lia.
      rewrite app_assoc. rewrite skipn_app_exact by (rewrite app_length; reflexivity).
      rewrite <- app_assoc. rewrite <- Lh. rewrite skipn_app_exact by reflexivity.
      replace (length hdr + length body - length hdr)%nat with (length body) by lia.
      rewrite firstn_app_exact by reflexivity. reflexivity.
    - cbv zeta. rewrite Lc.
      replace (plen + slen * length set + length m + macSize - macSize - (plen + slen * length set))%nat with (length body) by lia.
      rewrite <- Lh. rewrite skipn_app_exact by reflexivity. rewrite firstn_app_exact by reflexivity.
      unfold body at 1. rewrite Lb. symmetry. apply xorb_cancel. rewrite xof_len. reflexivity.
  Qed.

  (* every message (any length), every set size >= 1, every member index *)
  Theorem anon_roundtrip set (x : F) m i (priv : F) :
    (i < length set)%nat -> nth i set zzero = smul priv pbase ->
    decrypt_pure true (encrypt set x m) set (Z.of_nat i) priv = Ok m.
  Proof. intros Hi HY. apply anon_accept_iff. eexists _, _, _. apply encrypt_accepted; assumption. Qed.

  (* ---------------------------------------- what the header check guarantees *)
  Lemma accepted_xb_len c set mine priv m X x xb :
    accepted c set mine priv m X x xb -> length xb = slen.
  Proof.
    intros A. destruct A. subst xb. rewrite xorb_length_eq; rewrite firstn_length, skipn_length, ?xof_len.
    - assert (Z.to_nat mine < length set)%nat by lia. unfold macSize in *. nia.
    - assert (Z.to_nat mine < length set)%nat by lia. unfold macSize in *. nia.
  Qed.

  (* "it could be decrypted by ALL of the listed members": an accepted
     ciphertext decrypts to the same message under every member's key *)
  Theorem anon_all_members_agree c set i (priv_i : F) m j (priv_j : F) :
    decrypt_pure true c set i priv_i = Ok m ->
    (j < length set)%nat -> nth j set zzero = smul priv_j pbase ->
    decrypt_pure true c set (Z.of_nat j) priv_j = Ok m.
  Proof.
    intros D Hj HY. apply anon_accept_iff in D. destruct D as [X [x [xb A]]].
    pose proof (accepted_xb_len _ _ _ _ _ _ _ _ A) as Lxb.
    apply anon_accept_iff. exists X, x, xb. destruct A.
    constructor; auto; try lia.
    rewrite Nat2Z.id.
    rewrite <- (firstn_skipn (plen + slen * length set) c) at 1. rewrite acc_hdr0.
    rewrite header_slot; auto.
    2:{ rewrite firstn_length. unfold macSize in *. lia. }
    rewrite HY, acc_Xx0, dh_member. rewrite <- Lxb. symmetry. apply unwrap.
  Qed.

  (* the whole header is determined by X and the reader's own slot: two accepted
     ciphertexts that agree on those agree on every other recipient's slot.
     Hence altering ANOTHER recipient's slot (only) of an accepted ciphertext
     is rejected. *)
  Theorem anon_header_determined c c' set mine priv m m' :
    decrypt_pure true c set mine priv = Ok m ->
    decrypt_pure true c' set mine priv = Ok m' ->
    firstn plen c' = firstn plen c ->
    firstn slen (skipn (plen + slen * Z.to_nat mine) c') = firstn slen (skipn (plen + slen * Z.to_nat mine) c) ->
    firstn (plen + slen * length set) c' = firstn (plen + slen * length set) c.
  Proof.
    intros D D' EX ES. apply anon_accept_iff in D, D'.
    destruct D as [X [x [xb A]]]. destruct D' as [X' [x' [xb' A']]].
    destruct A as [a1 a2 aX axb ax aXx ahdr amac amsg], A' as [b1 b2 bX bxb bx bXx bhdr bmac bmsg].
    rewrite EX in bX, bhdr. rewrite aX in bX. injection bX as EXX.
    rewrite ES, <- EXX in bxb. rewrite <- axb in bxb. subst xb'.
    rewrite ax in bx. injection bx as <-.
    rewrite ahdr, bhdr. reflexivity.
  Qed.

  Theorem anon_tamper_other_slot c c' set mine priv m :
    decrypt_pure true c set mine priv = Ok m ->
    0 <= mine < Z.of_nat (length set) ->
    firstn plen c' = firstn plen c ->
    firstn slen (skipn (plen + slen * Z.to_nat mine) c') = firstn slen (skipn (plen + slen * Z.to_nat mine) c) ->
    firstn (plen + slen * length set) c' <> firstn (plen + slen * length set) c ->
    is_err (decrypt_pure true c' set mine priv).
  Proof.
    intros D Hi EX ES Hne.
    destruct (decrypt_pure true c' set mine priv) as [m'|cls|] eqn:D'.
    - exfalso. apply Hne. eapply anon_header_determined; eauto.
    - exists cls. reflexivity.
    - exfalso. revert D'. apply anon_no_panic. exact Hi.
  Qed.

  (* altered X or own slot, rest unchanged: acceptance forces the unwrapped
     secret x' to satisfy X' = x'*B and to reproduce every slot - spelled out
     by [anon_accept_iff]; in particular the tag is determined by the body: *)
  Theorem anon_tag_determined c c' set mine priv m m' :
    decrypt_pure true c set mine priv = Ok m ->
    decrypt_pure true c' set mine priv = Ok m' ->
    length c' = length c ->
    firstn (length c - macSize) c' = firstn (length c - macSize) c ->
    c' = c.
  Proof.
    intros D D' EL EP. apply anon_accept_iff in D, D'.
    destruct D as [X [x [xb A]]]. destruct D' as [X' [x' [xb' A']]].
    destruct A, A'. rewrite EL in *.
    remember (length c - macSize)%nat as n eqn:En.
    rewrite <- (firstn_skipn n c'), <- (firstn_skipn n c).
    rewrite EP. f_equal. rewrite acc_mac0, acc_mac1. f_equal.
    (* bodies agree because the prefixes agree *)
    set (h := (plen + slen * length set)%nat) in *.
    assert (S : skipn h (firstn n c') = skipn h (firstn n c)) by (rewrite EP; reflexivity).
    rewrite !skipn_firstn_comm in S. exact S.
  Qed.

  (* an altered tag alone is always rejected *)
  Theorem anon_tamper_tag c c' set mine priv m :
    decrypt_pure true c set mine priv = Ok m ->
    0 <= mine < Z.of_nat (length set) ->
    length c' = length c -> firstn (length c - macSize) c' = firstn (length c - macSize) c -> c' <> c ->
    is_err (decrypt_pure true c' set mine priv).
  Proof.
    intros D Hi EL EP Hne.
    destruct (decrypt_pure true c' set mine priv) as [m'|cls|] eqn:D'.
    - exfalso. apply Hne. eapply anon_tag_determined; eauto.
    - exists cls. reflexivity.
    - exfalso. revert D'. apply anon_no_panic. exact Hi.
  Qed.

  (* altered body with the tag kept (or any other change behind the header):
     acceptance is a collision of the MAC oracle on two different bodies *)
  Theorem anon_tamper_body c c' set mine priv m m' :
    decrypt_pure true c set mine priv = Ok m ->
    decrypt_pure true c' set mine priv = Ok m' ->
    length c' = length c ->
    skipn (length c - macSize) c' = skipn (length c - macSize) c ->
    let h := (plen + slen * length set)%nat in
    let body (z : bytes) := firstn (length c - macSize - h) (skipn h z) in
    xof (body c') macSize = xof (body c) macSize.
  Proof.
    intros D D' EL ET h body. apply anon_accept_iff in D, D'.
    destruct D as [X [x [xb A]]]. destruct D' as [X' [x' [xb' A']]].
    destruct A, A'. rewrite EL in *. unfold body, h. rewrite <- acc_mac0, <- acc_mac1. exact ET.
  Qed.


  (* decryption of an honest ciphertext with another key at index i: accepted only
     if the XOF output for the seed derived from priv'*X coincides with the one
     for the sender's DH value x*Y_i (for priv'*B <> Y_i and x <> 0 the seeds
     differ: an XOF collision) *)
  Theorem anon_wrong_key set (x : F) m i (priv' : F) m' :
    (i < length set)%nat ->
    decrypt_pure true (encrypt set x m) set (Z.of_nat i) priv' = Ok m' ->
    xof (penc (smul priv' (smul x pbase))) slen = xof (penc (smul x (nth i set zzero))) slen /\ m' = m.
  Proof.
    intros Hi D. apply anon_accept_iff in D. destruct D as [X [x' [xb' A]]].
    destruct A as [a1 a2 aX axb ax aXx ahdr amac amsg].
    unfold AnonEnc.encrypt in *.
    set (xb := senc x) in *. set (body := xorb m (xof xb (length m))) in *.
    set (hdr := header_bytes x (penc (smul x pbase)) xb set) in *.
    assert (Lxb : length xb = slen) by apply senc_len.
    assert (Lh : length hdr = (plen + slen * length set)%nat)
      by (unfold hdr; rewrite header_len, penc_len, Lxb; reflexivity).
    assert (Lb : length body = length m) by (unfold body; rewrite xorb_length_eq; rewrite ?xof_len; auto).
    assert (FX : firstn plen (hdr ++ body ++ xof body macSize) = penc (smul x pbase)).
    { unfold hdr, AnonEnc.header_bytes. rewrite <- app_assoc. apply firstn_app_exact. apply penc_len. }
    rewrite FX in aX, ahdr. rewrite pdec_penc in aX. injection aX as <-.
    (* x' = x *)
    assert (Exx : x' = x).
    { unfold smul, pbase in aXx. transitivity (zmul x' zone); [ring|]. rewrite <- aXx. ring. }
    subst x'.
    rewrite Nat2Z.id in axb. unfold hdr in axb at 1. rewrite header_slot in axb by (auto; apply penc_len).
    (* the header of the honest ciphertext is header_bytes x _ xb set; acceptance says it is
       header_bytes x _ xb' set: compare slot i *)
    rewrite firstn_app_exact in ahdr by exact Lh.
    assert (Lxb' : length xb' = slen).
    { rewrite axb. rewrite xorb_length_eq; rewrite slot_len, ?xof_len; auto. }
    assert (Es : slot x xb (nth i set zzero) = slot x xb' (nth i set zzero)).
    { pose proof (header_slot x (penc (smul x pbase)) xb set i [] Hi (penc_len _) Lxb) as S1.
      pose proof (header_slot x (penc (smul x pbase)) xb' set i [] Hi (penc_len _) Lxb') as S2.
      rewrite !app_nil_r in S1, S2. fold hdr in S1. rewrite <- S1, <- S2, <- ahdr. reflexivity. }
    assert (Exb : xb' = xb).
    { unfold AnonEnc.slot in Es. rewrite Lxb, Lxb' in Es.
      symmetry. eapply xorb_inj_l; [| |exact Es]; rewrite xof_len; auto. }
    split.
    - rewrite Exb in axb. unfold AnonEnc.slot in axb. rewrite Lxb in axb.
      (* xb = (xb xor ks_i) xor ks'  ==> ks' = ks_i *)
      set (ksi := xof (penc (smul x (nth i set zzero))) slen) in *.
      set (ks' := xof (penc (smul priv' (smul x pbase))) slen) in *.
      assert (L1 : length ksi = slen) by apply xof_len.
      assert (L2 : length ks' = slen) by apply xof_len.
      apply (xorb_inj_l (xorb xb ksi)); [rewrite xorb_length_eq; congruence | rewrite xorb_length_eq; congruence|].
      rewrite (xorb_comm ks'), <- axb. rewrite (xorb_comm xb ksi). symmetry. apply xorb_cancel_l. congruence.
    - rewrite amsg. cbv zeta. rewrite Exb.
      assert (Lc : length (hdr ++ body ++ xof body macSize) = (plen + slen * length set + length m + macSize)%nat)
        by (rewrite !app_length, Lh, Lb, xof_len; lia).
      rewrite Lc.
      replace (plen + slen * length set + length m + macSize - macSize - (plen + slen * length set))%nat with (length body) by lia.
      rewrite <- Lh. rewrite skipn_app_exact by reflexivity. rewrite firstn_app_exact by reflexivity.
      unfold body at 1. rewrite Lb. apply xorb_cancel. rewrite xof_len. reflexivity.
  Qed.

  (* no plaintext block in the clear: body = m XOR ks(x) *)
  Theorem anon_no_clear_block set (x : F) m j :
    let c := encrypt set x m in
    let h := (plen + slen * length set)%nat in
    (block j (firstn (length m) (skipn h c)) = block j m <-> all_zero (block j (xof (senc x) (length m)))).
  Proof.
    intros c h. unfold c, AnonEnc.encrypt.
    rewrite skipn_app_exact by (rewrite header_len, penc_len, senc_len; reflexivity).
    rewrite firstn_app_exact by (rewrite xorb_length_eq; rewrite ?xof_len; auto).
    apply block_clear_iff. rewrite xof_len. reflexivity.
  Qed.
End AnonProofs.
