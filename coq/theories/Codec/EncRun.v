(* Runner for the C03 correspondence.  Not used by any theorem. *)
From Coq Require Import ZArith List Bool.
From Kyber Require Import Algebra.Zq Algebra.Grp Xof.XofSM Codec.Bytes Scalar.ScalarSM Scalar.ScalarRun Codec.EncSM.
Import ListNotations.
Local Open Scope Z_scope.

Inductive case :=
(* s holds the reduced value v: bytes = s.MarshalBinary(); t.UnmarshalBinary(bytes)
   succeeded; reenc = t.MarshalBinary(); eq = s.Equal(t) *)
| CScalar (id : Z) (im : inst) (v : Z) (bytes reenc : list Z) (eq : bool)
(* s.MarshalTo(w) on a writer already holding pre: content afterwards, count *)
| CMarshalTo (id : Z) (im : inst) (v : Z) (pre written : list Z) (n : Z)
(* t.UnmarshalFrom(r) on a reader holding input: count, success, re-encoding
   of t afterwards (when ok), bytes left in the reader *)
| CUnmarshalFrom (id : Z) (im : inst) (input : list Z) (n : Z) (ok : bool) (reenc : list Z) (remaining : Z)
(* WriteHexScalar / ScalarToStringHex *)
| CHexW (id : Z) (im : inst) (v : Z) (hex : list Z)
(* ReadHexScalar / StringHexToScalar *)
| CHexR (id : Z) (im : inst) (input : list Z) (ok : bool) (reenc : list Z)
(* a pool of points of one group of order q with advertised length n: for each
   the computation path, the MarshalBinary bytes and the class of the point
   under the implementation's Equal *)
| CPoints (id : Z) (q : Z) (n : Z) (entries : list (pexp * list Z * Z))
(* a point whose affine coordinates the harness computed itself (coordinates
   with leading zero bytes): MarshalBinary must be the fixed-width layout *)
| CCoord (id : Z) (bk : Z) (w : Z) (prefix : list Z) (cs : list Z) (bytes : list Z).

Definition ok_and_reenc (q : Z) (i : impl) (bo : border) (r : dres) (ok : bool) (reenc : list Z) : bool :=
  match r with
  | DOk v => ok && list_eqb (enc q i bo v) reenc
  | DUnreduced _ => false
  | _ => negb ok
  end.

Fixpoint pairs_ok (q : Z) (l : list (zq q * list Z * Z)) : bool :=
  match l with
  | [] => true
  | (d, b, c) :: t =>
      forallb (fun e => let '(d', b', c') := e in
                        Bool.eqb (list_eqb b b') (zeqb d d') && Bool.eqb (c =? c') (zeqb d d')) t
      && pairs_ok q t
  end.

Definition check (c : case) : option Z :=
  match c with
  | CScalar id (q, ik, bk) v bytes reenc eq =>
      let i := impl_of ik in let bo := bo_of bk in
      let a := of_Z q v in
      if list_eqb (marshal i bo a) bytes
         && ok_and_reenc q i bo (unmarshal q i bo bytes) true reenc && eq
         && (Z.of_nat (length bytes) =? Z.of_nat (mlen i q))
      then None else Some id
  | CMarshalTo id (q, ik, bk) v pre written n =>
      let i := impl_of ik in let bo := bo_of bk in
      let '(w, n') := marshal_to q i bo pre (val (of_Z q v)) in
      if list_eqb w written && (n' =? n) then None else Some id
  | CUnmarshalFrom id (q, ik, bk) input n ok reenc remaining =>
      let i := impl_of ik in let bo := bo_of bk in
      let '(n', r, rest) := unmarshal_from q i bo input in
      if (n' =? n) && ok_and_reenc q i bo r ok reenc && (Z.of_nat (length rest) =? remaining)
      then None else Some id
  | CHexW id (q, ik, bk) v hex =>
      let i := impl_of ik in let bo := bo_of bk in
      if list_eqb (write_hex q i bo (val (of_Z q v))) hex then None else Some id
  | CHexR id (q, ik, bk) input ok reenc =>
      let i := impl_of ik in let bo := bo_of bk in
      if ok_and_reenc q i bo (read_hex q i bo input) ok reenc then None else Some id
  | CPoints id q n entries =>
      let l := map (fun e => let '(p, b, c) := e in (peval q p, b, c)) entries in
      if forallb (fun e => let '(_, b, _) := e in Z.of_nat (length b) =? n) l && pairs_ok q l
      then None else Some id
  | CCoord id bk w prefix cs bytes =>
      if list_eqb (coord_enc (bo_of bk) (Z.to_nat w) prefix cs) bytes then None else Some id
  end.

Definition mismatches (cs : list case) : list Z :=
  flat_map (fun c => match check c with Some i => [i] | None => [] end) cs.
