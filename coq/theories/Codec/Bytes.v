(* Byte codecs shared by C02 (SetBytes) and C03 (MarshalBinary/UnmarshalBinary):
   fixed-width little-/big-endian encodings of integers and their decoders,
   written the way the Go code computes them.  Definitions only; the proofs are
   in Codec/BytesProofs.v.

   - big.Int.SetBytes           = [be_decode]    (XofSM: Horner, most significant first)
   - mod.Int.SetBytes, LittleEndian byte order: [reverse] the buffer, then big-endian
   - big.Int.Bytes + left zero padding to the fixed length = [be_encode]
   - mod.Int.LittleEndian(l,l)  = reversed minimal bytes, right zero padding = [le_encode] *)
From Coq Require Import ZArith List Bool.
From Kyber Require Import Xof.XofSM.
Import ListNotations.
Local Open Scope Z_scope.

Inductive border := LE | BE.

Definition border_eqb (a b : border) : bool :=
  match a, b with LE, LE | BE, BE => true | _, _ => false end.

(* positional value, least significant byte first: sum bs_i * 256^i *)
Fixpoint le_decode (bs : list Z) : Z :=
  match bs with
  | [] => 0
  | b :: t => b + 256 * le_decode t
  end.

(* the [n] low-order bytes of [v], least significant first *)
Fixpoint le_encode (n : nat) (v : Z) : list Z :=
  match n with
  | O => []
  | S k => v mod 256 :: le_encode k (v / 256)
  end.

Definition be_encode (n : nat) (v : Z) : list Z := rev (le_encode n v).

(* decoding as coded in group/mod/int.go SetBytes / UnmarshalBinary: a
   little-endian buffer is reversed and then read big-endian *)
Definition decode (bo : border) (bs : list Z) : Z :=
  match bo with
  | BE => be_decode bs
  | LE => be_decode (rev bs)
  end.

Definition encode (bo : border) (n : nat) (v : Z) : list Z :=
  match bo with
  | BE => be_encode n v
  | LE => le_encode n v
  end.

(* big.Int.Bytes(): minimal big-endian representation (no leading zero byte;
   empty for 0); fuel = an upper bound on the number of bytes *)
Fixpoint min_le_bytes (fuel : nat) (v : Z) : list Z :=
  match fuel with
  | O => []
  | S k => if v <=? 0 then [] else v mod 256 :: min_le_bytes k (v / 256)
  end.
Definition min_be_bytes (fuel : nat) (v : Z) : list Z := rev (min_le_bytes fuel v).

(* MarshalBinary of mod.Int as coded: minimal bytes, then left padding (big
   endian) resp. reversal into a zeroed buffer (little endian).  [None] = the
   value does not fit (the Go code panics or truncates; outside the property) *)
Definition pad_encode (bo : border) (n : nat) (v : Z) : option (list Z) :=
  let b := min_be_bytes (S n) v in
  if Nat.ltb n (length b) then None
  else Some (match bo with
             | BE => repeat 0 (n - length b) ++ b
             | LE => rev b ++ repeat 0 (n - length b)
             end).

Fixpoint list_eqb (a b : list Z) : bool :=
  match a, b with
  | [], [] => true
  | x :: a', y :: b' => Z.eqb x y && list_eqb a' b'
  | _, _ => false
  end.
