(* Proofs about the byte codecs of Codec/Bytes.v, for ALL lengths and values:
   positional value, fixed length, round trips in both directions, injectivity,
   and the equivalence of "minimal bytes + padding" (what mod.Int.MarshalBinary
   does) with the fixed-width encoding. *)
From Coq Require Import ZArith List Bool Lia.
From Kyber Require Import Xof.XofSM Xof.XofProofs Codec.Bytes.
Import ListNotations.
Local Open Scope Z_scope.

Lemma pow256_pos n : 0 < 256 ^ Z.of_nat n.
Proof. apply Z.pow_pos_nonneg; lia. Qed.

Lemma pow256_succ n : 256 ^ Z.of_nat (S n) = 256 * 256 ^ Z.of_nat n.
Proof. rewrite Nat2Z.inj_succ, Z.pow_succ_r by lia. reflexivity. Qed.

Lemma le_decode_app a b :
  le_decode (a ++ b) = le_decode a + 256 ^ Z.of_nat (length a) * le_decode b.
Proof.
  induction a as [|x a IH]; cbn [app le_decode length].
  - rewrite Z.pow_0_r. lia.
  - rewrite IH, pow256_succ. ring.
Qed.

(* big-endian Horner evaluation = positional value of the reversed string *)
Lemma be_decode_rev bs : be_decode bs = le_decode (rev bs).
Proof.
  induction bs as [|b t IH]; [reflexivity|].
  rewrite be_decode_cons. cbn [rev]. rewrite le_decode_app, rev_length. cbn [le_decode].
  rewrite IH. ring.
Qed.

Lemma decode_LE bs : decode LE bs = le_decode bs.
Proof. unfold decode. rewrite be_decode_rev, rev_involutive. reflexivity. Qed.

Lemma decode_BE bs : decode BE bs = le_decode (rev bs).
Proof. unfold decode. apply be_decode_rev. Qed.

Lemma le_decode_range bs : Forall is_byte bs -> 0 <= le_decode bs < 256 ^ Z.of_nat (length bs).
Proof.
  induction bs as [|b t IH]; intros H.
  - cbn. lia.
  - inversion H as [|? ? Hb Ht]; subst. specialize (IH Ht).
    cbn [le_decode length]. rewrite pow256_succ. unfold is_byte in Hb. lia.
Qed.

Lemma le_encode_length n : forall v, length (le_encode n v) = n.
Proof. induction n as [|n IH]; intros v; cbn [le_encode length]; [reflexivity | rewrite IH; reflexivity]. Qed.

Lemma le_encode_bytes n : forall v, Forall is_byte (le_encode n v).
Proof.
  induction n as [|n IH]; intros v; cbn [le_encode]; constructor; [|apply IH].
  unfold is_byte. apply Z.mod_pos_bound. lia.
Qed.

(* decoding an n-byte encoding gives the value modulo 256^n, for EVERY integer *)
Lemma le_decode_encode n : forall v, le_decode (le_encode n v) = v mod 256 ^ Z.of_nat n.
Proof.
  induction n as [|n IH]; intros v; cbn [le_encode le_decode].
  - cbn. rewrite Z.mod_1_r. reflexivity.
  - rewrite IH, pow256_succ. rewrite Z.rem_mul_r by (pose proof (pow256_pos n); lia). reflexivity.
Qed.

Lemma le_encode_decode bs : Forall is_byte bs -> le_encode (length bs) (le_decode bs) = bs.
Proof.
  induction bs as [|b t IH]; intros H; [reflexivity|].
  inversion H as [|? ? Hb Ht]; subst. unfold is_byte in Hb.
  cbn [length le_encode le_decode].
  assert (E1 : (b + 256 * le_decode t) mod 256 = b).
  { rewrite (Z.mul_comm 256), Z_mod_plus_full. apply Z.mod_small. lia. }
  assert (E2 : (b + 256 * le_decode t) / 256 = le_decode t).
  { rewrite (Z.mul_comm 256), Z.div_add by lia. rewrite Z.div_small by lia. lia. }
  rewrite E1, E2, (IH Ht). reflexivity.
Qed.

(* ------------------------------------------------------------------ *)
(* both byte orders *)

Lemma encode_length bo n v : length (encode bo n v) = n.
Proof. destruct bo; unfold encode, be_encode; rewrite ?rev_length; apply le_encode_length. Qed.

Lemma encode_bytes bo n v : Forall is_byte (encode bo n v).
Proof.
  destruct bo; unfold encode, be_encode; [apply le_encode_bytes|].
  apply Forall_rev. apply le_encode_bytes.
Qed.

Lemma decode_encode_mod bo n v : decode bo (encode bo n v) = v mod 256 ^ Z.of_nat n.
Proof.
  destruct bo; unfold encode, be_encode.
  - rewrite decode_LE. apply le_decode_encode.
  - rewrite decode_BE, rev_involutive. apply le_decode_encode.
Qed.

(* round trip value -> bytes -> value, every length, every value that fits *)
Theorem decode_encode bo n v : 0 <= v < 256 ^ Z.of_nat n -> decode bo (encode bo n v) = v.
Proof. intros H. rewrite decode_encode_mod. apply Z.mod_small. exact H. Qed.

(* round trip bytes -> value -> bytes, every byte string *)
Theorem encode_decode bo bs : Forall is_byte bs -> encode bo (length bs) (decode bo bs) = bs.
Proof.
  intros H. destruct bo; unfold encode, be_encode.
  - rewrite decode_LE. apply le_encode_decode. exact H.
  - rewrite decode_BE. rewrite <- (rev_length bs). rewrite le_encode_decode by (apply Forall_rev; exact H).
    apply rev_involutive.
Qed.

Theorem decode_range bo bs : Forall is_byte bs -> 0 <= decode bo bs < 256 ^ Z.of_nat (length bs).
Proof.
  intros H. destruct bo.
  - rewrite decode_LE. apply le_decode_range. exact H.
  - rewrite decode_BE. rewrite <- (rev_length bs). apply le_decode_range. apply Forall_rev. exact H.
Qed.

(* the fixed-width encoding is injective on [0, 256^n) *)
Theorem encode_inj bo n a b :
  0 <= a < 256 ^ Z.of_nat n -> 0 <= b < 256 ^ Z.of_nat n ->
  encode bo n a = encode bo n b -> a = b.
Proof.
  intros Ha Hb E. rewrite <- (decode_encode bo n a Ha), <- (decode_encode bo n b Hb), E. reflexivity.
Qed.

(* decoding is injective on byte strings of one length *)
Theorem decode_inj bo x y :
  Forall is_byte x -> Forall is_byte y -> length x = length y ->
  decode bo x = decode bo y -> x = y.
Proof.
  intros Hx Hy L E. rewrite <- (encode_decode bo x Hx), <- (encode_decode bo y Hy), L, E. reflexivity.
Qed.

(* leading (BE) / trailing (LE) zero bytes do not change the value: inputs of
   any length are accepted by SetBytes *)
Lemma le_decode_zeros bs k : le_decode (bs ++ repeat 0 k) = le_decode bs.
Proof.
  rewrite le_decode_app. assert (Z0 : le_decode (repeat 0 k) = 0).
  { induction k as [|k IH]; cbn [repeat le_decode]; lia. }
  rewrite Z0. lia.
Qed.

Lemma rev_repeat {A} (x : A) k : rev (repeat x k) = repeat x k.
Proof.
  induction k as [|k IH]; [reflexivity|]. cbn [repeat rev]. rewrite IH.
  clear IH. induction k as [|k IH]; [reflexivity|]. cbn [repeat app]. rewrite IH. reflexivity.
Qed.

Theorem decode_pad bs k :
  decode LE (bs ++ repeat 0 k) = decode LE bs /\ decode BE (repeat 0 k ++ bs) = decode BE bs.
Proof.
  rewrite !decode_LE, !decode_BE. split; [apply le_decode_zeros|].
  rewrite rev_app_distr, rev_repeat. apply le_decode_zeros.
Qed.

(* list_eqb decides equality *)
Lemma list_eqb_eq a : forall b, list_eqb a b = true <-> a = b.
Proof.
  induction a as [|x a IH]; intros [|y b]; cbn [list_eqb]; split; intros H; try reflexivity; try discriminate.
  - apply andb_prop in H. destruct H as [H1 H2]. apply Z.eqb_eq in H1. apply IH in H2. subst. reflexivity.
  - inversion H; subst. rewrite Z.eqb_refl. cbn. apply IH. reflexivity.
Qed.

(* ------------------------------------------------------------------ *)
(* minimal bytes + padding (mod.Int.MarshalBinary as coded) = fixed width *)

Lemma min_le_zero m : min_le_bytes m 0 = [].
Proof. destruct m; reflexivity. Qed.

Lemma min_le_split n : forall v, 0 <= v < 256 ^ Z.of_nat n ->
  (length (min_le_bytes n v) <= n)%nat /\
  le_encode n v = min_le_bytes n v ++ repeat 0 (n - length (min_le_bytes n v)).
Proof.
  induction n as [|n IH]; intros v Hv.
  - cbn. split; [lia|reflexivity].
  - cbn [min_le_bytes le_encode]. rewrite pow256_succ in Hv.
    destruct (Z.leb_spec v 0) as [Hz|Hpos].
    + assert (v = 0) by lia. subst v. cbn [length app]. split; [lia|].
      rewrite Nat.sub_0_r. change (0 mod 256) with 0. change (0 / 256) with 0.
      cbn [repeat]. f_equal.
      destruct (IH 0 ltac:(pose proof (pow256_pos n); lia)) as [_ E].
      rewrite E, min_le_zero. cbn [length app]. rewrite Nat.sub_0_r. reflexivity.
    + assert (Hd : 0 <= v / 256 < 256 ^ Z.of_nat n).
      { split; [apply Z.div_pos; lia|]. apply Z.div_lt_upper_bound; lia. }
      destruct (IH (v / 256) Hd) as [L E]. cbn [length app]. split; [lia|].
      rewrite E at 1. reflexivity.
Qed.

Lemma min_le_fuel n : forall v m, 0 <= v < 256 ^ Z.of_nat n -> (n <= m)%nat ->
  min_le_bytes m v = min_le_bytes n v.
Proof.
  induction n as [|n IH]; intros v m Hv Hm.
  - cbn in Hv. assert (v = 0) by lia. subst. rewrite min_le_zero. reflexivity.
  - destruct m as [|m]; [lia|]. cbn [min_le_bytes]. rewrite pow256_succ in Hv.
    destruct (Z.leb_spec v 0); [reflexivity|]. f_equal. apply IH; [|lia].
    split; [apply Z.div_pos; lia|]. apply Z.div_lt_upper_bound; lia.
Qed.

Theorem pad_encode_spec bo n v :
  0 <= v < 256 ^ Z.of_nat n -> pad_encode bo n v = Some (encode bo n v).
Proof.
  intros Hv. unfold pad_encode, min_be_bytes. rewrite (min_le_fuel n v (S n) Hv) by lia.
  destruct (min_le_split n v Hv) as [L E]. rewrite rev_length.
  destruct (Nat.ltb_spec n (length (min_le_bytes n v))) as [|_]; [lia|]. f_equal.
  destruct bo; unfold encode, be_encode.
  - rewrite rev_involutive. symmetry. exact E.
  - rewrite E at 1. rewrite rev_app_distr, rev_repeat. reflexivity.
Qed.
