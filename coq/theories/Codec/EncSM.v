(* Executable model of the encodings of property C03.

   Scalars (exact, byte level): MarshalBinary / UnmarshalBinary of every scalar
   implementation, the generic stream wrappers of
   group/internal/marshalling/marshal.go (MarshalTo / UnmarshalFrom) and the
   hexadecimal helpers of util/encoding/encoding.go.

   Points: there is no byte-exact model here (that is C18's curve reference).
   A point is modelled by its discrete logarithm (Algebra/Grp.v); what the
   property demands of a point encoding is the abstract contract of section
   [PointContract] in Codec/EncProofs.v (advertised length, decode . encode =
   id), and the model decides WHICH values must have identical bytes: [peval]
   evaluates the computation path that produced a point.

   Definitions only. *)
From Coq Require Import ZArith List Bool.
From Kyber Require Import Algebra.Zq Algebra.Grp Xof.XofSM Codec.Bytes Scalar.ScalarSM.
Import ListNotations.
Local Open Scope Z_scope.

(* outcome classes of a decoder *)
Inductive dres :=
| DOk (v : Z)          (* accepted; the scalar now holds the reduced value v *)
| DUnreduced (v : Z)   (* Ed25519 only: accepted and stored unreduced (v >= q); outside C03 *)
| DErrSize             (* wrong buffer length *)
| DErrRange            (* value >= q *)
| DErrShort            (* reader delivered too few bytes *)
| DErrHex.             (* not a hexadecimal string *)

Definition dres_eqb (a b : dres) : bool :=
  match a, b with
  | DOk x, DOk y | DUnreduced x, DUnreduced y => x =? y
  | DErrSize, DErrSize | DErrRange, DErrRange | DErrShort, DErrShort | DErrHex, DErrHex => true
  | _, _ => false
  end.

Section Enc.
  Variable q : Z.
  Variable i : impl.
  Variable bo : border.

  Definition elen : nat := mlen i q.

  (* UnmarshalBinary as coded:
     mod.Int : exact length, reversed when little endian, rejects v >= q
     Ed25519 : exact length 32, copies the bytes (no range check)
     CIRCL   : at least 32 bytes, reads the first 32, rejects v >= q
     gnark   : fr.Element.SetBytes: any length, reduces *)
  Definition unmarshal (bs : list Z) : dres :=
    match i with
    | IMod =>
        if negb (Nat.eqb (length bs) elen) then DErrSize
        else let v := decode bo bs in if q <=? v then DErrRange else DOk v
    | IEd =>
        if negb (Nat.eqb (length bs) 32) then DErrSize
        else let v := decode LE bs in if q <=? v then DUnreduced v else DOk v
    | ICircl =>
        if Nat.ltb (length bs) 32 then DErrSize
        else let v := decode BE (firstn 32 bs) in if q <=? v then DErrRange else DOk v
    | IGnark => DOk (decode BE bs mod q)
    end.

  Definition enc (v : Z) : list Z := encode bo elen v.

  (* MarshalTo(w): appends MarshalBinary to the writer, returns the count *)
  Definition marshal_to (w : list Z) (v : Z) : list Z * Z :=
    (w ++ enc v, Z.of_nat elen).

  (* UnmarshalFrom(r): io.ReadFull of MarshalSize bytes, then UnmarshalBinary.
     Result: bytes consumed, outcome, what is left in the reader. *)
  Definition unmarshal_from (r : list Z) : Z * dres * list Z :=
    if Nat.ltb (length r) elen then (Z.of_nat (length r), DErrShort, [])
    else (Z.of_nat elen, unmarshal (firstn elen r), skipn elen r).

  (* ---------------- hexadecimal helpers ---------------- *)
End Enc.

Definition hex_digit (n : Z) : Z := if n <? 10 then 48 + n else 87 + n.   (* lower case *)
Definition hex_encode (bs : list Z) : list Z :=
  flat_map (fun b => [hex_digit (b / 16); hex_digit (b mod 16)]) bs.
Definition hex_val (c : Z) : option Z :=
  if (48 <=? c) && (c <=? 57) then Some (c - 48)
  else if (97 <=? c) && (c <=? 102) then Some (c - 87)
  else if (65 <=? c) && (c <=? 70) then Some (c - 55)
  else None.
Fixpoint hex_decode (s : list Z) : option (list Z) :=
  match s with
  | [] => Some []
  | [_] => None
  | h :: l :: t =>
      match hex_val h, hex_val l, hex_decode t with
      | Some a, Some b, Some r => Some (16 * a + b :: r)
      | _, _, _ => None
      end
  end.

Section Hex.
  Variable q : Z.
  Variable i : impl.
  Variable bo : border.

  (* WriteHexScalar / ScalarToStringHex *)
  Definition write_hex (v : Z) : list Z := hex_encode (enc q i bo v).

  (* ReadHexScalar / StringHexToScalar: 2*MarshalSize characters are read *)
  Definition read_hex (s : list Z) : dres :=
    let n := (2 * elen q i)%nat in
    if Nat.ltb (length s) n then DErrShort
    else match hex_decode (firstn n s) with
         | None => DErrHex
         | Some b => unmarshal q i bo b
         end.
End Hex.

(* ---------------- fixed-width coordinate codecs ---------------- *)
(* The layout shared by the point encodings whose affine coordinates the
   harness can compute itself: an optional format prefix followed by each
   coordinate as exactly [w] bytes in the codec's byte order, zero padded:
   P-256 uncompressed X9.62 (prefix 4, x, y big endian, w = 32), BN256/BN254 G1
   (x, y big endian, w = 32), the residue group (one big-endian value,
   w = 64), Ed25519 (one little-endian value y + 2^255 * sign(x), w = 32).
   A coordinate with leading zero bytes (any number of them) keeps its place. *)
Definition coord_enc (bo : border) (w : nat) (prefix : list Z) (cs : list Z) : list Z :=
  prefix ++ flat_map (encode bo w) cs.

(* reading k coordinates back *)
Fixpoint coord_dec (bo : border) (w : nat) (k : nat) (bs : list Z) : list Z :=
  match k with
  | O => []
  | S k' => decode bo (firstn w bs) :: coord_dec bo w k' (skipn w bs)
  end.

(* ---------------- points: computation paths over discrete logarithms ------ *)
Inductive pexp :=
| PNull
| PBase
| PVar (d : Z)                 (* a point of unknown logarithm (picked, embedded, hashed):
                                  the run assigns it the logarithm d *)
| PAdd (a b : pexp)
| PSub (a b : pexp)
| PNeg (a : pexp)
| PMul (k : Z) (a : pexp)
| PPair (a b : pexp).          (* pairing of a G1 and a G2 element, in GT *)

Fixpoint peval (q : Z) (e : pexp) : zq q :=
  match e with
  | PNull => pzero
  | PBase => pbase
  | PVar d => of_Z q d
  | PAdd a b => padd (peval q a) (peval q b)
  | PSub a b => psub (peval q a) (peval q b)
  | PNeg a => pneg (peval q a)
  | PMul k a => smul (of_Z q k) (peval q a)
  | PPair a b => pair (peval q a) (peval q b)
  end.
