(* Theorems of property C03 over Codec/EncSM.v: fixed length, round trip,
   canonical re-encoding, Equal iff identical bytes (scalars, exact byte model);
   stream wrappers and hexadecimal helpers carry exactly the MarshalBinary
   bytes; and the abstract contract for point encodings. *)
From Coq Require Import ZArith Znumtheory List Bool Lia.
From Kyber Require Import Algebra.Zq Algebra.Grp Xof.XofSM Xof.XofProofs Codec.Bytes Codec.BytesProofs
  Scalar.ScalarSM Codec.EncSM.
Import ListNotations.
Local Open Scope Z_scope.

(* the encoded length is large enough for every residue *)
Definition fits (i : impl) (q : Z) : Prop := q <= 256 ^ Z.of_nat (mlen i q).

Lemma pow256_2 n : 256 ^ Z.of_nat n = 2 ^ (8 * Z.of_nat n).
Proof. rewrite Z.pow_mul_r by lia. reflexivity. Qed.

(* mod.Int: ceil(bitlen(q)/8) bytes always suffice *)
Lemma fits_mod q : 0 < q -> fits IMod q.
Proof.
  intros Hq. unfold fits, mlen, slen, bitlen_of.
  destruct (Z.leb_spec q 0) as [|_]; [lia|].
  pose proof (Z.log2_spec q Hq) as [_ Hlt]. pose proof (Z.log2_nonneg q) as Hl.
  set (bl := Z.log2 q + 1) in *.
  assert (Hdiv : bl <= 8 * ((bl + 7) / 8)).
  { pose proof (Z.div_mod (bl + 7) 8 ltac:(lia)). pose proof (Z.mod_pos_bound (bl + 7) 8 ltac:(lia)). lia. }
  rewrite pow256_2, Z2Nat.id by (apply Z.div_pos; lia).
  replace (Z.succ (Z.log2 q)) with bl in Hlt by (unfold bl; lia).
  assert (2 ^ bl <= 2 ^ (8 * ((bl + 7) / 8))) by (apply Z.pow_le_mono_r; lia). lia.
Qed.

Lemma fits_32 i q : i <> IMod -> q <= 2 ^ 256 -> fits i q.
Proof. intros Hi Hq. unfold fits. destruct i; try contradiction; exact Hq. Qed.

(* ---------------------------------------------------------------- hex *)
Definition hex_byte_ok (b : Z) : bool :=
  match hex_val (hex_digit (b / 16)), hex_val (hex_digit (b mod 16)) with
  | Some x, Some y => (x =? b / 16) && (y =? b mod 16) && (16 * (b / 16) + b mod 16 =? b)
  | _, _ => false
  end.

Lemma hex_sweep : forallb hex_byte_ok (range 256) = true.
Proof. vm_compute. reflexivity. Qed.

Lemma hex_byte b : is_byte b ->
  hex_val (hex_digit (b / 16)) = Some (b / 16) /\ hex_val (hex_digit (b mod 16)) = Some (b mod 16) /\
  16 * (b / 16) + b mod 16 = b.
Proof.
  intros Hb. pose proof hex_sweep as S. rewrite forallb_forall in S.
  specialize (S b (in_range 256 b Hb)). unfold hex_byte_ok in S.
  destruct (hex_val (hex_digit (b / 16))) as [x|]; [|discriminate].
  destruct (hex_val (hex_digit (b mod 16))) as [y|]; [|discriminate].
  apply andb_prop in S. destruct S as [S S3]. apply andb_prop in S. destruct S as [S1 S2].
  apply Z.eqb_eq in S1, S2, S3. subst. auto.
Qed.

(* hex round trip for every byte string *)
Theorem hex_roundtrip bs : Forall is_byte bs -> hex_decode (hex_encode bs) = Some bs.
Proof.
  induction bs as [|b t IH]; intros H; [reflexivity|].
  inversion H as [|? ? Hb Ht]; subst. destruct (hex_byte b Hb) as (E1 & E2 & E3).
  cbn [hex_encode flat_map app]. fold (hex_encode t). cbn [hex_decode].
  rewrite E1, E2, (IH Ht), E3. reflexivity.
Qed.

Lemma hex_encode_length bs : length (hex_encode bs) = (2 * length bs)%nat.
Proof. induction bs as [|b t IH]; [reflexivity|]. cbn [hex_encode flat_map app length] in *. fold (hex_encode t). lia. Qed.

Lemma hex_encode_app a b : hex_encode (a ++ b) = hex_encode a ++ hex_encode b.
Proof. unfold hex_encode. apply flat_map_app. Qed.

(* hex_encode is injective on byte strings: the hex form identifies the bytes *)
Theorem hex_encode_inj a b : Forall is_byte a -> Forall is_byte b -> hex_encode a = hex_encode b -> a = b.
Proof.
  intros Ha Hb E. pose proof (hex_roundtrip a Ha) as Ra. rewrite E, (hex_roundtrip b Hb) in Ra. congruence.
Qed.

(* ---------------------------------------------------------------- scalars *)
Section Scalars.
  Variable q : Z.
  Variable i : impl.
  Variable bo : border.
  Hypothesis q_pos : 0 < q.
  Hypothesis q_fits : fits i q.
  (* the three fixed-width implementations have a fixed byte order *)
  Hypothesis bo_ok : match i with IEd => bo = LE | ICircl | IGnark => bo = BE | IMod => True end.

  Notation F := (zq q).

  Lemma val_fits (a : F) : 0 <= val a < 256 ^ Z.of_nat (elen q i).
  Proof. pose proof (val_range q a q_pos). unfold fits in q_fits. unfold elen. lia. Qed.

  (* fixed length: exactly what the group advertises *)
  Theorem marshal_length (a : F) : length (marshal i bo a) = mlen i q.
  Proof. apply encode_length. Qed.

  Theorem marshal_bytes (a : F) : Forall is_byte (marshal i bo a).
  Proof. apply encode_bytes. Qed.

  (* decoding the encoding succeeds and yields the same value *)
  Theorem unmarshal_marshal (a : F) : unmarshal q i bo (marshal i bo a) = DOk (val a).
  Proof.
    pose proof (val_fits a) as Hv. pose proof (val_range q a q_pos) as Hr.
    unfold unmarshal, marshal. fold (elen q i).
    destruct i; cbn [mlen] in *.
    - (* Ed25519 *) subst bo. rewrite encode_length. cbn [Nat.eqb negb elen mlen].
      unfold elen in Hv; cbn [mlen] in Hv.
      rewrite (decode_encode LE 32 (val a) Hv).
      destruct (Z.leb_spec q (val a)); [lia|reflexivity].
    - (* mod.Int *) rewrite encode_length, Nat.eqb_refl. cbn [negb].
      rewrite decode_encode by exact Hv. destruct (Z.leb_spec q (val a)); [lia|reflexivity].
    - (* CIRCL *) subst bo. rewrite encode_length. unfold elen in *; cbn [mlen] in *.
      destruct (Nat.ltb_spec 32 32); [lia|].
      rewrite firstn_all2 by (rewrite encode_length; lia).
      rewrite decode_encode by exact Hv. destruct (Z.leb_spec q (val a)); [lia|reflexivity].
    - (* gnark *) subst bo. rewrite decode_encode by exact Hv. f_equal. apply Z.mod_small. exact Hr.
  Qed.

  (* re-encoding the decoded value is byte-identical *)
  Theorem reencode_identical (a : F) v :
    unmarshal q i bo (marshal i bo a) = DOk v -> enc q i bo v = marshal i bo a.
  Proof. rewrite unmarshal_marshal. intros E. inversion E. reflexivity. Qed.

  (* two reduced scalars are equal iff their encodings are identical *)
  Theorem marshal_inj (a b : F) : marshal i bo a = marshal i bo b <-> a = b.
  Proof.
    split; [|intros ->; reflexivity]. intros E. apply zq_eq.
    apply (encode_inj bo (elen q i)); [apply val_fits | apply val_fits | exact E].
  Qed.

  (* only the canonical encoding of v decodes (as a reduced scalar) to v:
     for mod.Int and Ed25519, whatever bytes are accepted with outcome DOk v
     ARE the encoding of v *)
  Theorem unmarshal_canonical bs v :
    i = IMod \/ i = IEd -> Forall is_byte bs ->
    unmarshal q i bo bs = DOk v -> bs = enc q i bo v /\ 0 <= v < q.
  Proof.
    intros Hi Hb. unfold unmarshal, enc. fold (elen q i).
    destruct Hi; subst i.
    - destruct (Nat.eqb_spec (length bs) (elen q IMod)) as [L|]; cbn [negb]; [|discriminate].
      destruct (Z.leb_spec q (decode bo bs)); [discriminate|]. intros E. injection E as <-.
      pose proof (decode_range bo bs Hb). split; [|lia].
      rewrite <- L. symmetry. apply encode_decode. exact Hb.
    - cbn in bo_ok. subst bo.
      destruct (Nat.eqb_spec (length bs) 32) as [L|]; cbn [negb]; [|discriminate].
      destruct (Z.leb_spec q (decode LE bs)); [discriminate|]. intros E. injection E as <-.
      change (be_decode (rev bs)) with (decode LE bs).
      pose proof (decode_range LE bs Hb). split; [|lia].
      unfold elen. cbn [mlen]. rewrite <- L. symmetry. apply encode_decode. exact Hb.
  Qed.

  (* ------------------------------------------------------------ streams *)
  (* MarshalTo appends exactly the MarshalBinary bytes *)
  Theorem marshal_to_spec (w : list Z) (a : F) :
    marshal_to q i bo w (val a) = (w ++ marshal i bo a, Z.of_nat (mlen i q)).
  Proof. reflexivity. Qed.

  (* UnmarshalFrom consumes exactly MarshalSize bytes, equals UnmarshalBinary
     on them, and leaves the rest of the reader untouched *)
  Theorem unmarshal_from_spec (r : list Z) :
    (length r >= elen q i)%nat ->
    unmarshal_from q i bo r =
      (Z.of_nat (elen q i), unmarshal q i bo (firstn (elen q i) r), skipn (elen q i) r).
  Proof.
    intros L. unfold unmarshal_from. destruct (Nat.ltb_spec (length r) (elen q i)); [lia|reflexivity].
  Qed.

  Theorem unmarshal_from_marshal (a : F) (rest : list Z) :
    unmarshal_from q i bo (marshal i bo a ++ rest) = (Z.of_nat (mlen i q), DOk (val a), rest).
  Proof.
    pose proof (marshal_length a) as L. fold (elen q i) in L.
    rewrite unmarshal_from_spec by (rewrite app_length; lia).
    rewrite <- L at 2 3. rewrite firstn_app, Nat.sub_diag, firstn_all. cbn [firstn]. rewrite app_nil_r.
    rewrite skipn_app, Nat.sub_diag, skipn_all. cbn [skipn app].
    rewrite unmarshal_marshal. reflexivity.
  Qed.

  (* a reader that ends early: error, everything it had was consumed *)
  Theorem unmarshal_from_short (r : list Z) :
    (length r < elen q i)%nat -> unmarshal_from q i bo r = (Z.of_nat (length r), DErrShort, []).
  Proof. intros L. unfold unmarshal_from. destruct (Nat.ltb_spec (length r) (elen q i)); [reflexivity|lia]. Qed.

  (* stream round trip through a shared buffer *)
  Corollary stream_roundtrip (w : list Z) (a : F) :
    unmarshal_from q i bo (skipn (length w) (fst (marshal_to q i bo w (val a)))) =
      (Z.of_nat (mlen i q), DOk (val a), []).
  Proof.
    cbn [marshal_to fst]. rewrite skipn_app, Nat.sub_diag, skipn_all. cbn [skipn app].
    rewrite <- (app_nil_r (enc q i bo (val a))). apply unmarshal_from_marshal.
  Qed.

  (* ------------------------------------------------------------ hex *)
  Theorem write_hex_spec (a : F) : write_hex q i bo (val a) = hex_encode (marshal i bo a).
  Proof. reflexivity. Qed.

  Theorem read_hex_write_hex (a : F) (rest : list Z) :
    read_hex q i bo (write_hex q i bo (val a) ++ rest) = DOk (val a).
  Proof.
    unfold read_hex, write_hex. pose proof (marshal_length a) as L. fold (elen q i) in L.
    change (enc q i bo (val a)) with (marshal i bo a).
    assert (Lh : length (hex_encode (marshal i bo a)) = (2 * elen q i)%nat) by (rewrite hex_encode_length, L; reflexivity).
    rewrite app_length. destruct (Nat.ltb_spec (length (hex_encode (marshal i bo a)) + length rest) (2 * elen q i)); [lia|].
    rewrite <- Lh. rewrite firstn_app, Nat.sub_diag, firstn_all. cbn [firstn]. rewrite app_nil_r.
    rewrite hex_roundtrip by apply marshal_bytes. apply unmarshal_marshal.
  Qed.

  (* two reduced scalars have the same hex form iff they are equal *)
  Theorem write_hex_inj (a b : F) : write_hex q i bo (val a) = write_hex q i bo (val b) <-> a = b.
  Proof.
    split; [|intros ->; reflexivity]. intros E. apply marshal_inj.
    apply hex_encode_inj; [apply marshal_bytes | apply marshal_bytes | exact E].
  Qed.
End Scalars.

(* ------------------------------------------------- fixed-width coordinates *)
Lemma firstn_app_exact {A} (a b : list A) n : length a = n -> firstn n (a ++ b) = a.
Proof. intros <-. rewrite firstn_app, Nat.sub_diag, firstn_all. cbn [firstn]. apply app_nil_r. Qed.

Lemma skipn_app_exact {A} (a b : list A) n : length a = n -> skipn n (a ++ b) = b.
Proof. intros <-. rewrite skipn_app, Nat.sub_diag, skipn_all. reflexivity. Qed.

Lemma coord_enc_length bo w prefix cs :
  length (coord_enc bo w prefix cs) = (length prefix + w * length cs)%nat.
Proof.
  unfold coord_enc. rewrite app_length. f_equal.
  induction cs as [|c t IH]; cbn [flat_map length]; [lia|].
  rewrite app_length, encode_length, IH. lia.
Qed.

(* every coordinate, whatever its number of leading zero bytes, is read back
   from its own w-byte field *)
Theorem coord_dec_enc bo w prefix cs :
  Forall (fun c => 0 <= c < 256 ^ Z.of_nat w) cs ->
  coord_dec bo w (length cs) (skipn (length prefix) (coord_enc bo w prefix cs)) = cs.
Proof.
  intros H. unfold coord_enc. rewrite skipn_app, Nat.sub_diag, skipn_all. cbn [skipn app].
  induction cs as [|c t IH]; [reflexivity|].
  inversion H as [|? ? Hc Ht]; subst. cbn [flat_map length coord_dec].
  pose proof (encode_length bo w c) as L.
  rewrite (firstn_app_exact _ _ _ L), (skipn_app_exact _ _ _ L).
  rewrite decode_encode by exact Hc. f_equal. apply IH. exact Ht.
Qed.

(* hence the layout is injective on in-range coordinate tuples of one arity *)
Theorem coord_enc_inj bo w prefix cs cs' :
  Forall (fun c => 0 <= c < 256 ^ Z.of_nat w) cs -> Forall (fun c => 0 <= c < 256 ^ Z.of_nat w) cs' ->
  length cs = length cs' -> coord_enc bo w prefix cs = coord_enc bo w prefix cs' -> cs = cs'.
Proof.
  intros H H' L E. rewrite <- (coord_dec_enc bo w prefix cs H), <- (coord_dec_enc bo w prefix cs' H'), L, E.
  reflexivity.
Qed.

(* ---------------------------------------------------------------- points *)
(* The contract C03 demands of a point encoding.  [enc]/[dec] stand for
   MarshalBinary/UnmarshalBinary of a group whose elements are modelled by
   discrete logarithms.  The two hypotheses are NOT assumed of the kyber code:
   they are exactly what the correspondence run and the oracles check of it
   (length, decode(encode P) Equal P, identical bytes iff Equal iff equal
   logarithms).  The theorems say that these two facts imply every other
   clause of the property. *)
Section PointContract.
  Variable q : Z.
  Variable n : nat.
  Variable penc : zq q -> list Z.
  Variable pdec : list Z -> option (zq q).
  Hypothesis penc_len : forall p, length (penc p) = n.
  Hypothesis pdec_penc : forall p, pdec (penc p) = Some p.

  Theorem point_enc_inj p p' : penc p = penc p' <-> p = p'.
  Proof.
    split; [|intros ->; reflexivity]. intros E.
    pose proof (pdec_penc p) as A. rewrite E, pdec_penc in A. congruence.
  Qed.

  Theorem point_reencode p p' : pdec (penc p) = Some p' -> penc p' = penc p.
  Proof. rewrite pdec_penc. intros E. inversion E. reflexivity. Qed.

  (* values reached by different computation paths: same logarithm iff same bytes *)
  Theorem point_paths e e' : penc (peval q e) = penc (peval q e') <-> peval q e = peval q e'.
  Proof. apply point_enc_inj. Qed.

  (* stream and hex wrappers of a point carry exactly the bytes *)
  Definition p_marshal_to (w : list Z) (p : zq q) : list Z * Z := (w ++ penc p, Z.of_nat n).
  Definition p_unmarshal_from (r : list Z) : Z * option (zq q) * list Z :=
    if Nat.ltb (length r) n then (Z.of_nat (length r), None, [])
    else (Z.of_nat n, pdec (firstn n r), skipn n r).

  Theorem point_stream_roundtrip w p rest :
    p_unmarshal_from (skipn (length w) (fst (p_marshal_to w p)) ++ rest) = (Z.of_nat n, Some p, rest).
  Proof.
    cbn [p_marshal_to fst]. rewrite skipn_app, Nat.sub_diag, skipn_all. cbn [skipn app].
    unfold p_unmarshal_from. rewrite app_length, penc_len.
    destruct (Nat.ltb_spec (n + length rest) n); [lia|].
    rewrite <- (penc_len p) at 2 3. rewrite firstn_app, Nat.sub_diag, firstn_all. cbn [firstn]. rewrite app_nil_r.
    rewrite skipn_app, Nat.sub_diag, skipn_all. cbn [skipn app]. rewrite pdec_penc. reflexivity.
  Qed.

  Theorem point_hex_inj p p' :
    (forall p, Forall is_byte (penc p)) ->
    hex_encode (penc p) = hex_encode (penc p') <-> p = p'.
  Proof.
    intros Hb. split; [|intros ->; reflexivity]. intros E. apply point_enc_inj.
    apply hex_encode_inj; auto.
  Qed.
End PointContract.

(* group laws decide which computation paths are the same point: e.g.
   B+B = 2B = -((q-2)B), B-B = 0 *)
Lemma paths_example q : 2 <= q ->
  peval q (PAdd PBase PBase) = peval q (PMul 2 PBase) /\
  peval q (PAdd PBase PBase) = peval q (PNeg (PMul (q - 2) PBase)) /\
  peval q (PSub PBase PBase) = peval q PNull.
Proof.
  intros Hq. cbn [peval]. unfold padd, psub, pneg, smul, pbase, pzero, zadd, zsub, zopp, zmul, zone, zzero.
  assert (M1 : 1 mod q = 1) by (apply Z.mod_1_l; lia).
  assert (Mq : (q - 2) mod q = q - 2) by (apply Z.mod_small; lia).
  repeat split; apply zq_eq; rewrite ?val_of_Z, ?M1, ?Mq.
  - rewrite Zmult_mod_idemp_l. f_equal.
  - replace ((q - 2) * 1) with (q - 2) by lia. rewrite Mq.
    replace (- (q - 2)) with (2 + (-1) * q) by lia. rewrite Z_mod_plus_full. reflexivity.
  - reflexivity.
Qed.
