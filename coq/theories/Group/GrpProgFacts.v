(* Facts about the in-place operations of Group/GrpProg.v: an operation whose
   receiver is the existing object d replaces the value of slot d by the value
   the same operation would have appended, and leaves every other object of
   every pool as it was.  This is what the correspondence run compares the
   implementation with: any hidden sharing between objects (cached encodings,
   shared big.Int, shared global constants) shows as a different partition. *)
From Coq Require Import ZArith List Lia.
From Kyber Require Import Algebra.Zq Algebra.Grp Group.GrpProg.
Import ListNotations.
Local Open Scope Z_scope.

Section Facts.
  Variable q : Z.
  Notation F := (zq q).

  Lemma move_last_app (l : list F) (x : F) (d : Z) : move_last q (l ++ [x]) d = set_nth q l d x.
  Proof. unfold move_last. rewrite rev_app_distr. cbn [rev app]. rewrite rev_involutive. reflexivity. Qed.

  Lemma set_nth_length (l : list F) (d : Z) (x : F) :
    (Z.to_nat d < length l)%nat -> length (set_nth q l d x) = length l.
  Proof.
    intros H. unfold set_nth. rewrite app_length. cbn [length].
    rewrite firstn_length, skipn_length. lia.
  Qed.

  Lemma get_set_nth_same (l : list F) (d : Z) (x : F) :
    0 <= d -> (Z.to_nat d < length l)%nat -> get q (set_nth q l d x) d = x.
  Proof.
    intros _ H. unfold get, set_nth.
    rewrite app_nth2; rewrite firstn_length; [|lia].
    replace (Z.to_nat d - Nat.min (Z.to_nat d) (length l))%nat with 0%nat by lia. reflexivity.
  Qed.

  Lemma get_set_nth_other (l : list F) (d i : Z) (x : F) :
    0 <= d -> 0 <= i -> i <> d -> (Z.to_nat d < length l)%nat ->
    get q (set_nth q l d x) i = get q l i.
  Proof.
    intros Hd Hi Hne H. unfold get, set_nth.
    assert (Hn : Z.to_nat i <> Z.to_nat d) by lia.
    destruct (Nat.lt_ge_cases (Z.to_nat i) (Z.to_nat d)) as [Hlt|Hge].
    - rewrite app_nth1 by (rewrite firstn_length; lia).
      rewrite <- (firstn_skipn (Z.to_nat d) l) at 2.
      rewrite app_nth1 by (rewrite firstn_length; lia). reflexivity.
    - rewrite app_nth2 by (rewrite firstn_length; lia).
      rewrite firstn_length.
      replace (Nat.min (Z.to_nat d) (length l)) with (Z.to_nat d) by lia.
      destruct (Z.to_nat i - Z.to_nat d)%nat as [|k] eqn:Hk; [lia|].
      cbn [nth]. rewrite <- (firstn_skipn (S (Z.to_nat d)) l) at 2.
      rewrite app_nth2 by (rewrite firstn_length; lia).
      rewrite firstn_length.
      replace (Nat.min (S (Z.to_nat d)) (length l)) with (S (Z.to_nat d)) by lia.
      f_equal. lia.
  Qed.

  (* point operations that append exactly one value to pool g and touch nothing else *)
  Definition pushes_to (o : op) (g : Z) : Prop :=
    match o with
    | OPNull g' | OPBase g' | OPFresh g' _ | OPCopy g' _ | OPAdd g' _ _ | OPSub g' _ _
    | OPNeg g' _ | OPMul g' _ _ | OPMulBase g' _ => g' = g
    | _ => False
    end.

  Lemma step1_pushes (s : state q) (o : op) (g : Z) :
    pushes_to o g -> exists x, step1 q s o = push q s g x.
  Proof.
    destruct o; cbn [pushes_to]; intros H; try contradiction; subst; eexists; reflexivity.
  Qed.

  Lemma pool_push_same (s : state q) (g : Z) (x : F) : pool q (push q s g x) g = pool q s g ++ [x].
  Proof. unfold pool, push. destruct (g =? 0); [reflexivity|]. destruct (g =? 1); reflexivity. Qed.

  Lemma pool_push_other (s : state q) (g h : Z) (x : F) :
    (if g =? 0 then 0 else if g =? 1 then 1 else 2) <> (if h =? 0 then 0 else if h =? 1 then 1 else 2) ->
    pool q (push q s g x) h = pool q s h.
  Proof.
    unfold pool, push. destruct (g =? 0) eqn:G0; destruct (h =? 0) eqn:H0; cbn; try congruence; try reflexivity;
    destruct (g =? 1) eqn:G1; destruct (h =? 1) eqn:H1; cbn; try rewrite ?H0, ?H1; try congruence; reflexivity.
  Qed.

  Lemma pool_setpool_same (s : state q) (g : Z) (l : list F) : pool q (setpool q s g l) g = l.
  Proof. unfold pool, setpool. destruct (g =? 0); [reflexivity|]. destruct (g =? 1); reflexivity. Qed.

  Lemma sc_setpool (s : state q) (g : Z) (l : list F) : sc q (setpool q s g l) = sc q s.
  Proof. unfold setpool. destruct (g =? 0); [reflexivity|]. destruct (g =? 1); reflexivity. Qed.

  Lemma sc_push (s : state q) (g : Z) (x : F) : sc q (push q s g x) = sc q s.
  Proof. unfold push. destruct (g =? 0); [reflexivity|]. destruct (g =? 1); reflexivity. Qed.

  (* Overwriting object d of pool g by operation o: slot d receives exactly the
     value o would have appended; every other object of the pool, the pool's
     size, and all scalars are unchanged. *)
  Theorem overwrite_touches_only_receiver (s : state q) (o : op) (g d : Z) :
    pushes_to o g -> 0 <= d -> (Z.to_nat d < length (pool q s g))%nat ->
    let s' := step q s (OPInto g d o) in
    get q (pool q s' g) d = get q (pool q (step q s o) g) (Z.of_nat (length (pool q s g))) /\
    (forall i, 0 <= i -> i <> d -> get q (pool q s' g) i = get q (pool q s g) i) /\
    length (pool q s' g) = length (pool q s g) /\
    sc q s' = sc q s.
  Proof.
    intros Hp Hd Hlen. destruct (step1_pushes s o g Hp) as [x Hx].
    assert (Hstep : step q s o = push q s g x).
    { destruct o; cbn [pushes_to] in Hp; try contradiction; exact Hx. }
    cbn zeta. cbn [step]. rewrite Hx, Hstep. rewrite pool_push_same, move_last_app.
    rewrite pool_setpool_same, sc_setpool, sc_push.
    repeat split.
    - rewrite get_set_nth_same by assumption.
      unfold get. rewrite Nat2Z.id, app_nth2 by lia. rewrite Nat.sub_diag. reflexivity.
    - intros i Hi Hne. apply get_set_nth_other; assumption.
    - apply set_nth_length; assumption.
  Qed.
End Facts.
