(* The endomorphism split of pairing/bn254 (lattice.go: curveLattice.decompose
   and round), transcribed, and proved correct for EVERY scalar 0 <= k < r:
   the two sub-scalars are non-negative, below 2^130 and satisfy
   k1 + k2*lambda = k (mod r), where lambda is the eigenvalue of the
   endomorphism.  Non-negativity matters: Multi() reads the bits of the
   sub-scalars with big.Int.Bit, which is meaningless for negative values.
   Note that round() compares the remainder with r/2 although the denominator
   is det = 2r (so it rounds up from 1/4, not from 1/2); the theorem is about
   the code as written and shows that the shift by twice the first basis vector
   still keeps both components positive. *)
From Coq Require Import ZArith Lia.
Local Open Scope Z_scope.

Definition bn254_r : Z := 21888242871839275222246405745257275088548364400416034343698204186575808495617.
Definition glv_lambda : Z := 4407920970296243842393367215006156084916469457145843978461.
Definition v00 : Z := 147946756881789319000765030803803410728.
Definition v01 : Z := 147946756881789319010696353538189108491.
Definition v10 : Z := 147946756881789319020627676272574806254.
Definition v11 : Z := -147946756881789318990833708069417712965.
Definition inv0 : Z := 147946756881789318990833708069417712965.
Definition inv1 : Z := 147946756881789319010696353538189108491.
Definition glv_det : Z := 43776485743678550444492811490514550177096728800832068687396408373151616991234.
Definition glv_half : Z := bn254_r / 2.   (* new(big.Int).Rsh(Order, 1) *)

(* round: num/denom with DivMod (Euclidean; operands are non-negative here), +1 when r > half *)
Definition glv_round (num denom : Z) : Z :=
  let q := num / denom in let r := num mod denom in
  if r >? glv_half then q + 1 else q.

Definition glv_decompose (k : Z) : Z * Z :=
  let c0 := glv_round (k * inv0) glv_det in
  let c1 := glv_round (k * inv1) glv_det in
  let o0 := - (c0 * v00 + c1 * v10) + v00 + v00 + k in
  let o1 := - (c0 * v01 + c1 * v11) + v01 + v01 in
  (o0, o1).

Lemma glv_constants :
  glv_det = 2 * bn254_r /\
  glv_det - v00 * inv0 - v10 * inv1 = 0 /\
  v01 * inv0 + v11 * inv1 = 0 /\
  (v00 + v01 * glv_lambda) mod bn254_r = 0 /\
  (v10 + v11 * glv_lambda) mod bn254_r = 0 /\
  (glv_lambda * glv_lambda + glv_lambda + 1) mod bn254_r = 0.
Proof. vm_compute. repeat split. Qed.

Theorem glv_decompose_correct : forall k, 0 <= k < bn254_r ->
  let '(k1, k2) := glv_decompose k in
  0 < k1 < 2 ^ 130 /\ 0 < k2 < 2 ^ 130 /\
  (k1 + k2 * glv_lambda) mod bn254_r = k mod bn254_r.
Proof.
  intros k Hk. unfold glv_decompose, glv_round.
  pose proof (Z.div_mod (k * inv0) glv_det ltac:(vm_compute; discriminate)) as D0.
  pose proof (Z.mod_pos_bound (k * inv0) glv_det ltac:(reflexivity)) as B0.
  pose proof (Z.div_mod (k * inv1) glv_det ltac:(vm_compute; discriminate)) as D1.
  pose proof (Z.mod_pos_bound (k * inv1) glv_det ltac:(reflexivity)) as B1.
  set (q0 := k * inv0 / glv_det) in *. set (r0 := (k * inv0) mod glv_det) in *.
  set (q1 := k * inv1 / glv_det) in *. set (r1 := (k * inv1) mod glv_det) in *.
  (* the congruence holds for ANY integers c0 c1: the subtracted vector is in the lattice *)
  assert (Cong : forall c0 c1,
     (- (c0 * v00 + c1 * v10) + v00 + v00 + k + (- (c0 * v01 + c1 * v11) + v01 + v01) * glv_lambda) mod bn254_r
     = k mod bn254_r).
  { intros c0 c1.
    destruct glv_constants as (_ & _ & _ & L0 & L1 & _).
    apply Z.mod_divide in L0; [|vm_compute; discriminate]. apply Z.mod_divide in L1; [|vm_compute; discriminate].
    destruct L0 as [m0 E0]. destruct L1 as [m1 E1].
    replace (- (c0 * v00 + c1 * v10) + v00 + v00 + k + (- (c0 * v01 + c1 * v11) + v01 + v01) * glv_lambda)
      with (k + ((2 - c0) * (v00 + v01 * glv_lambda) - c1 * (v10 + v11 * glv_lambda))) by ring.
    rewrite E0, E1.
    replace (k + ((2 - c0) * (m0 * bn254_r) - c1 * (m1 * bn254_r))) with (k + ((2 - c0) * m0 - c1 * m1) * bn254_r) by ring.
    apply Z_mod_plus_full. }
  (* sizes: multiply by det and use the inverse relations *)
  assert (S0 : forall u0 u1, glv_det * (- ((q0 + u0) * v00 + (q1 + u1) * v10) + v00 + v00 + k)
              = v00 * r0 + v10 * r1 + glv_det * (2 * v00 - u0 * v00 - u1 * v10)).
  { intros u0 u1. destruct glv_constants as (_ & I0 & _).
    replace (glv_det * (- ((q0 + u0) * v00 + (q1 + u1) * v10) + v00 + v00 + k))
      with (k * (glv_det - v00 * inv0 - v10 * inv1) + v00 * (k * inv0 - glv_det * q0) + v10 * (k * inv1 - glv_det * q1)
            + glv_det * (2 * v00 - u0 * v00 - u1 * v10)) by ring.
    rewrite I0. lia. }
  assert (S1 : forall u0 u1, glv_det * (- ((q0 + u0) * v01 + (q1 + u1) * v11) + v01 + v01)
              = v01 * r0 + v11 * r1 + glv_det * (2 * v01 - u0 * v01 - u1 * v11)).
  { intros u0 u1. destruct glv_constants as (_ & _ & I1 & _).
    replace (glv_det * (- ((q0 + u0) * v01 + (q1 + u1) * v11) + v01 + v01))
      with (- k * (v01 * inv0 + v11 * inv1) + v01 * (k * inv0 - glv_det * q0) + v11 * (k * inv1 - glv_det * q1)
            + glv_det * (2 * v01 - u0 * v01 - u1 * v11)) by ring.
    rewrite I1. lia. }
  assert (Hdet : glv_det = 43776485743678550444492811490514550177096728800832068687396408373151616991234) by reflexivity.
  assert (Hhalf : glv_half = 10944121435919637611123202872628637544274182200208017171849102093287904247808) by reflexivity.
  assert (P130 : 2 ^ 130 = 1361129467683753853853498429727072845824) by reflexivity.
  assert (Pos : forall d x, 0 < d -> 0 < d * x -> 0 < x) by (intros; nia).
  assert (Lt : forall d x y, 0 < d -> d * x < d * y -> x < y) by (intros; nia).
  rewrite P130.
  destruct (Z.gtb_spec r0 glv_half) as [G0|G0]; destruct (Z.gtb_spec r1 glv_half) as [G1|G1].
  - specialize (S0 1 1). specialize (S1 1 1). specialize (Cong (q0 + 1) (q1 + 1)).
    set (X0 := - ((q0 + 1) * v00 + (q1 + 1) * v10) + v00 + v00 + k) in *.
    set (X1 := - ((q0 + 1) * v01 + (q1 + 1) * v11) + v01 + v01) in *.
    unfold v00, v01, v10, v11 in S0, S1.
    split; [split; [apply (Pos glv_det); lia | apply (Lt glv_det); lia]|].
    split; [split; [apply (Pos glv_det); lia | apply (Lt glv_det); lia]|exact Cong].
  - specialize (S0 1 0). specialize (S1 1 0). specialize (Cong (q0 + 1) q1).
    replace (q1 + 0) with q1 in * by lia.
    set (X0 := - ((q0 + 1) * v00 + q1 * v10) + v00 + v00 + k) in *.
    set (X1 := - ((q0 + 1) * v01 + q1 * v11) + v01 + v01) in *.
    unfold v00, v01, v10, v11 in S0, S1.
    split; [split; [apply (Pos glv_det); lia | apply (Lt glv_det); lia]|].
    split; [split; [apply (Pos glv_det); lia | apply (Lt glv_det); lia]|exact Cong].
  - specialize (S0 0 1). specialize (S1 0 1). specialize (Cong q0 (q1 + 1)).
    replace (q0 + 0) with q0 in * by lia.
    set (X0 := - (q0 * v00 + (q1 + 1) * v10) + v00 + v00 + k) in *.
    set (X1 := - (q0 * v01 + (q1 + 1) * v11) + v01 + v01) in *.
    unfold v00, v01, v10, v11 in S0, S1.
    split; [split; [apply (Pos glv_det); lia | apply (Lt glv_det); lia]|].
    split; [split; [apply (Pos glv_det); lia | apply (Lt glv_det); lia]|exact Cong].
  - specialize (S0 0 0). specialize (S1 0 0). specialize (Cong q0 q1).
    replace (q0 + 0) with q0 in * by lia. replace (q1 + 0) with q1 in * by lia.
    set (X0 := - (q0 * v00 + q1 * v10) + v00 + v00 + k) in *.
    set (X1 := - (q0 * v01 + q1 * v11) + v01 + v01) in *.
    unfold v00, v01, v10, v11 in S0, S1.
    split; [split; [apply (Pos glv_det); lia | apply (Lt glv_det); lia]|].
    split; [split; [apply (Pos glv_det); lia | apply (Lt glv_det); lia]|exact Cong].
Qed.
