(* Correspondence runner for Group/Slide.v: the Go harness calls
   edwards25519.VerifSlide (verif_export.go) on a 32-byte scalar and ships the
   256 int8 digits as bytes (two's complement); CMulV ships the discrete
   logarithm (w.r.t. the point multiplied) of the result of Point.Mul with
   AllowVarTime(true), i.e. of geScalarMultVartime.  Nothing here is used by a
   theorem. *)
From Coq Require Import ZArith List Bool.
From Kyber Require Import Algebra.Zq Algebra.Grp Group.Recode Group.Slide.
Import ListNotations.
Local Open Scope Z_scope.

Inductive case :=
| CSlide (id : Z) (scalar : list Z) (digits : list Z)
    (* scalar: 32 bytes little-endian; digits: 256 bytes, int8 as uint8 *)
| CMulV (id : Z) (scalar : list Z) (dlog : Z).
    (* dlog: k with result = k.A, 0 <= k < L, as established by the harness *)

Fixpoint zlist_eqb (a b : list Z) : bool :=
  match a, b with
  | [], [] => true
  | x :: a', y :: b' => (x =? y) && zlist_eqb a' b'
  | _, _ => false
  end.

Definition u8 (d : Z) : Z := d mod 256.

(* order of the Ed25519 prime-order subgroup *)
Definition ed_L : Z := 2 ^ 252 + 27742317777372353535851937790883648493.

Definition check (c : case) : option Z :=
  match c with
  | CSlide id a ds =>
      if zlist_eqb (map u8 (slide a)) ds && zlist_eqb (map u8 (slide_go a)) ds
      then None else Some id
  | CMulV id a k =>
      if val (ge_scalar_mult_vartime ed_L a (of_Z ed_L 1)) =? k then None else Some id
  end.

Definition mismatches (cs : list case) : list Z :=
  flat_map (fun c => match check c with Some i => [i] | None => [] end) cs.
