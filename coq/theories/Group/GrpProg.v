(* Straight-line programs over a scalar pool and three point pools (G1 / the
   group itself, G2, GT), interpreted in the discrete-logarithm model of
   Algebra/Grp.v.  Used by the C01 and C06 correspondence runs: the harness runs
   the same program on a real kyber group (or pairing suite) and reports the
   exact scalar values and the equality partition of every pool; the model must
   obtain the same.  Points of unknown logarithm (Pick, Hash, Embed) carry a
   logarithm chosen at random by the harness: equalities between generic
   elements then agree except with probability about 1/q. *)
From Coq Require Import ZArith List Bool.
From Kyber Require Import Algebra.Zq Algebra.Grp Group.GLV.
Import ListNotations.
Local Open Scope Z_scope.

Inductive op :=
| OSConst (v : Z)
| OSAdd (a b : Z) | OSSub (a b : Z) | OSMul (a b : Z) | OSNeg (a : Z)
| OSInv (a : Z) | OSDiv (a b : Z)
| OPNull (g : Z) | OPBase (g : Z) | OPFresh (g : Z) (d : Z)
| OPCopy (g a : Z) | OPAdd (g a b : Z) | OPSub (g a b : Z) | OPNeg (g a : Z)
| OPMul (g s a : Z) | OPMulBase (g s : Z)
| OPair (a b : Z)
| OValidate (p1 p2 i1 i2 : Z)
(* the same operations with an EXISTING object as receiver: the result replaces
   slot d of the pool (the object keeps its identity, its value changes) *)
| OSCopy (a : Z)
| OPInto (g d : Z) (o : op)
| OSInto (d : Z) (o : op).

Section Run.
  Variable q : Z.
  Notation F := (zq q).

  Record state := mkst { sc : list F; g1 : list F; g2 : list F; gt : list F; verdicts : list bool }.

  Definition get (l : list F) (i : Z) : F := nth (Z.to_nat i) l zzero.

  Definition pool (s : state) (g : Z) : list F :=
    if g =? 0 then g1 s else if g =? 1 then g2 s else gt s.

  Definition push (s : state) (g : Z) (x : F) : state :=
    if g =? 0 then mkst (sc s) (g1 s ++ [x]) (g2 s) (gt s) (verdicts s)
    else if g =? 1 then mkst (sc s) (g1 s) (g2 s ++ [x]) (gt s) (verdicts s)
    else mkst (sc s) (g1 s) (g2 s) (gt s ++ [x]) (verdicts s).

  Definition pushs (s : state) (x : F) : state :=
    mkst (sc s ++ [x]) (g1 s) (g2 s) (gt s) (verdicts s).

  Definition setpool (s : state) (g : Z) (l : list F) : state :=
    if g =? 0 then mkst (sc s) l (g2 s) (gt s) (verdicts s)
    else if g =? 1 then mkst (sc s) (g1 s) l (gt s) (verdicts s)
    else mkst (sc s) (g1 s) (g2 s) l (verdicts s).

  Definition set_nth (l : list F) (i : Z) (x : F) : list F :=
    firstn (Z.to_nat i) l ++ x :: skipn (S (Z.to_nat i)) l.

  (* the last element (just pushed) moves into slot d *)
  Definition move_last (l : list F) (d : Z) : list F :=
    match rev l with
    | [] => l
    | x :: r => set_nth (rev r) d x
    end.

  Definition step1 (s : state) (o : op) : state :=
    match o with
    | OSConst v => pushs s (of_Z q v)
    | OSAdd a b => pushs s (zadd (get (sc s) a) (get (sc s) b))
    | OSSub a b => pushs s (zsub (get (sc s) a) (get (sc s) b))
    | OSMul a b => pushs s (zmul (get (sc s) a) (get (sc s) b))
    | OSNeg a => pushs s (zopp (get (sc s) a))
    | OSInv a => pushs s (zinv (get (sc s) a))
    | OSDiv a b => pushs s (zdiv (get (sc s) a) (get (sc s) b))
    | OPNull g => push s g pzero
    | OPBase g => push s g pbase
    | OPFresh g d => push s g (of_Z q d)
    | OPCopy g a => push s g (get (pool s g) a)
    | OPAdd g a b => push s g (padd (get (pool s g) a) (get (pool s g) b))
    | OPSub g a b => push s g (psub (get (pool s g) a) (get (pool s g) b))
    | OPNeg g a => push s g (pneg (get (pool s g) a))
    | OPMul g k a => push s g (smul (get (sc s) k) (get (pool s g) a))
    | OPMulBase g k => push s g (smul (get (sc s) k) pbase)
    | OPair a b => push s 2 (pair (get (g1 s) a) (get (g2 s) b))
    | OValidate p1 p2 i1 i2 =>
        mkst (sc s) (g1 s) (g2 s) (gt s)
             (verdicts s ++ [peqb (pair (get (g1 s) p1) (get (g2 s) p2))
                                  (pair (get (g1 s) i1) (get (g2 s) i2))])
    | OSCopy a => pushs s (get (sc s) a)
    | OPInto _ _ _ | OSInto _ _ => s
    end.

  Definition step (s : state) (o : op) : state :=
    match o with
    | OPInto g d o' => let s' := step1 s o' in setpool s' g (move_last (pool s' g) d)
    | OSInto d o' => let s' := step1 s o' in
                     mkst (move_last (sc s') d) (g1 s') (g2 s') (gt s') (verdicts s')
    | _ => step1 s o
    end.

  Definition run (ops : list op) : state := fold_left step ops (mkst [] [] [] [] []).

  (* equality partition: each element is labelled by the least index of an equal element *)
  Fixpoint first_eq (x : F) (l : list F) (i : Z) : Z :=
    match l with
    | [] => i
    | y :: t => if zeqb x y then i else first_eq x t (i + 1)
    end.
  Definition partition (l : list F) : list Z := map (fun x => first_eq x l 0) l.
End Run.

Fixpoint zlist_eqb (a b : list Z) : bool :=
  match a, b with
  | [], [] => true
  | x :: a', y :: b' => (x =? y) && zlist_eqb a' b'
  | _, _ => false
  end.

Fixpoint blist_eqb (a b : list bool) : bool :=
  match a, b with
  | [], [] => true
  | x :: a', y :: b' => Bool.eqb x y && blist_eqb a' b'
  | _, _ => false
  end.

(* a case: group order, program, observed scalar values, observed partitions, observed verdicts *)
Inductive case :=
| CProg (id : Z) (q : Z) (ops : list op) (scalars : list Z) (p1 p2 pt : list Z) (verd : list bool)
(* bn254 endomorphism split: (k, (k1, k2)) as returned by lattice.decompose *)
| CGlv (id : Z) (items : list (Z * (Z * Z))).

Definition check (c : case) : option Z :=
  match c with
  | CProg id q ops scalars p1 p2 pt verd =>
      let s := run q ops in
      if zlist_eqb (map val (sc q s)) scalars
         && zlist_eqb (partition q (g1 q s)) p1
         && zlist_eqb (partition q (g2 q s)) p2
         && zlist_eqb (partition q (gt q s)) pt
         && blist_eqb (verdicts q s) verd
      then None else Some id
  | CGlv id items =>
      if forallb (fun it => let '(k1, k2) := glv_decompose (fst it) in
                            (k1 =? fst (snd it)) && (k2 =? snd (snd it))) items
      then None else Some id
  end.

Definition mismatches (cs : list case) : list Z :=
  flat_map (fun c => match check c with Some i => [i] | None => [] end) cs.
