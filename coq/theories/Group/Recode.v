(* The scalar-multiplication algorithms of group/edwards25519 (ge.go) and of the
   double-and-add implementations (edwards25519vartime/proj.go, bn256/bn254
   curve.go), transcribed at the level of group operations, and proved to
   compute the scalar multiple for EVERY scalar:

   - the signed radix-16 recoding of a 32-byte little-endian scalar
     (geScalarMult / geScalarMultBase): digits in [-8,8], value preserved;
   - fixed-window evaluation with a table of 1A..8A and four doublings per
     digit (geScalarMult);
   - the radix-16 comb over a precomputed table of (j+1)*256^i*B with the four
     doublings in the middle (geScalarMultBase);
   - MSB-first double-and-add over a bit list (projPoint.Mul, curvePoint.Mul,
     including a harmless extra leading iteration).

   Group operations are those of the discrete-logarithm model (Algebra/Grp.v);
   only padd / pneg (and doubling as padd x x) are used by the algorithms. *)
From Coq Require Import ZArith List Lia Bool Ring.
From Kyber Require Import Algebra.Zq Algebra.Grp.
Import ListNotations.
Local Open Scope Z_scope.

(* ------------------------------------------------------------------ *)
(* Part 1: recoding (pure integer arithmetic on bytes)                 *)

(* value of a little-endian digit list in radix r *)
Fixpoint le_val (r : Z) (ds : list Z) : Z :=
  match ds with
  | [] => 0
  | d :: t => d + r * le_val r t
  end.

(* nybbles of a byte string: e[2i] = v land 15, e[2i+1] = (v >> 4) land 15 *)
Fixpoint nybbles (bytes : list Z) : list Z :=
  match bytes with
  | [] => []
  | v :: t => Z.land v 15 :: Z.land (Z.shiftr v 4) 15 :: nybbles t
  end.

(* the carry loop: e[i] += carry; carry = (e[i] + 8) >> 4; e[i] -= carry << 4,
   for all but the last digit; the last digit absorbs the final carry *)
Fixpoint carry_loop (carry : Z) (es : list Z) : list Z :=
  match es with
  | [] => []
  | [e] => [e + carry]
  | e :: t =>
      let e' := e + carry in
      let c := Z.shiftr (e' + 8) 4 in
      (e' - Z.shiftl c 4) :: carry_loop c t
  end.

Definition recode16 (bytes : list Z) : list Z := carry_loop 0 (nybbles bytes).

Definition is_byte (b : Z) : Prop := 0 <= b < 256.

Lemma nybble_split v : is_byte v ->
  0 <= Z.land v 15 < 16 /\ 0 <= Z.land (Z.shiftr v 4) 15 < 16 /\
  v = Z.land v 15 + 16 * Z.land (Z.shiftr v 4) 15.
Proof.
  intros Hv. change 15 with (Z.ones 4). rewrite !Z.land_ones by lia.
  rewrite Z.shiftr_div_pow2 by lia. change (2 ^ 4) with 16.
  pose proof (Z.mod_pos_bound v 16 ltac:(lia)).
  pose proof (Z.mod_pos_bound (v / 16) 16 ltac:(lia)).
  unfold is_byte in Hv.
  assert (v / 16 < 16) by (apply Z.div_lt_upper_bound; lia).
  assert (0 <= v / 16) by (apply Z.div_pos; lia).
  rewrite (Z.mod_small (v / 16) 16) by lia.
  pose proof (Z.div_mod v 16 ltac:(lia)). lia.
Qed.

Lemma nybbles_val : forall bytes, Forall is_byte bytes ->
  le_val 16 (nybbles bytes) = le_val 256 bytes /\ Forall (fun e => 0 <= e < 16) (nybbles bytes).
Proof.
  induction bytes as [|v t IH]; intros H; [cbn; auto|].
  inversion H as [|? ? Hv Ht]; subst. destruct (IH Ht) as [IH1 IH2].
  destruct (nybble_split v Hv) as (A & B & C).
  cbn [nybbles le_val]. split.
  - rewrite IH1. lia.
  - repeat constructor; auto; lia.
Qed.

Lemma nybbles_length bytes : length (nybbles bytes) = (2 * length bytes)%nat.
Proof. induction bytes as [|v t IH]; cbn [nybbles length]; lia. Qed.

(* one carry step on a digit in [0,15] with an incoming carry in [0,1] *)
Lemma carry_step e c : 0 <= e < 16 -> 0 <= c <= 1 ->
  let e' := e + c in let c' := Z.shiftr (e' + 8) 4 in
  0 <= c' <= 1 /\ -8 <= e' - Z.shiftl c' 4 < 8 /\ e' = (e' - Z.shiftl c' 4) + 16 * c'.
Proof.
  intros He Hc. cbn zeta. rewrite Z.shiftr_div_pow2, Z.shiftl_mul_pow2 by lia.
  change (2 ^ 4) with 16.
  pose proof (Z.div_mod (e + c + 8) 16 ltac:(lia)).
  pose proof (Z.mod_pos_bound (e + c + 8) 16 ltac:(lia)).
  assert (0 <= (e + c + 8) / 16) by (apply Z.div_pos; lia).
  assert ((e + c + 8) / 16 < 2) by (apply Z.div_lt_upper_bound; lia).
  lia.
Qed.

Lemma carry_loop_length : forall es c, length (carry_loop c es) = length es.
Proof.
  induction es as [|e t IH]; intros c; [reflexivity|].
  destruct t as [|e2 t']; [reflexivity|].
  cbn [carry_loop length]. f_equal. apply (IH _).
Qed.

Lemma last_in : forall (l : list Z) d, l <> [] -> In (last l d) l.
Proof.
  induction l as [|x t IH]; intros d H; [congruence|].
  destruct t as [|y t']; [left; reflexivity|].
  right. change (last (x :: y :: t') d) with (last (y :: t') d). apply IH. congruence.
Qed.

(* value preserved, digits in range; the last digit is e_last + carry *)
Lemma carry_loop_spec : forall es c,
  Forall (fun e => 0 <= e < 16) es -> 0 <= c <= 1 -> es <> [] ->
  le_val 16 (carry_loop c es) = c + le_val 16 es /\
  Forall (fun d => -8 <= d <= 8 + last es 0) (carry_loop c es) /\
  (last es 0 <= 7 -> Forall (fun d => -8 <= d <= 8) (carry_loop c es)).
Proof.
  induction es as [|e t IH]; intros c Hes Hc Hne; [congruence|].
  inversion Hes as [|? ? He Ht]; subst.
  destruct t as [|e2 t'].
  - change (carry_loop c [e]) with [e + c]. cbn [le_val last]. split; [lia|]. split.
    + constructor; [lia|constructor].
    + intros H7. constructor; [lia|constructor].
  - pose proof (carry_step e c He Hc) as S. cbn zeta in S. destruct S as (C1 & C2 & C3).
    set (c' := Z.shiftr (e + c + 8) 4) in *.
    destruct (IH c' Ht C1 ltac:(congruence)) as (V & R1 & R2).
    change (carry_loop c (e :: e2 :: t')) with ((e + c - Z.shiftl c' 4) :: carry_loop c' (e2 :: t')).
    change (last (e :: e2 :: t') 0) with (last (e2 :: t') 0).
    assert (Hlast : 0 <= last (e2 :: t') 0).
    { pose proof (last_in (e2 :: t') 0 ltac:(congruence)) as Hin.
      rewrite Forall_forall in Ht. specialize (Ht _ Hin). lia. }
    cbn [le_val]. rewrite V. repeat split.
    + cbn [le_val]. lia.
    + constructor; [lia|exact R1].
    + intros H7. constructor; [lia|auto].
Qed.

(* C01/C18: for every 32-byte scalar with top bit clear (as clamped / reduced
   scalars are) the recoding yields 64 digits in [-8,8] whose radix-16 value is
   the scalar; no int8 overflow can occur since every intermediate is in [-8,16]. *)
Theorem recode16_sound : forall bytes,
  Forall is_byte bytes -> bytes <> [] -> last bytes 0 <= 127 ->
  le_val 16 (recode16 bytes) = le_val 256 bytes /\
  length (recode16 bytes) = (2 * length bytes)%nat /\
  Forall (fun d => -8 <= d <= 8) (recode16 bytes).
Proof.
  intros bytes Hb Hne Hlast. unfold recode16.
  destruct (nybbles_val bytes Hb) as [V R].
  assert (Hn : nybbles bytes <> []) by (destruct bytes; [congruence|cbn; congruence]).
  destruct (carry_loop_spec (nybbles bytes) 0 R ltac:(lia) Hn) as (A & _ & C).
  split; [lia|]. split; [rewrite carry_loop_length; apply nybbles_length|].
  apply C.
  (* last nybble = high nybble of the last byte <= 7 *)
  clear - Hb Hne Hlast.
  induction bytes as [|v t IH]; [congruence|].
  inversion Hb as [|? ? Hv Ht]; subst.
  destruct t as [|v2 t'].
  - change (last (nybbles [v]) 0) with (Z.land (Z.shiftr v 4) 15). change (last [v] 0) with v in Hlast.
    change 15 with (Z.ones 4). rewrite Z.land_ones, Z.shiftr_div_pow2 by lia.
    change (2 ^ 4) with 16. assert (v / 16 <= 7) by (apply Z.lt_succ_r; apply Z.div_lt_upper_bound; lia).
    assert (0 <= v / 16) by (apply Z.div_pos; unfold is_byte in Hv; lia).
    rewrite Z.mod_small by lia. lia.
  - change (nybbles (v :: v2 :: t')) with (Z.land v 15 :: Z.land (Z.shiftr v 4) 15 :: nybbles (v2 :: t')).
    change (last (v :: v2 :: t') 0) with (last (v2 :: t') 0) in Hlast.
    assert (E : nybbles (v2 :: t') <> []) by (cbn; congruence).
    destruct (nybbles (v2 :: t')) as [|n1 nt] eqn:En; [congruence|].
    change (last (Z.land v 15 :: Z.land (Z.shiftr v 4) 15 :: n1 :: nt) 0) with (last (n1 :: nt) 0).
    apply IH; auto. congruence.
Qed.

(* ------------------------------------------------------------------ *)
(* Part 2: evaluation of digit strings with group operations           *)
Section Eval.
  Variable q : Z.
  Notation F := (zq q).
  Add Ring zqR2 : (zq_ring q).

  Lemma of_Z_add a b : of_Z q (a + b) = zadd (of_Z q a) (of_Z q b).
  Proof. apply zq_eq. unfold zadd. rewrite !val_of_Z. apply Zplus_mod. Qed.
  Lemma of_Z_mul a b : of_Z q (a * b) = zmul (of_Z q a) (of_Z q b).
  Proof. apply zq_eq. unfold zmul. rewrite !val_of_Z. apply Zmult_mod. Qed.
  Lemma of_Z_opp a : of_Z q (- a) = zopp (of_Z q a).
  Proof.
    apply zq_eq. unfold zopp. rewrite !val_of_Z.
    replace (- a) with (0 - a) by lia. replace (- (a mod q)) with (0 - a mod q) by lia.
    rewrite Zminus_mod_idemp_r. reflexivity.
  Qed.
  Lemma of_Z_0 : of_Z q 0 = zzero. Proof. reflexivity. Qed.
  Lemma of_Z_1 : of_Z q 1 = zone. Proof. reflexivity. Qed.

  (* integer multiple k.P *)
  Definition zsmul (k : Z) (P : F) : F := smul (of_Z q k) P.

  (* table entry: n-fold repeated addition *)
  Fixpoint nsmul (n : nat) (P : F) : F :=
    match n with O => pzero | S k => padd P (nsmul k P) end.

  Lemma nsmul_spec n P : nsmul n P = zsmul (Z.of_nat n) P.
  Proof.
    induction n as [|n IH]; unfold zsmul.
    - cbn. unfold smul, pzero. rewrite of_Z_0. ring.
    - cbn [nsmul]. rewrite IH. unfold zsmul. rewrite Nat2Z.inj_succ.
      replace (Z.succ (Z.of_nat n)) with (1 + Z.of_nat n) by lia.
      rewrite of_Z_add, of_Z_1. unfold smul, padd. ring.
  Qed.

  (* constant-time selection of |d|.P from the table and conditional negation *)
  Definition sel (d : Z) (P : F) : F :=
    if d <? 0 then pneg (nsmul (Z.to_nat (- d)) P) else nsmul (Z.to_nat d) P.

  Lemma sel_spec d P : sel d P = zsmul d P.
  Proof.
    unfold sel. destruct (Z.ltb_spec d 0).
    - rewrite nsmul_spec, Z2Nat.id by lia. unfold zsmul, pneg, smul.
      replace d with (- (- d)) at 2 by lia. rewrite (of_Z_opp (- d)). ring.
    - rewrite nsmul_spec, Z2Nat.id by lia. reflexivity.
  Qed.

  Definition dbl (x : F) : F := padd x x.
  Definition times16 (x : F) : F := dbl (dbl (dbl (dbl x))).

  Lemma times16_spec x : times16 x = zsmul 16 x.
  Proof.
    unfold times16, dbl, zsmul, smul, padd.
    change 16 with (1+1+1+1+1+1+1+1+1+1+1+1+1+1+1+1).
    rewrite !of_Z_add, of_Z_1. ring.
  Qed.

  (* geScalarMult: digits most significant first; acc starts at O *)
  Fixpoint window (ds : list Z) (P acc : F) : F :=
    match ds with
    | [] => acc
    | d :: t => window t P (padd (times16 acc) (sel d P))
    end.

  (* big-endian radix-16 value with an accumulator *)
  Fixpoint be_val16 (acc : Z) (ds : list Z) : Z :=
    match ds with [] => acc | d :: t => be_val16 (16 * acc + d) t end.

  Lemma window_spec : forall ds P acc k,
      acc = zsmul k P -> window ds P acc = zsmul (be_val16 k ds) P.
  Proof.
    induction ds as [|d t IH]; intros P acc k H; [exact H|].
    cbn [window be_val16]. apply IH. subst acc.
    rewrite times16_spec, sel_spec. unfold zsmul, smul, padd.
    rewrite of_Z_add, of_Z_mul. ring.
  Qed.

  Lemma be_val16_rev : forall ds acc, be_val16 acc (rev ds) = le_val 16 ds + 16 ^ Z.of_nat (length ds) * acc.
  Proof.
    induction ds as [|d t IH]; intros acc.
    - cbn [rev be_val16 le_val length Z.of_nat]. rewrite Z.pow_0_r. lia.
    - cbn [rev]. assert (G : forall l a x, be_val16 a (l ++ [x]) = 16 * be_val16 a l + x).
      { induction l as [|y l' IHl]; intros a x; cbn; [lia|apply IHl]. }
      rewrite G, IH. cbn [le_val length]. rewrite Nat2Z.inj_succ, Z.pow_succ_r by lia. ring.
  Qed.

  (* C01: the fixed-window multiplication computes (sum e_i 16^i).P for every digit string *)
  Theorem window_mul_correct : forall (ds : list Z) (P : F),
      window (rev ds) P pzero = zsmul (le_val 16 ds) P.
  Proof.
    intros ds P. rewrite (window_spec (rev ds) P pzero 0).
    - rewrite be_val16_rev. f_equal. lia.
    - unfold zsmul, smul, pzero. rewrite of_Z_0. ring.
  Qed.

  (* ... hence, composed with the recoding, a.P for every 32-byte scalar a *)
  Corollary ge_scalar_mult_correct : forall bytes P,
      Forall is_byte bytes -> bytes <> [] -> last bytes 0 <= 127 ->
      window (rev (recode16 bytes)) P pzero = zsmul (le_val 256 bytes) P.
  Proof.
    intros bytes P Hb Hne Hl. rewrite window_mul_correct.
    destruct (recode16_sound bytes Hb Hne Hl) as [-> _]. reflexivity.
  Qed.

  (* geScalarMultBase: table(i) = 256^i.B; odd digits first, then x16, then even digits.
     Digits arrive as pairs (even_i, odd_i), position i least significant first. *)
  Fixpoint comb_sum (pairs : list (Z * Z)) (pick : Z * Z -> Z) (i : nat) (B : F) : F :=
    match pairs with
    | [] => pzero
    | p :: t => padd (sel (pick p) (zsmul (256 ^ Z.of_nat i) B)) (comb_sum t pick (S i) B)
    end.

  Definition comb (pairs : list (Z * Z)) (B : F) : F :=
    padd (times16 (comb_sum pairs snd 0 B)) (comb_sum pairs fst 0 B).

  Fixpoint pairs_val (pairs : list (Z * Z)) : Z :=
    match pairs with
    | [] => 0
    | (e0, e1) :: t => e0 + 16 * e1 + 256 * pairs_val t
    end.

  Fixpoint proj_val (pairs : list (Z * Z)) (pick : Z * Z -> Z) : Z :=
    match pairs with [] => 0 | p :: t => pick p + 256 * proj_val t pick end.

  Lemma comb_sum_spec : forall pairs pick i B,
      comb_sum pairs pick i B = zsmul (256 ^ Z.of_nat i * proj_val pairs pick) B.
  Proof.
    induction pairs as [|p t IH]; intros pick i B.
    - cbn. unfold zsmul, smul, pzero. rewrite Z.mul_0_r, of_Z_0. ring.
    - cbn [comb_sum proj_val]. rewrite IH, sel_spec. unfold zsmul, smul, padd.
      rewrite Nat2Z.inj_succ, Z.pow_succ_r by lia.
      replace (256 ^ Z.of_nat i * (pick p + 256 * proj_val t pick))
        with (pick p * 256 ^ Z.of_nat i + 256 * 256 ^ Z.of_nat i * proj_val t pick) by ring.
      rewrite of_Z_add, !of_Z_mul. ring.
  Qed.

  Lemma pairs_val_split pairs : pairs_val pairs = proj_val pairs fst + 16 * proj_val pairs snd.
  Proof. induction pairs as [|[e0 e1] t IH]; cbn [pairs_val proj_val fst snd]; lia. Qed.

  (* C01: the comb over the precomputed base table computes (sum e_i 16^i).B *)
  Theorem comb_mul_correct : forall pairs B, comb pairs B = zsmul (pairs_val pairs) B.
  Proof.
    intros pairs B. unfold comb. rewrite times16_spec, !comb_sum_spec, pairs_val_split.
    unfold zsmul, smul, padd. cbn [Z.of_nat Z.pow]. rewrite !Z.mul_1_l.
    rewrite of_Z_add, of_Z_mul. ring.
  Qed.

  (* MSB-first double-and-add over bits (true = 1) *)
  Fixpoint dbl_add (bits : list bool) (P acc : F) : F :=
    match bits with
    | [] => acc
    | b :: t => dbl_add t P (if b then padd (dbl acc) P else dbl acc)
    end.

  Fixpoint be_bits (acc : Z) (bits : list bool) : Z :=
    match bits with [] => acc | b :: t => be_bits (2 * acc + (if b then 1 else 0)) t end.

  Lemma dbl_add_spec : forall bits P acc k,
      acc = zsmul k P -> dbl_add bits P acc = zsmul (be_bits k bits) P.
  Proof.
    induction bits as [|b t IH]; intros P acc k H; [exact H|].
    cbn [dbl_add be_bits]. apply IH. subst acc. unfold dbl, zsmul, smul, padd.
    destruct b; rewrite of_Z_add, of_Z_mul; change (of_Z q 2) with (of_Z q (1 + 1));
      rewrite ?of_Z_add, ?of_Z_1, ?of_Z_0; ring.
  Qed.

  (* C01: double-and-add computes the multiple for every bit string; leading
     zero bits (the extra iteration of `for i := BitLen(); i >= 0`) are harmless *)
  Theorem double_and_add_correct : forall bits P,
      dbl_add bits P pzero = zsmul (be_bits 0 bits) P.
  Proof.
    intros. apply dbl_add_spec. unfold zsmul, smul, pzero. rewrite of_Z_0. ring.
  Qed.

  Corollary double_and_add_leading_zero : forall bits P,
      dbl_add (false :: bits) P pzero = dbl_add bits P pzero.
  Proof. intros. rewrite !double_and_add_correct. reflexivity. Qed.

  (* all multipliers agree (C18) *)
  Corollary multipliers_agree : forall bytes bits pairs P,
      Forall is_byte bytes -> bytes <> [] -> last bytes 0 <= 127 ->
      be_bits 0 bits = le_val 256 bytes -> pairs_val pairs = le_val 256 bytes ->
      window (rev (recode16 bytes)) P pzero = dbl_add bits P pzero /\
      comb pairs P = dbl_add bits P pzero.
  Proof.
    intros bytes bits pairs P Hb Hne Hl Hbits Hpairs.
    rewrite ge_scalar_mult_correct, double_and_add_correct, comb_mul_correct by assumption.
    rewrite Hbits, Hpairs. split; reflexivity.
  Qed.
End Eval.
