(* The variable-time sliding-window recoding `slide` (group/edwards25519/ge.go)
   and the multiplier built on it, geScalarMultVartime (ge_mult_vartime.go),
   transcribed and proved correct for EVERY scalar below 2^255 (the documented
   precondition a[31] <= 127; it is exactly what keeps the carry of the
   recoding inside the 256 positions - see slide_overflow_example).

   Part 1  `slide`: the explode loop, the clumping loops and the carry
           propagation, as structural recursion over the not yet processed
           suffix of r (the code never touches r[j] for j < i again).
           slide_sound: digits are 0 or odd with |d| <= 15, value preserved.
           1b: slide_mod_sound (no precondition: digits in range, value
           preserved modulo 2^256); 1c: slide_sparse (window property, at most
           52 non-zero digits); inner_int8_safe (no int8 wrap-around).
   Part 2  the evaluation loop over the discrete-logarithm model (table of
           A,3A,..,15A by repeated addition of 2A; top non-zero digit first;
           double, then add / subtract the table entry).
           vartime_mul_correct, ge_scalar_mult_vartime_correct,
           three_multipliers_agree.
   Part 3  `slide_go`: the literal index-based transcription (r as one array
           with r[i], r[i+b], r[k] reads and writes) and the proof that it
           computes the same function as `slide`. *)
From Coq Require Import ZArith List Lia Bool Ring.
From Kyber Require Import Algebra.Zq Algebra.Grp Group.Recode.
Import ListNotations.
Local Open Scope Z_scope.

(* ------------------------------------------------------------------ *)
(* Part 1: the recoding                                                *)

(* ai := int8(a[i]) *)
Definition int8_of_byte (v : Z) : Z := if v <? 128 then v else v - 256.

(* for j := range 8 { r[i*8+j] = ai & 1; ai >>= 1 }   (arithmetic shift) *)
Fixpoint bits8 (n : nat) (ai : Z) : list Z :=
  match n with
  | O => []
  | S k => Z.land ai 1 :: bits8 k (Z.shiftr ai 1)
  end.

Fixpoint explode (bytes : list Z) : list Z :=
  match bytes with
  | [] => []
  | v :: t => bits8 8 (int8_of_byte v) ++ explode t
  end.

(* for k := i+b; k < 256; k++ { if r[k] == 0 { r[k] = 1; break }; r[k] = 0 }
   on the suffix r[k..255]; running off the end loses the carry *)
Fixpoint carry (l : list Z) : list Z :=
  match l with
  | [] => []
  | y :: l' => if y =? 0 then 1 :: l' else 0 :: carry l'
  end.

(* innerLoop: n = iterations left (b <= 6), b = current shift, x = r[i],
   t = r[i+b..255] (so `i+b < 256` is `t <> []`).  Returns r[i] and r[i+b..]. *)
Fixpoint inner (n : nat) (b : Z) (x : Z) (t : list Z) : Z * list Z :=
  match n, t with
  | S n', y :: t' =>
      if y =? 0 then
        let '(x', t2) := inner n' (b + 1) x t' in (x', y :: t2)
      else if x + Z.shiftl y b <=? 15 then
        let '(x', t2) := inner n' (b + 1) (x + Z.shiftl y b) t' in (x', 0 :: t2)
      else if -15 <=? x - Z.shiftl y b then
        let c := carry (y :: t') in
        let '(x', t2) := inner n' (b + 1) (x - Z.shiftl y b) (tl c) in (x', hd 0 c :: t2)
      else (x, t)
  | _, _ => (x, t)
  end.

(* for i := range r { if r[i] != 0 { innerLoop } } on the suffix r[i..255] *)
Fixpoint outer (fuel : nat) (r : list Z) : list Z :=
  match fuel, r with
  | S f, x :: t =>
      if x =? 0 then x :: outer f t
      else let '(x', t') := inner 6 1 x t in x' :: outer f t'
  | _, _ => r
  end.

Definition slide_bits (r : list Z) : list Z := outer (length r) r.
Definition slide (bytes : list Z) : list Z := slide_bits (explode bytes).

(* --- specification vocabulary --- *)
Definition is_bit (y : Z) : Prop := y = 0 \/ y = 1.
Definition bitlist (l : list Z) : Prop := Forall is_bit l.
Definition digit_ok (d : Z) : Prop := d = 0 \/ (Z.odd d = true /\ -15 <= d <= 15).

Definition pw (l : list Z) : Z := 2 ^ Z.of_nat (length l).

Lemma pw_pos l : 0 < pw l.
Proof. unfold pw. apply Z.pow_pos_nonneg; lia. Qed.

Lemma pw_cons y l : pw (y :: l) = 2 * pw l.
Proof. unfold pw. cbn [length]. rewrite Nat2Z.inj_succ, Z.pow_succ_r by lia. reflexivity. Qed.

Lemma pw_nil : pw [] = 1.
Proof. reflexivity. Qed.

Lemma le_val_app r l1 l2 :
  le_val r (l1 ++ l2) = le_val r l1 + r ^ Z.of_nat (length l1) * le_val r l2.
Proof.
  induction l1 as [|d t IH]; cbn [app le_val length].
  - change (Z.of_nat 0) with 0. rewrite Z.pow_0_r. lia.
  - rewrite IH, Nat2Z.inj_succ, Z.pow_succ_r by lia. ring.
Qed.

Lemma bitlist_bound l : bitlist l -> 0 <= le_val 2 l <= pw l - 1.
Proof.
  induction 1 as [|y t Hy Ht IH]; [cbn; lia|].
  cbn [le_val]. rewrite pw_cons. destruct Hy; subst; lia.
Qed.

(* --- explode --- *)
Lemma bits8_spec : forall n a,
  le_val 2 (bits8 n a) = a mod 2 ^ Z.of_nat n /\ bitlist (bits8 n a) /\ length (bits8 n a) = n.
Proof.
  induction n as [|n IH]; intros a.
  - cbn. rewrite Z.mod_1_r. repeat split. constructor.
  - cbn [bits8 le_val length].
    assert (E : Z.shiftr a 1 = a / 2) by (rewrite Z.shiftr_div_pow2 by lia; reflexivity).
    assert (E1 : Z.land a 1 = a mod 2) by (change 1 with (Z.ones 1); rewrite Z.land_ones by lia; reflexivity).
    rewrite E, E1. destruct (IH (a / 2)) as (V & B & L). rewrite V, L.
    rewrite Nat2Z.inj_succ, Z.pow_succ_r by lia.
    assert (P : 0 < 2 ^ Z.of_nat n) by (apply Z.pow_pos_nonneg; lia).
    rewrite (Z.rem_mul_r a 2 (2 ^ Z.of_nat n)) by lia.
    repeat split; auto. constructor; auto.
    pose proof (Z.mod_pos_bound a 2 ltac:(lia)). unfold is_bit. lia.
Qed.

Lemma int8_bits v : is_byte v -> int8_of_byte v mod 2 ^ Z.of_nat 8 = v.
Proof.
  unfold is_byte, int8_of_byte. intros H. change (2 ^ Z.of_nat 8) with 256.
  destruct (Z.ltb_spec v 128).
  - apply Z.mod_small; lia.
  - replace (v - 256) with (v + (-1) * 256) by lia. rewrite Z.mod_add by lia. apply Z.mod_small; lia.
Qed.

Lemma explode_spec : forall bytes, Forall is_byte bytes ->
  le_val 2 (explode bytes) = le_val 256 bytes /\ bitlist (explode bytes) /\
  length (explode bytes) = (8 * length bytes)%nat.
Proof.
  induction bytes as [|v t IH]; intros H.
  - cbn. repeat split. constructor.
  - inversion H as [|? ? Hv Ht]; subst. destruct (IH Ht) as (V & B & L).
    destruct (bits8_spec 8 (int8_of_byte v)) as (V8 & B8 & L8).
    cbn [explode le_val]. rewrite le_val_app, V8, L8, V, int8_bits by assumption.
    change (2 ^ Z.of_nat 8) with 256. repeat split.
    + apply Forall_app; split; assumption.
    + rewrite app_length, L8, L. cbn [length]. lia.
Qed.

(* --- carry --- *)
Lemma carry_length : forall l, length (carry l) = length l.
Proof.
  induction l as [|y t IH]; [reflexivity|]. cbn [carry].
  destruct (y =? 0); cbn [length]; auto.
Qed.

Lemma carry_bits : forall l, bitlist l -> bitlist (carry l).
Proof.
  induction 1 as [|y t Hy Ht IH]; [constructor|]. cbn [carry].
  destruct (y =? 0); constructor; auto; unfold is_bit; lia.
Qed.

(* no carry is lost unless all positions hold 1 *)
Lemma carry_val : forall l, bitlist l -> le_val 2 l < pw l - 1 ->
  le_val 2 (carry l) = le_val 2 l + 1.
Proof.
  induction 1 as [|y t Hy Ht IH]; intros Hlt.
  - cbn in Hlt. lia.
  - cbn [carry]. rewrite pw_cons in Hlt. cbn [le_val] in Hlt.
    destruct Hy as [-> | ->]; cbn [Z.eqb le_val].
    + lia.
    + rewrite IH by lia. lia.
Qed.

(* ... and when they all do, the carry leaves the array: value drops by 2^len - 1 *)
Lemma carry_val_overflow : forall l, bitlist l -> le_val 2 l = pw l - 1 ->
  le_val 2 (carry l) = 0.
Proof.
  induction 1 as [|y t Hy Ht IH]; intros Heq; [reflexivity|].
  cbn [carry]. rewrite pw_cons in Heq. cbn [le_val] in Heq.
  pose proof (bitlist_bound t Ht).
  destruct Hy as [-> | ->]; cbn [Z.eqb le_val].
  - lia.
  - rewrite IH by lia. lia.
Qed.

(* --- inner loop --- *)
Lemma shiftl_1 b : 0 <= b -> Z.shiftl 1 b = 2 ^ b.
Proof. intros. rewrite Z.shiftl_mul_pow2 by lia. lia. Qed.

Lemma odd_add_even x p : Z.odd x = true -> Z.odd (x + 2 * p) = true.
Proof. intros H. rewrite Z.odd_add_mul_2. exact H. Qed.

Lemma odd_sub_even x p : Z.odd x = true -> Z.odd (x - 2 * p) = true.
Proof. intros H. replace (x - 2 * p) with (x + 2 * (- p)) by lia. apply odd_add_even, H. Qed.

(* M = x + 2^b * val(t) is the number still represented by r[i..255] (divided by
   2^i); it never changes.  (I1) M <= 2^(b + len t - 1) - i.e. the remaining
   number fits with one position to spare - excludes a lost carry; (I2)
   val(t) <= 2^(len t - 1) is what re-establishes (I1) for the next i. *)
Lemma inner_spec : forall n b x t,
  1 <= b -> bitlist t -> Z.odd x = true -> -15 <= x <= 15 ->
  2 * (x + 2 ^ b * le_val 2 t) <= 2 ^ b * pw t ->
  2 * le_val 2 t <= pw t ->
  let '(x', t2) := inner n b x t in
  x' + 2 ^ b * le_val 2 t2 = x + 2 ^ b * le_val 2 t /\
  bitlist t2 /\ length t2 = length t /\
  Z.odd x' = true /\ -15 <= x' <= 15 /\
  2 * le_val 2 t2 <= pw t2.
Proof.
  induction n as [|n IH]; intros b x t Hb Ht Hodd Hx I1 I2.
  - cbn [inner]. repeat split; auto; lia.
  - destruct t as [|y t']; [cbn [inner]; repeat split; auto; lia|].
    inversion Ht as [|? ? Hy Ht']; subst.
    cbn [inner]. rewrite pw_cons in I1, I2. cbn [le_val] in I1, I2.
    assert (P : 0 < 2 ^ b) by (apply Z.pow_pos_nonneg; lia).
    assert (P1 : 2 ^ (b + 1) = 2 * 2 ^ b) by (rewrite Z.pow_add_r by lia; lia).
    pose proof (pw_pos t') as W. pose proof (bitlist_bound t' Ht') as Bt.
    destruct Hy as [-> | ->].
    + (* r[i+b] = 0 *)
      cbn [Z.eqb].
      specialize (IH (b + 1) x t' ltac:(lia) Ht' Hodd Hx).
      rewrite P1 in IH. specialize (IH ltac:(nia) ltac:(lia)).
      destruct (inner n (b + 1) x t') as [x' t2].
      destruct IH as (V & B2 & L2 & O2 & R2 & J2).
      cbn [le_val length]. rewrite pw_cons. repeat split; auto; try lia; try nia.
      constructor; auto. left; reflexivity.
    + cbn [Z.eqb]. rewrite shiftl_1 by lia.
      destruct (Z.leb_spec (x + 2 ^ b) 15) as [Hadd|Hadd].
      * (* r[i] += r[i+b] << b; r[i+b] = 0 *)
        assert (Ob : Z.odd (x + 2 ^ b) = true).
        { replace b with (Z.succ (b - 1)) by lia. rewrite Z.pow_succ_r by lia. apply odd_add_even, Hodd. }
        specialize (IH (b + 1) (x + 2 ^ b) t' ltac:(lia) Ht' Ob ltac:(lia)).
        rewrite P1 in IH. specialize (IH ltac:(nia) ltac:(lia)).
        destruct (inner n (b + 1) (x + 2 ^ b) t') as [x' t2].
        destruct IH as (V & B2 & L2 & O2 & R2 & J2).
        cbn [le_val length]. rewrite pw_cons. repeat split; auto; try lia; try nia.
        constructor; auto. left; reflexivity.
      * destruct (Z.leb_spec (-15) (x - 2 ^ b)) as [Hsub|Hsub].
        -- (* r[i] -= r[i+b] << b; carry from position i+b *)
           cbn [carry Z.eqb hd tl].
           assert (Ob : Z.odd (x - 2 ^ b) = true).
           { replace b with (Z.succ (b - 1)) by lia. rewrite Z.pow_succ_r by lia. apply odd_sub_even, Hodd. }
           assert (Hx1 : 1 <= x) by lia.
           (* the carry is not lost *)
           assert (NoOv : le_val 2 t' < pw t' - 1) by nia.
           pose proof (carry_val t' Ht' NoOv) as CV.
           pose proof (carry_bits t' Ht') as CB.
           pose proof (carry_length t') as CL.
           assert (CW : pw (carry t') = pw t') by (unfold pw; rewrite CL; reflexivity).
           specialize (IH (b + 1) (x - 2 ^ b) (carry t') ltac:(lia) CB Ob ltac:(lia)).
           rewrite P1, CV, CW in IH.
           assert (J : 2 * (le_val 2 t' + 1) <= pw t').
           { destruct t' as [|z t'']; [cbn in NoOv; lia|]. rewrite pw_cons in *. lia. }
           specialize (IH ltac:(nia) J).
           destruct (inner n (b + 1) (x - 2 ^ b) (carry t')) as [x' t2].
           destruct IH as (V & B2 & L2 & O2 & R2 & J2).
           cbn [le_val length]. rewrite pw_cons. repeat split; auto; try lia; try nia.
           constructor; auto. left; reflexivity.
        -- (* break innerLoop *)
           cbn [le_val length]. rewrite pw_cons. repeat split; auto; lia.
Qed.

(* --- outer loop --- *)
Lemma outer_spec : forall fuel r,
  bitlist r -> 2 * le_val 2 r <= pw r ->
  le_val 2 (outer fuel r) = le_val 2 r /\
  length (outer fuel r) = length r /\
  Forall digit_ok (outer fuel r).
Proof.
  induction fuel as [|f IH]; intros r Hr Hb.
  - cbn [outer]. repeat split.
    eapply Forall_impl; [|exact Hr]. intros y [-> | ->]; [left; reflexivity|right; split; [reflexivity|lia]].
  - destruct r as [|x t]; [cbn [outer]; repeat split; constructor|].
    inversion Hr as [|? ? Hx Ht]; subst. cbn [outer]. rewrite pw_cons in Hb. cbn [le_val] in Hb.
    destruct Hx as [-> | ->]; cbn [Z.eqb].
    + destruct (IH t Ht ltac:(lia)) as (V & L & D).
      cbn [le_val length]. rewrite V, L. repeat split. constructor; [left; reflexivity|exact D].
    + pose proof (inner_spec 6 1 1 t ltac:(lia) Ht eq_refl ltac:(lia)) as S.
      change (2 ^ 1) with 2 in S. specialize (S ltac:(lia) ltac:(lia)).
      destruct (inner 6 1 1 t) as [x' t'].
      destruct S as (V & B2 & L2 & O2 & R2 & J2).
      destruct (IH t' B2 J2) as (V' & L' & D').
      cbn [le_val length]. rewrite V', L', L2. repeat split; [lia|].
      constructor; [right; split; assumption|exact D'].
Qed.

(* slide on an arbitrary bit array whose value is at most half its capacity *)
Theorem slide_bits_sound : forall r,
  bitlist r -> 2 * le_val 2 r <= 2 ^ Z.of_nat (length r) ->
  le_val 2 (slide_bits r) = le_val 2 r /\
  length (slide_bits r) = length r /\
  Forall digit_ok (slide_bits r).
Proof. intros r Hr Hb. apply outer_spec; assumption. Qed.

(* slide_sound, general form: any byte string whose little-endian value is at
   most 2^(8n-1) (so 2^255 itself is still fine for n = 32) *)
Theorem slide_sound_le : forall bytes,
  Forall is_byte bytes -> 2 * le_val 256 bytes <= 2 ^ Z.of_nat (8 * length bytes) ->
  le_val 2 (slide bytes) = le_val 256 bytes /\
  length (slide bytes) = (8 * length bytes)%nat /\
  Forall digit_ok (slide bytes).
Proof.
  intros bytes Hb Hle. destruct (explode_spec bytes Hb) as (V & B & L).
  unfold slide. destruct (slide_bits_sound (explode bytes) B) as (V' & L' & D').
  - rewrite V, L. exact Hle.
  - rewrite V', V, L', L. repeat split. exact D'.
Qed.

Lemma top_byte_bound_aux : forall t v, Forall is_byte (v :: t) -> last (v :: t) 0 <= 127 ->
  le_val 256 (v :: t) < 128 * 256 ^ Z.of_nat (length t).
Proof.
  induction t as [|v2 t' IH]; intros v Hb Hl.
  - change (last [v] 0) with v in Hl. cbn [le_val length Z.of_nat]. rewrite Z.pow_0_r. lia.
  - inversion Hb as [|? ? Hv Ht]; subst. unfold is_byte in Hv.
    change (last (v :: v2 :: t') 0) with (last (v2 :: t') 0) in Hl.
    specialize (IH v2 Ht Hl).
    change (le_val 256 (v :: v2 :: t')) with (v + 256 * le_val 256 (v2 :: t')).
    cbn [length]. rewrite Nat2Z.inj_succ, Z.pow_succ_r by lia. lia.
Qed.

Lemma top_byte_bound : forall bytes, Forall is_byte bytes -> bytes <> [] -> last bytes 0 <= 127 ->
  2 * le_val 256 bytes < 2 ^ Z.of_nat (8 * length bytes).
Proof.
  intros [|v t] Hb Hne Hl; [congruence|].
  pose proof (top_byte_bound_aux t v Hb Hl) as H.
  replace (Z.of_nat (8 * length (v :: t))) with (8 * Z.of_nat (length t) + 8) by (cbn [length]; lia).
  rewrite Z.pow_add_r, Z.pow_mul_r by lia. change (2 ^ 8) with 256. lia.
Qed.

(* slide_sound: for EVERY 32-byte scalar with a[31] <= 127 (the precondition
   stated above geScalarMultVartime; any length is allowed here) the 256 output
   digits are each 0 or odd with |d| <= 15 - in particular they fit int8 and
   index the table of 8 odd multiples - and sum d_i 2^i is the scalar. *)
Theorem slide_sound : forall bytes,
  Forall is_byte bytes -> bytes <> [] -> last bytes 0 <= 127 ->
  le_val 2 (slide bytes) = le_val 256 bytes /\
  length (slide bytes) = (8 * length bytes)%nat /\
  Forall digit_ok (slide bytes).
Proof.
  intros bytes Hb Hne Hl. apply slide_sound_le; [assumption|].
  pose proof (top_byte_bound bytes Hb Hne Hl). lia.
Qed.

(* The precondition is needed: for the scalar 2^256 - 1 the carry leaves
   position 255 and the digits represent -1, i.e. scalar - 2^256. *)
Example slide_overflow_example :
  le_val 2 (slide (repeat 255 32)) = -1 /\ le_val 256 (repeat 255 32) = 2 ^ 256 - 1.
Proof. vm_compute. split; reflexivity. Qed.

(* Part 1b.  Nothing else can go wrong above 2^255: WITHOUT the precondition
   every elementary step either preserves the sum or loses exactly one carry of
   weight 2^len, the digits stay 0 or odd in [-15,15] (so the table index
   |d|/2 of the multiplier is always within 0..7), and the represented value is
   the scalar modulo 2^len. *)
Lemma carry_val_mod : forall l, bitlist l ->
  exists c, 0 <= c <= 1 /\ le_val 2 (carry l) = le_val 2 l + 1 - c * pw l.
Proof.
  intros l Hl. pose proof (bitlist_bound l Hl) as B.
  destruct (Z_lt_le_dec (le_val 2 l) (pw l - 1)) as [H|H].
  - exists 0. split; [lia|]. rewrite carry_val by assumption. lia.
  - exists 1. split; [lia|]. rewrite carry_val_overflow by (assumption || lia). lia.
Qed.

Lemma inner_spec_mod : forall n b x t,
  1 <= b -> bitlist t -> Z.odd x = true -> -15 <= x <= 15 ->
  let '(x', t2) := inner n b x t in
  (exists c, 0 <= c /\ x' + 2 ^ b * le_val 2 t2 = x + 2 ^ b * le_val 2 t - c * (2 ^ b * pw t)) /\
  bitlist t2 /\ length t2 = length t /\ Z.odd x' = true /\ -15 <= x' <= 15.
Proof.
  induction n as [|n IH]; intros b x t Hb Ht Hodd Hx.
  - cbn [inner]. repeat split; auto; try lia. exists 0. lia.
  - destruct t as [|y t']; [cbn [inner]; repeat split; auto; try lia; exists 0; lia|].
    inversion Ht as [|? ? Hy Ht']; subst. cbn [inner].
    assert (P1 : 2 ^ (b + 1) = 2 * 2 ^ b) by (rewrite Z.pow_add_r by lia; lia).
    destruct Hy as [-> | ->].
    + cbn [Z.eqb]. specialize (IH (b + 1) x t' ltac:(lia) Ht' Hodd Hx).
      destruct (inner n (b + 1) x t') as [x' t2].
      destruct IH as ((c & Hc & V) & B2 & L2 & O2 & R2).
      cbn [le_val length]. rewrite pw_cons. rewrite P1 in V. repeat split; auto; try lia.
      * exists c. split; [lia|]. lia.
      * constructor; auto. left; reflexivity.
    + cbn [Z.eqb]. rewrite shiftl_1 by lia.
      destruct (Z.leb_spec (x + 2 ^ b) 15) as [Hadd|Hadd].
      * assert (Ob : Z.odd (x + 2 ^ b) = true).
        { replace b with (Z.succ (b - 1)) by lia. rewrite Z.pow_succ_r by lia. apply odd_add_even, Hodd. }
        specialize (IH (b + 1) (x + 2 ^ b) t' ltac:(lia) Ht' Ob ltac:(lia)).
        destruct (inner n (b + 1) (x + 2 ^ b) t') as [x' t2].
        destruct IH as ((c & Hc & V) & B2 & L2 & O2 & R2).
        cbn [le_val length]. rewrite pw_cons. rewrite P1 in V. repeat split; auto; try lia.
        -- exists c. split; [lia|]. lia.
        -- constructor; auto. left; reflexivity.
      * destruct (Z.leb_spec (-15) (x - 2 ^ b)) as [Hsub|Hsub].
        -- cbn [carry Z.eqb hd tl].
           assert (Ob : Z.odd (x - 2 ^ b) = true).
           { replace b with (Z.succ (b - 1)) by lia. rewrite Z.pow_succ_r by lia. apply odd_sub_even, Hodd. }
           destruct (carry_val_mod t' Ht') as (c0 & Hc0 & CV).
           pose proof (carry_bits t' Ht') as CB. pose proof (carry_length t') as CL.
           assert (CW : pw (carry t') = pw t') by (unfold pw; rewrite CL; reflexivity).
           specialize (IH (b + 1) (x - 2 ^ b) (carry t') ltac:(lia) CB Ob ltac:(lia)).
           destruct (inner n (b + 1) (x - 2 ^ b) (carry t')) as [x' t2].
           destruct IH as ((c & Hc & V) & B2 & L2 & O2 & R2).
           cbn [le_val length]. rewrite pw_cons. rewrite P1, CV, CW in V. repeat split; auto; try lia.
           ++ exists (c + c0). split; [lia|]. lia.
           ++ constructor; auto. left; reflexivity.
        -- cbn [le_val length]. repeat split; auto; try lia. exists 0. lia.
Qed.

Lemma outer_spec_mod : forall fuel r, bitlist r ->
  (exists c, 0 <= c /\ le_val 2 (outer fuel r) = le_val 2 r - c * pw r) /\
  length (outer fuel r) = length r /\ Forall digit_ok (outer fuel r).
Proof.
  induction fuel as [|f IH]; intros r Hr.
  - cbn [outer]. repeat split; [exists 0; lia|].
    eapply Forall_impl; [|exact Hr]. intros y [-> | ->]; [left; reflexivity|right; split; [reflexivity|lia]].
  - destruct r as [|x t]; [cbn [outer]; repeat split; [exists 0; lia|constructor]|].
    inversion Hr as [|? ? Hx Ht]; subst. cbn [outer].
    destruct Hx as [-> | ->]; cbn [Z.eqb].
    + destruct (IH t Ht) as ((c & Hc & V) & L & D).
      cbn [le_val length]. rewrite pw_cons, V, L. repeat split.
      * exists c. split; [lia|]. lia.
      * constructor; [left; reflexivity|exact D].
    + pose proof (inner_spec_mod 6 1 1 t ltac:(lia) Ht eq_refl ltac:(lia)) as S.
      change (2 ^ 1) with 2 in S. destruct (inner 6 1 1 t) as [x' t'].
      destruct S as ((c1 & Hc1 & V1) & B2 & L2 & O2 & R2).
      destruct (IH t' B2) as ((c & Hc & V) & L & D).
      assert (CW : pw t' = pw t) by (unfold pw; rewrite L2; reflexivity).
      cbn [le_val length]. rewrite pw_cons, V, L, L2, CW. repeat split.
      * exists (c + c1). split; [lia|]. lia.
      * constructor; [right; split; assumption|exact D].
Qed.

(* for EVERY byte string (no precondition): digits in range, value preserved
   modulo 2^(8n) *)
Theorem slide_mod_sound : forall bytes, Forall is_byte bytes ->
  le_val 2 (slide bytes) mod 2 ^ Z.of_nat (8 * length bytes)
    = le_val 256 bytes mod 2 ^ Z.of_nat (8 * length bytes) /\
  length (slide bytes) = (8 * length bytes)%nat /\
  Forall digit_ok (slide bytes).
Proof.
  intros bytes Hb. destruct (explode_spec bytes Hb) as (V & B & L).
  unfold slide, slide_bits. destruct (outer_spec_mod (length (explode bytes)) (explode bytes) B) as ((c & Hc & V') & L' & D').
  split; [|split; [rewrite L', L; reflexivity|exact D']].
  rewrite V', V. unfold pw. rewrite L.
  replace (le_val 256 bytes - c * 2 ^ Z.of_nat (8 * length bytes))
    with (le_val 256 bytes + (- c) * 2 ^ Z.of_nat (8 * length bytes)) by lia.
  apply Z.mod_add. apply Z.pow_nonzero; lia.
Qed.

(* Part 1c.  The window property: a non-zero digit is followed by (at least)
   four zero digits, for EVERY input bit array (no precondition).  Hence at most
   ceil(len/5) digits are non-zero: geScalarMultVartime performs at most 52
   table additions for a 256-digit array (against 64 for the fixed window). *)
Inductive spaced : nat -> list Z -> Prop :=
| spaced_nil k : spaced k []
| spaced_zero k t : spaced (pred k) t -> spaced k (0 :: t)
| spaced_digit d t : d <> 0 -> spaced 4 t -> spaced 0 (d :: t).

Definition all_zero (l : list Z) : Prop := Forall (fun y => y = 0) l.

Lemma inner_zeros : forall n b x t,
  1 <= b -> Z.of_nat n + b = 7 -> bitlist t -> Z.odd x = true -> -15 <= x <= 15 ->
  all_zero (firstn (Z.to_nat (5 - b)) (snd (inner n b x t))).
Proof.
  induction n as [|n IH]; intros b x t Hb Hn Ht Hodd Hx.
  - replace (Z.to_nat (5 - b)) with O by lia. constructor.
  - destruct (Z_le_gt_dec 5 b) as [H5|H5].
    { replace (Z.to_nat (5 - b)) with O by lia. constructor. }
    destruct t as [|y t']; [cbn [inner snd]; rewrite firstn_nil; constructor|].
    inversion Ht as [|? ? Hy Ht']; subst.
    assert (Hk : Z.to_nat (5 - b) = S (Z.to_nat (5 - (b + 1)))) by lia.
    assert (Hn' : Z.of_nat n + (b + 1) = 7) by lia.
    assert (P16 : 2 <= 2 ^ b <= 16).
    { split; [change 2 with (2 ^ 1) at 1|change 16 with (2 ^ 4)]; apply Z.pow_le_mono_r; lia. }
    cbn [inner]. destruct Hy as [-> | ->].
    + cbn [Z.eqb]. specialize (IH (b + 1) x t' ltac:(lia) Hn' Ht' Hodd Hx).
      destruct (inner n (b + 1) x t') as [x' t2]. cbn [snd] in *.
      rewrite Hk. cbn [firstn]. constructor; [reflexivity|exact IH].
    + cbn [Z.eqb]. rewrite shiftl_1 by lia.
      destruct (Z.leb_spec (x + 2 ^ b) 15) as [Hadd|Hadd].
      * assert (Ob : Z.odd (x + 2 ^ b) = true).
        { replace b with (Z.succ (b - 1)) by lia. rewrite Z.pow_succ_r by lia. apply odd_add_even, Hodd. }
        specialize (IH (b + 1) (x + 2 ^ b) t' ltac:(lia) Hn' Ht' Ob ltac:(lia)).
        destruct (inner n (b + 1) (x + 2 ^ b) t') as [x' t2]. cbn [snd] in *.
        rewrite Hk. cbn [firstn]. constructor; [reflexivity|exact IH].
      * destruct (Z.leb_spec (-15) (x - 2 ^ b)) as [Hsub|Hsub].
        -- cbn [carry Z.eqb hd tl].
           assert (Ob : Z.odd (x - 2 ^ b) = true).
           { replace b with (Z.succ (b - 1)) by lia. rewrite Z.pow_succ_r by lia. apply odd_sub_even, Hodd. }
           specialize (IH (b + 1) (x - 2 ^ b) (carry t') ltac:(lia) Hn' (carry_bits t' Ht') Ob ltac:(lia)).
           destruct (inner n (b + 1) (x - 2 ^ b) (carry t')) as [x' t2]. cbn [snd] in *.
           rewrite Hk. cbn [firstn]. constructor; [reflexivity|exact IH].
        -- (* `break innerLoop` is unreachable while b <= 4: it needs r[i] = 0 *)
           exfalso. assert (x = 0) by lia. subst x. discriminate Hodd.
Qed.

Lemma all_zero_firstn_pred k y t : all_zero (firstn k (y :: t)) -> all_zero (firstn (pred k) t).
Proof. destruct k as [|k]; cbn [firstn pred]; intros H; [constructor|inversion H; assumption]. Qed.

Lemma outer_spaced : forall fuel r k, (length r <= fuel)%nat ->
  bitlist r -> all_zero (firstn k r) -> spaced k (outer fuel r).
Proof.
  induction fuel as [|f IH]; intros r k Hf Hr Hz.
  - destruct r; [constructor|cbn [length] in Hf; lia].
  - destruct r as [|x t]; [cbn [outer]; constructor|].
    inversion Hr as [|? ? Hx Ht]; subst. cbn [outer]. cbn [length] in Hf.
    destruct Hx as [-> | ->]; cbn [Z.eqb].
    + constructor. apply IH; [lia|assumption|]. eapply all_zero_firstn_pred; exact Hz.
    + destruct k as [|k]; [|cbn [firstn] in Hz; inversion Hz; lia].
      pose proof (inner_zeros 6 1 1 t ltac:(lia) ltac:(lia) Ht eq_refl ltac:(lia)) as Z4.
      pose proof (inner_spec_mod 6 1 1 t ltac:(lia) Ht eq_refl ltac:(lia)) as S.
      destruct (inner 6 1 1 t) as [x' t']. cbn [snd] in Z4.
      destruct S as (_ & B2 & L2 & O2 & _).
      constructor.
      * intros ->. discriminate O2.
      * apply IH; [lia|exact B2|exact Z4].
Qed.

Definition count_nz (l : list Z) : Z := Z.of_nat (length (filter (fun d => negb (d =? 0)) l)).

Lemma spaced_count : forall k l, spaced k l -> (k <= 4)%nat ->
  5 * count_nz l <= Z.of_nat (length l) + 4 - Z.of_nat k.
Proof.
  unfold count_nz. induction 1 as [k|k t H IH|d t Hd H IH]; intros Hk.
  - cbn [filter length]. lia.
  - cbn [filter Z.eqb negb length]. specialize (IH ltac:(lia)). lia.
  - cbn [filter]. destruct (Z.eqb_spec d 0); [contradiction|]. cbn [negb length].
    specialize (IH ltac:(lia)). lia.
Qed.

(* every non-zero digit of slide's output is followed by four zeros, and at
   most ceil(8n/5) digits are non-zero (52 for a 32-byte scalar) *)
Theorem slide_sparse : forall bytes, Forall is_byte bytes ->
  spaced 0 (slide bytes) /\ 5 * count_nz (slide bytes) <= 8 * Z.of_nat (length bytes) + 4.
Proof.
  intros bytes Hb. destruct (explode_spec bytes Hb) as (_ & B & L).
  assert (S : spaced 0 (slide bytes)) by (apply outer_spaced; [lia|exact B|constructor]).
  split; [exact S|]. pose proof (spaced_count 0 _ S ltac:(lia)) as C.
  destruct (slide_mod_sound bytes Hb) as (_ & L' & _). rewrite L' in C. lia.
Qed.

(* The model computes in Z where the code computes in int8.  Under the
   invariants proved above (r[i] odd in [-15,15], r[i+b] a bit, 1 <= b <= 6)
   every intermediate of the inner loop fits int8, so no wrap-around can occur
   and the two agree. *)
Lemma inner_int8_safe b x y : 1 <= b <= 6 -> is_bit y -> -15 <= x <= 15 ->
  -128 <= Z.shiftl y b <= 127 /\
  -128 <= x + Z.shiftl y b <= 127 /\ -128 <= x - Z.shiftl y b <= 127.
Proof.
  intros Hb Hy Hx. rewrite Z.shiftl_mul_pow2 by lia.
  assert (1 <= 2 ^ b <= 64).
  { split; [pose proof (Z.pow_pos_nonneg 2 b); lia|].
    change 64 with (2 ^ 6). apply Z.pow_le_mono_r; lia. }
  destruct Hy; subst; lia.
Qed.

(* non-vacuity / illustration: 2^255 - 1 clumps into -1 at position 0, the carry
   runs through positions 4..254 and stops at 255 *)
Example slide_example_carry :
  slide (repeat 255 31 ++ [127]) = (-1) :: repeat 0 254 ++ [1] /\
  Forall is_byte (repeat 255 31 ++ [127]) /\ last (repeat 255 31 ++ [127]) 0 <= 127.
Proof.
  split; [vm_compute; reflexivity|]. split; [|vm_compute; discriminate].
  apply Forall_app. split; [apply Forall_forall; intros y Hy; apply repeat_spec in Hy; subst; unfold is_byte; lia|].
  constructor; [unfold is_byte; lia|constructor].
Qed.

(* ------------------------------------------------------------------ *)
(* Part 2: geScalarMultVartime over the discrete-logarithm model       *)
Section VartimeEval.
  Variable q : Z.
  Notation F := (zq q).
  Add Ring zqR3 : (zq_ring q).

  (* A.ToCached(&Ai[0]); A2 = 2A; for i := range 7 { Ai[i+1] = A2 + Ai[i] } *)
  Fixpoint odd_table (n : nat) (A2 cur : F) : list F :=
    match n with
    | O => []
    | S k => cur :: odd_table k A2 (padd A2 cur)
    end.
  Definition table (A : F) : list F := odd_table 8 (dbl q A) A.

  (* if d > 0 { t = u + Ai[d/2] } else if d < 0 { t = u - Ai[(-d)/2] }
     (Go's / truncates; the operands are non-negative here) *)
  Definition tab_add (tb : list F) (u : F) (d : Z) : F :=
    if 0 <? d then padd u (nth (Z.to_nat (Z.quot d 2)) tb pzero)
    else if d <? 0 then psub u (nth (Z.to_nat (Z.quot (- d) 2)) tb pzero)
    else u.

  (* remaining digits, most significant first: double, then add/subtract *)
  Fixpoint vt_rest (tb : list F) (ds : list Z) (acc : F) : F :=
    match ds with
    | [] => acc
    | d :: t => vt_rest tb t (tab_add tb (dbl q acc) d)
    end.

  (* for i = 255; ; i-- { if i < 0 { h.Zero(); return }; if aSlide[i] != 0 { break } }
     then the first clump is added to / subtracted from the neutral element *)
  Fixpoint vt_top (tb : list F) (ds : list Z) : F :=
    match ds with
    | [] => pzero
    | d :: t => if d =? 0 then vt_top tb t else vt_rest tb t (tab_add tb pzero d)
    end.

  (* digits least significant first, as slide leaves them in aSlide[0..255] *)
  Definition vartime_mul (digits : list Z) (A : F) : F := vt_top (table A) (rev digits).

  Definition ge_scalar_mult_vartime (bytes : list Z) (A : F) : F := vartime_mul (slide bytes) A.

  Lemma zsmul_0 P : zsmul q 0 P = pzero.
  Proof. unfold zsmul, smul, pzero. rewrite of_Z_0. ring. Qed.

  Lemma zsmul_add a b P : zsmul q (a + b) P = padd (zsmul q a P) (zsmul q b P).
  Proof. unfold zsmul, smul, padd. rewrite of_Z_add. ring. Qed.

  Lemma zsmul_1 P : zsmul q 1 P = P.
  Proof. unfold zsmul, smul. rewrite of_Z_1. ring. Qed.

  Lemma zsmul_opp a P : zsmul q (- a) P = pneg (zsmul q a P).
  Proof. unfold zsmul, smul, pneg. rewrite of_Z_opp. ring. Qed.

  Lemma dbl_zsmul k P : dbl q (zsmul q k P) = zsmul q (2 * k) P.
  Proof. replace (2 * k) with (k + k) by lia. rewrite zsmul_add. reflexivity. Qed.

  Lemma odd_table_nth : forall n j A k, (j < n)%nat ->
    nth j (odd_table n (dbl q A) (zsmul q k A)) pzero = zsmul q (k + 2 * Z.of_nat j) A.
  Proof.
    induction n as [|n IH]; intros j A k Hj; [lia|].
    cbn [odd_table]. destruct j as [|j].
    - cbn [nth]. f_equal. lia.
    - cbn [nth].
      replace (padd (dbl q A) (zsmul q k A)) with (zsmul q (k + 2) A).
      + rewrite IH by lia. f_equal. lia.
      + replace (k + 2) with (1 + 1 + k) by lia. rewrite !zsmul_add, zsmul_1.
        unfold dbl, padd. ring.
  Qed.

  (* the table holds A, 3A, ..., 15A *)
  Lemma table_nth j A : (j < 8)%nat -> nth j (table A) pzero = zsmul q (2 * Z.of_nat j + 1) A.
  Proof.
    intros Hj. unfold table. rewrite <- (zsmul_1 A) at 2.
    rewrite odd_table_nth by assumption. f_equal. lia.
  Qed.

  (* a digit allowed by slide selects exactly d.A *)
  Lemma tab_add_spec A u d : digit_ok d -> tab_add (table A) u d = padd u (zsmul q d A).
  Proof.
    intros [-> | [Hodd Hr]].
    - unfold tab_add. cbn [Z.ltb Z.compare]. rewrite zsmul_0. unfold padd, pzero. ring.
    - unfold tab_add. rewrite Z.odd_spec in Hodd || apply Z.odd_spec in Hodd.
      destruct Hodd as [m Hm].
      destruct (Z.ltb_spec 0 d) as [Hp|Hp].
      + rewrite Z.quot_div_nonneg by lia.
        assert (E : d / 2 = m) by (subst d; rewrite Z.mul_comm, Z.div_add_l by lia; cbn; lia).
        rewrite E, table_nth by lia. rewrite Z2Nat.id by lia. f_equal. f_equal. lia.
      + destruct (Z.ltb_spec d 0) as [Hn|Hn]; [|lia].
        rewrite Z.quot_div_nonneg by lia.
        assert (E : (- d) / 2 = - m - 1).
        { replace (- d) with ((- m - 1) * 2 + 1) by lia. rewrite Z.div_add_l by lia. cbn; lia. }
        rewrite E, table_nth by lia. rewrite Z2Nat.id by lia.
        rewrite psub_def. f_equal. rewrite <- zsmul_opp. f_equal. lia.
  Qed.

  (* big-endian radix-2 value of a digit string, with an accumulator *)
  Fixpoint be_val2 (acc : Z) (ds : list Z) : Z :=
    match ds with [] => acc | d :: t => be_val2 (2 * acc + d) t end.

  Lemma be_val2_rev : forall ds acc,
    be_val2 acc (rev ds) = le_val 2 ds + 2 ^ Z.of_nat (length ds) * acc.
  Proof.
    assert (G : forall l a x, be_val2 a (l ++ [x]) = 2 * be_val2 a l + x).
    { induction l as [|y l' IHl]; intros a x; cbn [app be_val2]; [lia|apply IHl]. }
    induction ds as [|d t IH]; intros acc.
    - cbn [rev be_val2 le_val length Z.of_nat]. rewrite Z.pow_0_r. lia.
    - cbn [rev]. rewrite G, IH. cbn [le_val length]. rewrite Nat2Z.inj_succ, Z.pow_succ_r by lia. ring.
  Qed.

  Lemma vt_rest_spec : forall ds A acc k, Forall digit_ok ds ->
    acc = zsmul q k A -> vt_rest (table A) ds acc = zsmul q (be_val2 k ds) A.
  Proof.
    induction ds as [|d t IH]; intros A acc k Hd H; [exact H|].
    inversion Hd as [|? ? Hd1 Hd2]; subst. cbn [vt_rest be_val2]. apply IH; [assumption|].
    rewrite tab_add_spec, dbl_zsmul, <- zsmul_add by assumption. reflexivity.
  Qed.

  Lemma vt_top_spec : forall ds A, Forall digit_ok ds ->
    vt_top (table A) ds = zsmul q (be_val2 0 ds) A.
  Proof.
    induction ds as [|d t IH]; intros A Hd.
    - cbn [vt_top be_val2]. rewrite zsmul_0. reflexivity.
    - inversion Hd as [|? ? Hd1 Hd2]; subst. cbn [vt_top be_val2].
      destruct (Z.eqb_spec d 0) as [->|Hnz].
      + apply IH; assumption.
      + apply vt_rest_spec; [assumption|].
        rewrite tab_add_spec by assumption. rewrite <- (zsmul_0 A), <- zsmul_add. reflexivity.
  Qed.

  (* vartime_mul_correct: for every digit array that slide can produce (each
     digit 0 or odd in [-15,15]) the evaluation loop returns (sum d_i 2^i).A;
     the all-zero array gives the neutral element through the h.Zero() exit *)
  Theorem vartime_mul_correct : forall digits A, Forall digit_ok digits ->
    vartime_mul digits A = zsmul q (le_val 2 digits) A.
  Proof.
    intros digits A Hd. unfold vartime_mul.
    rewrite vt_top_spec by (apply Forall_rev; assumption).
    rewrite be_val2_rev. f_equal. lia.
  Qed.

  (* ... hence geScalarMultVartime computes a.A for EVERY scalar a with a[31] <= 127 *)
  Theorem ge_scalar_mult_vartime_correct : forall bytes A,
    Forall is_byte bytes -> bytes <> [] -> last bytes 0 <= 127 ->
    ge_scalar_mult_vartime bytes A = zsmul q (le_val 256 bytes) A.
  Proof.
    intros bytes A Hb Hne Hl. destruct (slide_sound bytes Hb Hne Hl) as (V & _ & D).
    unfold ge_scalar_mult_vartime. rewrite vartime_mul_correct by assumption. rewrite V. reflexivity.
  Qed.

  (* the variable-time multiplier, the constant-time fixed-window multiplier
     (geScalarMult) and plain double-and-add agree on every scalar (C18) *)
  Corollary three_multipliers_agree : forall bytes bits A,
    Forall is_byte bytes -> bytes <> [] -> last bytes 0 <= 127 ->
    be_bits 0 bits = le_val 256 bytes ->
    ge_scalar_mult_vartime bytes A = window q (rev (recode16 bytes)) A pzero /\
    ge_scalar_mult_vartime bytes A = dbl_add q bits A pzero.
  Proof.
    intros bytes bits A Hb Hne Hl Hbits.
    rewrite ge_scalar_mult_vartime_correct, ge_scalar_mult_correct, double_and_add_correct by assumption.
    rewrite Hbits. split; reflexivity.
  Qed.

  (* the same with the precondition stated on the value: a <= 2^(8n-1), e.g. any
     canonical (reduced mod l < 2^253) Ed25519 scalar, which is all that
     Point.Mul ever passes *)
  Theorem ge_scalar_mult_vartime_correct_le : forall bytes A,
    Forall is_byte bytes -> 2 * le_val 256 bytes <= 2 ^ Z.of_nat (8 * length bytes) ->
    ge_scalar_mult_vartime bytes A = zsmul q (le_val 256 bytes) A.
  Proof.
    intros bytes A Hb Hle. destruct (slide_sound_le bytes Hb Hle) as (V & _ & D).
    unfold ge_scalar_mult_vartime. rewrite vartime_mul_correct by assumption. rewrite V. reflexivity.
  Qed.

  (* ... and with the comb of geScalarMultBase as well: all four agree *)
  Corollary all_multipliers_agree : forall bytes bits pairs A,
    Forall is_byte bytes -> bytes <> [] -> last bytes 0 <= 127 ->
    be_bits 0 bits = le_val 256 bytes -> pairs_val pairs = le_val 256 bytes ->
    ge_scalar_mult_vartime bytes A = window q (rev (recode16 bytes)) A pzero /\
    ge_scalar_mult_vartime bytes A = dbl_add q bits A pzero /\
    ge_scalar_mult_vartime bytes A = comb q pairs A.
  Proof.
    intros bytes bits pairs A Hb Hne Hl Hbits Hpairs.
    destruct (three_multipliers_agree bytes bits A Hb Hne Hl Hbits) as [E1 E2].
    repeat split; [exact E1|exact E2|].
    rewrite ge_scalar_mult_vartime_correct, comb_mul_correct, Hpairs by assumption. reflexivity.
  Qed.

  (* without the precondition the multiplier is still total and computes
     (a - c 2^(8n)).A for some c >= 0: the digits never index outside the table *)
  Theorem ge_scalar_mult_vartime_total : forall bytes A, Forall is_byte bytes ->
    exists v, v mod 2 ^ Z.of_nat (8 * length bytes) = le_val 256 bytes mod 2 ^ Z.of_nat (8 * length bytes) /\
              ge_scalar_mult_vartime bytes A = zsmul q v A.
  Proof.
    intros bytes A Hb. destruct (slide_mod_sound bytes Hb) as (V & _ & D).
    exists (le_val 2 (slide bytes)). split; [exact V|].
    unfold ge_scalar_mult_vartime. apply vartime_mul_correct, D.
  Qed.
End VartimeEval.

(* ------------------------------------------------------------------ *)
(* Part 3: the literal, index-based transcription of slide             *)

Definition get (r : list Z) (k : nat) : Z := nth k r 0.

Fixpoint set (r : list Z) (k : nat) (v : Z) : list Z :=
  match r, k with
  | [], _ => []
  | _ :: t, O => v :: t
  | y :: t, S k' => y :: set t k' v
  end.

(* for k := i + b; k < 256; k++ { if r[k] == 0 { r[k] = 1; break }; r[k] = 0 } *)
Fixpoint carry_go (fuel : nat) (r : list Z) (k : nat) : list Z :=
  match fuel with
  | O => r
  | S f =>
      if (k <? length r)%nat then
        if get r k =? 0 then set r k 1 else carry_go f (set r k 0) (S k)
      else r
  end.

(* for b := 1; b <= 6 && i+b < 256; b++ { if r[i+b] != 0 { switch ... } } *)
Fixpoint inner_go (fuel : nat) (r : list Z) (i b : nat) : list Z :=
  match fuel with
  | O => r
  | S f =>
      if ((b <=? 6) && (i + b <? length r))%nat then
        let y := get r (i + b)%nat in
        let s := Z.shiftl y (Z.of_nat b) in
        if y =? 0 then inner_go f r i (S b)
        else if get r i + s <=? 15 then
          inner_go f (set (set r i (get r i + s)) (i + b)%nat 0) i (S b)
        else if -15 <=? get r i - s then
          inner_go f (carry_go (length r) (set r i (get r i - s)) (i + b)%nat) i (S b)
        else r
      else r
  end.

(* for i := range r { if r[i] != 0 { innerLoop } } *)
Fixpoint outer_go (fuel : nat) (r : list Z) (i : nat) : list Z :=
  match fuel with
  | O => r
  | S f => outer_go f (if get r i =? 0 then r else inner_go 6 r i 1) (S i)
  end.

Definition slide_go (bytes : list Z) : list Z :=
  let r := explode bytes in outer_go (length r) r 0.

Lemma get_mid pre x t : get (pre ++ x :: t) (length pre) = x.
Proof. unfold get. rewrite app_nth2, Nat.sub_diag by lia. reflexivity. Qed.

Lemma get_end pre : get pre (length pre) = 0.
Proof. unfold get. apply nth_overflow. lia. Qed.

Lemma set_mid : forall pre x t v, set (pre ++ x :: t) (length pre) v = pre ++ v :: t.
Proof. induction pre as [|p pre IH]; intros; cbn [app length set]; [reflexivity|]. rewrite IH. reflexivity. Qed.

Lemma set_length : forall r k v, length (set r k v) = length r.
Proof. induction r as [|y t IH]; intros [|k] v; cbn [set length]; auto. Qed.

Lemma carry_go_eq : forall l pre fuel, (length l <= fuel)%nat ->
  carry_go fuel (pre ++ l) (length pre) = pre ++ carry l.
Proof.
  induction l as [|y l IH]; intros pre fuel Hf.
  - destruct fuel as [|f]; [reflexivity|]. cbn [carry_go carry].
    rewrite app_nil_r. destruct (Nat.ltb_spec (length pre) (length pre)); [lia|reflexivity].
  - destruct fuel as [|f]; [cbn [length] in Hf; lia|]. cbn [carry_go carry].
    destruct (Nat.ltb_spec (length pre) (length (pre ++ y :: l))) as [_|H];
      [|rewrite app_length in H; cbn [length] in H; lia].
    rewrite get_mid, !set_mid. destruct (y =? 0); [reflexivity|].
    replace (pre ++ 0 :: l) with ((pre ++ [0]) ++ l) by (rewrite <- app_assoc; reflexivity).
    replace (S (length pre)) with (length (pre ++ [0])) by (rewrite app_length; cbn [length]; lia).
    rewrite IH by (cbn [length] in Hf; lia). rewrite <- app_assoc. reflexivity.
Qed.

Lemma mid_snoc (pre : list Z) x0 mid (v : Z) t2 :
  pre ++ x0 :: mid ++ v :: t2 = pre ++ x0 :: (mid ++ [v]) ++ t2.
Proof. rewrite <- app_assoc. reflexivity. Qed.

Lemma inner_go_eq : forall n pre x mid t b, b = S (length mid) -> (n + b <= 7)%nat ->
  inner_go n (pre ++ x :: mid ++ t) (length pre) b =
  let '(x', t2) := inner n (Z.of_nat b) x t in pre ++ x' :: mid ++ t2.
Proof.
  induction n as [|n IH]; intros pre x mid t b Hb Hn; [reflexivity|].
  assert (Hb' : S b = S (length (mid ++ [0]))) by (rewrite app_length; cbn [length]; lia).
  assert (HbZ : Z.of_nat (S b) = Z.of_nat b + 1) by lia.
  destruct t as [|y t'].
  - (* i + b = 256 *)
    cbn [inner_go inner].
    replace (length pre + b <? length (pre ++ x :: mid ++ []))%nat with false.
    2:{ symmetry. apply Nat.ltb_ge. rewrite !app_length. cbn [length]. rewrite app_length. cbn [length]. lia. }
    rewrite andb_false_r. reflexivity.
  - assert (Eidx : forall x0, (length pre + b)%nat = length (pre ++ x0 :: mid)).
    { intros. rewrite app_length. cbn [length]. lia. }
    assert (Hsplit : forall x0 v t2, pre ++ x0 :: mid ++ v :: t2 = (pre ++ x0 :: mid) ++ v :: t2).
    { intros. rewrite <- app_assoc. reflexivity. }
    assert (Hlen : ((b <=? 6) && (length pre + b <? length (pre ++ x :: mid ++ y :: t')))%nat = true).
    { apply andb_true_intro. split; [apply Nat.leb_le; lia|]. apply Nat.ltb_lt.
      rewrite !app_length. cbn [length]. rewrite app_length. cbn [length]. lia. }
    assert (Hgy : get (pre ++ x :: mid ++ y :: t') (length pre + b) = y).
    { rewrite Hsplit, (Eidx x). apply get_mid. }
    assert (Hgx : get (pre ++ x :: mid ++ y :: t') (length pre) = x) by apply get_mid.
    assert (Hsx : forall v, set (pre ++ x :: mid ++ y :: t') (length pre) v = pre ++ v :: mid ++ y :: t')
      by (intros; apply set_mid).
    assert (Hsy : forall x0 v, set (pre ++ x0 :: mid ++ y :: t') (length pre + b) v = pre ++ x0 :: mid ++ v :: t').
    { intros. rewrite !Hsplit, (Eidx x0). apply set_mid. }
    assert (Hc : forall x0, carry_go (length (pre ++ x :: mid ++ y :: t')) (pre ++ x0 :: mid ++ y :: t') (length pre + b)
                 = pre ++ x0 :: mid ++ carry (y :: t')).
    { intros. rewrite (Hsplit x0 y t'), (Eidx x0), carry_go_eq, <- app_assoc; [reflexivity|].
      rewrite !app_length. cbn [length]. rewrite app_length. cbn [length]. lia. }
    cbn [inner_go inner]. cbv zeta. rewrite Hlen, Hgy, Hgx.
    destruct (y =? 0) eqn:Ey.
    + apply Z.eqb_eq in Ey. subst y.
      rewrite mid_snoc, (IH pre x (mid ++ [0]) t' (S b) Hb' ltac:(lia)), HbZ.
      destruct (inner n (Z.of_nat b + 1) x t') as [x' t2]. rewrite <- mid_snoc. reflexivity.
    + destruct (x + Z.shiftl y (Z.of_nat b) <=? 15).
      * rewrite Hsx, Hsy.
        rewrite mid_snoc, (IH pre _ (mid ++ [0]) t' (S b) Hb' ltac:(lia)), HbZ.
        destruct (inner n (Z.of_nat b + 1) (x + Z.shiftl y (Z.of_nat b)) t') as [x' t2].
        rewrite <- mid_snoc. reflexivity.
      * destruct (-15 <=? x - Z.shiftl y (Z.of_nat b)); [|reflexivity].
        rewrite Hsx, Hc. cbn [carry]. rewrite Ey. cbn [hd tl].
        rewrite mid_snoc, (IH pre _ (mid ++ [0]) (carry t') (S b) Hb' ltac:(lia)), HbZ.
        destruct (inner n (Z.of_nat b + 1) (x - Z.shiftl y (Z.of_nat b)) (carry t')) as [x' t2].
        rewrite <- mid_snoc. reflexivity.
Qed.

Lemma outer_go_past : forall f r k, (length r <= k)%nat -> outer_go f r k = r.
Proof.
  induction f as [|f IH]; intros r k Hk; [reflexivity|].
  cbn [outer_go]. unfold get at 1. rewrite nth_overflow by assumption. cbn [Z.eqb].
  apply IH. lia.
Qed.

Lemma outer_go_eq : forall fuel pre s,
  outer_go fuel (pre ++ s) (length pre) = pre ++ outer fuel s.
Proof.
  induction fuel as [|f IH]; intros pre s; [reflexivity|].
  destruct s as [|x t].
  - rewrite outer_go_past by (rewrite app_nil_r; lia). reflexivity.
  - cbn [outer_go outer]. rewrite get_mid. destruct (x =? 0) eqn:Ex.
    + replace (pre ++ x :: t) with ((pre ++ [x]) ++ t) by (rewrite <- app_assoc; reflexivity).
      replace (S (length pre)) with (length (pre ++ [x])) by (rewrite app_length; cbn [length]; lia).
      rewrite IH, <- app_assoc. reflexivity.
    + pose proof (inner_go_eq 6 pre x [] t 1%nat eq_refl ltac:(lia)) as E.
      cbn [app] in E. change (Z.of_nat 1) with 1 in E. rewrite E.
      destruct (inner 6 1 x t) as [x' t'].
      replace (pre ++ x' :: t') with ((pre ++ [x']) ++ t') by (rewrite <- app_assoc; reflexivity).
      replace (S (length pre)) with (length (pre ++ [x'])) by (rewrite app_length; cbn [length]; lia).
      rewrite IH, <- app_assoc. reflexivity.
Qed.

(* the array-index transcription and the suffix transcription are the same function *)
Theorem slide_go_eq : forall bytes, slide_go bytes = slide bytes.
Proof.
  intros bytes. unfold slide_go, slide, slide_bits.
  exact (outer_go_eq (length (explode bytes)) [] (explode bytes)).
Qed.

(* slide_sound for the literal transcription *)
Corollary slide_go_sound : forall bytes,
  Forall is_byte bytes -> bytes <> [] -> last bytes 0 <= 127 ->
  le_val 2 (slide_go bytes) = le_val 256 bytes /\
  length (slide_go bytes) = (8 * length bytes)%nat /\
  Forall digit_ok (slide_go bytes).
Proof. intros bytes. rewrite slide_go_eq. apply slide_sound. Qed.
