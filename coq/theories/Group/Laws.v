(* The statement of C01 / C06 over the discrete-logarithm model, collected. *)
From Coq Require Import ZArith Znumtheory List Lia Ring.
From Kyber Require Import Algebra.Zq Algebra.Grp.
Local Open Scope Z_scope.

Section Laws.
  Variable q : Z.
  Notation F := (zq q).
  Add Ring zqR3 : (zq_ring q).

  Lemma of_Z_qm1 : of_Z q (q - 1) = zopp (zone : F).
  Proof.
    apply zq_eq. unfold zopp, zone. rewrite !val_of_Z.
    replace (q - 1) with (-1 + 1 * q) by lia. rewrite Z_mod_plus_full.
    replace (- (1 mod q)) with (0 - 1 mod q) by lia. rewrite Zminus_mod_idemp_r. reflexivity.
  Qed.

  Theorem group_laws : forall (P Q R : F) (a b : F),
      padd P pzero = P /\ padd pzero P = P /\
      padd P (pneg P) = pzero /\ psub P P = pzero /\
      padd P Q = padd Q P /\
      padd (padd P Q) R = padd P (padd Q R) /\
      psub P Q = padd P (pneg Q) /\
      smul (zadd a b) P = padd (smul a P) (smul b P) /\
      smul a (padd P Q) = padd (smul a P) (smul a Q) /\
      smul a (smul b P) = smul (zmul a b) P /\
      smul zzero P = pzero /\ smul zone P = P /\
      smul (of_Z q (q - 1)) P = pneg P /\
      smul a pzero = pzero.
  Proof.
    intros. rewrite of_Z_qm1. unfold padd, psub, pneg, smul, pzero. repeat split; ring.
  Qed.

  Theorem pairing_laws : forall (P P' Q Q' : F) (a b : F),
      pair (smul a P) (smul b Q) = smul (zmul a b) (pair P Q) /\
      pair (padd P P') Q = padd (pair P Q) (pair P' Q) /\
      pair P (padd Q Q') = padd (pair P Q) (pair P Q') /\
      pair pzero Q = pzero /\ pair P pzero = pzero.
  Proof. intros. unfold pair, padd, smul, pzero. repeat split; ring. Qed.

  (* ValidatePairing in its four coded formulations *)
  Definition validate_two (p1 p2 i1 i2 : F) : bool := peqb (pair p1 p2) (pair i1 i2).          (* bn256 / bn254 *)
  Definition validate_prod_inv (p1 p2 i1 i2 : F) : bool :=                                     (* kilic: e(p1,p2) * e(i1,i2)^-1 = 1 *)
    peqb (psub (pair p1 p2) (pair i1 i2)) pzero.
  Definition validate_neg_g1 (p1 p2 i1 i2 : F) : bool :=                                       (* gnark: e(p1,p2) * e(-i1,i2) = 1 *)
    peqb (padd (pair p1 p2) (pair (pneg i1) i2)) pzero.
  Definition validate_frac (p1 p2 i1 i2 : F) : bool :=                                         (* circl: prod e(.,.)^(+1,-1) = 1 *)
    peqb (padd (smul zone (pair p1 p2)) (smul (zopp zone) (pair i1 i2))) pzero.

  Lemma sub_zero_iff (x y : F) : zsub x y = zzero <-> x = y.
  Proof.
    split; intros H.
    - assert (E : x = zadd (zsub x y) y) by ring. rewrite E, H. ring.
    - subst. ring.
  Qed.

  Theorem validate_iff : forall p1 p2 i1 i2,
      (validate_two p1 p2 i1 i2 = true <-> pair p1 p2 = pair i1 i2) /\
      validate_prod_inv p1 p2 i1 i2 = validate_two p1 p2 i1 i2 /\
      validate_neg_g1 p1 p2 i1 i2 = validate_two p1 p2 i1 i2 /\
      validate_frac p1 p2 i1 i2 = validate_two p1 p2 i1 i2.
  Proof.
    intros. unfold validate_two, validate_prod_inv, validate_neg_g1, validate_frac, peqb.
    split; [apply zeqb_eq|].
    assert (K : forall x y : F, zeqb (zsub x y) zzero = zeqb x y).
    { intros x y. destruct (zeqb_spec q x y) as [Exy|N]; destruct (zeqb_spec q (zsub x y) zzero) as [E|E]; auto.
      - exfalso. apply E. subst y. ring.
      - exfalso. apply N. apply sub_zero_iff. exact E. }
    repeat split.
    - unfold psub, pzero. apply K.
    - unfold padd, pneg, pair, pzero. rewrite <- (K (zmul p1 p2) (zmul i1 i2)). f_equal; ring.
    - unfold padd, smul, pair, pzero. rewrite <- (K (zmul p1 p2) (zmul i1 i2)). f_equal; ring.
  Qed.

  (* non-degeneracy: the pairing of the two generators is not the identity *)
  Theorem pair_nondegenerate : 1 < q -> pair (pbase : F) pbase <> pzero.
  Proof.
    intros Hq H. apply zq_eq_iff in H. unfold pair, pbase, pzero, zmul, zone, zzero in H.
    rewrite !val_of_Z in H. rewrite Z.mod_1_l in H by lia. rewrite Z.mul_1_l, Z.mod_1_l, Z.mod_0_l in H by lia.
    discriminate.
  Qed.
End Laws.
