(* Completeness of the twisted Edwards addition law  -x^2 + y^2 = 1 + d x^2 y^2
   (a = -1) over an arbitrary field in which -1 = i^2 is a square and d is NOT
   a square (Bernstein-Birkner-Joye-Lange-Peters 2008, Thm 3.3; Hisil et al.
   2008): for two points ON the curve the denominators 1 +- d x1 x2 y1 y2 of
   the affine law never vanish.  Consequently every premise about
   denominators of CurveRef/EdwardsAlg.v disappears: the points of the curve
   with the affine law form a commutative group (closure, identity, inverse,
   ASSOCIATIVITY, commutativity, no side conditions), the extended-coordinate
   unified addition of CurveRef/Edwards.v (add-2008-hwcd-3, what ge.go
   implements) computes it for ALL pairs of curve points, and the
   double-and-add ladder [ed_mul] computes the scalar multiple.

   The argument (worked out for a = i^2):  let e = d x1 x2 y1 y2 and suppose
   e^2 = 1 (this covers e = 1 and e = -1).  Then x1 y1 x2 y2 <> 0 and
       (i x1 +- e y1)^2 = d x1^2 y1^2 (i x2 +- y2)^2         (both signs),
   a polynomial consequence of the two curve equations, e^2 = 1 and i^2 = -1.
   If i x2 + y2 <> 0 or i x2 - y2 <> 0 this exhibits d as a square.  If both
   vanish then y2^2 - x2^2 = (i x2 + y2)(i x2 - y2) + y2((i x2 + y2) - (i x2 - y2)) = 0,
   so the curve equation gives d x2^2 y2^2 = -1 = i^2 and d = (i/(x2 y2))^2.
   No assumption on the characteristic and no decidable equality is needed
   (the goal is a negation, so the case analysis is done under double negation).
   No axioms. *)
From Coq Require Import Field Ring ZArith List Lia.
From Kyber Require Import CurveRef.Field CurveRef.Edwards CurveRef.EdwardsAlg.
Import ListNotations.

Section Complete.
  Variable F : Type.
  Variables (zero one : F) (add mul sub : F -> F -> F) (opp : F -> F) (div : F -> F -> F) (inv : F -> F).
  Hypothesis Fth : field_theory zero one add mul sub opp div inv eq.
  Add Field FFc : Fth.
  Local Notation "0" := zero. Local Notation "1" := one.
  Local Infix "+" := add. Local Infix "*" := mul. Local Infix "-" := sub. Local Infix "/" := div.
  Local Notation "- x" := (opp x).
  Variables d i : F.
  Hypothesis i_sq : i * i = opp 1.
  Hypothesis d_nonsquare : forall z, z * z <> d.

  Local Notation on_curve := (on_curve F one add mul sub d).
  Local Notation aff_add := (aff_add F one add mul sub div d).
  Local Notation aff_neg := (aff_neg F opp).

  Let one_neq_0 : 1 <> 0 := F_1_neq_0 Fth.

  Lemma isq1 : i * i + 1 = 0.
  Proof. rewrite i_sq. ring. Qed.

  Lemma curve_res x y : on_curve x y -> y*y - x*x - 1 - d*(x*x)*(y*y) = 0.
  Proof. unfold EdwardsAlg.on_curve. intros H. apply (sub_eq_0 F zero one add mul sub opp div inv Fth) in H. rewrite <- H. ring. Qed.

  (* the heart: e^2 = 1 is impossible for points on the curve *)
  Lemma eps_sq_not_one x1 y1 x2 y2 :
    on_curve x1 y1 -> on_curve x2 y2 ->
    (d*x1*x2*y1*y2) * (d*x1*x2*y1*y2) = 1 -> False.
  Proof.
    intros H1 H2. set (e := d*x1*x2*y1*y2). intros He.
    apply curve_res in H1. apply curve_res in H2.
    pose proof isq1 as I1.
    assert (Nx1 : x1 <> 0). { intros E. apply one_neq_0. rewrite <- He. unfold e. rewrite E. ring. }
    assert (Ny1 : y1 <> 0). { intros E. apply one_neq_0. rewrite <- He. unfold e. rewrite E. ring. }
    assert (Nx2 : x2 <> 0). { intros E. apply one_neq_0. rewrite <- He. unfold e. rewrite E. ring. }
    assert (Ny2 : y2 <> 0). { intros E. apply one_neq_0. rewrite <- He. unfold e. rewrite E. ring. }
    assert (He1 : e*e - 1 = 0) by (rewrite He; ring).
    assert (IdP : (i*x1 + e*y1)*(i*x1 + e*y1) = d*(x1*x1)*(y1*y1)*((i*x2 + y2)*(i*x2 + y2))).
    { apply (eq_of_sub_0 F zero one add mul sub opp div inv Fth).
      transitivity ((i*i + 1)*(x1*x1 - d*(x1*x1)*(y1*y1)*(x2*x2))
                    + (y1*y1 - x1*x1 - 1 - d*(x1*x1)*(y1*y1))
                    + (e*e - 1)*(y1*y1 - 1)
                    - d*(x1*x1)*(y1*y1)*(y2*y2 - x2*x2 - 1 - d*(x2*x2)*(y2*y2))); [unfold e; ring|].
      rewrite I1, H1, H2, He1. ring. }
    assert (IdM : (i*x1 - e*y1)*(i*x1 - e*y1) = d*(x1*x1)*(y1*y1)*((i*x2 - y2)*(i*x2 - y2))).
    { apply (eq_of_sub_0 F zero one add mul sub opp div inv Fth).
      transitivity ((i*i + 1)*(x1*x1 - d*(x1*x1)*(y1*y1)*(x2*x2))
                    + (y1*y1 - x1*x1 - 1 - d*(x1*x1)*(y1*y1))
                    + (e*e - 1)*(y1*y1 - 1)
                    - d*(x1*x1)*(y1*y1)*(y2*y2 - x2*x2 - 1 - d*(x2*x2)*(y2*y2))); [unfold e; ring|].
      rewrite I1, H1, H2, He1. ring. }
    (* i x2 + y2 <> 0 would make d a square *)
    assert (nP : i*x2 + y2 <> 0 -> False).
    { intros HP. apply (d_nonsquare ((i*x1 + e*y1) / (x1*y1*(i*x2 + y2)))).
      transitivity (((i*x1 + e*y1)*(i*x1 + e*y1)) / ((x1*y1*(i*x2 + y2))*(x1*y1*(i*x2 + y2)))).
      - field. repeat split; assumption.
      - rewrite IdP. field. repeat split; assumption. }
    assert (nM : i*x2 - y2 <> 0 -> False).
    { intros HM. apply (d_nonsquare ((i*x1 - e*y1) / (x1*y1*(i*x2 - y2)))).
      transitivity (((i*x1 - e*y1)*(i*x1 - e*y1)) / ((x1*y1*(i*x2 - y2))*(x1*y1*(i*x2 - y2)))).
      - field. repeat split; assumption.
      - rewrite IdM. field. repeat split; assumption. }
    (* both vanish: d x2^2 y2^2 = -1 = i^2 *)
    apply nP. intros HP. apply nM. intros HM.
    assert (Hyx : y2*y2 - x2*x2 = 0).
    { transitivity ((i*x2 + y2)*(i*x2 - y2) + y2*((i*x2 + y2) - (i*x2 - y2)) - (i*i + 1)*(x2*x2)); [ring|].
      rewrite HP, HM, I1. ring. }
    assert (Hd : d*((x2*y2)*(x2*y2)) = i*i).
    { apply (eq_of_sub_0 F zero one add mul sub opp div inv Fth).
      transitivity ((y2*y2 - x2*x2) - (y2*y2 - x2*x2 - 1 - d*(x2*x2)*(y2*y2)) - (i*i + 1)); [ring|].
      rewrite H2, Hyx, I1. ring. }
    apply (d_nonsquare (i / (x2*y2))).
    transitivity ((i*i) / ((x2*y2)*(x2*y2))).
    - field. split; assumption.
    - rewrite <- Hd. field. split; assumption.
  Qed.

  (* BBJLP 2008 Thm 3.3 for a = -1: the addition law is complete *)
  Theorem edwards_denominators_nonzero : forall x1 y1 x2 y2,
      on_curve x1 y1 -> on_curve x2 y2 ->
      1 + d*x1*x2*y1*y2 <> 0 /\ 1 - d*x1*x2*y1*y2 <> 0.
  Proof.
    intros x1 y1 x2 y2 H1 H2. split; intros E; apply (eps_sq_not_one x1 y1 x2 y2 H1 H2).
    - transitivity ((1 + d*x1*x2*y1*y2) * (d*x1*x2*y1*y2 - 1) + 1); [ring|]. rewrite E. ring.
    - transitivity (1 - (1 - d*x1*x2*y1*y2) * (1 + d*x1*x2*y1*y2)); [ring|]. rewrite E. ring.
  Qed.

  (* ---------------- the group of curve points, no side conditions ---------------- *)
  Definition on_curve_pt (p : F * F) : Prop := on_curve (fst p) (snd p).

  Lemma on_curve_zero : on_curve_pt (0, 1).
  Proof. unfold on_curve_pt, EdwardsAlg.on_curve. cbn [fst snd]. ring. Qed.

  Lemma on_curve_neg p : on_curve_pt p -> on_curve_pt (aff_neg p).
  Proof.
    destruct p as [x y]. unfold on_curve_pt, EdwardsAlg.aff_neg, EdwardsAlg.on_curve. cbn [fst snd].
    intros H. transitivity (y*y - x*x); [ring|]. rewrite H. ring.
  Qed.

  Theorem edwards_closed_complete p q :
    on_curve_pt p -> on_curve_pt q -> on_curve_pt (aff_add p q).
  Proof.
    destruct p as [x1 y1], q as [x2 y2]. unfold on_curve_pt. cbn [fst snd]. intros H1 H2.
    destruct (edwards_denominators_nonzero x1 y1 x2 y2 H1 H2) as [N1 N2].
    exact (edwards_closed F zero one add mul sub opp div inv Fth d x1 y1 x2 y2 H1 H2 N1 N2).
  Qed.

  Theorem edwards_assoc_complete p q r :
    on_curve_pt p -> on_curve_pt q -> on_curve_pt r ->
    aff_add p (aff_add q r) = aff_add (aff_add p q) r.
  Proof.
    intros Hp Hq Hr.
    pose proof (edwards_closed_complete q r Hq Hr) as Hqr.
    pose proof (edwards_closed_complete p q Hp Hq) as Hpq.
    destruct p as [x1 y1], q as [x2 y2], r as [x3 y3]. unfold on_curve_pt in *. cbn [fst snd] in Hp, Hq, Hr.
    destruct (edwards_denominators_nonzero _ _ _ _ Hq Hr) as [A1 A2].
    destruct (edwards_denominators_nonzero _ _ _ _ Hp Hq) as [B1 B2].
    destruct (edwards_denominators_nonzero _ _ _ _ Hp Hqr) as [O1 O2].
    destruct (edwards_denominators_nonzero _ _ _ _ Hpq Hr) as [O3 O4].
    exact (edwards_assoc F zero one add mul sub opp div inv Fth d x1 y1 x2 y2 x3 y3 Hp Hq Hr A1 A2 B1 B2 O1 O2 O3 O4).
  Qed.

  Theorem edwards_inverse_complete p : on_curve_pt p -> aff_add p (aff_neg p) = (0, 1).
  Proof.
    intros Hp. pose proof (on_curve_neg p Hp) as Hn. destruct p as [x y].
    unfold on_curve_pt, EdwardsAlg.aff_neg in *. cbn [fst snd] in *.
    destruct (edwards_denominators_nonzero _ _ _ _ Hp Hn) as [N1 N2].
    exact (edwards_inverse F zero one add mul sub opp div inv Fth d x y Hp N1 N2).
  Qed.

  Lemma edwards_identity_r p : aff_add p (0, 1) = p.
  Proof. destruct p as [x y]. apply (edwards_identity F zero one add mul sub opp div inv Fth). Qed.

  Lemma edwards_identity_l p : aff_add (0, 1) p = p.
  Proof. rewrite (edwards_comm F zero one add mul sub opp div inv Fth). apply edwards_identity_r. Qed.

  (* the statement asked for: a commutative group, every law without premises
     other than membership in the curve *)
  Theorem edwards_group_complete :
    on_curve_pt (0, 1) /\
    (forall p q, on_curve_pt p -> on_curve_pt q -> on_curve_pt (aff_add p q)) /\
    (forall p, on_curve_pt p -> on_curve_pt (aff_neg p)) /\
    (forall p q r, on_curve_pt p -> on_curve_pt q -> on_curve_pt r ->
                   aff_add p (aff_add q r) = aff_add (aff_add p q) r) /\
    (forall p, aff_add p (0, 1) = p) /\
    (forall p, aff_add (0, 1) p = p) /\
    (forall p, on_curve_pt p -> aff_add p (aff_neg p) = (0, 1)) /\
    (forall p, on_curve_pt p -> aff_add (aff_neg p) p = (0, 1)) /\
    (forall p q, aff_add p q = aff_add q p).
  Proof.
    split; [exact on_curve_zero|]. split; [exact edwards_closed_complete|].
    split; [exact on_curve_neg|]. split; [exact edwards_assoc_complete|].
    split; [exact edwards_identity_r|]. split; [exact edwards_identity_l|].
    split; [exact edwards_inverse_complete|].
    split; [|exact (edwards_comm F zero one add mul sub opp div inv Fth d)].
    intros p Hp. rewrite (edwards_comm F zero one add mul sub opp div inv Fth). apply edwards_inverse_complete. exact Hp.
  Qed.

  (* ------------- extended coordinates: unified addition is complete ------------- *)
  Hypothesis two_neq_0 : 1 + 1 <> 0.
  Local Notation aops := (aops F zero one add mul sub opp).
  Local Notation aK := (aK F zero add d).
  Local Notation represents := (represents F zero mul).

  (* P is an extended-coordinate representation of a point of the curve *)
  Definition ext_valid (P : ept (F := F)) (a : F * F) : Prop :=
    on_curve_pt a /\ represents P (fst a) (snd a).

  Theorem ext_add_complete P Q a b :
    ext_valid P a -> ext_valid Q b -> ext_valid (ed_add aops aK P Q) (aff_add a b).
  Proof.
    intros [Ca Ra] [Cb Rb]. split; [apply edwards_closed_complete; assumption|].
    destruct a as [x1 y1], b as [x2 y2]. unfold on_curve_pt in *. cbn [fst snd] in *.
    destruct (edwards_denominators_nonzero _ _ _ _ Ca Cb) as [N1 N2].
    exact (ext_add_refines F zero one add mul sub opp div inv Fth d two_neq_0 P Q x1 y1 x2 y2 Ra Rb N1 N2).
  Qed.

  Lemma ext_zero_valid : ext_valid (ed_zero aops) (0, 1).
  Proof.
    split; [exact on_curve_zero|]. unfold EdwardsAlg.represents, ed_zero. cbn [eX eY eZ eT f0 f1 EdwardsAlg.aops fst snd].
    split; [exact one_neq_0|]. repeat split; ring.
  Qed.

  (* ------------- scalar multiplication: the ladder computes k.P ------------- *)
  (* n-fold sum in the affine group *)
  Fixpoint aff_nmul (n : nat) (a : F * F) : F * F :=
    match n with O => (0, 1) | S k => aff_add a (aff_nmul k a) end.

  Lemma aff_nmul_on_curve n a : on_curve_pt a -> on_curve_pt (aff_nmul n a).
  Proof.
    intros Ha. induction n as [|n IH]; cbn [aff_nmul]; [exact on_curve_zero|].
    apply edwards_closed_complete; assumption.
  Qed.

  Lemma aff_nmul_add m n a : on_curve_pt a ->
    aff_nmul (m + n) a = aff_add (aff_nmul m a) (aff_nmul n a).
  Proof.
    intros Ha. induction m as [|m IH]; cbn [aff_nmul Nat.add].
    - symmetry. apply edwards_identity_l.
    - rewrite IH. apply edwards_assoc_complete; [exact Ha|apply aff_nmul_on_curve; exact Ha..].
  Qed.

  Definition bits_nat (acc : nat) (bits : list bool) : nat :=
    fold_left (fun v (b : bool) => (if b then S (v + v) else v + v)%nat) bits acc.

  Lemma ed_mul_bits_spec P a : ext_valid P a -> forall bits acc h,
    ext_valid acc (aff_nmul h a) ->
    ext_valid (ed_mul_bits aops aK bits P acc) (aff_nmul (bits_nat h bits) a).
  Proof.
    intros HP. pose proof (proj1 HP) as Ca.
    induction bits as [|b t IH]; intros acc h Hacc; cbn [ed_mul_bits bits_nat fold_left]; [exact Hacc|].
    apply IH.
    assert (Hd : ext_valid (ed_add aops aK acc acc) (aff_nmul (h + h) a)).
    { rewrite aff_nmul_add by exact Ca. apply ext_add_complete; exact Hacc. }
    destruct b; [|exact Hd].
    cbn [aff_nmul]. rewrite (edwards_comm F zero one add mul sub opp div inv Fth).
    apply ext_add_complete; assumption.
  Qed.

  Lemma bits_nat_pos : forall p acc,
    bits_nat 0 (pos_bits p acc) = bits_nat (Pos.to_nat p) acc.
  Proof.
    induction p as [p IH|p IH|]; intros acc; cbn [pos_bits].
    - rewrite IH. unfold bits_nat. cbn [fold_left]. f_equal. rewrite Pos2Nat.inj_xI. lia.
    - rewrite IH. unfold bits_nat. cbn [fold_left]. f_equal. rewrite Pos2Nat.inj_xO. lia.
    - reflexivity.
  Qed.

  (* [ed_mul] (MSB-first double-and-add over the unified addition) computes the
     k-fold sum, for every integer k (k <= 0 gives the neutral element, as coded) *)
  Theorem ed_mul_spec k P a :
    ext_valid P a -> ext_valid (ed_mul aops aK k P) (aff_nmul (Z.to_nat k) a).
  Proof.
    intros HP. unfold ed_mul. destruct k as [|p|p]; cbn [z_bits Z.to_nat ed_mul_bits aff_nmul];
      try exact ext_zero_valid.
    pose proof (ed_mul_bits_spec P a HP (pos_bits p []) (ed_zero aops) 0%nat ext_zero_valid) as H.
    rewrite bits_nat_pos in H. exact H.
  Qed.

  (* consequences used by the protocols: k.P is on the curve, (m+n).P = m.P + n.P *)
  Corollary ed_mul_on_curve k P a : ext_valid P a ->
    exists b, on_curve_pt b /\ represents (ed_mul aops aK k P) (fst b) (snd b).
  Proof. intros HP. exists (aff_nmul (Z.to_nat k) a). exact (ed_mul_spec k P a HP). Qed.
End Complete.
