(* Ed25519 specifics of the reference curve (CurveRef/Edwards.v) over the
   integers modulo p = 2^255 - 19 (Algebra/Zq.v):

   1. Euler's criterion in zq q for prime q, from Fermat's little theorem
      (Scalar/Fermat.v): squares have a^((q-1)/2) = 1, hence an element with
      d^((q-1)/2) = -1 is a non-square; for q = 5 mod 8 the candidate root
      x0 = u v^3 (u v^7)^((q-5)/8) of u/v satisfies v x0^2 = u or v x0^2 = -u
      whenever u/v is a square (the step kyber's FromBytes relies on).
   2. d = -121665/121666 is a non-square modulo 2^255-19 (computed:
      d^((p-1)/2) = -1), sqrt(-1) = 2^((p-1)/4) squares to -1 (computed).
   3. Hence (EdComplete.v) the twisted Edwards law on the reference curve is
      COMPLETE: all group laws hold for all curve points without side
      conditions, the unified extended-coordinate addition and the
      double-and-add ladder of the reference model are correct for all inputs.
   4. The decoder: [ed_decode] (CurveRef) is [ed25519_decode] (Decode/DecodeSM.v,
      property C04) without the panic outcome; accepted => on the curve; and the
      full ROUND TRIP  decode (encode P) = Some P  for every point of the curve,
      which discharges the square-root premise that Decode/DecodeProofs.v
      (ed25519_roundtrip) left open.

   Inside Section Ed25519 the only hypothesis is [prime ed_p]; the last part of
   the file instantiates it with Algebra/PrimesEd.v (Pocklington certificate),
   giving the premise-free theorems [Ed25519_*].  No axioms. *)
From Coq Require Import ZArith Znumtheory List Bool Lia Ring Field.
From Kyber Require Import Algebra.Zq Scalar.Fermat CurveRef.Field CurveRef.Edwards
  CurveRef.EdwardsAlg CurveRef.EdComplete Decode.DecodeSM Decode.DecodeProofs Decode.DecodeInst.
(* primality of 2^255-19 by a Pocklington certificate; Required, not Imported
   (it defines its own ed_p, convertible with CurveRef.Edwards.ed_p) *)
From Kyber Require Algebra.PrimesEd.
Import ListNotations.
Local Open Scope Z_scope.

(* ------------------------------------------------------------------ *)
(* the CurveRef decoder is the C04 decoder without the (unreachable) panic *)
Section Bridge.
  Context {F : Type} (O : fops F) (K : @edc F).

  Theorem ed_decode_eq s :
    ed_decode O K s = match ed25519_decode O K s with Ok P => Some P | _ => None end.
  Proof.
    unfold ed_decode, ed25519_decode.
    destruct (Nat.eqb (length s) 32) eqn:L; cbn [negb]; [|reflexivity].
    apply Nat.eqb_eq in L.
    assert (B : byte_at s 31 = Some (nth 31 s 0)).
    { unfold byte_at. apply nth_error_nth'. lia. }
    rewrite B. cbv zeta.
    destruct (feqb O _ (f0 O)); [reflexivity|].
    destruct (feqb O _ (f0 O)); reflexivity.
  Qed.

  (* the byte encoding of an extended point only depends on its affine image *)
  Lemma ed_encode_affine P :
    ed_encode O P = ed_encode_xy O (fst (ed_affine O P)) (snd (ed_affine O P)).
  Proof. unfold ed_encode, ed_encode_xy. destruct (ed_affine O P) as [x y]. reflexivity. Qed.
End Bridge.

(* accepted => on the curve, over any commutative ring with a sound equality test
   and sqrtm1^2 = -1 (restatement of DecodeProofs.ed25519_decode_member for the
   CurveRef decoder) *)
Section DecRing.
  Context {F : Type} (O : fops F).
  Hypothesis Rth : ring_theory (f0 O) (f1 O) (fadd O) (fmul O) (fsub O) (fneg O) eq.
  Hypothesis feqb_ok : forall a b, feqb O a b = true -> a = b.
  Variable K : @edc F.
  Hypothesis sqrtm1_ok : fmul O (c_sqrtm1 K) (c_sqrtm1 K) = fneg O (f1 O).
  Add Ring Rr : Rth.

  Theorem ed_decode_on_curve s P :
    ed_decode O K s = Some P ->
    eZ P = f1 O /\ eT P = fmul O (eX P) (eY P) /\
    on_curve F (f1 O) (fadd O) (fmul O) (fsub O) (c_d K) (eX P) (eY P).
  Proof.
    rewrite ed_decode_eq. destruct (ed25519_decode O K s) as [Q| |] eqn:E; try discriminate.
    intros H; inversion H; subst Q; clear H.
    destruct (ed25519_decode_member O Rth feqb_ok K sqrtm1_ok s P E) as (HZ & HT & HC).
    split; [exact HZ|]. split; [exact HT|]. unfold on_curve.
    set (x := eX P) in *. set (y := eY P) in *. set (dd := c_d K) in *.
    transitivity (fsub O (fadd O (fmul O (fneg O (f1 O)) (fmul O x x)) (fmul O y y)) (f0 O)); [ring|].
    rewrite HC. ring.
  Qed.
End DecRing.

(* ------------------------------------------------------------------ *)
(* Euler's criterion and the p = 5 mod 8 square root in zq q *)
Section Euler.
  Variable q : Z.
  Hypothesis q_prime : prime q.
  Add Field zqFe : (zq_field q q_prime).
  Notation Fq := (zq q).
  Let q_ge_2 : 2 <= q := prime_ge_2 q q_prime.

  Lemma iter_S {A} n (f : A -> A) x : Nat.iter (S n) f x = f (Nat.iter n f x).
  Proof. reflexivity. Qed.

  Lemma zpow_mul_base (a b : Fq) e : zpow (zmul a b) e = zmul (zpow a e) (zpow b e).
  Proof.
    unfold zpow. induction (Z.to_nat e) as [|n IH]; [unfold Nat.iter; cbn [nat_rect]; ring|]. rewrite !iter_S, IH. ring.
  Qed.

  Lemma zpow_one e : zpow (zone : Fq) e = zone.
  Proof. unfold zpow. induction (Z.to_nat e) as [|n IH]; [reflexivity|]. rewrite iter_S, IH. ring. Qed.

  Lemma zpow_sq (a : Fq) e : 0 <= e -> zpow (zmul a a) e = zpow a (2 * e).
  Proof. intros He. rewrite zpow_mul_base. replace (2 * e) with (e + e) by lia. rewrite (zpow_add q q_prime) by lia. reflexivity. Qed.

  Lemma zmul_neq_0 (a b : Fq) : a <> zzero -> b <> zzero -> zmul a b <> zzero.
  Proof. intros Ha Hb E. apply (zmul_eq_0 q q_prime) in E. destruct E; contradiction. Qed.

  Lemma zsub_eq_0 (a b : Fq) : zsub a b = zzero -> a = b.
  Proof. intros H. transitivity (zadd (zsub a b) b); [ring|]. rewrite H. ring. Qed.

  Lemma sq_one_cases (t : Fq) : zmul t t = zone -> t = zone \/ t = zopp zone.
  Proof.
    intros H. assert (E : zmul (zsub t zone) (zadd t zone) = zzero).
    { transitivity (zsub (zmul t t) zone); [ring|]. rewrite H. ring. }
    apply (zmul_eq_0 q q_prime) in E. destruct E as [E|E].
    - left. apply zsub_eq_0. exact E.
    - right. transitivity (zsub (zadd t zone) zone); [ring|]. rewrite E. ring.
  Qed.

  Lemma zsq_eq_cases (a b : Fq) : zmul a a = zmul b b -> a = b \/ a = zopp b.
  Proof.
    intros H. assert (E : zmul (zsub a b) (zadd a b) = zzero).
    { transitivity (zsub (zmul a a) (zmul b b)); [ring|]. rewrite H. ring. }
    apply (zmul_eq_0 q q_prime) in E. destruct E as [E|E].
    - left. apply zsub_eq_0. exact E.
    - right. transitivity (zsub (zadd a b) b); [ring|]. rewrite E. ring.
  Qed.

  Hypothesis q_odd : q mod 2 = 1.

  Lemma half_q : 2 * ((q - 1) / 2) = q - 1 /\ 0 < (q - 1) / 2.
  Proof.
    assert (q <> 2) by (intros E; rewrite E in q_odd; discriminate).
    pose proof (Z.div_mod (q - 1) 2 ltac:(lia)) as D.
    assert (M : (q - 1) mod 2 = 0).
    { rewrite <- Zminus_mod_idemp_l, q_odd. reflexivity. }
    split; [lia|]. apply Z.div_str_pos. lia.
  Qed.

  Lemma two_neq_0_zq : zadd zone zone <> (zzero : Fq).
  Proof.
    assert (q <> 2) by (intros E; rewrite E in q_odd; discriminate).
    intros E. apply (f_equal val) in E. unfold zadd, zone, zzero in E. rewrite !val_of_Z in E.
    rewrite Z.mod_1_l, Z.mod_0_l in E by lia. change (1 + 1) with 2 in E. rewrite Z.mod_small in E by lia. discriminate.
  Qed.

  Lemma minus_one_neq_one : zopp zone <> (zone : Fq).
  Proof.
    intros E. apply two_neq_0_zq. transitivity (zsub zone (zopp zone) : Fq); [ring|]. rewrite E. ring.
  Qed.

  (* Euler, the direction that only needs Fermat: a non-zero square has
     Legendre symbol 1 *)
  Theorem euler_square (a : Fq) : a <> zzero -> zpow (zmul a a) ((q - 1) / 2) = zone.
  Proof.
    intros Ha. destruct half_q as [H2 Hpos]. rewrite zpow_sq by lia. rewrite H2.
    apply (fermat_little q q_prime). exact Ha.
  Qed.

  Theorem euler_nonsquare (d : Fq) :
    zpow d ((q - 1) / 2) = zopp zone -> forall z, zmul z z <> d.
  Proof.
    intros Hd z E. destruct half_q as [H2 Hpos]. subst d.
    destruct (zeqb_spec q z zzero) as [Z0|Nz].
    - subst z. replace (zmul zzero zzero) with (zzero : Fq) in Hd by ring.
      rewrite (zpow_zero q q_prime) in Hd by lia.
      apply (zone_neq_zzero q q_prime). transitivity (zopp (zopp zone) : Fq); [ring|]. rewrite <- Hd. ring.
    - rewrite (euler_square z Nz) in Hd. apply minus_one_neq_one. symmetry. exact Hd.
  Qed.

  (* the square root for q = 8k+5, in the shape FromBytes computes it:
     u = x^2 v with v <> 0  ==>  v x0^2 = u  or  v x0^2 = -u *)
  Variable k : Z.
  Hypothesis q_8k5 : q = 8 * k + 5.

  Theorem candidate_root (x u v : Fq) :
    zmul (zmul x x) v = u -> v <> zzero ->
    let v3 := zmul (zmul v v) v in
    let uv7 := zmul (zmul (zmul v3 v3) v) u in
    let x0 := zmul (zmul (zpow uv7 k) v3) u in
    let vxx := zmul (zmul x0 x0) v in
    zsub vxx u = zzero \/ zadd vxx u = zzero.
  Proof.
    intros Hu Hv. cbv zeta. assert (Hk : 0 <= k) by lia.
    destruct (zeqb_spec q x zzero) as [X0|Nx].
    - left. subst x. assert (U0 : u = zzero) by (rewrite <- Hu; ring). rewrite U0. ring.
    - set (a := zmul x (zmul (zmul v v) (zmul v v))).
      assert (Na : a <> zzero) by (unfold a; repeat apply zmul_neq_0; assumption).
      assert (Ew : zmul (zmul (zmul (zmul (zmul v v) v) (zmul (zmul v v) v)) v) u = zmul a a)
        by (unfold a; rewrite <- Hu; ring).
      rewrite Ew, zpow_mul_base.
      pose proof (fermat_little q q_prime a Na) as Fl.
      replace (q - 1) with (k + k + k + k + k + k + k + k + 4) in Fl by lia.
      rewrite !(zpow_add q q_prime) in Fl by lia.
      change (zpow a 4) with (zmul a (zmul a (zmul a (zmul a zone)))) in Fl.
      set (g := zpow a k) in *.
      set (t := zmul (zmul (zmul g g) (zmul g g)) (zmul a a)).
      assert (Ht : zmul t t = zone) by (rewrite <- Fl; unfold t; ring).
      assert (Evxx : zmul (zmul (zmul (zmul (zmul g g) (zmul (zmul v v) v)) u)
                               (zmul (zmul (zmul g g) (zmul (zmul v v) v)) u)) v = zmul t u).
      { unfold t. rewrite <- Ew. ring. }
      rewrite Evxx. destruct (sq_one_cases t Ht) as [T|T]; rewrite T; [left|right]; ring.
  Qed.

  (* the generic exponentiation of CurveRef/Field.v over zq is zpow *)
  Definition zq_fops : fops Fq := zq_ops q.

  Lemma fpow_pos_zpow (a : Fq) : forall p, fpow_pos zq_fops a p = zpow a (Zpos p).
  Proof.
    induction p as [p IH|p IH|]; cbn [fpow_pos].
    - rewrite IH. replace (Zpos p~1) with (Zpos p + Zpos p + 1) by lia.
      rewrite (zpow_succ q), (zpow_add q q_prime) by lia. reflexivity.
    - rewrite IH. replace (Zpos p~0) with (Zpos p + Zpos p) by lia.
      rewrite (zpow_add q q_prime) by lia. reflexivity.
    - change (zpow a 1) with (zmul a zone). ring.
  Qed.

  Lemma fpow_zpow (a : Fq) e : fpow zq_fops a e = zpow a e.
  Proof. destruct e as [|p|p]; cbn [fpow]; [reflexivity|apply fpow_pos_zpow|reflexivity]. Qed.

  (* Fermat inversion a^(q-2) is the field inverse *)
  Lemma zpow_qm2 (a : Fq) : a <> zzero -> zmul a (zpow a (q - 2)) = zone.
  Proof.
    intros Ha. assert (q <> 2) by (intros E; rewrite E in q_odd; discriminate).
    rewrite <- (zpow_succ q) by lia. replace (q - 2 + 1) with (q - 1) by lia.
    apply (fermat_little q q_prime). exact Ha.
  Qed.
End Euler.

(* ------------------------------------------------------------------ *)
(* Ed25519 *)
Lemma ed_p_8k5 : ed_p = 8 * ((ed_p - 5) / 8) + 5.
Proof. vm_compute. reflexivity. Qed.

Lemma ed_p_lt_255 : ed_p < 2 ^ 255.
Proof. vm_compute. reflexivity. Qed.

(* d = -121665/121666 *)
Lemma ed_d_spec : zmul (c_d KEd) (of_Z ed_p ed_d_den) = of_Z ed_p ed_d_num.
Proof. apply zq_eq. vm_compute. reflexivity. Qed.

(* Legendre symbol of d, computed with the square-and-multiply [fpow] *)
Lemma ed_d_legendre : fpow OEd (c_d KEd) ((ed_p - 1) / 2) = zopp zone.
Proof. apply zq_eq. vm_compute. reflexivity. Qed.

Section Ed25519.
  Hypothesis ed_prime : prime ed_p.
  Add Field zqFed : (zq_field ed_p ed_prime).
  Notation Fp := (zq ed_p).
  Notation d := (c_d KEd).
  Notation sm1 := (c_sqrtm1 KEd).
  Local Notation curve := (on_curve Fp zone zadd zmul zsub d).
  Local Notation padd := (aff_add Fp zone zadd zmul zsub zdiv d).
  Local Notation pneg := (aff_neg Fp zopp).

  Lemma sm1_sq : zmul sm1 sm1 = zopp (zone : Fp).
  Proof. exact KEd_sqrtm1. Qed.

  (* d is a non-square modulo 2^255-19 *)
  Theorem ed_d_nonsquare : forall z : Fp, zmul z z <> d.
  Proof.
    apply (euler_nonsquare ed_p ed_prime ed_p_odd).
    rewrite <- (fpow_zpow ed_p ed_prime). exact ed_d_legendre.
  Qed.

  (* ---------- completeness of the reference curve ---------- *)
  Theorem ed25519_denominators_nonzero : forall x1 y1 x2 y2 : Fp,
      curve x1 y1 -> curve x2 y2 ->
      zadd zone (zmul (zmul (zmul (zmul d x1) x2) y1) y2) <> zzero /\
      zsub zone (zmul (zmul (zmul (zmul d x1) x2) y1) y2) <> zzero.
  Proof.
    exact (edwards_denominators_nonzero Fp zzero zone zadd zmul zsub zopp zdiv zinv
             (zq_field ed_p ed_prime) d sm1 sm1_sq ed_d_nonsquare).
  Qed.

  Definition ed_on_curve_pt (a : Fp * Fp) : Prop := curve (fst a) (snd a).

  Theorem ed25519_group_complete :
    ed_on_curve_pt (zzero, zone) /\
    (forall p q, ed_on_curve_pt p -> ed_on_curve_pt q -> ed_on_curve_pt (padd p q)) /\
    (forall p, ed_on_curve_pt p -> ed_on_curve_pt (pneg p)) /\
    (forall p q r, ed_on_curve_pt p -> ed_on_curve_pt q -> ed_on_curve_pt r ->
                   padd p (padd q r) = padd (padd p q) r) /\
    (forall p, padd p (zzero, zone) = p) /\
    (forall p, padd (zzero, zone) p = p) /\
    (forall p, ed_on_curve_pt p -> padd p (pneg p) = (zzero, zone)) /\
    (forall p, ed_on_curve_pt p -> padd (pneg p) p = (zzero, zone)) /\
    (forall p q, padd p q = padd q p).
  Proof.
    exact (edwards_group_complete Fp zzero zone zadd zmul zsub zopp zdiv zinv
             (zq_field ed_p ed_prime) d sm1 sm1_sq ed_d_nonsquare).
  Qed.

  (* the executable reference operations (CurveRef/Edwards.v over zq_ops) *)
  Lemma two_neq_0_ed : zadd zone zone <> (zzero : Fp).
  Proof. apply (two_neq_0_zq ed_p ed_prime ed_p_odd). Qed.

  Definition ed_valid (P : @ept Fp) (a : Fp * Fp) : Prop :=
    ed_on_curve_pt a /\ represents Fp zzero zmul P (fst a) (snd a).

  Lemma c_2d_KEd : c_2d KEd = zadd d d.
  Proof. unfold KEd at 1. unfold ed_consts, ed_2d. cbn [c_2d]. reflexivity. Qed.

  Lemma ed_add_aops P Q :
    ed_add OEd KEd P Q = ed_add (aops Fp zzero zone zadd zmul zsub zopp) (aK Fp zzero zadd d) P Q.
  Proof.
    unfold ed_add. rewrite c_2d_KEd. unfold OEd, zq_ops, aops, aK. cbn [fadd fsub fmul c_2d]. reflexivity.
  Qed.

  Lemma ed_mul_bits_aops bits P : forall acc,
    ed_mul_bits OEd KEd bits P acc =
    ed_mul_bits (aops Fp zzero zone zadd zmul zsub zopp) (aK Fp zzero zadd d) bits P acc.
  Proof.
    induction bits as [|b t IH]; intros acc; cbn [ed_mul_bits]; [reflexivity|].
    rewrite !ed_add_aops. apply IH.
  Qed.

  (* unified addition: correct for ALL pairs of curve points (doubling, inverse
     pairs, the neutral element and points of small order included) *)
  Theorem ed25519_add_complete P Q a b :
    ed_valid P a -> ed_valid Q b -> ed_valid (ed_add OEd KEd P Q) (padd a b).
  Proof.
    intros HP HQ. rewrite ed_add_aops.
    exact (ext_add_complete Fp zzero zone zadd zmul zsub zopp zdiv zinv
             (zq_field ed_p ed_prime) d sm1 sm1_sq ed_d_nonsquare two_neq_0_ed P Q a b HP HQ).
  Qed.

  Definition ed_nmul : nat -> Fp * Fp -> Fp * Fp :=
    aff_nmul Fp zzero zone zadd zmul zsub zdiv d.

  (* double-and-add: [ed_mul k P] represents the k-fold sum of the affine point *)
  Theorem ed25519_mul_spec k P a :
    ed_valid P a -> ed_valid (ed_mul OEd KEd k P) (ed_nmul (Z.to_nat k) a).
  Proof.
    intros HP. unfold ed_mul. rewrite ed_mul_bits_aops.
    exact (ed_mul_spec Fp zzero zone zadd zmul zsub zopp zdiv zinv
             (zq_field ed_p ed_prime) d sm1 sm1_sq ed_d_nonsquare two_neq_0_ed k P a HP).
  Qed.

  (* ---------- decoder ---------- *)
  (* the two forms of the curve equation: EdwardsAlg.on_curve and the ratio
     form v x^2 = u that FromBytes checks *)
  Lemma curve_ratio (x y : Fp) :
    curve x y <-> zmul (zmul x x) (zadd (zmul (zmul y y) d) zone) = zsub (zmul y y) zone.
  Proof.
    unfold on_curve. split; intros H.
    - transitivity (zsub (zadd (zmul (zmul x x) (zadd (zmul (zmul y y) d) zone)) (zsub (zmul y y) (zmul x x)))
                         (zadd zone (zmul (zmul (zmul (zmul d x) x) y) y))); [rewrite H; ring|ring].
    - transitivity (zadd (zsub (zmul y y) zone)
                         (zsub (zadd zone (zmul (zmul (zmul (zmul d x) x) y) y))
                               (zmul (zmul x x) (zadd (zmul (zmul y y) d) zone)))); [ring|rewrite H; ring].
  Qed.

  (* v = d y^2 + 1 never vanishes (d non-square, -1 square) *)
  Lemma ed_v_nonzero (y : Fp) : zadd (zmul (zmul y y) d) zone <> zzero.
  Proof.
    intros E.
    assert (Hd : zmul d (zmul y y) = zmul sm1 sm1).
    { rewrite sm1_sq. transitivity (zsub (zadd (zmul (zmul y y) d) zone) zone); [ring|]. rewrite E. ring. }
    assert (Ny : y <> zzero).
    { intros Y0. rewrite Y0 in Hd. apply (minus_one_neq_one ed_p ed_prime ed_p_odd).
      rewrite <- sm1_sq, <- Hd. transitivity (zzero : Fp); [ring|].
      exfalso. apply (zone_neq_zzero ed_p ed_prime).
      transitivity (zopp (zmul sm1 sm1)); [rewrite sm1_sq; ring|]. rewrite <- Hd. ring. }
    apply (ed_d_nonsquare (zdiv sm1 y)).
    transitivity (zdiv (zmul sm1 sm1) (zmul y y)); [field; exact Ny|].
    rewrite <- Hd. field. exact Ny.
  Qed.

  Lemma OEd_range (a : Fp) : 0 <= ftoZ OEd a < ed_p.
  Proof. apply val_range, ed_p_pos. Qed.

  Lemma OEd_of_to (a : Fp) : fofZ OEd (ftoZ OEd a) = a.
  Proof. apply zq_eq. cbn. apply val_mod. Qed.

  (* the square-root premise of DecodeProofs.ed25519_roundtrip: the candidate
     root passes one of the two tests whenever (x, y) is on the curve *)
  Theorem ed25519_decode_accepts (x y : Fp) :
    curve x y -> ed25519_decode OEd KEd (ed_encode_xy OEd x y) <> Err.
  Proof.
    intros Hc. apply curve_ratio in Hc.
    destruct (encode_fields OEd OEd_range x y) as (Hl & Hb & Hs & Hy).
    unfold ed25519_decode. rewrite Hl. change (negb (Nat.eqb 32 32)) with false. cbv iota.
    rewrite Hb, Hy, OEd_of_to. cbv zeta.
    pose proof (candidate_root ed_p ed_prime ((ed_p - 5) / 8) ed_p_8k5 x
                  (zsub (zmul y y) zone) (zadd (zmul (zmul y y) d) zone) Hc (ed_v_nonzero y)) as C.
    cbv zeta in C. rewrite <- (fpow_zpow ed_p ed_prime) in C.
    destruct C as [C|C].
    - assert (T : feqb OEd
          (fsub OEd (fmul OEd (fsq OEd (fmul OEd (fmul OEd (fpow OEd
             (fmul OEd (fmul OEd (fsq OEd (fmul OEd (fsq OEd (fadd OEd (fmul OEd (fsq OEd y) d) (f1 OEd))) (fadd OEd (fmul OEd (fsq OEd y) d) (f1 OEd))))
                 (fadd OEd (fmul OEd (fsq OEd y) d) (f1 OEd))) (fsub OEd (fsq OEd y) (f1 OEd)))
             ((ed_p - 5) / 8))
             (fmul OEd (fsq OEd (fadd OEd (fmul OEd (fsq OEd y) d) (f1 OEd))) (fadd OEd (fmul OEd (fsq OEd y) d) (f1 OEd))))
             (fsub OEd (fsq OEd y) (f1 OEd))))
             (fadd OEd (fmul OEd (fsq OEd y) d) (f1 OEd)))
             (fsub OEd (fsq OEd y) (f1 OEd))) (f0 OEd) = true) by (apply zeqb_eq; exact C).
      rewrite T. discriminate.
    - destruct (feqb OEd _ (f0 OEd)); [discriminate|].
      assert (T : feqb OEd
          (fadd OEd (fmul OEd (fsq OEd (fmul OEd (fmul OEd (fpow OEd
             (fmul OEd (fmul OEd (fsq OEd (fmul OEd (fsq OEd (fadd OEd (fmul OEd (fsq OEd y) d) (f1 OEd))) (fadd OEd (fmul OEd (fsq OEd y) d) (f1 OEd))))
                 (fadd OEd (fmul OEd (fsq OEd y) d) (f1 OEd))) (fsub OEd (fsq OEd y) (f1 OEd)))
             ((ed_p - 5) / 8))
             (fmul OEd (fsq OEd (fadd OEd (fmul OEd (fsq OEd y) d) (f1 OEd))) (fadd OEd (fmul OEd (fsq OEd y) d) (f1 OEd))))
             (fsub OEd (fsq OEd y) (f1 OEd))))
             (fadd OEd (fmul OEd (fsq OEd y) d) (f1 OEd)))
             (fsub OEd (fsq OEd y) (f1 OEd))) (f0 OEd) = true) by (apply zeqb_eq; exact C).
      rewrite T. discriminate.
  Qed.

  (* ROUND TRIP, C04 decoder on affine encodings *)
  Theorem ed25519_xy_roundtrip (x y : Fp) :
    curve x y -> ed25519_decode OEd KEd (ed_encode_xy OEd x y) = Ok (ed_of_xy OEd x y).
  Proof.
    intros Hc. pose proof (ed25519_decode_accepts x y Hc) as Hne. apply curve_ratio in Hc.
    exact (proj2 (ed25519_roundtrip_Zp ed_prime x y Hc (ed_v_nonzero y)) Hne).
  Qed.

  (* the affine image computed by [ed_affine] (inversion by Fermat) *)
  Lemma ed_affine_represents P x y :
    represents Fp zzero zmul P x y -> ed_affine OEd P = (x, y).
  Proof.
    intros (NZ & EX & EY & _). unfold ed_affine, finv.
    change (fpow OEd) with (fpow (zq_fops ed_p)). rewrite (fpow_zpow ed_p ed_prime).
    pose proof (zpow_qm2 ed_p ed_prime ed_p_odd (eZ P) NZ) as I.
    change (fmul OEd) with (@zmul ed_p). rewrite EX, EY. f_equal.
    - transitivity (zmul x (zmul (eZ P) (zpow (eZ P) (ed_p - 2)))); [ring|]. rewrite I. ring.
    - transitivity (zmul y (zmul (eZ P) (zpow (eZ P) (ed_p - 2)))); [ring|]. rewrite I. ring.
  Qed.

  (* ROUND TRIP for the reference model: for EVERY extended-coordinate
     representation P (any Z <> 0) of a curve point (x, y),
     decode (encode P) is the normalised representation (x, y, 1, x y) *)
  Theorem ed25519_point_roundtrip P x y :
    curve x y -> represents Fp zzero zmul P x y ->
    ed_decode OEd KEd (ed_encode OEd P) = Some (mkept x y zone (zmul x y)).
  Proof.
    intros Hc HR. rewrite ed_decode_eq, ed_encode_affine, (ed_affine_represents P x y HR). cbn [fst snd].
    rewrite (ed25519_xy_roundtrip x y Hc). reflexivity.
  Qed.

  (* in particular decode (encode P) represents the same point as P, and a
     normalised point is a fixed point *)
  Corollary ed25519_point_roundtrip_normal x y :
    curve x y ->
    ed_decode OEd KEd (ed_encode OEd (mkept x y zone (zmul x y))) = Some (mkept x y zone (zmul x y)).
  Proof.
    intros Hc. apply ed25519_point_roundtrip; [exact Hc|].
    unfold represents. cbn [eX eY eZ eT]. split; [apply (zone_neq_zzero ed_p ed_prime)|]. repeat split; ring.
  Qed.

  (* decoding and re-encoding: an accepted string decodes to a point whose
     encoding decodes to the same point (idempotence of decode . encode) *)
  Corollary ed25519_decode_reencode s P :
    ed_decode OEd KEd s = Some P -> ed_decode OEd KEd (ed_encode OEd P) = Some P.
  Proof.
    intros H.
    destruct (ed_decode_on_curve OEd (zq_ops_ring ed_p) (zq_ops_eqb ed_p) KEd KEd_sqrtm1 s P H) as (HZ & HT & HC).
    destruct P as [X Y Z T]. cbn [eX eY eZ eT] in *. subst Z T.
    apply (ed25519_point_roundtrip_normal X Y). exact HC.
  Qed.

  (* results of the group operations of the reference model always encode to
     strings the decoder accepts (no valid point is ever refused) *)
  Corollary ed25519_mul_encodes k P a :
    ed_valid P a ->
    exists b, ed_on_curve_pt b /\
      ed_decode OEd KEd (ed_encode OEd (ed_mul OEd KEd k P)) = Some (mkept (fst b) (snd b) zone (zmul (fst b) (snd b))).
  Proof.
    intros HP. destruct (ed25519_mul_spec k P a HP) as [Cb Rb].
    exists (ed_nmul (Z.to_nat k) a). split; [exact Cb|].
    apply ed25519_point_roundtrip; assumption.
  Qed.

  (* the encoding is injective on the curve: two representations encode to the
     same 32 bytes iff they represent the same affine point *)
  Theorem ed25519_encode_inj P Q a b :
    ed_valid P a -> ed_valid Q b -> (ed_encode OEd P = ed_encode OEd Q <-> a = b).
  Proof.
    intros [Ca Ra] [Cb Rb]. destruct a as [x1 y1], b as [x2 y2]. unfold ed_on_curve_pt in *. cbn [fst snd] in *.
    split.
    - intros E. pose proof (ed25519_point_roundtrip P x1 y1 Ca Ra) as H1.
      pose proof (ed25519_point_roundtrip Q x2 y2 Cb Rb) as H2.
      rewrite E, H2 in H1. inversion H1. reflexivity.
    - intros E. inversion E; subst x2 y2.
      rewrite !ed_encode_affine, (ed_affine_represents P x1 y1 Ra), (ed_affine_represents Q x1 y1 Rb). reflexivity.
  Qed.

  (* the projective equality test decides equality of the represented points *)
  Theorem ed25519_eqb_spec P Q x1 y1 x2 y2 :
    represents Fp zzero zmul P x1 y1 -> represents Fp zzero zmul Q x2 y2 ->
    (ed_eqb OEd P Q = true <-> (x1, y1) = (x2, y2)).
  Proof.
    intros (NZ1 & EX1 & EY1 & _) (NZ2 & EX2 & EY2 & _). unfold ed_eqb.
    change (feqb OEd) with (@zeqb ed_p). change (fmul OEd) with (@zmul ed_p).
    rewrite andb_true_iff, !zeqb_eq, EX1, EY1, EX2, EY2.
    assert (NZ : zmul (eZ P) (eZ Q) <> zzero) by (apply (zmul_neq_0 ed_p ed_prime); assumption).
    split.
    - intros [Hx Hy]. f_equal.
      + apply (zsub_eq_0 ed_p ed_prime).
        assert (E : zmul (zsub x1 x2) (zmul (eZ P) (eZ Q)) = zzero).
        { transitivity (zsub (zmul (zmul x1 (eZ P)) (eZ Q)) (zmul (zmul x2 (eZ Q)) (eZ P))); [ring|]. rewrite Hx. ring. }
        apply (zmul_eq_0 ed_p ed_prime) in E. destruct E as [E|E]; [exact E|contradiction].
      + apply (zsub_eq_0 ed_p ed_prime).
        assert (E : zmul (zsub y1 y2) (zmul (eZ P) (eZ Q)) = zzero).
        { transitivity (zsub (zmul (zmul y1 (eZ P)) (eZ Q)) (zmul (zmul y2 (eZ Q)) (eZ P))); [ring|]. rewrite Hy. ring. }
        apply (zmul_eq_0 ed_p ed_prime) in E. destruct E as [E|E]; [exact E|contradiction].
    - intros E. inversion E; subst x2 y2. split; ring.
  Qed.

  (* scalar multiples add up: (m+n).a = m.a + n.a in the affine group *)
  Theorem ed_nmul_add m n a : ed_on_curve_pt a ->
    ed_nmul (m + n) a = padd (ed_nmul m a) (ed_nmul n a).
  Proof.
    exact (aff_nmul_add Fp zzero zone zadd zmul zsub zopp zdiv zinv
             (zq_field ed_p ed_prime) d sm1 sm1_sq ed_d_nonsquare m n a).
  Qed.

  (* ---------- the base point ---------- *)
  (* B is obtained by decoding y = 4/5 with the even root; it is a valid point
     (by the decoder theorem - no computation), so every k.B of the reference
     model is the k-fold affine sum and is accepted by the decoder *)
  Lemma ed_base_valid :
    ed_valid (ed_base OEd KEd) (eX (ed_base OEd KEd), eY (ed_base OEd KEd)).
  Proof.
    unfold ed_base. destruct (ed_decode OEd KEd _) as [B|] eqn:E.
    - destruct (ed_decode_on_curve OEd (zq_ops_ring ed_p) (zq_ops_eqb ed_p) KEd KEd_sqrtm1 _ B E) as (HZ & HT & HC).
      split; [exact HC|]. unfold represents. cbn [fst snd]. rewrite HZ, HT.
      change (f1 OEd) with (@zone ed_p). change (fmul OEd) with (@zmul ed_p).
      split; [apply (zone_neq_zzero ed_p ed_prime)|]. repeat split; ring.
    - split.
      + exact (on_curve_zero Fp zzero zone zadd zmul zsub zopp zdiv zinv (zq_field ed_p ed_prime) d).
      + unfold represents, ed_zero. cbn [eX eY eZ eT fst snd].
        change (f1 OEd) with (@zone ed_p). change (f0 OEd) with (@zzero ed_p).
        split; [apply (zone_neq_zzero ed_p ed_prime)|]. repeat split; ring.
  Qed.

  Corollary ed25519_base_mul_spec k :
    ed_valid (ed_mul OEd KEd k (ed_base OEd KEd))
             (ed_nmul (Z.to_nat k) (eX (ed_base OEd KEd), eY (ed_base OEd KEd))).
  Proof. apply ed25519_mul_spec. exact ed_base_valid. Qed.
End Ed25519.

(* the base point is the RFC 8032 one: y = 4/5, x even and non-zero, Z = 1 (computed) *)
Lemma ed_base_spec :
  zmul (eY (ed_base OEd KEd)) (of_Z ed_p ed_By_den) = of_Z ed_p ed_By_num /\
  val (eX (ed_base OEd KEd)) mod 2 = 0 /\ val (eX (ed_base OEd KEd)) <> 0 /\
  val (eZ (ed_base OEd KEd)) = 1.
Proof.
  split; [apply zq_eq; vm_compute; reflexivity|].
  split; [vm_compute; reflexivity|]. split; [vm_compute; discriminate|vm_compute; reflexivity].
Qed.

(* ------------------------------------------------------------------ *)
(* premise-free statements: prime (2^255-19) is a theorem (Algebra/PrimesEd.v) *)
Lemma ed_p_prime : prime ed_p.
Proof. exact PrimesEd.prime_ed_p. Qed.

Notation EdF := (zq ed_p).
Notation Ed_curve := (on_curve EdF zone zadd zmul zsub (c_d KEd)).
Notation Ed_padd := (aff_add EdF zone zadd zmul zsub zdiv (c_d KEd)).
Notation Ed_pneg := (aff_neg EdF zopp).
Notation Ed_repr := (represents EdF zzero zmul).

Theorem Ed25519_d_nonsquare : forall z : EdF, zmul z z <> c_d KEd.
Proof. exact (ed_d_nonsquare ed_p_prime). Qed.

(* the addition law of the reference curve is complete *)
Theorem Ed25519_complete : forall x1 y1 x2 y2 : EdF,
    Ed_curve x1 y1 -> Ed_curve x2 y2 ->
    zadd zone (zmul (zmul (zmul (zmul (c_d KEd) x1) x2) y1) y2) <> zzero /\
    zsub zone (zmul (zmul (zmul (zmul (c_d KEd) x1) x2) y1) y2) <> zzero.
Proof. exact (ed25519_denominators_nonzero ed_p_prime). Qed.

(* the curve points form a commutative group under the affine law *)
Theorem Ed25519_group :
    ed_on_curve_pt (zzero, zone) /\
    (forall p q, ed_on_curve_pt p -> ed_on_curve_pt q -> ed_on_curve_pt (Ed_padd p q)) /\
    (forall p, ed_on_curve_pt p -> ed_on_curve_pt (Ed_pneg p)) /\
    (forall p q r, ed_on_curve_pt p -> ed_on_curve_pt q -> ed_on_curve_pt r ->
                   Ed_padd p (Ed_padd q r) = Ed_padd (Ed_padd p q) r) /\
    (forall p, Ed_padd p (zzero, zone) = p) /\
    (forall p, Ed_padd (zzero, zone) p = p) /\
    (forall p, ed_on_curve_pt p -> Ed_padd p (Ed_pneg p) = (zzero, zone)) /\
    (forall p, ed_on_curve_pt p -> Ed_padd (Ed_pneg p) p = (zzero, zone)) /\
    (forall p q, Ed_padd p q = Ed_padd q p).
Proof. exact (ed25519_group_complete ed_p_prime). Qed.

(* the reference model's extended-coordinate addition and ladder *)
Theorem Ed25519_add_complete P Q a b :
  ed_valid P a -> ed_valid Q b -> ed_valid (ed_add OEd KEd P Q) (Ed_padd a b).
Proof. exact (ed25519_add_complete ed_p_prime P Q a b). Qed.

Theorem Ed25519_mul_spec k P a :
  ed_valid P a -> ed_valid (ed_mul OEd KEd k P) (ed_nmul (Z.to_nat k) a).
Proof. exact (ed25519_mul_spec ed_p_prime k P a). Qed.

Theorem Ed25519_nmul_add m n a : ed_on_curve_pt a ->
  ed_nmul (m + n) a = Ed_padd (ed_nmul m a) (ed_nmul n a).
Proof. exact (ed_nmul_add ed_p_prime m n a). Qed.

Theorem Ed25519_base_valid :
  ed_valid (ed_base OEd KEd) (eX (ed_base OEd KEd), eY (ed_base OEd KEd)).
Proof. exact (ed_base_valid ed_p_prime). Qed.

Theorem Ed25519_base_mul_spec k :
  ed_valid (ed_mul OEd KEd k (ed_base OEd KEd))
           (ed_nmul (Z.to_nat k) (eX (ed_base OEd KEd), eY (ed_base OEd KEd))).
Proof. exact (ed25519_base_mul_spec ed_p_prime k). Qed.

(* decoder *)
Theorem Ed25519_decode_accepts (x y : EdF) :
  Ed_curve x y -> ed25519_decode OEd KEd (ed_encode_xy OEd x y) <> Err.
Proof. exact (ed25519_decode_accepts ed_p_prime x y). Qed.

Theorem Ed25519_xy_roundtrip (x y : EdF) :
  Ed_curve x y -> ed25519_decode OEd KEd (ed_encode_xy OEd x y) = Ok (ed_of_xy OEd x y).
Proof. exact (ed25519_xy_roundtrip ed_p_prime x y). Qed.

Theorem Ed25519_point_roundtrip P (x y : EdF) :
  Ed_curve x y -> Ed_repr P x y ->
  ed_decode OEd KEd (ed_encode OEd P) = Some (mkept x y zone (zmul x y)).
Proof. exact (ed25519_point_roundtrip ed_p_prime P x y). Qed.

Theorem Ed25519_decode_reencode s P :
  ed_decode OEd KEd s = Some P -> ed_decode OEd KEd (ed_encode OEd P) = Some P.
Proof. exact (ed25519_decode_reencode ed_p_prime s P). Qed.

Theorem Ed25519_encode_inj P Q a b :
  ed_valid P a -> ed_valid Q b -> (ed_encode OEd P = ed_encode OEd Q <-> a = b).
Proof. exact (ed25519_encode_inj ed_p_prime P Q a b). Qed.

Theorem Ed25519_eqb_spec P Q (x1 y1 x2 y2 : EdF) :
  Ed_repr P x1 y1 -> Ed_repr Q x2 y2 -> (ed_eqb OEd P Q = true <-> (x1, y1) = (x2, y2)).
Proof. exact (ed25519_eqb_spec ed_p_prime P Q x1 y1 x2 y2). Qed.

Theorem Ed25519_mul_encodes k P a :
  ed_valid P a ->
  exists b, ed_on_curve_pt b /\
    ed_decode OEd KEd (ed_encode OEd (ed_mul OEd KEd k P)) = Some (mkept (fst b) (snd b) zone (zmul (fst b) (snd b))).
Proof. exact (ed25519_mul_encodes ed_p_prime k P a). Qed.

(* ------------------------------------------------------------------ *)
(* the statements property C04 left open (props/C04.v:
   C04_ed25519_roundtrip_Zp_partial "FULL STATEMENT NOT PROVED" and the two
   premises of DecodeInst.edv_accepts_only_curve_points), in C04's phrasing *)
Theorem Ed25519_roundtrip_C04 : forall x y : zq ed_p,
    fmul OEd (fmul OEd x x) (fadd OEd (fmul OEd (fmul OEd y y) (c_d KEd)) (f1 OEd)) = fsub OEd (fmul OEd y y) (f1 OEd) ->
    ed25519_decode OEd KEd (ed_encode_xy OEd x y) = Ok (ed_of_xy OEd x y).
Proof.
  intros x y H. apply Ed25519_xy_roundtrip. apply (curve_ratio ed_p_prime). exact H.
Qed.

Lemma OEd_finv_ok : forall a, a <> f0 OEd -> fmul OEd a (finv OEd a) = f1 OEd.
Proof.
  intros a Ha. unfold finv. change (fpow OEd) with (fpow (zq_fops ed_p)).
  rewrite (fpow_zpow ed_p ed_p_prime). exact (zpow_qm2 ed_p ed_p_prime ed_p_odd a Ha).
Qed.

Add Ring zqRed : (zq_ring ed_p).

Lemma OEd_denominator_nonzero :
  forall y, fsub OEd (ed_a OEd) (fmul OEd (c_d KEd) (fmul OEd y y)) <> f0 OEd.
Proof.
  intros y E. apply (ed_v_nonzero ed_p_prime y).
  change (zsub (zopp zone) (zmul (c_d KEd) (zmul y y)) = (zzero : zq ed_p)) in E.
  transitivity (zopp (zsub (zopp zone) (zmul (c_d KEd) (zmul y y)))).
  - ring.
  - rewrite E. ring.
Qed.

(* the vartime Edwards decoder accepts only curve points - no premises left *)
Theorem Ed25519_edv_accepts_only_curve_points s P :
  edv_decode OEd KEd s = Ok P -> ed_on_curve OEd (ed_a OEd) (c_d KEd) P.
Proof. exact (edv_accepts_only_curve_points s P OEd_finv_ok OEd_denominator_nonzero). Qed.
