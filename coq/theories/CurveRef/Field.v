(* Field operations as a record, so that the curve formulas are written once
   and can be instantiated (a) with BigZ arithmetic modulo p to RUN the
   reference model fast (Bignums; primitive 63-bit integers), and (b) with an
   abstract field to PROVE algebraic facts with [field]. *)
From Coq Require Import ZArith List.
From Bignums Require Import BigZ.
Import ListNotations.

Record fops (F : Type) := mkfops {
  f0 : F; f1 : F;
  fadd : F -> F -> F; fsub : F -> F -> F; fmul : F -> F -> F; fneg : F -> F;
  feqb : F -> F -> bool;
  fofZ : Z -> F; ftoZ : F -> Z
}.
Arguments f0 {F} _. Arguments f1 {F} _. Arguments fadd {F} _ _ _. Arguments fsub {F} _ _ _.
Arguments fmul {F} _ _ _. Arguments fneg {F} _ _. Arguments feqb {F} _ _ _.
Arguments fofZ {F} _ _. Arguments ftoZ {F} _ _.

Section Pow.
  Context {F : Type} (O : fops F).
  Fixpoint fpow_pos (x : F) (e : positive) : F :=
    match e with
    | xH => x
    | xO e' => let y := fpow_pos x e' in fmul O y y
    | xI e' => let y := fpow_pos x e' in fmul O x (fmul O y y)
    end.
  Definition fpow (x : F) (e : Z) : F :=
    match e with Zpos e' => fpow_pos x e' | _ => f1 O end.
  Definition fsq (x : F) := fmul O x x.
  Definition fdbl (x : F) := fadd O x x.
End Pow.

(* BigZ modulo p, canonical representatives *)
Definition bz_ops (p : Z) : fops BigZ.t :=
  let bp := BigZ.of_Z p in
  mkfops BigZ.t BigZ.zero BigZ.one
    (fun a b => BigZ.modulo (BigZ.add a b) bp)
    (fun a b => BigZ.modulo (BigZ.sub a b) bp)
    (fun a b => BigZ.modulo (BigZ.mul a b) bp)
    (fun a => BigZ.modulo (BigZ.opp a) bp)
    BigZ.eqb
    (fun z => BigZ.modulo (BigZ.of_Z z) bp)
    BigZ.to_Z.

(* plain Z modulo p (slow; used to cross-check the BigZ instance on samples) *)
Definition z_ops (p : Z) : fops Z :=
  mkfops Z 0%Z 1%Z
    (fun a b => ((a + b) mod p)%Z) (fun a b => ((a - b) mod p)%Z)
    (fun a b => ((a * b) mod p)%Z) (fun a => ((- a) mod p)%Z)
    Z.eqb (fun z => (z mod p)%Z) (fun z => z).

(* bytes *)
Local Open Scope Z_scope.
Fixpoint le_bytes (n : nat) (v : Z) : list Z :=
  match n with O => [] | S k => (v mod 256) :: le_bytes k (v / 256) end.
Definition be_bytes (n : nat) (v : Z) : list Z := rev (le_bytes n v).
Fixpoint le_decode (bs : list Z) : Z :=
  match bs with [] => 0 | b :: t => b + 256 * le_decode t end.
Definition be_decode (bs : list Z) : Z := le_decode (rev bs).

(* bits of a non-negative integer, most significant first *)
Fixpoint pos_bits (p : positive) (acc : list bool) : list bool :=
  match p with xH => true :: acc | xO p' => pos_bits p' (false :: acc) | xI p' => pos_bits p' (true :: acc) end.
Definition z_bits (k : Z) : list bool := match k with Zpos p => pos_bits p [] | _ => [] end.
