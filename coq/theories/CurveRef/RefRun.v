(* Runner for the byte-exact correspondence with the reference curves
   (properties C18, C04, C17). Executed with the BigZ instance. *)
From Coq Require Import ZArith List Bool.
From Bignums Require Import BigZ.
From Kyber Require Import CurveRef.Field CurveRef.Edwards CurveRef.Weierstrass.
Import ListNotations.
Local Open Scope Z_scope.

Fixpoint zl_eqb (a b : list Z) : bool :=
  match a, b with
  | [], [] => true
  | x :: a', y :: b' => (x =? y) && zl_eqb a' b'
  | _, _ => false
  end.

Definition ozl_eqb (a b : option (list Z)) : bool :=
  match a, b with
  | None, None => true
  | Some x, Some y => zl_eqb x y
  | _, _ => false
  end.

Definition curve_of (c : Z) : wparams := if c =? 0 then p256 else if c =? 1 then bn256 else bn254.

(* operations of a program over the Weierstrass reference: operands are pool indices *)
Inductive wop := WAdd (a b : Z) | WSub (a b : Z) | WNeg (a : Z) | WMul (k a : Z).

Inductive case :=
(* k.B must encode to the observed bytes *)
| CEdMul (id : Z) (items : list (Z * list Z))
| CWMul (id : Z) (curve : Z) (items : list (Z * list Z))
(* decoding: observed None = error, Some bytes = re-encoding of the accepted point *)
| CEdDecode (id : Z) (items : list (list Z * option (list Z)))
(* a program over arbitrary curve points given by affine coordinates (checked to be
   on the curve): the encodings of all pool elements, in order, must be the observed ones *)
| CWProg (id : Z) (curve : Z) (starts : list (Z * Z)) (ops : list wop) (encs : list (list Z)).

Fixpoint zll_eqb (a b : list (list Z)) : bool :=
  match a, b with
  | [], [] => true
  | x :: a', y :: b' => zl_eqb x y && zll_eqb a' b'
  | _, _ => false
  end.

Definition check (c : case) : option Z :=
  match c with
  | CEdMul id items =>
      let O := bz_ops ed_p in let K := ed_consts O in let B := ed_base O K in
      if forallb (fun it => zl_eqb (ed_encode O (ed_mul O K (fst it) B)) (snd it)) items
      then None else Some id
  | CWMul id cv items =>
      let W := curve_of cv in let O := bz_ops (w_p W) in let fa := fofZ O (w_a W) in
      let B := w_base O W in
      let enc := if cv =? 0 then p256_encode O W else bn_encode O W in
      if forallb (fun it => zl_eqb (enc (w_mul O fa (fst it) B)) (snd it)) items
      then None else Some id
  | CEdDecode id items =>
      let O := bz_ops ed_p in let K := ed_consts O in
      if forallb (fun it => ozl_eqb (match ed_decode O K (fst it) with
                                     | Some p => Some (ed_encode O p) | None => None end) (snd it)) items
      then None else Some id
  | CWProg id cv starts ops encs =>
      let W := curve_of cv in let O := bz_ops (w_p W) in let fa := fofZ O (w_a W) in
      let enc := if cv =? 0 then p256_encode O W else bn_encode O W in
      let get := fun (l : list (jpt (F:=_))) (i : Z) => nth (Z.to_nat i) l (w_inf O) in
      let step := fun l o =>
        l ++ [match o with
              | WAdd a b => w_add O fa (get l a) (get l b)
              | WSub a b => w_add O fa (get l a) (w_neg O (get l b))
              | WNeg a => w_neg O (get l a)
              | WMul k a => w_mul O fa k (get l a)
              end] in
      if forallb (fun xy => w_oncurve O W fa (fst xy) (snd xy)) starts
         && zll_eqb (map enc (fold_left step ops
                        (map (fun xy => mkj (fofZ O (fst xy)) (fofZ O (snd xy)) (f1 O)) starts))) encs
      then None else Some id
  end.

Definition mismatches (cs : list case) : list Z :=
  flat_map (fun c => match check c with Some i => [i] | None => [] end) cs.
