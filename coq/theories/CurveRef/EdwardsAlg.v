(* Algebra of the twisted Edwards curve -x^2 + y^2 = 1 + d x^2 y^2 over an
   arbitrary field: the affine addition law is closed on the curve, has (0,1) as
   identity, (-x,y) as inverse and is commutative; the extended-coordinate
   unified addition of CurveRef/Edwards.v (the same formulas ge.go implements
   with cached/completed intermediate forms) computes the affine law; a decoded
   point satisfies the curve equation; the encoding depends only on the affine
   point. Premises are exactly the non-vanishing of the denominators (for the
   Ed25519 parameters these never vanish because d is a non-square; that fact is
   not proved here and stays a premise). *)
From Coq Require Import Field Ring ZArith.
From Kyber Require Import CurveRef.Field CurveRef.Edwards.

Section Alg.
  Variable F : Type.
  Variables (zero one : F) (add mul sub : F -> F -> F) (opp : F -> F) (div : F -> F -> F) (inv : F -> F).
  Hypothesis Fth : field_theory zero one add mul sub opp div inv eq.
  Add Field FF : Fth.
  Local Notation "0" := zero. Local Notation "1" := one.
  Local Infix "+" := add. Local Infix "*" := mul. Local Infix "-" := sub. Local Infix "/" := div.
  Local Notation "- x" := (opp x).
  Variable d : F.

  Definition on_curve (x y : F) : Prop := y*y - x*x = 1 + d*x*x*y*y.

  Definition aff_add (p q : F * F) : F * F :=
    let '(x1, y1) := p in let '(x2, y2) := q in
    ((x1*y2 + y1*x2) / (1 + d*x1*x2*y1*y2), (y1*y2 + x1*x2) / (1 - d*x1*x2*y1*y2)).

  Definition aff_neg (p : F * F) : F * F := (opp (fst p), snd p).

  (* closure: cofactors computed once with a Groebner reduction, checked by [ring] *)
  Lemma closure_identity x1 y1 x2 y2 :
    let T := d*x1*x2*y1*y2 in
    let xn := x1*y2 + y1*x2 in let yn := y1*y2 + x1*x2 in
    let D1 := 1 + T in let D2 := 1 - T in
    let c1 := y1*y1 - x1*x1 - 1 - d*(x1*x1)*(y1*y1) in
    let c2 := y2*y2 - x2*x2 - 1 - d*(x2*x2)*(y2*y2) in
    yn*yn*(D1*D1) - xn*xn*(D2*D2) - (D1*D1)*(D2*D2) - d*(xn*xn)*(yn*yn)
    = ((d*d*d)*(x1*x1)*(x2*x2*x2*x2)*(y1*y1)*(y2*y2*y2*y2) - (d*d)*(x1*x1)*(x2*x2*x2*x2)*(y2*y2*y2*y2) + (d*d)*(x2*x2*x2*x2)*(y1*y1)*(y2*y2*y2*y2) - (d*d)*(x2*x2*x2*x2)*(y2*y2*y2*y2) - d*(x1*x1)*(x2*x2*x2*x2)*(y2*y2) + d*(x1*x1)*(x2*x2)*(y2*y2*y2*y2) + d*(x2*x2*x2*x2)*(y1*y1)*(y2*y2) - (1+1)*d*(x2*x2*x2*x2)*(y2*y2*y2*y2) - d*(x2*x2)*(y1*y1)*(y2*y2*y2*y2) - (1+1)*d*(x2*x2)*(y2*y2) - (1+1)*(x2*x2*x2*x2)*(y2*y2) + (x2*x2*x2*x2) + (1+1)*(x2*x2)*(y2*y2*y2*y2) - (1+1+1+1)*(x2*x2)*(y2*y2) + (y2*y2*y2*y2)) * c1 + (d*(x1*x1*x1*x1)*(x2*x2)*(y2*y2) + (1+1)*d*(x1*x1)*(x2*x2)*(y2*y2) + d*(x2*x2)*(y1*y1*y1*y1)*(y2*y2) - (1+1)*d*(x2*x2)*(y1*y1)*(y2*y2) + d*(x2*x2)*(y2*y2) + (1+1)*(x1*x1)*(x2*x2)*(y2*y2) - (x1*x1)*(x2*x2) + (x1*x1)*(y2*y2) - (1+1)*(x2*x2)*(y1*y1)*(y2*y2) + (x2*x2)*(y1*y1) + (1+1)*(x2*x2)*(y2*y2) - (x2*x2) - (y1*y1)*(y2*y2) + (y2*y2) + (1)) * c2.
  Proof. cbv zeta. ring. Qed.

  Lemma sub_eq_0 a b : a = b -> a - b = 0.
  Proof. intros ->. ring. Qed.
  Lemma eq_of_sub_0 a b : a - b = 0 -> a = b.
  Proof. intros H. assert (E : a = (a - b) + b) by ring. rewrite E, H. ring. Qed.

  Lemma mul_neq_0 a b : a <> 0 -> b <> 0 -> a * b <> 0.
  Proof.
    intros Ha Hb H. apply Hb.
    assert (E : b = inv a * (a * b)) by (field; exact Ha).
    rewrite E, H. ring.
  Qed.

  Theorem edwards_closed : forall x1 y1 x2 y2,
      on_curve x1 y1 -> on_curve x2 y2 ->
      1 + d*x1*x2*y1*y2 <> 0 -> 1 - d*x1*x2*y1*y2 <> 0 ->
      on_curve (fst (aff_add (x1, y1) (x2, y2))) (snd (aff_add (x1, y1) (x2, y2))).
  Proof.
    intros x1 y1 x2 y2 H1 H2 N1 N2. unfold on_curve, aff_add in *. cbn [fst snd].
    pose proof (closure_identity x1 y1 x2 y2) as C. cbv zeta in C.
    assert (E1 : y1*y1 - x1*x1 - 1 - d*(x1*x1)*(y1*y1) = 0) by (apply sub_eq_0 in H1; rewrite <- H1; ring).
    assert (E2 : y2*y2 - x2*x2 - 1 - d*(x2*x2)*(y2*y2) = 0) by (apply sub_eq_0 in H2; rewrite <- H2; ring).
    rewrite E1, E2 in C.
    apply eq_of_sub_0. field_simplify_eq; [|split; assumption].
    match goal with |- ?L = _ => transitivity (
      (y1*y2 + x1*x2)*(y1*y2 + x1*x2)*((1 + d*x1*x2*y1*y2)*(1 + d*x1*x2*y1*y2))
      - (x1*y2 + y1*x2)*(x1*y2 + y1*x2)*((1 - d*x1*x2*y1*y2)*(1 - d*x1*x2*y1*y2))
      - ((1 + d*x1*x2*y1*y2)*(1 + d*x1*x2*y1*y2))*((1 - d*x1*x2*y1*y2)*(1 - d*x1*x2*y1*y2))
      - d*((x1*y2 + y1*x2)*(x1*y2 + y1*x2))*((y1*y2 + x1*x2)*(y1*y2 + x1*x2))) end; [ring|].
    rewrite C. ring.
  Qed.

  Theorem edwards_comm : forall p q, aff_add p q = aff_add q p.
  Proof. intros [x1 y1] [x2 y2]. unfold aff_add. f_equal; f_equal; ring. Qed.

  Theorem edwards_identity : forall x y, aff_add (x, y) (0, 1) = (x, y).
  Proof.
    intros x y. unfold aff_add. f_equal; field.
    - replace (1 + d*x*0*y*1) with 1 by ring. apply (F_1_neq_0 Fth).
    - replace (1 - d*x*0*y*1) with 1 by ring. apply (F_1_neq_0 Fth).
  Qed.

  Theorem edwards_inverse : forall x y, on_curve x y ->
      1 + d*x*(opp x)*y*y <> 0 -> 1 - d*x*(opp x)*y*y <> 0 ->
      aff_add (x, y) (aff_neg (x, y)) = (0, 1).
  Proof.
    intros x y H N1 N2. unfold aff_add, aff_neg, on_curve in *. cbn [fst snd]. f_equal.
    - field. exact N1.
    - apply eq_of_sub_0. field_simplify_eq; [|exact N2].
      apply sub_eq_0 in H. rewrite <- H. ring.
  Qed.

  (* kyber's decoder accepts x with v*x^2 = u where u = y^2 - 1, v = d*y^2 + 1 *)
  Theorem decoded_on_curve : forall x y, (d*(y*y) + 1) * (x*x) = y*y - 1 -> on_curve x y.
  Proof.
    intros x y H. unfold on_curve. apply eq_of_sub_0. apply sub_eq_0 in H.
    transitivity (opp ((d*(y*y) + 1) * (x*x) - (y*y - 1))); [ring|]. rewrite H. ring.
  Qed.


  (* ---------------- associativity of the affine law, wherever it is defined ---------------- *)
  Lemma div_neq_0 a b : b <> 0 -> a / b <> 0 -> a <> 0.
  Proof. intros Hb H E. apply H. rewrite E. field. exact Hb. Qed.

  Section Assoc.
    Variables x1 y1 x2 y2 x3 y3 : F.
    Let c1 := y1*y1 - x1*x1 - 1 - d*(x1*x1)*(y1*y1).
    Let c2 := y2*y2 - x2*x2 - 1 - d*(x2*x2)*(y2*y2).
    Let c3 := y3*y3 - x3*x3 - 1 - d*(x3*x3)*(y3*y3).

    Lemma assoc_x_identity : (x1*(x2*x3 + y2*y3)*(d*x2*x3*y2*y3 + (1)) + y1*(x2*y3 + x3*y2)*(-d*x2*x3*y2*y3 + (1)))*(d*x3*y3*(x1*x2 + y1*y2)*(x1*y2 + x2*y1) + (-d*x1*x2*y1*y2 + (1))*(d*x1*x2*y1*y2 + (1))) - (x3*(x1*x2 + y1*y2)*(d*x1*x2*y1*y2 + (1)) + y3*(x1*y2 + x2*y1)*(-d*x1*x2*y1*y2 + (1)))*(d*x1*y1*(x2*x3 + y2*y3)*(x2*y3 + x3*y2) + (-d*x2*x3*y2*y3 + (1))*(d*x2*x3*y2*y3 + (1))) = ((d*d)*x1*(x2*x2*x2*x2)*(x3*x3)*(y2*y2*y2)*y3 + (d*d)*x1*(x2*x2*x2)*x3*(y2*y2*y2*y2)*(y3*y3) - (d*d)*(x2*x2*x2*x2)*x3*y1*(y2*y2*y2)*(y3*y3) - (d*d)*(x2*x2*x2)*(x3*x3)*y1*(y2*y2*y2*y2)*y3 + d*x1*(x2*x2*x2*x2)*(x3*x3)*y2*y3 + d*x1*(x2*x2*x2)*(x3*x3*x3)*(y2*y2) + d*x1*(x2*x2*x2)*x3*(y2*y2) - d*x1*(x2*x2)*(y2*y2*y2)*(y3*y3*y3) + d*x1*(x2*x2)*(y2*y2*y2)*y3 - d*x1*x2*x3*(y2*y2*y2*y2)*(y3*y3) - d*(x2*x2*x2*x2)*x3*y1*y2*(y3*y3) - d*(x2*x2*x2)*y1*(y2*y2)*(y3*y3*y3) + d*(x2*x2*x2)*y1*(y2*y2)*y3 + d*(x2*x2)*(x3*x3*x3)*y1*(y2*y2*y2) + d*(x2*x2)*x3*y1*(y2*y2*y2) + d*x2*(x3*x3)*y1*(y2*y2*y2*y2)*y3) * c1 + (-(d*d)*(x1*x1)*(x2*x2)*(x3*x3*x3)*y1*y2*(y3*y3) + (d*d)*(x1*x1)*x2*(x3*x3)*y1*(y2*y2)*(y3*y3*y3) + (d*d)*x1*(x2*x2)*(x3*x3)*(y1*y1)*y2*(y3*y3*y3) - (d*d)*x1*x2*(x3*x3*x3)*(y1*y1)*(y2*y2)*(y3*y3) - d*(x1*x1*x1)*(x2*x2)*(x3*x3)*y2*y3 - d*(x1*x1*x1)*x2*(x3*x3*x3)*(y3*y3) - d*(x1*x1*x1)*x2*x3*(y2*y2)*(y3*y3) - d*(x1*x1*x1)*(x3*x3)*y2*(y3*y3*y3) + d*(x1*x1)*(x2*x2)*x3*y1*y2*(y3*y3) + d*(x1*x1)*x2*(x3*x3)*y1*(y2*y2)*y3 - d*(x1*x1)*x2*(x3*x3)*y1*(y3*y3*y3) - d*(x1*x1)*(x3*x3*x3)*y1*y2*(y3*y3) + d*x1*(x2*x2)*(x3*x3)*(y1*y1)*y2*y3 - d*x1*(x2*x2)*(x3*x3)*y2*y3 + d*x1*x2*(x3*x3*x3)*(y1*y1)*(y3*y3) - d*x1*x2*(x3*x3*x3)*(y3*y3) + d*x1*x2*x3*(y1*y1)*(y2*y2)*(y3*y3) - d*x1*x2*x3*(y2*y2)*(y3*y3) + d*x1*(x3*x3)*(y1*y1)*y2*(y3*y3*y3) - d*x1*(x3*x3)*y2*(y3*y3*y3) - d*(x2*x2)*x3*(y1*y1*y1)*y2*(y3*y3) + d*(x2*x2)*x3*y1*y2*(y3*y3) - d*x2*(x3*x3)*(y1*y1*y1)*(y2*y2)*y3 + d*x2*(x3*x3)*(y1*y1*y1)*(y3*y3*y3) + d*x2*(x3*x3)*y1*(y2*y2)*y3 - d*x2*(x3*x3)*y1*(y3*y3*y3) + d*(x3*x3*x3)*(y1*y1*y1)*y2*(y3*y3) - d*(x3*x3*x3)*y1*y2*(y3*y3) - (x1*x1*x1)*x2*(x3*x3*x3) + (x1*x1*x1)*x2*x3*(y3*y3) - (x1*x1*x1)*x2*x3 - (x1*x1*x1)*(x3*x3)*y2*y3 + (x1*x1*x1)*y2*(y3*y3*y3) - (x1*x1*x1)*y2*y3 - (x1*x1)*x2*(x3*x3)*y1*y3 + (x1*x1)*x2*y1*(y3*y3*y3) - (x1*x1)*x2*y1*y3 - (x1*x1)*(x3*x3*x3)*y1*y2 + (x1*x1)*x3*y1*y2*(y3*y3) - (x1*x1)*x3*y1*y2 + x1*x2*(x3*x3*x3)*(y1*y1) - x1*x2*(x3*x3*x3) - x1*x2*x3*(y1*y1)*(y3*y3) + x1*x2*x3*(y1*y1) + x1*x2*x3*(y3*y3) - x1*x2*x3 + x1*(x3*x3)*(y1*y1)*y2*y3 - x1*(x3*x3)*y2*y3 - x1*(y1*y1)*y2*(y3*y3*y3) + x1*(y1*y1)*y2*y3 + x1*y2*(y3*y3*y3) - x1*y2*y3 + x2*(x3*x3)*(y1*y1*y1)*y3 - x2*(x3*x3)*y1*y3 - x2*(y1*y1*y1)*(y3*y3*y3) + x2*(y1*y1*y1)*y3 + x2*y1*(y3*y3*y3) - x2*y1*y3 + (x3*x3*x3)*(y1*y1*y1)*y2 - (x3*x3*x3)*y1*y2 - x3*(y1*y1*y1)*y2*(y3*y3) + x3*(y1*y1*y1)*y2 + x3*y1*y2*(y3*y3) - x3*y1*y2) * c2 + (d*(x1*x1)*(x2*x2)*x3*y1*y2 - d*(x1*x1)*x2*y1*(y2*y2)*y3 - d*x1*(x2*x2)*(y1*y1)*y2*y3 + d*x1*x2*x3*(y1*y1)*(y2*y2) + (x1*x1*x1)*(x2*x2*x2)*x3 + (x1*x1*x1)*(x2*x2)*y2*y3 - (x1*x1*x1)*x2*x3*(y2*y2) + (x1*x1*x1)*x2*x3 - (x1*x1*x1)*(y2*y2*y2)*y3 + (x1*x1*x1)*y2*y3 + (x1*x1)*(x2*x2*x2)*y1*y3 + (x1*x1)*(x2*x2)*x3*y1*y2 - (x1*x1)*x2*y1*(y2*y2)*y3 + (x1*x1)*x2*y1*y3 - (x1*x1)*x3*y1*(y2*y2*y2) + (x1*x1)*x3*y1*y2 - x1*(x2*x2*x2)*x3*(y1*y1) + x1*(x2*x2*x2)*x3 - x1*(x2*x2)*(y1*y1)*y2*y3 + x1*(x2*x2)*y2*y3 + x1*x2*x3*(y1*y1)*(y2*y2) - x1*x2*x3*(y1*y1) - x1*x2*x3*(y2*y2) + x1*x2*x3 + x1*(y1*y1)*(y2*y2*y2)*y3 - x1*(y1*y1)*y2*y3 - x1*(y2*y2*y2)*y3 + x1*y2*y3 - (x2*x2*x2)*(y1*y1*y1)*y3 + (x2*x2*x2)*y1*y3 - (x2*x2)*x3*(y1*y1*y1)*y2 + (x2*x2)*x3*y1*y2 + x2*(y1*y1*y1)*(y2*y2)*y3 - x2*(y1*y1*y1)*y3 - x2*y1*(y2*y2)*y3 + x2*y1*y3 + x3*(y1*y1*y1)*(y2*y2*y2) - x3*(y1*y1*y1)*y2 - x3*y1*(y2*y2*y2) + x3*y1*y2) * c3.
    Proof. unfold c1, c2, c3. ring. Qed.

    Lemma assoc_y_identity : (x1*(x2*y3 + x3*y2)*(-d*x2*x3*y2*y3 + (1)) + y1*(x2*x3 + y2*y3)*(d*x2*x3*y2*y3 + (1)))*(-d*x3*y3*(x1*x2 + y1*y2)*(x1*y2 + x2*y1) + (-d*x1*x2*y1*y2 + (1))*(d*x1*x2*y1*y2 + (1))) - (x3*(x1*y2 + x2*y1)*(-d*x1*x2*y1*y2 + (1)) + y3*(x1*x2 + y1*y2)*(d*x1*x2*y1*y2 + (1)))*(-d*x1*y1*(x2*x3 + y2*y3)*(x2*y3 + x3*y2) + (-d*x2*x3*y2*y3 + (1))*(d*x2*x3*y2*y3 + (1))) = (-(d*d)*x1*(x2*x2*x2*x2)*x3*(y2*y2*y2)*(y3*y3) - (d*d)*x1*(x2*x2*x2)*(x3*x3)*(y2*y2*y2*y2)*y3 + (d*d)*(x2*x2*x2*x2)*(x3*x3)*y1*(y2*y2*y2)*y3 + (d*d)*(x2*x2*x2)*x3*y1*(y2*y2*y2*y2)*(y3*y3) - d*x1*(x2*x2*x2*x2)*x3*y2*(y3*y3) - d*x1*(x2*x2*x2)*(y2*y2)*(y3*y3*y3) + d*x1*(x2*x2*x2)*(y2*y2)*y3 + d*x1*(x2*x2)*(x3*x3*x3)*(y2*y2*y2) + d*x1*(x2*x2)*x3*(y2*y2*y2) + d*x1*x2*(x3*x3)*(y2*y2*y2*y2)*y3 + d*(x2*x2*x2*x2)*(x3*x3)*y1*y2*y3 + d*(x2*x2*x2)*(x3*x3*x3)*y1*(y2*y2) + d*(x2*x2*x2)*x3*y1*(y2*y2) - d*(x2*x2)*y1*(y2*y2*y2)*(y3*y3*y3) + d*(x2*x2)*y1*(y2*y2*y2)*y3 - d*x2*x3*y1*(y2*y2*y2*y2)*(y3*y3)) * c1 + (-(d*d)*(x1*x1)*(x2*x2)*(x3*x3)*y1*y2*(y3*y3*y3) + (d*d)*(x1*x1)*x2*(x3*x3*x3)*y1*(y2*y2)*(y3*y3) + (d*d)*x1*(x2*x2)*(x3*x3*x3)*(y1*y1)*y2*(y3*y3) - (d*d)*x1*x2*(x3*x3)*(y1*y1)*(y2*y2)*(y3*y3*y3) + d*(x1*x1*x1)*(x2*x2)*x3*y2*(y3*y3) + d*(x1*x1*x1)*x2*(x3*x3)*(y2*y2)*y3 - d*(x1*x1*x1)*x2*(x3*x3)*(y3*y3*y3) - d*(x1*x1*x1)*(x3*x3*x3)*y2*(y3*y3) - d*(x1*x1)*(x2*x2)*(x3*x3)*y1*y2*y3 - d*(x1*x1)*x2*(x3*x3*x3)*y1*(y3*y3) - d*(x1*x1)*x2*x3*y1*(y2*y2)*(y3*y3) - d*(x1*x1)*(x3*x3)*y1*y2*(y3*y3*y3) - d*x1*(x2*x2)*x3*(y1*y1)*y2*(y3*y3) + d*x1*(x2*x2)*x3*y2*(y3*y3) - d*x1*x2*(x3*x3)*(y1*y1)*(y2*y2)*y3 + d*x1*x2*(x3*x3)*(y1*y1)*(y3*y3*y3) + d*x1*x2*(x3*x3)*(y2*y2)*y3 - d*x1*x2*(x3*x3)*(y3*y3*y3) + d*x1*(x3*x3*x3)*(y1*y1)*y2*(y3*y3) - d*x1*(x3*x3*x3)*y2*(y3*y3) + d*(x2*x2)*(x3*x3)*(y1*y1*y1)*y2*y3 - d*(x2*x2)*(x3*x3)*y1*y2*y3 + d*x2*(x3*x3*x3)*(y1*y1*y1)*(y3*y3) - d*x2*(x3*x3*x3)*y1*(y3*y3) + d*x2*x3*(y1*y1*y1)*(y2*y2)*(y3*y3) - d*x2*x3*y1*(y2*y2)*(y3*y3) + d*(x3*x3)*(y1*y1*y1)*y2*(y3*y3*y3) - d*(x3*x3)*y1*y2*(y3*y3*y3) - (x1*x1*x1)*x2*(x3*x3)*y3 + (x1*x1*x1)*x2*(y3*y3*y3) - (x1*x1*x1)*x2*y3 - (x1*x1*x1)*(x3*x3*x3)*y2 + (x1*x1*x1)*x3*y2*(y3*y3) - (x1*x1*x1)*x3*y2 - (x1*x1)*x2*(x3*x3*x3)*y1 + (x1*x1)*x2*x3*y1*(y3*y3) - (x1*x1)*x2*x3*y1 - (x1*x1)*(x3*x3)*y1*y2*y3 + (x1*x1)*y1*y2*(y3*y3*y3) - (x1*x1)*y1*y2*y3 + x1*x2*(x3*x3)*(y1*y1)*y3 - x1*x2*(x3*x3)*y3 - x1*x2*(y1*y1)*(y3*y3*y3) + x1*x2*(y1*y1)*y3 + x1*x2*(y3*y3*y3) - x1*x2*y3 + x1*(x3*x3*x3)*(y1*y1)*y2 - x1*(x3*x3*x3)*y2 - x1*x3*(y1*y1)*y2*(y3*y3) + x1*x3*(y1*y1)*y2 + x1*x3*y2*(y3*y3) - x1*x3*y2 + x2*(x3*x3*x3)*(y1*y1*y1) - x2*(x3*x3*x3)*y1 - x2*x3*(y1*y1*y1)*(y3*y3) + x2*x3*(y1*y1*y1) + x2*x3*y1*(y3*y3) - x2*x3*y1 + (x3*x3)*(y1*y1*y1)*y2*y3 - (x3*x3)*y1*y2*y3 - (y1*y1*y1)*y2*(y3*y3*y3) + (y1*y1*y1)*y2*y3 + y1*y2*(y3*y3*y3) - y1*y2*y3) * c2 + (d*(x1*x1)*(x2*x2)*y1*y2*y3 - d*(x1*x1)*x2*x3*y1*(y2*y2) - d*x1*(x2*x2)*x3*(y1*y1)*y2 + d*x1*x2*(y1*y1)*(y2*y2)*y3 + (x1*x1*x1)*(x2*x2*x2)*y3 + (x1*x1*x1)*(x2*x2)*x3*y2 - (x1*x1*x1)*x2*(y2*y2)*y3 + (x1*x1*x1)*x2*y3 - (x1*x1*x1)*x3*(y2*y2*y2) + (x1*x1*x1)*x3*y2 + (x1*x1)*(x2*x2*x2)*x3*y1 + (x1*x1)*(x2*x2)*y1*y2*y3 - (x1*x1)*x2*x3*y1*(y2*y2) + (x1*x1)*x2*x3*y1 - (x1*x1)*y1*(y2*y2*y2)*y3 + (x1*x1)*y1*y2*y3 - x1*(x2*x2*x2)*(y1*y1)*y3 + x1*(x2*x2*x2)*y3 - x1*(x2*x2)*x3*(y1*y1)*y2 + x1*(x2*x2)*x3*y2 + x1*x2*(y1*y1)*(y2*y2)*y3 - x1*x2*(y1*y1)*y3 - x1*x2*(y2*y2)*y3 + x1*x2*y3 + x1*x3*(y1*y1)*(y2*y2*y2) - x1*x3*(y1*y1)*y2 - x1*x3*(y2*y2*y2) + x1*x3*y2 - (x2*x2*x2)*x3*(y1*y1*y1) + (x2*x2*x2)*x3*y1 - (x2*x2)*(y1*y1*y1)*y2*y3 + (x2*x2)*y1*y2*y3 + x2*x3*(y1*y1*y1)*(y2*y2) - x2*x3*(y1*y1*y1) - x2*x3*y1*(y2*y2) + x2*x3*y1 + (y1*y1*y1)*(y2*y2*y2)*y3 - (y1*y1*y1)*y2*y3 - y1*(y2*y2*y2)*y3 + y1*y2*y3) * c3.
    Proof. unfold c1, c2, c3. ring. Qed.
  End Assoc.


  Theorem edwards_assoc : forall x1 y1 x2 y2 x3 y3,
      on_curve x1 y1 -> on_curve x2 y2 -> on_curve x3 y3 ->
      let p23 := aff_add (x2, y2) (x3, y3) in
      let p12 := aff_add (x1, y1) (x2, y2) in
      1 + d*x2*x3*y2*y3 <> 0 -> 1 - d*x2*x3*y2*y3 <> 0 ->
      1 + d*x1*x2*y1*y2 <> 0 -> 1 - d*x1*x2*y1*y2 <> 0 ->
      1 + d*x1*(fst p23)*y1*(snd p23) <> 0 -> 1 - d*x1*(fst p23)*y1*(snd p23) <> 0 ->
      1 + d*(fst p12)*x3*(snd p12)*y3 <> 0 -> 1 - d*(fst p12)*x3*(snd p12)*y3 <> 0 ->
      aff_add (x1, y1) p23 = aff_add p12 (x3, y3).
  Proof.
    intros x1 y1 x2 y2 x3 y3 H1 H2 H3 p23 p12 A1 A2 B1 B2 O1 O2 O3 O4.
    subst p23 p12. unfold aff_add in *. cbn [fst snd] in *.
    assert (E1 : y1*y1 - x1*x1 - 1 - d*(x1*x1)*(y1*y1) = 0) by (unfold on_curve in H1; apply sub_eq_0 in H1; rewrite <- H1; ring).
    assert (E2 : y2*y2 - x2*x2 - 1 - d*(x2*x2)*(y2*y2) = 0) by (unfold on_curve in H2; apply sub_eq_0 in H2; rewrite <- H2; ring).
    assert (E3 : y3*y3 - x3*x3 - 1 - d*(x3*x3)*(y3*y3) = 0) by (unfold on_curve in H3; apply sub_eq_0 in H3; rewrite <- H3; ring).
    (* the outer denominators, cleared of the inner divisions *)
    assert (P1 : d*x1*y1*(x2*x3 + y2*y3)*(x2*y3 + x3*y2) + (- d*x2*x3*y2*y3 + 1)*(d*x2*x3*y2*y3 + 1) <> 0).
    { apply (div_neq_0 _ ((1 + d*x2*x3*y2*y3) * (1 - d*x2*x3*y2*y3))); [apply mul_neq_0; assumption|].
      intros E. apply O1. rewrite <- E. field. split; assumption. }
    assert (P2 : - d*x1*y1*(x2*x3 + y2*y3)*(x2*y3 + x3*y2) + (- d*x2*x3*y2*y3 + 1)*(d*x2*x3*y2*y3 + 1) <> 0).
    { apply (div_neq_0 _ ((1 + d*x2*x3*y2*y3) * (1 - d*x2*x3*y2*y3))); [apply mul_neq_0; assumption|].
      intros E. apply O2. rewrite <- E. field. split; assumption. }
    assert (P3 : d*x3*y3*(x1*x2 + y1*y2)*(x1*y2 + x2*y1) + (- d*x1*x2*y1*y2 + 1)*(d*x1*x2*y1*y2 + 1) <> 0).
    { apply (div_neq_0 _ ((1 + d*x1*x2*y1*y2) * (1 - d*x1*x2*y1*y2))); [apply mul_neq_0; assumption|].
      intros E. apply O3. rewrite <- E. field. split; assumption. }
    assert (P4 : - d*x3*y3*(x1*x2 + y1*y2)*(x1*y2 + x2*y1) + (- d*x1*x2*y1*y2 + 1)*(d*x1*x2*y1*y2 + 1) <> 0).
    { apply (div_neq_0 _ ((1 + d*x1*x2*y1*y2) * (1 - d*x1*x2*y1*y2))); [apply mul_neq_0; assumption|].
      intros E. apply O4. rewrite <- E. field. split; assumption. }
    pose proof (assoc_x_identity x1 y1 x2 y2 x3 y3) as IX. rewrite E1, E2, E3 in IX.
    pose proof (assoc_y_identity x1 y1 x2 y2 x3 y3) as IY. rewrite E1, E2, E3 in IY.
    f_equal.
    - apply eq_of_sub_0.
      transitivity (((x1*(x2*x3 + y2*y3)*(d*x2*x3*y2*y3 + (1)) + y1*(x2*y3 + x3*y2)*(-d*x2*x3*y2*y3 + (1)))*(d*x3*y3*(x1*x2 + y1*y2)*(x1*y2 + x2*y1) + (-d*x1*x2*y1*y2 + (1))*(d*x1*x2*y1*y2 + (1))) - (x3*(x1*x2 + y1*y2)*(d*x1*x2*y1*y2 + (1)) + y3*(x1*y2 + x2*y1)*(-d*x1*x2*y1*y2 + (1)))*(d*x1*y1*(x2*x3 + y2*y3)*(x2*y3 + x3*y2) + (-d*x2*x3*y2*y3 + (1))*(d*x2*x3*y2*y3 + (1)))) / ((d*x1*y1*(x2*x3 + y2*y3)*(x2*y3 + x3*y2) + (-d*x2*x3*y2*y3 + (1))*(d*x2*x3*y2*y3 + (1)))*(d*x3*y3*(x1*x2 + y1*y2)*(x1*y2 + x2*y1) + (-d*x1*x2*y1*y2 + (1))*(d*x1*x2*y1*y2 + (1))))).
      + field. repeat split; assumption.
      + rewrite IX. field. split; assumption.
    - apply eq_of_sub_0.
      transitivity (((x1*(x2*y3 + x3*y2)*(-d*x2*x3*y2*y3 + (1)) + y1*(x2*x3 + y2*y3)*(d*x2*x3*y2*y3 + (1)))*(-d*x3*y3*(x1*x2 + y1*y2)*(x1*y2 + x2*y1) + (-d*x1*x2*y1*y2 + (1))*(d*x1*x2*y1*y2 + (1))) - (x3*(x1*y2 + x2*y1)*(-d*x1*x2*y1*y2 + (1)) + y3*(x1*x2 + y1*y2)*(d*x1*x2*y1*y2 + (1)))*(-d*x1*y1*(x2*x3 + y2*y3)*(x2*y3 + x3*y2) + (-d*x2*x3*y2*y3 + (1))*(d*x2*x3*y2*y3 + (1)))) / ((-d*x1*y1*(x2*x3 + y2*y3)*(x2*y3 + x3*y2) + (-d*x2*x3*y2*y3 + (1))*(d*x2*x3*y2*y3 + (1)))*(-d*x3*y3*(x1*x2 + y1*y2)*(x1*y2 + x2*y1) + (-d*x1*x2*y1*y2 + (1))*(d*x1*x2*y1*y2 + (1))))).
      + field. repeat split; assumption.
      + rewrite IY. field. split; assumption.
  Qed.

  (* ------------- extended coordinates (CurveRef/Edwards.v) refine the affine law ------------- *)
  Definition aops : fops F := mkfops F zero one add sub mul opp (fun _ _ => true) (fun _ => zero) (fun _ => 0%Z).
  Definition aK : edc (F := F) := mkedc d (d + d) zero.

  Definition represents (p : ept (F := F)) (x y : F) : Prop :=
    eZ p <> 0 /\ eX p = x * eZ p /\ eY p = y * eZ p /\ eT p = x * y * eZ p.

  Hypothesis two_neq_0 : 1 + 1 <> 0.

  Theorem ext_add_refines : forall p q x1 y1 x2 y2,
      represents p x1 y1 -> represents q x2 y2 ->
      1 + d*x1*x2*y1*y2 <> 0 -> 1 - d*x1*x2*y1*y2 <> 0 ->
      represents (ed_add aops aK p q) (fst (aff_add (x1, y1) (x2, y2))) (snd (aff_add (x1, y1) (x2, y2))).
  Proof.
    intros [X1 Y1 Z1 T1] [X2 Y2 Z2 T2] x1 y1 x2 y2 (NZ1 & EX1 & EY1 & ET1) (NZ2 & EX2 & EY2 & ET2) N1 N2.
    cbn [eX eY eZ eT] in *. subst X1 Y1 T1 X2 Y2 T2.
    unfold represents, ed_add, aff_add, aops, aK. cbn [eX eY eZ eT fadd fsub fmul c_2d fst snd].
    assert (ZZ : (Z1 + Z1) * Z2 - x1*y1*Z1 * (d + d) * (x2*y2*Z2) = (1+1) * Z1 * Z2 * (1 - d*x1*x2*y1*y2)) by ring.
    assert (ZW : (Z1 + Z1) * Z2 + x1*y1*Z1 * (d + d) * (x2*y2*Z2) = (1+1) * Z1 * Z2 * (1 + d*x1*x2*y1*y2)) by ring.
    split; [|split; [|split]].
    - rewrite ZZ, ZW. repeat apply mul_neq_0; assumption.
    - field; repeat split; assumption.
    - field; repeat split; assumption.
    - field; repeat split; assumption.
  Qed.
End Alg.
