(* What the order / isomorphism theorems of CurveRef/EdOrder.v say about the
   byte strings that the correspondence run (CurveRef/RefRun.v, case CEdMul,
   executed with BigZ arithmetic) computes for k.B:

     the 32 bytes computed for k.B are the encoding of  Ed_phi (of_Z ed_L k),
     the image of the logarithm k mod L of the dlog model (Algebra/Grp.v), and
     two scalars give the same bytes  iff  they are congruent modulo L.

   AXIOMS: unlike EdOrder.v (closed under the global context) the theorems of
   this file speak about the BigZ program, and therefore depend - through
   EdRefine.refrun_mul_bytes and Bignums' BigZ.spec_* lemmas - on the standard
   library's axiomatisation of primitive 63-bit integers (PrimInt63 / Uint63).
   Nothing in EdOrder.v depends on this file. *)
From Coq Require Import ZArith Znumtheory List Bool Lia.
From Bignums Require Import BigZ.
From Kyber Require Import Algebra.Zq Algebra.Grp CurveRef.Field CurveRef.Edwards CurveRef.EdwardsAlg
  CurveRef.EdComplete Decode.DecodeSM Decode.DecodeInst CurveRef.EdDecode CurveRef.EdRefine
  CurveRef.EdOrder.
Import ListNotations.
Local Open Scope Z_scope.

Lemma Ed_phi_of_Z_nonneg k : 0 <= k -> Ed_phi (of_Z ed_L k) = ed_nmul (Z.to_nat k) Ed_B.
Proof.
  intros Hk. destruct ed25519_dlog_model_faithful as (_ & _ & _ & _ & _ & _ & _ & _ & _ & _ & _ & H).
  rewrite H. unfold Ed_zmul. destruct (Z.ltb_spec k 0); [lia|reflexivity].
Qed.

(* the bytes RefRun computes for k.B encode the image of (k mod L) *)
Theorem refrun_mul_bytes_dlog k : 0 <= k ->
  ed_encode OBz (ed_mul OBz KBz k (ed_base OBz KBz)) =
  ed_encode_xy OEd (fst (Ed_phi (of_Z ed_L k))) (snd (Ed_phi (of_Z ed_L k))).
Proof.
  intros Hk. rewrite (Ed_phi_of_Z_nonneg k Hk).
  destruct (refrun_mul_is_group_multiple k) as (_ & E & _). exact E.
Qed.

(* ... hence two non-negative scalars give the same 32 bytes iff they are
   congruent modulo L: on multiples of the base point the executed reference
   model is exactly the dlog model *)
Theorem refrun_mul_bytes_eq_iff k k' : 0 <= k -> 0 <= k' ->
  (ed_encode OBz (ed_mul OBz KBz k (ed_base OBz KBz)) =
   ed_encode OBz (ed_mul OBz KBz k' (ed_base OBz KBz))
   <-> k mod ed_L = k' mod ed_L).
Proof.
  intros Hk Hk'. rewrite !refrun_mul_bytes.
  rewrite (Ed25519_encode_inj _ _ _ _ (Ed25519_base_mul_spec k) (Ed25519_base_mul_spec k')).
  fold Ed_B. rewrite <- (Ed_phi_of_Z_nonneg k Hk), <- (Ed_phi_of_Z_nonneg k' Hk').
  split.
  - intros E. apply Ed_phi_inj in E. apply (f_equal val) in E. rewrite !val_of_Z in E. exact E.
  - intros E. f_equal. apply zq_eq. rewrite !val_of_Z. exact E.
Qed.

(* cross-check by direct execution: the BigZ ladder applied to L and B returns
   the encoding of the neutral element (01 00 ... 00), as Ed25519_L_B predicts *)
Lemma refrun_L_B_bytes :
  ed_encode OBz (ed_mul OBz KBz ed_L (ed_base OBz KBz)) = 1 :: repeat 0 31.
Proof. vm_compute. reflexivity. Qed.

Print Assumptions refrun_mul_bytes_dlog.
Print Assumptions refrun_mul_bytes_eq_iff.
Print Assumptions refrun_L_B_bytes.
