(* Reference arithmetic for edwards25519: -x^2 + y^2 = 1 + d x^2 y^2 over
   GF(2^255-19), extended coordinates (X:Y:Z:T), unified addition
   (add-2008-hwcd-3, complete for a = -1 and non-square d), MSB-first
   double-and-add, the RFC 8032 encoding, and kyber's decoder (FromBytes in
   group/edwards25519/ge.go) transcribed step by step. *)
From Coq Require Import ZArith List Bool.
From Kyber Require Import CurveRef.Field.
Import ListNotations.
Local Open Scope Z_scope.

Definition ed_p : Z := 2 ^ 255 - 19.
Definition ed_L : Z := 2 ^ 252 + 27742317777372353535851937790883648493.
Definition ed_d_num : Z := -121665.
Definition ed_d_den : Z := 121666.
Definition ed_By_num : Z := 4.
Definition ed_By_den : Z := 5.

Section Ed.
  Context {F : Type} (O : fops F).
  Notation "a +f b" := (fadd O a b) (at level 50, left associativity).
  Notation "a -f b" := (fsub O a b) (at level 50, left associativity).
  Notation "a *f b" := (fmul O a b) (at level 40, left associativity).

  Definition finv (x : F) : F := fpow O x (ed_p - 2).
  Definition ed_d : F := fofZ O ed_d_num *f finv (fofZ O ed_d_den).
  Definition ed_2d : F := ed_d +f ed_d.
  Definition sqrt_m1 : F := fpow O (fofZ O 2) ((ed_p - 1) / 4).

  Record ept := mkept { eX : F; eY : F; eZ : F; eT : F }.

  Definition ed_zero : ept := mkept (f0 O) (f1 O) (f1 O) (f0 O).

  (* curve constants, computed once per run and passed around *)
  Record edc := mkedc { c_d : F; c_2d : F; c_sqrtm1 : F }.
  Definition ed_consts : edc := mkedc ed_d ed_2d sqrt_m1.
  Variable K : edc.

  Definition ed_add (p q : ept) : ept :=
    let A := (eY p -f eX p) *f (eY q -f eX q) in
    let B := (eY p +f eX p) *f (eY q +f eX q) in
    let C := eT p *f c_2d K *f eT q in
    let D := (eZ p +f eZ p) *f eZ q in
    let E := B -f A in let Fv := D -f C in let G := D +f C in let H := B +f A in
    mkept (E *f Fv) (G *f H) (Fv *f G) (E *f H).

  Definition ed_neg (p : ept) : ept := mkept (fneg O (eX p)) (eY p) (eZ p) (fneg O (eT p)).

  Fixpoint ed_mul_bits (bits : list bool) (P acc : ept) : ept :=
    match bits with
    | [] => acc
    | b :: t => let d := ed_add acc acc in ed_mul_bits t P (if b then ed_add d P else d)
    end.
  Definition ed_mul (k : Z) (P : ept) : ept := ed_mul_bits (z_bits k) P ed_zero.

  Definition ed_affine (p : ept) : F * F :=
    let zi := finv (eZ p) in (eX p *f zi, eY p *f zi).

  Definition ed_eqb (p q : ept) : bool :=
    feqb O (eX p *f eZ q) (eX q *f eZ p) && feqb O (eY p *f eZ q) (eY q *f eZ p).

  (* 32-byte encoding: y little-endian, sign of x in bit 255 *)
  Definition ed_encode (p : ept) : list Z :=
    let '(x, y) := ed_affine p in
    let yb := le_bytes 32 (ftoZ O y) in
    let sign := ftoZ O x mod 2 in
    firstn 31 yb ++ [nth 31 yb 0 + 128 * sign].

  (* kyber's FromBytes: accepts exactly 32 bytes; y is taken modulo p after
     masking bit 255 (non-canonical y >= p is accepted and reduced) *)
  Definition ed_decode (s : list Z) : option ept :=
    if negb (Nat.eqb (length s) 32) then None else
    let yint := le_decode s mod 2 ^ 255 in
    let sign := nth 31 s 0 / 128 in
    let y := fofZ O yint in
    let one := f1 O in
    let u0 := fsq O y in
    let v := (u0 *f c_d K) +f one in
    let u := u0 -f one in
    let v3 := fsq O v *f v in
    let uv7 := fsq O v3 *f v *f u in
    let x0 := fpow O uv7 ((ed_p - 5) / 8) *f v3 *f u in
    let vxx := fsq O x0 *f v in
    let x1 :=
      if feqb O (vxx -f u) (f0 O) then Some x0
      else if feqb O (vxx +f u) (f0 O) then Some (x0 *f c_sqrtm1 K)
      else None in
    match x1 with
    | None => None
    | Some x =>
        let x' := if Z.eqb (ftoZ O x mod 2) sign then x else fneg O x in
        Some (mkept x' y one (x' *f y))
    end.

  Definition ed_base : ept :=
    let y := fofZ O ed_By_num *f finv (fofZ O ed_By_den) in
    (* x is the positive (even) root *)
    match ed_decode (le_bytes 32 (ftoZ O y)) with
    | Some p => p
    | None => ed_zero
    end.
End Ed.
