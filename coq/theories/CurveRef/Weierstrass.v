(* Reference arithmetic for short Weierstrass curves y^2 = x^3 + a x + b over
   GF(p): P-256 (a = -3) and the BN256 / BN254 G1 curves (a = 0, b = 3),
   Jacobian coordinates with the exceptional cases handled explicitly,
   MSB-first double-and-add, and the encodings kyber uses. *)
From Coq Require Import ZArith List Bool.
From Kyber Require Import CurveRef.Field.
Import ListNotations.
Local Open Scope Z_scope.

Record wparams := mkwp { w_p : Z; w_a : Z; w_b : Z; w_gx : Z; w_gy : Z; w_n : Z }.

Definition p256 : wparams := mkwp
  115792089210356248762697446949407573530086143415290314195533631308867097853951
  (-3)
  41058363725152142129326129780047268409114441015993725554835256314039467401291
  48439561293906451759052585252797914202762949526041747995844080717082404635286
  36134250956749795798585127919587881956611106672985015071877198253568414405109
  115792089210356248762697446949407573529996955224135760342422259061068512044369.

(* BN256 as in kyber/pairing/bn256 (the "dclxvi" prime u = 1868033^3) *)
Definition bn256 : wparams := mkwp
  65000549695646603732796438742359905742825358107623003571877145026864184071783
  0 3 1 (-2)
  65000549695646603732796438742359905742570406053903786389881062969044166799969.

(* BN254 (alt_bn128) as in kyber/pairing/bn254 *)
Definition bn254 : wparams := mkwp
  21888242871839275222246405745257275088696311157297823662689037894645226208583
  0 3 1 2
  21888242871839275222246405745257275088548364400416034343698204186575808495617.

Section W.
  Context {F : Type} (O : fops F) (W : wparams).
  Notation "a +f b" := (fadd O a b) (at level 50, left associativity).
  Notation "a -f b" := (fsub O a b) (at level 50, left associativity).
  Notation "a *f b" := (fmul O a b) (at level 40, left associativity).

  Definition winv (x : F) : F := fpow O x (w_p W - 2).
  Record jpt := mkj { jX : F; jY : F; jZ : F }.   (* Z = 0: point at infinity *)
  Definition w_inf : jpt := mkj (f1 O) (f1 O) (f0 O).
  Definition w_isinf (p : jpt) : bool := feqb O (jZ p) (f0 O).

  Variable fa : F.   (* fofZ (w_a W), computed once *)

  Definition w_dbl (p : jpt) : jpt :=
    if w_isinf p then w_inf else
    let XX := fsq O (jX p) in let YY := fsq O (jY p) in let YYYY := fsq O YY in
    let ZZ := fsq O (jZ p) in
    let S := fdbl O (fsq O (jX p +f YY) -f XX -f YYYY) in
    let M := XX +f XX +f XX +f fa *f fsq O ZZ in
    let T := fsq O M -f S -f S in
    let Y8 := fdbl O (fdbl O (fdbl O YYYY)) in
    mkj T (M *f (S -f T) -f Y8) (fsq O (jY p +f jZ p) -f YY -f ZZ).

  Definition w_add (p q : jpt) : jpt :=
    if w_isinf p then q else if w_isinf q then p else
    let Z1Z1 := fsq O (jZ p) in let Z2Z2 := fsq O (jZ q) in
    let U1 := jX p *f Z2Z2 in let U2 := jX q *f Z1Z1 in
    let S1 := jY p *f jZ q *f Z2Z2 in let S2 := jY q *f jZ p *f Z1Z1 in
    let H := U2 -f U1 in let r := fdbl O (S2 -f S1) in
    if feqb O H (f0 O) then
      (if feqb O r (f0 O) then w_dbl p else w_inf)
    else
      let I := fsq O (fdbl O H) in let J := H *f I in let V := U1 *f I in
      let X3 := fsq O r -f J -f V -f V in
      mkj X3 (r *f (V -f X3) -f fdbl O (S1 *f J)) ((fsq O (jZ p +f jZ q) -f Z1Z1 -f Z2Z2) *f H).

  Definition w_neg (p : jpt) : jpt := mkj (jX p) (fneg O (jY p)) (jZ p).

  Fixpoint w_mul_bits (bits : list bool) (P acc : jpt) : jpt :=
    match bits with
    | [] => acc
    | b :: t => let d := w_dbl acc in w_mul_bits t P (if b then w_add d P else d)
    end.
  Definition w_mul (k : Z) (P : jpt) : jpt := w_mul_bits (z_bits k) P w_inf.

  Definition w_base : jpt := mkj (fofZ O (w_gx W)) (fofZ O (w_gy W)) (f1 O).

  (* affine coordinates as integers; None = infinity *)
  Definition w_affine (p : jpt) : option (Z * Z) :=
    if w_isinf p then None else
    let zi := winv (jZ p) in let zi2 := fsq O zi in
    Some (ftoZ O (jX p *f zi2), ftoZ O (jY p *f zi2 *f zi)).

  Definition w_oncurve (x y : Z) : bool :=
    let fx := fofZ O x in let fy := fofZ O y in
    feqb O (fsq O fy) (fsq O fx *f fx +f fa *f fx +f fofZ O (w_b W)).

  (* kyber p256: 0x04 || X || Y, identity = (0,0) *)
  Definition p256_encode (p : jpt) : list Z :=
    match w_affine p with
    | None => 4 :: repeat 0 64
    | Some (x, y) => 4 :: be_bytes 32 x ++ be_bytes 32 y
    end.

  (* kyber bn256/bn254 G1: X || Y big-endian, identity = all zero *)
  Definition bn_encode (p : jpt) : list Z :=
    match w_affine p with
    | None => repeat 0 64
    | Some (x, y) => be_bytes 32 x ++ be_bytes 32 y
    end.
End W.
