(* The reference model is EXECUTED with BigZ arithmetic modulo p
   (CurveRef/RefRun.v, [bz_ops ed_p]) and PROVED over the integers modulo p
   (Algebra/Zq.v, [zq_ops ed_p]; EdComplete.v, EdDecode.v).  The curve code is
   written once over a record of field operations (CurveRef/Field.v [fops]); this
   file proves that it is parametric in that record: any relation between two
   carriers that is preserved by the field operations is preserved by
   exponentiation, the extended-coordinate addition, the ladder, the affine map,
   the byte encoding, the equality test, kyber's decoder and the base point.
   Instantiated with  R a b := BigZ.to_Z a = val b  it shows that the byte
   strings / verdicts computed by RefRun.check (cases CEdMul, CEdDecode) are
   exactly those of the zq model, to which the theorems of EdDecode.v apply.

   Axioms: Section Refine (the parametricity lemmas R_xxx) is closed under the
   global context.  The BigZ instance (Section BigZq and the refrun_* theorems)
   necessarily uses Bignums' specification lemmas BigZ.spec_xxx, which rest on the
   Coq standard library's axiomatisation of primitive 63-bit integers
   (the PrimInt63 primitives and the Uint63 xxx_spec axioms) - the same assumption that is made, silently,
   whenever RefRun is executed with vm_compute.  Nothing else. *)
From Coq Require Import ZArith Znumtheory List Bool Lia.
From Bignums Require Import BigZ.
From Kyber Require Import Algebra.Zq CurveRef.Field CurveRef.Edwards CurveRef.EdwardsAlg
  CurveRef.EdComplete Decode.DecodeSM Decode.DecodeProofs Decode.DecodeInst CurveRef.EdDecode.
Import ListNotations.
Local Open Scope Z_scope.

Section Refine.
  Context {A B : Type} (OA : fops A) (OB : fops B) (R : A -> B -> Prop).
  Hypothesis R0 : R (f0 OA) (f0 OB).
  Hypothesis R1 : R (f1 OA) (f1 OB).
  Hypothesis Radd : forall a b a' b', R a b -> R a' b' -> R (fadd OA a a') (fadd OB b b').
  Hypothesis Rsub : forall a b a' b', R a b -> R a' b' -> R (fsub OA a a') (fsub OB b b').
  Hypothesis Rmul : forall a b a' b', R a b -> R a' b' -> R (fmul OA a a') (fmul OB b b').
  Hypothesis Rneg : forall a b, R a b -> R (fneg OA a) (fneg OB b).
  Hypothesis Reqb : forall a b a' b', R a b -> R a' b' -> feqb OA a a' = feqb OB b b'.
  Hypothesis RtoZ : forall a b, R a b -> ftoZ OA a = ftoZ OB b.
  Hypothesis RofZ : forall z, R (fofZ OA z) (fofZ OB z).

  Lemma R_fpow_pos a b : R a b -> forall p, R (fpow_pos OA a p) (fpow_pos OB b p).
  Proof. intros H. induction p as [p IH|p IH|]; cbn [fpow_pos]; auto. Qed.

  Lemma R_fpow a b e : R a b -> R (fpow OA a e) (fpow OB b e).
  Proof. intros H. destruct e; cbn [fpow]; auto using R_fpow_pos. Qed.

  Lemma R_fsq a b : R a b -> R (fsq OA a) (fsq OB b).
  Proof. intros H. unfold fsq. auto. Qed.

  Lemma R_finv a b : R a b -> R (finv OA a) (finv OB b).
  Proof. intros H. unfold finv. apply R_fpow. exact H. Qed.

  Definition Rpt (P : @ept A) (Q : @ept B) : Prop :=
    R (eX P) (eX Q) /\ R (eY P) (eY Q) /\ R (eZ P) (eZ Q) /\ R (eT P) (eT Q).

  Definition RK (KA : @edc A) (KB : @edc B) : Prop :=
    R (c_d KA) (c_d KB) /\ R (c_2d KA) (c_2d KB) /\ R (c_sqrtm1 KA) (c_sqrtm1 KB).

  Lemma RK_consts : RK (ed_consts OA) (ed_consts OB).
  Proof.
    unfold RK, ed_consts, ed_2d, ed_d, sqrt_m1. cbn [c_d c_2d c_sqrtm1].
    assert (D : R (fmul OA (fofZ OA ed_d_num) (finv OA (fofZ OA ed_d_den)))
                  (fmul OB (fofZ OB ed_d_num) (finv OB (fofZ OB ed_d_den)))) by auto using R_finv.
    split; [exact D|]. split; [auto|]. apply R_fpow. auto.
  Qed.

  Variables (KA : @edc A) (KB : @edc B).
  Hypothesis HK : RK KA KB.

  Lemma R_ed_zero : Rpt (ed_zero OA) (ed_zero OB).
  Proof. unfold Rpt, ed_zero. cbn [eX eY eZ eT]. auto. Qed.

  Lemma R_ed_add P Q P' Q' : Rpt P P' -> Rpt Q Q' -> Rpt (ed_add OA KA P Q) (ed_add OB KB P' Q').
  Proof.
    intros (X1 & Y1 & Z1 & T1) (X2 & Y2 & Z2 & T2). destruct HK as (_ & K2 & _).
    unfold Rpt, ed_add. cbn [eX eY eZ eT]. repeat split; auto 12.
  Qed.

  Lemma R_ed_neg P P' : Rpt P P' -> Rpt (ed_neg OA P) (ed_neg OB P').
  Proof. intros (X1 & Y1 & Z1 & T1). unfold Rpt, ed_neg. cbn [eX eY eZ eT]. auto. Qed.

  Lemma R_ed_mul_bits bits P P' : Rpt P P' -> forall acc acc', Rpt acc acc' ->
    Rpt (ed_mul_bits OA KA bits P acc) (ed_mul_bits OB KB bits P' acc').
  Proof.
    intros HP. induction bits as [|b t IH]; intros acc acc' Hacc; cbn [ed_mul_bits]; [exact Hacc|].
    apply IH. destruct b; auto using R_ed_add.
  Qed.

  Lemma R_ed_mul k P P' : Rpt P P' -> Rpt (ed_mul OA KA k P) (ed_mul OB KB k P').
  Proof. intros HP. unfold ed_mul. apply R_ed_mul_bits; [exact HP|exact R_ed_zero]. Qed.

  Lemma R_ed_encode P P' : Rpt P P' -> ed_encode OA P = ed_encode OB P'.
  Proof.
    intros (X1 & Y1 & Z1 & T1). unfold ed_encode, ed_affine.
    assert (I : R (finv OA (eZ P)) (finv OB (eZ P'))) by auto using R_finv.
    rewrite (RtoZ (fmul OA (eX P) (finv OA (eZ P))) (fmul OB (eX P') (finv OB (eZ P')))) by auto.
    rewrite (RtoZ (fmul OA (eY P) (finv OA (eZ P))) (fmul OB (eY P') (finv OB (eZ P')))) by auto.
    reflexivity.
  Qed.

  Lemma R_ed_eqb P Q P' Q' : Rpt P P' -> Rpt Q Q' -> ed_eqb OA P Q = ed_eqb OB P' Q'.
  Proof.
    intros (X1 & Y1 & Z1 & T1) (X2 & Y2 & Z2 & T2). unfold ed_eqb. f_equal; apply Reqb; auto.
  Qed.

  Definition Ropt (x : option (@ept A)) (y : option (@ept B)) : Prop :=
    match x, y with Some P, Some Q => Rpt P Q | None, None => True | _, _ => False end.

  Lemma R_ed_decode s : Ropt (ed_decode OA KA s) (ed_decode OB KB s).
  Proof.
    destruct HK as (Kd & _ & Ks). unfold ed_decode.
    destruct (negb (Nat.eqb (length s) 32)); [exact I|].
    set (yz := le_decode s mod 2 ^ 255). set (sign := nth 31 s 0 / 128).
    assert (Hy : R (fofZ OA yz) (fofZ OB yz)) by apply RofZ.
    set (ya := fofZ OA yz) in *. set (yb := fofZ OB yz) in *.
    assert (Hu0 : R (fsq OA ya) (fsq OB yb)) by auto using R_fsq.
    assert (Hv : R (fadd OA (fmul OA (fsq OA ya) (c_d KA)) (f1 OA)) (fadd OB (fmul OB (fsq OB yb) (c_d KB)) (f1 OB))) by auto.
    set (va := fadd OA (fmul OA (fsq OA ya) (c_d KA)) (f1 OA)) in *.
    set (vb := fadd OB (fmul OB (fsq OB yb) (c_d KB)) (f1 OB)) in *.
    assert (Hu : R (fsub OA (fsq OA ya) (f1 OA)) (fsub OB (fsq OB yb) (f1 OB))) by auto.
    set (ua := fsub OA (fsq OA ya) (f1 OA)) in *. set (ub := fsub OB (fsq OB yb) (f1 OB)) in *.
    assert (Hv3 : R (fmul OA (fsq OA va) va) (fmul OB (fsq OB vb) vb)) by auto using R_fsq.
    set (v3a := fmul OA (fsq OA va) va) in *. set (v3b := fmul OB (fsq OB vb) vb) in *.
    assert (Hx0 : R (fmul OA (fmul OA (fpow OA (fmul OA (fmul OA (fsq OA v3a) va) ua) ((ed_p - 5) / 8)) v3a) ua)
                    (fmul OB (fmul OB (fpow OB (fmul OB (fmul OB (fsq OB v3b) vb) ub) ((ed_p - 5) / 8)) v3b) ub))
      by (apply Rmul; [apply Rmul; [apply R_fpow; auto using R_fsq|exact Hv3]|exact Hu]).
    set (x0a := fmul OA (fmul OA (fpow OA _ _) v3a) ua) in *.
    set (x0b := fmul OB (fmul OB (fpow OB _ _) v3b) ub) in *.
    assert (Hvxx : R (fmul OA (fsq OA x0a) va) (fmul OB (fsq OB x0b) vb)) by auto using R_fsq.
    cbv zeta.
    rewrite (Reqb (fsub OA (fmul OA (fsq OA x0a) va) ua) (fsub OB (fmul OB (fsq OB x0b) vb) ub) (f0 OA) (f0 OB)) by auto.
    rewrite (Reqb (fadd OA (fmul OA (fsq OA x0a) va) ua) (fadd OB (fmul OB (fsq OB x0b) vb) ub) (f0 OA) (f0 OB)) by auto.
    assert (Fin : forall xa xb, R xa xb ->
      Rpt (let x' := if ftoZ OA xa mod 2 =? sign then xa else fneg OA xa in mkept x' ya (f1 OA) (fmul OA x' ya))
          (let x' := if ftoZ OB xb mod 2 =? sign then xb else fneg OB xb in mkept x' yb (f1 OB) (fmul OB x' yb))).
    { intros xa xb Hx. cbv zeta. rewrite (RtoZ xa xb Hx).
      destruct (ftoZ OB xb mod 2 =? sign); unfold Rpt; cbn [eX eY eZ eT]; auto 8. }
    destruct (feqb OB (fsub OB (fmul OB (fsq OB x0b) vb) ub) (f0 OB)).
    - apply (Fin x0a x0b Hx0).
    - destruct (feqb OB (fadd OB (fmul OB (fsq OB x0b) vb) ub) (f0 OB)); [|exact I].
      apply (Fin (fmul OA x0a (c_sqrtm1 KA)) (fmul OB x0b (c_sqrtm1 KB))). auto.
  Qed.

  Lemma R_ed_base : Rpt (ed_base OA KA) (ed_base OB KB).
  Proof.
    unfold ed_base.
    assert (Hy : R (fmul OA (fofZ OA ed_By_num) (finv OA (fofZ OA ed_By_den)))
                   (fmul OB (fofZ OB ed_By_num) (finv OB (fofZ OB ed_By_den)))) by auto using R_finv.
    rewrite (RtoZ _ _ Hy).
    pose proof (R_ed_decode (le_bytes 32 (ftoZ OB (fmul OB (fofZ OB ed_By_num) (finv OB (fofZ OB ed_By_den)))))) as D.
    unfold Ropt in D.
    destruct (ed_decode OA KA _) as [Pa|]; destruct (ed_decode OB KB _) as [Pb|]; try contradiction; [exact D|exact R_ed_zero].
  Qed.
End Refine.

(* ------------------------------------------------------------------ *)
(* BigZ modulo p against zq p *)
Section BigZq.
  Variable p : Z.
  Definition Rbz (a : BigZ.t) (b : zq p) : Prop := BigZ.to_Z a = val b.

  Lemma bz_bp : BigZ.to_Z (BigZ.of_Z p) = p.
  Proof. apply BigZ.spec_of_Z. Qed.

  Lemma Rbz_add a b a' b' : Rbz a b -> Rbz a' b' -> Rbz (fadd (bz_ops p) a a') (fadd (zq_ops p) b b').
  Proof.
    unfold Rbz. intros H H'. unfold bz_ops, zq_ops. cbn [fadd]. unfold zadd. rewrite val_of_Z.
    rewrite BigZ.spec_modulo, BigZ.spec_add, bz_bp, H, H'. reflexivity.
  Qed.
  Lemma Rbz_sub a b a' b' : Rbz a b -> Rbz a' b' -> Rbz (fsub (bz_ops p) a a') (fsub (zq_ops p) b b').
  Proof.
    unfold Rbz. intros H H'. unfold bz_ops, zq_ops. cbn [fsub]. unfold zsub. rewrite val_of_Z.
    rewrite BigZ.spec_modulo, BigZ.spec_sub, bz_bp, H, H'. reflexivity.
  Qed.
  Lemma Rbz_mul a b a' b' : Rbz a b -> Rbz a' b' -> Rbz (fmul (bz_ops p) a a') (fmul (zq_ops p) b b').
  Proof.
    unfold Rbz. intros H H'. unfold bz_ops, zq_ops. cbn [fmul]. unfold zmul. rewrite val_of_Z.
    rewrite BigZ.spec_modulo, BigZ.spec_mul, bz_bp, H, H'. reflexivity.
  Qed.
  Lemma Rbz_neg a b : Rbz a b -> Rbz (fneg (bz_ops p) a) (fneg (zq_ops p) b).
  Proof.
    unfold Rbz. intros H. unfold bz_ops, zq_ops. cbn [fneg]. unfold zopp. rewrite val_of_Z.
    rewrite BigZ.spec_modulo, BigZ.spec_opp, bz_bp, H. reflexivity.
  Qed.
  Lemma Rbz_eqb a b a' b' : Rbz a b -> Rbz a' b' -> feqb (bz_ops p) a a' = feqb (zq_ops p) b b'.
  Proof.
    unfold Rbz. intros H H'. unfold bz_ops, zq_ops. cbn [feqb]. unfold zeqb.
    rewrite BigZ.spec_eqb, H, H'. reflexivity.
  Qed.
  Lemma Rbz_toZ a b : Rbz a b -> ftoZ (bz_ops p) a = ftoZ (zq_ops p) b.
  Proof. unfold Rbz. intros H. unfold bz_ops, zq_ops. cbn [ftoZ]. exact H. Qed.
  Lemma Rbz_ofZ z : Rbz (fofZ (bz_ops p) z) (fofZ (zq_ops p) z).
  Proof.
    unfold Rbz, bz_ops, zq_ops. cbn [fofZ]. rewrite val_of_Z.
    rewrite BigZ.spec_modulo, BigZ.spec_of_Z, bz_bp. reflexivity.
  Qed.

  Hypothesis p_gt_1 : 1 < p.
  Lemma Rbz_0 : Rbz (f0 (bz_ops p)) (f0 (zq_ops p)).
  Proof. unfold Rbz, bz_ops, zq_ops. cbn [f0]. unfold zzero. rewrite val_of_Z, Z.mod_0_l by lia. reflexivity. Qed.
  Lemma Rbz_1 : Rbz (f1 (bz_ops p)) (f1 (zq_ops p)).
  Proof. unfold Rbz, bz_ops, zq_ops. cbn [f1]. unfold zone. rewrite val_of_Z, Z.mod_1_l by lia. reflexivity. Qed.
End BigZq.

(* ------------------------------------------------------------------ *)
(* the expressions evaluated by CurveRef/RefRun.check *)
Lemma ed_p_gt_1 : 1 < ed_p.
Proof. vm_compute. reflexivity. Qed.

Definition OBz := bz_ops ed_p.
Definition KBz : @edc BigZ.t := ed_consts OBz.

Local Notation RR := (Rbz ed_p).
Local Notation RP := (Rpt (Rbz ed_p)).

Ltac rbz :=
  first [ exact (Rbz_0 ed_p ed_p_gt_1) | exact (Rbz_1 ed_p ed_p_gt_1) | exact (Rbz_add ed_p)
        | exact (Rbz_sub ed_p) | exact (Rbz_mul ed_p) | exact (Rbz_neg ed_p) | exact (Rbz_eqb ed_p)
        | exact (Rbz_toZ ed_p) | exact (Rbz_ofZ ed_p) ].

Lemma RK_ed : RK (Rbz ed_p) KBz KEd.
Proof. apply (RK_consts OBz OEd); rbz. Qed.

Lemma RP_base : RP (ed_base OBz KBz) (ed_base OEd KEd).
Proof.
  apply (R_ed_base OBz OEd); first [rbz | exact RK_ed].
Qed.

(* CEdMul: the bytes computed with BigZ are those of the zq model ... *)
Theorem refrun_mul_bytes k :
  ed_encode OBz (ed_mul OBz KBz k (ed_base OBz KBz)) = ed_encode OEd (ed_mul OEd KEd k (ed_base OEd KEd)).
Proof.
  apply (R_ed_encode OBz OEd (Rbz ed_p)); try rbz.
  apply (R_ed_mul OBz OEd); first [rbz | exact RK_ed | exact RP_base].
Qed.

(* ... and CEdDecode: same verdict, same re-encoding *)
Theorem refrun_decode_bytes s :
  match ed_decode OBz KBz s with Some P => Some (ed_encode OBz P) | None => None end =
  match ed_decode OEd KEd s with Some P => Some (ed_encode OEd P) | None => None end.
Proof.
  pose proof (R_ed_decode OBz OEd (Rbz ed_p) (Rbz_0 ed_p ed_p_gt_1) (Rbz_1 ed_p ed_p_gt_1)
                (Rbz_add ed_p) (Rbz_sub ed_p) (Rbz_mul ed_p) (Rbz_neg ed_p) (Rbz_eqb ed_p) (Rbz_toZ ed_p) (Rbz_ofZ ed_p)
                KBz KEd RK_ed s) as D.
  unfold Ropt in D.
  destruct (ed_decode OBz KBz s) as [Pa|]; destruct (ed_decode OEd KEd s) as [Pb|]; try contradiction; [|reflexivity].
  f_equal. apply (R_ed_encode OBz OEd (Rbz ed_p)); first [rbz | exact D].
Qed.

(* consequences for what RefRun executes (prime (2^255-19) from Algebra/PrimesEd.v):
   the string computed for k.B is the encoding of the k-fold sum of the affine
   base point in the (complete) group of the curve, the decoder accepts it and
   returns that point; whatever the executed decoder accepts re-encodes to a
   string that it decodes to the same bytes *)
Theorem refrun_mul_is_group_multiple k :
  let B := (eX (ed_base OEd KEd), eY (ed_base OEd KEd)) in
  let kB := ed_nmul (Z.to_nat k) B in
  ed_on_curve_pt kB /\
  ed_encode OBz (ed_mul OBz KBz k (ed_base OBz KBz)) = ed_encode_xy OEd (fst kB) (snd kB) /\
  ed_decode OEd KEd (ed_encode OBz (ed_mul OBz KBz k (ed_base OBz KBz))) =
    Some (mkept (fst kB) (snd kB) zone (zmul (fst kB) (snd kB))).
Proof.
  cbv zeta. destruct (Ed25519_base_mul_spec k) as [C Rp]. split; [exact C|].
  rewrite refrun_mul_bytes. split.
  - rewrite ed_encode_affine, (ed_affine_represents ed_p_prime _ _ _ Rp). reflexivity.
  - apply Ed25519_point_roundtrip; assumption.
Qed.

Theorem refrun_decode_sound s Pz :
  ed_decode OBz KBz s = Some Pz ->
  exists P, ed_decode OEd KEd s = Some P /\ ed_encode OBz Pz = ed_encode OEd P /\
            ed_on_curve_pt (eX P, eY P) /\ ed_decode OEd KEd (ed_encode OEd P) = Some P.
Proof.
  intros H. pose proof (refrun_decode_bytes s) as D. rewrite H in D.
  destruct (ed_decode OEd KEd s) as [P|] eqn:E; [|discriminate].
  exists P. split; [reflexivity|]. split; [congruence|].
  split.
  - destruct (ed_decode_on_curve OEd (zq_ops_ring ed_p) (zq_ops_eqb ed_p) KEd KEd_sqrtm1 s P E) as (_ & _ & HC). exact HC.
  - apply (Ed25519_decode_reencode s). exact E.
Qed.
