(* The integers modulo q with canonical representatives in [0,q), as an
   executable type: ring laws for every q >= 1 ... , field laws when q is prime.

   This is (a) the model of every scalar implementation of kyber (C02), and
   (b) the model of every prime-order group: a cyclic group of prime order q
   is isomorphic, as a module over Z_q, to Z_q acting on itself, so a "point"
   is modelled by its discrete logarithm and scalar multiplication by the field
   multiplication.  No axioms. *)
From Coq Require Import ZArith Znumtheory Lia Bool List Eqdep_dec Ring Field.
Local Open Scope Z_scope.

(* ------------------------------------------------------------------ *)
(* extended Euclid with explicit fuel: egcd f a b = Some (g,u,v) with u*a+v*b=g *)
Fixpoint egcd (fuel : nat) (a b : Z) : option (Z * Z * Z) :=
  match fuel with
  | O => None
  | S f =>
      if b =? 0 then Some (a, 1, 0)
      else match egcd f b (a mod b) with
           | Some (g, u, v) => Some (g, v, u - v * (a / b))
           | None => None
           end
  end.

Lemma egcd_spec : forall fuel a b g u v,
    0 <= a -> 0 <= b -> egcd fuel a b = Some (g, u, v) ->
    u * a + v * b = g /\ g = Z.gcd a b.
Proof.
  induction fuel as [|f IH]; intros a b g u v Ha Hb H; [discriminate|].
  cbn [egcd] in H. destruct (Z.eqb_spec b 0) as [->|Hnz].
  - inversion H; subst. split; [ring|]. rewrite Z.gcd_0_r. lia.
  - destruct (egcd f b (a mod b)) as [[[g' u'] v']|] eqn:E; [|discriminate].
    inversion H; subst g u v; clear H.
    assert (Hm : 0 <= a mod b) by (apply Z.mod_pos_bound; lia).
    destruct (IH _ _ _ _ _ Hb Hm E) as [Hbez Hg]. split.
    + rewrite <- Hbez. rewrite (Z.mod_eq a b) by exact Hnz. ring.
    + rewrite Hg. rewrite Z.gcd_comm. rewrite Z.gcd_mod by exact Hnz. apply Z.gcd_comm.
Qed.

Lemma mod_half x y : 0 < y <= x -> 2 * (x mod y) < x.
Proof.
  intros H. pose proof (Z.mod_pos_bound x y ltac:(lia)) as B.
  pose proof (Z.div_mod x y ltac:(lia)) as D.
  assert (1 <= x / y) by (apply Z.div_le_lower_bound; lia). nia.
Qed.

Lemma egcd_fuel : forall k fuel a b,
    0 <= b < 2 ^ Z.of_nat k -> 0 <= a -> (2 * k + 1 <= fuel)%nat ->
    egcd fuel a b <> None.
Proof.
  induction k as [|k IH]; intros fuel a b Hb Ha Hf.
  - cbn in Hb. assert (b = 0) by lia. subst b.
    destruct fuel as [|f]; [lia|]. cbn. discriminate.
  - destruct fuel as [|f]; [lia|]. cbn [egcd].
    destruct (Z.eqb_spec b 0) as [->|Hnz]; [discriminate|].
    destruct f as [|f]; [lia|].
    cbn [egcd].
    set (r1 := a mod b).
    assert (Hr1 : 0 <= r1 < b) by (apply Z.mod_pos_bound; lia).
    destruct (Z.eqb_spec r1 0) as [E|Hnz1]; [discriminate|].
    set (r2 := b mod r1).
    assert (Hr2 : 0 <= r2 < r1) by (apply Z.mod_pos_bound; lia).
    assert (H2 : 2 * r2 < b) by (apply mod_half; lia).
    assert (Hpow : 2 ^ Z.of_nat (S k) = 2 * 2 ^ Z.of_nat k).
    { rewrite Nat2Z.inj_succ, Z.pow_succ_r by lia. reflexivity. }
    assert (Hr2k : 0 <= r2 < 2 ^ Z.of_nat k) by lia.
    specialize (IH f r1 r2 Hr2k ltac:(lia) ltac:(lia)).
    destruct (egcd f r1 r2) as [[[g u] v]|]; [discriminate|congruence].
Qed.

Definition inv_fuel (q : Z) : nat := Z.to_nat (2 * (Z.log2 q + 1) + 1).

(* modular inverse by extended Euclid; 0 when not invertible *)
Definition inv_mod (q a : Z) : Z :=
  match egcd (inv_fuel q) a q with
  | Some (g, u, _) => if g =? 1 then u mod q else 0
  | None => 0
  end.

Lemma inv_mod_spec q a : prime q -> 0 < a < q -> (a * inv_mod q a) mod q = 1.
Proof.
  intros Hp Ha. pose proof (prime_ge_2 q Hp) as Hq.
  unfold inv_mod.
  assert (Hfuel : egcd (inv_fuel q) a q <> None).
  { apply (egcd_fuel (Z.to_nat (Z.log2 q + 1))); try lia.
    - rewrite Z2Nat.id by (pose proof (Z.log2_nonneg q); lia).
      split; [lia|]. apply Z.log2_spec. lia.
    - unfold inv_fuel. pose proof (Z.log2_nonneg q). lia. }
  destruct (egcd (inv_fuel q) a q) as [[[g u] v]|] eqn:E; [|congruence].
  destruct (egcd_spec (inv_fuel q) a q g u v) as [Hbez Hg]; [lia|lia|exact E|].
  assert (Hg1 : g = 1).
  { rewrite Hg. apply Zgcd_1_rel_prime. apply rel_prime_le_prime; [exact Hp|lia]. }
  subst g. rewrite Hg1. cbn.
  rewrite Zmult_mod_idemp_r.
  replace (a * u) with (1 + (- v) * q) by lia.
  rewrite Z_mod_plus_full. apply Z.mod_small. lia.
Qed.

(* ------------------------------------------------------------------ *)
Section Zq.
  Variable q : Z.

  Record zq := mkzq { val : Z; canon : (val mod q =? val) = true }.

  Lemma zq_eq (a b : zq) : val a = val b -> a = b.
  Proof.
    destruct a as [x px], b as [y py]. cbn. intros ->. f_equal.
    apply UIP_dec. apply bool_dec.
  Qed.

  Lemma zq_eq_iff (a b : zq) : a = b <-> val a = val b.
  Proof. split; [intros ->; reflexivity | apply zq_eq]. Qed.

  Lemma of_Z_canon x : ((x mod q) mod q =? x mod q) = true.
  Proof. rewrite Zmod_mod. apply Z.eqb_refl. Qed.

  Definition of_Z (x : Z) : zq := mkzq (x mod q) (of_Z_canon x).

  Lemma val_mod (a : zq) : val a mod q = val a.
  Proof. apply Z.eqb_eq. apply canon. Qed.

  Lemma val_of_Z x : val (of_Z x) = x mod q.
  Proof. reflexivity. Qed.

  Definition zzero := of_Z 0.
  Definition zone := of_Z 1.
  Definition zadd (a b : zq) := of_Z (val a + val b).
  Definition zsub (a b : zq) := of_Z (val a - val b).
  Definition zopp (a : zq) := of_Z (- val a).
  Definition zmul (a b : zq) := of_Z (val a * val b).
  Definition zinv (a : zq) := of_Z (inv_mod q (val a)).
  Definition zdiv (a b : zq) := zmul a (zinv b).
  Definition zeqb (a b : zq) : bool := val a =? val b.

  Lemma zeqb_eq a b : zeqb a b = true <-> a = b.
  Proof. unfold zeqb. rewrite Z.eqb_eq. symmetry. apply zq_eq_iff. Qed.

  Lemma zeqb_spec a b : reflect (a = b) (zeqb a b).
  Proof. apply iff_reflect. symmetry. apply zeqb_eq. Qed.

  Ltac zq_start :=
    apply zq_eq; unfold zadd, zsub, zopp, zmul, zzero, zone; rewrite ?val_of_Z.
  Ltac zq_push :=
    rewrite ?Zplus_mod_idemp_l, ?Zplus_mod_idemp_r, ?Zmult_mod_idemp_l, ?Zmult_mod_idemp_r,
            ?Zminus_mod_idemp_l, ?Zminus_mod_idemp_r.

  Lemma zq_ring : ring_theory zzero zone zadd zmul zsub zopp eq.
  Proof.
    constructor.
    - intros x. zq_start. rewrite <- (val_mod x) at 2. zq_push. f_equal; ring.
    - intros x y. zq_start. f_equal; ring.
    - intros x y z. zq_start. zq_push. f_equal; ring.
    - intros x. zq_start. rewrite <- (val_mod x) at 2. zq_push. f_equal; ring.
    - intros x y. zq_start. f_equal; ring.
    - intros x y z. zq_start. zq_push. f_equal; ring.
    - intros x y z. zq_start. zq_push. f_equal; ring.
    - intros x y. zq_start. zq_push. f_equal; ring.
    - intros x. zq_start. zq_push. f_equal; ring.
  Qed.

  (* canonical form: every operation returns a value in [0,q) *)
  Lemma val_range (a : zq) : 0 < q -> 0 <= val a < q.
  Proof. intros Hq. rewrite <- val_mod. apply Z.mod_pos_bound. exact Hq. Qed.

  Section Field.
    Hypothesis q_prime : prime q.

    Lemma zone_neq_zzero : zone <> zzero.
    Proof.
      pose proof (prime_ge_2 q q_prime) as Hq. intros H. apply zq_eq_iff in H. unfold zone, zzero in H. rewrite !val_of_Z in H.
      rewrite Z.mod_1_l, Z.mod_0_l in H by lia. discriminate.
    Qed.

    Lemma zinv_l a : a <> zzero -> zmul (zinv a) a = zone.
    Proof.
      pose proof (prime_ge_2 q q_prime) as Hq.
      intros Ha. apply zq_eq. unfold zmul, zinv, zone. rewrite !val_of_Z. rewrite Zmult_mod_idemp_l.
      assert (Hv : 0 < val a < q).
      { pose proof (val_range a ltac:(lia)).
        assert (val a <> 0). { intros E. apply Ha. apply zq_eq. unfold zzero. rewrite val_of_Z, E. rewrite Z.mod_0_l by lia. reflexivity. }
        lia. }
      rewrite Z.mul_comm. rewrite inv_mod_spec by assumption.
      rewrite Z.mod_1_l by lia. reflexivity.
    Qed.

    Lemma zq_field : field_theory zzero zone zadd zmul zsub zopp zdiv zinv eq.
    Proof.
      constructor.
      - exact zq_ring.
      - exact zone_neq_zzero.
      - reflexivity.
      - exact zinv_l.
    Qed.

    (* no zero divisors *)
    Lemma zmul_eq_0 a b : zmul a b = zzero -> a = zzero \/ b = zzero.
    Proof.
      intros H. destruct (zeqb_spec a zzero) as [|Ha]; [left; assumption|right].
      assert (E : zmul (zinv a) (zmul a b) = b).
      { pose proof (zinv_l a Ha) as I. pose proof zq_ring as R.
        rewrite (Rmul_assoc R), I. apply (Rmul_1_l R). }
      rewrite H in E. rewrite <- E. pose proof zq_ring as R.
      rewrite (Rmul_comm R). apply zq_eq. unfold zmul, zzero. rewrite !val_of_Z. rewrite Z.mod_0_l by (pose proof (prime_ge_2 q q_prime); lia).
      symmetry. apply Z.mod_0_l. pose proof (prime_ge_2 q q_prime); lia.
    Qed.
  End Field.
End Zq.

Arguments val {q} _.
Arguments zzero {q}.
Arguments zone {q}.
Arguments zadd {q} a b.
Arguments zsub {q} a b.
Arguments zopp {q} a.
Arguments zmul {q} a b.
Arguments zinv {q} a.
Arguments zdiv {q} a b.
Arguments zeqb {q} a b.

(* small primes for non-vacuity examples, by exhaustive trial division *)
Definition no_divisor_below (p : Z) (n : nat) : bool :=
  forallb (fun d => negb (p mod (Z.of_nat d + 2) =? 0)) (seq 0 n).

Lemma prime_by_trial p : 2 <= p -> no_divisor_below p (Z.to_nat (p - 2)) = true -> prime p.
Proof.
  intros Hp H. apply prime_intro; [lia|].
  intros n Hn. apply Zgcd_1_rel_prime.
  destruct (Z.eq_dec n 1) as [->|Hn1]; [apply Z.gcd_1_l|].
  pose proof (Z.gcd_nonneg n p) as G0.
  destruct (Z.eq_dec (Z.gcd n p) 1) as [|Hg]; [assumption|exfalso].
  pose proof (Z.gcd_divide_l n p) as Dn. pose proof (Z.gcd_divide_r n p) as Dp.
  set (g := Z.gcd n p) in *.
  assert (g <> 0). { intros E. rewrite E in Dp. destruct Dp as [k Hk]. lia. }
  assert (g <= n) by (apply Z.divide_pos_le; [lia|exact Dn]).
  assert (Hg2 : 2 <= g < p) by lia.
  unfold no_divisor_below in H. rewrite forallb_forall in H.
  specialize (H (Z.to_nat (g - 2))).
  rewrite Z2Nat.id in H by lia. replace (g - 2 + 2) with g in H by lia.
  assert (Hin : In (Z.to_nat (g - 2)) (seq 0 (Z.to_nat (p - 2)))) by (apply in_seq; lia).
  specialize (H Hin). apply negb_true_iff in H. apply Z.eqb_neq in H.
  apply H. apply Z.mod_divide; [lia|exact Dp].
Qed.

Lemma prime_251 : prime 251.
Proof. apply prime_by_trial; [lia|vm_compute; reflexivity]. Qed.
