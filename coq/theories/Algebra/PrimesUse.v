(* How the primality theorems of Algebra/Primes.v discharge the `prime q`
   premise of the protocol theorems for the real group orders.

   Every protocol file is a `Section` over `Variable q : Z. Hypothesis q_prime :
   prime q.`; after the section closes each theorem is `forall q, prime q -> ...`.
   Instantiating q with a concrete order and the premise with the matching
   `prime_<name>` gives a premise-free statement.  No axioms. *)
From Coq Require Import ZArith Znumtheory List Ring Field Lia.
From Kyber Require Import Algebra.Zq Algebra.Grp Algebra.Primes
  Scalar.ScalarSM Scalar.Fermat Share.ShamirSM Share.PolyFacts Sig.Schnorr.
(* not imported (they define their own ed_p, ed_L, bn254_r, p256 ...): qualified names below *)
From Kyber Require CurveRef.Edwards CurveRef.Weierstrass Group.GLV.
Local Open Scope Z_scope.

(* ---- 1. fields ------------------------------------------------------ *)
Definition ed25519_scalar_field := zq_field ed_L prime_ed_L.
Definition ed25519_base_field   := zq_field ed_p prime_ed_p.
Definition p256_scalar_field    := zq_field p256_n prime_p256_n.
Definition p256_base_field      := zq_field p256_p prime_p256_p.
Definition bn256_scalar_field   := zq_field bn256_n prime_bn256_n.
Definition bn256_base_field     := zq_field bn256_p prime_bn256_p.
Definition bn254_scalar_field   := zq_field bn254_r prime_bn254_r.
Definition bn254_base_field     := zq_field bn254_p prime_bn254_p.
Definition bls12381_scalar_field := zq_field bls12381_r prime_bls12381_r.
Definition bls12381_base_field  := zq_field bls12381_p prime_bls12381_p.
Definition dlog61_scalar_field  := zq_field q61 prime_q61.

(* `field` now works on Ed25519 scalars without any hypothesis *)
Add Field ed25519F : ed25519_scalar_field.
Example ed25519_field_demo (a b : zq ed_L) :
  b <> zzero -> zmul (zdiv a b) b = a.
Proof. intros Hb. field. exact Hb. Qed.

(* ---- 2. the same numbers under the names used elsewhere in /verif ---- *)
Lemma prime_q_ed25519 : prime q_ed25519.                 (* Scalar/ScalarSM.v *)
Proof. exact prime_ed_L. Qed.
Lemma prime_q_bls12381 : prime q_bls12381.               (* Scalar/ScalarSM.v *)
Proof. exact prime_bls12381_r. Qed.
Lemma prime_curveref_ed_p : prime CurveRef.Edwards.ed_p. (* CurveRef/Edwards.v *)
Proof. exact prime_ed_p. Qed.
Lemma prime_curveref_ed_L : prime CurveRef.Edwards.ed_L.
Proof. exact prime_ed_L. Qed.
Lemma prime_glv_bn254_r : prime Group.GLV.bn254_r.       (* Group/GLV.v *)
Proof. exact prime_bn254_r. Qed.

Lemma prime_w_p256 : prime (Weierstrass.w_p Weierstrass.p256) /\ prime (Weierstrass.w_n Weierstrass.p256).   (* CurveRef/Weierstrass.v *)
Proof.
  replace (Weierstrass.w_p Weierstrass.p256) with p256_p by (vm_compute; reflexivity).
  replace (Weierstrass.w_n Weierstrass.p256) with p256_n by (vm_compute; reflexivity).
  split; [exact prime_p256_p | exact prime_p256_n].
Qed.
Lemma prime_w_bn256 : prime (Weierstrass.w_p Weierstrass.bn256) /\ prime (Weierstrass.w_n Weierstrass.bn256).
Proof.
  replace (Weierstrass.w_p Weierstrass.bn256) with bn256_p by (vm_compute; reflexivity).
  replace (Weierstrass.w_n Weierstrass.bn256) with bn256_n by (vm_compute; reflexivity).
  split; [exact prime_bn256_p | exact prime_bn256_n].
Qed.
Lemma prime_w_bn254 : prime (Weierstrass.w_p Weierstrass.bn254) /\ prime (Weierstrass.w_n Weierstrass.bn254).
Proof. split; [exact prime_bn254_p | exact prime_bn254_r]. Qed.

(* ---- 3. protocol theorems without the primality premise -------------- *)

(* C02: Fermat's little theorem and the coded Fermat inversion (scalar.go Inv,
   CIRCL expVarTime) for the real Ed25519 / BLS12-381 scalar fields *)
Theorem ed25519_fermat (a : zq q_ed25519) : a <> zzero -> zpow a (q_ed25519 - 1) = zone.
Proof. exact (fermat_little q_ed25519 prime_q_ed25519 a). Qed.

Theorem ed25519_inv_is_inverse (a : zq q_ed25519) :
  a <> zzero -> inv_impl IEd a = zinv a /\ zmul (zinv a) a = zone.
Proof.
  intros Ha. split.
  - apply (inv_fermat_spec q_ed25519 prime_q_ed25519 256 a); [vm_compute; reflexivity|exact Ha].
  - apply (zinv_l q_ed25519 prime_q_ed25519 a Ha).
Qed.

Theorem bls12381_inv_is_inverse (a : zq q_bls12381) :
  a <> zzero -> inv_impl ICircl a = zinv a /\ zmul (zinv a) a = zone.
Proof.
  intros Ha. split.
  - apply (inv_fermat_spec q_bls12381 prime_q_bls12381 256 a); [vm_compute; reflexivity|exact Ha].
  - apply (zinv_l q_bls12381 prime_q_bls12381 a Ha).
Qed.

(* no zero divisors in the Ed25519 base field (the premise of the point
   round-trip / decode theorems) *)
Theorem ed25519_base_no_zero_divisors (a b : zq ed_p) :
  zmul a b = zzero -> a = zzero \/ b = zzero.
Proof. exact (zmul_eq_0 ed_p prime_ed_p a b). Qed.

(* C07: uniqueness of polynomial interpolation (the core of Shamir recovery)
   over the real Ed25519 scalar field *)
Theorem ed25519_interp_unique (xs p r : list (zq ed_L)) :
  NoDup xs -> length p = length r -> (length p <= length xs)%nat ->
  (forall x, In x xs -> peval p x = peval r x) -> p = r.
Proof. exact (interp_unique ed_L prime_ed_L xs p r). Qed.

(* C08: for the group of order L of Ed25519, whatever the point encoding and the
   hash, a Schnorr verification equation has exactly one accepting s *)
Theorem ed25519_schnorr_s_unique (penc : zq ed_L -> list Z) (Hc : list Z -> zq ed_L)
    (A : zq ed_L) (m : list Z) (R s s' : zq ed_L) :
  schnorr_eq ed_L penc Hc A m R s = true -> schnorr_eq ed_L penc Hc A m R s' = true -> s = s'.
Proof. exact (schnorr_s_unique ed_L prime_ed_L penc Hc A m R s s'). Qed.

Print Assumptions ed25519_scalar_field.
Print Assumptions ed25519_schnorr_s_unique.
Print Assumptions ed25519_inv_is_inverse.
Print Assumptions bls12381_inv_is_inverse.
Print Assumptions ed25519_interp_unique.
Print Assumptions prime_w_p256.
Print Assumptions prime_w_bn256.
Print Assumptions prime_w_bn254.
