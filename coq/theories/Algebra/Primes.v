(* Primality of the concrete moduli used by kyber, axiom-free:

     prime_f65537, prime_q61                      (PrimesSmall)
     prime_ed_p, prime_ed_L                       (PrimesEd)
     prime_p256_p, prime_p256_n                   (PrimesP256)
     prime_bn256_p, prime_bn256_n,
     prime_bn254_p, prime_bn254_r                 (PrimesBN)
     prime_bls12381_r, prime_bls12381_p           (PrimesBLS)
     prime_qr512_P_partial : prime qr512_Q -> prime qr512_P   (PrimesQR; Q open)

   Bonus, not re-exported here (slower to build, about 1-2 min):
   Algebra/PrimesEdExtra.v: the fields and subgroup orders of the other curves of
   group/edwards25519vartime/param.go: prime_c1174_p, prime_c1174_q,
   prime_c41417_p, prime_c41417_q, prime_e521_p, prime_e521_q  (E-382: open).

   Each is `check_cert_sound` (Algebra/Pocklington.v) applied to a certificate
   tree evaluated by vm_compute (Pocklington with factored part F, F^2 > N, or
   the Brillhart-Lehmer-Selfridge refinement F^3 > N plus a non-square
   discriminant).  The files are separate so that they build in parallel
   (about 10-30 s each).  Loading the .vo files costs nothing.
   Usage: Algebra/PrimesUse.v. *)
From Coq Require Import ZArith.
From Kyber Require Export Algebra.Pocklington
  Algebra.PrimesSmall Algebra.PrimesEd Algebra.PrimesP256 Algebra.PrimesBN
  Algebra.PrimesBLS Algebra.PrimesQR.

(* sanity of the checker: composite numbers and wrong witnesses are rejected *)
Local Open Scope Z_scope.
Example check_cert_rejects_composite_leaf : check_cert (Small 91) = false.
Proof. vm_compute. reflexivity. Qed.
Example check_cert_rejects_carmichael_561 :   (* 2^560 = 1 mod 561, but the gcd test fails *)
  check_cert (Pock 561 (FCons (Small 2) 4 2 (FCons (Small 5) 1 2 (FCons (Small 7) 1 2 FNil)))) = false.
Proof. vm_compute. reflexivity. Qed.
Example check_cert_rejects_small_F :          (* 65537 with F = 2^5 only: F^3 < N *)
  check_cert (Pock 65537 (FCons (Small 2) 5 3 FNil)) = false.
Proof. vm_compute. reflexivity. Qed.
Example check_cert_accepts_cube_root_F :      (* F = 2^8: F^2 < N < F^3, discriminant test (BLS refinement) *)
  check_cert (Pock 65537 (FCons (Small 2) 8 3 FNil)) = true.
Proof. vm_compute. reflexivity. Qed.
(* 18721 = 97 * 193, both factors are 1 mod F = 32, F^2 < N < F^3; the witness 14
   passes BOTH Pocklington tests (14^(N-1) = 1, gcd (14^((N-1)/2) - 1, N) = 1), and
   only the discriminant test rejects: (N-1)/F = 18*32 + 9, 9^2 - 4*18 = 3^2 *)
Example check_cert_rejects_square_discriminant :
  check_cert (Pock 18721 (FCons (Small 2) 5 14 FNil)) = false /\
  check_factors 18721 (FCons (Small 2) 5 14 FNil) = Some 32.
Proof. vm_compute. split; reflexivity. Qed.
