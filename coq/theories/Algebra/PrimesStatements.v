(* The primality theorems of Algebra/Primes.v with every number written out
   (props-file style: statement only, proof by `exact`; the framework owner can
   copy this file to coq/props/).  All "Closed under the global context". *)
From Coq Require Import ZArith Znumtheory.
From Kyber Require Import Algebra.Primes.
Local Open Scope Z_scope.

(* harness dlog group order (vh.Q61) and the Fermat prime F4 *)
Theorem G1_prime_2_61_m1 : prime (2 ^ 61 - 1).
Proof. exact prime_q61. Qed.
Theorem G1_prime_65537 : prime 65537.
Proof. exact prime_f65537. Qed.

(* Ed25519: field, order of the base point (group/edwards25519/const.go) *)
Theorem G1_prime_ed25519_field : prime (2 ^ 255 - 19).
Proof. exact prime_ed_p. Qed.
Theorem G1_prime_ed25519_order : prime (2 ^ 252 + 27742317777372353535851937790883648493).
Proof. exact prime_ed_L. Qed.
Theorem G1_prime_ed25519_order_decimal :
  prime 7237005577332262213973186563042994240857116359379907606001950938285454250989.
Proof. rewrite <- ed_L_decimal. exact prime_ed_L. Qed.

(* NIST P-256 *)
Theorem G1_prime_p256_field :
  prime 115792089210356248762697446949407573530086143415290314195533631308867097853951.
Proof. rewrite <- p256_p_decimal. exact prime_p256_p. Qed.
Theorem G1_prime_p256_order :
  prime 115792089210356248762697446949407573529996955224135760342422259061068512044369.
Proof. rewrite <- p256_n_decimal. exact prime_p256_n. Qed.

(* BN256 of pairing/bn256 (u = 1868033^3): p and Order of constants.go *)
Theorem G1_prime_bn256_field :
  prime 65000549695646603732796438742359905742825358107623003571877145026864184071783.
Proof. rewrite <- (proj1 (proj2 bn256_decimal)). exact prime_bn256_p. Qed.
Theorem G1_prime_bn256_order :
  prime 65000549695646603732796438742359905742570406053903786389881062969044166799969.
Proof. rewrite <- (proj2 (proj2 bn256_decimal)). exact prime_bn256_n. Qed.

(* BN254 / alt_bn128 of pairing/bn254: p and Order of constants.go *)
Theorem G1_prime_bn254_field :
  prime 21888242871839275222246405745257275088696311157297823662689037894645226208583.
Proof. exact prime_bn254_p. Qed.
Theorem G1_prime_bn254_order :
  prime 21888242871839275222246405745257275088548364400416034343698204186575808495617.
Proof. exact prime_bn254_r. Qed.

(* BLS12-381: scalar field order r, base field prime p *)
Theorem G1_prime_bls12381_r :
  prime 0x73eda753299d7d483339d80809a1d80553bda402fffe5bfeffffffff00000001.
Proof. exact prime_bls12381_r. Qed.
Theorem G1_prime_bls12381_p :
  prime 0x1a0111ea397fe69a4b1ba7b6434bacd764774b84f38512bf6730d2a0f6b0f6241eabfffeb153ffffb9feffffffffaaab.
Proof. exact prime_bls12381_p. Qed.

(* QR-512 test group (group/p256/qrsuite.go): P = 2Q+1; the primality of Q is open
   (see Algebra/PrimesQR.v), so this is a _partial *)
Theorem G1_prime_qr512_P_partial :
  prime 5099133861178675934299038070513690140208594154615901954959232152506056770707302268711370548280642524887896017588520836152823386566007063045571431221913131 ->
  prime 10198267722357351868598076141027380280417188309231803909918464305012113541414604537422741096561285049775792035177041672305646773132014126091142862443826263.
Proof. exact prime_qr512_P_partial. Qed.

(* the criterion and the checker *)
Theorem G1_pocklington : forall N ws,
  1 < N -> List.Forall (pock_witness N) ws -> pock_coprime ws ->
  N < pock_F ws * pock_F ws -> prime N.
Proof. exact pocklington_criterion. Qed.
Theorem G1_check_cert_sound : forall c, check_cert c = true -> prime (cert_N c).
Proof. exact check_cert_sound. Qed.
Theorem G1_pow_mod_spec : forall a e n, pow_mod a e n = a ^ e mod n.
Proof. exact pow_mod_spec. Qed.

Print Assumptions G1_prime_2_61_m1.
Print Assumptions G1_prime_65537.
Print Assumptions G1_prime_ed25519_field.
Print Assumptions G1_prime_ed25519_order.
Print Assumptions G1_prime_ed25519_order_decimal.
Print Assumptions G1_prime_p256_field.
Print Assumptions G1_prime_p256_order.
Print Assumptions G1_prime_bn256_field.
Print Assumptions G1_prime_bn256_order.
Print Assumptions G1_prime_bn254_field.
Print Assumptions G1_prime_bn254_order.
Print Assumptions G1_prime_bls12381_r.
Print Assumptions G1_prime_bls12381_p.
Print Assumptions G1_prime_qr512_P_partial.
Print Assumptions G1_pocklington.
Print Assumptions G1_check_cert_sound.
Print Assumptions G1_pow_mod_spec.
