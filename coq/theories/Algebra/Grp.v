(* Prime-order groups, modelled by discrete logarithms.

   Every group kyber's protocols compute in (the prime-order subgroup of
   Ed25519, P-256, the quadratic residues, G1/G2/GT of the pairing suites) is
   cyclic of prime order q, hence isomorphic as a Z_q-module to Z_q acting on
   itself (P |-> its discrete logarithm w.r.t. the base point).  A point is
   modelled by that logarithm; addition is field addition, scalar multiplication
   is field multiplication, the base point is 1 and a pairing is the field
   product of the logarithms (bilinear, non-degenerate).  Protocol equations
   thereby become ring / field identities.  The isomorphism is not computable:
   the correspondence harness therefore creates every point as a known
   multiple of the base point, or assigns a random logarithm to points of
   unknown logarithm (hash-to-group outputs) in the model run; equalities then
   agree except with probability about 1/q. *)
From Coq Require Import ZArith Znumtheory List Ring Field.
From Kyber Require Import Algebra.Zq.
Import ListNotations.

Section Grp.
  Variable q : Z.
  Notation F := (zq q).

  Notation point := F (only parsing).
  Definition pzero : point := zzero.
  Definition pbase : point := zone.
  Definition padd (a b : point) : point := zadd a b.
  Definition psub (a b : point) : point := zsub a b.
  Definition pneg (a : point) : point := zopp a.
  Definition smul (s : F) (p : point) : point := zmul s p.
  Definition peqb (a b : point) : bool := zeqb a b.
  (* pairing G1 x G2 -> GT, all three modelled by logarithms; GT written additively *)
  Definition pair (a b : point) : point := zmul a b.

  (* sums and linear combinations *)
  Definition psum (l : list point) : point := fold_right padd pzero l.
  Definition lincomb (cs : list F) (ps : list point) : point :=
    psum (map (fun cp => smul (fst cp) (snd cp)) (combine cs ps)).

  Add Ring zqR : (zq_ring q).

  (* the abelian-group and scalar-action laws (C01) hold for all operands *)
  Lemma padd_comm a b : padd a b = padd b a.          Proof. unfold padd. ring. Qed.
  Lemma padd_assoc a b c : padd a (padd b c) = padd (padd a b) c. Proof. unfold padd. ring. Qed.
  Lemma padd_zero a : padd a pzero = a.               Proof. unfold padd, pzero. ring. Qed.
  Lemma padd_neg a : padd a (pneg a) = pzero.         Proof. unfold padd, pneg, pzero. ring. Qed.
  Lemma psub_def a b : psub a b = padd a (pneg b).    Proof. unfold padd, pneg, psub. ring. Qed.
  Lemma smul_add_l s t p : smul (zadd s t) p = padd (smul s p) (smul t p). Proof. unfold smul, padd. ring. Qed.
  Lemma smul_add_r s a b : smul s (padd a b) = padd (smul s a) (smul s b). Proof. unfold smul, padd. ring. Qed.
  Lemma smul_mul s t p : smul s (smul t p) = smul (zmul s t) p. Proof. unfold smul. ring. Qed.
  Lemma smul_zero p : smul zzero p = pzero.            Proof. unfold smul, pzero. ring. Qed.
  Lemma smul_one p : smul zone p = p.                  Proof. unfold smul. ring. Qed.
  Lemma smul_pzero s : smul s pzero = pzero.           Proof. unfold smul, pzero. ring. Qed.
  Lemma smul_minus_one p : smul (zopp zone) p = pneg p. Proof. unfold smul, pneg. ring. Qed.
  Lemma pair_bilinear a b u v : pair (smul a u) (smul b v) = smul (zmul a b) (pair u v).
  Proof. unfold pair, smul. ring. Qed.
  Lemma pair_add_l u u' v : pair (padd u u') v = padd (pair u v) (pair u' v). Proof. unfold pair, padd. ring. Qed.
  Lemma pair_add_r u v v' : pair u (padd v v') = padd (pair u v) (pair u v'). Proof. unfold pair, padd. ring. Qed.
  Lemma pair_zero_l v : pair pzero v = pzero. Proof. unfold pair, pzero. ring. Qed.
  Lemma pair_zero_r u : pair u pzero = pzero. Proof. unfold pair, pzero. ring. Qed.
End Grp.

Arguments padd {q} a b.
Arguments psub {q} a b.
Arguments pneg {q} a.
Arguments smul {q} s p.
Arguments peqb {q} a b.
Arguments pair {q} a b.
Arguments pzero {q}.
Arguments pbase {q}.
Arguments psum {q} l.
Arguments lincomb {q} cs ps.

(* template: how a protocol file gets [ring] and [field] for prime q *)
Section FieldDemo.
  Variable q : Z.
  Hypothesis q_prime : prime q.
  Add Field zqF : (zq_field q q_prime).
  Lemma demo_field (a b : zq q) : b <> zzero -> zmul (zdiv a b) b = a.
  Proof. intros Hb. field. exact Hb. Qed.
End FieldDemo.
