(* The 512-bit quadratic-residue test group of kyber (group/p256/qrsuite.go,
   NewBlakeSHA256QR512):  P = 2*Q + 1, subgroup order Q.

   FULL STATEMENTS WANTED (not proved here):

     Theorem prime_qr512_Q : prime qr512_Q.
     Theorem prime_qr512_P : prime qr512_P.

   What is missing: Q is a random 511-bit prime.  Q-1 = 2 * 5 * 409 * 54206833 * C143
   and Q+1 = 2^2 * 3 * C153, where the composite cofactors C143 / C153 have no
   prime factor below 2^22 and survived, each, 600 ECM curves at B1 = 5*10^4
   and 1400 curves at B1 = 2.5*10^5 (build/g1/ecm.c; i.e. very probably no
   factor below 30 digits).  The factored part of Q-1 has 37 bits, far below
   the 256 bits Pocklington needs (171 bits with the Brillhart-Lehmer-Selfridge
   refinement that Pocklington.v also checks).  A proof needs an elliptic-curve
   (ECPP / Goldwasser-Kilian) certificate checker, i.e. the group law of
   Weierstrass curves over F_p and a point-counting bound in Coq; not built.

   What IS proved (no axioms):
     prime_qr512_P_partial : prime qr512_Q -> prime qr512_P
   by Pocklington's criterion with F = Q (P - 1 = 2*Q, witness 2), so the only
   open premise for the whole group is the primality of Q; and
     qr512_P_safe : qr512_P = 2 * qr512_Q + 1,
     qr512_Q_fermat_2 : 2^(Q-1) = 1 (mod Q)   (Q is a base-2 Fermat probable
     prime; evidence, not a proof). *)
From Coq Require Import ZArith Znumtheory List Lia.
From Kyber Require Import Algebra.Pocklington.
Import ListNotations.
Local Open Scope Z_scope.

Definition qr512_P : Z :=
  10198267722357351868598076141027380280417188309231803909918464305012113541414604537422741096561285049775792035177041672305646773132014126091142862443826263.
Definition qr512_Q : Z :=
  5099133861178675934299038070513690140208594154615901954959232152506056770707302268711370548280642524887896017588520836152823386566007063045571431221913131.

Lemma qr512_P_safe : qr512_P = 2 * qr512_Q + 1.
Proof. vm_compute. reflexivity. Qed.

Lemma qr512_P_fermat_2 : pow_mod 2 (qr512_P - 1) qr512_P = 1.
Proof. vm_cast_no_check (eq_refl 1). Qed.

Theorem prime_qr512_P_partial : prime qr512_Q -> prime qr512_P.
Proof.
  intros HQ.
  apply (pocklington_criterion qr512_P [(qr512_Q, 1, 2)]).
  - vm_compute. reflexivity.
  - constructor; [|constructor]. unfold pock_witness.
    split; [exact HQ|]. split; [lia|]. split; [|split].
    + exists 2. rewrite Z.pow_1_r. rewrite qr512_P_safe. ring.
    + rewrite <- pow_mod_spec. exact qr512_P_fermat_2.
    + replace ((qr512_P - 1) / qr512_Q) with 2 by (vm_compute; reflexivity).
      vm_compute. reflexivity.
  - cbn [pock_coprime pock_F]. split; [apply Z.gcd_1_r|exact I].
  - vm_compute. reflexivity.
Qed.

Lemma qr512_Q_fermat_2 : 2 ^ (qr512_Q - 1) mod qr512_Q = 1.
Proof. rewrite <- pow_mod_spec. vm_cast_no_check (eq_refl 1). Qed.

Print Assumptions prime_qr512_P_partial.
Print Assumptions qr512_Q_fermat_2.
