(* Pocklington's primality criterion, proved from stdlib Znumtheory and the
   Fermat little theorem of Scalar/Fermat.v (which is itself derived from the
   field laws of Algebra/Zq.v), and a reflective checker for Pocklington
   certificate trees:

     check_cert c = true -> prime (cert_N c).

   Statement of the criterion (pocklington_criterion): let 1 < N, and let F be a
   product of pairwise coprime prime powers p^e, each dividing N-1, such that
   for every such p there is a witness a with a^(N-1) = 1 (mod N) and
   gcd (a^((N-1)/p) - 1, N) = 1.  If N < F*F then N is prime.

   No axioms. *)
From Coq Require Import ZArith Znumtheory Zpow_facts Lia Bool List.
From Kyber Require Import Algebra.Zq Scalar.Fermat.
Local Open Scope Z_scope.

(* ------------------------------------------------------------------ *)
(* 1. Fermat's little theorem on integers                              *)

Lemma val_zpow q a e : 1 < q -> 0 <= e -> val (zpow (of_Z q a) e) = a ^ e mod q.
Proof.
  intros Hq He. revert e He. apply natlike_ind.
  - rewrite zpow_0. unfold zone. rewrite val_of_Z. reflexivity.
  - intros e He IH. replace (Z.succ e) with (e + 1) by lia.
    rewrite zpow_succ by lia. unfold zmul at 1. rewrite val_of_Z, IH, val_of_Z.
    rewrite <- Zmult_mod. rewrite Z.pow_add_r by lia. rewrite Z.pow_1_r.
    f_equal. ring.
Qed.

Theorem fermat_Z q a : prime q -> a mod q <> 0 -> a ^ (q - 1) mod q = 1.
Proof.
  intros Hp Ha. pose proof (prime_ge_2 q Hp) as Hq.
  assert (Hnz : of_Z q a <> zzero).
  { intros E. apply (f_equal val) in E. unfold zzero in E. rewrite !val_of_Z in E.
    rewrite Z.mod_0_l in E by lia. contradiction. }
  pose proof (fermat_little q Hp (of_Z q a) Hnz) as Fl.
  apply (f_equal val) in Fl. rewrite val_zpow in Fl by lia.
  unfold zone in Fl. rewrite val_of_Z in Fl. rewrite Z.mod_1_l in Fl by lia. exact Fl.
Qed.

(* ------------------------------------------------------------------ *)
(* 2. Exponents of 1 modulo q are closed under multiples and gcd        *)

Lemma pow_mod_mul q a x k : 1 < q -> 0 <= x -> 0 <= k ->
  a ^ x mod q = 1 -> a ^ (x * k) mod q = 1.
Proof.
  intros Hq Hx Hk H. rewrite Z.pow_mul_r by lia.
  rewrite Zpower_mod by lia. rewrite H. rewrite Z.pow_1_l by lia.
  apply Z.mod_1_l. lia.
Qed.

Lemma pow_mod_gcd q a : 1 < q ->
  forall y, 0 <= y -> forall x, 0 <= x ->
  a ^ x mod q = 1 -> a ^ y mod q = 1 -> a ^ (Z.gcd x y) mod q = 1.
Proof.
  intros Hq y Hy. pattern y. apply Zlt_0_ind; [|exact Hy]. clear y Hy.
  intros y IH Hy x Hx Hax Hay.
  destruct (Z.eq_dec y 0) as [->|Hy0].
  - rewrite Z.gcd_0_r, Z.abs_eq by lia. exact Hax.
  - assert (Hr : 0 <= x mod y < y) by (apply Z.mod_pos_bound; lia).
    assert (Hxm : a ^ (x mod y) mod q = 1).
    { pose proof (Z.div_mod x y Hy0) as E.
      assert (Hd : 0 <= x / y) by (apply Z.div_pos; lia).
      rewrite E in Hax. rewrite Z.pow_add_r in Hax by nia.
      rewrite Zmult_mod in Hax. rewrite (pow_mod_mul q a y (x / y)) in Hax by (try lia; assumption).
      rewrite Z.mul_1_l, Zmod_mod in Hax. exact Hax. }
    specialize (IH (x mod y) Hr y ltac:(lia) Hay Hxm).
    rewrite Z.gcd_comm, Z.gcd_mod, Z.gcd_comm in IH by lia. exact IH.
Qed.

(* ------------------------------------------------------------------ *)
(* 3. Divisibility facts                                               *)

(* g | n, g does not divide n/p, p^e | n  ==>  p^e | g *)
Lemma ppow_divides p e n g : prime p -> 0 <= e ->
  (p ^ e | n) -> (g | n) -> ~ (g | n / p) -> (p ^ e | g).
Proof.
  intros Hp He Hpe [c Hc] Hnd. pose proof (prime_ge_2 p Hp) as Hp2.
  destruct (Zdivide_dec p c) as [[c' Hc']|Hpc].
  - exfalso. apply Hnd. exists c'. subst c. subst n.
    replace (c' * p * g) with (c' * g * p) by ring. rewrite Z.div_mul by lia. reflexivity.
  - apply (Gauss (p ^ e) c g).
    + rewrite <- Hc. exact Hpe.
    + replace c with (c ^ 1) by apply Z.pow_1_r.
      apply rel_prime_Zpower; try lia. apply prime_rel_prime; assumption.
Qed.

Lemma coprime_mul_divide a b m : Z.gcd a b = 1 -> (a | m) -> (b | m) -> (a * b | m).
Proof.
  intros G [k Hk] Hb. subst m.
  assert (Hbk : (b | k)).
  { apply (Gauss b a k).
    - rewrite Z.mul_comm. exact Hb.
    - apply Zgcd_1_rel_prime. rewrite Z.gcd_comm. exact G. }
  destruct Hbk as [j Hj]. exists j. subst k. ring.
Qed.

Lemma prime_divisor n : 1 < n -> exists q, prime q /\ (q | n).
Proof.
  intros Hn. assert (H0 : 0 <= n) by lia. revert Hn. pattern n.
  apply Zlt_0_ind; [|exact H0]. clear n H0. intros n IH _ Hn.
  destruct (prime_dec n) as [Hp|Hnp].
  - exists n. split; [exact Hp|apply Z.divide_refl].
  - destruct (not_prime_divide n Hn Hnp) as [d [Hd Hdn]].
    destruct (IH d ltac:(lia) ltac:(lia)) as [q [Hq Hqd]].
    exists q. split; [exact Hq|]. eapply Z.divide_trans; eassumption.
Qed.

(* N is prime as soon as it has no divisor s with 1 < s and s*s <= N *)
Lemma prime_no_small_divisor N : 1 < N ->
  (forall s, 1 < s -> s * s <= N -> ~ (s | N)) -> prime N.
Proof.
  intros HN H. apply prime_alt. split; [exact HN|].
  intros n Hn [m Hm].
  assert (Hm1 : 1 < m) by nia.
  destruct (Z_le_gt_dec n m) as [L|G].
  - apply (H n); [lia|nia|]. exists m. exact Hm.
  - apply (H m); [lia|nia|]. exists n. lia.
Qed.

(* ------------------------------------------------------------------ *)
(* 4. Pocklington                                                      *)

(* the core step: one prime power of the factored part divides q-1 for every
   prime divisor q of N *)
Lemma pock_step N q p e a :
  1 < N -> prime q -> (q | N) -> prime p -> 0 <= e -> (p ^ e | N - 1) ->
  a ^ (N - 1) mod N = 1 ->
  Z.gcd (a ^ ((N - 1) / p) mod N - 1) N = 1 ->
  (p ^ e | q - 1).
Proof.
  intros HN Hq HqN Hp He Hpe Ha Hg.
  pose proof (prime_ge_2 q Hq) as Hq2. pose proof (prime_ge_2 p Hp) as Hp2.
  assert (HqleN : q <= N) by (apply Z.divide_pos_le; [lia|exact HqN]).
  (* a^(N-1) = 1 mod q *)
  assert (H1 : a ^ (N - 1) mod q = 1).
  { rewrite (Zmod_div_mod q N) by (try lia; exact HqN). rewrite Ha. apply Z.mod_1_l. lia. }
  (* q does not divide a *)
  assert (Hanz : a mod q <> 0).
  { intros E. rewrite Zpower_mod in H1 by lia. rewrite E in H1.
    rewrite Z.pow_0_l in H1 by lia. rewrite Z.mod_0_l in H1 by lia. discriminate. }
  pose proof (fermat_Z q a Hq Hanz) as H2.
  set (g := Z.gcd (N - 1) (q - 1)).
  assert (Hag : a ^ g mod q = 1) by (apply pow_mod_gcd; try lia; assumption).
  assert (Hg0 : 0 <= g) by apply Z.gcd_nonneg.
  assert (HgN : (g | N - 1)) by apply Z.gcd_divide_l.
  assert (Hgq : (g | q - 1)) by apply Z.gcd_divide_r.
  apply Z.divide_trans with g; [|exact Hgq].
  apply (ppow_divides p e (N - 1) g); try assumption.
  intros [k Hk].
  assert (Hdiv : 0 <= (N - 1) / p) by (apply Z.div_pos; lia).
  assert (Hgpos : 0 < g).
  { destruct (Z.eq_dec g 0) as [E|]; [|lia]. destruct HgN as [c Hc]. rewrite E in Hc. lia. }
  assert (Hk0 : 0 <= k) by nia.
  assert (HX : a ^ ((N - 1) / p) mod q = 1).
  { rewrite Hk, Z.mul_comm. apply pow_mod_mul; first [lia | exact Hag]. }
  set (X := a ^ ((N - 1) / p)) in *.
  assert (HqX : (q | X mod N - 1)).
  { apply Z.mod_divide; [lia|].
    rewrite Zminus_mod. rewrite <- (Zmod_div_mod q N) by (try lia; exact HqN).
    rewrite HX. rewrite Z.mod_1_l by lia. reflexivity. }
  pose proof (Z.gcd_greatest _ _ _ HqX HqN) as Hq1. rewrite Hg in Hq1.
  apply Z.divide_1_r_nonneg in Hq1; lia.
Qed.

(* the criterion, given the conclusion of pock_step for the whole factored part F *)
Lemma pock_final N F : 1 < N -> 0 < F -> N < F * F ->
  (forall q, prime q -> (q | N) -> (F | q - 1)) -> prime N.
Proof.
  intros HN HF HFF H. apply prime_no_small_divisor; [exact HN|].
  intros s Hs Hss Hsd.
  destruct (prime_divisor s Hs) as [q [Hq Hqs]].
  pose proof (prime_ge_2 q Hq) as Hq2.
  assert (Hqle : q <= s) by (apply Z.divide_pos_le; [lia|exact Hqs]).
  assert (HqN : (q | N)) by (eapply Z.divide_trans; eassumption).
  pose proof (H q Hq HqN) as HFq.
  assert (F <= q - 1) by (apply Z.divide_pos_le; [lia|exact HFq]).
  nia.
Qed.

(* Brillhart-Lehmer-Selfridge refinement: a factored part F with N < F^3 is
   enough, provided a discriminant is not a perfect square.  If N = d1*d2 were
   composite, d_i = a_i*F + 1, then (N-1)/F = a1*a2*F + (a1+a2) with
   a1+a2 < F, so that r^2 - 4 s = (a1-a2)^2 for s, r the quotient and
   remainder of (N-1)/F by F. *)
Lemma divisors_1_mod_F N F :
  (forall q, prime q -> (q | N) -> (F | q - 1)) ->
  forall d, 0 < d -> (d | N) -> (F | d - 1).
Proof.
  intros H d Hd. assert (H0 : 0 <= d) by lia. revert Hd. pattern d.
  apply Zlt_0_ind; [|exact H0]. clear d H0. intros d IH _ Hd HdN.
  destruct (Z.eq_dec d 1) as [->|Hd1]; [exists 0; reflexivity|].
  destruct (prime_divisor d ltac:(lia)) as [q [Hq [k Hk]]].
  pose proof (prime_ge_2 q Hq) as Hq2.
  assert (Hk0 : 0 < k) by nia.
  assert (HkN : (k | N)).
  { apply Z.divide_trans with d; [|exact HdN]. exists q. lia. }
  assert (HqN : (q | N)).
  { apply Z.divide_trans with d; [|exact HdN]. exists k. exact Hk. }
  pose proof (IH k ltac:(nia) Hk0 HkN) as Fk. pose proof (H q Hq HqN) as Fq.
  replace (d - 1) with ((k - 1) * q + (q - 1)) by (subst d; ring).
  apply Z.divide_add_r; [apply Z.divide_mul_l; exact Fk|exact Fq].
Qed.

Definition is_square (D : Z) : bool := (0 <=? D) && (Z.sqrt D * Z.sqrt D =? D).

Lemma is_square_false D : is_square D = false -> forall t, t * t <> D.
Proof.
  unfold is_square. intros H t E.
  destruct (0 <=? D) eqn:E0; cbn [andb] in H.
  - apply Z.eqb_neq in H. apply H.
    assert (Hs : Z.sqrt D = Z.abs t).
    { rewrite <- E. rewrite <- (Z.abs_square t). apply Z.sqrt_square. apply Z.abs_nonneg. }
    rewrite Hs, Z.abs_square. exact E.
  - apply Z.leb_gt in E0. nia.
Qed.

Lemma pock_final3 N F : 1 < N -> 0 < F -> (F | N - 1) -> N < F * F * F ->
  (forall q, prime q -> (q | N) -> (F | q - 1)) ->
  (forall t, t * t <> ((N - 1) / F mod F) * ((N - 1) / F mod F) - 4 * ((N - 1) / F / F)) ->
  prime N.
Proof.
  intros HN HF HFN H3 H Hsq.
  destruct (prime_dec N) as [|Hnp]; [assumption|exfalso].
  destruct (not_prime_divide N HN Hnp) as [d1 [Hd1 [d2 Hd2]]].
  assert (Hd2' : 1 < d2) by nia.
  destruct (divisors_1_mod_F N F H d1 ltac:(lia) ltac:(exists d2; exact Hd2)) as [a1 Ha1].
  destruct (divisors_1_mod_F N F H d2 ltac:(lia) ltac:(exists d1; lia)) as [a2 Ha2].
  assert (A1 : 1 <= a1) by nia. assert (A2 : 1 <= a2) by nia.
  assert (E1 : d1 = a1 * F + 1) by lia. assert (E2 : d2 = a2 * F + 1) by lia.
  assert (EN : N - 1 = (a1 * a2 * F + (a1 + a2)) * F) by (rewrite Hd2, E1, E2; ring).
  assert (HR : (N - 1) / F = a1 * a2 * F + (a1 + a2)) by (rewrite EN; apply Z.div_mul; lia).
  assert (P : a1 * a2 < F).
  { assert (a1 * a2 * (F * F) < F * (F * F)) by nia.
    apply Z.mul_lt_mono_pos_r with (F * F); nia. }
  assert (S : a1 + a2 < F).
  { assert (0 <= (a1 - 1) * (a2 - 1)) by nia.
    destruct (Z.eq_dec (a1 + a2) F) as [EF|]; [|nia].
    assert (Z0 : (a1 - 1) * (a2 - 1) = 0) by nia.
    apply Z.mul_eq_0 in Z0. destruct Z0 as [Z0|Z0].
    - assert (a1 = 1) by lia. subst a1. assert (a2 = F - 1) by lia. subst a2. nia.
    - assert (a2 = 1) by lia. subst a2. assert (a1 = F - 1) by lia. subst a1. nia. }
  assert (Hs : (N - 1) / F / F = a1 * a2).
  { rewrite HR. symmetry. apply (Z.div_unique_pos _ _ _ (a1 + a2)); lia. }
  assert (Hr : (N - 1) / F mod F = a1 + a2).
  { rewrite HR. symmetry. apply (Z.mod_unique_pos _ _ (a1 * a2)); lia. }
  apply (Hsq (a1 - a2)). rewrite Hs, Hr. ring.
Qed.

(* classical list form *)
Definition pock_witness (N : Z) (w : Z * Z * Z) : Prop :=
  let '(p, e, a) := w in
  prime p /\ 0 <= e /\ (p ^ e | N - 1) /\ a ^ (N - 1) mod N = 1 /\
  Z.gcd (a ^ ((N - 1) / p) mod N - 1) N = 1.

Fixpoint pock_F (ws : list (Z * Z * Z)) : Z :=
  match ws with
  | nil => 1
  | (p, e, _) :: r => p ^ e * pock_F r
  end.

Fixpoint pock_coprime (ws : list (Z * Z * Z)) : Prop :=
  match ws with
  | nil => True
  | (p, e, _) :: r => Z.gcd (p ^ e) (pock_F r) = 1 /\ pock_coprime r
  end.

Lemma pock_F_divides N q ws : 1 < N -> prime q -> (q | N) ->
  Forall (pock_witness N) ws -> pock_coprime ws -> (pock_F ws | q - 1).
Proof.
  intros HN Hq HqN. induction ws as [|[[p e] a] r IH]; intros HW HC.
  - cbn. apply Z.divide_1_l.
  - cbn [pock_F]. inversion HW as [|? ? Hw Hr]; subst. destruct HC as [G HC].
    destruct Hw as (Hp & He & Hpe & Ha & Hg).
    apply coprime_mul_divide; [exact G| |apply IH; assumption].
    eapply pock_step; eassumption.
Qed.

Theorem pocklington_criterion N ws :
  1 < N -> Forall (pock_witness N) ws -> pock_coprime ws ->
  N < pock_F ws * pock_F ws -> prime N.
Proof.
  intros HN HW HC HF.
  assert (Hpos : 0 < pock_F ws).
  { clear HC HF. induction HW as [|[[p e] a] r Hw Hr IH]; cbn [pock_F]; [lia|].
    destruct Hw as (Hp & He & _). pose proof (prime_ge_2 p Hp).
    apply Z.mul_pos_pos; [|exact IH]. apply Z.pow_pos_nonneg; lia. }
  apply (pock_final N (pock_F ws)); try assumption.
  intros q Hq HqN. apply pock_F_divides with N; assumption.
Qed.

(* ------------------------------------------------------------------ *)
(* 5. Fast modular exponentiation                                      *)

Fixpoint pow_mod_pos (a : Z) (e : positive) (n : Z) : Z :=
  match e with
  | xH => a mod n
  | xO e' => let b := pow_mod_pos a e' n in (b * b) mod n
  | xI e' => let b := pow_mod_pos a e' n in ((b * b) mod n * a) mod n
  end.

Definition pow_mod (a e n : Z) : Z :=
  match e with
  | Z0 => 1 mod n
  | Zpos e => pow_mod_pos a e n
  | Zneg _ => 0 mod n
  end.

Lemma pow_mod_pos_spec a e n : pow_mod_pos a e n = a ^ Zpos e mod n.
Proof.
  induction e as [e IH|e IH|]; cbn [pow_mod_pos].
  - rewrite IH. rewrite Pos2Z.inj_xI.
    replace (2 * Z.pos e + 1) with (Z.pos e + Z.pos e + 1) by lia.
    rewrite !Z.pow_add_r by lia. rewrite Z.pow_1_r.
    rewrite <- Zmult_mod. rewrite Zmult_mod_idemp_l. reflexivity.
  - rewrite IH. rewrite Pos2Z.inj_xO.
    replace (2 * Z.pos e) with (Z.pos e + Z.pos e) by lia.
    rewrite Z.pow_add_r by lia. rewrite <- Zmult_mod. reflexivity.
  - rewrite Z.pow_1_r. reflexivity.
Qed.

Theorem pow_mod_spec a e n : pow_mod a e n = a ^ e mod n.
Proof.
  destruct e as [|e|e]; cbn [pow_mod].
  - reflexivity.
  - apply pow_mod_pos_spec.
  - reflexivity.
Qed.

(* ------------------------------------------------------------------ *)
(* 6. Trial division up to the square root (leaves of certificates)     *)

Fixpoint no_div (fuel : nat) (d p : Z) : bool :=
  match fuel with
  | O => false
  | S f => if p <? d * d then true
           else if p mod d =? 0 then false
           else no_div f (d + 1) p
  end.

Lemma no_div_sound fuel : forall d p, 2 <= d ->
  no_div fuel d p = true ->
  (forall k, 2 <= k < d -> ~ (k | p)) ->
  forall k, 2 <= k -> k * k <= p -> ~ (k | p).
Proof.
  induction fuel as [|f IH]; intros d p Hd H Hlow k Hk Hkk; cbn [no_div] in H; [discriminate|].
  destruct (p <? d * d) eqn:E1.
  - apply Z.ltb_lt in E1. apply Hlow. nia.
  - destruct (p mod d =? 0) eqn:E2; [discriminate|].
    apply Z.eqb_neq in E2.
    apply (IH (d + 1) p); try assumption; try lia.
    intros j Hj. destruct (Z.eq_dec j d) as [->|]; [|apply Hlow; lia].
    intros D. apply E2. apply Z.mod_divide; [lia|exact D].
Qed.

Definition small_prime (p : Z) : bool := (1 <? p) && no_div 400 2 p.

Lemma small_prime_sound p : small_prime p = true -> prime p.
Proof.
  unfold small_prime. intros H. apply andb_true_iff in H. destruct H as [H1 H2].
  apply Z.ltb_lt in H1. apply prime_no_small_divisor; [exact H1|].
  intros s Hs Hss. apply (no_div_sound 400 2 p); [lia|exact H2| |lia|exact Hss].
  intros k Hk. lia.
Qed.

(* ------------------------------------------------------------------ *)
(* 7. Certificate trees and their checker                              *)

(* Small p        : p is prime by trial division (p < 160000)
   Pock N fs      : Pocklington certificate for N; fs lists, for every prime
                    power p^e of the factored part of N-1, the certificate of p,
                    the exponent e and the witness a *)
Inductive cert : Set :=
| Small (p : Z)
| Pock (N : Z) (fs : factors)
with factors : Set :=
| FNil
| FCons (c : cert) (e a : Z) (rest : factors).

Scheme cert_mut := Induction for cert Sort Prop
  with factors_mut := Induction for factors Sort Prop.

Definition cert_N (c : cert) : Z :=
  match c with Small p => p | Pock N _ => N end.

Fixpoint check_cert (c : cert) : bool :=
  match c with
  | Small p => small_prime p
  | Pock N fs =>
      (1 <? N) &&
      match check_factors N fs with
      | Some F =>
          (N <? F * F) ||
          ((N <? F * F * F) &&
           negb (let R := (N - 1) / F in is_square ((R mod F) * (R mod F) - 4 * (R / F))))
      | None => false
      end
  end
with check_factors (N : Z) (fs : factors) : option Z :=
  match fs with
  | FNil => Some 1
  | FCons c e a rest =>
      let p := cert_N c in
      let pe := p ^ e in
      let b := pow_mod a ((N - 1) / p) N in
      if check_cert c && (0 <? e) && ((N - 1) mod pe =? 0)
         && (pow_mod b p N =? 1)
         && (Z.gcd (b - 1) N =? 1)
      then match check_factors N rest with
           | Some F => if Z.gcd pe F =? 1 then Some (pe * F) else None
           | None => None
           end
      else None
  end.

Theorem check_cert_sound c : check_cert c = true -> prime (cert_N c).
Proof.
  revert c.
  apply (cert_mut
    (fun c => check_cert c = true -> prime (cert_N c))
    (fun fs => forall N F, 1 < N -> check_factors N fs = Some F ->
               0 < F /\ (F | N - 1) /\ forall q, prime q -> (q | N) -> (F | q - 1))).
  - intros p H. cbn in *. apply small_prime_sound. exact H.
  - intros N fs IH H. cbn [check_cert cert_N] in *.
    apply andb_true_iff in H. destruct H as [HN H]. apply Z.ltb_lt in HN.
    destruct (check_factors N fs) as [F|] eqn:E; [|discriminate].
    destruct (IH N F HN E) as [HF [HFN Hq]].
    apply orb_true_iff in H. destruct H as [H|H].
    + apply Z.ltb_lt in H. apply (pock_final N F); assumption.
    + apply andb_true_iff in H. destruct H as [H3 Hsq]. apply Z.ltb_lt in H3.
      apply negb_true_iff in Hsq. cbv zeta in Hsq.
      apply (pock_final3 N F); try assumption.
      apply is_square_false. exact Hsq.
  - intros N F HN H. cbn in H. injection H as <-. split; [lia|]. split; [apply Z.divide_1_l|].
    intros q _ _. apply Z.divide_1_l.
  - intros c IHc e a rest IHr N F HN H. cbn [check_factors] in H.
    set (p := cert_N c) in *. set (pe := p ^ e) in *.
    set (b := pow_mod a ((N - 1) / p) N) in *. cbv zeta in H.
    destruct (check_cert c && (0 <? e) && ((N - 1) mod pe =? 0)
              && (pow_mod b p N =? 1)
              && (Z.gcd (b - 1) N =? 1)) eqn:C; [|discriminate].
    repeat (apply andb_true_iff in C; destruct C as [C ?]).
    destruct (check_factors N rest) as [F'|] eqn:E; [|discriminate].
    destruct (Z.gcd pe F' =? 1) eqn:G; [|discriminate]. injection H as <-.
    apply Z.eqb_eq in G.
    destruct (IHr N F' HN E) as [HF' [HFN' Hq']].
    pose proof (IHc C) as Hp. fold p in Hp. pose proof (prime_ge_2 p Hp) as Hp2.
    match goal with H : (0 <? e) = true |- _ => apply Z.ltb_lt in H end.
    repeat match goal with H : (_ =? _) = true |- _ => apply Z.eqb_eq in H end.
    assert (Hpe : 0 < pe) by (apply Z.pow_pos_nonneg; lia).
    assert (Hdpe : (pe | N - 1)) by (apply Z.mod_divide; [lia|assumption]).
    assert (Hdp : (p | N - 1)).
    { apply Z.divide_trans with pe; [|exact Hdpe]. exists (p ^ (e - 1)).
      unfold pe. replace e with (e - 1 + 1) at 1 by lia.
      rewrite Z.pow_add_r by lia. rewrite Z.pow_1_r. reflexivity. }
    assert (Hb : b = a ^ ((N - 1) / p) mod N) by apply pow_mod_spec.
    split; [nia|]. split; [apply coprime_mul_divide; assumption|].
    intros q Hq HqN. apply coprime_mul_divide; [exact G| |apply Hq'; assumption].
    apply (pock_step N q p e a); try assumption; try lia.
    + (* a^(N-1) = (a^((N-1)/p))^p *)
      match goal with H : pow_mod b p N = 1 |- _ => rewrite pow_mod_spec in H; rename H into Hbp end.
      rewrite Hb in Hbp. rewrite <- Zpower_mod in Hbp by lia.
      rewrite <- Z.pow_mul_r in Hbp by (try lia; apply Z.div_pos; lia).
      destruct Hdp as [k Hk]. rewrite Hk in Hbp. rewrite Z.div_mul in Hbp by lia.
      rewrite Hk. exact Hbp.
    + rewrite <- Hb. assumption.
Qed.

(* convenient form: `apply (prime_of_cert c); [vm_compute; reflexivity | vm_cast_no_check (eq_refl true)]` *)
Corollary prime_of_cert c N : cert_N c = N -> check_cert c = true -> prime N.
Proof. intros <-. apply check_cert_sound. Qed.

Print Assumptions check_cert_sound.
Print Assumptions pocklington_criterion.
