(* Sequence shuffle (shuffle/sequences.go) and biffle (shuffle/biffle.go):
   completeness; for the biffle also acceptance <=> equations and special soundness. *)
From Coq Require Import ZArith Znumtheory List Bool Lia Permutation Ring Field.
From Kyber Require Import Algebra.Zq Algebra.Grp Shuffle.ShuffleSM Shuffle.ShuffleLemmas
     Shuffle.SimpleProofs Shuffle.PairProofs.
Import ListNotations.

Section Proto.
  Variable q : Z.
  Hypothesis q_prime : prime q.
  Notation F := (zq q).
  Add Field zqF5 : (zq_field q q_prime).

  Notation nthF := (nthF q).
  Notation tab := (tab q).

  (* ---------------------------------------------------------------- sequences *)

  Definition lin (e : list F) (M : list (list F)) (j : nat) : F :=
    psum (map (fun em => smul (fst em) (nthF (snd em) j)) (combine e M)).

  Lemma consol_lin e M k : consol q e M k = tab k (lin e M).
  Proof. reflexivity. Qed.

  Lemma lin_out (G : F) (pi : list nat) i : forall e beta X,
      length beta = length X -> (i < length pi)%nat ->
      lin e (seq_out q G pi beta X) i
      = padd (smul (lin e beta (idx pi i)) G) (lin e X (idx pi i)).
  Proof.
    intros e beta X Hl Hi. unfold lin, seq_out.
    revert beta X Hl. induction e as [|e0 e IH]; intros beta X Hl.
    - cbn [combine map psum fold_right]. unfold padd, smul, pzero. ring.
    - destruct beta as [|b beta], X as [|x X]; try discriminate.
      + cbn [combine map psum fold_right]. unfold padd, smul, pzero. ring.
      + cbn [combine map psum fold_right fst snd].
        fold (psum (map (fun em => smul (fst em) (nthF (snd em) i))
                        (combine e (map (fun bx => shuffle_out q G pi (fst bx) (snd bx)) (combine beta X))))).
        rewrite IH by (cbn in Hl; lia).
        fold (psum (map (fun em => smul (fst em) (nthF (snd em) (idx pi i))) (combine e beta))).
        fold (psum (map (fun em => smul (fst em) (nthF (snd em) (idx pi i))) (combine e X))).
        unfold shuffle_out. rewrite nthF_tab by exact Hi.
        unfold padd, smul. ring.
  Qed.

  (* the consolidated output is the shuffle of the consolidated input with the
     consolidated blinding factors beta2 and the same permutation *)
  Lemma seq_consolidate (G : F) (pi : list nat) (e : list F) (beta X : list (list F)) :
    let k := length pi in
    Permutation pi (seq 0 k) -> length beta = length X ->
    consol q e (seq_out q G pi beta X) k
    = shuffle_out q G pi (seq_beta2 q e beta k) (consol q e X k).
  Proof.
    intros k Hp Hl. unfold seq_beta2. rewrite !consol_lin. unfold shuffle_out. fold k.
    apply tab_ext. intros i Hi.
    rewrite (lin_out G pi i e beta X Hl Hi).
    rewrite !nthF_tab by (apply (idx_lt pi k i Hp Hi)). reflexivity.
  Qed.

  Theorem sequences_complete (pi : list nat) (G H : F) (e : list F) (beta X Y : list (list F))
          (u w a : list F) (tau0 gamma : F) (theta rho : list F) (lambda t c : F) :
    let k := length pi in
    (2 <= k)%nat ->
    Permutation pi (seq 0 k) ->
    length beta = length X -> length beta = length Y ->
    length rho = k -> length theta = (2 * k - 1)%nat ->
    gamma <> zzero ->
    (forall i, (i < k)%nat -> nthF (pp_r q pi u a rho lambda) i <> t) ->
    seq_verify q G H e X Y (seq_out q G pi beta X) (seq_out q H pi beta Y) k
               (seq_prove q pi G H e beta X Y u w a tau0 gamma theta rho lambda t c)
               rho lambda t c = 0%Z.
  Proof.
    intros k Hk Hp HX HY Hrho Hth Hg Ht.
    unfold seq_verify, seq_prove. fold k.
    pose proof (seq_consolidate G pi e beta X Hp HX) as EX.
    pose proof (seq_consolidate H pi e beta Y Hp HY) as EY.
    cbv zeta in EX, EY. fold k in EX, EY. rewrite EX, EY.
    apply (pair_complete q q_prime); try assumption; unfold consol; apply tab_length.
  Qed.

  (* ---------------------------------------------------------------- biffle *)

  Lemma rep_ok_eq (ci P r B V : F) : rep_ok q ci P r B V = true <-> padd (smul ci P) (smul r B) = V.
  Proof. unfold rep_ok, peqb. apply zeqb_eq. Qed.

  Definition biffle_eqs (G H : F) (pts : list F) (tr : biffle_tr q) (c : F) : Prop :=
    let V i := nthF (bV tr) i in
    let P i := nthF pts i in
    let r i := nthF (bR tr) i in
    zadd (bC0 tr) (bC1 tr) = c /\
    padd (smul (bC0 tr) (P 0%nat)) (smul (r 0%nat) G) = V 0%nat /\
    padd (smul (bC0 tr) (P 1%nat)) (smul (r 0%nat) H) = V 1%nat /\
    padd (smul (bC0 tr) (P 2%nat)) (smul (r 1%nat) G) = V 2%nat /\
    padd (smul (bC0 tr) (P 3%nat)) (smul (r 1%nat) H) = V 3%nat /\
    padd (smul (bC1 tr) (P 4%nat)) (smul (r 3%nat) G) = V 4%nat /\
    padd (smul (bC1 tr) (P 5%nat)) (smul (r 3%nat) H) = V 5%nat /\
    padd (smul (bC1 tr) (P 6%nat)) (smul (r 2%nat) G) = V 6%nat /\
    padd (smul (bC1 tr) (P 7%nat)) (smul (r 2%nat) H) = V 7%nat.

  Theorem biffle_accept_iff (G H : F) (pts : list F) (tr : biffle_tr q) (c : F) :
    biffle_verify q G H pts tr c = 0%Z <-> biffle_eqs G H pts tr c.
  Proof.
    unfold biffle_verify, biffle_eqs.
    destruct (zeqb_spec q (zadd (bC0 tr) (bC1 tr)) c) as [Ec|Ec]; cbn [negb].
    2:{ split; [discriminate|]. intros [Hc _]. contradiction. }
    repeat match goal with
           | |- context [rep_ok q ?a ?b ?c ?d ?e] =>
               let E := fresh "E" in
               destruct (rep_ok q a b c d e) eqn:E;
               [apply rep_ok_eq in E|
                cbn [andb]; split; [discriminate|];
                intros Hall; exfalso;
                assert (T : rep_ok q a b c d e = true) by (apply rep_ok_eq; tauto);
                rewrite T in E; discriminate]
           end.
    cbn [andb]. split; [intros _; tauto|reflexivity].
  Qed.

  Definition biffle_out (bit : bool) (Gen b0 b1 Z0 Z1 : F) : F * F :=
    if bit then (padd (smul b1 Gen) Z1, padd (smul b0 Gen) Z0)
    else (padd (smul b0 Gen) Z0, padd (smul b1 Gen) Z1).

  Theorem biffle_complete (bit : bool) (G H beta0 beta1 X0 X1 Y0 Y1 c : F) (rnd : list F) :
    let Xb := biffle_out bit G beta0 beta1 X0 X1 in
    let Yb := biffle_out bit H beta0 beta1 Y0 Y1 in
    let pts := biffle_points q X0 X1 Y0 Y1 (fst Xb) (snd Xb) (fst Yb) (snd Yb) in
    biffle_verify q G H pts (biffle_prove q bit G H beta0 beta1 pts rnd c) c = 0%Z.
  Proof.
    intros Xb Yb pts. apply biffle_accept_iff.
    unfold biffle_eqs, pts, Xb, Yb, biffle_points, biffle_prove, biffle_out.
    destruct bit; cbn [bV bC0 bC1 bR fst snd negb]; unfold ShuffleSM.nthF; cbn [nth];
      unfold padd, psub, smul; repeat split; ring.
  Qed.

  (* the biffle's output is a shuffle (same shape as the pair shuffle's) *)
  Lemma biffle_out_shuffle (bit : bool) (G H beta0 beta1 X0 X1 Y0 Y1 : F) :
    let Xb := biffle_out bit G beta0 beta1 X0 X1 in
    let Yb := biffle_out bit H beta0 beta1 Y0 Y1 in
    is_shuffle q G H [X0; X1] [Y0; Y1] [fst Xb; snd Xb] [fst Yb; snd Yb].
  Proof.
    intros Xb Yb. exists (if bit then [1; 0]%nat else [0; 1]%nat), [beta0; beta1].
    unfold Xb, Yb, biffle_out. destruct bit; cbn [length seq fst snd].
    - split; [apply perm_swap|]. split; reflexivity.
    - split; [apply Permutation_refl|]. split; reflexivity.
  Qed.

  (* special soundness: two accepting answers to the same commitments under two
     different challenges exhibit the permutation and the blinding factors *)
  Theorem biffle_special_sound (G H X0 X1 Y0 Y1 Xb0 Xb1 Yb0 Yb1 c c' : F) (tr tr' : biffle_tr q) :
    let pts := biffle_points q X0 X1 Y0 Y1 Xb0 Xb1 Yb0 Yb1 in
    biffle_verify q G H pts tr c = 0%Z ->
    biffle_verify q G H pts tr' c' = 0%Z ->
    bV tr' = bV tr -> c <> c' ->
    is_shuffle q G H [X0; X1] [Y0; Y1] [Xb0; Xb1] [Yb0; Yb1].
  Proof.
    intros pts V1 V2 EV Hc.
    apply biffle_accept_iff in V1. apply biffle_accept_iff in V2.
    unfold biffle_eqs in V1, V2. rewrite EV in V2.
    unfold pts, biffle_points, ShuffleSM.nthF in V1, V2. cbn [nth] in V1, V2.
    destruct V1 as [S1 [A0 [A1 [A2 [A3 [A4 [A5 [A6 A7]]]]]]]].
    destruct V2 as [S2 [B0 [B1 [B2 [B3 [B4 [B5 [B6 B7]]]]]]]].
    (* from c*P + r*B = V = c'*P + r'*B with c <> c': P = ((r'-r)/(c-c'))*B *)
    assert (Ext : forall (ci ci' P r r' B V : F), ci <> ci' ->
               padd (smul ci P) (smul r B) = V -> padd (smul ci' P) (smul r' B) = V ->
               P = smul (zdiv (zsub r' r) (zsub ci ci')) B).
    { intros ci ci' P r r' B V Hne E1 E2. rewrite <- E2 in E1. unfold padd, smul in *.
      assert (Hd : zsub ci ci' <> zzero).
      { intros Z. apply Hne. transitivity (zadd (zsub ci ci') ci'); [ring|]. rewrite Z. ring. }
      transitivity (zdiv (zsub (zadd (zmul ci P) (zmul r B)) (zadd (zmul ci' P) (zmul r B))) (zsub ci ci')).
      - field. exact Hd.
      - rewrite E1. field. exact Hd. }
    destruct (zeqb_spec q (bC0 tr) (bC0 tr')) as [E0|N0].
    - (* then the second sub-challenges differ: the swap branch is proved *)
      assert (N1 : bC1 tr <> bC1 tr').
      { intros E1. apply Hc. rewrite <- S1, <- S2, E0, E1. reflexivity. }
      set (b1 := zdiv (zsub (nth 3 (bR tr') zzero) (nth 3 (bR tr) zzero)) (zsub (bC1 tr) (bC1 tr'))).
      set (b0 := zdiv (zsub (nth 2 (bR tr') zzero) (nth 2 (bR tr) zzero)) (zsub (bC1 tr) (bC1 tr'))).
      pose proof (Ext _ _ _ _ _ _ _ N1 A4 B4) as P4. pose proof (Ext _ _ _ _ _ _ _ N1 A5 B5) as P5.
      pose proof (Ext _ _ _ _ _ _ _ N1 A6 B6) as P6. pose proof (Ext _ _ _ _ _ _ _ N1 A7 B7) as P7.
      fold b1 in P4, P5. fold b0 in P6, P7.
      exists [1; 0]%nat, [b0; b1]. cbn [length seq]. split; [apply perm_swap|].
      unfold shuffle_out, ShuffleSM.tab, ShuffleSM.idx, ShuffleSM.nthF. cbn [length seq map nth].
      unfold psub, padd, smul in *.
      split; f_equal; [|f_equal| |f_equal].
      + transitivity (zadd (zsub Xb0 X1) X1); [ring|]. rewrite P4. ring.
      + transitivity (zadd (zsub Xb1 X0) X0); [ring|]. rewrite P6. ring.
      + transitivity (zadd (zsub Yb0 Y1) Y1); [ring|]. rewrite P5. ring.
      + transitivity (zadd (zsub Yb1 Y0) Y0); [ring|]. rewrite P7. ring.
    - set (b0 := zdiv (zsub (nth 0 (bR tr') zzero) (nth 0 (bR tr) zzero)) (zsub (bC0 tr) (bC0 tr'))).
      set (b1 := zdiv (zsub (nth 1 (bR tr') zzero) (nth 1 (bR tr) zzero)) (zsub (bC0 tr) (bC0 tr'))).
      pose proof (Ext _ _ _ _ _ _ _ N0 A0 B0) as P0. pose proof (Ext _ _ _ _ _ _ _ N0 A1 B1) as P1.
      pose proof (Ext _ _ _ _ _ _ _ N0 A2 B2) as P2. pose proof (Ext _ _ _ _ _ _ _ N0 A3 B3) as P3.
      fold b0 in P0, P1. fold b1 in P2, P3.
      exists [0; 1]%nat, [b0; b1]. cbn [length seq]. split; [apply Permutation_refl|].
      unfold shuffle_out, ShuffleSM.tab, ShuffleSM.idx, ShuffleSM.nthF. cbn [length seq map nth].
      unfold psub, padd, smul in *.
      split; f_equal; [|f_equal| |f_equal].
      + transitivity (zadd (zsub Xb0 X0) X0); [ring|]. rewrite P0. ring.
      + transitivity (zadd (zsub Xb1 X1) X1); [ring|]. rewrite P2. ring.
      + transitivity (zadd (zsub Yb0 Y0) Y0); [ring|]. rewrite P1. ring.
      + transitivity (zadd (zsub Yb1 Y1) Y1); [ring|]. rewrite P3. ring.
  Qed.
End Proto.
