(* What accepting transcripts of the (repaired) pair shuffle force: the
   extraction steps of Neff's soundness argument, as algebraic theorems.

     tie_extract   two accepted answers to the same (step 1, rho, D) under two values of lambda,
                   whose embedded simple shuffles prove the same permutation pi, force
                   D[i] = gamma*B[pi[i]] and C[i] = gamma*A[pi[i]]  (only possible with the tie);
     pair_extract  two accepted transcripts with the same step 1 whose rho differ at index j only,
                   with D bound to B by pi, force Xbar[i0] - X[j] = beta*G and Ybar[i0] - Y[j] = beta*H
                   for the slot i0 with pi[i0] = j: slot i0 is a re-encryption of input j;
     pair_special_sound  such a pair of transcripts for every j => the output is a shuffle.

   The statistical part of soundness (such transcripts exist whenever the prover
   succeeds with probability noticeably above (k+2)/q; the simple shuffle's own
   soundness, a polynomial-identity argument) is NOT claimed as a theorem. *)
From Coq Require Import ZArith Znumtheory List Bool Lia Permutation Ring Field.
From Kyber Require Import Algebra.Zq Algebra.Grp Shuffle.ShuffleSM Shuffle.ShuffleLemmas
     Shuffle.SimpleProofs Shuffle.PairProofs.
Import ListNotations.

Section Sound.
  Variable q : Z.
  Hypothesis q_prime : prime q.
  Notation F := (zq q).
  Add Field zqF4 : (zq_field q q_prime).

  Notation nthF := (nthF q).
  Notation tab := (tab q).
  Notation bigsum := (bigsum q).
  Notation lsum := (lsum q).
  Notation lsum_sub := (ShuffleLemmas.lsum_sub q q_prime).

  Lemma zsub_eq_0 (a b : F) : zsub a b = zzero -> a = b.
  Proof. intros E. transitivity (zadd (zsub a b) b); [ring|]. rewrite E. ring. Qed.

  Lemma zmul_cancel_l (a b c : F) : a <> zzero -> zmul a b = zmul a c -> b = c.
  Proof.
    intros Ha E. apply zsub_eq_0.
    assert (Z : zmul a (zsub b c) = zzero) by (transitivity (zsub (zmul a b) (zmul a c)); [ring|rewrite E; ring]).
    apply (zmul_eq_0 q q_prime) in Z. destruct Z; [contradiction|assumption].
  Qed.

  Lemma lsum_zero l (f : nat -> F) : (forall i, In i l -> f i = zzero) -> lsum l f = zzero.
  Proof.
    unfold ShuffleLemmas.lsum. induction l as [|a l IH]; intros Hz; cbn [map psum fold_right]; [reflexivity|].
    fold (psum (map f l)). rewrite IH by (intros; apply Hz; right; assumption).
    rewrite (Hz a) by (left; reflexivity). unfold padd, pzero. ring.
  Qed.

  Lemma lsum_single l (f : nat -> F) i0 :
    NoDup l -> In i0 l -> (forall i, In i l -> i <> i0 -> f i = zzero) -> lsum l f = f i0.
  Proof.
    unfold ShuffleLemmas.lsum. induction l as [|a l IH]; intros Hnd Hin Hz; [destruct Hin|].
    inversion Hnd as [|? ? Hnotin Hnd']; subst. cbn [map psum fold_right]. fold (psum (map f l)).
    destruct Hin as [->|Hin].
    - fold (lsum l f). rewrite lsum_zero; [unfold padd; ring|].
      intros i Hi. apply Hz; [right; assumption|]. intros ->. contradiction.
    - rewrite IH; [|assumption|assumption|intros i Hi Hne; apply Hz; [right; assumption|assumption]].
      rewrite (Hz a); [unfold padd; ring|left; reflexivity|]. intros ->. contradiction.
  Qed.

  Lemma idx_inj pi k i i' :
    Permutation pi (seq 0 k) -> (i < k)%nat -> (i' < k)%nat -> idx pi i = idx pi i' -> i = i'.
  Proof.
    intros Hp Hi Hi' E. rewrite <- (pos_idx pi k i Hp Hi), <- (pos_idx pi k i' Hp Hi'), E. reflexivity.
  Qed.

  Definition accepts (tied : bool) G H X Y Xbar Ybar (tr : pair_tr q) rho lambda t c : Prop :=
    pair_verify q tied G H X Y Xbar Ybar tr rho lambda t c = 0%Z.

  (* D is bound to B through the permutation pi and the factor gamma *)
  Definition D_bound (G gamma : F) (pi : list nat) (tr : pair_tr q) (rho : list F) (k : nat) : Prop :=
    forall i, (i < k)%nat -> nthF (pD tr) i = smul gamma (pv_B q G tr rho (idx pi i)).

  (* the relation the embedded simple shuffle proves about its inputs *)
  Definition simple_rel (gamma : F) (pi : list nat) (tr : pair_tr q) (k : nat) : Prop :=
    forall i, (i < k)%nat -> nthF (sY (pS tr)) i = smul gamma (nthF (sX (pS tr)) (idx pi i)).

  Theorem tie_extract (G H gamma : F) (X Y Xbar Ybar : list F) (tr tr' : pair_tr q) (rho : list F)
          (lambda lambda' t c t' c' : F) (pi : list nat) :
    let k := length X in
    Permutation pi (seq 0 k) ->
    accepts true G H X Y Xbar Ybar tr rho lambda t c ->
    accepts true G H X Y Xbar Ybar tr' rho lambda' t' c' ->
    pA tr' = pA tr -> pC tr' = pC tr -> pU tr' = pU tr -> pD tr' = pD tr ->
    lambda <> lambda' ->
    simple_rel gamma pi tr k -> simple_rel gamma pi tr' k ->
    D_bound G gamma pi tr rho k /\
    (forall i, (i < k)%nat -> nthF (pC tr) i = smul gamma (nthF (pA tr) (idx pi i))).
  Proof.
    intros k Hp V1 V2 EA EC EU ED Hl R1 R2.
    apply pair_accept_iff in V1. apply pair_accept_iff in V2. fold k in V1, V2.
    destruct V1 as [_ [_ [T1 _]]]. destruct V2 as [_ [_ [T2 _]]].
    specialize (T1 eq_refl). specialize (T2 eq_refl).
    assert (Key : forall i, (i < k)%nat ->
              nthF (pD tr) i = smul gamma (pv_B q G tr rho (idx pi i)) /\
              nthF (pC tr) i = smul gamma (nthF (pA tr) (idx pi i))).
    { intros i Hi.
      pose proof (idx_lt pi k i Hp Hi) as Hpi.
      destruct (T1 i Hi) as [_ Y1]. destruct (T1 _ Hpi) as [X1 _].
      destruct (T2 i Hi) as [_ Y2]. destruct (T2 _ Hpi) as [X2 _].
      rewrite (R1 i Hi) in Y1. rewrite <- X1 in Y1.
      rewrite (R2 i Hi) in Y2. rewrite <- X2 in Y2.
      unfold pv_B in *. rewrite EA, EC, EU, ED in *.
      set (Ci := nthF (pC tr) i) in *. set (Di := nthF (pD tr) i) in *.
      set (Ap := nthF (pA tr) (idx pi i)) in *.
      set (Bp := psub (smul (nthF rho (idx pi i)) G) (nthF (pU tr) (idx pi i))) in *.
      unfold padd, smul in Y1, Y2.
      assert (Z : zmul (zsub lambda lambda') (zsub Di (zmul gamma Bp)) = zzero).
      { transitivity (zsub (zsub (zadd Ci (zmul lambda Di)) (zmul gamma (zadd Ap (zmul lambda Bp))))
                           (zsub (zadd Ci (zmul lambda' Di)) (zmul gamma (zadd Ap (zmul lambda' Bp))))); [ring|].
        rewrite Y1, Y2. ring. }
      apply (zmul_eq_0 q q_prime) in Z. destruct Z as [Z|Z]; [exfalso; apply Hl; apply zsub_eq_0; exact Z|].
      apply zsub_eq_0 in Z. split; [exact Z|].
      unfold smul. transitivity (zsub (zadd Ci (zmul lambda Di)) (zmul lambda Di)); [ring|].
      rewrite Y1, Z. ring. }
    split; intros i Hi; apply (Key i Hi).
  Qed.

  Theorem pair_extract (tied : bool) (G H gamma : F) (X Y Xbar Ybar : list F) (tr tr' : pair_tr q)
          (rho rho' : list F) (lambda lambda' t c t' c' : F) (pi : list nat) (i0 : nat) :
    let k := length X in
    let j := idx pi i0 in
    G <> zzero -> gamma <> zzero ->
    Permutation pi (seq 0 k) -> (i0 < k)%nat ->
    accepts tied G H X Y Xbar Ybar tr rho lambda t c ->
    accepts tied G H X Y Xbar Ybar tr' rho' lambda' t' c' ->
    pGamma tr = smul gamma G -> pGamma tr' = pGamma tr ->
    pU tr' = pU tr -> pW tr' = pW tr -> pL1 tr' = pL1 tr -> pL2 tr' = pL2 tr ->
    (forall i, (i < k)%nat -> i <> j -> nthF rho' i = nthF rho i) ->
    nthF rho' j <> nthF rho j ->
    D_bound G gamma pi tr rho k -> D_bound G gamma pi tr' rho' k ->
    exists beta, nthF Xbar i0 = padd (nthF X j) (smul beta G) /\
                 nthF Ybar i0 = padd (nthF Y j) (smul beta H).
  Proof.
    intros k j HG Hg Hp Hi0 V1 V2 EG EG' EU EW EL1 EL2 Hrho Hj D1 D2.
    apply pair_accept_iff in V1. apply pair_accept_iff in V2. fold k in V1, V2.
    destruct V1 as [_ [_ [_ [S1 [P1 Q1]]]]]. destruct V2 as [_ [_ [_ [S2 [P2 Q2]]]]].
    assert (Hjk : (j < k)%nat) by (apply (idx_lt pi k i0 Hp Hi0)).
    set (delta := zsub (nthF rho j) (nthF rho' j)).
    assert (Hd : delta <> zzero) by (intros Z; apply Hj; symmetry; apply zsub_eq_0; exact Z).
    (* sigma - sigma' = rho o pi - rho' o pi *)
    assert (Sg : forall i, (i < k)%nat ->
               zsub (nthF (pSigma tr) i) (nthF (pSigma tr') i)
               = zsub (nthF rho (idx pi i)) (nthF rho' (idx pi i))).
    { intros i Hi. pose proof (S1 i Hi) as A1. pose proof (S2 i Hi) as A2.
      rewrite (D1 i Hi) in A1. rewrite (D2 i Hi) in A2. unfold pv_B in A1, A2.
      rewrite EG', EU, EW in A2. rewrite EG in A1, A2.
      unfold padd, psub, smul in A1, A2.
      apply (zmul_cancel_l (zmul gamma G)).
      - intros Z. apply (zmul_eq_0 q q_prime) in Z. destruct Z; contradiction.
      - transitivity (zsub (zmul (nthF (pSigma tr) i) (zmul gamma G)) (zmul (nthF (pSigma tr') i) (zmul gamma G))); [ring|].
        rewrite A1, A2. ring. }
    assert (Sg0 : forall i, In i (seq 0 k) -> i <> i0 ->
               zsub (nthF (pSigma tr) i) (nthF (pSigma tr') i) = zzero).
    { intros i Hi Hne. apply in_seq in Hi. rewrite Sg by lia.
      rewrite (Hrho (idx pi i)); [ring|apply (idx_lt pi k i Hp); lia|].
      intros E. apply Hne. apply (idx_inj pi k i i0 Hp); [lia|exact Hi0|exact E]. }
    assert (Rh0 : forall i, In i (seq 0 k) -> i <> j -> zsub (nthF rho i) (nthF rho' i) = zzero).
    { intros i Hi Hne. apply in_seq in Hi. rewrite (Hrho i) by (try lia; exact Hne). ring. }
    (* difference of (34) for a generator Gen and vectors Z, Zbar *)
    assert (Core : forall (Gen L L' : F) (Z Zbar : list F),
               L' = L -> eq34 q Gen L tr rho Z Zbar k -> eq34 q Gen L' tr' rho' Z Zbar k ->
               zmul (zsub (pTau tr) (pTau tr')) Gen = zmul delta (zsub (nthF Zbar i0) (nthF Z j))).
    { intros Gen L L' Z Zbar EL A1 A2. unfold eq34 in A1, A2. subst L'.
      rewrite !bigsum_lsum in A1, A2. unfold padd, psub, smul in A1, A2.
      transitivity (zsub (zadd L (zmul (pTau tr) Gen)) (zadd L (zmul (pTau tr') Gen))); [ring|].
      rewrite A1, A2. rewrite <- lsum_sub.
      rewrite (lsum_ext q _ _
                 (fun i => zsub (zmul (zsub (nthF (pSigma tr) i) (nthF (pSigma tr') i)) (nthF Zbar i))
                                (zmul (zsub (nthF rho i) (nthF rho' i)) (nthF Z i))))
        by (intros; ring).
      rewrite lsum_sub.
      rewrite (lsum_single (seq 0 k) _ i0); [|apply seq_NoDup|apply in_seq; lia|].
      2:{ intros i Hi Hne. rewrite (Sg0 i Hi Hne). ring. }
      rewrite (lsum_single (seq 0 k) _ j); [|apply seq_NoDup|apply in_seq; lia|].
      2:{ intros i Hi Hne. rewrite (Rh0 i Hi Hne). ring. }
      rewrite (Sg i0 Hi0). fold j. unfold delta. ring. }
    exists (zdiv (zsub (pTau tr) (pTau tr')) delta).
    pose proof (Core G _ _ X Xbar EL1 P1 P2) as CX.
    pose proof (Core H _ _ Y Ybar EL2 Q1 Q2) as CY.
    split; unfold padd, smul.
    - transitivity (zadd (nthF X j) (zdiv (zmul delta (zsub (nthF Xbar i0) (nthF X j))) delta)).
      + field. exact Hd.
      + rewrite <- CX. field. exact Hd.
    - transitivity (zadd (nthF Y j) (zdiv (zmul delta (zsub (nthF Ybar i0) (nthF Y j))) delta)).
      + field. exact Hd.
      + rewrite <- CY. field. exact Hd.
  Qed.

  Lemma finite_choice (k : nat) (P : nat -> F -> Prop) :
    (forall i, (i < k)%nat -> exists b, P i b) -> exists f : nat -> F, forall i, (i < k)%nat -> P i (f i).
  Proof.
    induction k as [|k IH]; intros Hex.
    - exists (fun _ => zzero). intros i Hi. lia.
    - destruct IH as [f Hf]; [intros i Hi; apply Hex; lia|].
      destruct (Hex k ltac:(lia)) as [b Hb].
      exists (fun i => if Nat.eqb i k then b else f i). intros i Hi.
      destruct (Nat.eqb_spec i k) as [->|Hne]; [exact Hb|apply Hf; lia].
  Qed.

  (* every slot a re-encryption of the input pi sends there => the output is a shuffle *)
  Theorem slots_give_shuffle (G H : F) (X Y Xbar Ybar : list F) (pi : list nat) :
    let k := length X in
    Permutation pi (seq 0 k) -> length Xbar = k -> length Ybar = k ->
    (forall i0, (i0 < k)%nat ->
       exists beta, nthF Xbar i0 = padd (nthF X (idx pi i0)) (smul beta G) /\
                    nthF Ybar i0 = padd (nthF Y (idx pi i0)) (smul beta H)) ->
    is_shuffle q G H X Y Xbar Ybar.
  Proof.
    intros k Hp HXb HYb Hex.
    destruct (finite_choice k _ Hex) as [f Hf].
    exists pi, (tab k (fun jj => f (pos jj pi))).
    split; [exact Hp|].
    assert (Hlen : length pi = k) by (apply (perm_length _ _ Hp)).
    unfold shuffle_out. rewrite Hlen.
    split.
    - rewrite <- (tab_nth q Xbar). rewrite HXb. apply tab_ext. intros i Hi.
      destruct (Hf i Hi) as [E _]. rewrite E.
      rewrite nthF_tab by (apply (idx_lt pi k i Hp Hi)). rewrite (pos_idx pi k i Hp Hi).
      unfold padd, smul. ring.
    - rewrite <- (tab_nth q Ybar). rewrite HYb. apply tab_ext. intros i Hi.
      destruct (Hf i Hi) as [_ E]. rewrite E.
      rewrite nthF_tab by (apply (idx_lt pi k i Hp Hi)). rewrite (pos_idx pi k i Hp Hi).
      unfold padd, smul. ring.
  Qed.

  (* special soundness of the pair shuffle, given the binding of D (tie_extract) *)
  Theorem pair_special_sound (tied : bool) (G H gamma : F) (X Y Xbar Ybar : list F) (pi : list nat) :
    let k := length X in
    G <> zzero -> gamma <> zzero -> Permutation pi (seq 0 k) ->
    length Xbar = k -> length Ybar = k ->
    (forall i0, (i0 < k)%nat ->
       exists tr tr' rho rho' lambda lambda' t c t' c',
         accepts tied G H X Y Xbar Ybar tr rho lambda t c /\
         accepts tied G H X Y Xbar Ybar tr' rho' lambda' t' c' /\
         pGamma tr = smul gamma G /\ pGamma tr' = pGamma tr /\
         pU tr' = pU tr /\ pW tr' = pW tr /\ pL1 tr' = pL1 tr /\ pL2 tr' = pL2 tr /\
         (forall i, (i < k)%nat -> i <> idx pi i0 -> nthF rho' i = nthF rho i) /\
         nthF rho' (idx pi i0) <> nthF rho (idx pi i0) /\
         D_bound G gamma pi tr rho k /\ D_bound G gamma pi tr' rho' k) ->
    is_shuffle q G H X Y Xbar Ybar.
  Proof.
    intros k HG Hg Hp HXb HYb Hall.
    apply (slots_give_shuffle G H X Y Xbar Ybar pi Hp HXb HYb).
    intros i0 Hi0.
    destruct (Hall i0 Hi0) as (tr & tr' & rho & rho' & l & l' & t & c & t' & c' &
                               V1 & V2 & E1 & E2 & E3 & E4 & E5 & E6 & Hr & Hj & D1 & D2).
    exact (pair_extract tied G H gamma X Y Xbar Ybar tr tr' rho rho' l l' t c t' c' pi i0
                        HG Hg Hp Hi0 V1 V2 E1 E2 E3 E4 E5 E6 Hr Hj D1 D2).
  Qed.

  (* the forged output of pair_linear_attack admits no such family of transcripts *)
  Corollary linear_output_unsound_free (tied : bool) (G H gamma X0 X1 Y0 Y1 : F) (pi : list nat) :
    G <> zzero -> gamma <> zzero -> Permutation pi (seq 0 2) ->
    smul X1 H <> smul Y1 G -> smul X0 H <> smul Y0 G ->
    ~ (forall i0, (i0 < 2)%nat ->
       exists tr tr' rho rho' lambda lambda' t c t' c',
         accepts tied G H [X0; X1] [Y0; Y1] [padd X0 X1; X1] [padd Y0 Y1; Y1] tr rho lambda t c /\
         accepts tied G H [X0; X1] [Y0; Y1] [padd X0 X1; X1] [padd Y0 Y1; Y1] tr' rho' lambda' t' c' /\
         pGamma tr = smul gamma G /\ pGamma tr' = pGamma tr /\
         pU tr' = pU tr /\ pW tr' = pW tr /\ pL1 tr' = pL1 tr /\ pL2 tr' = pL2 tr /\
         (forall i, (i < 2)%nat -> i <> idx pi i0 -> nthF rho' i = nthF rho i) /\
         nthF rho' (idx pi i0) <> nthF rho (idx pi i0) /\
         D_bound G gamma pi tr rho 2 /\ D_bound G gamma pi tr' rho' 2).
  Proof.
    intros HG Hg Hp N1 N0 Hall.
    apply (sum_not_shuffle q q_prime G H X0 X1 Y0 Y1 N1 N0).
    apply (pair_special_sound tied G H gamma [X0; X1] [Y0; Y1] _ _ pi); try assumption; try reflexivity.
  Qed.
End Sound.
