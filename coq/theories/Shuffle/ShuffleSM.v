(* Executable model of kyber's verifiable shuffles (property C15):
     shuffle/simple.go     SimpleShuffle.Prove / Verify   (Neff, section 3)
     shuffle/pair.go       PairShuffle.Prove / Verify, Shuffle   (Neff, section 4)
     shuffle/sequences.go  SequencesShuffle, GetSequenceVerifiable   (Neff, section 5)
     shuffle/biffle.go     Biffle / BiffleVerifier (the Or-of-And predicate of proof/proof.go)

   Groups are modelled by discrete logarithms (Algebra/Grp.v): a point IS an
   element of zq q, [smul s P] is the field product.  G and H are arbitrary
   points (H = h*G for the unknown h = H/G).

   A proof is an interactive transcript; the verifier's challenges (rho, lambda,
   t, c) are inputs of the model: in proof.HashProve / HashVerify they are the
   XOF output of the transcript prefix (an oracle, see section FiatShamir at the
   end of this file; that layer itself is the subject of C14).

   Vectors are lists; [tab k f] is the list f 0 .. f (k-1), [bigsum k f] its sum.
   A permutation is the list pi of its values (pi[i] as in the Go code).

   Definitions only; the theorems are in ShuffleProofs.v. *)
From Coq Require Import ZArith List Bool Permutation.
From Kyber Require Import Algebra.Zq Algebra.Grp.
Import ListNotations.

Section Model.
  Variable q : Z.
  Notation F := (zq q).

  Definition nthF (l : list F) (i : nat) : F := nth i l zzero.
  Definition tab (k : nat) (f : nat -> F) : list F := map f (seq 0 k).
  Definition bigsum (k : nat) (f : nat -> F) : F := psum (tab k f).
  Definition idx (pi : list nat) (i : nat) : nat := nth i pi 0%nat.
  (* piinv[pi[i]] = i  (pair.go: "Compute pi^-1 inverse permutation"): for a
     permutation, the position of j in pi *)
  Fixpoint pos (j : nat) (pi : list nat) : nat :=
    match pi with
    | [] => 0%nat
    | p :: r => if Nat.eqb p j then 0%nat else S (pos j r)
    end.
  Fixpoint zpow (a : F) (n : nat) : F :=
    match n with O => zone | S m => zmul a (zpow a m) end.

  (* ElGamal re-encryption shuffle (pair.go Shuffle, sequences.go, biffle.go):
     Xbar[i] = beta[pi[i]]*G + X[pi[i]] *)
  Definition shuffle_out (G : F) (pi : list nat) (beta X : list F) : list F :=
    tab (length pi) (fun i => padd (smul (nthF beta (idx pi i)) G) (nthF X (idx pi i))).

  (* ---------------------------------------------------------------- *)
  (* simple.go *)

  Record simple_tr := { sX : list F; sY : list F; sTheta : list F; sAlpha : list F }.

  (* thenc: G^{ab-cd}; a nil operand is a zero product, a nil d is d = 1 *)
  Fixpoint mk_Theta (g tprev : F) (ps qs ts : list F) : list F :=
    match ps, qs, ts with
    | p :: ps', q' :: qs', t :: ts' =>
        smul (zsub (zmul tprev p) (zmul t q')) g :: mk_Theta g t ps' qs' ts'
    | _, _, _ => []
    end.

  (* (8): runprod = runprod * xhat[i] / yhat[i]; alpha[i] = theta[i] + runprod *)
  Fixpoint alpha_lo (run : F) (xh yh th : list F) : list F :=
    match xh, yh, th with
    | x :: xs, y :: ys, t :: ts =>
        let run' := zdiv (zmul run x) y in zadd t run' :: alpha_lo run' xs ys ts
    | _, _, _ => []
    end.

  (* alpha[thlen-i] = theta[thlen-i] + c*gammainv^i, i = 1..k-1 (listed by increasing index) *)
  Fixpoint alpha_hi (c ginv : F) (ts : list F) : list F :=
    match ts with
    | [] => []
    | t :: r => zadd t (zmul c (zpow ginv (S (length r)))) :: alpha_hi c ginv r
    end.

  (* the three prover messages, each a function of the challenges received before it *)
  Definition simple_msg0 (g : F) (x y : list F) : list F * list F :=
    (map (fun xi => smul xi g) x, map (fun yi => smul yi g) y).
  Definition xhat_of (x : list F) (t : F) := map (fun xi => zsub xi t) x.
  Definition yhat_of (gamma : F) (y : list F) (t : F) := map (fun yi => zsub yi (zmul gamma t)) y.
  Definition simple_msg2 (g gamma : F) (x y theta : list F) (t : F) : list F :=
    let k := length x in
    mk_Theta g zzero (xhat_of x t ++ repeat gamma k) (yhat_of gamma y t ++ repeat zone k) (theta ++ [zzero]).
  Definition simple_msg4 (gamma : F) (x y theta : list F) (t c : F) : list F :=
    let k := length x in
    alpha_lo c (xhat_of x t) (yhat_of gamma y t) (firstn k theta)
      ++ alpha_hi c (zinv gamma) (skipn k theta).

  Definition simple_prove (g gamma : F) (x y theta : list F) (t c : F) : simple_tr :=
    {| sX := fst (simple_msg0 g x y); sY := snd (simple_msg0 g x y);
       sTheta := simple_msg2 g gamma x y theta t;
       sAlpha := simple_msg4 gamma x y theta t c |}.

  (* thver: a*A + (-b)*B = T *)
  Definition thver (A B T a b : F) : bool := peqb (padd (smul a A) (smul (zopp b) B)) T.

  Fixpoint chain (prev : F) (Ps Qs Ths al : list F) : bool :=
    match Ps, Qs, Ths, al with
    | [], [], [], [] => true
    | p :: Ps', q' :: Qs', th :: Ths', a :: al' => thver p q' th prev a && chain a Ps' Qs' Ths' al'
    | _, _, _, _ => false
    end.

  Definition Xhat_of (G : F) (X : list F) (t : F) := map (fun P => padd P (smul (zopp t) G)) X.

  Definition simple_verify (G Gamma : F) (tr : simple_tr) (t c : F) : bool :=
    let k := length (sY tr) in
    Nat.leb 2 k && Nat.eqb (length (sX tr)) k && Nat.eqb (length (sTheta tr)) (2 * k)
    && Nat.eqb (S (length (sAlpha tr))) (2 * k)
    && chain c (Xhat_of G (sX tr) t ++ repeat Gamma k) (Xhat_of Gamma (sY tr) t ++ repeat G k)
             (sTheta tr) (sAlpha tr ++ [c]).

  (* ---------------------------------------------------------------- *)
  (* pair.go *)

  Record pair_tr := {
    pGamma : F; pA : list F; pC : list F; pU : list F; pW : list F; pL1 : F; pL2 : F; (* ega1 *)
    pD : list F;                                                                      (* ega3 *)
    pSigma : list F; pTau : F;                                                        (* ega5 *)
    pS : simple_tr                                                                    (* step 6 *)
  }.

  Section PairProve.
    Variables (pi : list nat) (G H : F) (beta X Y u w a : list F) (tau0 gamma : F) (theta : list F).
    Let k := length pi.
    Let P i := idx pi i.

    Definition pp_b (rho : list F) (i : nat) : F := zsub (nthF rho i) (nthF u i).
    Definition pp_wbetasum : F := zadd tau0 (bigsum k (fun i => zmul (nthF w i) (nthF beta (P i)))).
    Definition pp_Lam (Z : list F) (Gen : F) : F :=
      padd (bigsum k (fun i => smul (zsub (nthF w (pos i pi)) (nthF u i)) (nthF Z i)))
           (smul pp_wbetasum Gen).
    Definition pp_r (rho : list F) (lambda : F) : list F :=
      tab k (fun i => zadd (nthF a i) (zmul lambda (pp_b rho i))).
    Definition pp_s (rho : list F) (lambda : F) : list F :=
      tab k (fun i => zmul gamma (nthF (pp_r rho lambda) (P i))).

    Definition pair_prove (rho : list F) (lambda t c : F) : pair_tr :=
      {| pGamma := smul gamma G;
         pA := tab k (fun i => smul (nthF a i) G);
         pC := tab k (fun i => smul (zmul gamma (nthF a (P i))) G);
         pU := tab k (fun i => smul (nthF u i) G);
         pW := tab k (fun i => smul (zmul gamma (nthF w i)) G);
         pL1 := pp_Lam X G;
         pL2 := pp_Lam Y H;
         pD := tab k (fun i => smul (zmul gamma (pp_b rho (P i))) G);
         pSigma := tab k (fun i => zadd (nthF w i) (pp_b rho (P i)));
         pTau := zadd (zopp tau0) (bigsum k (fun i => zmul (pp_b rho i) (nthF beta i)));
         pS := simple_prove G gamma (pp_r rho lambda) (pp_s rho lambda) theta t c |}.
  End PairProve.

  Definition all_k (k : nat) (f : nat -> bool) : bool := forallb f (seq 0 k).

  Definition pv_B (G : F) (tr : pair_tr) (rho : list F) (i : nat) : F :=
    psub (smul (nthF rho i) G) (nthF (pU tr) i).

  (* the tie added by the repair: the embedded simple shuffle is the one on
     R = A + lambda*B, S = C + lambda*D *)
  Definition pv_tie (G : F) (tr : pair_tr) (rho : list F) (lambda : F) (k : nat) : bool :=
    all_k k (fun i =>
      peqb (padd (nthF (pA tr) i) (smul lambda (pv_B G tr rho i))) (nthF (sX (pS tr)) i)
      && peqb (padd (nthF (pC tr) i) (smul lambda (nthF (pD tr) i))) (nthF (sY (pS tr)) i)).
  (* (33) *)
  Definition pv_33 (tr : pair_tr) (k : nat) : bool :=
    all_k k (fun i => peqb (smul (nthF (pSigma tr) i) (pGamma tr)) (padd (nthF (pW tr) i) (nthF (pD tr) i))).
  (* (31)/(32) *)
  Definition pv_Phi (tr : pair_tr) (rho Z Zbar : list F) (k : nat) : F :=
    bigsum k (fun i => psub (smul (nthF (pSigma tr) i) (nthF Zbar i)) (smul (nthF rho i) (nthF Z i))).
  (* (34)/(35) *)
  Definition pv_34 (Gen L : F) (tr : pair_tr) (rho Z Zbar : list F) (k : nat) : bool :=
    peqb (padd L (smul (pTau tr) Gen)) (pv_Phi tr rho Z Zbar k).

  Definition pair_wf (k : nat) (X Y Xbar Ybar : list F) (tr : pair_tr) (rho : list F) : bool :=
    Nat.eqb (length X) k && Nat.eqb (length Y) k && Nat.eqb (length Xbar) k && Nat.eqb (length Ybar) k
    && Nat.eqb (length (pA tr)) k && Nat.eqb (length (pC tr)) k && Nat.eqb (length (pU tr)) k
    && Nat.eqb (length (pW tr)) k && Nat.eqb (length (pD tr)) k && Nat.eqb (length (pSigma tr)) k
    && Nat.eqb (length rho) k && Nat.eqb (length (sY (pS tr))) k.

  (* verdict: 0 = nil, 1 = "invalid PairShuffleProof", 2 = "incorrect SimpleShuffleProof",
     3 = vector lengths that Init does not produce.
     [tied = true] is PairShuffle.Verify (repaired); [tied = false] is the verifier
     before the repair, which lacked the tie. *)
  Definition pair_verify (tied : bool) (G H : F) (X Y Xbar Ybar : list F) (tr : pair_tr)
             (rho : list F) (lambda t c : F) : Z :=
    let k := length X in
    if negb (pair_wf k X Y Xbar Ybar tr rho) then 3%Z
    else if negb (simple_verify G (pGamma tr) (pS tr) t c) then 2%Z
    else if tied && negb (pv_tie G tr rho lambda k) then 1%Z
    else if negb (pv_33 tr k) then 1%Z
    else if negb (pv_34 G (pL1 tr) tr rho X Xbar k && pv_34 H (pL2 tr) tr rho Y Ybar k) then 1%Z
    else 0%Z.

  (* ---------------------------------------------------------------- *)
  (* sequences.go *)

  (* GetSequenceVerifiable: column i of sum_j e[j]*M[j] *)
  Definition consol (e : list F) (M : list (list F)) (k : nat) : list F :=
    tab k (fun i => psum (map (fun em => smul (fst em) (nthF (snd em) i)) (combine e M))).
  Definition seq_out (G : F) (pi : list nat) (beta X : list (list F)) : list (list F) :=
    map (fun bx => shuffle_out G pi (fst bx) (snd bx)) (combine beta X).
  (* beta2[i] = sum_j e[j]*beta[j][i] *)
  Definition seq_beta2 (e : list F) (beta : list (list F)) (k : nat) : list F := consol e beta k.

  Definition seq_prove (pi : list nat) (G H : F) (e : list F) (beta X Y : list (list F))
             (u w a : list F) (tau0 gamma : F) (theta rho : list F) (lambda t c : F) : pair_tr :=
    let k := length pi in
    pair_prove pi G H (seq_beta2 e beta k) (consol e X k) (consol e Y k) u w a tau0 gamma theta rho lambda t c.

  Definition seq_verify (G H : F) (e : list F) (X Y Xbar Ybar : list (list F)) (k : nat) (tr : pair_tr)
             (rho : list F) (lambda t c : F) : Z :=
    pair_verify true G H (consol e X k) (consol e Y k) (consol e Xbar k) (consol e Ybar k) tr rho lambda t c.

  (* ---------------------------------------------------------------- *)
  (* biffle.go: Or(And(4 Rep), And(4 Rep)) run by proof/proof.go *)

  Record biffle_tr := { bV : list F; bC0 : F; bC1 : F; bR : list F }.

  (* the eight public points Xbar_i - X_j, Ybar_i - Y_j in predicate order, with
     (base, secret index) of each Rep: branch 0 = identity, branch 1 = swap *)
  Definition biffle_points (X0 X1 Y0 Y1 Xb0 Xb1 Yb0 Yb1 : F) : list F :=
    [psub Xb0 X0; psub Yb0 Y0; psub Xb1 X1; psub Yb1 Y1;
     psub Xb0 X1; psub Yb0 Y1; psub Xb1 X0; psub Yb1 Y0].

  (* rnd = [w; v0_beta0; v0_beta1; v1_beta1; v1_beta0] in the order PriRand is called *)
  Definition biffle_prove (bit : bool) (G H : F) (beta0 beta1 : F) (pts rnd : list F) (c : F) : biffle_tr :=
    let w := nthF rnd 0 in
    let v00 := nthF rnd 1 in let v01 := nthF rnd 2 in
    let v11 := nthF rnd 3 in let v10 := nthF rnd 4 in
    (* pre-challenge of a branch: none (zero term) on the chosen one *)
    let w0 := if bit then w else zzero in
    let w1 := if bit then zzero else w in
    let cm (wi : F) (p : nat) (v B : F) := padd (smul wi (nthF pts p)) (smul v B) in
    let c0 := if bit then w else zsub c w in
    let c1 := if bit then zsub c w else w in
    let resp (obl : bool) (ci v x : F) := if obl then zsub v (zmul ci x) else v in
    {| bV := [cm w0 0 v00 G; cm w0 1 v00 H; cm w0 2 v01 G; cm w0 3 v01 H;
              cm w1 4 v11 G; cm w1 5 v11 H; cm w1 6 v10 G; cm w1 7 v10 H];
       bC0 := c0; bC1 := c1;
       bR := [resp (negb bit) c0 v00 beta0; resp (negb bit) c0 v01 beta1;
              resp bit c1 v10 beta0; resp bit c1 v11 beta1] |}.

  Definition rep_ok (ci : F) (P r B V : F) : bool := peqb (padd (smul ci P) (smul r B)) V.

  (* verdict: 0 = nil, 1 = "bad sub-challenges", 2 = "commit mismatch" *)
  Definition biffle_verify (G H : F) (pts : list F) (tr : biffle_tr) (c : F) : Z :=
    let V i := nthF (bV tr) i in
    let P i := nthF pts i in
    let r i := nthF (bR tr) i in
    if negb (zeqb (zadd (bC0 tr) (bC1 tr)) c) then 1%Z
    else if rep_ok (bC0 tr) (P 0) (r 0) G (V 0) && rep_ok (bC0 tr) (P 1) (r 0) H (V 1)
         && rep_ok (bC0 tr) (P 2) (r 1) G (V 2) && rep_ok (bC0 tr) (P 3) (r 1) H (V 3)
         && rep_ok (bC1 tr) (P 4) (r 3) G (V 4) && rep_ok (bC1 tr) (P 5) (r 3) H (V 5)
         && rep_ok (bC1 tr) (P 6) (r 2) G (V 6) && rep_ok (bC1 tr) (P 7) (r 2) H (V 7)
    then 0%Z else 2%Z.

  (* ---------------------------------------------------------------- *)
  (* what the proofs are about: (Xbar, Ybar) is a permutation of re-encryptions
     of (X, Y) under generator G and public key H *)
  Definition is_shuffle (G H : F) (X Y Xbar Ybar : list F) : Prop :=
    exists (pi : list nat) (beta : list F),
      Permutation pi (seq 0 (length X)) /\
      Xbar = shuffle_out G pi beta X /\ Ybar = shuffle_out H pi beta Y.

  (* ---------------------------------------------------------------- *)
  (* Fiat-Shamir (proof/hash.go): each challenge is the XOF output of the
     transcript prefix; here an arbitrary function of the messages sent so far *)
  Section FiatShamir.
    Variable H_rho : F * list F * list F * list F * list F * F * F -> list F.      (* after ega1 *)
    Variable H_lambda : F * list F * list F * list F * list F * F * F -> list F -> F. (* after ega3 *)
    Variable H_t : pair_tr -> F.      (* after ega5 and ssa0: depends on everything but Theta, alpha *)
    Variable H_c : pair_tr -> F.      (* after ssa2: everything but alpha *)

    Definition msg1 (tr : pair_tr) := (pGamma tr, pA tr, pC tr, pU tr, pW tr, pL1 tr, pL2 tr).
    Definition strip_t (tr : pair_tr) : pair_tr :=
      {| pGamma := pGamma tr; pA := pA tr; pC := pC tr; pU := pU tr; pW := pW tr; pL1 := pL1 tr; pL2 := pL2 tr;
         pD := pD tr; pSigma := pSigma tr; pTau := pTau tr;
         pS := {| sX := sX (pS tr); sY := sY (pS tr); sTheta := []; sAlpha := [] |} |}.
    Definition strip_c (tr : pair_tr) : pair_tr :=
      {| pGamma := pGamma tr; pA := pA tr; pC := pC tr; pU := pU tr; pW := pW tr; pL1 := pL1 tr; pL2 := pL2 tr;
         pD := pD tr; pSigma := pSigma tr; pTau := pTau tr;
         pS := {| sX := sX (pS tr); sY := sY (pS tr); sTheta := sTheta (pS tr); sAlpha := [] |} |}.

    Definition fs_rho tr := H_rho (msg1 tr).
    Definition fs_lambda tr := H_lambda (msg1 tr) (pD tr).
    Definition fs_t tr := H_t (strip_t tr).
    Definition fs_c tr := H_c (strip_c tr).

    (* HashVerify(Verifier(...)) on a decoded proof *)
    Definition fs_pair_verify (tied : bool) (G H : F) (X Y Xbar Ybar : list F) (tr : pair_tr) : Z :=
      pair_verify tied G H X Y Xbar Ybar tr (fs_rho tr) (fs_lambda tr) (fs_t tr) (fs_c tr).

    (* HashProve(PairShuffle.Prove): run the prover, feeding each challenge from the prefix *)
    Definition fs_pair_prove (pi : list nat) (G H : F) (beta X Y u w a : list F) (tau0 gamma : F)
               (theta : list F) : pair_tr :=
      let run rho lambda t c := pair_prove pi G H beta X Y u w a tau0 gamma theta rho lambda t c in
      let d := zzero in
      let rho := fs_rho (run [] d d d) in
      let lambda := fs_lambda (run rho d d d) in
      let t := fs_t (run rho lambda d d) in
      let c := fs_c (run rho lambda t d) in
      run rho lambda t c.
  End FiatShamir.
End Model.

Arguments sX {q} _. Arguments sY {q} _. Arguments sTheta {q} _. Arguments sAlpha {q} _.
Arguments pGamma {q} _. Arguments pA {q} _. Arguments pC {q} _. Arguments pU {q} _. Arguments pW {q} _.
Arguments pL1 {q} _. Arguments pL2 {q} _. Arguments pD {q} _. Arguments pSigma {q} _. Arguments pTau {q} _.
Arguments pS {q} _.
Arguments bV {q} _. Arguments bC0 {q} _. Arguments bC1 {q} _. Arguments bR {q} _.
