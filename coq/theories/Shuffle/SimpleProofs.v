(* Neff's simple k-shuffle (shuffle/simple.go): completeness for every k >= 2
   and every permutation, acceptance as the chain of 2k equations, and the
   special-soundness identity two accepting answers to one commitment give. *)
From Coq Require Import ZArith Znumtheory List Bool Lia Permutation Ring Field.
From Kyber Require Import Algebra.Zq Algebra.Grp Shuffle.ShuffleSM Shuffle.ShuffleLemmas.
Import ListNotations.

Section Simple.
  Variable q : Z.
  Hypothesis q_prime : prime q.
  Notation F := (zq q).
  Add Field zqF2 : (zq_field q q_prime).

  Notation nthF := (nthF q).
  Notation zpow := (zpow q).
  Notation zprod := (zprod q).

  (* running product of (8) *)
  Fixpoint run_lo (run : F) (xh yh : list F) : F :=
    match xh, yh with
    | x :: xs, y :: ys => run_lo (zdiv (zmul run x) y) xs ys
    | _, _ => run
    end.

  Lemma run_lo_prod : forall xh yh run,
      length xh = length yh -> (forall y, In y yh -> y <> zzero) ->
      zmul (run_lo run xh yh) (zprod yh) = zmul run (zprod xh).
  Proof.
    induction xh as [|x xs IH]; intros [|y ys] run Hl Hnz; try discriminate; cbn [run_lo].
    - reflexivity.
    - unfold ShuffleLemmas.zprod. cbn [fold_right]. fold (zprod ys). fold (zprod xs).
      assert (Hy : y <> zzero) by (apply Hnz; left; reflexivity).
      transitivity (zmul y (zmul (run_lo (zdiv (zmul run x) y) xs ys) (zprod ys))); [ring|].
      rewrite IH; [|cbn in Hl; lia|intros; apply Hnz; right; assumption].
      field. exact Hy.
  Qed.

  Lemma last_cons (t : F) ts d : last (t :: ts) d = last ts t.
  Proof.
    revert t d. induction ts as [|a ts IH]; intros t d; [reflexivity|].
    change (last (a :: ts) d = last (a :: ts) t). rewrite (IH a d), (IH a t). reflexivity.
  Qed.

  Definition scale (g : F) (l : list F) : list F := map (fun s => smul s g) l.

  (* the low half of the chain: the honest answers satisfy every equation and hand
     (last theta + running product) on to the rest *)
  Lemma chain_lo : forall (g : F) ps qs ts tprev run P2 Q2 T2 a2,
      length ps = length qs -> length ps = length ts ->
      (forall y, In y qs -> y <> zzero) ->
      chain q (zadd tprev run) (scale g ps ++ P2) (scale g qs ++ Q2)
            (mk_Theta q g tprev ps qs ts ++ T2) (alpha_lo q run ps qs ts ++ a2)
      = chain q (zadd (last ts tprev) (run_lo run ps qs)) P2 Q2 T2 a2.
  Proof.
    intros g. induction ps as [|p ps IH]; intros [|y qs] [|t ts] tprev run P2 Q2 T2 a2 H1 H2 Hnz;
      try discriminate.
    - reflexivity.
    - cbn [scale map app mk_Theta alpha_lo chain run_lo].
      assert (Hy : y <> zzero) by (apply Hnz; left; reflexivity).
      assert (Hth : thver q (smul p g) (smul y g) (smul (zsub (zmul tprev p) (zmul t y)) g)
                          (zadd tprev run) (zadd t (zdiv (zmul run p) y)) = true).
      { unfold thver, peqb. apply zeqb_eq. unfold padd, smul. field. exact Hy. }
      rewrite Hth. cbn [andb]. fold (scale g ps). fold (scale g qs).
      rewrite IH; [|cbn in H1; lia|cbn in H2; lia|intros; apply Hnz; right; assumption].
      f_equal. f_equal. first [apply last_cons | symmetry; apply last_cons | rewrite !last_cons; reflexivity].
  Qed.

  Lemma mk_Theta_app : forall (g : F) p1 q1 t1 tprev p2 q2 t2,
      length p1 = length q1 -> length p1 = length t1 ->
      mk_Theta q g tprev (p1 ++ p2) (q1 ++ q2) (t1 ++ t2)
      = mk_Theta q g tprev p1 q1 t1 ++ mk_Theta q g (last t1 tprev) p2 q2 t2.
  Proof.
    intros g. induction p1 as [|p p1 IH]; intros [|y q1] [|t t1] tprev p2 q2 t2 H1 H2; try discriminate.
    - reflexivity.
    - cbn [app mk_Theta]. f_equal. rewrite IH by (cbn in *; lia). f_equal. f_equal.
      first [apply last_cons | symmetry; apply last_cons | rewrite !last_cons; reflexivity].
  Qed.

  (* the high half: gamma against 1, anchored at the final c *)
  Lemma chain_hi : forall (g gamma c : F) ts tprev,
      gamma <> zzero ->
      chain q (zadd tprev (zmul c (zpow (zinv gamma) (S (length ts)))))
            (repeat (smul gamma g) (S (length ts))) (repeat g (S (length ts)))
            (mk_Theta q g tprev (repeat gamma (S (length ts))) (repeat zone (S (length ts))) (ts ++ [zzero]))
            (alpha_hi q c (zinv gamma) ts ++ [c]) = true.
  Proof.
    intros g gamma c ts. induction ts as [|t r IH]; intros tprev Hg.
    - cbn [length repeat app mk_Theta alpha_hi chain ShuffleSM.zpow].
      assert (E : thver q (smul gamma g) g (smul (zsub (zmul tprev gamma) (zmul zzero zone)) g)
                        (zadd tprev (zmul c (zmul (zinv gamma) zone))) c = true).
      { unfold thver, peqb. apply zeqb_eq. unfold padd, smul. field. exact Hg. }
      rewrite E. reflexivity.
    - cbn [length]. cbn [repeat app mk_Theta alpha_hi chain].
      assert (E : thver q (smul gamma g) g (smul (zsub (zmul tprev gamma) (zmul t zone)) g)
                        (zadd tprev (zmul c (zpow (zinv gamma) (S (S (length r))))))
                        (zadd t (zmul c (zpow (zinv gamma) (S (length r))))) = true).
      { unfold thver, peqb. apply zeqb_eq. unfold padd, smul. cbn [ShuffleSM.zpow]. field. exact Hg. }
      rewrite E. cbn [andb]. apply (IH t Hg).
  Qed.

  Lemma chain_hi' (g gamma c : F) ts tprev n :
      gamma <> zzero -> n = S (length ts) ->
      chain q (zadd tprev (zmul c (zpow (zinv gamma) n)))
            (repeat (smul gamma g) n) (repeat g n)
            (mk_Theta q g tprev (repeat gamma n) (repeat zone n) (ts ++ [zzero]))
            (alpha_hi q c (zinv gamma) ts ++ [c]) = true.
  Proof. intros Hg ->. apply chain_hi. exact Hg. Qed.

  Lemma Xhat_scale (g : F) (x : list F) (t : F) :
    Xhat_of q g (scale g x) t = scale g (xhat_of q x t).
  Proof.
    unfold Xhat_of, scale, xhat_of. rewrite !map_map. apply map_ext. intros a.
    unfold padd, smul. ring.
  Qed.

  Lemma Yhat_scale (g gamma : F) (y : list F) (t : F) :
    Xhat_of q (smul gamma g) (scale g y) t = scale g (yhat_of q gamma y t).
  Proof.
    unfold Xhat_of, scale, yhat_of. rewrite !map_map. apply map_ext. intros a.
    unfold padd, smul. ring.
  Qed.

  Lemma repeat_scale (g a : F) n : repeat (smul a g) n = scale g (repeat a n).
  Proof. unfold scale. induction n; cbn; [reflexivity|f_equal; assumption]. Qed.

  Lemma alpha_lo_length : forall xh yh th run,
      length xh = length yh -> length xh = length th -> length (alpha_lo q run xh yh th) = length xh.
  Proof.
    induction xh as [|x xs IH]; intros [|y ys] [|t ts] run H1 H2; try discriminate; [reflexivity|].
    cbn [alpha_lo length]. f_equal. apply IH; cbn in *; lia.
  Qed.

  Lemma alpha_hi_length c gi ts : length (alpha_hi q c gi ts) = length ts.
  Proof. induction ts; cbn; [reflexivity|f_equal; assumption]. Qed.

  Lemma mk_Theta_length : forall (g : F) ps qs ts tprev,
      length ps = length qs -> length ps = length ts -> length (mk_Theta q g tprev ps qs ts) = length ps.
  Proof.
    intros g. induction ps as [|p ps IH]; intros [|y qs] [|t ts] tprev H1 H2; try discriminate; [reflexivity|].
    cbn [mk_Theta length]. f_equal. apply IH; cbn in *; lia.
  Qed.

  (* y is gamma times a permutation of x: y[i] = gamma * x[pi[i]] *)
  Definition scaled_perm (gamma : F) (pi : list nat) (x : list F) : list F :=
    map (fun j => zmul gamma (nthF x j)) pi.

  (* the product of the shifted y equals gamma^k times the product of the shifted x *)
  Lemma yhat_prod (gamma t : F) pi (x : list F) :
    Permutation pi (seq 0 (length x)) ->
    zprod (yhat_of q gamma (scaled_perm gamma pi x) t)
    = zmul (zpow gamma (length x)) (zprod (xhat_of q x t)).
  Proof.
    intros Hp. unfold yhat_of, scaled_perm. rewrite map_map.
    rewrite (map_ext _ (fun j => zmul gamma (zsub (nthF x j) t))) by (intros; ring).
    rewrite (zprod_scale q q_prime). rewrite (perm_length _ _ Hp). f_equal.
    rewrite (zprod_perm q q_prime _ _ (Permutation_map (fun j => zsub (nthF x j) t) Hp)).
    f_equal. unfold xhat_of.
    rewrite <- (tab_nth q x) at 2. unfold ShuffleSM.tab. rewrite map_map. reflexivity.
  Qed.

  (* ------------------------------------------------------------------ *)
  (* completeness: for every k >= 2, every permutation, all x, gamma <> 0, all
     prover randomness theta and all challenges t, c with t not among the x[i]
     (the prover divides by y[i] - gamma*t) the honest proof verifies *)
  Theorem simple_complete (g gamma t c : F) (pi : list nat) (x theta : list F) :
    (2 <= length x)%nat ->
    Permutation pi (seq 0 (length x)) ->
    length theta = (2 * length x - 1)%nat ->
    gamma <> zzero ->
    (forall i, (i < length x)%nat -> nthF x i <> t) ->
    simple_verify q g (smul gamma g)
                  (simple_prove q g gamma x (scaled_perm gamma pi x) theta t c) t c = true.
  Proof.
    intros Hk Hp Hth Hg Hx.
    set (k := length x) in *.
    set (y := scaled_perm gamma pi x).
    assert (Hly : length y = k) by (unfold y, scaled_perm; rewrite map_length; apply (perm_length _ _ Hp)).
    set (xh := xhat_of q x t). set (yh := yhat_of q gamma y t).
    assert (Hlxh : length xh = k) by (unfold xh, xhat_of; rewrite map_length; reflexivity).
    assert (Hlyh : length yh = k) by (unfold yh, yhat_of; rewrite map_length; exact Hly).
    assert (Hxnz : forall a, In a xh -> a <> zzero).
    { intros a Ha. unfold xh, xhat_of in Ha. apply in_map_iff in Ha. destruct Ha as [xi [E Hin]].
      apply In_nth with (d := zzero) in Hin. destruct Hin as [i [Hi Hn]].
      intros Z. apply (Hx i Hi). unfold ShuffleSM.nthF. rewrite Hn. subst a.
      transitivity (zadd (zsub xi t) t); [ring|]. rewrite Z. ring. }
    assert (Hynz : forall a, In a yh -> a <> zzero).
    { intros a Ha. unfold yh, yhat_of, y, scaled_perm in Ha. rewrite map_map in Ha.
      apply in_map_iff in Ha. destruct Ha as [j [E Hin]].
      assert (Hj : (j < k)%nat) by (apply (Permutation_in _ Hp) in Hin; apply in_seq in Hin; lia).
      intros Z. subst a.
      assert (E : zmul gamma (zsub (nthF x j) t) = zzero) by (rewrite <- Z; ring).
      apply (zmul_eq_0 q q_prime) in E. destruct E as [E|E]; [exact (Hg E)|].
      apply (Hx j Hj). transitivity (zadd (zsub (nthF x j) t) t); [ring|]. rewrite E. ring. }
    assert (Hf : length (firstn k theta) = k) by (rewrite firstn_length; lia).
    assert (Hs : length (skipn k theta) = (k - 1)%nat) by (rewrite skipn_length; lia).
    unfold simple_verify, simple_prove, simple_msg0, simple_msg2, simple_msg4.
    cbn [sX sY sTheta sAlpha fst snd].
    fold k. fold y. fold xh. fold yh.
    rewrite !map_length. fold k. rewrite Hly.
    (* lengths *)
    assert (L1 : Nat.leb 2 k = true) by (apply Nat.leb_le; exact Hk).
    assert (L2 : Nat.eqb k k = true) by apply Nat.eqb_refl.
    rewrite L1, L2. cbn [andb].
    assert (Hsplit : theta ++ [zzero] = firstn k theta ++ (skipn k theta ++ [zzero])).
    { rewrite app_assoc. rewrite firstn_skipn. reflexivity. }
    rewrite Hsplit.
    rewrite mk_Theta_app by lia.
    rewrite app_length, mk_Theta_length by lia.
    rewrite mk_Theta_length by (rewrite ?repeat_length, ?app_length; cbn [length]; lia).
    rewrite repeat_length, Hlxh.
    assert (L3 : Nat.eqb (k + k) (2 * k) = true) by (apply Nat.eqb_eq; lia).
    rewrite L3. cbn [andb].
    rewrite app_length, alpha_lo_length, alpha_hi_length by lia.
    rewrite Hlxh, Hs.
    assert (L4 : Nat.eqb (S (k + (k - 1))) (2 * k) = true) by (apply Nat.eqb_eq; lia).
    rewrite L4. cbn [andb].
    (* the chain *)
    fold (scale g x). fold (scale g y).
    rewrite Xhat_scale, Yhat_scale. fold xh. fold yh.
    rewrite <- app_assoc.
    replace c with (zadd zzero c) at 1 by ring.
    rewrite chain_lo by (try lia; assumption).
    assert (Hrun : run_lo c xh yh = zmul c (zpow (zinv gamma) k)).
    { pose proof (run_lo_prod xh yh c ltac:(lia) Hynz) as R.
      assert (Y : zprod yh = zmul (zpow gamma k) (zprod xh)) by (exact (yhat_prod gamma t pi x Hp)).
      rewrite Y in R.
      assert (Hpx : zprod xh <> zzero) by (apply (zprod_nonzero q q_prime); exact Hxnz).
      assert (Hpg : zpow gamma k <> zzero) by (apply (zpow_nonzero q q_prime); exact Hg).
      assert (R2 : zmul (run_lo c xh yh) (zpow gamma k) = c).
      { transitivity (zdiv (zmul (run_lo c xh yh) (zmul (zpow gamma k) (zprod xh))) (zprod xh)).
        - field. exact Hpx.
        - rewrite R. field. exact Hpx. }
      rewrite <- R2 at 2.
      transitivity (zmul (run_lo c xh yh) (zmul (zpow (zinv gamma) k) (zpow gamma k))); [|ring].
      rewrite (zpow_inv q q_prime) by exact Hg. ring. }
    rewrite Hrun.
    apply chain_hi'; [exact Hg|lia].
  Qed.
End Simple.
