(* Fiat-Shamir form (proof.HashProve / HashVerify): the challenges are functions
   of the transcript prefix; the honest non-interactive proof verifies. *)
From Coq Require Import ZArith Znumtheory List Bool Lia Permutation.
From Kyber Require Import Algebra.Zq Algebra.Grp Shuffle.ShuffleSM Shuffle.ShuffleLemmas
     Shuffle.SimpleProofs Shuffle.PairProofs.
Import ListNotations.

Section FS.
  Variable q : Z.
  Hypothesis q_prime : prime q.
  Notation F := (zq q).
  Variable H_rho : F * list F * list F * list F * list F * F * F -> list F.
  Variable H_lambda : F * list F * list F * list F * list F * F * F -> list F -> F.
  Variable H_t : pair_tr q -> F.
  Variable H_c : pair_tr q -> F.

  (* the proof HashProve outputs is the interactive transcript for the challenges
     the verifier will recompute from it *)
  Lemma fs_prove_fixpoint pi G H beta X Y u w a tau0 gamma theta :
    let tr := fs_pair_prove q H_rho H_lambda H_t H_c pi G H beta X Y u w a tau0 gamma theta in
    tr = pair_prove q pi G H beta X Y u w a tau0 gamma theta
                    (fs_rho q H_rho tr) (fs_lambda q H_lambda tr) (fs_t q H_t tr) (fs_c q H_c tr).
  Proof. reflexivity. Qed.

  Theorem fs_pair_complete (pi : list nat) (G H : F) (beta X Y u w a : list F) (tau0 gamma : F)
          (theta : list F) :
    let k := length pi in
    let tr := fs_pair_prove q H_rho H_lambda H_t H_c pi G H beta X Y u w a tau0 gamma theta in
    (2 <= k)%nat ->
    Permutation pi (seq 0 k) ->
    length X = k -> length Y = k ->
    length (fs_rho q H_rho tr) = k ->
    length theta = (2 * k - 1)%nat ->
    gamma <> zzero ->
    (forall i, (i < k)%nat ->
       nthF q (pp_r q pi u a (fs_rho q H_rho tr) (fs_lambda q H_lambda tr)) i <> fs_t q H_t tr) ->
    fs_pair_verify q H_rho H_lambda H_t H_c true G H X Y
                   (shuffle_out q G pi beta X) (shuffle_out q H pi beta Y) tr = 0%Z.
  Proof.
    intros k tr Hk Hp HX HY Hrho Hth Hg Ht.
    unfold fs_pair_verify.
    change (pair_verify q true G H X Y (shuffle_out q G pi beta X) (shuffle_out q H pi beta Y)
                        (pair_prove q pi G H beta X Y u w a tau0 gamma theta
                                    (fs_rho q H_rho tr) (fs_lambda q H_lambda tr) (fs_t q H_t tr) (fs_c q H_c tr))
                        (fs_rho q H_rho tr) (fs_lambda q H_lambda tr) (fs_t q H_t tr) (fs_c q H_c tr) = 0%Z).
    apply (pair_complete q q_prime); assumption.
  Qed.
End FS.
