(* Soundness core of Neff's simple k-shuffle (shuffle/simple.go) and what it
   gives for the pair shuffle (shuffle/pair.go), as algebraic theorems with
   explicit bounds on the sets of challenges a cheating prover can answer.

   1. chain_pair / simple_special_sound: two accepting answers (c <> c') to one
      commitment (X, Y, Theta) at the challenge t force the product identity
        prod_i (X_i - t*G) * Gamma^k = prod_i (Y_i - t*Gamma) * G^k,
      i.e. prod_i (gamma*x_i - gamma*t) = prod_i (y_i - gamma*t) on logarithms.
   2. prod_eq_perm: two lists of k field elements whose root polynomials
      prod (a_i - s), prod (b_i - s) agree at more than k points are permutations
      of each other (a non-zero polynomial of degree <= k has at most k roots:
      Share/PolyFacts.roots_bound).
   3. simple_sound_bound: if y is NOT a gamma-scaled permutation of x, the
      challenges t for which some commitment Theta can be answered for two
      different c are at most k.
   4. pair_t_bound, pair_lambda_unique, pair_rho_unique: the same bound for the t
      of the embedded simple shuffle of the (tied) pair shuffle, and "at most one
      value" statements for lambda (per permutation) and for each coordinate of rho.
      pair_sound_partial assembles them; what is missing for the full statistical
      statement is said there. *)
From Coq Require Import ZArith Znumtheory List Bool Lia Permutation Ring Field FinFun.
From Kyber Require Import Algebra.Zq Algebra.Grp Share.ShamirSM Share.PolyFacts
     Shuffle.ShuffleSM Shuffle.ShuffleLemmas Shuffle.SimpleProofs Shuffle.PairProofs Shuffle.SoundProofs.
Import ListNotations.

Section SimpleSound.
  Variable q : Z.
  Hypothesis q_prime : prime q.
  Notation F := (zq q).
  Add Field zqF6 : (zq_field q q_prime).

  Notation zprod := (ShuffleLemmas.zprod q).
  Notation nthF := (ShuffleSM.nthF q).
  Notation zpow := (ShuffleSM.zpow q).

  (* ------------------------------------------------------------------ *)
  (* products *)

  Lemma zprod_cons (a : F) l : zprod (a :: l) = zmul a (zprod l).
  Proof. reflexivity. Qed.

  Lemma zprod_app (l1 l2 : list F) : zprod (l1 ++ l2) = zmul (zprod l1) (zprod l2).
  Proof.
    induction l1 as [|a l IH]; cbn [app].
    - unfold ShuffleLemmas.zprod. cbn [fold_right]. ring.
    - rewrite !zprod_cons, IH. ring.
  Qed.

  Lemma zprod_repeat (a : F) n : zprod (repeat a n) = zpow a n.
  Proof.
    induction n as [|n IH]; cbn [repeat ShuffleSM.zpow]; [reflexivity|].
    rewrite zprod_cons, IH. reflexivity.
  Qed.

  Lemma zprod_map_mul (g : F) (f : F -> F) (l : list F) :
    zprod (map (fun a => zmul (f a) g) l) = zmul (zpow g (length l)) (zprod (map f l)).
  Proof.
    induction l as [|a l IH]; cbn [map length ShuffleSM.zpow].
    - unfold ShuffleLemmas.zprod. cbn [fold_right]. ring.
    - rewrite !zprod_cons, IH. ring.
  Qed.

  Lemma zprod_zero_in (l : list F) : zprod l = zzero -> In zzero l.
  Proof.
    induction l as [|a l IH]; intros E.
    - exfalso. apply (zone_neq_zzero q q_prime). exact E.
    - rewrite zprod_cons in E. apply (zmul_eq_0 q q_prime) in E. destruct E as [E|E].
      + left. exact E.
      + right. apply IH. exact E.
  Qed.

  (* ------------------------------------------------------------------ *)
  (* root polynomials: prod_i (a_i - X), as coefficient lists (Share/ShamirSM) *)

  Fixpoint rootpoly (a : list F) : list F :=
    match a with
    | [] => [zone]
    | x :: r => mul_aux [x; zopp zone] (rootpoly r)
    end.

  Definition shifted (a : list F) (s : F) : list F := map (fun x => zsub x s) a.

  Lemma rootpoly_length a : length (rootpoly a) = S (length a).
  Proof.
    induction a as [|x r IH]; [reflexivity|].
    cbn [rootpoly]. rewrite length_mul_aux.
    - rewrite IH. cbn [length]. lia.
    - discriminate.
    - intros E. rewrite E in IH. discriminate.
  Qed.

  Lemma rootpoly_eval a s : peval (rootpoly a) s = zprod (shifted a s).
  Proof.
    induction a as [|x r IH].
    - cbn [rootpoly shifted map]. rewrite peval_cons. unfold ShuffleLemmas.zprod. cbn [fold_right].
      rewrite (peval_nil q). ring.
    - cbn [rootpoly shifted map]. rewrite (peval_mul_aux q q_prime), IH.
      rewrite !peval_cons, (peval_nil q). rewrite zprod_cons. unfold shifted. ring.
  Qed.

  Lemma NoDup_filter_ne (a : F) (pts : list F) :
    NoDup pts -> (length pts <= S (length (filter (fun s => negb (zeqb s a)) pts)))%nat.
  Proof.
    induction pts as [|s pts IH]; intros Hnd; [cbn; lia|].
    inversion Hnd as [|? ? Hnotin Hnd']; subst. cbn [filter length].
    destruct (zeqb_spec q s a) as [->|Hne]; cbn [negb length].
    - (* a itself: it does not occur in the rest, nothing else is removed *)
      assert (E : filter (fun s => negb (zeqb s a)) pts = pts).
      { clear IH Hnd Hnd'. induction pts as [|b pts IH]; [reflexivity|].
        cbn [filter]. destruct (zeqb_spec q b a) as [->|Hb]; cbn [negb].
        - exfalso. apply Hnotin. left. reflexivity.
        - f_equal. apply IH. intros Hin. apply Hnotin. right. exact Hin. }
      rewrite E. lia.
    - specialize (IH Hnd'). lia.
  Qed.

  (* two lists of k elements whose root polynomials agree at more than k points
     are permutations of each other *)
  Theorem prod_eq_perm : forall (a b pts : list F),
      length a = length b -> NoDup pts -> (length a < length pts)%nat ->
      (forall s, In s pts -> zprod (shifted a s) = zprod (shifted b s)) ->
      Permutation a b.
  Proof.
    induction a as [|a0 a IH]; intros b pts Hl Hnd Hlt Hag.
    - destruct b; [constructor|discriminate].
    - (* the polynomials are equal, hence equal at a0, where the left one vanishes *)
      assert (Epoly : rootpoly (a0 :: a) = rootpoly b).
      { apply (interp_unique q q_prime pts); [exact Hnd| | |].
        - rewrite !rootpoly_length. f_equal. exact Hl.
        - rewrite rootpoly_length. exact Hlt.
        - intros s Hs. rewrite !rootpoly_eval. apply Hag. exact Hs. }
      assert (Ha0 : zprod (shifted b a0) = zzero).
      { rewrite <- rootpoly_eval, <- Epoly, rootpoly_eval. cbn [shifted map]. rewrite zprod_cons.
        replace (zsub a0 a0) with (@zzero q) by ring. ring. }
      apply zprod_zero_in in Ha0. unfold shifted in Ha0. apply in_map_iff in Ha0.
      destruct Ha0 as [bj [Ebj Hin]]. apply (zsub_eq_0 q q_prime) in Ebj. subst bj.
      apply in_split in Hin. destruct Hin as [b1 [b2 ->]].
      apply Permutation_cons_app.
      apply (IH (b1 ++ b2) (filter (fun s => negb (zeqb s a0)) pts)).
      + rewrite app_length in *. cbn [length] in Hl. lia.
      + apply NoDup_filter. exact Hnd.
      + pose proof (NoDup_filter_ne a0 pts Hnd). cbn [length] in Hlt. lia.
      + intros s Hs. apply filter_In in Hs. destruct Hs as [HsS Hne].
        apply negb_true_iff in Hne.
        assert (Hd : zsub a0 s <> zzero).
        { intros Z. apply (zsub_eq_0 q q_prime) in Z. subst s.
          destruct (zeqb_spec q a0 a0); [discriminate|congruence]. }
        apply (zmul_cancel_l q q_prime (zsub a0 s)); [exact Hd|].
        pose proof (Hag s HsS) as E. cbn [shifted map] in E. rewrite zprod_cons in E.
        unfold shifted. unfold shifted in E. rewrite E.
        rewrite !map_app. cbn [map]. rewrite !zprod_app, zprod_cons. ring.
  Qed.

  (* ------------------------------------------------------------------ *)
  (* the chain of 2k equations: two accepting answers to one commitment *)

  Lemma thver_eq (A B T a b : F) : thver q A B T a b = true <-> zsub (zmul a A) (zmul b B) = T.
  Proof.
    unfold thver, peqb. rewrite zeqb_eq. unfold padd, smul.
    split; intros E; rewrite <- E; ring.
  Qed.

  Lemma chain_pair : forall (Ps Qs Ths al al' : list F) (prev prev' : F),
      chain q prev Ps Qs Ths al = true -> chain q prev' Ps Qs Ths al' = true ->
      zmul (zsub prev prev') (zprod Ps) = zmul (zsub (last al prev) (last al' prev')) (zprod Qs).
  Proof.
    induction Ps as [|p Ps IH]; intros Qs Ths al al' prev prev' C1 C2.
    - destruct Qs, Ths, al; try discriminate. destruct al'; try discriminate.
      cbn [last]. reflexivity.
    - destruct Qs as [|y Qs], Ths as [|th Ths], al as [|a al]; try discriminate.
      destruct al' as [|a' al']; try discriminate.
      cbn [chain] in C1, C2. apply andb_true_iff in C1. apply andb_true_iff in C2.
      destruct C1 as [T1 C1]. destruct C2 as [T2 C2].
      apply thver_eq in T1. apply thver_eq in T2.
      specialize (IH Qs Ths al al' a a' C1 C2).
      rewrite !zprod_cons. rewrite !(last_cons q).
      transitivity (zmul y (zmul (zsub a a') (zprod Ps))).
      + assert (E : zmul (zsub prev prev') p = zmul (zsub a a') y).
        { transitivity (zadd (zsub (zsub (zmul prev p) (zmul a y)) (zsub (zmul prev' p) (zmul a' y)))
                             (zmul (zsub a a') y)); [ring|]. rewrite T1, T2. ring. }
        transitivity (zmul (zmul (zsub prev prev') p) (zprod Ps)); [ring|]. rewrite E. ring.
      + rewrite IH. ring.
  Qed.

  (* special soundness of the simple k-shuffle, on points *)
  Theorem simple_special_sound (G Gamma t c c' : F) (tr tr' : simple_tr q) :
    simple_verify q G Gamma tr t c = true ->
    simple_verify q G Gamma tr' t c' = true ->
    sX tr' = sX tr -> sY tr' = sY tr -> sTheta tr' = sTheta tr ->
    c <> c' ->
    let k := length (sY tr) in
    zprod (Xhat_of q G (sX tr) t ++ repeat Gamma k) = zprod (Xhat_of q Gamma (sY tr) t ++ repeat G k).
  Proof.
    intros V1 V2 EX EY ET Hc k.
    unfold simple_verify in V1, V2. rewrite EX, EY, ET in V2. fold k in V1, V2.
    repeat (apply andb_true_iff in V1; destruct V1 as [V1 ?]).
    repeat (apply andb_true_iff in V2; destruct V2 as [V2 ?]).
    match goal with
    | [ A : chain q c _ _ _ _ = true, B : chain q c' _ _ _ _ = true |- _ ] =>
        pose proof (chain_pair _ _ _ _ _ _ _ A B) as E
    end.
    rewrite !last_last in E.
    apply (zmul_cancel_l q q_prime (zsub c c')); [|exact E].
    intros Z. apply Hc. apply (zsub_eq_0 q q_prime). exact Z.
  Qed.

  (* the same on logarithms: G = g <> 0, X = x*G, Y = y*G, Gamma = gamma*G *)
  Corollary simple_special_sound_log (g gamma t c c' : F) (x y Theta alpha alpha' : list F) :
    g <> zzero -> length x = length y ->
    simple_verify q g (smul gamma g)
                  {| sX := scale q g x; sY := scale q g y; sTheta := Theta; sAlpha := alpha |} t c = true ->
    simple_verify q g (smul gamma g)
                  {| sX := scale q g x; sY := scale q g y; sTheta := Theta; sAlpha := alpha' |} t c' = true ->
    c <> c' ->
    zprod (shifted (map (zmul gamma) x) (zmul gamma t)) = zprod (shifted y (zmul gamma t)).
  Proof.
    intros Hg Hl V1 V2 Hc.
    pose proof (simple_special_sound g (smul gamma g) t c c' _ _ V1 V2 eq_refl eq_refl eq_refl Hc) as E.
    cbn [sX sY] in E. cbv zeta in E.
    rewrite (Xhat_scale q q_prime), (Yhat_scale q q_prime) in E.
    unfold scale in E. rewrite map_length in E.
    rewrite !zprod_app, !zprod_repeat in E.
    unfold smul in E.
    rewrite (zprod_map_mul g (fun a => a)), (zprod_map_mul g (fun a => a)) in E.
    rewrite !map_id in E.
    unfold xhat_of, yhat_of in E. rewrite !map_length in E.
    set (k := length y) in *. rewrite Hl in E. fold k in E.
    (* g^k * prod(x_i - t) * (gamma*g)^k = g^k * prod(y_i - gamma t) * g^k *)
    assert (Hgk : zpow g k <> zzero) by (apply (zpow_nonzero q q_prime); exact Hg).
    assert (Epow : zpow (zmul gamma g) k = zmul (zpow gamma k) (zpow g k)).
    { generalize k. intros n. induction n as [|n IHn]; cbn [ShuffleSM.zpow]; [ring|rewrite IHn; ring]. }
    rewrite Epow in E.
    assert (E2 : zmul (zpow gamma k) (zprod (map (fun xi => zsub xi t) x))
                 = zprod (map (fun yi => zsub yi (zmul gamma t)) y)).
    { apply (zmul_cancel_l q q_prime (zmul (zpow g k) (zpow g k))).
      - intros Z. apply (zmul_eq_0 q q_prime) in Z. destruct Z; contradiction.
      - transitivity (zmul (zmul (zpow g k) (zprod (map (fun xi => zsub xi t) x))) (zmul (zpow gamma k) (zpow g k))); [ring|].
        rewrite E. ring. }
    unfold shifted. rewrite map_map.
    rewrite (map_ext _ (fun xi => zmul (zsub xi t) gamma)) by (intros; ring).
    rewrite (zprod_map_mul gamma (fun xi => zsub xi t)). rewrite Hl. fold k. exact E2.
  Qed.

  (* ------------------------------------------------------------------ *)
  (* the bound for the simple k-shuffle *)

  (* t is answerable: some commitment Theta to the statement (x, y) has accepting
     answers for two different challenges c (a prover that can answer at most one
     c per commitment succeeds with probability at most 1/q at this t) *)
  Definition simple_bad (g gamma : F) (x y : list F) (t : F) : Prop :=
    exists Theta alpha alpha' c c', c <> c' /\
      simple_verify q g (smul gamma g)
        {| sX := scale q g x; sY := scale q g y; sTheta := Theta; sAlpha := alpha |} t c = true /\
      simple_verify q g (smul gamma g)
        {| sX := scale q g x; sY := scale q g y; sTheta := Theta; sAlpha := alpha' |} t c' = true.

  Theorem simple_sound_bound (g gamma : F) (x y ts : list F) :
    g <> zzero -> gamma <> zzero -> length x = length y ->
    ~ Permutation (map (zmul gamma) x) y ->
    NoDup ts -> (forall t, In t ts -> simple_bad g gamma x y t) ->
    (length ts <= length x)%nat.
  Proof.
    intros Hg Hgam Hl Hnp Hnd Hbad.
    destruct (Nat.le_gt_cases (length ts) (length x)) as [Hle|Hgt]; [exact Hle|exfalso].
    apply Hnp.
    apply (prod_eq_perm _ _ (map (zmul gamma) ts)).
    - rewrite map_length. exact Hl.
    - apply Injective_map_NoDup; [|exact Hnd].
      intros a b E. apply (zmul_cancel_l q q_prime gamma); assumption.
    - rewrite !map_length. exact Hgt.
    - intros s Hs. apply in_map_iff in Hs. destruct Hs as [t [<- Ht]].
      destruct (Hbad t Ht) as (Theta & alpha & alpha' & c & c' & Hc & V1 & V2).
      exact (simple_special_sound_log g gamma t c c' x y Theta alpha alpha' Hg Hl V1 V2 Hc).
  Qed.

  (* a permutation of lists is an index permutation *)
  Lemma perm_to_index (gamma : F) : forall (r s : list F),
      Permutation (map (zmul gamma) r) s ->
      exists pi, Permutation pi (seq 0 (length r)) /\
                 forall i, (i < length r)%nat -> nthF s i = zmul gamma (nthF r (idx pi i)).
  Proof.
    intros r s Hp.
    assert (Hlen : length s = length r) by (apply Permutation_length in Hp; rewrite map_length in Hp; lia).
    apply (Permutation_nth (map (zmul gamma) r) s zzero) in Hp.
    destruct Hp as [Hl [f [Hb [Hinj Hf]]]].
    rewrite map_length in Hl, Hb, Hinj, Hf.
    set (k := length r) in *.
    exists (map f (seq 0 k)). split.
    - apply NoDup_Permutation_bis.
      + apply (NoDup_map_inv (fun j => j)). rewrite map_id.
        (* NoDup (map f (seq 0 k)) from injectivity on [0,k) *)
        clear Hf. assert (Hs : forall l, NoDup l -> (forall a, In a l -> (a < k)%nat) -> NoDup (map f l)).
        { induction l as [|a l IHl]; intros Hnd Hlt; [constructor|].
          inversion Hnd as [|? ? Hn Hnd']; subst. cbn [map]. constructor.
          - intros Hin. apply in_map_iff in Hin. destruct Hin as [b [E Hbin]].
            apply Hinj in E; [subst; contradiction| |]; apply Hlt; [right; exact Hbin|left; reflexivity].
          - apply IHl; [exact Hnd'|intros; apply Hlt; right; assumption]. }
        apply Hs; [apply seq_NoDup|intros a Ha; apply in_seq in Ha; lia].
      + rewrite map_length, !seq_length. lia.
      + intros a Ha. apply in_map_iff in Ha. destruct Ha as [b [<- Hb']]. apply in_seq in Hb'.
        apply in_seq. specialize (Hb b). lia.
    - intros i Hi. unfold ShuffleSM.nthF, idx.
      rewrite (Hf i Hi).
      assert (E : nth i (map f (seq 0 k)) 0%nat = f i).
      { rewrite nth_indep with (d' := f 0%nat) by (rewrite map_length, seq_length; exact Hi).
        rewrite map_nth. rewrite seq_nth by exact Hi. reflexivity. }
      rewrite E.
      rewrite nth_indep with (d' := zmul gamma zzero) by (rewrite map_length; apply Hb; exact Hi).
      rewrite map_nth. reflexivity.
  Qed.

  (* ------------------------------------------------------------------ *)
  (* the pair shuffle (with the tie): challenge t of the embedded simple shuffle *)

  Notation tab := (ShuffleSM.tab q).

  (* everything the prover sent before t is fixed (the tie fixes the simple shuffle's
     X, Y as well), and so is the commitment Theta answered for two different c *)
  Definition same_prefix (tr0 tr : pair_tr q) : Prop :=
    pGamma tr = pGamma tr0 /\ pA tr = pA tr0 /\ pC tr = pC tr0 /\ pU tr = pU tr0 /\ pD tr = pD tr0 /\
    sTheta (pS tr) = sTheta (pS tr0).

  Definition pair_bad_t (G H : F) (X Y Xbar Ybar : list F) (tr0 : pair_tr q) (rho : list F) (lambda t : F) : Prop :=
    exists tr tr' c c', c <> c' /\ same_prefix tr0 tr /\ same_prefix tr0 tr' /\
      accepts q true G H X Y Xbar Ybar tr rho lambda t c /\
      accepts q true G H X Y Xbar Ybar tr' rho lambda t c'.

  (* logarithms w.r.t. G of R = A + lambda*B and S = C + lambda*D *)
  Definition Rlog (G : F) (tr0 : pair_tr q) (rho : list F) (lambda : F) (k : nat) : list F :=
    tab k (fun i => zdiv (padd (nthF (pA tr0) i) (smul lambda (pv_B q G tr0 rho i))) G).
  Definition Slog (G : F) (tr0 : pair_tr q) (lambda : F) (k : nat) : list F :=
    tab k (fun i => zdiv (padd (nthF (pC tr0) i) (smul lambda (nthF (pD tr0) i))) G).

  Lemma list_eq_tab (l : list F) k (f : nat -> F) :
    length l = k -> (forall i, (i < k)%nat -> nthF l i = f i) -> l = tab k f.
  Proof.
    intros Hl Hf. rewrite <- (tab_nth q l). rewrite Hl. apply tab_ext. exact Hf.
  Qed.

  Lemma accepted_simple_part (G H : F) (X Y Xbar Ybar : list F) (tr0 tr : pair_tr q)
        (rho : list F) (lambda t c : F) :
    G <> zzero -> same_prefix tr0 tr ->
    accepts q true G H X Y Xbar Ybar tr rho lambda t c ->
    let k := length X in
    simple_verify q G (pGamma tr0)
      {| sX := scale q G (Rlog G tr0 rho lambda k); sY := scale q G (Slog G tr0 lambda k);
         sTheta := sTheta (pS tr0); sAlpha := sAlpha (pS tr) |} t c = true.
  Proof.
    intros HG (EG & EA & EC & EU & ED & ET) V k.
    apply pair_accept_iff in V. fold k in V. destruct V as [Wf [Sv [Tie _]]].
    specialize (Tie eq_refl).
    (* lengths *)
    assert (LY : length (sY (pS tr)) = k).
    { unfold pair_wf in Wf. repeat (apply andb_true_iff in Wf; destruct Wf as [Wf ?]).
      match goal with [ E : Nat.eqb (length (sY (pS tr))) k = true |- _ ] => apply Nat.eqb_eq in E; exact E end. }
    assert (LX : length (sX (pS tr)) = k).
    { unfold simple_verify in Sv. repeat (apply andb_true_iff in Sv; destruct Sv as [Sv ?]).
      match goal with [ E : Nat.eqb (length (sX (pS tr))) _ = true |- _ ] => apply Nat.eqb_eq in E; rewrite E; exact LY end. }
    assert (EX : sX (pS tr) = scale q G (Rlog G tr0 rho lambda k)).
    { unfold scale, Rlog, ShuffleSM.tab. rewrite map_map. apply (list_eq_tab _ k); [exact LX|].
      intros i Hi. destruct (Tie i Hi) as [E _]. rewrite <- E. unfold pv_B. rewrite EA, EU.
      unfold padd, psub, smul. field. exact HG. }
    assert (EY : sY (pS tr) = scale q G (Slog G tr0 lambda k)).
    { unfold scale, Slog, ShuffleSM.tab. rewrite map_map. apply (list_eq_tab _ k); [exact LY|].
      intros i Hi. destruct (Tie i Hi) as [_ E]. rewrite <- E. rewrite EC, ED.
      unfold padd, smul. field. exact HG. }
    rewrite <- EX, <- EY, <- ET, <- EG. destruct (pS tr); exact Sv.
  Qed.

  (* if S is not a Gamma-scaled permutation of R, at most k values of t are answerable *)
  Theorem pair_t_bound (G H gamma : F) (X Y Xbar Ybar : list F) (tr0 : pair_tr q)
          (rho : list F) (lambda : F) (ts : list F) :
    let k := length X in
    G <> zzero -> gamma <> zzero -> pGamma tr0 = smul gamma G ->
    ~ Permutation (map (zmul gamma) (Rlog G tr0 rho lambda k)) (Slog G tr0 lambda k) ->
    NoDup ts -> (forall t, In t ts -> pair_bad_t G H X Y Xbar Ybar tr0 rho lambda t) ->
    (length ts <= k)%nat.
  Proof.
    intros k HG Hg EG Hnp Hnd Hbad.
    assert (Lr : length (Rlog G tr0 rho lambda k) = k) by apply tab_length.
    rewrite <- Lr.
    apply (simple_sound_bound G gamma _ (Slog G tr0 lambda k) ts HG Hg);
      [unfold Rlog, Slog; rewrite !tab_length; reflexivity|exact Hnp|exact Hnd|].
    intros t Ht. destruct (Hbad t Ht) as (tr & tr' & c & c' & Hc & P1 & P2 & V1 & V2).
    exists (sTheta (pS tr0)), (sAlpha (pS tr)), (sAlpha (pS tr')), c, c'.
    split; [exact Hc|]. rewrite <- EG. split.
    - exact (accepted_simple_part G H X Y Xbar Ybar tr0 tr rho lambda t c HG P1 V1).
    - exact (accepted_simple_part G H X Y Xbar Ybar tr0 tr' rho lambda t c' HG P2 V2).
  Qed.

  (* the same with the hypothesis in the form used by tie_extract: no index
     permutation pi relates S to R *)
  Corollary pair_t_bound_rel (G H gamma : F) (X Y Xbar Ybar : list F) (tr0 : pair_tr q)
          (rho : list F) (lambda : F) (ts : list F) :
    let k := length X in
    G <> zzero -> gamma <> zzero -> pGamma tr0 = smul gamma G ->
    (forall pi, Permutation pi (seq 0 k) ->
       ~ (forall i, (i < k)%nat ->
            nthF (Slog G tr0 lambda k) i = zmul gamma (nthF (Rlog G tr0 rho lambda k) (idx pi i)))) ->
    NoDup ts -> (forall t, In t ts -> pair_bad_t G H X Y Xbar Ybar tr0 rho lambda t) ->
    (length ts <= k)%nat.
  Proof.
    intros k HG Hg EG Hno Hnd Hbad.
    apply (pair_t_bound G H gamma X Y Xbar Ybar tr0 rho lambda ts HG Hg EG); [|exact Hnd|exact Hbad].
    intros Hp. apply perm_to_index in Hp. destruct Hp as [pi [Hpi Hrel]].
    unfold Rlog in Hpi, Hrel. rewrite tab_length in Hpi, Hrel.
    exact (Hno pi Hpi Hrel).
  Qed.

  (* lambda: for one permutation pi, two accepted values of lambda bind D and C (tie_extract);
     contrapositive: unless D and C are bound by pi, at most one lambda is answerable with
     simple-shuffle inputs related by pi *)
  Corollary pair_lambda_unique (G H gamma : F) (X Y Xbar Ybar : list F) (tr tr' : pair_tr q) (rho : list F)
          (lambda lambda' t c t' c' : F) (pi : list nat) :
    let k := length X in
    Permutation pi (seq 0 k) ->
    ~ (D_bound q G gamma pi tr rho k /\
       forall i, (i < k)%nat -> nthF (pC tr) i = smul gamma (nthF (pA tr) (idx pi i))) ->
    accepts q true G H X Y Xbar Ybar tr rho lambda t c ->
    accepts q true G H X Y Xbar Ybar tr' rho lambda' t' c' ->
    pA tr' = pA tr -> pC tr' = pC tr -> pU tr' = pU tr -> pD tr' = pD tr ->
    simple_rel q gamma pi tr k -> simple_rel q gamma pi tr' k ->
    lambda = lambda'.
  Proof.
    intros k Hp Hnb V1 V2 EA EC EU ED R1 R2.
    destruct (zeqb_spec q lambda lambda') as [E|Hne]; [exact E|exfalso].
    apply Hnb.
    exact (tie_extract q q_prime G H gamma X Y Xbar Ybar tr tr' rho lambda lambda' t c t' c' pi
                       Hp V1 V2 EA EC EU ED Hne R1 R2).
  Qed.

  (* rho: if slot i0 of the output is not a re-encryption of input pi[i0], then for fixed step 1
     and fixed other coordinates at most one value of rho[pi[i0]] is answerable with D bound by pi *)
  Corollary pair_rho_unique (tied : bool) (G H gamma : F) (X Y Xbar Ybar : list F) (tr tr' : pair_tr q)
          (rho rho' : list F) (lambda lambda' t c t' c' : F) (pi : list nat) (i0 : nat) :
    let k := length X in
    let j := idx pi i0 in
    G <> zzero -> gamma <> zzero -> Permutation pi (seq 0 k) -> (i0 < k)%nat ->
    ~ (exists beta, nthF Xbar i0 = padd (nthF X j) (smul beta G) /\
                    nthF Ybar i0 = padd (nthF Y j) (smul beta H)) ->
    accepts q tied G H X Y Xbar Ybar tr rho lambda t c ->
    accepts q tied G H X Y Xbar Ybar tr' rho' lambda' t' c' ->
    pGamma tr = smul gamma G -> pGamma tr' = pGamma tr ->
    pU tr' = pU tr -> pW tr' = pW tr -> pL1 tr' = pL1 tr -> pL2 tr' = pL2 tr ->
    (forall i, (i < k)%nat -> i <> j -> nthF rho' i = nthF rho i) ->
    D_bound q G gamma pi tr rho k -> D_bound q G gamma pi tr' rho' k ->
    nthF rho' j = nthF rho j.
  Proof.
    intros k j HG Hg Hp Hi0 Hno V1 V2 E1 E2 E3 E4 E5 E6 Hr D1 D2.
    destruct (zeqb_spec q (nthF rho' j) (nthF rho j)) as [E|Hne]; [exact E|exfalso].
    apply Hno.
    exact (pair_extract q q_prime tied G H gamma X Y Xbar Ybar tr tr' rho rho' lambda lambda' t c t' c' pi i0
                        HG Hg Hp Hi0 V1 V2 E1 E2 E3 E4 E5 E6 Hr Hne D1 D2).
  Qed.

  (* ------------------------------------------------------------------ *)
  (* assembling: an output that is not a shuffle has, for every permutation the prover may
     aim at, a slot that is not a re-encryption, hence a coordinate of rho with at most one
     answerable value *)

  Definition slot_ok (G H : F) (X Y Xbar Ybar : list F) (i0 j : nat) : Prop :=
    exists beta, nthF Xbar i0 = padd (nthF X j) (smul beta G) /\
                 nthF Ybar i0 = padd (nthF Y j) (smul beta H).

  Lemma slot_dec (G H : F) (X Y Xbar Ybar : list F) (i0 j : nat) :
    G <> zzero -> slot_ok G H X Y Xbar Ybar i0 j \/ ~ slot_ok G H X Y Xbar Ybar i0 j.
  Proof.
    intros HG. unfold slot_ok.
    set (b := zdiv (zsub (nthF Xbar i0) (nthF X j)) G).
    destruct (zeqb_spec q (nthF Ybar i0) (padd (nthF Y j) (smul b H))) as [E|N].
    - left. exists b. split; [|exact E]. unfold b, padd, smul. field. exact HG.
    - right. intros [b' [EX EY]]. apply N.
      assert (Eb : b' = b).
      { unfold b. rewrite EX. unfold padd, smul. field. exact HG. }
      rewrite <- Eb. exact EY.
  Qed.

  Lemma bounded_not_all (k : nat) (P : nat -> Prop) :
    (forall i, (i < k)%nat -> P i \/ ~ P i) -> ~ (forall i, (i < k)%nat -> P i) ->
    exists i, (i < k)%nat /\ ~ P i.
  Proof.
    induction k as [|k IH]; intros Hdec Hn.
    - exfalso. apply Hn. intros i Hi. lia.
    - destruct (Hdec k ltac:(lia)) as [Pk|Nk].
      + destruct IH as [i [Hi Ni]].
        * intros i Hi. apply Hdec. lia.
        * intros Hall. apply Hn. intros i Hi.
          destruct (Nat.eq_dec i k) as [->|Hne]; [exact Pk|apply Hall; lia].
        * exists i. split; [lia|exact Ni].
      + exists k. split; [lia|exact Nk].
  Qed.

  Lemma not_shuffle_bad_slot (G H : F) (X Y Xbar Ybar : list F) (pi : list nat) :
    let k := length X in
    G <> zzero -> length Xbar = k -> length Ybar = k -> Permutation pi (seq 0 k) ->
    ~ is_shuffle q G H X Y Xbar Ybar ->
    exists i0, (i0 < k)%nat /\ ~ slot_ok G H X Y Xbar Ybar i0 (idx pi i0).
  Proof.
    intros k HG LX LY Hp Hns.
    apply (bounded_not_all k (fun i0 => slot_ok G H X Y Xbar Ybar i0 (idx pi i0))).
    - intros i Hi. apply slot_dec. exact HG.
    - intros Hall. apply Hns.
      exact (slots_give_shuffle q q_prime G H X Y Xbar Ybar pi Hp LX LY Hall).
  Qed.

  (* PARTIAL soundness statement of the pair shuffle.  Proved: for an output that is not a
     permutation of re-encryptions and every permutation pi there is a slot i0 such that, among
     accepting transcripts with the same first message whose D is bound to B by pi
     (D[i] = gamma*B[pi[i]]) and whose rho agree outside j = pi[i0], rho[j] takes one value only.
     Together with
       pair_lambda_unique  (per pi: unless D and C are bound by pi, one lambda at most), and
       pair_t_bound_rel    (unless S = gamma*perm(R) for some pi, at most k values of t),
     this bounds every challenge separately.  NOT proved (what a full statistical statement
     "a prover for a non-shuffle succeeds with probability <= (k! + k + 2)/q" still needs):
     (a) the union over the k! permutations at the lambda level (pair_lambda_unique is per pi;
         the permutation relating S(lambda) to R(lambda) may depend on lambda);
     (b) the composition of the per-challenge bounds into one probability over (rho, lambda, t, c)
         for an adaptive prover (a forking / counting argument; no probability theory in this
         development), including the step "answerable for one c only => probability 1/q". *)
  Theorem pair_sound_partial (tied : bool) (G H gamma : F) (X Y Xbar Ybar : list F) (pi : list nat) :
    let k := length X in
    G <> zzero -> gamma <> zzero -> length Xbar = k -> length Ybar = k ->
    Permutation pi (seq 0 k) ->
    ~ is_shuffle q G H X Y Xbar Ybar ->
    exists i0, (i0 < k)%nat /\
      forall (tr tr' : pair_tr q) (rho rho' : list F) (lambda lambda' t c t' c' : F),
        accepts q tied G H X Y Xbar Ybar tr rho lambda t c ->
        accepts q tied G H X Y Xbar Ybar tr' rho' lambda' t' c' ->
        pGamma tr = smul gamma G -> pGamma tr' = pGamma tr ->
        pU tr' = pU tr -> pW tr' = pW tr -> pL1 tr' = pL1 tr -> pL2 tr' = pL2 tr ->
        (forall i, (i < k)%nat -> i <> idx pi i0 -> nthF rho' i = nthF rho i) ->
        D_bound q G gamma pi tr rho k -> D_bound q G gamma pi tr' rho' k ->
        nthF rho' (idx pi i0) = nthF rho (idx pi i0).
  Proof.
    intros k HG Hg LX LY Hp Hns.
    destruct (not_shuffle_bad_slot G H X Y Xbar Ybar pi HG LX LY Hp Hns) as [i0 [Hi0 Hbad]].
    exists i0. split; [exact Hi0|].
    intros tr tr' rho rho' lambda lambda' t c t' c' V1 V2 E1 E2 E3 E4 E5 E6 Hr D1 D2.
    exact (pair_rho_unique tied G H gamma X Y Xbar Ybar tr tr' rho rho' lambda lambda' t c t' c' pi i0
                           HG Hg Hp Hi0 Hbad V1 V2 E1 E2 E3 E4 E5 E6 Hr D1 D2).
  Qed.
End SimpleSound.
