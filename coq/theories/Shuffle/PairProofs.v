(* Neff's ElGamal pair shuffle (shuffle/pair.go): completeness for every k >= 2
   and every permutation; acceptance <=> the coded equations; the forgery the
   verifier accepted before the tie equations were added; what the tie gives. *)
From Coq Require Import ZArith Znumtheory List Bool Lia Permutation Ring Field.
From Kyber Require Import Algebra.Zq Algebra.Grp Shuffle.ShuffleSM Shuffle.ShuffleLemmas Shuffle.SimpleProofs.
Import ListNotations.

Section Pair.
  Variable q : Z.
  Hypothesis q_prime : prime q.
  Notation F := (zq q).
  Add Field zqF3 : (zq_field q q_prime).

  Notation nthF := (nthF q).
  Notation tab := (tab q).
  Notation bigsum := (bigsum q).
  Notation lsum := (lsum q).
  Notation lsum_sub := (ShuffleLemmas.lsum_sub q q_prime).
  Notation lsum_add := (ShuffleLemmas.lsum_add q q_prime).
  Notation lsum_mul_r := (ShuffleLemmas.lsum_mul_r q q_prime).
  Notation bigsum_reindex := (ShuffleLemmas.bigsum_reindex q q_prime).

  (* (34)/(35) for the honest prover, as an identity between sums *)
  Lemma eq34_core (k : nat) (pi : list nat) (W U R Bt Xf : nat -> F) (g tau0 : F) :
    Permutation pi (seq 0 k) ->
    zadd (zadd (bigsum k (fun i => zmul (zsub (W (pos i pi)) (U i)) (Xf i)))
               (zmul (zadd tau0 (bigsum k (fun i => zmul (W i) (Bt (idx pi i))))) g))
         (zmul (zadd (zopp tau0) (bigsum k (fun i => zmul (zsub (R i) (U i)) (Bt i)))) g)
    = bigsum k (fun i => zsub (zmul (zadd (W i) (zsub (R (idx pi i)) (U (idx pi i))))
                                    (zadd (zmul (Bt (idx pi i)) g) (Xf (idx pi i))))
                              (zmul (R i) (Xf i))).
  Proof.
    intros Hp.
    set (T3 := fun j => zmul (zsub (R j) (U j)) (zadd (zmul (Bt j) g) (Xf j))).
    assert (E : bigsum k (fun i => zsub (zmul (zadd (W i) (zsub (R (idx pi i)) (U (idx pi i))))
                                    (zadd (zmul (Bt (idx pi i)) g) (Xf (idx pi i))))
                              (zmul (R i) (Xf i)))
                = bigsum k (fun i => zsub (zadd (zadd (zmul (zmul (W i) (Bt (idx pi i))) g)
                                                      (zmul (W (pos (idx pi i) pi)) (Xf (idx pi i))))
                                                (T3 (idx pi i)))
                                          (zmul (R i) (Xf i)))).
    { rewrite !bigsum_lsum. apply lsum_ext. intros i Hi. apply in_seq in Hi.
      rewrite (pos_idx pi k i Hp) by lia. unfold T3. ring. }
    rewrite E. clear E.
    rewrite !bigsum_lsum.
    rewrite lsum_sub, !lsum_add.
    rewrite <- !bigsum_lsum.
    rewrite (bigsum_reindex pi k T3 Hp).
    rewrite (bigsum_reindex pi k (fun j => zmul (W (pos j pi)) (Xf j)) Hp).
    rewrite !bigsum_lsum.
    rewrite lsum_mul_r.
    assert (E1 : lsum (seq 0 k) (fun i => zmul (zsub (W (pos i pi)) (U i)) (Xf i))
                 = zsub (lsum (seq 0 k) (fun j => zmul (W (pos j pi)) (Xf j)))
                        (lsum (seq 0 k) (fun j => zmul (U j) (Xf j)))).
    { rewrite <- lsum_sub. apply lsum_ext. intros; ring. }
    assert (E2 : lsum (seq 0 k) T3
                 = zadd (zmul (lsum (seq 0 k) (fun i => zmul (zsub (R i) (U i)) (Bt i))) g)
                        (zsub (lsum (seq 0 k) (fun i => zmul (R i) (Xf i)))
                              (lsum (seq 0 k) (fun j => zmul (U j) (Xf j))))).
    { rewrite <- lsum_sub, <- lsum_mul_r, <- lsum_add. apply lsum_ext. intros; unfold T3; ring. }
    rewrite E1, E2. ring.
  Qed.

  Lemma pp_s_scaled (pi : list nat) u a gamma rho lambda :
    pp_s q pi u a gamma rho lambda = scaled_perm q gamma pi (pp_r q pi u a rho lambda).
  Proof.
    set (r := pp_r q pi u a rho lambda).
    unfold pp_s, scaled_perm. fold r. unfold ShuffleSM.tab.
    transitivity (map (fun j => zmul gamma (nthF r j)) (map (fun i => nth i pi 0%nat) (seq 0 (length pi)))).
    - rewrite map_map. reflexivity.
    - rewrite map_nth_seq. reflexivity.
  Qed.

  Lemma nthF_scale (G : F) (l : list F) i :
    nthF (map (fun s => smul s G) l) i = smul (nthF l i) G.
  Proof.
    unfold ShuffleSM.nthF. revert i. induction l as [|a l IH]; intros [|i]; cbn [map nth];
      try reflexivity; try apply IH; unfold smul; ring.
  Qed.

  Lemma all_k_true k f : (forall i, (i < k)%nat -> f i = true) -> all_k k f = true.
  Proof. intros H. unfold all_k. apply forallb_forall. intros i Hi. apply in_seq in Hi. apply H. lia. Qed.

  Lemma all_k_iff k f : all_k k f = true <-> (forall i, (i < k)%nat -> f i = true).
  Proof.
    unfold all_k. rewrite forallb_forall. split; intros H i Hi.
    - apply H. apply in_seq. lia.
    - apply in_seq in Hi. apply H. lia.
  Qed.

  Lemma peqb_eq (a b : F) : peqb a b = true <-> a = b.
  Proof. unfold peqb. apply zeqb_eq. Qed.

  (* ------------------------------------------------------------------ *)
  (* completeness *)
  Theorem pair_complete (pi : list nat) (G H : F) (beta X Y u w a : list F) (tau0 gamma : F)
          (theta rho : list F) (lambda t c : F) :
    let k := length pi in
    (2 <= k)%nat ->
    Permutation pi (seq 0 k) ->
    length X = k -> length Y = k -> length rho = k ->
    length theta = (2 * k - 1)%nat ->
    gamma <> zzero ->
    (forall i, (i < k)%nat -> nthF (pp_r q pi u a rho lambda) i <> t) ->
    pair_verify q true G H X Y (shuffle_out q G pi beta X) (shuffle_out q H pi beta Y)
                (pair_prove q pi G H beta X Y u w a tau0 gamma theta rho lambda t c)
                rho lambda t c = 0%Z.
  Proof.
    intros k Hk Hp HX HY Hrho Hth Hg Ht.
    assert (Hr : length (pp_r q pi u a rho lambda) = k) by (unfold pp_r; apply tab_length).
    unfold pair_verify.
    assert (Hwf : pair_wf q (length X) X Y (shuffle_out q G pi beta X) (shuffle_out q H pi beta Y)
                          (pair_prove q pi G H beta X Y u w a tau0 gamma theta rho lambda t c) rho = true).
    { unfold pair_wf, pair_prove, shuffle_out. cbn [pA pC pU pW pD pSigma pS sY simple_prove simple_msg0 snd].
      rewrite !tab_length, !map_length. unfold pp_s. rewrite tab_length. fold k.
      rewrite HX, HY, Hrho, !Nat.eqb_refl. reflexivity. }
    rewrite Hwf. cbn [negb]. rewrite HX.
    (* step 6 *)
    assert (Hsimple : simple_verify q G (pGamma (pair_prove q pi G H beta X Y u w a tau0 gamma theta rho lambda t c))
                                    (pS (pair_prove q pi G H beta X Y u w a tau0 gamma theta rho lambda t c)) t c = true).
    { unfold pair_prove. cbn [pGamma pS]. rewrite pp_s_scaled.
      apply (simple_complete q q_prime); rewrite ?Hr; try assumption. }
    rewrite Hsimple. cbn [negb].
    (* tie *)
    assert (Htie : pv_tie q G (pair_prove q pi G H beta X Y u w a tau0 gamma theta rho lambda t c) rho lambda k = true).
    { apply all_k_true. intros i Hi. unfold pv_B, pair_prove.
      cbn [pA pC pU pD pS sX sY simple_prove simple_msg0 fst snd]. fold k.
      apply andb_true_iff. split; apply peqb_eq.
      - rewrite nthF_scale.
        unfold pp_r. fold k. rewrite !nthF_tab by exact Hi. unfold pp_b, padd, psub, smul. ring.
      - rewrite nthF_scale.
        unfold pp_s, pp_r. fold k. rewrite !nthF_tab by exact Hi.
        rewrite nthF_tab by (apply (idx_lt pi k i Hp Hi)).
        unfold pp_b, padd, psub, smul. ring. }
    rewrite Htie. cbn [negb andb].
    (* (33) *)
    assert (H33 : pv_33 q (pair_prove q pi G H beta X Y u w a tau0 gamma theta rho lambda t c) k = true).
    { apply all_k_true. intros i Hi. unfold pair_prove. cbn [pSigma pGamma pW pD]. fold k.
      apply peqb_eq. rewrite !nthF_tab by exact Hi. unfold padd, smul. ring. }
    rewrite H33. cbn [negb].
    (* (34), (35) *)
    assert (H34 : forall (Gen : F) (Z : list F),
               pv_34 q Gen (pp_Lam q pi beta u w tau0 Z Gen)
                     (pair_prove q pi G H beta X Y u w a tau0 gamma theta rho lambda t c) rho Z
                     (shuffle_out q Gen pi beta Z) k = true).
    { intros Gen Z. unfold pv_34, pv_Phi. apply peqb_eq.
      unfold pair_prove. cbn [pSigma pTau]. fold k.
      unfold pp_Lam, pp_wbetasum. fold k.
      unfold padd, psub, smul, pp_b.
      rewrite (eq34_core k pi (nthF w) (nthF u) (nthF rho) (nthF beta) (nthF Z) Gen tau0 Hp).
      rewrite !bigsum_lsum. apply lsum_ext. intros i Hi. apply in_seq in Hi.
      unfold shuffle_out. fold k. rewrite !nthF_tab by lia. unfold pp_b, padd, smul. reflexivity. }
    unfold pair_prove at 1 3. cbn [pL1 pL2].
    rewrite (H34 G X), (H34 H Y). reflexivity.
  Qed.

  (* ------------------------------------------------------------------ *)
  (* what the verifier checks: acceptance <=> exactly the coded equations *)
  Definition tie_eqs (G : F) (tr : pair_tr q) (rho : list F) (lambda : F) (k : nat) : Prop :=
    forall i, (i < k)%nat ->
      padd (nthF (pA tr) i) (smul lambda (pv_B q G tr rho i)) = nthF (sX (pS tr)) i /\
      padd (nthF (pC tr) i) (smul lambda (nthF (pD tr) i)) = nthF (sY (pS tr)) i.
  Definition eq33 (tr : pair_tr q) (k : nat) : Prop :=
    forall i, (i < k)%nat ->
      smul (nthF (pSigma tr) i) (pGamma tr) = padd (nthF (pW tr) i) (nthF (pD tr) i).
  Definition eq34 (Gen L : F) (tr : pair_tr q) (rho Z Zbar : list F) (k : nat) : Prop :=
    padd L (smul (pTau tr) Gen)
    = bigsum k (fun i => psub (smul (nthF (pSigma tr) i) (nthF Zbar i)) (smul (nthF rho i) (nthF Z i))).

  Theorem pair_accept_iff (tied : bool) (G H : F) (X Y Xbar Ybar : list F) (tr : pair_tr q)
          (rho : list F) (lambda t c : F) :
    let k := length X in
    pair_verify q tied G H X Y Xbar Ybar tr rho lambda t c = 0%Z <->
    pair_wf q k X Y Xbar Ybar tr rho = true /\
    simple_verify q G (pGamma tr) (pS tr) t c = true /\
    (tied = true -> tie_eqs G tr rho lambda k) /\
    eq33 tr k /\
    eq34 G (pL1 tr) tr rho X Xbar k /\ eq34 H (pL2 tr) tr rho Y Ybar k.
  Proof.
    intros k. unfold pair_verify. fold k.
    assert (Tie : pv_tie q G tr rho lambda k = true <-> tie_eqs G tr rho lambda k).
    { unfold pv_tie, tie_eqs. rewrite all_k_iff. split; intros Hh i Hi; specialize (Hh i Hi).
      - apply andb_true_iff in Hh. destruct Hh as [E1 E2]. split; apply peqb_eq; assumption.
      - destruct Hh as [E1 E2]. apply andb_true_iff. split; apply peqb_eq; assumption. }
    assert (E33 : pv_33 q tr k = true <-> eq33 tr k).
    { unfold pv_33, eq33. rewrite all_k_iff. split; intros Hh i Hi; apply peqb_eq; apply Hh; exact Hi. }
    assert (E34 : forall Gen L Z Zbar, pv_34 q Gen L tr rho Z Zbar k = true <-> eq34 Gen L tr rho Z Zbar k).
    { intros. unfold pv_34, pv_Phi, eq34. apply peqb_eq. }
    destruct (pair_wf q k X Y Xbar Ybar tr rho); cbn [negb];
      [|split; [discriminate|intros [Hc _]; discriminate]].
    destruct (simple_verify q G (pGamma tr) (pS tr) t c); cbn [negb];
      [|split; [discriminate|intros [_ [Hc _]]; discriminate]].
    destruct tied; cbn [andb].
    - destruct (pv_tie q G tr rho lambda k) eqn:Et; cbn [negb].
      2:{ split; [discriminate|]. intros [_ [_ [Hc _]]]. specialize (Hc eq_refl). apply Tie in Hc. discriminate. }
      destruct (pv_33 q tr k) eqn:E3; cbn [negb].
      2:{ split; [discriminate|]. intros [_ [_ [_ [Hc _]]]]. apply E33 in Hc. discriminate. }
      destruct (pv_34 q G (pL1 tr) tr rho X Xbar k) eqn:E4; cbn [andb negb].
      2:{ split; [discriminate|]. intros [_ [_ [_ [_ [Hc _]]]]]. apply E34 in Hc. rewrite E4 in Hc. discriminate. }
      destruct (pv_34 q H (pL2 tr) tr rho Y Ybar k) eqn:E5; cbn [negb].
      2:{ split; [discriminate|]. intros [_ [_ [_ [_ [_ Hc]]]]]. apply E34 in Hc. rewrite E5 in Hc. discriminate. }
      split; [|reflexivity]. intros _.
      split; [reflexivity|]. split; [reflexivity|]. split; [intros _; apply Tie; reflexivity|].
      split; [apply E33; reflexivity|]. split; apply E34; assumption.
    - destruct (pv_33 q tr k) eqn:E3; cbn [negb].
      2:{ split; [discriminate|]. intros [_ [_ [_ [Hc _]]]]. apply E33 in Hc. discriminate. }
      destruct (pv_34 q G (pL1 tr) tr rho X Xbar k) eqn:E4; cbn [andb negb].
      2:{ split; [discriminate|]. intros [_ [_ [_ [_ [Hc _]]]]]. apply E34 in Hc. rewrite E4 in Hc. discriminate. }
      destruct (pv_34 q H (pL2 tr) tr rho Y Ybar k) eqn:E5; cbn [negb].
      2:{ split; [discriminate|]. intros [_ [_ [_ [_ [_ Hc]]]]]. apply E34 in Hc. rewrite E5 in Hc. discriminate. }
      split; [|reflexivity]. intros _.
      split; [reflexivity|]. split; [reflexivity|]. split; [discriminate|].
      split; [apply E33; reflexivity|]. split; apply E34; assumption.
  Qed.

  (* the repaired verifier accepts only what the unrepaired one accepted *)
  Corollary tied_implies_untied G H X Y Xbar Ybar tr rho lambda t c :
    pair_verify q true G H X Y Xbar Ybar tr rho lambda t c = 0%Z ->
    pair_verify q false G H X Y Xbar Ybar tr rho lambda t c = 0%Z.
  Proof.
    intros Hh. apply pair_accept_iff in Hh. apply pair_accept_iff.
    destruct Hh as [H1 [H2 [_ [H4 [H5 H6]]]]].
    split; [assumption|]. split; [assumption|]. split; [discriminate|]. split; [assumption|]. split; assumption.
  Qed.

  (* ------------------------------------------------------------------ *)
  (* The forgery accepted by the verifier without the tie (k = 2): the output
     (X0+X1, X1), (Y0+Y1, Y1) is a homomorphic sum, not a shuffle.  The prover
     needs no discrete logarithm: Lambda1 = Lambda2 = O, W = O, any A, C, U;
     after rho: sigma = (rho0, rho1 - rho0), D = sigma*Gamma, tau = 0; then an
     honest simple shuffle on vectors x, gamma*x of its own. *)
  Definition attack_tr (G gamma : F) (A C U x theta : list F) (rho : list F) (t c : F) : pair_tr q :=
    let s0 := nthF rho 0 in
    let s1 := zsub (nthF rho 1) (nthF rho 0) in
    {| pGamma := smul gamma G; pA := A; pC := C; pU := U; pW := [zzero; zzero];
       pL1 := zzero; pL2 := zzero;
       pD := [smul s0 (smul gamma G); smul s1 (smul gamma G)];
       pSigma := [s0; s1]; pTau := zzero;
       pS := simple_prove q G gamma x (scaled_perm q gamma [0; 1]%nat x) theta t c |}.

  (* every message of the forger depends only on the challenges received before it *)
  Lemma attack_causal G gamma A C U x theta rho rho' t t' c c' :
    msg1 q (attack_tr G gamma A C U x theta rho t c) = msg1 q (attack_tr G gamma A C U x theta rho' t' c')
    /\ pD (attack_tr G gamma A C U x theta rho t c) = pD (attack_tr G gamma A C U x theta rho t' c')
    /\ pSigma (attack_tr G gamma A C U x theta rho t c) = pSigma (attack_tr G gamma A C U x theta rho t' c')
    /\ sX (pS (attack_tr G gamma A C U x theta rho t c)) = sX (pS (attack_tr G gamma A C U x theta rho' t' c'))
    /\ sY (pS (attack_tr G gamma A C U x theta rho t c)) = sY (pS (attack_tr G gamma A C U x theta rho' t' c'))
    /\ sTheta (pS (attack_tr G gamma A C U x theta rho t c)) = sTheta (pS (attack_tr G gamma A C U x theta rho' t c')).
  Proof. repeat split. Qed.

  Lemma sum_not_shuffle (G H X0 X1 Y0 Y1 : F) :
    smul X1 H <> smul Y1 G -> smul X0 H <> smul Y0 G ->
    ~ is_shuffle q G H [X0; X1] [Y0; Y1] [padd X0 X1; X1] [padd Y0 Y1; Y1].
  Proof.
    intros N1 N0 [pi [beta [Hp [EX EY]]]]. cbn [length seq] in Hp.
    apply Permutation_sym in Hp. apply Permutation_length_2_inv in Hp.
    destruct Hp as [-> | ->]; unfold shuffle_out, ShuffleSM.tab in EX, EY;
      cbn [length seq map idx nth ShuffleSM.nthF] in EX, EY;
      pose proof (f_equal (fun l => nth 0 l zzero) EX) as Ex0;
      pose proof (f_equal (fun l => nth 0 l zzero) EY) as Ey0; cbn [nth] in Ex0, Ey0; clear EX EY.
    - apply N1. unfold ShuffleSM.idx, ShuffleSM.nthF in *. cbn [nth] in *.
      set (b := nth 0 beta zzero) in *.
      assert (A1 : X1 = smul b G).
      { unfold padd, smul in *. transitivity (zsub (zadd X0 X1) X0); [ring|]. rewrite Ex0. ring. }
      assert (A2 : Y1 = smul b H).
      { unfold padd, smul in *. transitivity (zsub (zadd Y0 Y1) Y0); [ring|]. rewrite Ey0. ring. }
      rewrite A1, A2. unfold smul. ring.
    - apply N0. unfold ShuffleSM.idx, ShuffleSM.nthF in *. cbn [nth] in *.
      set (b := nth 1 beta zzero) in *.
      assert (A1 : X0 = smul b G).
      { unfold padd, smul in *. transitivity (zsub (zadd X0 X1) X1); [ring|]. rewrite Ex0. ring. }
      assert (A2 : Y0 = smul b H).
      { unfold padd, smul in *. transitivity (zsub (zadd Y0 Y1) Y1); [ring|]. rewrite Ey0. ring. }
      rewrite A1, A2. unfold smul. ring.
  Qed.

  Lemma attack_accepted (G H X0 X1 Y0 Y1 gamma : F) (A C U x theta rho : list F) (lambda t c : F) :
    length A = 2%nat -> length C = 2%nat -> length U = 2%nat -> length x = 2%nat ->
    length theta = 3%nat -> length rho = 2%nat ->
    gamma <> zzero -> nthF x 0 <> t -> nthF x 1 <> t ->
    pair_verify q false G H [X0; X1] [Y0; Y1] [padd X0 X1; X1] [padd Y0 Y1; Y1]
                (attack_tr G gamma A C U x theta rho t c) rho lambda t c = 0%Z.
  Proof.
    intros HA HC HU Hx Hth Hrho Hg Hx0 Hx1.
    apply pair_accept_iff. cbn [length].
    assert (Hperm : Permutation [0; 1]%nat (seq 0 (length x))) by (rewrite Hx; apply Permutation_refl).
    split; [|split; [|split; [|split; [|split]]]].
    - unfold pair_wf, attack_tr. cbn [pA pC pU pW pD pSigma pS sY simple_prove simple_msg0 snd length].
      unfold scaled_perm. rewrite !map_length. cbn [length]. rewrite HA, HC, HU, Hrho. reflexivity.
    - unfold attack_tr. cbn [pGamma pS].
      apply (simple_complete q q_prime); try assumption; rewrite Hx; try lia.
      intros i Hi. destruct i as [|[|j]]; [assumption|assumption|lia].
    - discriminate.
    - intros i Hi. unfold attack_tr. cbn [pSigma pGamma pW pD].
      destruct i as [|[|j]]; [| |lia]; unfold ShuffleSM.nthF; cbn [nth]; unfold padd, smul; ring.
    - unfold eq34, attack_tr. cbn [pL1 pTau pSigma]. unfold ShuffleSM.bigsum, ShuffleSM.tab.
      cbn [seq map psum fold_right]. unfold ShuffleSM.nthF. cbn [nth].
      unfold padd, psub, smul, pzero. ring.
    - unfold eq34, attack_tr. cbn [pL2 pTau pSigma]. unfold ShuffleSM.bigsum, ShuffleSM.tab.
      cbn [seq map psum fold_right]. unfold ShuffleSM.nthF. cbn [nth].
      unfold padd, psub, smul, pzero. ring.
  Qed.

  (* refutation of soundness for the verifier as it was coded: for ciphertexts
     that are not encryptions of the identity there is an output that is not a
     shuffle and a prover strategy the untied verifier accepts for all challenges
     (t different from the two values x0, x1 the prover chose) *)
  Theorem pair_linear_attack (G H X0 X1 Y0 Y1 : F) :
    smul X1 H <> smul Y1 G -> smul X0 H <> smul Y0 G ->
    exists (Xbar Ybar : list F) (strategy : list F -> F -> F -> pair_tr q) (x0 x1 : F),
      ~ is_shuffle q G H [X0; X1] [Y0; Y1] Xbar Ybar /\
      forall rho lambda t c, length rho = 2%nat -> t <> x0 -> t <> x1 ->
        pair_verify q false G H [X0; X1] [Y0; Y1] Xbar Ybar (strategy rho t c) rho lambda t c = 0%Z.
  Proof.
    intros N1 N0.
    exists [padd X0 X1; X1], [padd Y0 Y1; Y1],
      (attack_tr G zone [zzero; zzero] [zzero; zzero] [zzero; zzero] [zzero; zone] [zzero; zzero; zzero]),
      zzero, zone.
    split; [apply sum_not_shuffle; assumption|].
    intros rho lambda t c Hrho Ht0 Ht1.
    apply attack_accepted; try reflexivity; try assumption.
    - apply (zone_neq_zzero q q_prime).
    - unfold ShuffleSM.nthF. cbn [nth]. congruence.
    - unfold ShuffleSM.nthF. cbn [nth]. congruence.
  Qed.

  (* with the tie the same strategy is rejected: for fixed first messages at most
     one value of lambda passes the tie at index 0 *)
  Theorem linear_attack_rejected (G H gamma : F) (X Y Xbar Ybar A C U x theta rho : list F)
          (lambda lambda' t c t' c' : F) :
    (1 <= length X)%nat ->
    lambda <> lambda' ->
    smul (nthF rho 0) G <> nthF U 0 ->
    ~ (pair_verify q true G H X Y Xbar Ybar (attack_tr G gamma A C U x theta rho t c) rho lambda t c = 0%Z /\
       pair_verify q true G H X Y Xbar Ybar (attack_tr G gamma A C U x theta rho t' c') rho lambda' t' c' = 0%Z).
  Proof.
    intros Hk Hl HB [V1 V2].
    apply pair_accept_iff in V1. apply pair_accept_iff in V2.
    destruct V1 as [_ [_ [T1 _]]]. destruct V2 as [_ [_ [T2 _]]].
    destruct (T1 eq_refl 0%nat ltac:(lia)) as [E1 _]. destruct (T2 eq_refl 0%nat ltac:(lia)) as [E2 _].
    unfold pv_B, attack_tr in E1, E2. cbn [pA pU pS sX simple_prove simple_msg0 fst] in E1, E2.
    rewrite <- E2 in E1. apply HB.
    set (B0 := psub (smul (nthF rho 0) G) (nthF U 0)) in *.
    assert (Z : zmul (zsub lambda lambda') B0 = zzero).
    { unfold padd, smul in E1.
      transitivity (zsub (zadd (nthF A 0) (zmul lambda B0)) (zadd (nthF A 0) (zmul lambda' B0))); [ring|].
      rewrite E1. ring. }
    apply (zmul_eq_0 q q_prime) in Z. destruct Z as [Z|Z].
    - exfalso. apply Hl. transitivity (zadd (zsub lambda lambda') lambda'); [ring|]. rewrite Z. ring.
    - unfold B0, psub in Z. transitivity (zadd (zsub (smul (nthF rho 0) G) (nthF U 0)) (nthF U 0)); [ring|].
      rewrite Z. ring.
  Qed.
End Pair.
