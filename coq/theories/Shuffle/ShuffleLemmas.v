(* Generic facts used by the shuffle proofs: tabulated vectors, finite sums and
   products over index lists, permutations given as value lists. *)
From Coq Require Import ZArith Znumtheory List Bool Lia Permutation Ring Field.
From Kyber Require Import Algebra.Zq Algebra.Grp Shuffle.ShuffleSM.
Import ListNotations.

Section Lemmas.
  Variable q : Z.
  Hypothesis q_prime : prime q.
  Notation F := (zq q).
  Add Field zqF : (zq_field q q_prime).

  Notation nthF := (nthF q).
  Notation tab := (tab q).
  Notation bigsum := (bigsum q).
  Notation zpow := (zpow q).

  Lemma tab_length k f : length (tab k f) = k.
  Proof. unfold ShuffleSM.tab. rewrite map_length, seq_length. reflexivity. Qed.

  Lemma nthF_tab k f i : (i < k)%nat -> nthF (tab k f) i = f i.
  Proof.
    intros Hi. unfold ShuffleSM.nthF, ShuffleSM.tab.
    rewrite nth_indep with (d' := f 0%nat) by (rewrite map_length, seq_length; exact Hi).
    rewrite map_nth. rewrite seq_nth by exact Hi. reflexivity.
  Qed.

  Lemma tab_ext k f g : (forall i, (i < k)%nat -> f i = g i) -> tab k f = tab k g.
  Proof.
    intros H. unfold ShuffleSM.tab. apply map_ext_in. intros a Ha. apply in_seq in Ha. apply H. lia.
  Qed.

  Lemma tab_nth (l : list F) : tab (length l) (nthF l) = l.
  Proof.
    unfold ShuffleSM.tab, ShuffleSM.nthF.
    induction l as [|a l IH]; [reflexivity|].
    cbn [length seq map nth]. f_equal. rewrite <- seq_shift, map_map. exact IH.
  Qed.

  (* sums over an arbitrary index list *)
  Definition lsum (l : list nat) (f : nat -> F) : F := psum (map f l).

  Lemma bigsum_lsum k f : bigsum k f = lsum (seq 0 k) f.
  Proof. reflexivity. Qed.

  Lemma lsum_ext l f g : (forall i, In i l -> f i = g i) -> lsum l f = lsum l g.
  Proof. intros H. unfold lsum. f_equal. apply map_ext_in. exact H. Qed.

  Lemma lsum_add l f g : lsum l (fun i => zadd (f i) (g i)) = zadd (lsum l f) (lsum l g).
  Proof.
    unfold lsum. induction l as [|a l IH]; cbn [map psum fold_right].
    - unfold pzero. ring.
    - fold (psum (map (fun i => zadd (f i) (g i)) l)). fold (psum (map f l)). fold (psum (map g l)).
      rewrite IH. unfold padd. ring.
  Qed.

  Lemma lsum_sub l f g : lsum l (fun i => zsub (f i) (g i)) = zsub (lsum l f) (lsum l g).
  Proof.
    unfold lsum. induction l as [|a l IH]; cbn [map psum fold_right].
    - unfold pzero. ring.
    - fold (psum (map (fun i => zsub (f i) (g i)) l)). fold (psum (map f l)). fold (psum (map g l)).
      rewrite IH. unfold padd. ring.
  Qed.

  Lemma lsum_mul_r l f c : lsum l (fun i => zmul (f i) c) = zmul (lsum l f) c.
  Proof.
    unfold lsum. induction l as [|a l IH]; cbn [map psum fold_right].
    - unfold pzero. ring.
    - fold (psum (map (fun i => zmul (f i) c) l)). fold (psum (map f l)).
      rewrite IH. unfold padd. ring.
  Qed.

  Lemma lsum_perm l l' f : Permutation l l' -> lsum l f = lsum l' f.
  Proof.
    unfold lsum. induction 1; cbn [map psum fold_right].
    - reflexivity.
    - fold (psum (map f l)). fold (psum (map f l')). rewrite IHPermutation. reflexivity.
    - fold (psum (map f l)). unfold padd. ring.
    - congruence.
  Qed.

  Lemma map_nth_seq (pi : list nat) : map (fun i => nth i pi 0%nat) (seq 0 (length pi)) = pi.
  Proof.
    induction pi as [|a l IH]; [reflexivity|].
    cbn [length seq map nth]. f_equal. rewrite <- seq_shift, map_map. exact IH.
  Qed.

  Lemma perm_length pi k : Permutation pi (seq 0 k) -> length pi = k.
  Proof. intros H. apply Permutation_length in H. rewrite seq_length in H. exact H. Qed.

  Lemma bigsum_reindex pi k f :
    Permutation pi (seq 0 k) -> bigsum k (fun i => f (idx pi i)) = bigsum k f.
  Proof.
    intros H. rewrite !bigsum_lsum. rewrite <- (lsum_perm _ _ f H).
    unfold lsum. f_equal. unfold idx.
    rewrite <- (map_map (fun i => nth i pi 0%nat) f).
    rewrite <- (perm_length _ _ H). rewrite map_nth_seq. reflexivity.
  Qed.

  Lemma idx_lt pi k i : Permutation pi (seq 0 k) -> (i < k)%nat -> (idx pi i < k)%nat.
  Proof.
    intros H Hi. unfold idx.
    assert (In (nth i pi 0%nat) pi) by (apply nth_In; rewrite (perm_length _ _ H); exact Hi).
    apply (Permutation_in _ H) in H0. apply in_seq in H0. lia.
  Qed.

  Lemma pos_nth pi i : NoDup pi -> (i < length pi)%nat -> pos (nth i pi 0%nat) pi = i.
  Proof.
    revert i. induction pi as [|a l IH]; intros i Hnd Hi; [cbn in Hi; lia|].
    inversion Hnd as [|? ? Hnotin Hnd']; subst.
    destruct i as [|i]; cbn [nth pos].
    - rewrite Nat.eqb_refl. reflexivity.
    - destruct (Nat.eqb_spec a (nth i l 0%nat)) as [E|E].
      + exfalso. apply Hnotin. rewrite E. apply nth_In. cbn in Hi. lia.
      + f_equal. apply IH; [assumption|cbn in Hi; lia].
  Qed.

  Lemma perm_NoDup pi k : Permutation pi (seq 0 k) -> NoDup pi.
  Proof. intros H. apply (Permutation_NoDup (Permutation_sym H)). apply seq_NoDup. Qed.

  Lemma pos_idx pi k i : Permutation pi (seq 0 k) -> (i < k)%nat -> pos (idx pi i) pi = i.
  Proof.
    intros H Hi. unfold idx. apply pos_nth; [eapply perm_NoDup; eassumption|].
    rewrite (perm_length _ _ H). exact Hi.
  Qed.

  (* products *)
  Definition zprod (l : list F) : F := fold_right zmul zone l.

  Lemma zprod_perm l l' : Permutation l l' -> zprod l = zprod l'.
  Proof.
    unfold zprod. induction 1; cbn [fold_right].
    - reflexivity.
    - rewrite IHPermutation. reflexivity.
    - ring.
    - congruence.
  Qed.

  Lemma zprod_scale (c : F) (f : nat -> F) l :
    zprod (map (fun j => zmul c (f j)) l) = zmul (zpow c (length l)) (zprod (map f l)).
  Proof.
    unfold zprod. induction l as [|a l IH]; cbn [map fold_right length ShuffleSM.zpow].
    - ring.
    - rewrite IH. ring.
  Qed.

  Lemma zprod_nonzero l : (forall a, In a l -> a <> zzero) -> zprod l <> zzero.
  Proof.
    unfold zprod. induction l as [|a l IH]; intros H; cbn [fold_right].
    - apply zone_neq_zzero. exact q_prime.
    - intros E. apply (zmul_eq_0 q q_prime) in E. destruct E as [E|E].
      + apply (H a); [left; reflexivity|exact E].
      + apply IH; [|exact E]. intros b Hb. apply H. right. exact Hb.
  Qed.

  Lemma zpow_nonzero c n : c <> zzero -> zpow c n <> zzero.
  Proof.
    intros Hc. induction n as [|n IH]; cbn [ShuffleSM.zpow].
    - apply zone_neq_zzero. exact q_prime.
    - intros E. apply (zmul_eq_0 q q_prime) in E. tauto.
  Qed.

  Lemma zpow_inv c n : c <> zzero -> zmul (zpow (zinv c) n) (zpow c n) = zone.
  Proof.
    intros Hc. induction n as [|n IH]; cbn [ShuffleSM.zpow].
    - ring.
    - transitivity (zmul (zmul (zinv c) c) (zmul (zpow (zinv c) n) (zpow c n))); [ring|].
      rewrite IH. field. exact Hc.
  Qed.
End Lemmas.
