(* Runner for the C15 correspondence: instantiates the shuffle model with the
   transparent dlog group of the harness (order 2^61-1, every point given by
   its logarithm) and evaluates it on the cases the harness wrote: the inputs,
   the private randomness the prover drew, the challenges the Fiat-Shamir
   contexts produced, and what the implementation answered (every transcript
   value, every verdict).  Not used by any theorem. *)
From Coq Require Import ZArith List Bool.
From Kyber Require Import Algebra.Zq Algebra.Grp Shuffle.ShuffleSM.
Import ListNotations.
Local Open Scope Z_scope.

Definition q61 : Z := 2305843009213693951.
Notation F := (zq q61).
Definition fz (x : Z) : F := of_Z q61 x.
Definition fl (l : list Z) : list F := map fz l.
Definition nl (l : list Z) : list nat := map Z.to_nat l.
Definition zl (l : list F) : list Z := map val l.

Fixpoint list_eqb (a b : list Z) : bool :=
  match a, b with
  | [], [] => true
  | x :: a', y :: b' => Z.eqb x y && list_eqb a' b'
  | _, _ => false
  end.
Fixpoint ll_eqb (a b : list (list Z)) : bool :=
  match a, b with
  | [], [] => true
  | x :: a', y :: b' => list_eqb x y && ll_eqb a' b'
  | _, _ => false
  end.

(* a pair-shuffle transcript in integers *)
Inductive ptr :=
| PTr (gamma : Z) (A C U W : list Z) (L1 L2 : Z) (D sigma : list Z) (tau : Z)
      (sX sY sTheta sAlpha : list Z).

Definition to_tr (p : ptr) : pair_tr q61 :=
  match p with
  | PTr gamma A C U W L1 L2 D sigma tau sX sY sTheta sAlpha =>
      {| pGamma := fz gamma; pA := fl A; pC := fl C; pU := fl U; pW := fl W; pL1 := fz L1; pL2 := fz L2;
         pD := fl D; pSigma := fl sigma; pTau := fz tau;
         pS := {| sX := fl sX; sY := fl sY; sTheta := fl sTheta; sAlpha := fl sAlpha |} |}
  end.

Definition simple_eqb (m : simple_tr q61) (sX sY sTheta sAlpha : list Z) : bool :=
  list_eqb (zl (ShuffleSM.sX m)) sX && list_eqb (zl (ShuffleSM.sY m)) sY
  && list_eqb (zl (ShuffleSM.sTheta m)) sTheta && list_eqb (zl (ShuffleSM.sAlpha m)) sAlpha.

Definition tr_eqb (m : pair_tr q61) (p : ptr) : bool :=
  match p with
  | PTr gamma A C U W L1 L2 D sigma tau sX sY sTheta sAlpha =>
      (val (pGamma m) =? gamma) && list_eqb (zl (pA m)) A && list_eqb (zl (pC m)) C
      && list_eqb (zl (pU m)) U && list_eqb (zl (pW m)) W && (val (pL1 m) =? L1) && (val (pL2 m) =? L2)
      && list_eqb (zl (pD m)) D && list_eqb (zl (pSigma m)) sigma && (val (pTau m) =? tau)
      && simple_eqb (pS m) sX sY sTheta sAlpha
  end.

Inductive case :=
(* SimpleShuffle.Prove on x, y (y need not be a permutation of gamma*x): observed
   transcript, and the verdict of SimpleShuffle.Verify on it *)
| CSimple (id : Z) (g gamma : Z) (x y theta : list Z) (t c : Z)
          (oX oY oTheta oAlpha : list Z) (accepted : bool)
(* SimpleShuffle.Verify on an arbitrary transcript *)
| CSimpleVerify (id : Z) (g Gamma : Z) (sX sY sTheta sAlpha : list Z) (t c : Z) (accepted : bool)
(* Shuffle()/Biffle()/SequencesShuffle() output for the permutation and blinding factors they drew *)
| CShuffleOut (id : Z) (g h : Z) (pi beta X Y oXbar oYbar : list Z)
(* PairShuffle.Prove: observed transcript *)
| CPairProve (id : Z) (pi : list Z) (g h : Z) (beta X Y u w a : list Z) (tau0 gamma : Z)
             (theta rho : list Z) (lambda t c : Z) (obs : ptr)
(* PairShuffle.Verify on an arbitrary (honest, forged, perturbed, spliced, mutated) transcript *)
| CPairVerify (id : Z) (g h : Z) (X Y Xbar Ybar : list Z) (tr : ptr) (rho : list Z) (lambda t c : Z)
              (verdict : Z)
(* SequencesShuffle + GetSequenceVerifiable + getProver(e) + Verifier *)
| CSeq (id : Z) (pi : list Z) (g h : Z) (e : list Z) (beta X Y oXbar oYbar : list (list Z))
       (oXup oYup oXdown oYdown : list Z) (u w a : list Z) (tau0 gamma : Z)
       (theta rho : list Z) (lambda t c : Z) (obs : ptr) (verdict : Z)
(* Biffle prover: observed commitments, sub-challenges, responses *)
| CBiffle (id : Z) (bit : bool) (g h beta0 beta1 : Z) (XY : list Z) (rnd : list Z) (c : Z)
          (oXYbar : list Z) (oV : list Z) (oc0 oc1 : Z) (oR : list Z)
(* BiffleVerifier on an arbitrary transcript; XY = [X0;X1;Y0;Y1], XYbar likewise *)
| CBiffleVerify (id : Z) (g h : Z) (XY XYbar : list Z) (V : list Z) (c0 c1 : Z) (R : list Z) (c : Z)
                (verdict : Z).

Definition zn (l : list Z) (i : nat) : Z := nth i l 0.

Definition bpoints (XY XYbar : list Z) : list F :=
  biffle_points q61 (fz (zn XY 0)) (fz (zn XY 1)) (fz (zn XY 2)) (fz (zn XY 3))
                (fz (zn XYbar 0)) (fz (zn XYbar 1)) (fz (zn XYbar 2)) (fz (zn XYbar 3)).

Definition check (cs : case) : list Z :=
  match cs with
  | CSimple id g gamma x y theta t c oX oY oTheta oAlpha accepted =>
      let m := simple_prove q61 (fz g) (fz gamma) (fl x) (fl y) (fl theta) (fz t) (fz c) in
      if simple_eqb m oX oY oTheta oAlpha
         && Bool.eqb (simple_verify q61 (fz g) (smul (fz gamma) (fz g)) m (fz t) (fz c)) accepted
      then [] else [id]
  | CSimpleVerify id g Gamma sX sY sTheta sAlpha t c accepted =>
      let m := {| ShuffleSM.sX := fl sX; ShuffleSM.sY := fl sY; ShuffleSM.sTheta := fl sTheta;
                  ShuffleSM.sAlpha := fl sAlpha |} in
      if Bool.eqb (simple_verify q61 (fz g) (fz Gamma) m (fz t) (fz c)) accepted then [] else [id]
  | CShuffleOut id g h pi beta X Y oXbar oYbar =>
      if list_eqb (zl (shuffle_out q61 (fz g) (nl pi) (fl beta) (fl X))) oXbar
         && list_eqb (zl (shuffle_out q61 (fz h) (nl pi) (fl beta) (fl Y))) oYbar
      then [] else [id]
  | CPairProve id pi g h beta X Y u w a tau0 gamma theta rho lambda t c obs =>
      let m := pair_prove q61 (nl pi) (fz g) (fz h) (fl beta) (fl X) (fl Y) (fl u) (fl w) (fl a)
                          (fz tau0) (fz gamma) (fl theta) (fl rho) (fz lambda) (fz t) (fz c) in
      if tr_eqb m obs then [] else [id]
  | CPairVerify id g h X Y Xbar Ybar tr rho lambda t c verdict =>
      if pair_verify q61 true (fz g) (fz h) (fl X) (fl Y) (fl Xbar) (fl Ybar) (to_tr tr)
                     (fl rho) (fz lambda) (fz t) (fz c) =? verdict
      then [] else [id]
  | CSeq id pi g h e beta X Y oXbar oYbar oXup oYup oXdown oYdown u w a tau0 gamma theta rho lambda t c obs verdict =>
      let k := length pi in
      let fll := map fl in
      let m := seq_prove q61 (nl pi) (fz g) (fz h) (fl e) (fll beta) (fll X) (fll Y) (fl u) (fl w) (fl a)
                         (fz tau0) (fz gamma) (fl theta) (fl rho) (fz lambda) (fz t) (fz c) in
      if ll_eqb (map zl (seq_out q61 (fz g) (nl pi) (fll beta) (fll X))) oXbar
         && ll_eqb (map zl (seq_out q61 (fz h) (nl pi) (fll beta) (fll Y))) oYbar
         && list_eqb (zl (consol q61 (fl e) (fll X) k)) oXup
         && list_eqb (zl (consol q61 (fl e) (fll Y) k)) oYup
         && list_eqb (zl (consol q61 (fl e) (fll oXbar) k)) oXdown
         && list_eqb (zl (consol q61 (fl e) (fll oYbar) k)) oYdown
         && tr_eqb m obs
         && (seq_verify q61 (fz g) (fz h) (fl e) (fll X) (fll Y) (fll oXbar) (fll oYbar) k (to_tr obs)
                        (fl rho) (fz lambda) (fz t) (fz c) =? verdict)
      then [] else [id]
  | CBiffle id bit g h beta0 beta1 XY rnd c oXYbar oV oc0 oc1 oR =>
      let pi := if bit then [1%nat; 0%nat] else [0%nat; 1%nat] in
      let X := [fz (zn XY 0); fz (zn XY 1)] in
      let Y := [fz (zn XY 2); fz (zn XY 3)] in
      let beta := [fz beta0; fz beta1] in
      let out := zl (shuffle_out q61 (fz g) pi beta X ++ shuffle_out q61 (fz h) pi beta Y) in
      let m := biffle_prove q61 bit (fz g) (fz h) (fz beta0) (fz beta1) (bpoints XY oXYbar) (fl rnd) (fz c) in
      if list_eqb out oXYbar && list_eqb (zl (bV m)) oV && (val (bC0 m) =? oc0) && (val (bC1 m) =? oc1)
         && list_eqb (zl (bR m)) oR
      then [] else [id]
  | CBiffleVerify id g h XY XYbar V c0 c1 R c verdict =>
      let m := {| bV := fl V; bC0 := fz c0; bC1 := fz c1; bR := fl R |} in
      if biffle_verify q61 (fz g) (fz h) (bpoints XY XYbar) m (fz c) =? verdict then [] else [id]
  end.

Definition mismatches (cs : list case) : list Z := flat_map check cs.
