(* Concrete instances used by the non-vacuity example of props/C17.v: a BN256
   Embed over the integers modulo p of Algebra/Zq on a concrete stream, and a
   concrete expand_message_xmd. *)
From Coq Require Import ZArith List Bool.
From Kyber Require Import CurveRef.Field CurveRef.Weierstrass Embed.EmbedSM Embed.EmbedGroups.
Import ListNotations.
Local Open Scope Z_scope.

Definition C17_nv_stream : list Z := map (fun i => (Z.of_nat i * 37 + 11) mod 256) (seq 0 200).
Definition C17_nv_embed : bool :=
  match bn256_embed (zq_ops (w_p bn256)) (S (S O)) (Some (104 :: 105 :: 33 :: nil)) C17_nv_stream with
  | Some (P, rest) =>
      match bn256_data P with Some d => zl_eqb d [104; 105; 33] | None => false end
      && Nat.eqb (length rest) 168
  | None => false
  end.

Definition C17_nv_xmd : bool :=
  match xmd_kyber (fun x => firstn 32 (x ++ repeat 0 32)) 32 64 [1; 2] [3] 40 with
  | Some out => Nat.eqb (length out) 40
  | None => false
  end.

