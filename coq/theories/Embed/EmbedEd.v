(* Property C17: Embed / Pick / Data on edwards25519 (the model serves the
   constant-time package, its AllowVarTime mode and the vartime package). *)
From Coq Require Import ZArith Znumtheory List Bool Lia Arith Ring.
From Kyber Require Import CurveRef.Field CurveRef.Edwards
  Embed.EmbedSM Embed.EmbedProofs Embed.EmbedBytes Embed.EmbedGroups.
Import ListNotations.
Local Open Scope Z_scope.

(* ------------------------------------------------------------ more bytes *)

Lemma le_decode_snoc : forall l x, le_decode (l ++ [x]) = le_decode l + x * 256 ^ Z.of_nat (length l).
Proof.
  induction l; intros.
  - cbn [app length]. rewrite le_decode_cons. simpl. lia.
  - cbn [app length]. rewrite !le_decode_cons, IHl, Nat2Z.inj_succ, Z.pow_succ_r by lia. ring.
Qed.

Lemma firstn_le_bytes : forall n m v, (n <= m)%nat -> firstn n (le_bytes m v) = le_bytes n v.
Proof.
  induction n; intros m v H; [reflexivity|].
  destruct m; [lia|]. rewrite !le_bytes_S. cbn [firstn]. f_equal. apply IHn. lia.
Qed.

Lemma le_bytes_mod n v : le_bytes n (v mod 256 ^ Z.of_nat n) = le_bytes n v.
Proof.
  rewrite <- le_decode_le_bytes.
  rewrite <- (le_bytes_length n v) at 1. apply le_bytes_le_decode. apply le_bytes_bytes.
Qed.

Lemma le_bytes_congr n v1 v2 :
  v1 mod 256 ^ Z.of_nat n = v2 mod 256 ^ Z.of_nat n -> le_bytes n v1 = le_bytes n v2.
Proof. intros H. rewrite <- (le_bytes_mod n v1), <- (le_bytes_mod n v2), H. reflexivity. Qed.

Lemma pow255 : 2 ^ 255 = 128 * 256 ^ Z.of_nat 31.
Proof. reflexivity. Qed.

Lemma mod255_31 v : (v mod 2 ^ 255) mod 256 ^ Z.of_nat 31 = v mod 256 ^ Z.of_nat 31.
Proof.
  symmetry. apply Zmod_div_mod.
  - reflexivity.
  - reflexivity.
  - exists 128. apply pow255.
Qed.

(* a 32-byte list is its first 31 bytes followed by its last byte *)
Lemma split32 (l : list Z) : length l = 32%nat -> l = firstn 31 l ++ [nth 31 l 0].
Proof.
  intros Hl. do 32 (destruct l as [|? l]; [discriminate|]). destruct l; [reflexivity|discriminate].
Qed.

(* Data() reads the length byte and at most elen further bytes *)
Lemma data_le_firstn elen b1 b2 :
  firstn (S elen) b1 = firstn (S elen) b2 -> data_le elen b1 = data_le elen b2.
Proof.
  intros H. unfold data_le.
  destruct b1 as [|x1 t1], b2 as [|x2 t2]; cbn [firstn] in H; try discriminate; auto.
  inversion H; subst x2. cbn [nth skipn].
  destruct (Z.ltb_spec (Z.of_nat elen) x1); [reflexivity|]. f_equal.
  destruct (Z_lt_le_dec x1 0) as [N|N].
  - destruct x1; try lia. reflexivity.
  - assert (L : (Z.to_nat x1 <= elen)%nat) by lia.
    rewrite <- (firstn_firstn_le (Z.to_nat x1) elen t1), <- (firstn_firstn_le (Z.to_nat x1) elen t2) by assumption.
    rewrite H2. reflexivity.
Qed.

(* --------------------------------------------------------- field facts *)

Section EdFacts.
  Context {F : Type} (O : fops F) (OK : fops_ok O ed_p).
  Variable K : @edc F.
  Add Ring Fring : (ok_ring O ed_p OK).
  Notation "a +f b" := (fadd O a b) (at level 50, left associativity).
  Notation "a -f b" := (fsub O a b) (at level 50, left associativity).
  Notation "a *f b" := (fmul O a b) (at level 40, left associativity).

  Lemma fpow_pos_one : forall e, fpow_pos O (f1 O) e = f1 O.
  Proof. induction e; cbn [fpow_pos]; rewrite ?IHe; ring. Qed.

  Lemma finv_one : finv O (f1 O) = f1 O.
  Proof. unfold finv, fpow. destruct (ed_p - 2); auto. apply fpow_pos_one. Qed.

  (* kyber's FromBytes, as a function of the masked y and the sign bit *)
  Definition ed_dec_core (yint sign : Z) : option (@ept F) :=
    let y := fofZ O yint in
    let one := f1 O in
    let u0 := fsq O y in
    let v := (u0 *f c_d K) +f one in
    let u := u0 -f one in
    let v3 := fsq O v *f v in
    let uv7 := fsq O v3 *f v *f u in
    let x0 := fpow O uv7 ((ed_p - 5) / 8) *f v3 *f u in
    let vxx := fsq O x0 *f v in
    let x1 :=
      if feqb O (vxx -f u) (f0 O) then Some x0
      else if feqb O (vxx +f u) (f0 O) then Some (x0 *f c_sqrtm1 K)
      else None in
    match x1 with
    | None => None
    | Some x =>
        let x' := if Z.eqb (ftoZ O x mod 2) sign then x else fneg O x in
        Some (mkept x' y one (x' *f y))
    end.

  Lemma ed_decode_core s :
    ed_decode O K s =
    if negb (Nat.eqb (length s) 32) then None
    else ed_dec_core (le_decode s mod 2 ^ 255) (nth 31 s 0 / 128).
  Proof. reflexivity. Qed.

  (* the decoder's verdict and the y coordinate do not depend on the sign bit *)
  Lemma ed_dec_core_sign yint s1 s2 P1 :
    ed_dec_core yint s1 = Some P1 ->
    exists P2, ed_dec_core yint s2 = Some P2 /\ eY P2 = eY P1 /\ eZ P2 = eZ P1.
  Proof.
    unfold ed_dec_core. cbv zeta.
    set (y := fofZ O yint).
    set (x1 := if feqb O _ (f0 O) then _ else _).
    destruct x1 as [x|]; [|discriminate].
    intros H. inversion H; subst P1. eexists. split; [reflexivity|]. split; reflexivity.
  Qed.

  Lemma ed_dec_core_yz yint sg P :
    ed_dec_core yint sg = Some P -> eY P = fofZ O yint /\ eZ P = f1 O.
  Proof.
    unfold ed_dec_core. cbv zeta.
    set (x1 := if feqb O _ (f0 O) then _ else _).
    destruct x1 as [x|]; [|discriminate].
    intros H. inversion H; subst P. split; reflexivity.
  Qed.

  (* the first 31 bytes of the encoding are the little-endian affine y *)
  Lemma ed_encode_first31 P :
    firstn 31 (ed_encode O P) = le_bytes 31 (ftoZ O (eY P *f finv O (eZ P))).
  Proof.
    unfold ed_encode, ed_affine. cbv zeta.
    set (yb := le_bytes 32 _).
    assert (L : length (firstn 31 yb) = 31%nat) by (apply firstn_length_le; unfold yb; rewrite le_bytes_length; lia).
    rewrite <- L at 1. rewrite firstn_app, Nat.sub_diag, firstn_O, app_nil_r, firstn_all.
    unfold yb. apply firstn_le_bytes. lia.
  Qed.

  Lemma ed_encode_length P : length (ed_encode O P) = 32%nat.
  Proof.
    unfold ed_encode, ed_affine. cbv zeta. rewrite app_length, firstn_length_le.
    - reflexivity.
    - rewrite le_bytes_length. lia.
  Qed.

  (* Data() depends on the y and z coordinates only *)
  Lemma ed_data_yz P1 P2 : eY P1 = eY P2 -> eZ P1 = eZ P2 -> ed_data O P1 = ed_data O P2.
  Proof.
    intros HY HZ. unfold ed_data. apply data_le_firstn.
    change (S ed_embedlen) with 30%nat.
    rewrite <- (firstn_firstn_le 30 31 (ed_encode O P1)), <- (firstn_firstn_le 30 31 (ed_encode O P2)) by lia.
    rewrite !ed_encode_first31, HY, HZ. reflexivity.
  Qed.

  (* Data() of a decoded point whose masked y is canonical reads the bytes of the input *)
  Lemma ed_data_decoded b P :
    bytes b -> length b = 32%nat -> le_decode b mod 2 ^ 255 < ed_p ->
    ed_decode O K b = Some P -> ed_data O P = data_le ed_embedlen b.
  Proof.
    intros Hb Lb Hy H. rewrite ed_decode_core, Lb in H. change (negb (Nat.eqb 32 32)) with false in H.
    cbv iota in H. destruct (ed_dec_core_yz _ _ _ H) as [EY EZ].
    unfold ed_data. apply data_le_firstn. change (S ed_embedlen) with 30%nat.
    rewrite <- (firstn_firstn_le 30 31 (ed_encode O P)), <- (firstn_firstn_le 30 31 b) by lia.
    f_equal. rewrite ed_encode_first31, EY, EZ, finv_one.
    replace (fofZ O (le_decode b mod 2 ^ 255) *f f1 O) with (fofZ O (le_decode b mod 2 ^ 255)) by ring.
    rewrite (ok_to_of O ed_p OK).
    assert (0 <= le_decode b mod 2 ^ 255) by (apply Z.mod_pos_bound; reflexivity).
    rewrite Z.mod_small by lia.
    rewrite (le_bytes_congr 31 _ (le_decode b)) by apply mod255_31.
    rewrite <- (firstn_le_bytes 31 32) by lia. rewrite <- Lb at 1.
    rewrite le_bytes_le_decode by assumption. reflexivity.
  Qed.

  (* ------------------------------------------------------ the Embed step *)

  Lemma ed_step_prefix data : prefix_determined (ed_step O K data).
  Proof.
    intros s r rest H. unfold ed_step in H.
    destruct (take 32 s) as [[raw rest0]|] eqn:T; [|discriminate].
    pose proof (take_spec _ _ _ _ T) as (L32 & Eraw & Erest0 & _ & Lraw).
    assert (Er : rest = rest0).
    { destruct (ed_decode O K _); [destruct data|]; inversion H; reflexivity. }
    exists 32%nat. repeat split; auto; [congruence|].
    intros s2 E2 L2. unfold ed_step. rewrite (take_prefix _ _ _ _ _ T E2 L2).
    destruct (ed_decode O K _); [destruct data|]; inversion H; subst; reflexivity.
  Qed.

  Theorem ed_embed_deterministic fuel data s P rest :
    ed_embed O K fuel data s = Some (P, rest) ->
    exists n, (n <= length s)%nat /\ rest = skipn n s /\
      forall s2, firstn n s2 = firstn n s -> (n <= length s2)%nat ->
                 ed_embed O K fuel data s2 = Some (P, skipn n s2).
  Proof. apply retry_prefix. apply ed_step_prefix. Qed.

  (* with data: the result is a decoded candidate carrying the data, and it
     passed the explicit test L*P = O *)
  Lemma ed_step_accept_data d s P rest :
    bytes s -> bytes d ->
    ed_step O K (Some d) s = Some (Some P, rest) ->
    exists raw, length raw = 32%nat /\ bytes raw /\
      ed_decode O K (put_le ed_embedlen (Some d) raw) = Some P /\
      ed_is_null O (ed_mul O K ed_L P) = true.
  Proof.
    intros Hs Hd H. unfold ed_step in H.
    destruct (take 32 s) as [[raw rest0]|] eqn:T; [|discriminate].
    destruct (take_bytes _ _ _ _ Hs T) as [Hraw _].
    apply take_spec in T. destruct T as (_ & _ & _ & _ & Lraw).
    destruct (ed_decode O K _) as [P0|] eqn:D; [|discriminate].
    destruct (ed_is_null O (ed_mul O K ed_L P0)) eqn:N; inversion H; subst.
    exists raw. auto.
  Qed.

  (* the masked y of a candidate with a length byte <= 29 is canonical *)
  Lemma yint_small b :
    bytes b -> length b = 32%nat -> nth 0 b 0 <= 29 -> le_decode b mod 2 ^ 255 < ed_p.
  Proof.
    intros Hb Lb H0. destruct b as [|b0 t]; [discriminate|]. cbn [nth] in H0.
    rewrite le_decode_cons.
    inversion Hb; subst. unfold is_byte in *.
    assert (R := le_decode_range t H3).
    assert (M := Z.mod_pos_bound (b0 + 256 * le_decode t) (2 ^ 255) eq_refl).
    (* (b0 + 256 k) mod 2^255 = b0 + 256 (k mod 2^247) *)
    assert (E : (b0 + 256 * le_decode t) mod 2 ^ 255 = b0 + 256 * (le_decode t mod 2 ^ 247)).
    { change (2 ^ 255) with (256 * 2 ^ 247). rewrite Z.rem_mul_r by lia.
      rewrite (Z.mul_comm 256 (le_decode t)), Z_mod_plus_full, Z.div_add by lia.
      rewrite (Z.mod_small b0 256), (Z.div_small b0 256) by lia. rewrite Z.add_0_l. reflexivity. }
    rewrite E. assert (M2 := Z.mod_pos_bound (le_decode t) (2 ^ 247) eq_refl).
    unfold ed_p. change (2 ^ 255) with (256 * 2 ^ 247). lia.
  Qed.

  Theorem ed_embed_roundtrip fuel d s P rest :
    bytes s -> bytes d ->
    ed_embed O K fuel (Some d) s = Some (P, rest) ->
    ed_data O P = Some (firstn ed_embedlen d) /\
    (exists P', ed_decode O K (ed_encode O P) = Some P' /\ ed_data O P' = Some (firstn ed_embedlen d)) /\
    ed_is_null O (ed_mul O K ed_L P) = true.
  Proof.
    intros Hs Hd H. unfold ed_embed in H.
    destruct (retry_accepted_inv _ bytes (prefix_determined_bytes _ (ed_step_prefix (Some d))) _ _ _ _ Hs H)
      as (s' & Hs' & St).
    destruct (ed_step_accept_data _ _ _ _ Hs' Hd St) as (raw & Lraw & Hraw & D & N).
    destruct (put_le_ok ed_embedlen (Some d) raw) as [Hb Lb]; auto; try (unfold ed_embedlen; lia).
    set (b := put_le ed_embedlen (Some d) raw) in *.
    assert (B0 : nth 0 b 0 <= 29).
    { unfold b, put_le. cbn [nth]. assert (Nat.min ed_embedlen (length d) <= ed_embedlen)%nat by apply Nat.le_min_l.
      unfold ed_embedlen in *. lia. }
    assert (Y : le_decode b mod 2 ^ 255 < ed_p) by (apply yint_small; auto; lia).
    assert (E1 : ed_data O P = Some (firstn ed_embedlen d)).
    { rewrite (ed_data_decoded b P) by (auto; lia). apply data_le_put_le. unfold ed_embedlen. lia. }
    split; [exact E1|]. split; [|exact N].
    (* decoding the encoding: same masked y, hence same verdict and same y *)
    rewrite ed_decode_core in D. rewrite Lb, Lraw in D. change (negb (Nat.eqb 32 32)) with false in D. cbv iota in D.
    destruct (ed_dec_core_yz _ _ _ D) as [EY EZ].
    rewrite ed_decode_core, ed_encode_length. change (negb (Nat.eqb 32 32)) with false. cbv iota.
    assert (YI : le_decode (ed_encode O P) mod 2 ^ 255 = le_decode b mod 2 ^ 255).
    { unfold ed_encode, ed_affine. cbv zeta. rewrite EY, EZ, finv_one.
      replace (fofZ O (le_decode b mod 2 ^ 255) *f f1 O) with (fofZ O (le_decode b mod 2 ^ 255)) by ring.
      rewrite (ok_to_of O ed_p OK).
      assert (0 <= le_decode b mod 2 ^ 255) by (apply Z.mod_pos_bound; reflexivity).
      rewrite (Z.mod_small (le_decode b mod 2 ^ 255) ed_p) by lia.
      set (yi := le_decode b mod 2 ^ 255) in *. set (sg := ftoZ O _ mod 2).
      set (yb := le_bytes 32 yi).
      assert (Lf : length (firstn 31 yb) = 31%nat) by (apply firstn_length_le; unfold yb; rewrite le_bytes_length; lia).
      rewrite le_decode_snoc, Lf.
      assert (Eyb : le_decode yb = le_decode (firstn 31 yb) + nth 31 yb 0 * 256 ^ Z.of_nat 31).
      { rewrite (split32 yb) at 1 by apply le_bytes_length. rewrite le_decode_snoc, Lf. reflexivity. }
      assert (Dy : le_decode yb = yi).
      { unfold yb. rewrite le_decode_le_bytes. apply Z.mod_small. split; [lia|].
        change (256 ^ Z.of_nat 32) with (2 ^ 256). unfold yi.
        assert (M := Z.mod_pos_bound (le_decode b) (2 ^ 255) eq_refl). lia. }
      replace (le_decode (firstn 31 yb) + (nth 31 yb 0 + 128 * sg) * 256 ^ Z.of_nat 31)
        with (yi + sg * 2 ^ 255) by (rewrite pow255; lia).
      rewrite Z_mod_plus_full. apply Z.mod_small. unfold yi in *. 
      split; [lia|]. apply Z.mod_pos_bound. reflexivity. }
    rewrite YI.
    destruct (ed_dec_core_sign _ _ (nth 31 (ed_encode O P) 0 / 128) _ D) as (P' & D' & EY' & EZ').
    exists P'. split; [exact D'|]. rewrite <- E1. apply ed_data_yz; assumption.
  Qed.

  (* different data give different points *)
  Corollary ed_embed_injective fuel1 fuel2 d1 d2 s1 s2 P rest1 rest2 :
    bytes s1 -> bytes s2 -> bytes d1 -> bytes d2 ->
    ed_embed O K fuel1 (Some d1) s1 = Some (P, rest1) ->
    ed_embed O K fuel2 (Some d2) s2 = Some (P, rest2) ->
    firstn ed_embedlen d1 = firstn ed_embedlen d2.
  Proof.
    intros B1 B2 D1 D2 H1 H2.
    destruct (ed_embed_roundtrip _ _ _ _ _ B1 D1 H1) as [E1 _].
    destruct (ed_embed_roundtrip _ _ _ _ _ B2 D2 H2) as [E2 _]. congruence.
  Qed.

  (* Pick (no data): the result is 8*Q for a decoded candidate Q and is not the identity *)
  Theorem ed_pick_shape fuel s P rest :
    ed_embed O K fuel None s = Some (P, rest) ->
    exists raw Q, length raw = 32%nat /\ ed_decode O K raw = Some Q /\
      P = ed_mul O K 8 Q /\ ed_is_null O P = false.
  Proof.
    intros H. unfold ed_embed in H. destruct (retry_accepted _ _ _ _ _ H) as (s' & St).
    unfold ed_step in St. destruct (take 32 s') as [[raw rest0]|] eqn:T; [|discriminate].
    apply take_spec in T. destruct T as (_ & _ & _ & _ & Lraw).
    cbn [put_le] in St. destruct (ed_decode O K raw) as [Q|] eqn:D; [|discriminate].
    destruct (ed_is_null O (ed_mul O K 8 Q)) eqn:N; inversion St; subst.
    exists raw, Q. auto.
  Qed.
End EdFacts.

(* ------------------------------------------------ membership (edwards25519) *)

Section EdCurve.
  Context {F : Type} (O : fops F) (OK : fops_ok O ed_p).
  Variable K : @edc F.
  Add Ring Fring2 : (ok_ring O ed_p OK).
  Notation "a +f b" := (fadd O a b) (at level 50, left associativity).
  Notation "a -f b" := (fsub O a b) (at level 50, left associativity).
  Notation "a *f b" := (fmul O a b) (at level 40, left associativity).
  (* the constant used by the decoder is a square root of -1 *)
  Hypothesis sqrtm1_ok : c_sqrtm1 K *f c_sqrtm1 K = fneg O (f1 O).

  (* affine point (Z = 1, T = XY) on  -x^2 + y^2 = 1 + d x^2 y^2 *)
  Definition ed_oncurve (P : @ept F) : Prop :=
    eZ P = f1 O /\ eT P = eX P *f eY P /\
    (eY P *f eY P) -f (eX P *f eX P) = f1 O +f c_d K *f (eX P *f eX P) *f (eY P *f eY P).

  Lemma sub0 a b : a -f b = f0 O -> a = b.
  Proof. intros H. replace a with ((a -f b) +f b) by ring. rewrite H. ring. Qed.

  Lemma curve_from (x2 y2 d : F) :
    x2 *f (y2 *f d +f f1 O) -f (y2 -f f1 O) = f0 O -> y2 -f x2 = f1 O +f d *f x2 *f y2.
  Proof.
    intros H. apply sub0.
    replace (y2 -f x2 -f (f1 O +f d *f x2 *f y2)) with (fneg O (x2 *f (y2 *f d +f f1 O) -f (y2 -f f1 O))) by ring.
    rewrite H. ring.
  Qed.

  Lemma ed_dec_core_oncurve yint sg P : ed_dec_core O K yint sg = Some P -> ed_oncurve P.
  Proof.
    unfold ed_dec_core. cbv zeta. unfold fsq.
    set (y := fofZ O yint).
    set (v := y *f y *f c_d K +f f1 O). set (u := y *f y -f f1 O).
    set (x0 := fpow O _ _ *f _ *f u).
    destruct (feqb O (x0 *f x0 *f v -f u) (f0 O)) eqn:C1.
    - apply (ok_eqb O ed_p OK) in C1. intros H. inversion H; subst P. clear H.
      unfold ed_oncurve. cbn [eX eY eZ eT]. repeat split.
      apply curve_from. fold v u.
      destruct (ftoZ O x0 mod 2 =? sg).
      + rewrite <- C1. ring.
      + rewrite <- C1. ring.
    - destruct (feqb O (x0 *f x0 *f v +f u) (f0 O)) eqn:C2; [|discriminate].
      apply (ok_eqb O ed_p OK) in C2. intros H. inversion H; subst P. clear H.
      unfold ed_oncurve. cbn [eX eY eZ eT]. repeat split.
      apply curve_from. fold v u.
      set (i := c_sqrtm1 K) in *.
      destruct (ftoZ O (x0 *f i) mod 2 =? sg).
      + replace (x0 *f i *f (x0 *f i) *f v -f u) with (fneg O (x0 *f x0 *f v +f u) +f (x0 *f x0 *f v) *f (i *f i +f f1 O)) by ring.
        rewrite C2, sqrtm1_ok. ring.
      + replace (fneg O (x0 *f i) *f fneg O (x0 *f i) *f v -f u) with (fneg O (x0 *f x0 *f v +f u) +f (x0 *f x0 *f v) *f (i *f i +f f1 O)) by ring.
        rewrite C2, sqrtm1_ok. ring.
  Qed.

  Lemma ed_decode_oncurve s P : ed_decode O K s = Some P -> ed_oncurve P.
  Proof.
    rewrite ed_decode_core. destruct (negb _); [discriminate|]. apply ed_dec_core_oncurve.
  Qed.

  (* with data: on the curve, and the explicit subgroup test L*P = O passed *)
  Theorem ed_embed_member_data fuel d s P rest :
    bytes s -> bytes d ->
    ed_embed O K fuel (Some d) s = Some (P, rest) ->
    ed_oncurve P /\ ed_is_null O (ed_mul O K ed_L P) = true.
  Proof.
    intros Hs Hd H. unfold ed_embed in H.
    destruct (retry_accepted_inv _ bytes (prefix_determined_bytes _ (ed_step_prefix O K (Some d))) _ _ _ _ Hs H)
      as (s' & Hs' & St).
    destruct (ed_step_accept_data O K _ _ _ _ Hs' Hd St) as (raw & _ & _ & D & N).
    split; [eapply ed_decode_oncurve; eassumption | exact N].
  Qed.

  (* Pick: P = 8*Q for a curve point Q, P is not the identity; it lies in the
     subgroup of order L because the curve group has order 8L - stated as the
     hypothesis that 8*Q is killed by L for every curve point Q *)
  Theorem ed_pick_member fuel s P rest :
    (forall Q, ed_oncurve Q -> ed_is_null O (ed_mul O K ed_L (ed_mul O K 8 Q)) = true) ->
    ed_embed O K fuel None s = Some (P, rest) ->
    (exists Q, ed_oncurve Q /\ P = ed_mul O K 8 Q) /\
    ed_is_null O (ed_mul O K ed_L P) = true /\ ed_is_null O P = false.
  Proof.
    intros H8L H. destruct (ed_pick_shape O K _ _ _ _ H) as (raw & Q & _ & D & -> & N).
    assert (HQ := ed_decode_oncurve _ _ D).
    split; [exists Q; auto|]. split; [apply H8L; exact HQ | exact N].
  Qed.

  (* the encoded y coordinate is canonical *)
  Lemma ed_encode_y_canonical P :
    exists yv, 0 <= yv < ed_p /\ firstn 31 (ed_encode O P) = le_bytes 31 yv.
  Proof.
    exists (ftoZ O (eY P *f finv O (eZ P))). split; [apply (ok_range O ed_p OK)|].
    apply ed_encode_first31.
  Qed.
End EdCurve.
