(* Theorems about the Pick / Embed / Data model (property C17). *)
From Coq Require Import ZArith List Bool Lia Arith.
From Kyber Require Import CurveRef.Field CurveRef.Edwards CurveRef.Weierstrass Embed.EmbedSM.
Import ListNotations.
Local Open Scope Z_scope.

(* ================================================================ streams *)

Lemma take_spec n s pre rest :
  take n s = Some (pre, rest) ->
  (n <= length s)%nat /\ pre = firstn n s /\ rest = skipn n s /\ s = pre ++ rest /\ length pre = n.
Proof.
  unfold take. destruct (Nat.ltb (length s) n) eqn:E; [discriminate|].
  apply Nat.ltb_ge in E. intros H. inversion H; subst.
  repeat split; auto. symmetry; apply firstn_skipn. apply firstn_length_le; auto.
Qed.

Lemma take_prefix n s s2 pre rest :
  take n s = Some (pre, rest) -> firstn n s2 = firstn n s -> (n <= length s2)%nat ->
  take n s2 = Some (pre, skipn n s2).
Proof.
  intros H E L. apply take_spec in H. destruct H as (_ & Hp & _).
  unfold take. destruct (Nat.ltb (length s2) n) eqn:E2.
  - apply Nat.ltb_lt in E2. lia.
  - subst. rewrite E. reflexivity.
Qed.

Lemma firstn_firstn_le {A} (a b : nat) (l : list A) : (a <= b)%nat -> firstn a (firstn b l) = firstn a l.
Proof. intros. rewrite firstn_firstn. f_equal. lia. Qed.

Lemma skipn_skipn_add {A} : forall a b (l : list A), skipn a (skipn b l) = skipn (b + a) l.
Proof.
  induction b; intros; simpl; auto. destruct l; simpl; auto. destruct a; reflexivity.
Qed.

Lemma firstn_skipn_shift {A} (a b : nat) : forall (l l2 : list A),
  firstn (a + b) l2 = firstn (a + b) l -> firstn b (skipn a l2) = firstn b (skipn a l).
Proof.
  induction a; intros l l2 H; simpl in *; auto.
  destruct l2, l; simpl in *; auto; try discriminate.
  inversion H. apply IHa. assumption.
Qed.

(* ============================================================ retry loops *)

Section RetryFacts.
  Context {A : Type}.
  Variable step : list Z -> option (option A * list Z).

  (* a step draws a fixed-size prefix decision: its outcome and the number of
     bytes it consumes are determined by the bytes it consumes *)
  Definition prefix_determined : Prop :=
    forall s r rest, step s = Some (r, rest) ->
      exists n, (n <= length s)%nat /\ rest = skipn n s /\
        forall s2, firstn n s2 = firstn n s -> (n <= length s2)%nat -> step s2 = Some (r, skipn n s2).

  Theorem retry_fuel_mono : forall f f' s r,
      retry step f s = Some r -> (f <= f')%nat -> retry step f' s = Some r.
  Proof.
    induction f; intros f' s r H L; simpl in H; [discriminate|].
    destruct f'; [lia|]. simpl.
    destruct (step s) as [[[a|] rest]|]; auto. apply IHf; auto. lia.
  Qed.

  (* the accepted value was accepted by the step function on some suffix of the stream *)
  Theorem retry_accepted : forall f s a rest,
      retry step f s = Some (a, rest) -> exists s', step s' = Some (Some a, rest).
  Proof.
    induction f; intros s a rest H; simpl in H; [discriminate|].
    destruct (step s) as [[[a'|] rest']|] eqn:E; try discriminate.
    - inversion H; subst. eauto.
    - eapply IHf; eauto.
  Qed.

  (* number of candidates examined *)
  Fixpoint tries (f : nat) (s : list Z) : nat :=
    match f with
    | O => O
    | S f' => match step s with
              | Some (None, rest) => S (tries f' rest)
              | _ => 1%nat
              end
    end.

  Theorem retry_exact_fuel : forall f s r,
      retry step f s = Some r -> forall f', (tries f s <= f')%nat -> retry step f' s = Some r.
  Proof.
    induction f; intros s r H f' L; simpl in *; [discriminate|].
    destruct (step s) as [[[a|] rest]|] eqn:E; try discriminate.
    - destruct f'; [lia|]. simpl. rewrite E. assumption.
    - destruct f'; [lia|]. simpl. rewrite E. apply IHf; auto. lia.
  Qed.

  (* determinism: the result is a function of the consumed prefix only *)
  Theorem retry_prefix : prefix_determined ->
    forall f s a rest, retry step f s = Some (a, rest) ->
      exists n, (n <= length s)%nat /\ rest = skipn n s /\
        forall s2, firstn n s2 = firstn n s -> (n <= length s2)%nat ->
                   retry step f s2 = Some (a, skipn n s2).
  Proof.
    intros PD. induction f; intros s a rest H; simpl in H; [discriminate|].
    destruct (step s) as [[[a'|] rest']|] eqn:E; try discriminate.
    - inversion H; subst. destruct (PD _ _ _ E) as (n & Hn & Hr & Hs).
      exists n. repeat split; auto. intros s2 E2 L2. simpl. rewrite (Hs s2 E2 L2). reflexivity.
    - destruct (PD _ _ _ E) as (n & Hn & Hr & Hs). subst rest'.
      destruct (IHf _ _ _ H) as (m & Hm & Hr2 & Hs2).
      rewrite skipn_length in Hm.
      exists (n + m)%nat. split; [lia|]. split.
      + rewrite Hr2. apply skipn_skipn_add.
      + intros s2 E2 L2. simpl.
        assert (E1 : firstn n s2 = firstn n s).
        { rewrite <- (firstn_firstn_le n (n + m) s2), <- (firstn_firstn_le n (n + m) s) by lia.
          rewrite E2. reflexivity. }
        rewrite (Hs s2 E1) by lia.
        rewrite (Hs2 (skipn n s2)).
        * rewrite skipn_skipn_add. reflexivity.
        * apply firstn_skipn_shift. assumption.
        * rewrite skipn_length. lia.
  Qed.
End RetryFacts.

