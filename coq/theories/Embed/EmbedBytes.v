(* Byte-string and embedding-layout lemmas (property C17). *)
From Coq Require Import ZArith List Bool Lia Arith.
From Kyber Require Import CurveRef.Field Embed.EmbedSM.
Import ListNotations.
Local Open Scope Z_scope.

(* ================================================================== bytes *)

Definition is_byte (b : Z) : Prop := 0 <= b < 256.
Definition bytes (l : list Z) : Prop := Forall is_byte l.

Lemma le_decode_cons x l : le_decode (x :: l) = x + 256 * le_decode l.
Proof. reflexivity. Qed.
Lemma le_bytes_S n v : le_bytes (S n) v = v mod 256 :: le_bytes n (v / 256).
Proof. reflexivity. Qed.

Lemma le_bytes_length n : forall v, length (le_bytes n v) = n.
Proof. induction n; intros; simpl; auto. Qed.

Lemma be_bytes_length n v : length (be_bytes n v) = n.
Proof. unfold be_bytes. rewrite rev_length. apply le_bytes_length. Qed.

Lemma le_bytes_bytes n : forall v, bytes (le_bytes n v).
Proof.
  induction n; intros; simpl.
  - constructor.
  - constructor.
    + unfold is_byte. apply Z.mod_pos_bound. lia.
    + apply IHn.
Qed.

Lemma be_bytes_bytes n v : bytes (be_bytes n v).
Proof. unfold be_bytes, bytes. apply Forall_rev. apply le_bytes_bytes. Qed.

Lemma le_decode_range : forall bs, bytes bs -> 0 <= le_decode bs < 256 ^ Z.of_nat (length bs).
Proof.
  induction 1.
  - simpl. lia.
  - rewrite le_decode_cons. cbn [length]. rewrite Nat2Z.inj_succ, Z.pow_succ_r by lia. unfold is_byte in H. lia.
Qed.

Lemma le_bytes_le_decode : forall bs, bytes bs -> le_bytes (length bs) (le_decode bs) = bs.
Proof.
  induction 1; [reflexivity|]. unfold is_byte in H.
  cbn [length]. rewrite le_bytes_S, le_decode_cons.
  assert (E1 : (x + 256 * le_decode l) mod 256 = x).
  { rewrite (Z.mul_comm 256), Z_mod_plus_full. apply Z.mod_small. lia. }
  assert (E2 : (x + 256 * le_decode l) / 256 = le_decode l).
  { rewrite (Z.mul_comm 256), Z.div_add by lia. rewrite Z.div_small; lia. }
  rewrite E1, E2, IHForall. reflexivity.
Qed.

Lemma le_decode_le_bytes n : forall v, le_decode (le_bytes n v) = v mod 256 ^ Z.of_nat n.
Proof.
  induction n; intros v.
  - simpl. rewrite Z.mod_1_r. reflexivity.
  - rewrite le_bytes_S, le_decode_cons, IHn.
    rewrite Nat2Z.inj_succ, Z.pow_succ_r by lia.
    assert (0 < 256 ^ Z.of_nat n) by (apply Z.pow_pos_nonneg; lia).
    rewrite Z.rem_mul_r by lia. reflexivity.
Qed.

Lemma be_decode_range bs : bytes bs -> 0 <= be_decode bs < 256 ^ Z.of_nat (length bs).
Proof.
  intros H. unfold be_decode. rewrite <- rev_length. apply le_decode_range.
  apply Forall_rev. exact H.
Qed.

Lemma be_bytes_be_decode bs : bytes bs -> be_bytes (length bs) (be_decode bs) = bs.
Proof.
  intros H. unfold be_bytes, be_decode. rewrite <- rev_length.
  rewrite le_bytes_le_decode by (apply Forall_rev; exact H). apply rev_involutive.
Qed.

Lemma be_decode_be_bytes n v : 0 <= v < 256 ^ Z.of_nat n -> be_decode (be_bytes n v) = v.
Proof.
  intros H. unfold be_bytes, be_decode. rewrite rev_involutive, le_decode_le_bytes.
  apply Z.mod_small. exact H.
Qed.

Lemma bytes_app a b : bytes a -> bytes b -> bytes (a ++ b).
Proof. intros. apply Forall_app; split; assumption. Qed.

Lemma bytes_firstn n l : bytes l -> bytes (firstn n l).
Proof.
  intros H. revert n. induction H; intros n; destruct n; simpl; try constructor; auto.
  apply IHForall.
Qed.

Lemma bytes_skipn n l : bytes l -> bytes (skipn n l).
Proof.
  intros H. revert n. induction H; intros n; destruct n; simpl; try constructor; auto.
Qed.

(* value of a big-endian string with a known first byte *)
Lemma be_decode_cons b t : be_decode (b :: t) = b * 256 ^ Z.of_nat (length t) + be_decode t.
Proof.
  unfold be_decode. simpl rev.
  assert (G : forall l x, le_decode (l ++ [x]) = le_decode l + x * 256 ^ Z.of_nat (length l)).
  { induction l; intros.
    - cbn [app length]. rewrite le_decode_cons. simpl. lia.
    - cbn [app length]. rewrite !le_decode_cons, IHl, Nat2Z.inj_succ, Z.pow_succ_r by lia. ring. }
  rewrite G, rev_length. ring.
Qed.

(* ======================================================== embedding layouts *)

Lemma min_firstn {A} (e : nat) (d : list A) : firstn (Nat.min e (length d)) d = firstn e d.
Proof.
  destruct (Nat.le_ge_cases e (length d)).
  - rewrite Nat.min_l; auto.
  - rewrite Nat.min_r by auto. rewrite !firstn_all2; auto.
Qed.

Theorem data_le_put_le elen d raw :
  (Z.of_nat elen < 256) ->
  data_le elen (put_le elen (Some d) raw) = Some (firstn elen d).
Proof.
  intros He. unfold data_le, put_le. set (dl := Nat.min elen (length d)).
  cbn [nth]. assert (dl <= elen)%nat by apply Nat.le_min_l.
  assert (dl <= length d)%nat by apply Nat.le_min_r.
  destruct (Z.of_nat elen <? Z.of_nat dl) eqn:E; [apply Z.ltb_lt in E; lia|].
  rewrite Nat2Z.id. cbn [skipn]. f_equal.
  rewrite firstn_app, firstn_length_le by auto. rewrite Nat.sub_diag, firstn_O, app_nil_r.
  rewrite firstn_firstn, Nat.min_id. apply min_firstn.
Qed.

Theorem data_be_put_be elen d raw :
  (elen + 1 <= length raw)%nat ->
  data_be elen (put_be elen (Some d) raw) = Some (firstn elen d).
Proof.
  intros Hl. unfold data_be, put_be. set (dl := Nat.min elen (length d)).
  assert (dl <= elen)%nat by apply Nat.le_min_l.
  assert (dl <= length d)%nat by apply Nat.le_min_r.
  set (pre := firstn (length raw - dl - 1) raw).
  assert (Lp : length pre = (length raw - dl - 1)%nat) by (apply firstn_length_le; lia).
  assert (Ld : length (firstn dl d) = dl) by (apply firstn_length_le; lia).
  assert (Lt : length (pre ++ firstn dl d ++ [Z.of_nat dl]) = length raw).
  { rewrite !app_length, Lp, Ld. simpl. lia. }
  rewrite Lt.
  assert (N : nth (length raw - 1) (pre ++ firstn dl d ++ [Z.of_nat dl]) 0 = Z.of_nat dl).
  { rewrite app_assoc, app_nth2; rewrite app_length, Lp, Ld; [|lia].
    replace (length raw - 1 - (length raw - dl - 1 + dl))%nat with 0%nat by lia. reflexivity. }
  rewrite N. destruct (Z.of_nat elen <? Z.of_nat dl) eqn:E; [apply Z.ltb_lt in E; lia|].
  rewrite Nat2Z.id. f_equal.
  rewrite <- Lp. rewrite skipn_app, skipn_all, Nat.sub_diag. cbn [app skipn].
  rewrite firstn_app, Ld, Nat.sub_diag, firstn_O, app_nil_r.
  rewrite firstn_firstn, Nat.min_id. apply min_firstn.
Qed.

Theorem data_be2_put_be2 elen d raw :
  (elen + 2 <= length raw)%nat -> Z.of_nat elen < 65536 ->
  data_be2 elen (put_be2 elen (Some d) raw) = Some (firstn elen d).
Proof.
  intros Hl He. unfold data_be2, put_be2. set (dl := Nat.min elen (length d)).
  assert (dl <= elen)%nat by apply Nat.le_min_l.
  assert (dl <= length d)%nat by apply Nat.le_min_r.
  set (pre := firstn (length raw - dl - 2) raw).
  set (hi := (Z.of_nat dl / 256) mod 256). set (lo := Z.of_nat dl mod 256).
  assert (Lp : length pre = (length raw - dl - 2)%nat) by (apply firstn_length_le; lia).
  assert (Ld : length (firstn dl d) = dl) by (apply firstn_length_le; lia).
  assert (Lt : length (pre ++ firstn dl d ++ [hi; lo]) = length raw).
  { rewrite !app_length, Lp, Ld. simpl. lia. }
  rewrite Lt.
  assert (N1 : nth (length raw - 2) (pre ++ firstn dl d ++ [hi; lo]) 0 = hi).
  { rewrite app_assoc, app_nth2; rewrite app_length, Lp, Ld; [|lia].
    replace (length raw - 2 - (length raw - dl - 2 + dl))%nat with 0%nat by lia. reflexivity. }
  assert (N2 : nth (length raw - 1) (pre ++ firstn dl d ++ [hi; lo]) 0 = lo).
  { rewrite app_assoc, app_nth2; rewrite app_length, Lp, Ld; [|lia].
    replace (length raw - 1 - (length raw - dl - 2 + dl))%nat with 1%nat by lia. reflexivity. }
  rewrite N1, N2.
  assert (V : hi * 256 + lo = Z.of_nat dl).
  { subst hi lo. rewrite (Z.mod_small (Z.of_nat dl / 256)).
    - rewrite Z.mul_comm. symmetry. apply Z.div_mod. lia.
    - split; [apply Z.div_pos; lia|]. apply Z.div_lt_upper_bound; lia. }
  rewrite V. destruct (Z.of_nat elen <? Z.of_nat dl) eqn:E; [apply Z.ltb_lt in E; lia|].
  rewrite Nat2Z.id. f_equal.
  rewrite <- Lp. rewrite skipn_app, skipn_all, Nat.sub_diag. cbn [app skipn].
  rewrite firstn_app, Ld, Nat.sub_diag, firstn_O, app_nil_r.
  rewrite firstn_firstn, Nat.min_id. apply min_firstn.
Qed.

(* Data() reports an error exactly for a length field above EmbedLen *)
Theorem data_le_err elen b : data_le elen b = None <-> Z.of_nat elen < nth 0 b 0.
Proof. unfold data_le. destruct (Z.ltb_spec (Z.of_nat elen) (nth 0 b 0)); split; intros; try lia; try discriminate; auto. Qed.

Theorem data_be_err elen b : data_be elen b = None <-> Z.of_nat elen < nth (length b - 1) b 0.
Proof. unfold data_be. destruct (Z.ltb_spec (Z.of_nat elen) (nth (length b - 1) b 0)); split; intros; try lia; try discriminate; auto. Qed.

Theorem data_be2_err elen b :
  data_be2 elen b = None <-> Z.of_nat elen < nth (length b - 2) b 0 * 256 + nth (length b - 1) b 0.
Proof. unfold data_be2. destruct (Z.ltb_spec (Z.of_nat elen) (nth (length b - 2) b 0 * 256 + nth (length b - 1) b 0)); split; intros; try lia; try discriminate; auto. Qed.

(* and otherwise returns exactly [length field] bytes (when the string is long enough) *)
Theorem data_le_len elen b d :
  data_le elen b = Some d -> 0 <= nth 0 b 0%Z -> (Z.to_nat (nth 0 b 0%Z) < length b)%nat ->
  Z.of_nat (length d) = nth 0 b 0%Z.
Proof.
  unfold data_le. destruct (Z.of_nat elen <? nth 0 b 0); [discriminate|].
  intros H Hn Hl. inversion H; subst.
  destruct b as [|b0 t]; [simpl in Hl; lia|].
  cbn [skipn nth] in *. cbn [length] in Hl.
  rewrite firstn_length_le by lia. lia.
Qed.
