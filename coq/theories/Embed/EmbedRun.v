(* Runner for the correspondence of property C17: the model of EmbedSM is
   evaluated (vm_compute, Bignums instance of the field operations) on the
   data / stream bytes / messages the implementation ran on, and compared with
   what the implementation returned: point bytes, number of stream bytes
   consumed, Data() before and after Marshal/Unmarshal, expand_message_xmd
   output, Hash output. *)
From Coq Require Import ZArith List Bool.
From Bignums Require Import BigZ.
From Kyber Require Import CurveRef.Field CurveRef.Edwards CurveRef.Weierstrass Embed.EmbedSM.
Import ListNotations.
Local Open Scope Z_scope.

Definition ozl_eqb (a b : option (list Z)) : bool :=
  match a, b with
  | None, None => true
  | Some x, Some y => zl_eqb x y
  | _, _ => false
  end.

(* one Embed/Pick call: inputs and the implementation's observations *)
Record eitem := mkE {
  e_data : option (list Z);      (* None = nil data (Pick) *)
  e_stream : list Z;             (* the bytes the stream would deliver (consumed ones and some more) *)
  e_pt : list Z;                 (* MarshalBinary of the result *)
  e_used : Z;                    (* stream bytes consumed *)
  e_dat : option (list Z);       (* Data(): None = error *)
  e_dat2 : option (list Z)       (* Data() after MarshalBinary / UnmarshalBinary *)
}.

Definition fuel : nat := 400.

Definition tbl_hash (tbl : list (list Z * list Z)) (x : list Z) : list Z :=
  match find (fun e => zl_eqb (fst e) x) tbl with
  | Some e => snd e
  | None => []
  end.

Inductive case :=
| CEdEmbed (id : Z) (items : list eitem)
(* Data() of decoded points: encoding, observed Data() *)
| CEdData (id : Z) (items : list (list Z * option (list Z)))
| CWEmbed (id : Z) (curve : Z) (items : list eitem)        (* 0 = P-256, 1 = BN256 G1 *)
| CQrEmbed (id : Z) (P Q : Z) (items : list eitem)
(* G1 Pick of bn256 (curve 1) / bn254 (curve 2): stream, point bytes, bytes consumed *)
| CBnPick (id : Z) (curve : Z) (items : list (list Z * list Z * Z))
(* expand_message_xmd: hash table; (msg, dst, len, observed output / None = error) *)
| CXmd (id : Z) (hsize bsize : Z) (tbl : list (list Z * list Z))
       (items : list (list Z * list Z * Z * option (list Z)))
(* edwards25519 Hash(m, dst): SHA-512 table; (msg, dst, observed encoding) *)
| CEdHash (id : Z) (tbl : list (list Z * list Z)) (items : list (list Z * list Z * list Z)).

Definition used (it : eitem) (rest : list Z) : bool :=
  Z.of_nat (length (e_stream it)) - Z.of_nat (length rest) =? e_used it.

Definition check (c : case) : option Z :=
  match c with
  | CEdEmbed id items =>
      let O := bz_ops ed_p in let K := ed_consts O in
      if forallb (fun it =>
           match ed_embed O K fuel (e_data it) (e_stream it) with
           | None => false
           | Some (P, rest) =>
               let enc := ed_encode O P in
               zl_eqb enc (e_pt it) && used it rest
               && ozl_eqb (ed_data O P) (e_dat it)
               && ozl_eqb (match ed_decode O K enc with Some P' => ed_data O P' | None => None end) (e_dat2 it)
           end) items
      then None else Some id
  | CEdData id items =>
      let O := bz_ops ed_p in let K := ed_consts O in
      if forallb (fun it =>
           match ed_decode O K (fst it) with
           | None => false
           | Some P => ozl_eqb (ed_data O P) (snd it)
           end) items
      then None else Some id
  | CWEmbed id cv items =>
      if cv =? 0 then
        let O := bz_ops (w_p p256) in
        if forallb (fun it =>
             match p256_embed O fuel (e_data it) (e_stream it) with
             | None => false
             | Some (P, rest) =>
                 zl_eqb (p256_enc P) (e_pt it) && used it rest
                 && ozl_eqb (p256_data P) (e_dat it)
                 && ozl_eqb (match p256_dec (p256_enc P) with Some P' => p256_data P' | None => None end) (e_dat2 it)
             end) items
        then None else Some id
      else
        let O := bz_ops (w_p bn256) in
        if forallb (fun it =>
             match bn256_embed O fuel (e_data it) (e_stream it) with
             | None => false
             | Some (P, rest) =>
                 zl_eqb (bn256_enc P) (e_pt it) && used it rest
                 && ozl_eqb (bn256_data P) (e_dat it)
                 && ozl_eqb (match bn256_dec O (bn256_enc P) with Some P' => bn256_data P' | None => None end) (e_dat2 it)
             end) items
        then None else Some id
  | CQrEmbed id P Q items =>
      let O := bz_ops P in
      if forallb (fun it =>
           match qr_embed O P Q fuel (e_data it) (e_stream it) with
           | None => false
           | Some (v, rest) =>
               zl_eqb (qr_enc P v) (e_pt it) && used it rest
               && ozl_eqb (qr_data P v) (e_dat it)
               && ozl_eqb (match qr_dec O P Q (qr_enc P v) with Some v' => qr_data P v' | None => None end) (e_dat2 it)
           end) items
      then None else Some id
  | CBnPick id cv items =>
      let W := if cv =? 1 then bn256 else bn254 in
      let O := bz_ops (w_p W) in
      if forallb (fun it =>
           let '(stream, pt, usd) := it in
           match bn_pick O W fuel stream with
           | None => false
           | Some (enc, rest) =>
               zl_eqb enc pt && (Z.of_nat (length stream) - Z.of_nat (length rest) =? usd)
           end) items
      then None else Some id
  | CXmd id hsize bsize tbl items =>
      if forallb (fun it =>
           let '(msg, dst, len, out) := it in
           ozl_eqb (xmd_kyber (tbl_hash tbl) hsize bsize msg dst len) out) items
      then None else Some id
  | CEdHash id tbl items =>
      let O := bz_ops ed_p in let K := ed_consts O in let E := ell_consts O K in
      if forallb (fun it =>
           let '(msg, dst, out) := it in
           match ed_hash O K (tbl_hash tbl) E msg dst with
           | None => false
           | Some P => zl_eqb (ed_encode O P) out
           end) items
      then None else Some id
  end.

Definition mismatches (cs : list case) : list Z :=
  flat_map (fun c => match check c with Some i => [i] | None => [] end) cs.
