(* Property C17: expand_message_xmd (RFC 9380, 5.3.1) as coded in kyber
   (group/edwards25519/point.go) against the RFC's definition, for every hash. *)
From Coq Require Import ZArith List Bool Lia Arith.
From Kyber Require Import CurveRef.Field Embed.EmbedSM.
Import ListNotations.
Local Open Scope Z_scope.

Section XmdFacts.
  Variable H : list Z -> list Z.
  Variables hsize bsize : Z.
  Hypothesis H_len : forall x, length (H x) = Z.to_nat hsize.
  Hypothesis hsize_ge : 8 <= hsize.

  Lemma xmd_blocks_length : forall n i b0 bp d,
      length (xmd_blocks H n i b0 bp d) = (n * Z.to_nat hsize)%nat.
  Proof.
    induction n; intros; cbn [xmd_blocks]; [reflexivity|].
    rewrite app_length, H_len, IHn. lia.
  Qed.

  Lemma xmd_blocks_prefix : forall n m i b0 bp d, (n <= m)%nat ->
      exists tl, xmd_blocks H m i b0 bp d = xmd_blocks H n i b0 bp d ++ tl.
  Proof.
    induction n; intros m i b0 bp d L.
    - eexists. reflexivity.
    - destruct m; [lia|]. cbn [xmd_blocks].
      destruct (IHn m (i + 1) b0 (H (xor_bytes b0 bp ++ [i] ++ d)) d) as [tl E]; [lia|].
      exists tl. rewrite E, app_assoc. reflexivity.
  Qed.

  Lemma firstn_app_le {A} k (l tl : list A) : (k <= length l)%nat -> firstn k (l ++ tl) = firstn k l.
  Proof.
    intros L. rewrite firstn_app. replace (k - length l)%nat with 0%nat by lia.
    rewrite firstn_O, app_nil_r. reflexivity.
  Qed.

  (* the output does not depend on how many blocks beyond the needed ones are computed *)
  Lemma xmd_out_indep b1 b0 d len ell1 ell2 :
    length b1 = Z.to_nat hsize -> ell1 <= ell2 -> len <= ell1 * hsize ->
    firstn (Z.to_nat len) (b1 ++ xmd_blocks H (Z.to_nat (ell1 - 1)) 2 b0 b1 d) =
    firstn (Z.to_nat len) (b1 ++ xmd_blocks H (Z.to_nat (ell2 - 1)) 2 b0 b1 d).
  Proof.
    intros L1 Le Hl.
    destruct (Z_le_gt_dec len 0) as [Z0|Pos].
    - replace (Z.to_nat len) with 0%nat by lia. reflexivity.
    - assert (1 <= ell1) by nia.
      destruct (xmd_blocks_prefix (Z.to_nat (ell1 - 1)) (Z.to_nat (ell2 - 1)) 2 b0 b1 d) as [tl E]; [lia|].
      rewrite E, app_assoc. symmetry. apply firstn_app_le.
      rewrite app_length, xmd_blocks_length, L1.
      apply Nat2Z.inj_le. rewrite Nat2Z.inj_add, Nat2Z.inj_mul, !Z2Nat.id by lia. nia.
  Qed.

  Let ell_rfc (len : Z) := (len + hsize - 1) / hsize.
  Let ell_kyber (len : Z) := (len + hsize / 8 - 1) / (hsize / 8).

  Lemma ell_facts len : 0 <= len ->
    ell_rfc len <= ell_kyber len /\ len <= ell_rfc len * hsize.
  Proof.
    intros Hl. unfold ell_rfc, ell_kyber.
    assert (H8 : 1 <= hsize / 8) by (apply Z.div_le_lower_bound; lia).
    assert (H8' : hsize / 8 <= hsize) by (apply Z.div_le_upper_bound; lia).
    set (k := hsize / 8) in *.
    assert (E1 := Z.div_mod (len + hsize - 1) hsize). assert (M1 := Z.mod_pos_bound (len + hsize - 1) hsize).
    assert (E2 := Z.div_mod (len + k - 1) k). assert (M2 := Z.mod_pos_bound (len + k - 1) k).
    set (q1 := (len + hsize - 1) / hsize) in *. set (q2 := (len + k - 1) / k) in *.
    split; [|nia].
    (* q1 = ceil(len/hsize) <= ceil(len/k) = q2 since k <= hsize *)
    destruct (Z_le_gt_dec q1 q2); [assumption|exfalso].
    assert (k * q2 >= len) by nia.
    assert (hsize * (q1 - 1) < len) by nia.
    assert (0 <= q2) by (apply Z.div_pos; lia).
    nia.
  Qed.

  (* kyber's transcription computes the RFC's function wherever it answers *)
  Theorem xmd_kyber_is_rfc msg dst len out :
    0 <= len ->
    xmd_kyber H hsize bsize msg dst len = Some out ->
    xmd_rfc H hsize bsize msg dst len = Some out /\ length out = Z.to_nat len.
  Proof.
    intros Hl. unfold xmd_kyber, xmd_rfc, xmd_core.
    fold (ell_rfc len). fold (ell_kyber len).
    destruct (ell_facts len Hl) as [Le Hc].
    destruct ((255 <? ell_kyber len) || (65535 <? len) || Nat.eqb (length dst) 0) eqn:G; [discriminate|].
    apply orb_false_elim in G. destruct G as [G G3]. apply orb_false_elim in G. destruct G as [G1 G2].
    apply Z.ltb_ge in G1.
    assert (G1' : (255 <? ell_rfc len) = false) by (apply Z.ltb_ge; lia).
    rewrite G1', G2, G3. cbn [orb].
    set (dst' := if 255 <? Z.of_nat (length dst) then H (long_dst_prefix ++ dst) else dst).
    set (dstp := dst' ++ [Z.of_nat (length dst')]).
    set (b0 := H (repeat 0 (Z.to_nat bsize) ++ msg ++ be_bytes 2 len ++ [0] ++ dstp)).
    set (b1 := H (b0 ++ [1] ++ dstp)).
    intros E. inversion E as [E']. clear E.
    rewrite (xmd_out_indep b1 b0 dstp len (ell_rfc len) (ell_kyber len)); auto; [|apply H_len].
    split; [reflexivity|].
    apply firstn_length_le. rewrite app_length, xmd_blocks_length. unfold b1. rewrite H_len.
    assert (len <= ell_kyber len * hsize) by nia.
    destruct (Z_le_gt_dec len 0); [lia|]. assert (1 <= ell_kyber len) by nia.
    apply Nat2Z.inj_le. rewrite Nat2Z.inj_add, Nat2Z.inj_mul, !Z2Nat.id by lia. nia.
  Qed.

  (* it refuses exactly: more than 255 blocks OF hsize/8 BYTES (the RFC: of
     hsize bytes), len > 65535, or an empty tag *)
  Theorem xmd_kyber_refuses msg dst len :
    xmd_kyber H hsize bsize msg dst len = None <->
    255 < (len + hsize / 8 - 1) / (hsize / 8) \/ 65535 < len \/ dst = [].
  Proof.
    unfold xmd_kyber, xmd_core.
    destruct (Z.ltb_spec 255 ((len + hsize / 8 - 1) / (hsize / 8)));
      destruct (Z.ltb_spec 65535 len); destruct dst as [|c t]; cbn [orb length Nat.eqb];
      split; intros; auto; try discriminate.
    destruct H2 as [|[|]]; try lia. discriminate.
  Qed.

  (* conversely every RFC answer within kyber's (narrower) bound is reproduced *)
  Theorem xmd_rfc_within_bound msg dst len out :
    0 <= len -> len <= 255 * (hsize / 8) ->
    xmd_rfc H hsize bsize msg dst len = Some out ->
    xmd_kyber H hsize bsize msg dst len = Some out.
  Proof.
    intros Hl Hb E.
    destruct (xmd_kyber H hsize bsize msg dst len) as [o|] eqn:K.
    - destruct (xmd_kyber_is_rfc _ _ _ _ Hl K) as [E2 _]. congruence.
    - exfalso. apply xmd_kyber_refuses in K.
      unfold xmd_rfc, xmd_core in E.
      destruct (255 <? (len + hsize - 1) / hsize) eqn:A; [discriminate|].
      destruct (65535 <? len) eqn:B; [discriminate|].
      destruct dst as [|c t]; [discriminate|].
      apply Z.ltb_ge in B.
      destruct K as [K|[K|K]]; [|lia|discriminate].
      assert (H8 : 1 <= hsize / 8) by (apply Z.div_le_lower_bound; lia).
      set (k := hsize / 8) in *.
      assert (E2 := Z.div_mod (len + k - 1) k). assert (M2 := Z.mod_pos_bound (len + k - 1) k).
      set (q2 := (len + k - 1) / k) in *. nia.
  Qed.
End XmdFacts.
