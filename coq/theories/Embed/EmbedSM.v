(* Property C17 - executable model of Pick / Embed / Data and of the RFC 9380
   expand_message_xmd / hash-to-curve code of kyber.

   The stream (a cipher.Stream XORed over zeros) is a finite list of bytes
   consumed left to right; [None] = the finite list was exhausted.  Retry
   loops take explicit fuel.  Curve arithmetic comes from CurveRef (written
   once over a record of field operations [fops]): the model is RUN with the
   Bignums instance [bz_ops p] and the theorems (EmbedProofs.v) are proved for
   every lawful instance.

   Transcribed from:
     group/edwards25519/point.go        Embed, Pick, Data, Hash, hashToField,
                                        expandMessageXMD, curve25519Elligator2,
                                        mapToCurveElligator2Ed25519
     group/edwards25519vartime/curve.go embed, data  (same function of the bytes:
                                        same layout, reversed buffer, big-endian y)
     group/p256/curve.go                Embed, genPoint, Data
     group/p256/residue.go              Embed, Data, Valid
     pairing/bn256/point.go             pointG1.Embed, deriveY, Data            *)
From Coq Require Import ZArith List Bool Lia.
From Kyber Require Import CurveRef.Field CurveRef.Edwards CurveRef.Weierstrass.
Import ListNotations.
Local Open Scope Z_scope.

(* ------------------------------------------------------------------ streams *)

Definition take (n : nat) (s : list Z) : option (list Z * list Z) :=
  if Nat.ltb (length s) n then None else Some (firstn n s, skipn n s).

Section Retry.
  Context {A : Type}.
  (* one candidate: None = stream exhausted; Some (None, rest) = candidate
     rejected; Some (Some a, rest) = accepted *)
  Variable step : list Z -> option (option A * list Z).
  Fixpoint retry (fuel : nat) (s : list Z) : option (A * list Z) :=
    match fuel with
    | O => None
    | S f =>
        match step s with
        | None => None
        | Some (Some a, rest) => Some (a, rest)
        | Some (None, rest) => retry f rest
        end
    end.
End Retry.

Fixpoint zl_eqb (a b : list Z) : bool :=
  match a, b with
  | [], [] => true
  | x :: a', y :: b' => (x =? y) && zl_eqb a' b'
  | _, _ => false
  end.

(* ------------------------------------------------------- embedding layouts *)

(* [b[0] = dl; b[1..1+dl] = data] (edwards25519, vartime, bn256 G1) *)
Definition put_le (elen : nat) (data : option (list Z)) (raw : list Z) : list Z :=
  match data with
  | None => raw
  | Some d => let dl := Nat.min elen (length d) in
              Z.of_nat dl :: firstn dl d ++ skipn (S dl) raw
  end.

(* [b[l-1] = dl; b[l-dl-1..l-1] = data] (P-256) *)
Definition put_be (elen : nat) (data : option (list Z)) (raw : list Z) : list Z :=
  match data with
  | None => raw
  | Some d => let dl := Nat.min elen (length d) in
              firstn (length raw - dl - 1) raw ++ firstn dl d ++ [Z.of_nat dl]
  end.

(* [b[l-1] = dl mod 256; b[l-2] = dl / 256; b[l-dl-2..l-2] = data] (residue group) *)
Definition put_be2 (elen : nat) (data : option (list Z)) (raw : list Z) : list Z :=
  match data with
  | None => raw
  | Some d => let dl := Nat.min elen (length d) in
              firstn (length raw - dl - 2) raw ++ firstn dl d
                ++ [(Z.of_nat dl / 256) mod 256; Z.of_nat dl mod 256]
  end.

(* Data(): None = "invalid embedded data length" *)
Definition data_le (elen : nat) (b : list Z) : option (list Z) :=
  let dl := nth 0 b 0 in
  if Z.of_nat elen <? dl then None else Some (firstn (Z.to_nat dl) (skipn 1 b)).

Definition data_be (elen : nat) (b : list Z) : option (list Z) :=
  let l := length b in
  let dl := nth (l - 1) b 0 in
  if Z.of_nat elen <? dl then None
  else Some (firstn (Z.to_nat dl) (skipn (l - Z.to_nat dl - 1) b)).

Definition data_be2 (elen : nat) (b : list Z) : option (list Z) :=
  let l := length b in
  let dl := nth (l - 2) b 0 * 256 + nth (l - 1) b 0 in
  if Z.of_nat elen <? dl then None
  else Some (firstn (Z.to_nat dl) (skipn (l - Z.to_nat dl - 2) b)).

(* ------------------------------------------------------------- edwards25519 *)

Definition ed_embedlen : nat := 29.            (* (255 - 8 - 8) / 8 *)
Definition ed_null_enc : list Z := 1 :: repeat 0 31.

Section EdEmbed.
  Context {F : Type} (O : fops F).
  Variable K : @edc F.

  (* Equal(nullPoint): comparison of the encodings *)
  Definition ed_is_null (P : @ept F) : bool := zl_eqb (ed_encode O P) ed_null_enc.

  Definition ed_step (data : option (list Z)) (s : list Z) : option (option (@ept F) * list Z) :=
    match take 32 s with
    | None => None
    | Some (raw, rest) =>
        match ed_decode O K (put_le ed_embedlen data raw) with
        | None => Some (None, rest)                       (* not a point: retry *)
        | Some P =>
            match data with
            | None =>                                      (* Pick: clear the cofactor *)
                let P8 := ed_mul O K 8 P in
                Some (if ed_is_null P8 then None else Some P8, rest)
            | Some _ =>                                    (* data: test L*P = O *)
                Some (if ed_is_null (ed_mul O K ed_L P) then Some P else None, rest)
            end
        end
    end.

  Definition ed_embed (fuel : nat) (data : option (list Z)) (s : list Z) : option (@ept F * list Z) :=
    retry (ed_step data) fuel s.

  Definition ed_data (P : @ept F) : option (list Z) := data_le ed_embedlen (ed_encode O P).
End EdEmbed.

(* ----------------------------------------------- P-256 and BN256 G1 (affine) *)

Definition p256_embedlen : nat := 30.          (* (256 - 8 - 8) / 8 *)
Definition bn256_embedlen : nat := 29.         (* (255 - 8 - 8) / 8 *)

Section WEmbed.
  Context {F : Type} (O : fops F).
  Notation "a +f b" := (fadd O a b) (at level 50, left associativity).
  Notation "a -f b" := (fsub O a b) (at level 50, left associativity).
  Notation "a *f b" := (fmul O a b) (at level 40, left associativity).

  (* y^2 for P-256: x^3 - 3x + b *)
  Definition p256_rhs (fx : F) : F :=
    fx *f fx *f fx -f (fx +f fx +f fx) +f fofZ O (w_b p256).

  (* genPoint after the repair: a candidate x >= p is refused before the sign
     byte is drawn.  sqrt = c^((p+1)/4) (p = 3 mod 4; the addition chain of
     p256.sqrt computes exactly this power). *)
  Definition p256_step (data : option (list Z)) (s : list Z) : option (option (Z * Z) * list Z) :=
    match take 32 s with
    | None => None
    | Some (raw, rest) =>
        let x := be_decode (put_be p256_embedlen data raw) in
        if w_p p256 <=? x then Some (None, rest) else
        let y2 := p256_rhs (fofZ O x) in
        let y := ftoZ O (fpow O y2 ((w_p p256 + 1) / 4)) in
        match take 1 rest with
        | None => None
        | Some (sb, rest') =>
            let y' := if 128 <=? nth 0 sb 0 then w_p p256 - y else y in
            if ftoZ O (fsq O (fofZ O y')) =? ftoZ O y2 then Some (Some (x, y'), rest')
            else Some (None, rest')
        end
    end.

  Definition p256_embed (fuel : nat) (data : option (list Z)) (s : list Z) :=
    retry (p256_step data) fuel s.

  Definition p256_enc (P : Z * Z) : list Z := 4 :: be_bytes 32 (fst P) ++ be_bytes 32 (snd P).
  (* UnmarshalBinary: length and format byte only *)
  Definition p256_dec (b : list Z) : option (Z * Z) :=
    if negb (Nat.eqb (length b) 65) then None else
    if negb (nth 0 b 0 =? 4) then None else
    Some (be_decode (firstn 32 (skipn 1 b)), be_decode (skipn 33 b)).
  Definition p256_data (P : Z * Z) : option (list Z) := data_be p256_embedlen (be_bytes 32 (fst P)).

  (* BN256 G1: x from 32 big-endian bytes (reduced when stored), deriveY:
     ModSqrt for p = 3 mod 4 is t^((p+1)/4), nil for non-residues *)
  Definition bn256_rhs (fx : F) : F := fx *f fx *f fx +f fofZ O (w_b bn256).

  Definition bn256_step (data : option (list Z)) (s : list Z) : option (option (Z * Z) * list Z) :=
    match take 32 s with
    | None => None
    | Some (raw, rest) =>
        let fx := fofZ O (be_decode (put_le bn256_embedlen data raw)) in
        let t := bn256_rhs fx in
        let y := fpow O t ((w_p bn256 + 1) / 4) in
        if feqb O (fsq O y) t then Some (Some (ftoZ O fx, ftoZ O y), rest)
        else Some (None, rest)
    end.

  Definition bn256_embed (fuel : nat) (data : option (list Z)) (s : list Z) :=
    retry (bn256_step data) fuel s.

  (* pointG1.Pick (bn256, also bn254): random.Int modulo the group order
     (first 32-byte candidate below n), times the base point *)
  Definition bn_scalar_step (W : wparams) (s : list Z) : option (option Z * list Z) :=
    let bitlen := Z.log2 (w_n W) + 1 in
    match take (Z.to_nat ((bitlen + 7) / 8)) s with
    | None => None
    | Some (raw, rest) =>
        (* random.Bits(bitlen, false): clear the bits above bitlen *)
        let hb := bitlen mod 8 in
        let raw' := match raw with
                    | b0 :: t => (if hb =? 0 then b0 else b0 mod 2 ^ hb) :: t
                    | [] => []
                    end in
        let v := be_decode raw' in
        Some (if v <? w_n W then Some v else None, rest)
    end.

  Definition bn_pick (W : wparams) (fuel : nat) (s : list Z) : option (list Z * list Z) :=
    match retry (bn_scalar_step W) fuel s with
    | None => None
    | Some (k, rest) =>
        Some (bn_encode O W (w_mul O (fofZ O (w_a W)) k (w_base O W)), rest)
    end.

  Definition bn256_enc (P : Z * Z) : list Z := be_bytes 32 (fst P) ++ be_bytes 32 (snd P).
  Definition bn256_dec (b : list Z) : option (Z * Z) :=
    if Nat.ltb (length b) 64 then None else
    let x := be_decode (firstn 32 b) in let y := be_decode (firstn 32 (skipn 32 b)) in
    if feqb O (fsq O (fofZ O y)) (bn256_rhs (fofZ O x)) then Some (ftoZ O (fofZ O x), ftoZ O (fofZ O y)) else None.
  Definition bn256_data (P : Z * Z) : option (list Z) := data_le bn256_embedlen (be_bytes 32 (fst P)).
End WEmbed.

(* ---------------------------------------------- residue group (P = Q R + 1) *)

Section QR.
  Context {F : Type} (O : fops F).      (* arithmetic modulo P *)
  Variables P Q : Z.

  Definition qr_bitlen : Z := Z.log2 P + 1.
  Definition qr_len : nat := Z.to_nat ((qr_bitlen + 7) / 8).
  Definition qr_embedlen : nat := Z.to_nat ((qr_bitlen - 8 - 16) / 8).

  (* random.Bits(bitlen, false): clear the bits above bitlen in the first byte *)
  Definition mask_high (b : list Z) : list Z :=
    let hb := qr_bitlen mod 8 in
    match b with
    | b0 :: t => (if hb =? 0 then b0 else b0 mod 2 ^ hb) :: t
    | [] => []
    end.

  Definition qr_valid (v : Z) : bool :=
    (0 <? v) && (v <? P) && (ftoZ O (fpow O (fofZ O v) Q) =? 1).

  Definition qr_step (data : option (list Z)) (s : list Z) : option (option Z * list Z) :=
    match take qr_len s with
    | None => None
    | Some (raw, rest) =>
        let v := be_decode (put_be2 qr_embedlen data (mask_high raw)) in
        Some (if qr_valid v then Some v else None, rest)
    end.

  Definition qr_embed (fuel : nat) (data : option (list Z)) (s : list Z) :=
    retry (qr_step data) fuel s.

  Definition qr_enc (v : Z) : list Z := be_bytes qr_len v.
  Definition qr_dec (b : list Z) : option Z :=
    let v := be_decode b in if qr_valid v then Some v else None.
  Definition qr_data (v : Z) : option (list Z) := data_be2 qr_embedlen (be_bytes qr_len v).
End QR.

(* ------------------------------------------- RFC 9380 expand_message_xmd *)

Fixpoint xor_bytes (a b : list Z) : list Z :=
  match a, b with
  | x :: a', y :: b' => Z.lxor x y :: xor_bytes a' b'
  | _, _ => []
  end.

(* "H2C-OVERSIZE-DST-" *)
Definition long_dst_prefix : list Z :=
  [72; 50; 67; 45; 79; 86; 69; 82; 83; 73; 90; 69; 45; 68; 83; 84; 45].

Section XMD.
  Variable H : list Z -> list Z.       (* the hash, as an oracle *)
  Variables hsize bsize : Z.           (* output / block size in bytes *)

  (* blocks b_i, b_(i+1), ... (n of them), given b_(i-1) *)
  Fixpoint xmd_blocks (n : nat) (i : Z) (b0 bprev dstp : list Z) : list Z :=
    match n with
    | O => []
    | S k => let bi := H (xor_bytes b0 bprev ++ [i] ++ dstp) in
             bi ++ xmd_blocks k (i + 1) b0 bi dstp
    end.

  Definition xmd_core (ell : Z) (msg dst : list Z) (len : Z) : option (list Z) :=
    if (255 <? ell) || (65535 <? len) || (Nat.eqb (length dst) 0) then None else
    let dst' := if (255 <? Z.of_nat (length dst)) then H (long_dst_prefix ++ dst) else dst in
    let dstp := dst' ++ [Z.of_nat (length dst')] in
    let b0 := H (repeat 0 (Z.to_nat bsize) ++ msg ++ be_bytes 2 len ++ [0] ++ dstp) in
    let b1 := H (b0 ++ [1] ++ dstp) in
    Some (firstn (Z.to_nat len) (b1 ++ xmd_blocks (Z.to_nat (ell - 1)) 2 b0 b1 dstp)).

  (* the RFC: ell = ceil(len_in_bytes / b_in_bytes) *)
  Definition xmd_rfc (msg dst : list Z) (len : Z) : option (list Z) :=
    xmd_core ((len + hsize - 1) / hsize) msg dst len.

  (* kyber (group/edwards25519/point.go expandMessageXMD) divides by
     h.Size()>>3 instead of h.Size(): it computes 8 times as many blocks as
     needed (and truncates), and refuses len > 255 * (hsize / 8) *)
  Definition xmd_kyber (msg dst : list Z) (len : Z) : option (list Z) :=
    xmd_core ((len + hsize / 8 - 1) / (hsize / 8)) msg dst len.
End XMD.

(* ------------------------------ edwards25519_XMD:SHA-512_ELL2_RO_ (Hash) *)

Section EdHash.
  Context {F : Type} (O : fops F).
  Variable K : @edc F.
  Variable H : list Z -> list Z.        (* SHA-512 *)
  Notation "a +f b" := (fadd O a b) (at level 50, left associativity).
  Notation "a -f b" := (fsub O a b) (at level 50, left associativity).
  Notation "a *f b" := (fmul O a b) (at level 40, left associativity).

  Definition sgn0 (x : F) : Z := ftoZ O x mod 2.

  (* constants of curve25519Elligator2 / mapToCurveElligator2Ed25519 *)
  Record ellc := mkellc { e_j : F; e_c2 : F; e_c3 : F; e_c : F }.
  Definition ell_consts : ellc :=
    let j := fofZ O 486662 in
    let c3 := c_sqrtm1 K in
    let c2 := fpow O (fofZ O 2) ((ed_p + 3) / 8) in
    (* c = sqrt(-486664) with sgn0 c = 0 *)
    let a := fofZ O (-486664) in
    let r := fpow O a ((ed_p + 3) / 8) in
    let r := if feqb O (fsq O r) a then r else r *f c3 in
    let r := if sgn0 r =? 0 then r else fneg O r in
    mkellc j c2 c3 r.
  Variable E : ellc.

  (* curve25519Elligator2: returns (xn, xd, y) (yd = 1) *)
  Definition ell2_mont (u : F) : F * F * F :=
    let one := f1 O in
    let tv1 := fdbl O (fsq O u) in
    let xd := one +f tv1 in
    let x1n := fneg O (e_j E) in
    let tv2 := fsq O xd in
    let gxd := tv2 *f xd in
    let gx1 := e_j E *f tv1 in
    let gx1 := gx1 *f x1n in
    let gx1 := gx1 +f tv2 in
    let gx1 := gx1 *f x1n in
    let tv3 := fsq O gxd in
    let tv2 := fsq O tv3 in
    let tv3 := tv3 *f gxd in
    let tv3 := tv3 *f gx1 in
    let tv2 := tv2 *f tv3 in
    let y11 := fpow O tv2 ((ed_p - 5) / 8) in
    let y11 := y11 *f tv3 in
    let y12 := y11 *f e_c3 E in
    let tv2 := fsq O y11 *f gxd in
    let e1 := feqb O tv2 gx1 in
    let y1 := if e1 then y11 else y12 in
    let x2n := x1n *f tv1 in
    let y21 := y11 *f u in
    let y21 := y21 *f e_c2 E in
    let y22 := y21 *f e_c3 E in
    let gx2 := gx1 *f tv1 in
    let tv2 := fsq O y21 *f gxd in
    let e2 := feqb O tv2 gx2 in
    let y2 := if e2 then y21 else y22 in
    let tv2 := fsq O y1 *f gxd in
    let e3 := feqb O tv2 gx1 in
    let xn := if e3 then x1n else x2n in
    let y := if e3 then y1 else y2 in
    let e4 := sgn0 y =? 1 in
    let y := if xorb e3 e4 then fneg O y else y in
    (xn, xd, y).

  (* mapToCurveElligator2Ed25519 *)
  Definition ell2_ed (u : F) : @ept F :=
    let '(xMn, xMd, yMn) := ell2_mont u in
    let yMd := f1 O in
    let xn := xMn *f yMd *f e_c E in
    let xd := xMd *f yMn in
    let yn := xMn -f xMd in
    let yd := xMn +f xMd in
    let e := feqb O (xd *f yd) (f0 O) in
    let xn := if e then f0 O else xn in
    let xd := if e then f1 O else xd in
    let yn := if e then f1 O else yn in
    let yd := if e then f1 O else yd in
    (* completed (X, Y, Z, T) = (xn, yn, xd, yd) -> extended *)
    mkept (xn *f yd) (yn *f xd) (xd *f yd) (xn *f yn).

  (* hashToField(m, dst, 2): two 48-byte big-endian integers reduced mod p *)
  Definition ed_hash_to_field (msg dst : list Z) : option (F * F) :=
    match xmd_kyber H 64 128 msg dst 96 with
    | None => None
    | Some ub => Some (fofZ O (be_decode (firstn 48 ub)), fofZ O (be_decode (firstn 48 (skipn 48 ub))))
    end.

  Definition ed_hash (msg dst : list Z) : option (@ept F) :=
    match ed_hash_to_field msg dst with
    | None => None
    | Some (u0, u1) =>
        Some (ed_mul O K 8 (ed_add O K (ell2_ed u0) (ell2_ed u1)))
    end.
End EdHash.
