(* Property C17: Embed/Data round trip, membership and determinism for P-256,
   BN256 G1 and the residue groups, over every lawful instance of the field
   operations. *)
From Coq Require Import ZArith List Bool Lia Arith Ring Setoid Morphisms.
From Kyber Require Import Algebra.Zq CurveRef.Field CurveRef.Edwards CurveRef.Weierstrass
  Embed.EmbedSM Embed.EmbedProofs Embed.EmbedBytes.
Import ListNotations.
Local Open Scope Z_scope.

(* ------------------------------------------------ lawful field operations *)

Record fops_ok {F : Type} (O : fops F) (p : Z) : Prop := mk_fops_ok {
  ok_p : 1 < p;
  ok_ring : ring_theory (f0 O) (f1 O) (fadd O) (fmul O) (fsub O) (fneg O) eq;
  ok_eqb : forall a b, feqb O a b = true <-> a = b;
  ok_range : forall a, 0 <= ftoZ O a < p;
  ok_to_of : forall z, ftoZ O (fofZ O z) = z mod p;
  ok_of_to : forall a, fofZ O (ftoZ O a) = a;
  ok_add : forall a b, ftoZ O (fadd O a b) = (ftoZ O a + ftoZ O b) mod p;
  ok_sub : forall a b, ftoZ O (fsub O a b) = (ftoZ O a - ftoZ O b) mod p;
  ok_mul : forall a b, ftoZ O (fmul O a b) = (ftoZ O a * ftoZ O b) mod p
}.

(* the instance the theorems are not vacuous for: integers modulo p of Algebra/Zq *)
Definition zq_ops (p : Z) : fops (zq p) :=
  mkfops (zq p) (@zzero p) (@zone p) (@zadd p) (@zsub p) (@zmul p) (@zopp p) (@zeqb p) (of_Z p) (@val p).

Lemma zq_ops_ok p : 1 < p -> fops_ok (zq_ops p) p.
Proof.
  intros Hp. constructor; cbn [zq_ops f0 f1 fadd fsub fmul fneg feqb fofZ ftoZ]; auto.
  - apply zq_ring.
  - intros a b. apply zeqb_eq.
  - intros a. apply val_range. lia.
  - intros a. apply zq_eq. rewrite val_of_Z. apply val_mod.
Qed.

(* congruence modulo p as a setoid, to normalise nested [mod]s *)
Definition eqmod (p a b : Z) : Prop := a mod p = b mod p.
Lemma eqmod_iff p a b : eqmod p a b <-> a mod p = b mod p.
Proof. reflexivity. Qed.
#[global] Instance eqmod_equiv p : Equivalence (eqmod p).
Proof. split; unfold eqmod; congruence. Qed.
#[global] Instance eqmod_add p : Proper (eqmod p ==> eqmod p ==> eqmod p) Z.add.
Proof. unfold eqmod. intros a b H c d H0. rewrite Zplus_mod, H, H0, <- Zplus_mod. reflexivity. Qed.
#[global] Instance eqmod_sub p : Proper (eqmod p ==> eqmod p ==> eqmod p) Z.sub.
Proof. unfold eqmod. intros a b H c d H0. rewrite Zminus_mod, H, H0, <- Zminus_mod. reflexivity. Qed.
#[global] Instance eqmod_mul p : Proper (eqmod p ==> eqmod p ==> eqmod p) Z.mul.
Proof. unfold eqmod. intros a b H c d H0. rewrite Zmult_mod, H, H0, <- Zmult_mod. reflexivity. Qed.
Lemma eqmod_mod p a : eqmod p (a mod p) a.
Proof. apply Zmod_mod. Qed.
Global Opaque eqmod.
Ltac mod_norm p :=
  apply (proj1 (eqmod_iff p _ _)); repeat setoid_rewrite (eqmod_mod p);
  apply (proj2 (eqmod_iff p _ _)); apply (f_equal (fun z => z mod p)); ring.

Ltac push_mod :=
  repeat (rewrite ?Zplus_mod_idemp_l, ?Zplus_mod_idemp_r, ?Zmult_mod_idemp_l, ?Zmult_mod_idemp_r,
                  ?Zminus_mod_idemp_l, ?Zminus_mod_idemp_r).

Section FopsFacts.
  Context {F : Type} (O : fops F) (p : Z) (OK : fops_ok O p).

  Lemma fpow_pos_spec : forall e a, ftoZ O (fpow_pos O a e) = (ftoZ O a ^ Zpos e) mod p.
  Proof.
    assert (Hp := ok_p O p OK).
    induction e; intros a; cbn [fpow_pos].
    - rewrite (ok_mul O p OK), (ok_mul O p OK), IHe.
      rewrite <- Zmult_mod, Zmult_mod_idemp_r.
      replace (Z.pos e~1) with (Z.succ (Z.pos e + Z.pos e)) by lia.
      rewrite Z.pow_succ_r, Z.pow_add_r by lia. reflexivity.
    - rewrite (ok_mul O p OK), IHe. rewrite <- Zmult_mod.
      replace (Z.pos e~0) with (Z.pos e + Z.pos e) by lia.
      rewrite Z.pow_add_r by lia. reflexivity.
    - rewrite Z.pow_1_r. symmetry. apply Z.mod_small. apply (ok_range O p OK).
  Qed.

  Lemma fpow_spec e a : 0 < e -> ftoZ O (fpow O a e) = (ftoZ O a ^ e) mod p.
  Proof. destruct e; try lia. intros _. apply fpow_pos_spec. Qed.
End FopsFacts.

(* ------------------------------------------- retry with a stream invariant *)

Lemma retry_accepted_inv {A} (step : list Z -> option (option A * list Z)) (Inv : list Z -> Prop) :
  (forall s r rest, Inv s -> step s = Some (r, rest) -> Inv rest) ->
  forall f s a rest, Inv s -> retry step f s = Some (a, rest) ->
    exists s', Inv s' /\ step s' = Some (Some a, rest).
Proof.
  intros HI. induction f; intros s a rest Hs H; simpl in H; [discriminate|].
  destruct (step s) as [[[a'|] rest']|] eqn:E; try discriminate.
  - inversion H; subst. exists s. split; assumption.
  - apply (IHf rest'); [|assumption]. apply (HI s None rest'); assumption.
Qed.

Lemma prefix_determined_bytes {A} (step : list Z -> option (option A * list Z)) :
  prefix_determined step -> forall s r rest, bytes s -> step s = Some (r, rest) -> bytes rest.
Proof.
  intros PD s r rest Hs H. destruct (PD _ _ _ H) as (n & _ & -> & _). apply bytes_skipn. exact Hs.
Qed.

Lemma take_bytes n s pre rest : bytes s -> take n s = Some (pre, rest) -> bytes pre /\ bytes rest.
Proof.
  intros Hs H. apply take_spec in H. destruct H as (_ & -> & -> & _).
  split; [apply bytes_firstn | apply bytes_skipn]; assumption.
Qed.

Definition data_bytes (data : option (list Z)) : Prop :=
  match data with Some d => bytes d | None => True end.

Lemma nat_byte n : (n < 256)%nat -> is_byte (Z.of_nat n).
Proof. unfold is_byte. lia. Qed.

Lemma put_le_ok elen data raw :
  (elen < 256)%nat -> (elen + 1 <= length raw)%nat -> bytes raw -> data_bytes data ->
  bytes (put_le elen data raw) /\ length (put_le elen data raw) = length raw.
Proof.
  intros He Hl Hr Hd. destruct data as [d|]; cbn [put_le]; auto.
  set (dl := Nat.min elen (length d)).
  assert (dl <= elen)%nat by apply Nat.le_min_l.
  assert (dl <= length d)%nat by apply Nat.le_min_r.
  split.
  - constructor; [apply nat_byte; lia|]. apply bytes_app; [apply bytes_firstn|apply bytes_skipn]; assumption.
  - cbn [length]. rewrite app_length, firstn_length_le, skipn_length by lia. lia.
Qed.

Lemma put_be_ok elen data raw :
  (elen < 256)%nat -> (elen + 1 <= length raw)%nat -> bytes raw -> data_bytes data ->
  bytes (put_be elen data raw) /\ length (put_be elen data raw) = length raw.
Proof.
  intros He Hl Hr Hd. destruct data as [d|]; cbn [put_be]; auto.
  set (dl := Nat.min elen (length d)).
  assert (dl <= elen)%nat by apply Nat.le_min_l.
  assert (dl <= length d)%nat by apply Nat.le_min_r.
  split.
  - apply bytes_app; [apply bytes_firstn; assumption|].
    apply bytes_app; [apply bytes_firstn; assumption|]. constructor; [apply nat_byte; lia|constructor].
  - rewrite !app_length, !firstn_length_le by lia. cbn [length]. lia.
Qed.

Lemma put_be2_ok elen data raw :
  (elen + 2 <= length raw)%nat -> bytes raw -> data_bytes data ->
  bytes (put_be2 elen data raw) /\ length (put_be2 elen data raw) = length raw.
Proof.
  intros Hl Hr Hd. destruct data as [d|]; cbn [put_be2]; auto.
  set (dl := Nat.min elen (length d)).
  assert (dl <= elen)%nat by apply Nat.le_min_l.
  assert (dl <= length d)%nat by apply Nat.le_min_r.
  split.
  - apply bytes_app; [apply bytes_firstn; assumption|].
    apply bytes_app; [apply bytes_firstn; assumption|].
    constructor; [|constructor; [|constructor]]; unfold is_byte; apply Z.mod_pos_bound; lia.
  - rewrite !app_length, !firstn_length_le by lia. cbn [length]. lia.
Qed.

(* ===================================================================== P-256 *)

Lemma p256_lt_2_256 : w_p p256 < 256 ^ Z.of_nat 32.
Proof. vm_compute. reflexivity. Qed.
Lemma p256_p_pos : 1 < w_p p256.
Proof. vm_compute. reflexivity. Qed.

Section P256.
  Context {F : Type} (O : fops F) (OK : fops_ok O (w_p p256)).
  Let p := w_p p256.

  (* what an accepted candidate satisfies *)
  Lemma p256_step_accept data s x y rest :
    bytes s -> data_bytes data ->
    p256_step O data s = Some (Some (x, y), rest) ->
    exists raw, raw = firstn 32 s /\ length raw = 32%nat /\
      x = be_decode (put_be p256_embedlen data raw) /\
      0 <= x < p /\ 0 <= y <= p /\
      (y = p -> ftoZ O (p256_rhs O (fofZ O x)) = 0) /\
      ftoZ O (fsq O (fofZ O y)) = ftoZ O (p256_rhs O (fofZ O x)) /\
      rest = skipn 33 s /\ (33 <= length s)%nat.
  Proof.
    intros Hs Hd H. unfold p256_step in H.
    destruct (take 32 s) as [[raw rest0]|] eqn:T; [|discriminate].
    destruct (take_bytes _ _ _ _ Hs T) as [Hraw Hrest0].
    apply take_spec in T. destruct T as (L32 & Eraw & Erest0 & _ & Lraw).
    set (xx := be_decode (put_be p256_embedlen data raw)) in *.
    destruct (w_p p256 <=? xx) eqn:G; [discriminate|]. apply Z.leb_gt in G.
    destruct (take 1 rest0) as [[sb rest1]|] eqn:T1; [|discriminate].
    apply take_spec in T1. destruct T1 as (L1 & _ & Erest1 & _ & _).
    set (y2 := p256_rhs O (fofZ O xx)) in *.
    set (y0 := ftoZ O (fpow O y2 ((w_p p256 + 1) / 4))) in *.
    set (y' := if 128 <=? nth 0 sb 0 then w_p p256 - y0 else y0) in *.
    destruct (ftoZ O (fsq O (fofZ O y')) =? ftoZ O y2) eqn:C; [|discriminate].
    apply Z.eqb_eq in C. inversion H; subst x y rest. clear H.
    assert (R0 : 0 <= y0 < p) by apply (ok_range O p OK).
    destruct (put_be_ok p256_embedlen data raw) as [Hb Lb]; auto;
      try (unfold p256_embedlen; lia).
    assert (Rx := be_decode_range _ Hb). rewrite Lb, Lraw in Rx.
    exists raw. repeat split; auto; try (fold p; lia).
    - subst y'. destruct (128 <=? nth 0 sb 0); fold p; lia.
    - subst y'. destruct (128 <=? nth 0 sb 0); fold p; lia.
    - intros E. assert (y0 = 0) by (subst y'; destruct (128 <=? nth 0 sb 0); fold p in E |- *; lia).
      fold y2. rewrite <- C. unfold fsq. rewrite (ok_mul O p OK), (ok_to_of O p OK), E.
      rewrite Z_mod_same_full. reflexivity.
    - rewrite Erest1, Erest0. apply skipn_skipn_add.
    - rewrite Erest0, skipn_length in L1. lia.
  Qed.


  Lemma p256_step_prefix data : prefix_determined (p256_step O data).
  Proof.
    intros s r rest H. unfold p256_step in H.
    destruct (take 32 s) as [[raw rest0]|] eqn:T; [|discriminate].
    pose proof (take_spec _ _ _ _ T) as (L32 & Eraw & Erest0 & _ & Lraw).
    set (xx := be_decode (put_be p256_embedlen data raw)) in *.
    destruct (w_p p256 <=? xx) eqn:G.
    - inversion H; subst r rest. exists 32%nat. repeat split; auto.
      intros s2 E2 L2. unfold p256_step. rewrite (take_prefix _ _ _ _ _ T E2 L2). fold xx. rewrite G. reflexivity.
    - destruct (take 1 rest0) as [[sb rest1]|] eqn:T1; [|discriminate].
      pose proof (take_spec _ _ _ _ T1) as (L1 & Esb & Erest1 & _ & _).
      rewrite Erest0, skipn_length in L1.
      set (y2 := p256_rhs O (fofZ O xx)) in *.
      set (y0 := ftoZ O (fpow O y2 ((w_p p256 + 1) / 4))) in *.
      set (y' := if 128 <=? nth 0 sb 0 then w_p p256 - y0 else y0) in *.
      set (c := ftoZ O (fsq O (fofZ O y')) =? ftoZ O y2) in *.
      assert (Er : rest = rest1) by (destruct c; inversion H; reflexivity).
      exists 33%nat. split; [lia|]. split.
      + rewrite Er, Erest1, Erest0. apply skipn_skipn_add.
      + intros s2 E2 L2. unfold p256_step.
        assert (E32 : firstn 32 s2 = firstn 32 s).
        { rewrite <- (firstn_firstn_le 32 33 s2), <- (firstn_firstn_le 32 33 s) by lia. rewrite E2. reflexivity. }
        rewrite (take_prefix _ _ _ _ _ T E32) by lia. fold xx. rewrite G.
        assert (T2 : take 1 (skipn 32 s2) = Some (sb, skipn 1 (skipn 32 s2))).
        { apply (take_prefix 1 rest0 (skipn 32 s2) sb rest1 T1).
          - rewrite Erest0. apply (firstn_skipn_shift 32 1). exact E2.
          - rewrite skipn_length. lia. }
        rewrite T2. rewrite skipn_skipn_add. fold y2 y0 y' c.
        destruct c; inversion H; subst; reflexivity.
  Qed.

  Lemma p256_step_bytes data s r rest : bytes s -> p256_step O data s = Some (r, rest) -> bytes rest.
  Proof. intros Hs H. eapply prefix_determined_bytes; [apply (p256_step_prefix data) | exact Hs | exact H]. Qed.

  (* integer form of the curve equation *)
  Lemma p256_rhs_Z x : ftoZ O (p256_rhs O (fofZ O x)) = (x * x * x - 3 * x + w_b p256) mod p.
  Proof.
    unfold p256_rhs.
    rewrite ?(ok_add O p OK), ?(ok_sub O p OK), ?(ok_mul O p OK), ?(ok_add O p OK), ?(ok_to_of O p OK).
    mod_norm p.
  Qed.

  (* membership: canonical x, y in [0, p], curve equation; y = p only for a
     point of order 2, which P-256 does not have (its order is an odd prime) *)
  Theorem p256_embed_member fuel data s x y rest :
    bytes s -> data_bytes data ->
    p256_embed O fuel data s = Some ((x, y), rest) ->
    0 <= x < p /\ 0 <= y <= p /\
    (y * y) mod p = (x * x * x - 3 * x + w_b p256) mod p /\
    (y = p -> (x * x * x - 3 * x + w_b p256) mod p = 0).
  Proof.
    intros Hs Hd H. unfold p256_embed in H.
    destruct (retry_accepted_inv _ bytes (p256_step_bytes data) _ _ _ _ Hs H) as (s' & Hs' & St).
    destruct (p256_step_accept _ _ _ _ _ Hs' Hd St) as (raw & _ & _ & _ & Rx & Ry & Hp & C & _).
    repeat split; try lia.
    - rewrite <- p256_rhs_Z, <- C. unfold fsq.
      rewrite (ok_mul O p OK), (ok_to_of O p OK). push_mod. reflexivity.
    - intros E. rewrite <- p256_rhs_Z. auto.
  Qed.

  Corollary p256_embed_member_strict fuel data s x y rest :
    (forall x, (x * x * x - 3 * x + w_b p256) mod p <> 0) ->      (* no point of order 2 *)
    bytes s -> data_bytes data ->
    p256_embed O fuel data s = Some ((x, y), rest) ->
    0 <= x < p /\ 0 <= y < p /\ (y * y) mod p = (x * x * x - 3 * x + w_b p256) mod p.
  Proof.
    intros N Hs Hd H. destruct (p256_embed_member _ _ _ _ _ _ Hs Hd H) as (Rx & Ry & C & E).
    repeat split; try lia. destruct (Z.eq_dec y p) as [Ey|]; [|lia]. exfalso. apply (N x). auto.
  Qed.

  (* lossless: Data returns the stored bytes, also after encode/decode *)
  Theorem p256_embed_roundtrip fuel d s x y rest :
    bytes s -> bytes d ->
    p256_embed O fuel (Some d) s = Some ((x, y), rest) ->
    p256_data (x, y) = Some (firstn p256_embedlen d) /\
    p256_dec (p256_enc (x, y)) = Some (x, y).
  Proof.
    intros Hs Hd H. unfold p256_embed in H.
    destruct (retry_accepted_inv _ bytes (p256_step_bytes (Some d)) _ _ _ _ Hs H) as (s' & Hs' & St).
    destruct (p256_step_accept (Some d) _ _ _ _ Hs' Hd St) as (raw & Eraw & Lraw & Ex & Rx & Ry & _).
    assert (Hraw : bytes raw) by (subst raw; apply bytes_firstn; assumption).
    destruct (put_be_ok p256_embedlen (Some d) raw) as [Hb Lb]; auto; try (unfold p256_embedlen; lia).
    split.
    - unfold p256_data. cbn [fst]. rewrite Ex.
      replace 32%nat with (length (put_be p256_embedlen (Some d) raw)) by lia.
      rewrite be_bytes_be_decode by assumption.
      apply data_be_put_be. unfold p256_embedlen. lia.
    - assert (P2 := p256_lt_2_256). fold p in P2.
      unfold p256_dec, p256_enc. cbn [fst snd].
      assert (LA : length (be_bytes 32 x) = 32%nat) by apply be_bytes_length.
      assert (LB : length (be_bytes 32 y) = 32%nat) by apply be_bytes_length.
      assert (DA : be_decode (be_bytes 32 x) = x) by (apply be_decode_be_bytes; lia).
      assert (DB : be_decode (be_bytes 32 y) = y) by (apply be_decode_be_bytes; lia).
      set (A := be_bytes 32 x) in *. set (B := be_bytes 32 y) in *.
      assert (L : length (4 :: A ++ B) = 65%nat) by (cbn [length]; rewrite app_length, LA, LB; reflexivity).
      rewrite L. change (Nat.eqb 65 65) with true. cbn [negb nth]. change (4 =? 4) with true. cbn [negb].
      replace (skipn 1 (4 :: A ++ B)) with (A ++ B) by reflexivity.
      replace (skipn 33 (4 :: A ++ B)) with (skipn 32 (A ++ B)) by reflexivity.
      rewrite <- LA at 1 2. rewrite firstn_app, Nat.sub_diag, firstn_O, app_nil_r, firstn_all.
      rewrite skipn_app, Nat.sub_diag, skipn_all. cbn [skipn app].
      rewrite DA, DB. reflexivity.
  Qed.

  (* different data give different points *)
  Corollary p256_embed_injective fuel1 fuel2 d1 d2 s1 s2 P rest1 rest2 :
    bytes s1 -> bytes s2 -> bytes d1 -> bytes d2 ->
    p256_embed O fuel1 (Some d1) s1 = Some (P, rest1) ->
    p256_embed O fuel2 (Some d2) s2 = Some (P, rest2) ->
    firstn p256_embedlen d1 = firstn p256_embedlen d2.
  Proof.
    intros B1 B2 D1 D2 H1 H2. destruct P as [x y].
    destruct (p256_embed_roundtrip _ _ _ _ _ _ B1 D1 H1) as [E1 _].
    destruct (p256_embed_roundtrip _ _ _ _ _ _ B2 D2 H2) as [E2 _].
    congruence.
  Qed.

  (* determinism *)

  Theorem p256_embed_deterministic fuel data s P rest :
    p256_embed O fuel data s = Some (P, rest) ->
    exists n, (n <= length s)%nat /\ rest = skipn n s /\
      forall s2, firstn n s2 = firstn n s -> (n <= length s2)%nat ->
                 p256_embed O fuel data s2 = Some (P, skipn n s2).
  Proof. apply retry_prefix. apply p256_step_prefix. Qed.
End P256.

(* ================================================================== BN256 G1 *)

Lemma if_false_eq {A} (a b : A) : (if false then a else b) = b.
Proof. reflexivity. Qed.

Lemma split64 (A B : list Z) : length A = 32%nat -> length B = 32%nat ->
  firstn 32 (A ++ B) = A /\ firstn 32 (skipn 32 (A ++ B)) = B.
Proof.
  intros LA LB. split.
  - rewrite <- LA at 1. rewrite firstn_app, Nat.sub_diag, firstn_O, app_nil_r. apply firstn_all.
  - rewrite <- LA at 2. rewrite skipn_app, Nat.sub_diag, skipn_all. cbn [skipn app].
    rewrite <- LB. apply firstn_all.
Qed.

Lemma bn256_lt_2_256 : w_p bn256 < 256 ^ Z.of_nat 32.
Proof. vm_compute. reflexivity. Qed.
Lemma bn256_30 : 30 * 256 ^ Z.of_nat 31 < w_p bn256.
Proof. vm_compute. reflexivity. Qed.

Section BN256.
  Context {F : Type} (O : fops F) (OK : fops_ok O (w_p bn256)).
  Let p := w_p bn256.

  Lemma bn256_step_prefix data : prefix_determined (bn256_step O data).
  Proof.
    intros s r rest H. unfold bn256_step in H.
    destruct (take 32 s) as [[raw rest0]|] eqn:T; [|discriminate].
    pose proof (take_spec _ _ _ _ T) as (L32 & Eraw & Erest0 & _ & Lraw).
    set (fx := fofZ O (be_decode (put_le bn256_embedlen data raw))) in *.
    set (t := bn256_rhs O fx) in *.
    set (y := fpow O t ((w_p bn256 + 1) / 4)) in *.
    set (c := feqb O (fsq O y) t) in *.
    assert (Er : rest = rest0) by (destruct c; inversion H; reflexivity).
    exists 32%nat. repeat split; auto; [congruence|].
    intros s2 E2 L2. unfold bn256_step. rewrite (take_prefix _ _ _ _ _ T E2 L2).
    fold fx t y c. destruct c; inversion H; subst; reflexivity.
  Qed.

  Lemma bn256_step_accept data s X Y rest :
    bytes s -> data_bytes data ->
    bn256_step O data s = Some (Some (X, Y), rest) ->
    exists raw fx fy, raw = firstn 32 s /\ length raw = 32%nat /\ bytes raw /\
      fx = fofZ O (be_decode (put_le bn256_embedlen data raw)) /\
      X = ftoZ O fx /\ Y = ftoZ O fy /\ fsq O fy = bn256_rhs O fx.
  Proof.
    intros Hs Hd H. unfold bn256_step in H.
    destruct (take 32 s) as [[raw rest0]|] eqn:T; [|discriminate].
    destruct (take_bytes _ _ _ _ Hs T) as [Hraw _].
    apply take_spec in T. destruct T as (L32 & Eraw & Erest0 & _ & Lraw).
    set (fx := fofZ O (be_decode (put_le bn256_embedlen data raw))) in *.
    set (t := bn256_rhs O fx) in *.
    set (y := fpow O t ((w_p bn256 + 1) / 4)) in *.
    destruct (feqb O (fsq O y) t) eqn:C; [|discriminate].
    apply (ok_eqb O p OK) in C. inversion H; subst X Y rest.
    exists raw, fx, y. repeat split; auto.
  Qed.

  Lemma bn256_rhs_Z fx : ftoZ O (bn256_rhs O fx) = (ftoZ O fx * ftoZ O fx * ftoZ O fx + w_b bn256) mod p.
  Proof.
    unfold bn256_rhs. rewrite ?(ok_add O p OK), ?(ok_mul O p OK), ?(ok_to_of O p OK).
    mod_norm p.
  Qed.

  Theorem bn256_embed_member fuel data s X Y rest :
    bytes s -> data_bytes data ->
    bn256_embed O fuel data s = Some ((X, Y), rest) ->
    0 <= X < p /\ 0 <= Y < p /\ (Y * Y) mod p = (X * X * X + w_b bn256) mod p.
  Proof.
    intros Hs Hd H. unfold bn256_embed in H.
    destruct (retry_accepted_inv _ bytes (prefix_determined_bytes _ (bn256_step_prefix data)) _ _ _ _ Hs H)
      as (s' & Hs' & St).
    destruct (bn256_step_accept _ _ _ _ _ Hs' Hd St) as (raw & fx & fy & _ & _ & _ & _ & -> & -> & C).
    repeat split; try apply (ok_range O p OK).
    rewrite <- bn256_rhs_Z, <- C. unfold fsq. rewrite (ok_mul O p OK). reflexivity.
  Qed.

  Theorem bn256_embed_roundtrip fuel d s X Y rest :
    bytes s -> bytes d ->
    bn256_embed O fuel (Some d) s = Some ((X, Y), rest) ->
    bn256_data (X, Y) = Some (firstn bn256_embedlen d) /\
    bn256_dec O (bn256_enc (X, Y)) = Some (X, Y).
  Proof.
    intros Hs Hd H. unfold bn256_embed in H.
    destruct (retry_accepted_inv _ bytes (prefix_determined_bytes _ (bn256_step_prefix (Some d))) _ _ _ _ Hs H)
      as (s' & Hs' & St).
    destruct (bn256_step_accept (Some d) _ _ _ _ Hs' Hd St)
      as (raw & fx & fy & _ & Lraw & Hraw & Efx & EX & EY & C).
    destruct (put_le_ok bn256_embedlen (Some d) raw) as [Hb Lb]; auto; try (unfold bn256_embedlen; lia).
    set (b := put_le bn256_embedlen (Some d) raw) in *.
    assert (P2 := bn256_lt_2_256). assert (P3 := bn256_30). fold p in P2, P3.
    (* the candidate is below p because its first byte is the length <= 29 *)
    assert (Rb : 0 <= be_decode b < p).
    { assert (R := be_decode_range _ Hb). split; [lia|].
      unfold b, put_le in *. set (dl := Nat.min bn256_embedlen (length d)) in *.
      assert (dl <= bn256_embedlen)%nat by apply Nat.le_min_l. unfold bn256_embedlen in *.
      set (t := firstn dl d ++ skipn (S dl) raw) in *.
      rewrite be_decode_cons. cbn [length] in Lb.
      assert (Lt : length t = 31%nat) by lia.
      assert (Rt : 0 <= be_decode t < 256 ^ Z.of_nat (length t)).
      { apply be_decode_range. inversion Hb; assumption. }
      rewrite Lt in *. nia. }
    assert (EXb : X = be_decode b).
    { rewrite EX, Efx, (ok_to_of O p OK). apply Z.mod_small. exact Rb. }
    assert (RY : 0 <= Y < p) by (rewrite EY; apply (ok_range O p OK)).
    split.
    - unfold bn256_data. cbn [fst]. rewrite EXb.
      replace 32%nat with (length b) by lia.
      rewrite be_bytes_be_decode by assumption.
      apply data_le_put_le. unfold bn256_embedlen. lia.
    - unfold bn256_dec, bn256_enc. cbn [fst snd].
      assert (LA : length (be_bytes 32 X) = 32%nat) by apply be_bytes_length.
      assert (LB : length (be_bytes 32 Y) = 32%nat) by apply be_bytes_length.
      assert (DA : be_decode (be_bytes 32 X) = X) by (apply be_decode_be_bytes; lia).
      assert (DB : be_decode (be_bytes 32 Y) = Y) by (apply be_decode_be_bytes; lia).
      set (A := be_bytes 32 X) in *. set (B := be_bytes 32 Y) in *.
      assert (L : length (A ++ B) = 64%nat) by (rewrite app_length, LA, LB; reflexivity).
      rewrite L. change (Nat.ltb 64 64) with false. rewrite (@if_false_eq (option (Z * Z)) None).
      destruct (split64 A B LA LB) as [S1 S2]. rewrite S1, S2, DA, DB.
      assert (fofZ O X = fx) by (rewrite EX; apply (ok_of_to O p OK)).
      assert (fofZ O Y = fy) by (rewrite EY; apply (ok_of_to O p OK)).
      rewrite H0, H1. rewrite (proj2 (ok_eqb O p OK _ _) C). rewrite <- EX, <- EY. reflexivity.
  Qed.

  Theorem bn256_embed_deterministic fuel data s P rest :
    bn256_embed O fuel data s = Some (P, rest) ->
    exists n, (n <= length s)%nat /\ rest = skipn n s /\
      forall s2, firstn n s2 = firstn n s -> (n <= length s2)%nat ->
                 bn256_embed O fuel data s2 = Some (P, skipn n s2).
  Proof. apply retry_prefix. apply bn256_step_prefix. Qed.
End BN256.

(* ============================================================== residue group *)

Section QRG.
  Context {F : Type} (O : fops F) (P Q : Z) (OK : fops_ok O P).
  Hypothesis P_size : 32 <= Z.log2 P + 1 < 65536 * 8.       (* bit length of the modulus *)

  Lemma qr_len_facts :
    (qr_embedlen P + 2 <= qr_len P)%nat /\ Z.of_nat (qr_embedlen P) < 65536.
  Proof.
    unfold qr_embedlen, qr_len, qr_bitlen. set (bl := Z.log2 P + 1) in *.
    assert (0 <= (bl - 8 - 16) / 8) by (apply Z.div_pos; lia).
    assert ((bl - 8 - 16) / 8 + 2 <= (bl + 7) / 8).
    { assert (bl + 7 = (bl - 8 - 16) + 31) by lia.
      assert (E := Z.div_mod (bl - 8 - 16) 8). assert (E2 := Z.div_mod (bl + 7) 8).
      assert (M1 := Z.mod_pos_bound (bl - 8 - 16) 8). assert (M2 := Z.mod_pos_bound (bl + 7) 8). lia. }
    split.
    - lia.
    - rewrite Z2Nat.id by lia. apply Z.div_lt_upper_bound; lia.
  Qed.

  Lemma mask_high_ok raw : bytes raw -> bytes (mask_high P raw) /\ length (mask_high P raw) = length raw.
  Proof.
    intros H. unfold mask_high. destruct raw as [|b0 t]; [auto|]. inversion H; subst. split; [|reflexivity].
    constructor; [|assumption]. destruct (qr_bitlen P mod 8 =? 0) eqn:E; [assumption|].
    unfold is_byte in *.
    assert (M := Z.mod_pos_bound (qr_bitlen P) 8).
    assert (0 < 2 ^ (qr_bitlen P mod 8)) by (apply Z.pow_pos_nonneg; lia).
    assert (M2 := Z.mod_pos_bound b0 (2 ^ (qr_bitlen P mod 8))).
    assert (2 ^ (qr_bitlen P mod 8) <= 2 ^ 8) by (apply Z.pow_le_mono_r; lia).
    change (2 ^ 8) with 256 in *. lia.
  Qed.

  Lemma qr_step_prefix data : prefix_determined (qr_step O P Q data).
  Proof.
    intros s r rest H. unfold qr_step in H.
    destruct (take (qr_len P) s) as [[raw rest0]|] eqn:T; [|discriminate].
    pose proof (take_spec _ _ _ _ T) as (L32 & Eraw & Erest0 & _ & Lraw).
    inversion H; subst r rest. exists (qr_len P). repeat split; auto.
    intros s2 E2 L2. unfold qr_step. rewrite (take_prefix _ _ _ _ _ T E2 L2). reflexivity.
  Qed.

  (* membership is the explicit test of Valid(): 0 < v < P and v^Q = 1 (mod P) *)
  Theorem qr_embed_member fuel data s v rest :
    0 < Q ->
    qr_embed O P Q fuel data s = Some (v, rest) ->
    0 < v < P /\ (v ^ Q) mod P = 1.
  Proof.
    intros HQ H. unfold qr_embed in H. destruct (retry_accepted _ _ _ _ _ H) as (s' & St).
    unfold qr_step in St. destruct (take (qr_len P) s') as [[raw rest0]|]; [|discriminate].
    destruct (qr_valid O P Q _) eqn:V; inversion St; subst.
    unfold qr_valid in V. apply andb_prop in V. destruct V as [V V3].
    apply andb_prop in V. destruct V as [V1 V2].
    apply Z.ltb_lt in V1. apply Z.ltb_lt in V2. apply Z.eqb_eq in V3.
    rewrite (fpow_spec O P OK) in V3 by assumption. rewrite (ok_to_of O P OK) in V3.
    set (v := be_decode _) in *. rewrite (Z.mod_small v P) in V3 by lia. auto.
  Qed.

  Theorem qr_embed_roundtrip fuel d s v rest :
    bytes s -> bytes d ->
    qr_embed O P Q fuel (Some d) s = Some (v, rest) ->
    qr_data P v = Some (firstn (qr_embedlen P) d) /\
    qr_dec O P Q (qr_enc P v) = Some v.
  Proof.
    intros Hs Hd H. unfold qr_embed in H.
    destruct (retry_accepted_inv _ bytes (prefix_determined_bytes _ (qr_step_prefix (Some d))) _ _ _ _ Hs H)
      as (s' & Hs' & St).
    unfold qr_step in St. destruct (take (qr_len P) s') as [[raw rest0]|] eqn:T; [|discriminate].
    destruct (take_bytes _ _ _ _ Hs' T) as [Hraw _].
    apply take_spec in T. destruct T as (_ & _ & _ & _ & Lraw).
    set (b := put_be2 (qr_embedlen P) (Some d) (mask_high P raw)) in *.
    destruct (qr_valid O P Q (be_decode b)) eqn:V; [|discriminate].
    assert (Ev : v = be_decode b) by congruence. subst v. clear St.
    destruct (mask_high_ok raw Hraw) as [Hm Lm]. destruct qr_len_facts as [F1 F2].
    destruct (put_be2_ok (qr_embedlen P) (Some d) (mask_high P raw)) as [Hb Lb]; auto; try lia.
    fold b in Hb, Lb.
    assert (Eb : be_bytes (qr_len P) (be_decode b) = b).
    { replace (qr_len P) with (length b) by lia. apply be_bytes_be_decode. assumption. }
    split.
    - unfold qr_data. rewrite Eb. apply data_be2_put_be2; lia.
    - unfold qr_dec, qr_enc. rewrite Eb, V. reflexivity.
  Qed.

  Theorem qr_embed_deterministic fuel data s v rest :
    qr_embed O P Q fuel data s = Some (v, rest) ->
    exists n, (n <= length s)%nat /\ rest = skipn n s /\
      forall s2, firstn n s2 = firstn n s -> (n <= length s2)%nat ->
                 qr_embed O P Q fuel data s2 = Some (v, skipn n s2).
  Proof. apply retry_prefix. apply qr_step_prefix. Qed.
End QRG.
