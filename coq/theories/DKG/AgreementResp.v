(* DKG agreement, part 2: what an honest node of a fresh DKG holds after the
   response bundles were folded in, as a function of the response board, and
   the case analysis of ProcessResponses. *)
From Coq Require Import ZArith List Bool Lia Permutation.
From Kyber Require Import Algebra.Zq Algebra.Grp DKG.PedersenDKG DKG.PedersenProofs DKG.Agreement DKG.AgreementDeal.
Import ListNotations.
Local Open Scope Z_scope.

Lemma upd_id {A} k (m : list (Z * A)) : upd k (fun x => x) m = m.
Proof.
  unfold upd. rewrite <- (map_id m) at 2. apply map_ext. intros [k' x]. cbn. destruct (k' =? k); reflexivity.
Qed.

Lemma nodup_key_inj {B} (key : B -> Z) (l : list B) a b :
  NoDup (map key l) -> In a l -> In b l -> key a = key b -> a = b.
Proof.
  induction l as [|x l IH]; intros ND Ia Ib E; [destruct Ia|]. cbn in ND. inversion ND as [|? ? N1 N2]; subst.
  destruct Ia as [<-|Ia], Ib as [<-|Ib]; auto.
  - exfalso. apply N1. rewrite E. apply in_map. exact Ib.
  - exfalso. apply N1. rewrite <- E. apply in_map. exact Ia.
Qed.

Lemma look_map_keep' {A} (g : Z * A -> Z * A) (m : list (Z * A)) k :
  (forall e, fst (g e) = fst e) ->
  look k (map g m) = match look k m with Some v => Some (snd (g (k, v))) | None => None end.
Proof.
  intros H. induction m as [|[k0 v] m IH]; [reflexivity|]. cbn [map].
  pose proof (H (k0, v)) as H0. destruct (g (k0, v)) as [k1 v1] eqn:G. cbn [fst] in H0. subst k1. cbn [look].
  destruct (k0 =? k) eqn:E; [|exact IH]. apply Z.eqb_eq in E. subst k0. rewrite G. reflexivity.
Qed.

Lemma map_keep_keys' {A} (g : Z * A -> Z * A) (m : list (Z * A)) :
  (forall e, fst (g e) = fst e) -> map fst (map g m) = map fst m.
Proof. intros H. rewrite map_map. apply map_ext. exact H. Qed.

Section Resp.
  Variable q : Z.
  Notation F := (zq q).
  Variable nodes : list (Z * Z).
  Variable thr : Z.
  Variable fast : bool.               (* Config.FastSync *)
  Notation K := (map fst nodes).
  Notation fresh := (fresh_cfg q nodes thr fast).

  (* a response that is taken into account: known dealer and, in regular mode,
     not a success status; any other response evicts its author *)
  Definition eff (r : response) : bool := included nodes (r_dealer r) && negb (negb fast && (r_status r =? 0)).
  (* a response bundle node [i] processes *)
  Definition proc (i : Z) (b : resp_bundle) : bool :=
    negb (rb_holder b =? i) && included nodes (rb_holder b) && rb_sid b.
  Definition hbad (b : resp_bundle) : bool := negb (rb_sid b) || existsb (fun r => negb (eff r)) (rb_resps b).

  (* effect on the record of dealer [d] *)
  Definition ostep (d hb : Z) (x : dstate q) (r : response) : dstate q :=
    if eff r && (r_dealer r =? d) then set_cell q hb (r_status r) x else x.
  Definition bstep (i d : Z) (x : dstate q) (b : resp_bundle) : dstate q :=
    if proc i b then fold_left (ostep d (rb_holder b)) (rb_resps b) x else x.
  (* effect on the cell (d, h) *)
  Definition cinner (d : Z) (rs : list response) (v : Z) : Z :=
    fold_left (fun v r => if eff r && (r_dealer r =? d) then r_status r else v) rs v.
  Definition cstep (i d h : Z) (v : Z) (b : resp_bundle) : Z :=
    if h =? rb_holder b then (if proc i b then cinner d (rb_resps b) v else v) else v.

  (* holder [h] is evicted by node [i]: explicitly (bad session id, bad response) ... *)
  Definition hevB (i : Z) (R : list resp_bundle) (h : Z) : bool :=
    existsb (fun b => (rb_holder b =? h) && negb (rb_holder b =? i) && included nodes (rb_holder b) && hbad b) R.
  (* ... or, in fast-sync mode, because it sent no valid response at all *)
  Definition authR (i : Z) (R : list resp_bundle) (h : Z) : bool :=
    existsb (fun b => (rb_holder b =? h) && proc i b && existsb eff (rb_resps b)) R.
  Definition hevR (i : Z) (R : list resp_bundle) (h : Z) : bool :=
    hevB i R h || (fast && negb (h =? i) && included nodes h && negb (authR i R h)).
  Definition foundR (i : Z) (R : list resp_bundle) : bool :=
    existsb (fun b => proc i b && existsb (fun r => eff r && (r_status r =? 1)) (rb_resps b)) R.

  (* ---------------------------------------------------------------- one response *)
  Lemma resp_one_eq i c hb s r : fresh i c ->
    resp_one q c hb s r =
    if eff r
    then mkst (upd (r_dealer r) (set_cell q hb (r_status r)) (s_d s)) (upd hb set_hauth (s_h s))
              (s_found s || (r_status r =? 1)) (s_phase s)
    else mkst (s_d s) (upd hb set_hev (s_h s)) (s_found s) (s_phase s).
  Proof.
    intros FC. unfold resp_one, eff. rewrite (fc_old _ _ _ _ _ _ FC), (fc_fast _ _ _ _ _ _ FC).
    destruct (included nodes (r_dealer r)); cbn [negb andb]; [|reflexivity].
    destruct (negb fast && (r_status r =? 0)); cbn [negb]; [reflexivity|].
    destruct (r_status r =? 1); destruct s; cbn; rewrite ?orb_true_r, ?orb_false_r; reflexivity.
  Qed.

  Definition hauth (s : st q) (h : Z) : bool := match look h (s_h s) with Some x => h_auth x | None => false end.

  Lemma hfield_upd (pr : hstate -> bool) (m : list (Z * hstate)) hb (f : hstate -> hstate) h :
    match look h (upd hb f m) with Some x => pr x | None => false end =
    match look h m with Some x => if h =? hb then pr (f x) else pr x | None => false end.
  Proof. rewrite look_upd. destruct (look h m); [|reflexivity]. destruct (h =? hb); reflexivity. Qed.

  Lemma hfield_step (pr : hstate -> bool) (m : list (Z * hstate)) hb (f : hstate -> hstate) h (t E : bool) :
    (forall x, pr (f x) = pr x || t) ->
    match look h (upd hb f m) with Some x => pr x | None => false end
    || (h =? hb) && included (upd hb f m) h && E =
    match look h m with Some x => pr x | None => false end
    || (h =? hb) && included m h && (t || E).
  Proof.
    intros Hf. rewrite hfield_upd.
    assert (INC : included (upd hb f m) h = included m h).
    { apply eq_true_iff_eq. rewrite !included_in, upd_keys. reflexivity. }
    rewrite INC. destruct (look h m) as [x|] eqn:L.
    - assert (IN : included m h = true) by (apply included_in; apply look_some_in in L; apply (in_map fst) in L; exact L).
      rewrite IN. destruct (h =? hb); cbn [andb]; [|reflexivity]. rewrite Hf.
      destruct (pr x), t, E; reflexivity.
    - assert (IN : included m h = false).
      { apply not_true_iff_false. intros X. apply included_in in X. apply look_in in X. destruct X as [x X]. congruence. }
      rewrite IN, !andb_false_r. reflexivity.
  Qed.

  (* the components of the state after the responses of one bundle *)
  Lemma fold_resp_one i c hb rs : fresh i c -> forall s,
    let s' := fold_left (resp_one q c hb) rs s in
    (forall d, look d (s_d s') = option_map (fun x => fold_left (ostep d hb) rs x) (look d (s_d s))) /\
    map fst (s_d s') = map fst (s_d s) /\ map fst (s_h s') = map fst (s_h s) /\
    (forall h, holder_evicted q s' h =
               holder_evicted q s h || ((h =? hb) && included (s_h s) h && existsb (fun r => negb (eff r)) rs)) /\
    s_found s' = s_found s || existsb (fun r => eff r && (r_status r =? 1)) rs /\
    s_phase s' = s_phase s /\
    (forall h, hauth s' h = hauth s h || ((h =? hb) && included (s_h s) h && existsb eff rs)).
  Proof.
    intros FC. induction rs as [|r rs IH]; intros s; cbn [fold_left].
    - cbn zeta. repeat split.
      + intros d. destruct (look d (s_d s)); reflexivity.
      + intros h. cbn [existsb]. rewrite andb_false_r, orb_false_r. reflexivity.
      + cbn [existsb]. rewrite orb_false_r. reflexivity.
      + intros h. cbn [existsb]. rewrite andb_false_r, orb_false_r. reflexivity.
    - specialize (IH (resp_one q c hb s r)). cbn zeta in *. destruct IH as (A1 & A2 & A3 & A4 & A5 & A6 & A7).
      rewrite (resp_one_eq i c hb s r FC) in *. unfold ostep at 2.
      destruct (eff r) eqn:EF; cbn [s_d s_h s_found s_phase andb negb existsb orb] in *.
      + repeat split.
        * intros d. rewrite A1, look_upd. destruct (look d (s_d s)); [|reflexivity]. cbn [option_map].
          rewrite (Z.eqb_sym d). destruct (r_dealer r =? d); reflexivity.
        * rewrite A2. apply upd_keys.
        * rewrite A3. apply upd_keys.
        * intros h. rewrite A4. unfold holder_evicted. cbn [s_h].
          rewrite (hfield_step h_ev (s_h s) hb set_hauth h false _ (fun x => eq_sym (orb_false_r _))). rewrite ?EF. reflexivity.
        * rewrite A5, ?EF; cbn [andb orb]; rewrite ?orb_assoc; reflexivity.
        * exact A6.
        * intros h. rewrite A7. unfold hauth. cbn [s_h].
          rewrite (hfield_step h_auth (s_h s) hb set_hauth h true _ (fun x => eq_sym (orb_true_r _))). rewrite ?EF. reflexivity.
      + repeat split.
        * intros d. rewrite A1. reflexivity.
        * exact A2.
        * rewrite A3. apply upd_keys.
        * intros h. rewrite A4. unfold holder_evicted. cbn [s_h].
          rewrite (hfield_step h_ev (s_h s) hb set_hev h true _ (fun x => eq_sym (orb_true_r _))). rewrite ?EF. reflexivity.
        * rewrite A5, ?EF; cbn [andb orb]; rewrite ?orb_assoc; reflexivity.
        * exact A6.
        * intros h. rewrite A7. unfold hauth. cbn [s_h].
          rewrite (hfield_step h_auth (s_h s) hb set_hev h false _ (fun x => eq_sym (orb_false_r _))). rewrite ?EF. reflexivity.
  Qed.

  Lemma resp_step_eq i c s b : fresh i c ->
    resp_step q c s b =
    if negb (rb_holder b =? i) && included nodes (rb_holder b)
    then (if rb_sid b then fold_left (resp_one q c (rb_holder b)) (rb_resps b) s
          else on_h q (upd (rb_holder b) set_hev) s)
    else s.
  Proof.
    intros FC. unfold resp_step. rewrite (fc_issue _ _ _ _ _ _ FC), (fc_newp _ _ _ _ _ _ FC), (fc_nidx _ _ _ _ _ _ FC), (fc_new _ _ _ _ _ _ FC).
    cbn [andb]. destruct (rb_holder b =? i); cbn [negb andb]; [reflexivity|].
    destruct (included nodes (rb_holder b)); cbn [negb]; [|reflexivity].
    destruct (rb_sid b); reflexivity.
  Qed.

  (* the state after the whole response board *)
  Lemma fold_resp_step i c R : fresh i c -> forall s, map fst (s_h s) = K ->
    let s' := fold_left (resp_step q c) R s in
    (forall d, look d (s_d s') = option_map (fun x => fold_left (bstep i d) R x) (look d (s_d s))) /\
    map fst (s_d s') = map fst (s_d s) /\ map fst (s_h s') = K /\
    (forall h, holder_evicted q s' h = holder_evicted q s h || hevB i R h) /\
    s_found s' = s_found s || foundR i R /\
    s_phase s' = s_phase s /\
    (forall h, hauth s' h = hauth s h || authR i R h).
  Proof.
    intros FC. induction R as [|b R IH]; intros s HK; cbn [fold_left].
    - cbn zeta. repeat split; auto.
      + intros d. destruct (look d (s_d s)); reflexivity.
      + intros h. unfold hevB. cbn [existsb]. rewrite orb_false_r. reflexivity.
      + unfold foundR. cbn [existsb]. rewrite orb_false_r. reflexivity.
      + intros h. unfold authR. cbn [existsb]. rewrite orb_false_r. reflexivity.
    - cbn zeta in *. rewrite (resp_step_eq i c s b FC). unfold bstep at 2.
      assert (HE : forall h, hevB i (b :: R) h =
                  ((rb_holder b =? h) && (negb (rb_holder b =? i) && included nodes (rb_holder b)) && hbad b) || hevB i R h).
      { intros h. unfold hevB. cbn [existsb]. rewrite <- (andb_assoc (rb_holder b =? h)). reflexivity. }
      assert (AE : forall h, authR i (b :: R) h =
                  ((rb_holder b =? h) && (negb (rb_holder b =? i) && included nodes (rb_holder b) && rb_sid b) && existsb eff (rb_resps b)) || authR i R h) by reflexivity.
      assert (FE : foundR i (b :: R) =
                  (negb (rb_holder b =? i) && included nodes (rb_holder b) && rb_sid b && existsb (fun r => eff r && (r_status r =? 1)) (rb_resps b)) || foundR i R) by reflexivity.
      unfold proc.
      destruct (negb (rb_holder b =? i) && included nodes (rb_holder b)) eqn:P1; cbn [andb] in *.
      2:{ destruct (IH s HK) as (A1 & A2 & A3 & A4 & A5 & A6 & A7). repeat split; auto.
          - intros h. rewrite A4, HE, andb_false_r. reflexivity.
          - rewrite A5, FE. reflexivity.
          - intros h. rewrite A7, AE, andb_false_r. reflexivity. }
      destruct (rb_sid b) eqn:SID.
      + destruct (fold_resp_one i c (rb_holder b) (rb_resps b) FC s) as (B1 & B2 & B3 & B4 & B5 & B6 & B7). cbn zeta in *.
        destruct (IH (fold_left (resp_one q c (rb_holder b)) (rb_resps b) s)) as (A1 & A2 & A3 & A4 & A5 & A6 & A7);
          [rewrite B3; exact HK|].
        assert (IN : included (s_h s) (rb_holder b) = true).
        { apply included_in. rewrite HK. apply included_in. apply andb_true_iff in P1. tauto. }
        repeat split.
        * intros d. rewrite A1, B1. destruct (look d (s_d s)); reflexivity.
        * rewrite A2. exact B2.
        * exact A3.
        * intros h. rewrite A4, B4, HE. rewrite <- orb_assoc. f_equal. f_equal.
          unfold hbad. rewrite SID. cbn [negb orb]. rewrite (Z.eqb_sym h), andb_true_r.
          destruct (rb_holder b =? h) eqn:EH; cbn [andb]; [|reflexivity].
          apply Z.eqb_eq in EH. subst h. rewrite IN. reflexivity.
        * rewrite A5, B5, FE. cbn [andb]. rewrite <- orb_assoc. reflexivity.
        * rewrite A6. exact B6.
        * intros h. rewrite A7, B7, AE. rewrite <- orb_assoc. f_equal. f_equal.
          rewrite (Z.eqb_sym h), !andb_true_r.
          destruct (rb_holder b =? h) eqn:EH; cbn [andb]; [|reflexivity].
          apply Z.eqb_eq in EH. subst h. rewrite IN. reflexivity.
      + destruct (IH (on_h q (upd (rb_holder b) set_hev) s)) as (A1 & A2 & A3 & A4 & A5 & A6 & A7);
          [unfold on_h; cbn [s_h]; rewrite upd_keys; exact HK|].
        assert (INK : In (rb_holder b) (map fst (s_h s))).
        { rewrite HK. apply included_in. apply andb_true_iff in P1. tauto. }
        unfold on_h in *. cbn [s_d s_h s_found s_phase] in *. repeat split; auto.
        * intros h. rewrite A4, HE. rewrite orb_assoc. f_equal.
          unfold holder_evicted. cbn [s_h]. rewrite (hfield_upd h_ev). unfold hbad. rewrite SID. cbn [negb orb].
          rewrite andb_true_r, andb_true_r, (Z.eqb_sym h).
          destruct (rb_holder b =? h) eqn:EH.
          -- apply Z.eqb_eq in EH. subst h. destruct (look_in _ _ INK) as [x ->]. cbn. rewrite orb_true_r. reflexivity.
          -- rewrite orb_false_r. reflexivity.
        * rewrite A5, FE, ?P1, ?SID. reflexivity.
        * intros h. rewrite A7, AE, ?P1, ?SID. cbn [andb]. rewrite ?andb_false_r. cbn [andb orb]. f_equal.
          unfold hauth. cbn [s_h]. rewrite (hfield_upd h_auth).
          destruct (look h (s_h s)); [|reflexivity]. destruct (h =? rb_holder b); reflexivity.
  Qed.

  (* ---------------------------------------------------------------- records: only cells change *)
  Lemma ostep_fields d hb rs : forall x,
    let x' := fold_left (ostep d hb) rs x in
    d_ev x' = d_ev x /\ d_pub x' = d_pub x /\ d_share x' = d_share x /\ d_seen x' = d_seen x /\
    map fst (d_row x') = map fst (d_row x) /\
    (forall h, In h (map fst (d_row x)) ->
               cell (d_row x') h = if h =? hb then cinner d rs (cell (d_row x) h) else cell (d_row x) h).
  Proof.
    induction rs as [|r rs IH]; intros x; cbn [fold_left].
    - cbn zeta. repeat split; auto. intros h _. unfold cinner. cbn. destruct (h =? hb); reflexivity.
    - pose proof (IH (ostep d hb x r)) as IH'. cbn zeta in *. clear IH.
      assert (CI : forall v, cinner d (r :: rs) v = cinner d rs (if eff r && (r_dealer r =? d) then r_status r else v)) by reflexivity.
      set (y := ostep d hb x r) in *.
      assert (Y : d_ev y = d_ev x /\ d_pub y = d_pub x /\ d_share y = d_share x /\ d_seen y = d_seen x /\
                  map fst (d_row y) = map fst (d_row x) /\
                  (forall h, In h (map fst (d_row x)) ->
                     cell (d_row y) h = if h =? hb then (if eff r && (r_dealer r =? d) then r_status r else cell (d_row x) h)
                                        else cell (d_row x) h)).
      { unfold y, ostep. destruct (eff r && (r_dealer r =? d)).
        - cbn [set_cell d_ev d_pub d_share d_seen d_row]. repeat split; auto; [apply upd_keys|].
          intros h I. rewrite cell_upd by exact I. reflexivity.
        - repeat split; auto. intros h _. destruct (h =? hb); reflexivity. }
      destruct Y as (Y1 & Y2 & Y3 & Y4 & Y5 & Y6). destruct IH' as (A1 & A2 & A3 & A4 & A5 & A6).
      repeat split; try congruence.
      intros h I. rewrite A6 by (rewrite Y5; exact I). rewrite Y6 by exact I. rewrite CI.
      destruct (h =? hb); reflexivity.
  Qed.

  Lemma bstep_fields i d R : forall x,
    let x' := fold_left (bstep i d) R x in
    d_ev x' = d_ev x /\ d_pub x' = d_pub x /\ d_share x' = d_share x /\ d_seen x' = d_seen x /\
    map fst (d_row x') = map fst (d_row x) /\
    (forall h, In h (map fst (d_row x)) -> cell (d_row x') h = fold_left (cstep i d h) R (cell (d_row x) h)).
  Proof.
    induction R as [|b R IH]; intros x; cbn [fold_left].
    - cbn zeta. repeat split; auto.
    - pose proof (IH (bstep i d x b)) as IH'. cbn zeta in *. clear IH.
      set (y := bstep i d x b) in *.
      assert (Y : d_ev y = d_ev x /\ d_pub y = d_pub x /\ d_share y = d_share x /\ d_seen y = d_seen x /\
                  map fst (d_row y) = map fst (d_row x) /\
                  (forall h, In h (map fst (d_row x)) -> cell (d_row y) h = cstep i d h (cell (d_row x) h) b)).
      { unfold y, bstep, cstep. destruct (proc i b).
        - destruct (ostep_fields d (rb_holder b) (rb_resps b) x) as (B1 & B2 & B3 & B4 & B5 & B6). cbn zeta in *.
          repeat split; auto.
        - repeat split; auto. intros h _. destruct (h =? rb_holder b); reflexivity. }
      destruct Y as (Y1 & Y2 & Y3 & Y4 & Y5 & Y6). destruct IH' as (A1 & A2 & A3 & A4 & A5 & A6).
      repeat split; try congruence.
      intros h I. rewrite A6 by (rewrite Y5; exact I). rewrite Y6 by exact I. reflexivity.
  Qed.

  (* the column of a holder whose bundle is not processed (own column; no bundle) *)
  Lemma cstep_skip i d h R v :
    (forall b, In b R -> rb_holder b = h -> proc i b = false) -> fold_left (cstep i d h) R v = v.
  Proof.
    revert v. induction R as [|b R IH]; intros v H; cbn [fold_left]; [reflexivity|].
    rewrite IH by (intros b' I; apply H; right; exact I). unfold cstep.
    destruct (h =? rb_holder b) eqn:E; [|reflexivity]. apply Z.eqb_eq in E.
    rewrite (H b (or_introl eq_refl)) by congruence. reflexivity.
  Qed.

  Lemma cstep_own i d R v : fold_left (cstep i d i) R v = v.
  Proof.
    apply cstep_skip. intros b _ E. unfold proc. rewrite E, Z.eqb_refl. reflexivity.
  Qed.

  Lemma cstep_absent i d h R v : ~ In h (map rb_holder R) -> fold_left (cstep i d h) R v = v.
  Proof. intros N. unfold cstep. apply (apply_absent rb_holder (fun b v => if proc i b then cinner d (rb_resps b) v else v) R h v N). Qed.

  Lemma cstep_unique i d R b v : NoDup (map rb_holder R) -> In b R ->
    fold_left (cstep i d (rb_holder b)) R v = if proc i b then cinner d (rb_resps b) v else v.
  Proof.
    intros ND I. unfold cstep.
    apply (apply_unique rb_holder (fun b v => if proc i b then cinner d (rb_resps b) v else v) R b v ND I).
  Qed.

  (* third-party columns do not depend on the reader *)
  Lemma cstep_third i j d h R v : h <> i -> h <> j -> fold_left (cstep i d h) R v = fold_left (cstep j d h) R v.
  Proof.
    intros N1 N2. apply fold_left_ext_in. intros v' b _. unfold cstep, proc.
    destruct (h =? rb_holder b) eqn:E; [|reflexivity]. apply Z.eqb_eq in E. rewrite <- E.
    destruct (h =? i) eqn:E1; [apply Z.eqb_eq in E1; contradiction|].
    destruct (h =? j) eqn:E2; [apply Z.eqb_eq in E2; contradiction|]. reflexivity.
  Qed.

  Lemma hevB_third i j R h : h <> i -> h <> j -> hevB i R h = hevB j R h.
  Proof.
    intros N1 N2. unfold hevB. induction R as [|b R IH]; [reflexivity|]. cbn [existsb]. rewrite IH. f_equal.
    destruct (rb_holder b =? h) eqn:E; [|reflexivity]. apply Z.eqb_eq in E. rewrite E.
    destruct (h =? i) eqn:E1; [apply Z.eqb_eq in E1; contradiction|].
    destruct (h =? j) eqn:E2; [apply Z.eqb_eq in E2; contradiction|]. reflexivity.
  Qed.

  Lemma authR_third i j R h : h <> i -> h <> j -> authR i R h = authR j R h.
  Proof.
    intros N1 N2. unfold authR, proc. induction R as [|b R IH]; [reflexivity|]. cbn [existsb]. rewrite IH. f_equal.
    destruct (rb_holder b =? h) eqn:E; [|reflexivity]. apply Z.eqb_eq in E. rewrite E.
    destruct (h =? i) eqn:E1; [apply Z.eqb_eq in E1; contradiction|].
    destruct (h =? j) eqn:E2; [apply Z.eqb_eq in E2; contradiction|]. reflexivity.
  Qed.

  Lemma hevR_third i j R h : h <> i -> h <> j -> hevR i R h = hevR j R h.
  Proof.
    intros N1 N2. unfold hevR. rewrite (hevB_third i j R h N1 N2), (authR_third i j R h N1 N2).
    destruct (h =? i) eqn:E1; [apply Z.eqb_eq in E1; contradiction|].
    destruct (h =? j) eqn:E2; [apply Z.eqb_eq in E2; contradiction|]. reflexivity.
  Qed.

  Lemma hevR_own i R : hevR i R i = false.
  Proof.
    unfold hevR. rewrite Z.eqb_refl, andb_false_r. cbn [andb]. rewrite orb_false_r.
    unfold hevB. induction R as [|b R IH]; [reflexivity|]. cbn [existsb]. rewrite IH, orb_false_r.
    destruct (rb_holder b =? i); reflexivity.
  Qed.

  (* ---------------------------------------------------------------- the response bundle of an honest holder *)
  (* what holder [c] reports about dealer [d]: nothing about an evicted dealer,
     a complaint, or (fast-sync only) a success *)
  Definition report (c : cfg q) (D : list (deal_bundle q)) (d : Z) : option Z :=
    let r := drec q nodes fast c D d in
    if d_ev r then None
    else if cell (d_row r) (c_nidx c) =? 0 then (if fast then Some 0 else None) else Some 1.

  Lemma complaints_of_eq c D :
    complaints_of q nodes fast c D =
    flat_map (fun n : Z * Z => match report c D (fst n) with Some s => [mkresp (fst n) s] | None => [] end) nodes.
  Proof.
    unfold complaints_of, report. apply flat_map_ext. intros n. cbn zeta.
    destruct (d_ev (drec q nodes fast c D (fst n))); [reflexivity|].
    destruct (cell (d_row (drec q nodes fast c D (fst n))) (c_nidx c) =? 0); [destruct fast|]; reflexivity.
  Qed.

  Lemma report_eff c D d s : In d K -> report c D d = Some s -> eff (mkresp d s) = true.
  Proof.
    intros IK. unfold report, eff. cbn [r_dealer r_status].
    assert (X : included nodes d = true) by (apply included_in; exact IK). rewrite X. cbn [andb].
    destruct (d_ev _); [discriminate|]. destruct (cell _ _ =? 0).
    - destruct fast; [|discriminate]. intros _. reflexivity.
    - intros E. inversion E. rewrite andb_false_r. reflexivity.
  Qed.

  Lemma cinner_complaints c D d v : NoDup K -> In d K ->
    cinner d (complaints_of q nodes fast c D) v = match report c D d with Some s => s | None => v end.
  Proof.
    intros ND IK. rewrite complaints_of_eq.
    assert (APP : forall l1 l2 v, cinner d (l1 ++ l2) v = cinner d l2 (cinner d l1 v)) by (intros; apply fold_left_app).
    assert (G : forall l, incl l nodes -> NoDup (map fst l) -> forall v,
      cinner d (flat_map (fun n : Z * Z => match report c D (fst n) with Some s => [mkresp (fst n) s] | None => [] end) l) v =
      if existsb (fun n : Z * Z => fst n =? d) l then match report c D d with Some s => s | None => v end else v).
    { induction l as [|n l IH]; intros IN NDl v0; [reflexivity|]. cbn [flat_map existsb map] in *.
      inversion NDl as [|? ? N1 N2]; subst.
      rewrite APP, IH by (auto; intros x X; apply IN; right; exact X).
      destruct (fst n =? d) eqn:E; cbn [orb].
      - apply Z.eqb_eq in E.
        assert (NX : existsb (fun n0 : Z * Z => fst n0 =? d) l = false).
        { apply not_true_iff_false. intros X. apply existsb_exists in X. destruct X as (n' & I' & E').
          apply Z.eqb_eq in E'. apply N1. rewrite E, <- E'. apply in_map. exact I'. }
        rewrite NX, E. destruct (report c D d) as [s|] eqn:RP; [|reflexivity].
        unfold cinner. cbn [fold_left]. rewrite (report_eff c D d s IK RP). cbn [r_dealer r_status]. rewrite Z.eqb_refl. reflexivity.
      - assert (Y : cinner d (match report c D (fst n) with Some s => [mkresp (fst n) s] | None => [] end) v0 = v0).
        { destruct (report c D (fst n)); [|reflexivity]. unfold cinner. cbn [fold_left r_dealer]. rewrite E, andb_false_r. reflexivity. }
        rewrite Y. reflexivity. }
    rewrite (G nodes (incl_refl _) ND).
    assert (E : existsb (fun n : Z * Z => fst n =? d) nodes = true).
    { apply existsb_exists. apply in_map_iff in IK. destruct IK as (n & E & I). exists n. split; [exact I|]. apply Z.eqb_eq. exact E. }
    rewrite E. reflexivity.
  Qed.

  Lemma complaints_in c D r : In r (complaints_of q nodes fast c D) ->
    exists d, In d K /\ r = mkresp d (r_status r) /\ report c D d = Some (r_status r).
  Proof.
    rewrite complaints_of_eq. intros I. apply in_flat_map in I. destruct I as (n & I & I2).
    destruct (report c D (fst n)) as [s|] eqn:RP; [|destruct I2]. destruct I2 as [<-|[]].
    exists (fst n). split; [apply in_map; exact I|]. cbn. auto.
  Qed.

  Lemma report_complaint c D d : report c D d = Some 1 ->
    d_ev (drec q nodes fast c D d) = false /\ (cell (d_row (drec q nodes fast c D d)) (c_nidx c) =? 0) = false.
  Proof.
    unfold report. destruct (d_ev _); [discriminate|]. destruct (cell _ _ =? 0); [|auto]. destruct fast; discriminate.
  Qed.

  (* the status an honest holder reports is its own cell *)
  Lemma report_own_cell c D d v : d_ev (drec q nodes fast c D d) = false ->
    cell (d_row (drec q nodes fast c D d)) (c_nidx c) = 0 \/ cell (d_row (drec q nodes fast c D d)) (c_nidx c) = 1 ->
    (fast = false -> v = 0) ->
    match report c D d with Some s => s | None => v end = cell (d_row (drec q nodes fast c D d)) (c_nidx c).
  Proof.
    intros EV [X|X] HV; unfold report; rewrite EV, X; cbn [Z.eqb]; [|reflexivity].
    destruct fast; [reflexivity|]. apply HV. reflexivity.
  Qed.

  Lemma complaints_eff c D r : In r (complaints_of q nodes fast c D) -> eff r = true.
  Proof.
    intros I. destruct (complaints_in c D r I) as (d & IK & E & RP). rewrite E. apply (report_eff c D d _ IK RP).
  Qed.

  Lemma complaints_nil c D d : complaints_of q nodes fast c D = [] -> In d K -> report c D d = None.
  Proof.
    rewrite complaints_of_eq. intros E IK. apply in_map_iff in IK. destruct IK as (n & <- & I).
    destruct (report c D (fst n)) as [s|] eqn:CO; [|reflexivity]. exfalso.
    assert (X : In (mkresp (fst n) s)
                   (flat_map (fun n : Z * Z => match report c D (fst n) with Some s => [mkresp (fst n) s] | None => [] end) nodes)).
    { apply in_flat_map. exists n. split; [exact I|]. rewrite CO. left. reflexivity. }
    rewrite E in X. destruct X.
  Qed.

  (* the column of an honest holder [h], as every OTHER honest node [i] reads it
     off the response board *)
  Theorem honest_column (B : boards q) i h ch d v :
    boards_ok q B -> honest q nodes thr fast B h ch -> h <> i -> In d K ->
    fold_left (cstep i d h) (bR B) v = match report ch (bD B) d with Some s => s | None => v end.
  Proof.
    intros (_ & NDR & _) HH N IK. pose proof (h_cfg _ _ _ _ _ _ _ HH) as FH. pose proof (h_resp _ _ _ _ _ _ _ HH) as HR.
    rewrite (rbun_eq q nodes thr fast h ch B FH) in HR.
    destruct (complaints_of q nodes fast ch (bD B)) as [|r0 rs] eqn:CE.
    - rewrite (cstep_absent i d h _ v HR). rewrite (complaints_nil ch (bD B) d CE IK). reflexivity.
    - pose proof (cstep_unique i d (bR B) _ v NDR HR) as X. cbn [rb_holder rb_resps] in X. rewrite X.
      unfold proc. cbn [rb_holder rb_sid].
      assert (E1 : (h =? i) = false) by (apply Z.eqb_neq; exact N).
      assert (E2 : included nodes h = true) by (apply included_in; apply (fc_in _ _ _ _ _ _ FH)).
      rewrite E1, E2. cbn [negb andb]. rewrite <- CE. apply cinner_complaints; [apply (fc_ndi _ _ _ _ _ _ FH)|exact IK].
  Qed.

  (* an honest holder is never evicted by an honest node: its bundle carries no
     bad response, and in fast-sync mode it carries at least one valid response
     (about the holder's own deal) *)
  Theorem honest_holder_not_evicted (B : boards q) i h ch :
    boards_ok q B -> honest q nodes thr fast B h ch -> hevR i (bR B) h = false.
  Proof.
    intros (NDD & NDR & _) HH. pose proof (h_cfg _ _ _ _ _ _ _ HH) as FH. pose proof (h_resp _ _ _ _ _ _ _ HH) as HR.
    rewrite (rbun_eq q nodes thr fast h ch B FH) in HR.
    unfold hevR. apply orb_false_iff. split.
    - unfold hevB. apply not_true_iff_false. intros X. apply existsb_exists in X. destruct X as (b & IB & X).
      apply andb_true_iff in X. destruct X as [X HB]. apply andb_true_iff in X. destruct X as [X _].
      apply andb_true_iff in X. destruct X as [EH _]. apply Z.eqb_eq in EH.
      destruct (complaints_of q nodes fast ch (bD B)) as [|r0 rs] eqn:CE.
      + apply HR. rewrite <- EH. apply in_map. exact IB.
      + assert (b = mkrb h (r0 :: rs) true) by (apply (nodup_key_inj rb_holder (bR B) _ _ NDR IB HR); exact EH).
        subst b. unfold hbad in HB. cbn [rb_sid rb_resps negb orb] in HB. apply existsb_exists in HB.
        destruct HB as (r & IR & ER). rewrite <- CE in IR. apply complaints_eff in IR. rewrite IR in ER. discriminate.
    - destruct (bool_dec fast false) as [FS|FS]; [rewrite FS; reflexivity|]. apply not_false_is_true in FS.
      destruct (h =? i) eqn:EI; [rewrite andb_false_r; reflexivity|]. cbn [negb andb].
      assert (INC : included nodes h = true) by (apply included_in; apply (fc_in _ _ _ _ _ _ FH)). rewrite INC, FS. cbn [andb].
      apply negb_false_iff.
      (* the holder reports on its own deal *)
      pose proof (drec_spec q nodes thr fast h ch (bD B) h FH NDD (h_deal _ _ _ _ _ _ _ HH) (fc_in _ _ _ _ _ _ FH)) as DK.
      assert (EV : d_ev (drec q nodes fast ch (bD B) h) = false).
      { rewrite (dk_ev _ _ _ _ _ _ _ _ DK). pose proof (bundle_of_in q (bD B) _ NDD (h_deal _ _ _ _ _ _ _ HH)) as BO.
        rewrite (dbun_dealer q nodes thr fast h ch FH) in BO. rewrite BO. apply (dbun_not_bad q nodes thr fast h ch FH). }
      assert (RP : exists s, report ch (bD B) h = Some s).
      { unfold report. rewrite EV. destruct (cell _ _ =? 0); [rewrite FS|]; eauto. }
      destruct RP as (s & RP).
      assert (IC : In (mkresp h s) (complaints_of q nodes fast ch (bD B))).
      { rewrite complaints_of_eq. apply in_flat_map. pose proof (fc_in _ _ _ _ _ _ FH) as IKh.
        apply in_map_iff in IKh. destruct IKh as (n & E & I). exists n. split; [exact I|]. rewrite E, RP. left. reflexivity. }
      destruct (complaints_of q nodes fast ch (bD B)) as [|r0 rs] eqn:CE; [destruct IC|].
      unfold authR. apply existsb_exists. exists (mkrb h (r0 :: rs) true). split; [exact HR|].
      cbn [rb_holder rb_resps]. unfold proc. cbn [rb_holder rb_sid]. rewrite Z.eqb_refl, EI, INC. cbn [negb andb].
      apply existsb_exists. exists (mkresp h s). split; [exact IC|]. rewrite <- CE in IC. apply (complaints_eff ch (bD B) _ IC).
  Qed.

  (* ---------------------------------------------------------------- ProcessResponses *)
  (* the state after the response board *)
  Definition rs3 (c : cfg q) (B : boards q) : st q :=
    evict_silent q c (fold_left (resp_step q c) (bR B) (reset_resp_locals q (st2 q c B))).
  Definition rrec (c : cfg q) (B : boards q) (d : Z) : dstate q :=
    fold_left (bstep (c_nidx c) d) (bR B) (drec q nodes fast c (bD B) d).
  Definition fin (s : st q) : bool := negb (s_found s) && complete_success q s.
  (* the state with which the justification phase starts *)
  Definition rs4 (c : cfg q) (B : boards q) : st q := set_phase q 3 (evict_complained q c (rs3 c B)).

  Lemma reset_hev s h : holder_evicted q (reset_resp_locals q s) h = holder_evicted q s h.
  Proof.
    unfold holder_evicted, reset_resp_locals, set_found, on_h. cbn [s_h].
    rewrite (look_mapv (fun e : Z * hstate => mkh (h_ev (snd e)) false) (s_h s) h). destruct (look h (s_h s)); reflexivity.
  Qed.

  Lemma rs3_spec i c B : fresh i c ->
    (forall d, In d K -> look d (s_d (rs3 c B)) = Some (rrec c B d)) /\
    map fst (s_d (rs3 c B)) = K /\ map fst (s_h (rs3 c B)) = K /\
    (forall h, holder_evicted q (rs3 c B) h = hevR i (bR B) h) /\
    s_found (rs3 c B) = foundR i (bR B).
  Proof.
    intros FC.
    assert (HK : map fst (s_h (reset_resp_locals q (st2 q c B))) = K).
    { unfold reset_resp_locals, set_found, on_h. cbn [s_h]. rewrite map_map. cbn [fst].
      rewrite (st2_h q nodes thr fast i c B FC), map_map. reflexivity. }
    destruct (fold_resp_step i c (bR B) FC _ HK) as (A1 & A2 & A3 & A4 & A5 & A6 & A7). cbn zeta in *.
    set (s' := fold_left (resp_step q c) (bR B) (reset_resp_locals q (st2 q c B))) in *.
    assert (H0 : forall h, holder_evicted q (reset_resp_locals q (st2 q c B)) h = false /\ hauth (reset_resp_locals q (st2 q c B)) h = false).
    { intros h. split.
      - rewrite reset_hev. unfold holder_evicted. rewrite (st2_h q nodes thr fast i c B FC).
        rewrite (look_mapv (fun _ : Z * Z => mkh false false) nodes h). destruct (look h nodes); reflexivity.
      - unfold hauth, reset_resp_locals, set_found, on_h. cbn [s_h].
        rewrite (look_mapv (fun e : Z * hstate => mkh (h_ev (snd e)) false) _ h). destruct (look h _); reflexivity. }
    assert (G : forall e : Z * hstate,
              fst (if c_can_receive c && (c_nidx c =? fst e) then e
                   else if h_auth (snd e) || h_ev (snd e) then e else (fst e, set_hev (snd e))) = fst e).
    { intros e. destruct (c_can_receive c && (c_nidx c =? fst e)); [reflexivity|]. destruct (h_auth (snd e) || h_ev (snd e)); reflexivity. }
    assert (SD : s_d (rs3 c B) = s_d s' /\ s_found (rs3 c B) = s_found s').
    { unfold rs3, evict_silent. fold s'. destruct (c_fast c); split; reflexivity. }
    destruct SD as (SD & SF). repeat split.
    - intros d IK. rewrite SD, A1. unfold reset_resp_locals, set_found, on_h. cbn [s_d].
      rewrite (st2_look q nodes thr fast i c B d FC IK). unfold rrec. rewrite (fc_nidx _ _ _ _ _ _ FC). reflexivity.
    - rewrite SD, A2. unfold reset_resp_locals, set_found, on_h. cbn [s_d]. apply (st2_keys q nodes thr fast i c B FC).
    - unfold rs3, evict_silent. fold s'. destruct (c_fast c); [|exact A3]. unfold on_h. cbn [s_h].
      rewrite (map_keep_keys' _ _ G). exact A3.
    - intros h. destruct (H0 h) as (Z1 & Z2). pose proof (A4 h) as E4. pose proof (A7 h) as E7. rewrite Z1 in E4. rewrite Z2 in E7. cbn [orb] in E4, E7.
      unfold hevR. unfold rs3, evict_silent. fold s'. rewrite (fc_fast _ _ _ _ _ _ FC).
      destruct (bool_dec fast false) as [FS|FS]; [rewrite FS; cbn [andb]; rewrite orb_false_r; exact E4|].
      apply not_false_is_true in FS. rewrite FS. cbn [andb].
      unfold holder_evicted, on_h. cbn [s_h]. rewrite (look_map_keep' _ _ h G).
      unfold holder_evicted in E4. unfold hauth in E7.
      rewrite (fc_recv _ _ _ _ _ _ FC), (fc_nidx _ _ _ _ _ _ FC). cbn [andb fst snd].
      destruct (look h (s_h s')) as [x|] eqn:L.
      + assert (INC : included nodes h = true).
        { apply included_in. rewrite <- A3. apply look_some_in in L. apply (in_map fst) in L. exact L. }
        rewrite INC, <- E4, <- E7, (Z.eqb_sym h i). destruct (i =? h); cbn [negb andb snd]; [rewrite orb_false_r; reflexivity|].
        destruct (h_auth x) eqn:HA; destruct (h_ev x) eqn:HE; cbn [orb negb snd set_hev h_ev]; rewrite ?HE; reflexivity.
      + assert (INC : included nodes h = false).
        { apply not_true_iff_false. intros X. apply included_in in X. rewrite <- A3 in X. apply look_in in X. destruct X as [x X]. congruence. }
        rewrite INC, <- E4, andb_false_r. reflexivity.
    - rewrite SF, A5. reflexivity.
  Qed.

  Lemma rs3_nil i c B : fresh i c -> fast = false -> bR B = [] -> rs3 c B = reset_resp_locals q (st2 q c B).
  Proof. intros FC FS ER. unfold rs3, evict_silent. rewrite (fc_fast _ _ _ _ _ _ FC), FS, ER. reflexivity. Qed.

  Lemma wec_res (c : cfg q) o : ro_res (with_evict_check q c o) = ro_res o.
  Proof. unfold with_evict_check. destruct (ro_err o); try reflexivity. destruct (check_evicted q c (ro_st o) true); reflexivity. Qed.
  Lemma wec_st (c : cfg q) o : ro_st (with_evict_check q c o) = ro_st o.
  Proof. unfold with_evict_check. destruct (ro_err o); try reflexivity. destruct (check_evicted q c (ro_st o) true); reflexivity. Qed.
  Lemma wec_just (c : cfg q) o : ro_just (with_evict_check q c o) = ro_just o.
  Proof. unfold with_evict_check. destruct (ro_err o); try reflexivity. destruct (check_evicted q c (ro_st o) true); reflexivity. Qed.
  Lemma wec_err (c : cfg q) o :
    ro_err (with_evict_check q c o) = ENone <-> ro_err o = ENone /\ check_evicted q c (ro_st o) true = false.
  Proof.
    unfold with_evict_check. destruct (ro_err o) eqn:E.
    - destruct (check_evicted q c (ro_st o) true) eqn:CE; cbn [ro_err].
      + split; [discriminate|intros [_ X]; discriminate].
      + rewrite E. split; auto.
    - rewrite E. split; [discriminate|intros [X _]; discriminate].
    - rewrite E. split; [discriminate|intros [X _]; discriminate].
    - rewrite E. split; [discriminate|intros [X _]; discriminate].
  Qed.

  Lemma dkg_result_ext (c : cfg q) s s' :
    s_d s = s_d s' -> (forall k, holder_evicted q s k = holder_evicted q s' k) ->
    compute_dkg_result q c s = compute_dkg_result q c s'.
  Proof.
    intros E H. unfold compute_dkg_result. rewrite <- E.
    replace (fold_left (dkg_fold q s') (s_d s) (Some ([], None, zzero)))
      with (fold_left (dkg_fold q s) (s_d s) (Some ([], None, zzero))); [reflexivity|].
    apply fold_left_ext_in. intros acc e _. unfold dkg_fold. rewrite H. reflexivity.
  Qed.

  (* result of computeResult on a state, fresh DKG *)
  Definition final (s : st q) : st q := mark_evicted q (set_phase q 4 s).

  Lemma result_out_eq i c s : fresh i c ->
    result_out q c s = match compute_dkg_result q c (final s) with
                       | Some r => mkro q (final s) ENone (Some r) None
                       | None => mkro q (final s) EOther None None
                       end.
  Proof.
    intros FC. unfold result_out, compute_result. rewrite (fc_reshare _ _ _ _ _ _ FC). fold (final s).
    destruct (compute_dkg_result q c (final s)); reflexivity.
  Qed.

  Lemma rout_eq i c B : fresh i c ->
    rout q c B = with_evict_check q c (
      if negb fast && (match bR B with [] => true | _ => false end) && complete_success q (st2 q c B)
      then result_out q c (st2 q c B)
      else if fin (rs3 c B) then result_out q c (rs3 c B)
      else match my_justifs q c (rs4 c B) with
           | [] => mkro q (rs4 c B) ENone None None
           | _ :: _ => mkro q (clear_own_complaints q c (rs4 c B)) ENone None
                            (Some (mkjb (c_oidx c) (my_justifs q c (rs4 c B)) true))
           end).
  Proof.
    intros FC. unfold rout, process_responses. rewrite (fc_recv _ _ _ _ _ _ FC), (fc_fast _ _ _ _ _ _ FC), (fc_issue _ _ _ _ _ _ FC).
    rewrite (st2_phase q nodes thr fast i c B FC). cbn [negb Z.eqb andb Pos.eqb].
    rewrite andb_true_r.
    fold (rs3 c B). fold (fin (rs3 c B)). fold (rs4 c B).
    destruct (my_justifs q c (rs4 c B)); reflexivity.
  Qed.

  Lemma shortcut_inv (B : boards q) (cs : bool) :
    negb fast && (match bR B with [] => true | _ => false end) && cs = true -> fast = false /\ bR B = [] /\ cs = true.
  Proof.
    intros SC. apply andb_true_iff in SC. destruct SC as [SC CS]. apply andb_true_iff in SC. destruct SC as [FS RN].
    apply negb_true_iff in FS. destruct (bR B); [auto|discriminate].
  Qed.

  Lemma shortcut_result i c B : fresh i c -> fast = false -> bR B = [] ->
    compute_dkg_result q c (final (st2 q c B)) = compute_dkg_result q c (final (rs3 c B)).
  Proof.
    intros FC FS ER. rewrite (rs3_nil i c B FC FS ER). apply dkg_result_ext; [reflexivity|].
    intros k. unfold final, mark_evicted, on_d, set_phase, holder_evicted. cbn [s_h].
    fold (holder_evicted q (st2 q c B) k). fold (holder_evicted q (reset_resp_locals q (st2 q c B)) k).
    rewrite reset_hev. reflexivity.
  Qed.

  Lemma shortcut_fin i c B : fresh i c -> fast = false -> bR B = [] ->
    fin (rs3 c B) = complete_success q (st2 q c B).
  Proof. intros FC FS ER. rewrite (rs3_nil i c B FC FS ER). reflexivity. Qed.

  (* the node returned a result from ProcessResponses *)
  Theorem rout_result i c B r : fresh i c -> ro_res (rout q c B) = Some r ->
    fin (rs3 c B) = true /\ compute_dkg_result q c (final (rs3 c B)) = Some r.
  Proof.
    intros FC. rewrite (rout_eq i c B FC), wec_res.
    destruct (negb fast && (match bR B with [] => true | _ => false end) && complete_success q (st2 q c B)) eqn:SC.
    - destruct (shortcut_inv B _ SC) as (FS & ER & CS).
      rewrite (result_out_eq i c _ FC), (shortcut_result i c B FC FS ER).
      destruct (compute_dkg_result q c (final (rs3 c B))) eqn:CR; cbn [ro_res]; [|discriminate].
      intros H. injection H as <-. split; [|reflexivity]. rewrite (shortcut_fin i c B FC FS ER). exact CS.
    - destruct (fin (rs3 c B)) eqn:FN.
      + rewrite (result_out_eq i c _ FC). destruct (compute_dkg_result q c (final (rs3 c B))); cbn [ro_res]; [|discriminate].
        intros H. inversion H; subst. auto.
      + destruct (my_justifs q c (rs4 c B)); cbn [ro_res]; discriminate.
  Qed.

  (* the node returned neither an error nor a result: it is in the justification phase *)
  Theorem rout_continue i c B : fresh i c -> ro_err (rout q c B) = ENone -> ro_res (rout q c B) = None ->
    fin (rs3 c B) = false /\
    ro_st (rout q c B) = (match my_justifs q c (rs4 c B) with [] => rs4 c B | _ :: _ => clear_own_complaints q c (rs4 c B) end) /\
    ro_just (rout q c B) = (match my_justifs q c (rs4 c B) with [] => None
                            | _ :: _ => Some (mkjb i (my_justifs q c (rs4 c B)) true) end) /\
    check_evicted q c (ro_st (rout q c B)) true = false.
  Proof.
    intros FC. rewrite (rout_eq i c B FC), wec_res, wec_st, wec_just, wec_err.
    destruct (negb fast && (match bR B with [] => true | _ => false end) && complete_success q (st2 q c B)) eqn:SC.
    - rewrite (result_out_eq i c _ FC). destruct (compute_dkg_result q c (final (st2 q c B))); cbn [ro_res ro_err]; intros [X _] Y; discriminate.
    - destruct (fin (rs3 c B)) eqn:FN.
      + rewrite (result_out_eq i c _ FC). destruct (compute_dkg_result q c (final (rs3 c B))); cbn [ro_res ro_err]; intros [X _] Y; discriminate.
      + rewrite (fc_oidx _ _ _ _ _ _ FC). destruct (my_justifs q c (rs4 c B)); cbn [ro_res ro_err ro_st ro_just]; intros [_ X] _; auto.
  Qed.

  (* conversely: an unfinished matrix and a node that is not evicted itself *)
  Theorem rout_continues i c B : fresh i c -> fin (rs3 c B) = false ->
    check_evicted q c (match my_justifs q c (rs4 c B) with [] => rs4 c B | _ :: _ => clear_own_complaints q c (rs4 c B) end) true = false ->
    ro_err (rout q c B) = ENone /\ ro_res (rout q c B) = None.
  Proof.
    intros FC FN CE. rewrite (rout_eq i c B FC), wec_res, wec_err.
    destruct (negb fast && (match bR B with [] => true | _ => false end) && complete_success q (st2 q c B)) eqn:SC.
    - exfalso. destruct (shortcut_inv B _ SC) as (FS & ER & CS). rewrite (shortcut_fin i c B FC FS ER) in FN. congruence.
    - rewrite FN. destruct (my_justifs q c (rs4 c B)); cbn [ro_res ro_err ro_st]; auto.
  Qed.

  (* conversely: a finished, consistent matrix gives a result *)
  Theorem rout_finishes i c B r : fresh i c -> fin (rs3 c B) = true ->
    compute_dkg_result q c (final (rs3 c B)) = Some r ->
    check_evicted q c (final (rs3 c B)) true = false ->
    ro_err (rout q c B) = ENone /\ ro_res (rout q c B) = Some r.
  Proof.
    intros FC FN CR CE. rewrite (rout_eq i c B FC), wec_res, wec_err.
    destruct (negb fast && (match bR B with [] => true | _ => false end) && complete_success q (st2 q c B)) eqn:SC.
    - destruct (shortcut_inv B _ SC) as (FS & ER & CS).
      rewrite (result_out_eq i c _ FC), (shortcut_result i c B FC FS ER), CR. cbn [ro_err ro_res ro_st]. repeat split.
      rewrite (rs3_nil i c B FC FS ER) in CE.
      unfold check_evicted in *. rewrite (fc_reshare _ _ _ _ _ _ FC) in *. cbn [andb] in *. exact CE.
    - rewrite FN, (result_out_eq i c _ FC), CR. cbn [ro_err ro_res ro_st]. auto.
  Qed.
End Resp.
