(* DKG agreement, part 6: who is in QUAL, and liveness.
   - an honest dealer that received fewer than Threshold complaints is in the
     QUAL of every honest node that completes;
   - a dealer in QUAL has served every honest node that completes with a valid
     share, in its deal bundle or in its justification bundle (so a dealer
     whose invalid deal to an honest node stays unjustified is disqualified);
   - when every participant is honest, every participant completes in the
     response phase with QUAL = all participants. *)
From Coq Require Import ZArith List Bool Lia Permutation.
From Kyber Require Import Algebra.Zq Algebra.Grp DKG.PedersenDKG DKG.PedersenProofs
  DKG.Agreement DKG.AgreementDeal DKG.AgreementResp DKG.AgreementJust DKG.AgreementProofs DKG.AgreementResult.
Import ListNotations.
Local Open Scope Z_scope.

Lemma filter_all {A} (f : A -> bool) (l : list A) : (forall a, In a l -> f a = true) -> filter f l = l.
Proof.
  induction l as [|a l IH]; intros H; [reflexivity|]. cbn. rewrite H by (left; reflexivity).
  f_equal. apply IH. intros a' I. apply H. right. exact I.
Qed.

Lemma flat_map_nil {A B} (f : A -> list B) (l : list A) : (forall a, In a l -> f a = []) -> flat_map f l = [].
Proof.
  induction l as [|a l IH]; intros H; [reflexivity|]. cbn. rewrite H by (left; reflexivity).
  apply IH. intros a' I. apply H. right. exact I.
Qed.

Section Qual.
  Variable q : Z.
  Notation F := (zq q).
  Variable nodes : list (Z * Z).
  Variable thr : Z.
  Variable fast : bool.               (* Config.FastSync *)
  Notation K := (map fst nodes).
  Notation fresh := (fresh_cfg q nodes thr fast).
  Notation honest := (honest q nodes thr fast).

  Lemma all_true_clear1 row : all_true (clear1 row) = true.
  Proof.
    unfold all_true, clear1. rewrite forallb_forall. intros e I. apply in_map_iff in I. destruct I as ([k v] & <- & _).
    cbn [snd]. destruct (v =? 1) eqn:E; cbn [snd]; [reflexivity|]. rewrite E. reflexivity.
  Qed.

  (* an honest dealer is not evicted in the deal phase *)
  Lemma honest_dealer_not_evicted B i ci d cd : boards_ok q B -> honest B i ci -> honest B d cd ->
    d_ev (drec q nodes fast ci (bD B) d) = false.
  Proof.
    intros OK Hi Hd. pose proof (h_cfg _ _ _ _ _ _ _ Hd) as Fd.
    pose proof (drec_ok_of q nodes thr fast B i ci d OK Hi (fc_in _ _ _ _ _ _ Fd)) as DK.
    rewrite (dk_ev _ _ _ _ _ _ _ _ DK). destruct OK as (NDD & _).
    pose proof (bundle_of_in q (bD B) _ NDD (h_deal _ _ _ _ _ _ _ Hd)) as BO.
    rewrite (dbun_dealer q nodes thr fast d cd Fd) in BO. rewrite BO. apply (dbun_not_bad q nodes thr fast d cd Fd).
  Qed.

  Lemma honest_hev B i ci d cd : boards_ok q B -> honest B i ci -> honest B d cd -> hevR nodes fast i (bR B) d = false.
  Proof.
    intros OK Hi Hd. destruct (Z.eq_dec d i) as [->|N]; [apply hevR_own|].
    apply (honest_holder_not_evicted q nodes thr fast B i d cd OK Hd).
  Qed.

  (* ---------------------------------------------------------------- honest dealer stays *)
  (* [complaints (d_row (rrec ci B d))]: the number of complaints against dealer
     [d] in the status matrix of node [i] after the response board was read
     (the same number at every honest node, by views_agree_after_responses) *)
  Theorem honest_dealer_stays B i ci d cd r :
    boards_ok q B -> honest B i ci -> honest B d cd -> output q ci B r ->
    complaints (d_row (rrec q nodes fast ci B d)) < thr ->
    In d (res_qual r).
  Proof.
    intros OK Hi Hd O LT.
    pose proof (h_cfg _ _ _ _ _ _ _ Hi) as Fi. pose proof (h_cfg _ _ _ _ _ _ _ Hd) as Fd.
    assert (IK : In d K) by apply (fc_in _ _ _ _ _ _ Fd).
    destruct (output_qual q nodes thr fast B i ci r d OK Hi O IK) as (x & KX & IFF & CASES).
    apply IFF. clear IFF.
    pose proof (honest_dealer_not_evicted B i ci d cd OK Hi Hd) as EVD.
    pose proof (honest_hev B i ci d cd OK Hi Hd) as HEV.
    destruct (rrec_fields q nodes thr fast B i ci d OK Hi IK) as (A1 & _).
    destruct CASES as [[(E0 & R) ->]|[(E1 & E2 & _ & R) ->]].
    - (* response phase: the matrix is complete *)
      split; [rewrite A1; exact EVD|]. split; [|exact HEV].
      destruct (rout_result q nodes thr fast i ci B r Fi R) as (FN & _).
      unfold fin in FN. apply andb_true_iff in FN. destruct FN as [_ CS].
      rewrite (cs_rs3 q nodes thr fast B i ci OK Hi), forallb_forall in CS. specialize (CS d IK).
      rewrite A1, EVD in CS. exact CS.
    - (* justification phase: the dealer answers the complaints of its row *)
      destruct (rout_continue q nodes thr fast i ci B Fi E1 E2) as (FNi & _).
      destruct OK as (NDD & NDR & NDJ). assert (OK : boards_ok q B) by (split; [|split]; assumption).
      assert (OWN : forall c0 B0, d_ev (x5 q nodes thr fast c0 B0 d) = d_ev (x4 q nodes thr fast c0 B0 d) /\
                                  (c_nidx c0 = d -> all_true (d_row (x5 q nodes thr fast c0 B0 d)) = true)).
      { intros c0 B0. destruct (x5_fields q nodes thr fast c0 B0 d) as (_ & _ & Q3 & _ & Q5). split; [exact Q3|].
        intros E. rewrite Q5, E, Z.eqb_refl. apply all_true_clear1. }
      destruct (Z.eq_dec d i) as [->|N].
      + rewrite (x6_own q nodes thr fast B i ci Fi NDJ). destruct (OWN ci B) as (O1 & O2).
        destruct (s6_spec q nodes thr fast i ci B Fi E1 E2) as (_ & _ & _ & _ & EV & _).
        split; [rewrite O1; exact EV|]. split; [apply O2, (fc_nidx _ _ _ _ _ _ Fi)|exact HEV].
      + (* the dealer itself goes to the justification phase, not evicted *)
        assert (FNd : fin q (rs3 q cd B) = false).
        { destruct (fin q (rs3 q cd B)) eqn:X; [|reflexivity].
          rewrite (finish_agree q nodes thr fast B d cd i ci OK Hd Hi N X) in FNi. discriminate. }
        destruct (views_agree_after_responses q nodes thr fast B i ci d cd d OK Hi Hd (not_eq_sym N) IK) as (V1 & _ & _ & V4).
        rewrite A1, EVD in V1, V4. specialize (V4 eq_refl).
        assert (EV4 : d_ev (x4 q nodes thr fast cd B d) = false).
        { destruct (x4_fields q nodes thr fast cd B d) as (_ & _ & _ & _ & P5). rewrite P5, <- V1, <- V4. cbn [orb].
          rewrite Z.geb_leb. apply Z.leb_gt. exact LT. }
        destruct (rout_continues q nodes thr fast d cd B Fd FNd) as (D1 & D2).
        { rewrite (ce_x4 q nodes thr fast d cd B Fd). exact EV4. }
        pose proof (x6_honest_dealer q nodes thr fast B d cd i ci OK Hd Hi N D1 D2) as P3.
        rewrite (x6_own q nodes thr fast B d cd Fd NDJ) in P3. unfold pub3 in P3.
        pose proof (f_equal (fun t : bool * option (list F) * list (Z * Z) => fst (fst t)) P3) as P3a.
        pose proof (f_equal (fun t : bool * option (list F) * list (Z * Z) => snd t) P3) as P3c.
        cbn [fst snd] in P3a, P3c.
        destruct (OWN cd B) as (O1 & O2).
        split; [rewrite P3a, O1; exact EV4|]. split; [rewrite P3c; apply O2, (fc_nidx _ _ _ _ _ _ Fd)|exact HEV].
  Qed.

  (* ---------------------------------------------------------------- a qualified dealer served every honest node *)
  Theorem qualified_dealer_served B i c r d :
    boards_ok q B -> honest B i c -> output q c B r -> In d (res_qual r) -> d <> i ->
    cell (d_row (drec q nodes fast c (bD B) d)) i = 0 \/
    exists b j pub, In b (bJ B) /\ jb_dealer b = d /\ In j (jb_justifs b) /\ j_idx j = i /\
                    pub_of q thr (bD B) d = Some pub /\ commit q (j_share j) = peval q pub (xof q i).
  Proof.
    intros OK H O IQ N. pose proof (h_cfg _ _ _ _ _ _ _ H) as FC.
    assert (IKi : In i K) by apply (fc_in _ _ _ _ _ _ FC).
    destruct (output_share_and_key q nodes thr fast B i c r OK H O) as (_ & _ & _ & _ & QK).
    pose proof (QK d IQ) as IK.
    destruct (output_qual q nodes thr fast B i c r d OK H O IK) as (x & KX & IFF & CASES).
    apply IFF in IQ. destruct IQ as (EVX & AT & _).
    assert (NDx : NoDup (map fst (d_row x))) by (rewrite KX; apply (fc_ndi _ _ _ _ _ _ FC)).
    pose proof (proj1 (all_true_cells _ NDx) AT i) as C1. rewrite KX in C1. specialize (C1 IKi).
    pose proof (drec_ok_of q nodes thr fast B i c d OK H IK) as DK.
    pose proof (rrec_own_cell q nodes thr fast B i c d OK H IK) as OWN.
    destruct CASES as [[_ ->]|[_ ->]].
    - rewrite OWN in C1. destruct (dk_own _ _ _ _ _ _ _ _ DK) as [X|X]; [left; exact X|contradiction].
    - destruct (x4_fields q nodes thr fast c B d) as (P1 & _ & P3 & _).
      destruct (x5_fields q nodes thr fast c B d) as (Q1 & _ & _ & Q4 & Q5).
      rewrite (fc_nidx _ _ _ _ _ _ FC) in Q5. destruct (d =? i) eqn:E; [apply Z.eqb_eq in E; contradiction|].
      assert (C5 : cell (d_row (x5 q nodes thr fast c B d)) i = cell (d_row (drec q nodes fast c (bD B) d)) i) by (rewrite Q5, P3; exact OWN).
      assert (ZERO : cell (d_row (x5 q nodes thr fast c B d)) i <> 1 -> cell (d_row (drec q nodes fast c (bD B) d)) i = 0).
      { rewrite C5. intros X. destruct (dk_own _ _ _ _ _ _ _ _ DK) as [Y|Y]; [exact Y|contradiction]. }
      destruct (rrec_fields q nodes thr fast B i c d OK H IK) as (_ & A2 & _).
      pose proof (x5_keys q nodes thr fast B i c d OK H IK) as K5.
      destruct OK as (_ & _ & NDJ).
      destruct (x6_cases q nodes thr fast c B d NDJ) as [(b & IB & EB & Y)|[_ Y]]; rewrite Y in C1; [|left; apply ZERO; exact C1].
      rewrite (just_step_other q nodes thr fast i c b _ FC) in C1 by (try rewrite EB; auto).
      destruct (d_ev (x5 q nodes thr fast c B d)); [left; apply ZERO; exact C1|].
      destruct (negb (jb_sid b)); [left; apply ZERO; exact C1|].
      destruct (just_loop_own_cell q nodes thr fast i c (jb_dealer b) (jb_justifs b) FC (set_seen q true (x5 q nodes thr fast c B d)))
        as [X|(_ & j & pub & IJ & EJ & DP & CK)].
      + cbn [set_seen d_row]. rewrite K5. exact IKi.
      + left. apply ZERO. cbn [set_seen d_row] in X. rewrite <- X. exact C1.
      + right. exists b, j, pub. cbn [set_seen d_pub] in DP. rewrite Q1, P1, A2 in DP. auto 10.
  Qed.

  (* contrapositive, in the words of the property: the dealer sent node [i] no
     valid deal and no valid justification - it is not in the QUAL of [i] *)
  Corollary unjustified_dealer_disqualified B i c r d b :
    boards_ok q B -> honest B i c -> output q c B r -> d <> i -> In d K ->
    bundle_of q (bD B) d = Some b ->
    (forall dl sh, In dl (db_deals b) -> dl_idx dl = i -> dl_share dl = Some sh ->
                   commit q sh <> peval q (db_pub b) (xof q i)) ->
    (forall jb j, In jb (bJ B) -> jb_dealer jb = d -> In j (jb_justifs jb) -> j_idx j = i ->
                  commit q (j_share j) <> peval q (db_pub b) (xof q i)) ->
    ~ In d (res_qual r).
  Proof.
    intros OK H O N IK BO BAD NOJ IQ. pose proof (h_cfg _ _ _ _ _ _ _ H) as FC.
    destruct (qualified_dealer_served B i c r d OK H O IQ N) as [X|(jb & j & pub & I1 & I2 & I3 & I4 & PO & CK)].
    - destruct OK as (NDD & _). rewrite (drec_invalid_deal q nodes thr fast i c (bD B) d b FC NDD N IK BO BAD) in X. discriminate.
    - apply (NOJ jb j I1 I2 I3 I4). unfold pub_of in PO. rewrite BO in PO.
      destruct (accepted q thr b); [|discriminate]. inversion PO; subst. exact CK.
  Qed.

  (* ---------------------------------------------------------------- everybody honest *)
  (* regular and fast-sync mode alike: nobody complains (in fast-sync mode
     everybody reports success about everybody), the matrix is complete, the
     protocol ends in the response phase *)
  Theorem all_honest_complete B (cf : Z -> cfg q) :
    boards_ok q B -> (forall d, In d K -> honest B d (cf d)) ->
    forall i, In i K -> exists r, out_resp q (cf i) B r /\ res_qual r = K.
  Proof.
    intros OK ALL i IKi. set (c := cf i). pose proof (ALL i IKi) as H. fold c in H.
    pose proof (h_cfg _ _ _ _ _ _ _ H) as FC. pose proof (fc_ndi _ _ _ _ _ _ FC) as ND.
    destruct OK as (NDD & NDR & NDJ). assert (OK : boards_ok q B) by (split; [|split]; assumption).
    (* after the deals: every node holds a valid share of every dealer *)
    assert (OWNC : forall h d, In h K -> In d K -> cell (d_row (drec q nodes fast (cf h) (bD B) d)) h = 0).
    { intros h d Ih Id. pose proof (ALL h Ih) as Hh. pose proof (h_cfg _ _ _ _ _ _ _ Hh) as Fh.
      destruct (Z.eq_dec d h) as [->|N].
      - rewrite (drec_own_cells q nodes thr fast h (cf h) (bD B) h Fh Ih), Z.eqb_refl, andb_false_r. reflexivity.
      - pose proof (ALL d Id) as Hd.
        apply (drec_honest_dealer q nodes thr fast h (cf h) (bD B) d (cf d) Fh NDD (h_cfg _ _ _ _ _ _ _ Hd) (h_deal _ _ _ _ _ _ _ Hd) N). }
    (* what everybody reports: nothing (regular mode) / success (fast-sync) *)
    assert (REP : forall h d, In h K -> In d K -> report q nodes fast (cf h) (bD B) d = if fast then Some 0 else None).
    { intros h d Ih Id. pose proof (ALL h Ih) as Hh. unfold report.
      rewrite (honest_dealer_not_evicted B h (cf h) d (cf d) OK Hh (ALL d Id)), (fc_nidx _ _ _ _ _ _ (h_cfg _ _ _ _ _ _ _ Hh)), (OWNC h d Ih Id).
      reflexivity. }
    (* the matrix after the responses *)
    assert (ROW : forall d, In d K -> d_ev (rrec q nodes fast c B d) = false /\
                 all_true (d_row (rrec q nodes fast c B d)) = true).
    { intros d Id. destruct (rrec_fields q nodes thr fast B i c d OK H Id) as (A1 & _ & _ & A4 & A5).
      split; [rewrite A1; apply (honest_dealer_not_evicted B i c d (cf d) OK H (ALL d Id))|].
      apply all_true_cells; [rewrite A4; exact ND|]. rewrite A4. intros h Ih. rewrite (A5 h Ih).
      destruct (Z.eq_dec h i) as [->|N].
      - rewrite cstep_own. unfold c. rewrite (OWNC i d IKi Id). discriminate.
      - rewrite (honest_column q nodes thr fast B i h (cf h) d _ OK (ALL h Ih) N Id), (REP h d Ih Id).
        pose proof (drec_ok_of q nodes thr fast B i c d OK H Id) as DK. rewrite (dk_others _ _ _ _ _ _ _ _ DK h Ih N).
        destruct (bool_dec fast false) as [FS|FS]; [|apply not_false_is_true in FS]; rewrite FS; discriminate. }
    assert (HEV : forall h, In h K -> hevR nodes fast i (bR B) h = false).
    { intros h Ih. apply (honest_hev B i c h (cf h) OK H (ALL h Ih)). }
    assert (FND : foundR nodes fast i (bR B) = false).
    { unfold foundR. apply not_true_iff_false. intros X. apply existsb_exists in X. destruct X as (b & IB & X).
      apply andb_true_iff in X. destruct X as [PR EX]. unfold proc in PR.
      apply andb_true_iff in PR. destruct PR as [PR _]. apply andb_true_iff in PR. destruct PR as [_ INC]. apply included_in in INC.
      pose proof (ALL _ INC) as Hh. pose proof (h_cfg _ _ _ _ _ _ _ Hh) as Fh. pose proof (h_resp _ _ _ _ _ _ _ Hh) as HR.
      rewrite (rbun_eq q nodes thr fast _ _ B Fh) in HR.
      destruct (complaints_of q nodes fast (cf (rb_holder b)) (bD B)) as [|r0 rs] eqn:CE.
      { apply HR. apply in_map. exact IB. }
      assert (b = mkrb (rb_holder b) (r0 :: rs) true) by (apply (nodup_key_inj rb_holder (bR B) _ _ NDR IB HR); reflexivity).
      rewrite H0 in EX. cbn [rb_resps] in EX. apply existsb_exists in EX. destruct EX as (r & IR & ER).
      apply andb_true_iff in ER. destruct ER as [_ ER]. apply Z.eqb_eq in ER.
      rewrite <- CE in IR. apply complaints_in in IR. destruct IR as (d & Id & _ & RP).
      rewrite (REP (rb_holder b) d INC Id), ER in RP.
      destruct (bool_dec fast false) as [FS|FS]; [|apply not_false_is_true in FS]; rewrite FS in RP; discriminate. }
    destruct (rs3_spec q nodes thr fast i c B FC) as (A1 & A2 & _ & A4 & A5).
    assert (FN : fin q (rs3 q c B) = true).
    { unfold fin. rewrite A5, FND, (cs_rs3 q nodes thr fast B i c OK H). cbn [negb andb].
      apply forallb_forall. intros d Id. destruct (ROW d Id) as (R1 & R2). rewrite R1, R2. reflexivity. }
    (* the result *)
    assert (REC : forall e, In e (s_d (final q (rs3 q c B))) -> In (fst e) K /\ snd e = rrec q nodes fast c B (fst e)).
    { intros e I. destruct (final_in q nodes (rs3 q c B) (rrec q nodes fast c B) e ND A2 A1 I) as (Ie & E).
      split; [exact Ie|]. rewrite E. destruct (ROW (fst e) Ie) as (R1 & _). rewrite R1. reflexivity. }
    assert (QUALD : forall e, In e (s_d (final q (rs3 q c B))) -> qualified q (final q (rs3 q c B)) e = true).
    { intros e I. destruct (REC e I) as (Ie & E). unfold qualified. rewrite E.
      destruct (ROW (fst e) Ie) as (_ & R2). rewrite R2, final_hev, A4, (HEV _ Ie). reflexivity. }
    destruct (dkg_fold_total q (final q (rs3 q c B)) (Z.to_nat thr) (s_d (final q (rs3 q c B))) [] None zzero)
      as (ql & pub & sh & E & P).
    { intros e I _. destruct (REC e I) as (Ie & EE). rewrite EE.
      pose proof (drec_ok_of q nodes thr fast B i c (fst e) OK H Ie) as DK.
      destruct (rrec_fields q nodes thr fast B i c (fst e) OK H Ie) as (_ & X2 & X3 & _).
      destruct (dk_share _ _ _ _ _ _ _ _ DK (OWNC i (fst e) IKi Ie)) as (v & p & DS & DP & LP).
      exists v, p. rewrite X3, X2, <- (dk_pub _ _ _ _ _ _ _ _ DK). repeat split; auto. lia. }
    { discriminate. }
    assert (IN_I : exists e, In e (s_d (final q (rs3 q c B))) /\ fst e = i).
    { assert (X : In i (map fst (s_d (final q (rs3 q c B))))) by (rewrite final_keys, A2; exact IKi).
      apply in_map_iff in X. destruct X as (e & E1 & I1). exists e. auto. }
    destruct IN_I as (ei & Iei & Eei).
    destruct pub as [p|]; [|exfalso; apply P; [right; exists ei; split; [exact Iei|apply QUALD; exact Iei]|reflexivity]].
    set (r := mkres ql p (c_nidx c) sh).
    assert (CR : compute_dkg_result q c (final q (rs3 q c B)) = Some r) by (unfold compute_dkg_result; rewrite E; reflexivity).
    exists r. split.
    - apply (rout_finishes q nodes thr fast i c B r FC FN CR).
      unfold check_evicted. rewrite (fc_reshare _ _ _ _ _ _ FC), (fc_issue _ _ _ _ _ _ FC), (fc_oidx _ _ _ _ _ _ FC). cbn [andb negb].
      rewrite (final_look q (rs3 q c B) i _ (A1 i IKi)). destruct (ROW i IKi) as (R1 & _). rewrite R1. exact R1.
    - destruct (dkg_result_spec q c _ r CR) as (Q & _). rewrite Q, (filter_all _ _ QUALD), final_keys. exact A2.
  Qed.
End Qual.
