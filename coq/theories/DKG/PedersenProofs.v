(* Theorems about the Pedersen DKG model (DKG/PedersenDKG.v). *)
From Coq Require Import ZArith List Bool Lia Permutation Znumtheory Ring Field.
From Kyber Require Import Algebra.Zq Algebra.Grp DKG.PedersenDKG.
Import ListNotations.
Local Open Scope Z_scope.

(* ------------------------------------------------------------------ *)
(* generic: folds of pairwise commuting steps                          *)

Lemma fold_left_perm {A S} (f : S -> A -> S) (key : A -> Z) :
  (forall s a b, key a <> key b -> f (f s a) b = f (f s b) a) ->
  forall l l', Permutation l l' -> NoDup (map key l) -> forall s, fold_left f l s = fold_left f l' s.
Proof.
  intros C l l' P. induction P; intros ND s.
  - reflexivity.
  - cbn. apply IHP. inversion ND; assumption.
  - cbn. f_equal. apply C. inversion ND as [|? ? N1 N2]; subst. intros E. apply N1. left. symmetry. exact E.
  - rewrite IHP1 by assumption. apply IHP2.
    eapply Permutation_NoDup; [apply Permutation_map; exact P1|exact ND].
Qed.

Lemma fold_commute {S A B} (f : S -> A -> S) (g : S -> B -> S) :
  (forall s a b, g (f s a) b = f (g s b) a) ->
  forall la lb s, fold_left g lb (fold_left f la s) = fold_left f la (fold_left g lb s).
Proof.
  intros C la. induction la as [|a la IH]; intros lb s; cbn; [reflexivity|].
  rewrite IH. f_equal. clear IH. revert s. induction lb as [|b lb IH]; intros s; cbn; [reflexivity|].
  rewrite <- IH. f_equal. apply C.
Qed.

Section Proofs.
  Variable q : Z.
  Notation F := (zq q).

  (* ---------------------------------------------------------------- keyed vectors *)
  Lemma upd_comm_gen {A} k1 k2 (f g : A -> A) m :
    (k1 = k2 -> forall x, f (g x) = g (f x)) ->
    upd k1 f (upd k2 g m) = upd k2 g (upd k1 f m).
  Proof.
    intros H. unfold upd. rewrite !map_map. apply map_ext. intros [k v]. cbn.
    destruct (k =? k2) eqn:E2; cbn; destruct (k =? k1) eqn:E1; cbn; rewrite ?E1, ?E2; try reflexivity.
    apply Z.eqb_eq in E1, E2. subst. rewrite H by reflexivity. reflexivity.
  Qed.

  Lemma upd_comm {A} k1 k2 (f g : A -> A) m : k1 <> k2 -> upd k1 f (upd k2 g m) = upd k2 g (upd k1 f m).
  Proof. intros N. apply upd_comm_gen. intros E. contradiction. Qed.

  Lemma upd_keys {A} k (f : A -> A) m : map fst (upd k f m) = map fst m.
  Proof. unfold upd. rewrite map_map. apply map_ext. intros [k' v]. cbn. destruct (k' =? k); reflexivity. Qed.

  (* ---------------------------------------------------------------- (2) order independence of the Process* functions *)

  Lemma deal_fold_comm (c : cfg q) s b1 b2 :
    db_dealer b1 <> db_dealer b2 ->
    deal_fold q c (deal_fold q c s b1) b2 = deal_fold q c (deal_fold q c s b2) b1.
  Proof.
    intros N. unfold deal_fold, on_d. cbn [s_d s_h s_found s_phase]. f_equal. apply upd_comm. auto.
  Qed.

  (* ProcessDeals: the result (state and response bundle) does not depend on
     the order in which bundles of distinct dealers are handed over *)
  Theorem process_deals_perm_invariant (c : cfg q) s bs bs' :
    Permutation bs bs' -> NoDup (map db_dealer bs) ->
    process_deals q c s bs = process_deals q c s bs'.
  Proof.
    intros P ND. unfold process_deals.
    rewrite (fold_left_perm (deal_fold q c) db_dealer (fun s a b => deal_fold_comm c s a b) bs bs' P ND).
    reflexivity.
  Qed.

  Lemma just_fold_comm (c : cfg q) s b1 b2 :
    jb_dealer b1 <> jb_dealer b2 ->
    just_fold q c (just_fold q c s b1) b2 = just_fold q c (just_fold q c s b2) b1.
  Proof.
    intros N. unfold just_fold, on_d. cbn [s_d s_h s_found s_phase]. f_equal. apply upd_comm. auto.
  Qed.

  Theorem process_justifs_perm_invariant (c : cfg q) s bs bs' :
    Permutation bs bs' -> NoDup (map jb_dealer bs) ->
    process_justifs q c s bs = process_justifs q c s bs'.
  Proof.
    intros P ND. unfold process_justifs.
    rewrite (fold_left_perm (just_fold q c) jb_dealer (fun s a b => just_fold_comm c s a b) bs bs' P ND).
    reflexivity.
  Qed.

  (* responses: a bundle writes only the column of its holder *)
  Lemma set_cell_comm h1 h2 v1 v2 (d : dstate q) :
    h1 <> h2 -> set_cell q h1 v1 (set_cell q h2 v2 d) = set_cell q h2 v2 (set_cell q h1 v1 d).
  Proof.
    intros N. unfold set_cell. cbn [d_row d_share d_pub d_ev d_seen]. f_equal. apply upd_comm. exact N.
  Qed.

  Lemma hev_hauth_comm h : set_hev (set_hauth h) = set_hauth (set_hev h).
  Proof. reflexivity. Qed.

  Lemma resp_one_comm (c : cfg q) h1 h2 s r1 r2 :
    h1 <> h2 ->
    resp_one q c h2 (resp_one q c h1 s r1) r2 = resp_one q c h1 (resp_one q c h2 s r2) r1.
  Proof.
    intros N. unfold resp_one.
    destruct (negb (included (c_old c) (r_dealer r1))), (negb (included (c_old c) (r_dealer r2)));
    destruct (negb (c_fast c) && (r_status r1 =? 0)), (negb (c_fast c) && (r_status r2 =? 0));
    destruct (r_status r1 =? 1), (r_status r2 =? 1);
    destruct s as [sd sh sf sp]; unfold on_h, on_d, set_found; cbn [s_d s_h s_found s_phase]; f_equal;
    try solve [apply upd_comm; auto];
    try solve [apply upd_comm_gen; intros _ x; apply set_cell_comm; auto].
  Qed.

  Lemma resp_one_hev_comm (c : cfg q) h1 h2 s r :
    h1 <> h2 ->
    resp_one q c h2 (on_h q (upd h1 set_hev) s) r = on_h q (upd h1 set_hev) (resp_one q c h2 s r).
  Proof.
    intros N. unfold resp_one.
    destruct (negb (included (c_old c) (r_dealer r)));
    destruct (negb (c_fast c) && (r_status r =? 0));
    destruct (r_status r =? 1);
    destruct s as [sd sh sf sp]; unfold on_h, on_d, set_found; cbn [s_d s_h s_found s_phase]; f_equal;
    try (apply upd_comm; auto).
  Qed.

  Lemma fold_resp_one_hev (c : cfg q) h1 h2 l : h1 <> h2 -> forall s,
    fold_left (resp_one q c h2) l (on_h q (upd h1 set_hev) s) = on_h q (upd h1 set_hev) (fold_left (resp_one q c h2) l s).
  Proof.
    intros N. induction l as [|r l IH]; intros s; cbn; [reflexivity|].
    rewrite resp_one_hev_comm by exact N. apply IH.
  Qed.

  Lemma resp_step_comm (c : cfg q) s b1 b2 :
    rb_holder b1 <> rb_holder b2 ->
    resp_step q c (resp_step q c s b1) b2 = resp_step q c (resp_step q c s b2) b1.
  Proof.
    intros N. unfold resp_step.
    destruct (c_can_issue c && c_new_present c && (rb_holder b1 =? c_nidx c)); [reflexivity|].
    destruct (c_can_issue c && c_new_present c && (rb_holder b2 =? c_nidx c)); [reflexivity|].
    destruct (negb (included (c_new c) (rb_holder b1))); [reflexivity|].
    destruct (negb (included (c_new c) (rb_holder b2))); [reflexivity|].
    destruct (negb (rb_sid b1)), (negb (rb_sid b2)).
    - destruct s as [sd sh sf sp]. unfold on_h. cbn [s_d s_h s_found s_phase]. f_equal. apply upd_comm. auto.
    - rewrite fold_resp_one_hev by exact N. reflexivity.
    - rewrite fold_resp_one_hev by auto. reflexivity.
    - apply fold_commute. intros s0 a b. apply resp_one_comm. exact N.
  Qed.

  Theorem process_responses_perm_invariant (c : cfg q) s bs bs' :
    Permutation bs bs' -> NoDup (map rb_holder bs) ->
    process_responses q c s bs = process_responses q c s bs'.
  Proof.
    intros P ND. unfold process_responses.
    rewrite (fold_left_perm (resp_step q c) rb_holder (fun s a b => resp_step_comm c s a b) bs bs' P ND).
    destruct bs as [|b bs].
    - apply Permutation_nil in P. subst. reflexivity.
    - destruct bs' as [|b' bs']; [apply Permutation_sym, Permutation_nil in P; discriminate|]. reflexivity.
  Qed.
End Proofs.

(* ------------------------------------------------------------------ *)
(* (3) the result of the fresh DKG: QUAL, key, shares                  *)
Section Result.
  Variable q : Z.
  Notation F := (zq q).
  Add Ring zqR11 : (zq_ring q).

  Lemma commit_add (a b : F) : commit q (zadd a b) = padd (commit q a) (commit q b).
  Proof. unfold commit, smul, padd, pbase. ring. Qed.

  Lemma commit_zero : commit q zzero = (zzero : F).
  Proof. unfold commit, smul, pbase. ring. Qed.

  Lemma peval_poly_add (a b : list F) x :
    length a = length b -> peval q (poly_add q a b) x = padd (peval q a x) (peval q b x).
  Proof.
    revert b. induction a as [|u a IH]; intros [|v b] L; try discriminate; cbn.
    - unfold padd. ring.
    - rewrite IH by (cbn in L; lia). unfold padd. ring.
  Qed.

  Lemma peval_commit_poly (cs : list F) x : peval q (commit_poly q cs) x = commit q (peval q cs x).
  Proof.
    unfold commit_poly. induction cs as [|c cs IH]; cbn [map peval].
    - symmetry. apply commit_zero.
    - rewrite IH. unfold commit, smul, pbase. ring.
  Qed.

  (* a dealer counts for the result iff its row is complaint-free and it was
     not evicted as a share holder *)
  Definition qualified (s : st q) (e : Z * dstate q) : bool :=
    all_true (d_row (snd e)) && negb (holder_evicted q s (fst e)).

  (* the stored share of a dealer is valid for the stored public polynomial *)
  Definition entry_ok (x : F) (e : Z * dstate q) : Prop :=
    forall v p, d_share (snd e) = Some v -> d_pub (snd e) = Some p -> commit q v = peval q p x.

  Definition c0_of (e : Z * dstate q) : F :=
    match d_pub (snd e) with Some p => hd zzero p | None => zzero end.
  Definition c0_acc (pub : option (list F)) : F :=
    match pub with Some p => hd zzero p | None => zzero end.
  Definition acc_ok (x : F) (pub : option (list F)) (sh : F) : Prop :=
    match pub with None => sh = zzero | Some p => commit q sh = peval q p x end.

  Lemma dkg_fold_none s l : fold_left (dkg_fold q s) l None = None.
  Proof. induction l; cbn; auto. Qed.

  Lemma hd_poly_add (a b : list F) : length a = length b -> hd zzero (poly_add q a b) = padd (hd zzero a) (hd zzero b).
  Proof.
    destruct a, b; cbn; intros L; try discriminate; [|reflexivity]. unfold padd. ring.
  Qed.

  Lemma dkg_fold_inv s x l : forall q0 pub0 sh0 ql pub sh,
    fold_left (dkg_fold q s) l (Some (q0, pub0, sh0)) = Some (ql, pub, sh) ->
    ql = q0 ++ map fst (filter (qualified s) l) /\
    c0_acc pub = padd (c0_acc pub0) (psum (map c0_of (filter (qualified s) l))) /\
    (Forall (entry_ok x) l -> acc_ok x pub0 sh0 -> acc_ok x pub sh).
  Proof.
    induction l as [|e l IH]; intros q0 pub0 sh0 ql pub sh H.
    - cbn in H. inversion H; subst. rewrite app_nil_r. cbn. repeat split; auto. unfold padd, pzero. ring.
    - cbn [fold_left] in H. unfold dkg_fold at 2 in H. cbn [filter].
      replace (qualified s e) with (all_true (d_row (snd e)) && negb (holder_evicted q s (fst e))) by reflexivity.
      destruct (all_true (d_row (snd e))) eqn:AT; cbn [negb andb] in *.
      2:{ apply IH in H. destruct H as (H1 & H2 & H3). repeat split; auto. intros FA. inversion FA; auto. }
      destruct (holder_evicted q s (fst e)) eqn:HE; cbn [negb andb] in *.
      { apply IH in H. destruct H as (H1 & H2 & H3). repeat split; auto. intros FA. inversion FA; auto. }
      destruct (d_share (snd e)) as [v|] eqn:DS; [|rewrite dkg_fold_none in H; discriminate].
      destruct (d_pub (snd e)) as [p|] eqn:DP; [|rewrite dkg_fold_none in H; discriminate].
      destruct pub0 as [p0|].
      + destruct (Nat.eqb (length p0) (length p)) eqn:LE; [|rewrite dkg_fold_none in H; discriminate].
        apply Nat.eqb_eq in LE.
        apply IH in H. destruct H as (H1 & H2 & H3). cbn [map]. repeat split.
        * rewrite H1, <- app_assoc. reflexivity.
        * rewrite H2. cbn [c0_acc map]. unfold c0_of at 2. rewrite DP, hd_poly_add by exact LE.
          symmetry. apply padd_assoc.
        * intros FA A0. inversion FA as [|? ? E1 E2]; subst. apply H3; [exact E2|].
          cbn in *. rewrite commit_add, peval_poly_add by exact LE. rewrite A0, (E1 v p DS DP). reflexivity.
      + apply IH in H. destruct H as (H1 & H2 & H3). cbn [map]. repeat split.
        * rewrite H1, <- app_assoc. reflexivity.
        * rewrite H2. cbn [c0_acc map]. unfold c0_of at 2. rewrite DP.
          change (psum (hd zzero p :: map c0_of (filter (qualified s) l))) with (padd (hd zzero p) (psum (map c0_of (filter (qualified s) l)))).
          generalize (psum (map c0_of (filter (qualified s) l))). intros z. unfold padd. ring.
        * intros FA A0. inversion FA as [|? ? E1 E2]; subst. apply H3; [exact E2|].
          cbn in *. rewrite A0, commit_add, (E1 v p DS DP), commit_zero. unfold padd. ring.
  Qed.

  (* computeDKGResult: QUAL is exactly the complaint-free, non-evicted
     dealers (in node order), the public key is the sum of their constant
     commitments, and the output share lies on the output polynomial provided
     every stored share is valid for its dealer's public polynomial *)
  Theorem dkg_result_spec (c : cfg q) s r :
    compute_dkg_result q c s = Some r ->
    res_qual r = map fst (filter (qualified s) (s_d s)) /\
    res_idx r = c_nidx c /\
    hd zzero (res_commits r) = psum (map c0_of (filter (qualified s) (s_d s))) /\
    (Forall (entry_ok (xof q (c_nidx c))) (s_d s) ->
       commit q (res_share r) = peval q (res_commits r) (xof q (c_nidx c))).
  Proof.
    unfold compute_dkg_result. intros H.
    destruct (fold_left (dkg_fold q s) (s_d s) (Some ([], None, zzero))) as [[[ql [p|]] sh]|] eqn:E; try discriminate.
    inversion H; subst; clear H. cbn [res_qual res_idx res_commits res_share].
    apply (dkg_fold_inv s (xof q (c_nidx c))) in E. destruct E as (H1 & H2 & H3).
    repeat split; auto.
    - cbn in H2. rewrite H2. unfold padd. ring.
    - intros FA. apply (H3 FA). reflexivity.
  Qed.

  (* QUAL and the commitments are a function of the public part of the state:
     two nodes whose complaint-free rows, holder evictions and received public
     polynomials coincide output the same QUAL and the same polynomial *)
  Definition pub_view (s : st q) : list (Z * (bool * option (list F))) :=
    map (fun e => (fst e, (qualified s e, d_pub (snd e)))) (s_d s).

  Lemma dkg_fold_view s1 s2 : forall l1 l2 q0 pub0 sh1 sh2 ql1 pub1 sh1' ql2 pub2 sh2',
    map (fun e => (fst e, (qualified s1 e, d_pub (snd e)))) l1 = map (fun e => (fst e, (qualified s2 e, d_pub (snd e)))) l2 ->
    fold_left (dkg_fold q s1) l1 (Some (q0, pub0, sh1)) = Some (ql1, pub1, sh1') ->
    fold_left (dkg_fold q s2) l2 (Some (q0, pub0, sh2)) = Some (ql2, pub2, sh2') ->
    ql1 = ql2 /\ pub1 = pub2.
  Proof.
    induction l1 as [|e1 l1 IH]; intros [|e2 l2] q0 pub0 sh1 sh2 ql1 pub1 sh1' ql2 pub2 sh2' V H1 H2; try discriminate.
    - cbn in *. inversion H1; inversion H2; subst. auto.
    - cbn [map] in V. inversion V as [[K Q P V']]. clear V.
      cbn [fold_left] in H1, H2. unfold dkg_fold at 2 in H1. unfold dkg_fold at 2 in H2.
      unfold qualified in Q.
      destruct (all_true (d_row (snd e1))) eqn:A1, (all_true (d_row (snd e2))) eqn:A2; cbn [negb andb] in *;
        try (destruct (holder_evicted q s1 (fst e1)) eqn:E1; cbn [negb andb] in * );
        try (destruct (holder_evicted q s2 (fst e2)) eqn:E2; cbn [negb andb] in * );
        try discriminate; try (eapply IH; eassumption).
      destruct (d_share (snd e1)) as [v1|]; [|rewrite dkg_fold_none in H1; discriminate].
      destruct (d_share (snd e2)) as [v2|]; [|rewrite dkg_fold_none in H2; discriminate].
      rewrite <- P in H2.
      destruct (d_pub (snd e1)) as [p|]; [|rewrite dkg_fold_none in H1; discriminate].
      rewrite K in H1.
      destruct pub0 as [p0|].
      + destruct (Nat.eqb (length p0) (length p)); [|rewrite dkg_fold_none in H1; discriminate].
        eapply IH; eassumption.
      + eapply IH; eassumption.
  Qed.

  Theorem result_agreement (c1 c2 : cfg q) s1 s2 r1 r2 :
    pub_view s1 = pub_view s2 ->
    compute_dkg_result q c1 s1 = Some r1 -> compute_dkg_result q c2 s2 = Some r2 ->
    res_qual r1 = res_qual r2 /\ res_commits r1 = res_commits r2.
  Proof.
    unfold compute_dkg_result, pub_view. intros V H1 H2.
    destruct (fold_left (dkg_fold q s1) (s_d s1) (Some ([], None, zzero))) as [[[ql1 [p1|]] sh1]|] eqn:E1; try discriminate.
    destruct (fold_left (dkg_fold q s2) (s_d s2) (Some ([], None, zzero))) as [[[ql2 [p2|]] sh2]|] eqn:E2; try discriminate.
    inversion H1; inversion H2; subst. cbn.
    destruct (dkg_fold_view s1 s2 _ _ _ _ _ _ _ _ _ _ _ _ V E1 E2) as [A B]. inversion B. auto.
  Qed.
End Result.

(* ------------------------------------------------------------------ *)
(* who is in QUAL; validity of the stored shares along a run            *)
Section Run.
  Variable q : Z.
  Notation F := (zq q).
  Add Ring zqR12 : (zq_ring q).

  Lemma in_filter_map_key {A} (Qf : Z * A -> bool) (g : Z * A -> Z * A) (l : list (Z * A)) d a :
    (forall e, fst (g e) = fst e) -> NoDup (map fst l) -> In (d, a) l ->
    (In d (map fst (filter Qf (map g l))) <-> Qf (g (d, a)) = true).
  Proof.
    intros G. induction l as [|e l IH]; intros ND I; [destruct I|].
    inversion ND as [|? ? N1 N2]; subst. cbn [map filter]. destruct I as [E|I].
    - subst e. destruct (Qf (g (d, a))) eqn:QE.
      + cbn. rewrite G. cbn. split; auto.
      + split; [|discriminate]. intros I. exfalso. apply N1.
        apply in_map_iff in I. destruct I as (e' & E' & I'). apply filter_In in I'. destruct I' as [I' _].
        apply in_map_iff in I'. destruct I' as (e'' & E'' & I''). subst e'. rewrite G in E'. subst d.
        apply (in_map fst) in I''. exact I''.
    - assert (fst e <> d). { intros E. apply N1. rewrite E. apply (in_map fst) in I. exact I. }
      destruct (Qf (g e)); cbn [map]; [|apply IH; auto].
      split.
      + intros [E|I']; [rewrite G in E; contradiction|]. apply IH; auto.
      + intros QE. right. apply IH; auto.
  Qed.

  Lemma all_true_set_row_all (d : dstate q) : d_row d <> [] -> all_true (d_row (set_row_all q 1 d)) = false.
  Proof. unfold set_row_all. cbn [d_row]. destruct (d_row d) as [|e r]; [congruence|]. reflexivity. Qed.

  (* fresh DKG: a dealer is in the output QUAL iff it was never evicted, no
     complaint against it is left unjustified in the status matrix, and it was
     not evicted as a share holder.  In particular (disqualify_unjustified) a
     dealer with a remaining complaint is out, and (honest_dealer_stays) a
     dealer whose row is clean and who is in neither eviction list is in. *)
  Theorem qual_characterisation (c : cfg q) s s1 r d ds :
    c_reshare c = false -> compute_result q c s = (s1, Some r) ->
    NoDup (map fst (s_d s)) -> In (d, ds) (s_d s) -> d_row ds <> [] ->
    (In d (res_qual r) <->
     d_ev ds = false /\ all_true (d_row ds) = true /\ holder_evicted q s d = false).
  Proof.
    intros NR H ND I RN. unfold compute_result in H. rewrite NR in H. inversion H as [[S1 R]]. clear H.
    apply dkg_result_spec in R. destruct R as (Q & _).
    rewrite Q. unfold mark_evicted, on_d, set_phase. cbn [s_d s_h].
    set (g := fun e : Z * dstate q => if d_ev (snd e) then (fst e, set_row_all q 1 (snd e)) else e).
    rewrite (in_filter_map_key _ g (s_d s) d ds); auto.
    2:{ intros e. unfold g. destruct (d_ev (snd e)); reflexivity. }
    unfold qualified, g. cbn [snd fst]. unfold holder_evicted. cbn [s_h].
    destruct (d_ev ds) eqn:EV; cbn [snd fst].
    - rewrite all_true_set_row_all by exact RN. cbn. split; [discriminate|]. intros (A & _). discriminate.
    - rewrite andb_true_iff, negb_true_iff. tauto.
  Qed.

  (* ---- stored shares stay valid ---- *)
  Notation entry_ok := (entry_ok q).

  Definition keeps_sp (f : dstate q -> dstate q) : Prop :=
    forall d, d_share (f d) = d_share d /\ d_pub (f d) = d_pub d.

  Lemma entry_ok_keeps x f k d : keeps_sp f -> entry_ok x (k, d) -> entry_ok x (k, f d).
  Proof. intros K H v p. cbn. destruct (K d) as [-> ->]. apply H. Qed.

  Lemma Forall_upd_gen (P : Z * dstate q -> Prop) k f m :
    (forall d, P (k, d) -> P (k, f d)) -> Forall P m -> Forall P (upd k f m).
  Proof.
    intros H FA. unfold upd. apply Forall_forall. intros e I. apply in_map_iff in I. destruct I as ([k' d] & E & I).
    rewrite Forall_forall in FA. specialize (FA _ I). cbn in E. destruct (k' =? k) eqn:EK; subst e; [|exact FA].
    apply Z.eqb_eq in EK. subst k'. apply H. exact FA.
  Qed.

  Lemma Forall_map_gen (P P' : Z * dstate q -> Prop) (g : Z * dstate q -> Z * dstate q) m :
    (forall e, P e -> P' (g e)) -> Forall P m -> Forall P' (map g m).
  Proof. intros H FA. apply Forall_forall. intros e I. apply in_map_iff in I. destruct I as (e' & <- & I). rewrite Forall_forall in FA. auto. Qed.

  Lemma keeps_set_cell h v : keeps_sp (set_cell q h v).  Proof. intros d. split; reflexivity. Qed.
  Lemma keeps_set_ev : keeps_sp (set_ev q).              Proof. intros d. split; reflexivity. Qed.
  Lemma keeps_set_seen b : keeps_sp (set_seen q b).      Proof. intros d. split; reflexivity. Qed.
  Lemma keeps_set_row_all v : keeps_sp (set_row_all q v). Proof. intros d. split; reflexivity. Qed.

  (* ProcessJustifications stores a share only after checking it against the
     dealer's public polynomial *)
  Lemma just_loop_ok (c : cfg q) dealer js : forall d,
    entry_ok (xof q (c_nidx c)) (dealer, d) -> entry_ok (xof q (c_nidx c)) (dealer, just_loop q c dealer js d).
  Proof.
    induction js as [|j js IH]; intros d H; cbn [just_loop]; [exact H|].
    destruct (negb (included (c_new c) (j_idx j))); [apply IH, entry_ok_keeps; [apply keeps_set_ev|exact H]|].
    destruct (d_pub d) as [pub|] eqn:DP; [|apply entry_ok_keeps; [apply keeps_set_ev|exact H]].
    destruct (negb (zeqb (commit q (j_share j)) (peval q pub (xof q (j_idx j))))) eqn:CK;
      [apply IH, entry_ok_keeps; [apply keeps_set_ev|exact H]|].
    destruct (c_reshare c && negb (zeqb (peval q (c_oldpub c) (xof q dealer)) (hd zzero pub)));
      [apply IH, entry_ok_keeps; [apply keeps_set_ev|exact H]|].
    apply IH. destruct (j_idx j =? c_nidx c) eqn:EI.
    - apply Z.eqb_eq in EI. intros v p. cbn. intros E1 E2. inversion E1; subst v. rewrite DP in E2. inversion E2; subst p.
      apply negb_false_iff, zeqb_eq in CK. rewrite <- EI. exact CK.
    - apply entry_ok_keeps; [apply keeps_set_cell|exact H].
  Qed.

  Lemma just_step_ok (c : cfg q) b d :
    entry_ok (xof q (c_nidx c)) (jb_dealer b, d) -> entry_ok (xof q (c_nidx c)) (jb_dealer b, just_step q c b d).
  Proof.
    intros H. unfold just_step.
    destruct (d_seen d); [apply entry_ok_keeps; [apply keeps_set_ev|exact H]|].
    destruct (c_can_issue c && (jb_dealer b =? c_oidx c)); [exact H|].
    destruct (d_ev d); [exact H|].
    destruct (negb (jb_sid b)); [apply entry_ok_keeps; [apply keeps_set_ev|exact H]|].
    apply just_loop_ok. apply entry_ok_keeps; [apply keeps_set_seen|exact H].
  Qed.

  Theorem justifs_keep_shares_valid (c : cfg q) bs : forall s,
    Forall (entry_ok (xof q (c_nidx c))) (s_d s) ->
    Forall (entry_ok (xof q (c_nidx c))) (s_d (fold_left (just_fold q c) bs s)).
  Proof.
    induction bs as [|b bs IH]; intros s H; cbn [fold_left]; [exact H|].
    apply IH. unfold just_fold, on_d. cbn [s_d]. apply Forall_upd_gen; [|exact H].
    intros d. apply just_step_ok.
  Qed.

  (* ProcessDeals: a dealer record that holds no share yet receives one only
     after the check against the public polynomial of the same bundle *)
  Lemma deal_loop_ok (c : cfg q) dealer pub ds : forall d,
    d_pub d = Some pub -> entry_ok (xof q (c_nidx c)) (dealer, d) ->
    entry_ok (xof q (c_nidx c)) (dealer, deal_loop q c dealer pub ds d).
  Proof.
    induction ds as [|dl ds IH]; intros d DP H; cbn [deal_loop]; [exact H|].
    destruct (negb (included (c_new c) (dl_idx dl))); [apply entry_ok_keeps; [apply keeps_set_ev|exact H]|].
    destruct (negb (dl_idx dl =? c_nidx c)); [apply IH; assumption|].
    destruct (dl_share dl) as [sh|]; [|apply IH; assumption].
    destruct (negb (zeqb (peval q pub (xof q (c_nidx c))) (commit q sh))) eqn:CK; [apply IH; assumption|].
    destruct (c_reshare c && negb (zeqb (peval q (c_oldpub c) (xof q dealer)) (hd zzero pub))); [apply IH; assumption|].
    apply IH; [exact DP|].
    intros v p. cbn. intros E1 E2. inversion E1; subst v. rewrite DP in E2. inversion E2; subst p.
    apply negb_false_iff, zeqb_eq in CK. symmetry. exact CK.
  Qed.

  Lemma deal_loop_seen (c : cfg q) dealer pub ds : forall d, d_seen (deal_loop q c dealer pub ds d) = d_seen d.
  Proof.
    induction ds as [|dl ds IH]; intros d; cbn [deal_loop]; [reflexivity|].
    destruct (negb (included (c_new c) (dl_idx dl))); [reflexivity|].
    destruct (negb (dl_idx dl =? c_nidx c)); [apply IH|].
    destruct (dl_share dl) as [sh|]; [|apply IH].
    destruct (negb (zeqb (peval q pub (xof q (c_nidx c))) (commit q sh))); [apply IH|].
    destruct (c_reshare c && negb (zeqb (peval q (c_oldpub c) (xof q dealer)) (hd zzero pub))); [apply IH|].
    rewrite IH. reflexivity.
  Qed.

  (* invariant of the ProcessDeals loop on the record of a dealer other than
     the node itself: valid share, and no share before its bundle was seen *)
  Definition deal_inv (c : cfg q) (e : Z * dstate q) : Prop :=
    entry_ok (xof q (c_nidx c)) e /\
    (c_can_issue c && (fst e =? c_oidx c) = false -> d_seen (snd e) = false -> d_share (snd e) = None).

  Lemma deal_step_inv (c : cfg q) b d : deal_inv c (db_dealer b, d) -> deal_inv c (db_dealer b, deal_step q c b d).
  Proof.
    intros [H NS]. unfold deal_inv in *. cbn [fst snd] in *. unfold deal_step.
    destruct (c_can_issue c && (db_dealer b =? c_oidx c)) eqn:OWN; [split; [exact H|discriminate]|].
    specialize (NS eq_refl).
    destruct (negb (db_sid b)); [split; [apply entry_ok_keeps; [apply keeps_set_ev|exact H]|intros _; exact NS]|].
    destruct (negb (Z.of_nat (length (db_pub b)) =? c_thr c)); [split; [apply entry_ok_keeps; [apply keeps_set_ev|exact H]|intros _; exact NS]|].
    destruct (d_seen d) eqn:SE; [split; [apply entry_ok_keeps; [apply keeps_set_ev|exact H]|intros _; cbn; congruence]|].
    split.
    - apply deal_loop_ok; [reflexivity|]. intros v p. cbn. rewrite (NS eq_refl). discriminate.
    - intros _. rewrite deal_loop_seen. cbn. discriminate.
  Qed.

  Theorem deals_keep_shares_valid (c : cfg q) bs : forall s,
    Forall (deal_inv c) (s_d s) -> Forall (deal_inv c) (s_d (fold_left (deal_fold q c) bs s)).
  Proof.
    induction bs as [|b bs IH]; intros s H; cbn [fold_left]; [exact H|].
    apply IH. unfold deal_fold, on_d. cbn [s_d]. apply Forall_upd_gen; [|exact H].
    intros d. apply deal_step_inv.
  Qed.

  (* the state after Deals satisfies the loop invariant (once seen flags are cleared) *)
  Lemma init_deal_inv (c : cfg q) s b :
    deals q c (init_st q c) = Some (s, b) -> Forall (deal_inv c) (clear_seen q (s_d s)).
  Proof.
    unfold deals. destruct (negb (c_can_issue c)) eqn:CI; [discriminate|].
    cbn [s_phase init_st]. cbn [Z.eqb negb]. intros H. inversion H as [[S B]]. clear H S B.
    apply negb_false_iff in CI.
    unfold set_phase, clear_seen. cbn [s_d].
    apply Forall_map_gen with (P' := deal_inv c) (P := fun e => entry_ok (xof q (c_nidx c)) e /\
         (c_can_issue c && (fst e =? c_oidx c) = false -> d_share (snd e) = None)).
    { intros [k d] [E N]. split; cbn [fst snd] in *.
      - intros v p. cbn. apply E.
      - intros O _. cbn. apply N. exact O. }
    match goal with |- Forall _ (s_d (if ?X then _ else _)) => destruct X end; unfold on_d; cbn [s_d init_st].
    - apply Forall_upd_gen.
      + intros d [E N]. split; cbn [fst snd] in *.
        * intros v p. cbn. intros E1 E2. inversion E1; inversion E2; subst. symmetry. apply peval_commit_poly.
        * rewrite CI, Z.eqb_refl. discriminate.
      + apply Forall_forall. intros e I. apply in_map_iff in I. destruct I as (n & <- & _). split; cbn.
        * intros v p. discriminate.
        * reflexivity.
    - apply Forall_forall. intros e I. apply in_map_iff in I. destruct I as (n & <- & _). split; cbn.
      + intros v p. discriminate.
      + reflexivity.
  Qed.
End Run.

(* ------------------------------------------------------------------ *)
(* the status matrix after ProcessResponses is a function of the board   *)
Section Column.
  Variable q : Z.

  (* column h of the status matrix: per dealer, the status of holder h *)
  Definition col (h : Z) (s : st q) : list (Z * option Z) :=
    map (fun e => (fst e, look h (d_row (snd e)))) (s_d s).

  Lemma look_upd {A} k k' (f : A -> A) m :
    look k (upd k' f m) = match look k m with Some v => Some (if k =? k' then f v else v) | None => None end.
  Proof.
    induction m as [|[k0 v] m IH]; [reflexivity|].
    unfold upd in *. cbn [map fst snd]. destruct (k0 =? k') eqn:E1; cbn [look]; destruct (k0 =? k) eqn:E2; try exact IH.
    - apply Z.eqb_eq in E1, E2. subst. rewrite Z.eqb_refl. reflexivity.
    - apply Z.eqb_eq in E2. subst. rewrite E1. reflexivity.
  Qed.

  Definition col_write (h h' d v : Z) (cl : list (Z * option Z)) : list (Z * option Z) :=
    map (fun e => if fst e =? d
                  then (fst e, match snd e with Some x => Some (if h =? h' then v else x) | None => None end)
                  else e) cl.

  Lemma col_set_cell h h' d v s : col h (on_d q (upd d (set_cell q h' v)) s) = col_write h h' d v (col h s).
  Proof.
    unfold col, col_write, on_d, upd. cbn [s_d]. rewrite !map_map. apply map_ext. intros [k ds]. cbn [fst snd].
    destruct (k =? d); cbn [fst snd]; [|reflexivity].
    unfold set_cell. cbn [d_row]. rewrite look_upd. reflexivity.
  Qed.

  (* effect of one response / one bundle on column h: depends on the
     configuration only through OldNodes, NewNodes, FastSync and on whether
     the node skips the bundle as its own *)
  Definition col_one (old : list (Z * Z)) (fast : bool) (h hb : Z) (cl : list (Z * option Z)) (r : response) :=
    if negb (included old (r_dealer r)) then cl
    else if negb fast && (r_status r =? 0) then cl
    else col_write h hb (r_dealer r) (r_status r) cl.

  Lemma col_resp_one (c : cfg q) h hb s r :
    col h (resp_one q c hb s r) = col_one (c_old c) (c_fast c) h hb (col h s) r.
  Proof.
    unfold resp_one, col_one.
    destruct (negb (included (c_old c) (r_dealer r))); [reflexivity|].
    destruct (negb (c_fast c) && (r_status r =? 0)); [reflexivity|].
    destruct (r_status r =? 1); apply col_set_cell.
  Qed.

  Lemma col_fold_resp_one (c : cfg q) h hb rs : forall s,
    col h (fold_left (resp_one q c hb) rs s) = fold_left (col_one (c_old c) (c_fast c) h hb) rs (col h s).
  Proof.
    induction rs as [|r rs IH]; intros s; cbn [fold_left]; [reflexivity|].
    rewrite IH, col_resp_one. reflexivity.
  Qed.

  Definition skips (c : cfg q) (b : resp_bundle) : bool :=
    c_can_issue c && c_new_present c && (rb_holder b =? c_nidx c).

  Definition col_step (old new : list (Z * Z)) (fast skip : bool) (h : Z) (cl : list (Z * option Z)) (b : resp_bundle) :=
    if skip then cl
    else if negb (included new (rb_holder b)) then cl
    else if negb (rb_sid b) then cl
    else fold_left (col_one old fast h (rb_holder b)) (rb_resps b) cl.

  Lemma col_resp_step (c : cfg q) h s b :
    col h (resp_step q c s b) = col_step (c_old c) (c_new c) (c_fast c) (skips c b) h (col h s) b.
  Proof.
    unfold resp_step, col_step, skips.
    destruct (c_can_issue c && c_new_present c && (rb_holder b =? c_nidx c)); [reflexivity|].
    destruct (negb (included (c_new c) (rb_holder b))); [reflexivity|].
    destruct (negb (rb_sid b)); [reflexivity|].
    apply col_fold_resp_one.
  Qed.

  (* Two nodes of the same run (same node lists, same mode) that hold the
     same column h before the response bundles are processed hold the same
     column h afterwards, whatever else their states contain, as long as
     neither of them skips one of the bundles as its own: the columns of third
     parties are a function of the broadcast bundles only. *)
  Theorem responses_column_function (c1 c2 : cfg q) h bs : forall s1 s2,
    c_old c1 = c_old c2 -> c_new c1 = c_new c2 -> c_fast c1 = c_fast c2 ->
    (forall b, In b bs -> skips c1 b = skips c2 b) ->
    col h s1 = col h s2 ->
    col h (fold_left (resp_step q c1) bs s1) = col h (fold_left (resp_step q c2) bs s2).
  Proof.
    induction bs as [|b bs IH]; intros s1 s2 EO EN EF SK EC; cbn [fold_left]; [exact EC|].
    apply IH; auto.
    - intros b' I. apply SK. right. exact I.
    - rewrite !col_resp_step, EO, EN, EF, (SK b (or_introl eq_refl)), EC. reflexivity.
  Qed.

  (* ---------------------------------------------------------------- finishing in the response phase *)
  (* completeSuccess (the test that lets ProcessResponses finish without a
     justification phase) reads the eviction flags and the rows of the dealers
     that are NOT evicted, nothing else: the cells a node holds for a dealer it
     evicted - cells it never announces (my_responses) - have no influence. *)
  Definition live_view (s : st q) : list (Z * (bool * list (Z * Z))) :=
    map (fun e => (fst e, (d_ev (snd e), if d_ev (snd e) then [] else d_row (snd e)))) (s_d s).

  Theorem complete_success_live_view (s1 s2 : st q) :
    live_view s1 = live_view s2 -> complete_success q s1 = complete_success q s2.
  Proof.
    unfold live_view, complete_success. generalize (s_d s1) (s_d s2). clear s1 s2.
    induction l as [|e1 l1 IH]; intros [|e2 l2] V; try discriminate; [reflexivity|].
    cbn [map] in V. inversion V as [[K E R V']]. cbn [forallb]. rewrite (IH _ V'). f_equal.
    destruct (d_ev (snd e1)), (d_ev (snd e2)); try discriminate; [reflexivity|].
    cbn [orb]. rewrite R. reflexivity.
  Qed.
End Column.
