(* DKG agreement, part 4: the cross-phase induction.  Two honest nodes of a
   fresh Pedersen DKG (regular or fast-sync mode: the section variable [fast] is
   Config.FastSync) that read the same boards hold the same
   public view after every phase, hence output the same QUAL and the same
   commitment polynomial. *)
From Coq Require Import ZArith List Bool Lia Permutation.
From Kyber Require Import Algebra.Zq Algebra.Grp DKG.PedersenDKG DKG.PedersenProofs
  DKG.Agreement DKG.AgreementDeal DKG.AgreementResp DKG.AgreementJust.
Import ListNotations.
Local Open Scope Z_scope.

Lemma forallb_ext_in {A} (f g : A -> bool) (l : list A) :
  (forall a, In a l -> f a = g a) -> forallb f l = forallb g l.
Proof.
  induction l as [|a l IH]; intros H; cbn; [reflexivity|].
  rewrite H by (left; reflexivity). f_equal. apply IH. intros a' I. apply H. right. exact I.
Qed.

Lemma forallb_keyed {A} (P : A -> bool) (m : list (Z * A)) : NoDup (map fst m) ->
  forallb (fun e => P (snd e)) m = forallb (fun k => match look k m with Some v => P v | None => true end) (map fst m).
Proof.
  induction m as [|[k0 v] m IH]; intros ND; [reflexivity|]. cbn [map fst forallb snd] in *.
  inversion ND as [|? ? N1 N2]; subst. cbn [look]. rewrite Z.eqb_refl. f_equal. rewrite IH by exact N2.
  apply forallb_ext_in. intros k I. destruct (k0 =? k) eqn:E; [|reflexivity].
  apply Z.eqb_eq in E. subst. contradiction.
Qed.

Lemma Forall_keyed {A} (P : Z * A -> Prop) (m : list (Z * A)) :
  (forall k v, look k m = Some v -> P (k, v)) -> NoDup (map fst m) -> Forall P m.
Proof.
  intros H ND. apply Forall_forall. intros [k v] I. apply H. apply in_look; assumption.
Qed.

Section Main.
  Variable q : Z.
  Notation F := (zq q).
  Variable nodes : list (Z * Z).
  Variable thr : Z.
  Variable fast : bool.               (* Config.FastSync *)
  Notation K := (map fst nodes).
  Notation fresh := (fresh_cfg q nodes thr fast).
  Notation honest := (honest q nodes thr fast).

  (* ---------------------------------------------------------------- after the deals *)
  Lemma drec_ok_of B i c d : boards_ok q B -> honest B i c -> In d K ->
    drec_ok q nodes thr fast i (bD B) d (drec q nodes fast c (bD B) d).
  Proof.
    intros (ND & _) H IK. apply drec_spec; auto. apply (h_cfg _ _ _ _ _ _ _ H). apply (h_deal _ _ _ _ _ _ _ H).
  Qed.

  (* ---------------------------------------------------------------- after the responses *)
  Lemma rrec_fields B i c d : boards_ok q B -> honest B i c -> In d K ->
    d_ev (rrec q nodes fast c B d) = d_ev (drec q nodes fast c (bD B) d) /\
    d_pub (rrec q nodes fast c B d) = pub_of q thr (bD B) d /\
    d_share (rrec q nodes fast c B d) = d_share (drec q nodes fast c (bD B) d) /\
    map fst (d_row (rrec q nodes fast c B d)) = K /\
    (forall h, In h K -> cell (d_row (rrec q nodes fast c B d)) h =
                         fold_left (cstep nodes fast i d h) (bR B) (cell (d_row (drec q nodes fast c (bD B) d)) h)).
  Proof.
    intros OK H IK. pose proof (drec_ok_of B i c d OK H IK) as DK. pose proof (h_cfg _ _ _ _ _ _ _ H) as FC.
    unfold rrec. rewrite (fc_nidx _ _ _ _ _ _ FC).
    destruct (bstep_fields q nodes fast i d (bR B) (drec q nodes fast c (bD B) d)) as (A1 & A2 & A3 & A4 & A5 & A6). cbn zeta in *.
    repeat split; auto.
    - rewrite A2. apply (dk_pub _ _ _ _ _ _ _ _ DK).
    - rewrite A5. apply (dk_keys _ _ _ _ _ _ _ _ DK).
    - intros h I. apply A6. rewrite (dk_keys _ _ _ _ _ _ _ _ DK). exact I.
  Qed.

  (* the own column after the responses is the own column after the deals *)
  Lemma rrec_own_cell B i c d : boards_ok q B -> honest B i c -> In d K ->
    cell (d_row (rrec q nodes fast c B d)) i = cell (d_row (drec q nodes fast c (bD B) d)) i.
  Proof.
    intros OK H IK. destruct (rrec_fields B i c d OK H IK) as (_ & _ & _ & _ & A).
    rewrite A by apply (fc_in _ _ _ _ _ _ (h_cfg _ _ _ _ _ _ _ H)). apply cstep_own.
  Qed.

  (* two records of the same dealer at two honest nodes: same eviction verdict,
     same public polynomial, and - unless the dealer is evicted - the same row
     of the status matrix.  (The row of an evicted dealer may differ: a node
     does not broadcast complaints against a dealer it has evicted.) *)
  Definition agree (x1 x2 : dstate q) : Prop :=
    d_ev x1 = d_ev x2 /\ d_pub x1 = d_pub x2 /\ map fst (d_row x1) = map fst (d_row x2) /\
    (d_ev x1 = false -> d_row x1 = d_row x2).

  Lemma pub3_agree x1 x2 : pub3 q x1 = pub3 q x2 -> agree x1 x2.
  Proof. unfold pub3. intros E. injection E as E1 E2 E3. repeat split; auto. rewrite E3. reflexivity. Qed.

  Lemma agree_sym x1 x2 : agree x1 x2 -> agree x2 x1.
  Proof. intros (A & B & C & D). repeat split; auto. intros E. symmetry. apply D. congruence. Qed.

  Theorem views_agree_after_responses B i ci j cj d :
    boards_ok q B -> honest B i ci -> honest B j cj -> i <> j -> In d K ->
    agree (rrec q nodes fast ci B d) (rrec q nodes fast cj B d).
  Proof.
    intros OK Hi Hj N IK.
    pose proof (drec_ok_of B i ci d OK Hi IK) as Di. pose proof (drec_ok_of B j cj d OK Hj IK) as Dj.
    pose proof (h_cfg _ _ _ _ _ _ _ Hi) as Fi. pose proof (h_cfg _ _ _ _ _ _ _ Hj) as Fj.
    destruct (rrec_fields B i ci d OK Hi IK) as (A1 & A2 & A3 & A4 & A5).
    destruct (rrec_fields B j cj d OK Hj IK) as (B1 & B2 & B3 & B4 & B5).
    assert (EVE : d_ev (drec q nodes fast ci (bD B) d) = d_ev (drec q nodes fast cj (bD B) d)).
    { rewrite (dk_ev _ _ _ _ _ _ _ _ Di), (dk_ev _ _ _ _ _ _ _ _ Dj). reflexivity. }
    repeat split.
    - rewrite A1, B1. exact EVE.
    - rewrite A2, B2. reflexivity.
    - rewrite A4, B4. reflexivity.
    - intros EV. rewrite A1 in EV.
      apply row_ext; [rewrite A4, B4; reflexivity|rewrite A4; apply (fc_ndi _ _ _ _ _ _ Fi)|].
      rewrite A4. intros h IH. rewrite (A5 h IH), (B5 h IH).
      destruct (Z.eq_dec h i) as [Ei|Ni]; [|destruct (Z.eq_dec h j) as [Ej|Nj]].
      + subst h. rewrite cstep_own.
        rewrite (honest_column q nodes thr fast B j i ci d _ OK Hi N IK).
        rewrite (dk_others _ _ _ _ _ _ _ _ Dj i IH N). symmetry.
        pose proof (report_own_cell q nodes fast ci (bD B) d (if fast && negb (i =? d) then 1 else 0) EV) as RO.
        rewrite (fc_nidx _ _ _ _ _ _ Fi) in RO. apply RO; [apply (dk_own _ _ _ _ _ _ _ _ Di)|].
        intros FS. rewrite FS. reflexivity.
      + subst h. rewrite cstep_own.
        rewrite (honest_column q nodes thr fast B i j cj d _ OK Hj (not_eq_sym N) IK).
        rewrite (dk_others _ _ _ _ _ _ _ _ Di j IH (not_eq_sym N)).
        assert (EVj : d_ev (drec q nodes fast cj (bD B) d) = false) by (rewrite <- EVE; exact EV).
        pose proof (report_own_cell q nodes fast cj (bD B) d (if fast && negb (j =? d) then 1 else 0) EVj) as RO.
        rewrite (fc_nidx _ _ _ _ _ _ Fj) in RO. apply RO; [apply (dk_own _ _ _ _ _ _ _ _ Dj)|].
        intros FS. rewrite FS. reflexivity.
      + rewrite (dk_others _ _ _ _ _ _ _ _ Di h IH Ni), (dk_others _ _ _ _ _ _ _ _ Dj h IH Nj).
        apply cstep_third; assumption.
  Qed.

  Theorem holder_evictions_agree B i ci j cj h :
    boards_ok q B -> honest B i ci -> honest B j cj -> hevR nodes fast i (bR B) h = hevR nodes fast j (bR B) h.
  Proof.
    intros OK Hi Hj.
    destruct (Z.eq_dec h i) as [Ei|Ni]; [|destruct (Z.eq_dec h j) as [Ej|Nj]].
    - subst h. rewrite hevR_own. symmetry. apply (honest_holder_not_evicted q nodes thr fast B j i ci OK Hi).
    - subst h. rewrite hevR_own. apply (honest_holder_not_evicted q nodes thr fast B i j cj OK Hj).
    - apply hevR_third; assumption.
  Qed.

  (* complete_success, pointwise *)
  Lemma cs_rs3 B i c : boards_ok q B -> honest B i c ->
    complete_success q (rs3 q c B) =
    forallb (fun d => d_ev (rrec q nodes fast c B d) || all_true (d_row (rrec q nodes fast c B d))) K.
  Proof.
    intros OK H. pose proof (h_cfg _ _ _ _ _ _ _ H) as FC.
    destruct (rs3_spec q nodes thr fast i c B FC) as (A1 & A2 & _).
    unfold complete_success. rewrite (forallb_keyed (fun x : dstate q => d_ev x || all_true (d_row x))) by (rewrite A2; apply (fc_ndi _ _ _ _ _ _ FC)).
    rewrite A2. apply forallb_ext_in. intros d I. rewrite (A1 d I). reflexivity.
  Qed.

  (* Whether the protocol ends in the response phase is common knowledge: the
     test looks at the rows of the dealers that are not evicted (the same at
     every honest node) and at the complaints on the board.  (With kyber's
     original CompleteSuccess, which also read the rows of evicted dealers,
     this was false: [disagreement_before_repair] in DKG/AgreementCex.v.) *)
  Theorem finish_agree B i ci j cj :
    boards_ok q B -> honest B i ci -> honest B j cj -> i <> j ->
    fin q (rs3 q ci B) = true -> fin q (rs3 q cj B) = true.
  Proof.
    intros OK Hi Hj N. unfold fin. rewrite !andb_true_iff, !negb_true_iff.
    pose proof (h_cfg _ _ _ _ _ _ _ Hi) as Fi. pose proof (h_cfg _ _ _ _ _ _ _ Hj) as Fj.
    destruct (rs3_spec q nodes thr fast i ci B Fi) as (_ & _ & _ & _ & FI).
    destruct (rs3_spec q nodes thr fast j cj B Fj) as (_ & _ & _ & _ & FJ).
    rewrite FI, FJ, (cs_rs3 B i ci OK Hi), (cs_rs3 B j cj OK Hj). intros [NF CS].
    assert (CSJ : forallb (fun d => d_ev (rrec q nodes fast cj B d) || all_true (d_row (rrec q nodes fast cj B d))) K = true).
    { rewrite <- CS. apply forallb_ext_in. intros d I.
      destruct (views_agree_after_responses B i ci j cj d OK Hi Hj N I) as (V1 & _ & _ & V).
      rewrite <- V1. destruct (d_ev (rrec q nodes fast ci B d)); [reflexivity|]. rewrite (V eq_refl). reflexivity. }
    split; [|exact CSJ].
    apply not_true_iff_false. intros FJT. unfold foundR in FJT. apply existsb_exists in FJT.
    destruct FJT as (b & IB & X). apply andb_true_iff in X. destruct X as [PJ EX].
    destruct (Z.eq_dec (rb_holder b) i) as [EH|NH].
    - (* the complaint is node i's own: its own column is not clean *)
      pose proof (h_resp _ _ _ _ _ _ _ Hi) as HR. rewrite (rbun_eq q nodes thr fast i ci B Fi) in HR.
      destruct OK as (OK1 & NDR & OK3).
      destruct (complaints_of q nodes fast ci (bD B)) as [|r0 rs] eqn:CE.
      { apply HR. rewrite <- EH. apply in_map. exact IB. }
      assert (b = mkrb i (r0 :: rs) true) by (apply (nodup_key_inj rb_holder (bR B) _ _ NDR IB HR); exact EH).
      subst b. cbn [rb_resps] in EX. apply existsb_exists in EX. destruct EX as (r & IR & ER).
      apply andb_true_iff in ER. destruct ER as [_ ER]. apply Z.eqb_eq in ER.
      rewrite <- CE in IR. apply complaints_in in IR. destruct IR as (d & IK & _ & CO). rewrite ER in CO.
      rewrite forallb_forall in CS. specialize (CS d IK).
      assert (OK' : boards_ok q B) by (split; [|split]; assumption).
      pose proof (drec_ok_of B i ci d OK' Hi IK) as Di.
      destruct (rrec_fields B i ci d OK' Hi IK) as (A1 & _ & _ & A4 & _).
      apply report_complaint in CO. rewrite (fc_nidx _ _ _ _ _ _ Fi) in CO. destruct CO as [CO1 CO].
      rewrite A1, CO1 in CS. cbn [orb] in CS.
      assert (NDr : NoDup (map fst (d_row (rrec q nodes fast ci B d)))) by (rewrite A4; apply (fc_ndi _ _ _ _ _ _ Fi)).
      pose proof (proj1 (all_true_cells _ NDr) CS i) as CS'. rewrite A4 in CS'. specialize (CS' (fc_in _ _ _ _ _ _ Fi)).
      rewrite (rrec_own_cell B i ci d OK' Hi IK) in CS'.
      destruct (dk_own _ _ _ _ _ _ _ _ Di) as [X|X]; [rewrite X in CO; discriminate|contradiction].
    - (* a third party's complaint: node i sees it too *)
      assert (FIT : foundR nodes fast i (bR B) = true).
      { unfold foundR. apply existsb_exists. exists b. split; [exact IB|]. rewrite EX, andb_true_r.
        unfold proc in *. apply andb_true_iff in PJ. destruct PJ as [PJ SID]. apply andb_true_iff in PJ. destruct PJ as [_ INC].
        rewrite SID, INC. destruct (rb_holder b =? i) eqn:E; [apply Z.eqb_eq in E; contradiction|reflexivity]. }
      congruence.
  Qed.

  (* ---------------------------------------------------------------- the public view of the final state *)
  Lemma final_hev (s : st q) h : holder_evicted q (final q s) h = holder_evicted q s h.
  Proof. reflexivity. Qed.

  Lemma final_look (s : st q) d x : look d (s_d s) = Some x ->
    look d (s_d (final q s)) = Some (if d_ev x then set_row_all q 1 x else x).
  Proof.
    intros L. unfold final, mark_evicted, on_d, set_phase. cbn [s_d].
    rewrite (look_map_keep (fun e : Z * dstate q => if d_ev (snd e) then (fst e, set_row_all q 1 (snd e)) else e)).
    - rewrite L. cbn [snd]. destruct (d_ev x); reflexivity.
    - intros e. destruct (d_ev (snd e)); reflexivity.
  Qed.

  Lemma final_keys (s : st q) : map fst (s_d (final q s)) = map fst (s_d s).
  Proof.
    unfold final, mark_evicted, on_d, set_phase. cbn [s_d]. apply map_keep_keys.
    intros e. destruct (d_ev (snd e)); reflexivity.
  Qed.

  Lemma set_row_all_keys v (x : dstate q) : d_row (set_row_all q v x) = map (fun k => (k, v)) (map fst (d_row x)).
  Proof. unfold set_row_all. cbn [d_row]. rewrite map_map. reflexivity. Qed.

  Lemma view_agree (s1 s2 : st q) (X1 X2 : Z -> dstate q) :
    NoDup K -> map fst (s_d s1) = K -> map fst (s_d s2) = K ->
    (forall d, In d K -> look d (s_d s1) = Some (X1 d) /\ look d (s_d s2) = Some (X2 d) /\ agree (X1 d) (X2 d)) ->
    (forall h, holder_evicted q s1 h = holder_evicted q s2 h) ->
    pub_view q (final q s1) = pub_view q (final q s2).
  Proof.
    intros ND K1 K2 H HE. unfold pub_view.
    apply (keyed_map_ext (fun e => (qualified q (final q s1) e, d_pub (snd e)))
                         (fun e => (qualified q (final q s2) e, d_pub (snd e)))).
    - rewrite !final_keys, K1, K2. reflexivity.
    - rewrite final_keys, K1. exact ND.
    - intros k v1 v2 L1 L2.
      assert (IK : In k K).
      { rewrite <- K1, <- final_keys. apply look_some_in in L1. apply (in_map fst) in L1. exact L1. }
      destruct (H k IK) as (E1 & E2 & (P1 & P2 & P3 & P4)).
      rewrite (final_look s1 k _ E1) in L1. rewrite (final_look s2 k _ E2) in L2.
      inversion L1; inversion L2; subst.
      unfold qualified. cbn [fst snd]. rewrite !final_hev, HE, <- P1.
      destruct (d_ev (X1 k)).
      + rewrite !set_row_all_keys, P3. cbn [set_row_all d_pub]. rewrite P2. reflexivity.
      + rewrite (P4 eq_refl), P2. reflexivity.
  Qed.

  (* ---------------------------------------------------------------- both finish in the response phase *)
  Lemma agreement_resp B i ci j cj ri rj :
    boards_ok q B -> honest B i ci -> honest B j cj -> i <> j ->
    out_resp q ci B ri -> out_resp q cj B rj ->
    res_qual ri = res_qual rj /\ res_commits ri = res_commits rj.
  Proof.
    intros OK Hi Hj N (_ & Ri) (_ & Rj).
    pose proof (h_cfg _ _ _ _ _ _ _ Hi) as Fi. pose proof (h_cfg _ _ _ _ _ _ _ Hj) as Fj.
    destruct (rout_result q nodes thr fast i ci B ri Fi Ri) as (_ & Ci).
    destruct (rout_result q nodes thr fast j cj B rj Fj Rj) as (_ & Cj).
    destruct (rs3_spec q nodes thr fast i ci B Fi) as (A1 & A2 & _ & A4 & _).
    destruct (rs3_spec q nodes thr fast j cj B Fj) as (B1 & B2 & _ & B4 & _).
    apply (result_agreement q ci cj (final q (rs3 q ci B)) (final q (rs3 q cj B)) ri rj); [|exact Ci|exact Cj].
    apply (view_agree _ _ (rrec q nodes fast ci B) (rrec q nodes fast cj B) (fc_ndi _ _ _ _ _ _ Fi) A2 B2).
    - intros d IK. split; [apply A1; exact IK|]. split; [apply B1; exact IK|].
      apply (views_agree_after_responses B i ci j cj d OK Hi Hj N IK).
    - intros h. rewrite A4, B4. apply (holder_evictions_agree B i ci j cj h OK Hi Hj).
  Qed.

  (* ---------------------------------------------------------------- the justification phase *)
  Lemma x4_agree B i ci j cj d :
    boards_ok q B -> honest B i ci -> honest B j cj -> i <> j -> In d K ->
    agree (x4 q nodes thr fast ci B d) (x4 q nodes thr fast cj B d).
  Proof.
    intros OK Hi Hj N IK. destruct (views_agree_after_responses B i ci j cj d OK Hi Hj N IK) as (V1 & V2 & V3 & V4).
    destruct (x4_fields q nodes thr fast ci B d) as (P1 & _ & P3 & _ & P5).
    destruct (x4_fields q nodes thr fast cj B d) as (Q1 & _ & Q3 & _ & Q5).
    assert (EV : d_ev (x4 q nodes thr fast ci B d) = d_ev (x4 q nodes thr fast cj B d)).
    { rewrite P5, Q5, <- V1. destruct (d_ev (rrec q nodes fast ci B d)); [reflexivity|]. rewrite (V4 eq_refl). reflexivity. }
    repeat split; try congruence.
    intros E. rewrite P3, Q3. apply V4. rewrite P5 in E. apply orb_false_iff in E. tauto.
  Qed.

  Lemma just_step_agree i1 c1 i2 c2 b x1 x2 : fresh i1 c1 -> fresh i2 c2 ->
    jb_dealer b <> i1 -> jb_dealer b <> i2 -> d_seen x1 = false -> d_seen x2 = false ->
    agree x1 x2 -> agree (just_step q c1 b x1) (just_step q c2 b x2).
  Proof.
    intros F1 F2 N1 N2 S1 S2 (A1 & A2 & A3 & A4).
    destruct (d_ev x1) eqn:EV.
    - rewrite (just_step_other q nodes thr fast i1 c1 b x1 F1 N1 S1), (just_step_other q nodes thr fast i2 c2 b x2 F2 N2 S2).
      rewrite EV, <- A1. repeat split; auto; try congruence.
    - apply pub3_agree. apply (just_step_pub3 q nodes thr fast i1 c1 i2 c2 b x1 x2 F1 F2 N1 N2 S1 S2).
      unfold pub3. rewrite (A4 eq_refl). congruence.
  Qed.

  Lemma x6_cases (c : cfg q) B d : NoDup (map jb_dealer (bJ B)) ->
    (exists b, In b (bJ B) /\ jb_dealer b = d /\ x6 q nodes thr fast c B d = just_step q c b (x5 q nodes thr fast c B d)) \/
    (~ In d (map jb_dealer (bJ B)) /\ x6 q nodes thr fast c B d = x5 q nodes thr fast c B d).
  Proof.
    intros ND. destruct (in_dec Z.eq_dec d (map jb_dealer (bJ B))) as [I|NI].
    - left. apply in_map_iff in I. destruct I as (b & E & I). exists b. split; [exact I|]. split; [exact E|].
      unfold x6. subst d. apply (apply_unique jb_dealer (just_step q c) (bJ B) b _ ND I).
    - right. split; [exact NI|]. unfold x6. apply (apply_absent jb_dealer (just_step q c) (bJ B) d _ NI).
  Qed.

  (* the own record is not touched by ProcessJustifications *)
  Lemma x6_own B i c : fresh i c -> NoDup (map jb_dealer (bJ B)) ->
    x6 q nodes thr fast c B i = x5 q nodes thr fast c B i.
  Proof.
    intros FC ND. destruct (x6_cases c B i ND) as [(b & _ & E & X)|[_ X]]; [|exact X].
    rewrite X. apply (just_step_own q nodes thr fast i c b _ FC E).
    destruct (x5_fields q nodes thr fast c B i) as (_ & _ & _ & S & _). exact S.
  Qed.

  (* the record of an honest dealer [i] as another honest node [j] holds it
     after the justifications: [i] answered every complaint of its row *)
  Lemma x6_honest_dealer B i ci j cj :
    boards_ok q B -> honest B i ci -> honest B j cj -> i <> j ->
    ro_err (rout q ci B) = ENone -> ro_res (rout q ci B) = None ->
    pub3 q (x6 q nodes thr fast cj B i) = pub3 q (x6 q nodes thr fast ci B i).
  Proof.
    intros OK Hi Hj N E1 E2.
    pose proof (h_cfg _ _ _ _ _ _ _ Hi) as Fi. pose proof (h_cfg _ _ _ _ _ _ _ Hj) as Fj.
    assert (IKi : In i K) by apply (fc_in _ _ _ _ _ _ Fi).
    destruct OK as (NDD & NDR & NDJ). assert (OK : boards_ok q B) by (split; [|split]; assumption).
    destruct (s6_spec q nodes thr fast i ci B Fi E1 E2) as (_ & _ & _ & _ & EV & JB).
    rewrite (x6_own B i ci Fi NDJ).
    destruct (x4_agree B i ci j cj i OK Hi Hj N IKi) as (V1 & V2 & _ & V3). specialize (V3 EV).
    destruct (x5_fields q nodes thr fast ci B i) as (P1 & _ & P3 & _ & P5).
    destruct (x5_fields q nodes thr fast cj B i) as (Q1 & _ & Q3 & Q4 & Q5).
    rewrite (fc_nidx _ _ _ _ _ _ Fi), Z.eqb_refl in P5.
    rewrite (fc_nidx _ _ _ _ _ _ Fj) in Q5.
    destruct (i =? j) eqn:EIJ; [apply Z.eqb_eq in EIJ; contradiction|].
    (* row, keys, public polynomial of dealer i at node j *)
    destruct (x4_fields q nodes thr fast cj B i) as (R1 & _ & R3 & _ & _).
    destruct (rrec_fields B j cj i OK Hj IKi) as (_ & S2 & _ & S4 & _).
    pose proof (drec_ok_of B i ci i OK Hi IKi) as Di.
    assert (PUB : d_pub (x5 q nodes thr fast cj B i) = Some (commit_poly q (c_priv ci))).
    { rewrite Q1, R1, S2. unfold pub_of.
      pose proof (bundle_of_in q (bD B) _ NDD (h_deal _ _ _ _ _ _ _ Hi)) as BO.
      rewrite (dbun_dealer q nodes thr fast i ci Fi) in BO. rewrite BO, (dbun_accepted q nodes thr fast i ci Fi), (dbun_eq q nodes thr fast i ci Fi).
      reflexivity. }
    assert (KEYS : map fst (d_row (x4 q nodes thr fast cj B i)) = K) by (rewrite R3; exact S4).
    pose proof (h_just _ _ _ _ _ _ _ Hi) as HJ. rewrite JB in HJ.
    destruct (x6_cases cj B i NDJ) as [(b & IB & EB & X)|[NI X]]; rewrite X.
    - destruct (justs_of q (c_priv ci) (d_row (x4 q nodes thr fast ci B i))) as [|j0 js] eqn:JE.
      { exfalso. apply HJ. rewrite <- EB. apply in_map. exact IB. }
      assert (b = mkjb i (j0 :: js) true) by (apply (nodup_key_inj jb_dealer (bJ B) _ _ NDJ IB HJ); exact EB).
      subst b. rewrite (just_step_other q nodes thr fast j cj _ _ Fj) by (cbn; auto).
      rewrite Q3, <- V1, EV. cbn [jb_sid negb jb_dealer jb_justifs].
      destruct (just_loop_honest q nodes thr fast j cj i (commit_poly q (c_priv ci)) (j0 :: js) Fj) with (x := set_seen q true (x5 q nodes thr fast cj B i))
        as (A1 & A2 & A3 & A4).
      + intros j' IJ. rewrite <- JE in IJ. apply justs_in in IJ. destruct IJ as [I1 I2].
        rewrite V3, KEYS in I1. split; [exact I1|]. rewrite I2. symmetry. apply peval_commit_poly.
      + cbn [set_seen d_pub]. exact PUB.
      + cbn zeta in *. cbn [set_seen d_ev d_pub d_row] in *. unfold pub3. f_equal; [f_equal|].
        * rewrite A1, Q3, P3. symmetry. exact V1.
        * rewrite A2, P1, V2, <- Q1. symmetry. exact PUB.
        * rewrite P5, Q5 in *. apply row_ext.
          -- rewrite A3, clear1_keys, V3. reflexivity.
          -- rewrite A3, KEYS. apply (fc_ndi _ _ _ _ _ _ Fi).
          -- rewrite A3. intros h IH. rewrite (A4 h IH), clear1_cell, <- JE, justs_idx, V3.
             rewrite existsb_row_cell by (rewrite KEYS; apply (fc_ndi _ _ _ _ _ _ Fi)). reflexivity.
    - destruct (justs_of q (c_priv ci) (d_row (x4 q nodes thr fast ci B i))) as [|j0 js] eqn:JE.
      2:{ exfalso. apply NI. apply (in_map jb_dealer) in HJ. exact HJ. }
      unfold pub3. rewrite Q3, P3, Q1, P1, Q5, P5, (justs_nil_clear q _ _ JE). congruence.
  Qed.

  (* the records of two honest nodes still agree after the justifications *)
  Theorem views_agree_after_justifications B i ci j cj d :
    boards_ok q B -> honest B i ci -> honest B j cj -> i <> j -> In d K ->
    ro_err (rout q ci B) = ENone -> ro_res (rout q ci B) = None ->
    ro_err (rout q cj B) = ENone -> ro_res (rout q cj B) = None ->
    agree (x6 q nodes thr fast ci B d) (x6 q nodes thr fast cj B d).
  Proof.
    intros OK Hi Hj N IK Ei1 Ei2 Ej1 Ej2.
    destruct (Z.eq_dec d i) as [Ei|Ni]; [|destruct (Z.eq_dec d j) as [Ej|Nj]].
    - subst d. apply agree_sym, pub3_agree. apply (x6_honest_dealer B i ci j cj); assumption.
    - subst d. apply pub3_agree. apply (x6_honest_dealer B j cj i ci); auto.
    - pose proof (h_cfg _ _ _ _ _ _ _ Hi) as Fi. pose proof (h_cfg _ _ _ _ _ _ _ Hj) as Fj.
      destruct OK as (NDD & NDR & NDJ). assert (OK : boards_ok q B) by (split; [|split]; assumption).
      destruct (x4_agree B i ci j cj d OK Hi Hj N IK) as (V1 & V2 & V3 & V4).
      destruct (x5_fields q nodes thr fast ci B d) as (P1 & _ & P3 & P4 & P5).
      destruct (x5_fields q nodes thr fast cj B d) as (Q1 & _ & Q3 & Q4 & Q5).
      rewrite (fc_nidx _ _ _ _ _ _ Fi) in P5. rewrite (fc_nidx _ _ _ _ _ _ Fj) in Q5.
      destruct (d =? i) eqn:E1; [apply Z.eqb_eq in E1; contradiction|].
      destruct (d =? j) eqn:E2; [apply Z.eqb_eq in E2; contradiction|].
      assert (V5 : agree (x5 q nodes thr fast ci B d) (x5 q nodes thr fast cj B d)).
      { repeat split; try congruence. intros E. rewrite P5, Q5. apply V4. congruence. }
      destruct (x6_cases ci B d NDJ) as [(b & IB & EB & X)|[NI X]];
        destruct (x6_cases cj B d NDJ) as [(b' & IB' & EB' & X')|[NI' X']]; rewrite X, X'.
      + assert (b = b') by (apply (nodup_key_inj jb_dealer (bJ B) _ _ NDJ IB IB'); congruence). subst b'.
        apply (just_step_agree i ci j cj b _ _ Fi Fj); congruence.
      + exfalso. apply NI'. rewrite <- EB. apply in_map. exact IB.
      + exfalso. apply NI. rewrite <- EB'. apply in_map. exact IB'.
      + exact V5.
  Qed.

  Lemma agreement_just B i ci j cj ri rj :
    boards_ok q B -> honest B i ci -> honest B j cj -> i <> j ->
    out_just q ci B ri -> out_just q cj B rj ->
    res_qual ri = res_qual rj /\ res_commits ri = res_commits rj.
  Proof.
    intros OK Hi Hj N (Ei1 & Ei2 & _ & Ri) (Ej1 & Ej2 & _ & Rj).
    pose proof (h_cfg _ _ _ _ _ _ _ Hi) as Fi. pose proof (h_cfg _ _ _ _ _ _ _ Hj) as Fj.
    pose proof (jout_result q nodes thr fast i ci B ri Fi Ri) as Ci.
    pose proof (jout_result q nodes thr fast j cj B rj Fj Rj) as Cj.
    destruct (s6_spec q nodes thr fast i ci B Fi Ei1 Ei2) as (A1 & A2 & A3 & _).
    destruct (s6_spec q nodes thr fast j cj B Fj Ej1 Ej2) as (B1 & B2 & B3 & _).
    apply (result_agreement q ci cj (final q (s6 q ci B)) (final q (s6 q cj B)) ri rj); [|exact Ci|exact Cj].
    apply (view_agree _ _ (x6 q nodes thr fast ci B) (x6 q nodes thr fast cj B) (fc_ndi _ _ _ _ _ _ Fi) A2 B2).
    - intros d IK. split; [apply A1; exact IK|]. split; [apply B1; exact IK|].
      apply (views_agree_after_justifications B i ci j cj d); assumption.
    - intros h. rewrite A3, B3. apply (holder_evictions_agree B i ci j cj h OK Hi Hj).
  Qed.

  (* ---------------------------------------------------------------- agreement *)
  (* Two honest nodes of a fresh DKG that complete IN THE SAME PHASE - whatever
     the other parties put on the three boards - output the same QUAL and the
     same commitment polynomial (hence the same public key). *)
  Theorem pedersen_agreement_same_phase B i ci j cj ri rj :
    boards_ok q B -> honest B i ci -> honest B j cj -> i <> j ->
    (out_resp q ci B ri /\ out_resp q cj B rj) \/ (out_just q ci B ri /\ out_just q cj B rj) ->
    res_qual ri = res_qual rj /\ res_commits ri = res_commits rj.
  Proof.
    intros OK Hi Hj N [[Oi Oj]|[Oi Oj]].
    - apply (agreement_resp B i ci j cj); assumption.
    - apply (agreement_just B i ci j cj); assumption.
  Qed.

  (* Any two honest nodes of a fresh DKG (regular or fast-sync mode) that
     complete - whatever the other
     parties put on the three boards - complete in the same phase and output
     the same QUAL and the same commitment polynomial. *)
  Theorem pedersen_agreement B i ci j cj ri rj :
    boards_ok q B -> honest B i ci -> honest B j cj -> i <> j ->
    output q ci B ri -> output q cj B rj ->
    res_qual ri = res_qual rj /\ res_commits ri = res_commits rj.
  Proof.
    intros OK Hi Hj N [Oi|Oi] [Oj|Oj].
    - apply (agreement_resp B i ci j cj); assumption.
    - exfalso. destruct Oi as (_ & Ri). destruct Oj as (Ej1 & Ej2 & _).
      destruct (rout_result q nodes thr fast i ci B ri (h_cfg _ _ _ _ _ _ _ Hi) Ri) as (FI & _).
      destruct (rout_continue q nodes thr fast j cj B (h_cfg _ _ _ _ _ _ _ Hj) Ej1 Ej2) as (FJ & _).
      rewrite (finish_agree B i ci j cj OK Hi Hj N FI) in FJ. discriminate.
    - exfalso. destruct Oj as (_ & Rj). destruct Oi as (Ei1 & Ei2 & _).
      destruct (rout_result q nodes thr fast j cj B rj (h_cfg _ _ _ _ _ _ _ Hj) Rj) as (FJ & _).
      destruct (rout_continue q nodes thr fast i ci B (h_cfg _ _ _ _ _ _ _ Hi) Ei1 Ei2) as (FI & _).
      rewrite (finish_agree B j cj i ci OK Hj Hi (not_eq_sym N) FJ) in FI. discriminate.
    - apply (agreement_just B i ci j cj); assumption.
  Qed.

  (* ---------------------------------------------------------------- not proved
     resharing_agreement_partial.  Full statement: the same for a resharing run
     (c_reshare = true; old group deals, new group receives; nodes that are in
     one group only): any two honest NEW nodes that complete output the same
     QUAL (of new nodes) and the same commitment polynomial, each output share
     lies on it, the constant commitment equals the constant commitment of
     the OLD public polynomial (the key is unchanged), any NewThreshold shares
     reconstruct it.  Proved for resharing: nothing beyond the per-phase
     permutation invariance and the share-validity invariants of
     PedersenProofs.v (which hold for every configuration).  Missing: (1) the
     system semantics with two node lists and the three kinds of participants
     (fresh_cfg fixes c_old = c_new, can_issue = can_receive = true); the
     deal/response/justification characterisations above go through with
     [c_old c] for dealers and [c_new c] for holders, but self_success,
     my_responses and the eviction checks (check_evicted: evictedHolders in
     the response phase) differ; (2) the result: compute_reshare_result
     interpolates the first OldThreshold qualified dealers' shares and,
     coefficient-wise, their public polynomials (lagrange0); agreement needs
     "same qualified dealer set => same interpolation", which follows from
     view agreement exactly as here, and "key unchanged" needs Lagrange
     interpolation at 0 of the old shares' commitments = constant term of the
     old polynomial (Share/ShamirProofs.recover_commit_correct) under the
     check c_oldpub(dealer) = dealer's constant commitment that ProcessDeals /
     ProcessJustifications make. *)
End Main.
