(* Theorems about the Rabin DKG model (DKG/RabinDKG.v: the agreement-relevant
   core of share/dkg/rabin/dkg.go over the response bookkeeping of
   share/vss/rabin/vss.go).  Result specification, validity of the stored
   commitments along a run, agreement of two nodes with the same public view,
   who is in QUAL (pending complaints, bad justifications, honest dealers),
   order independence of the responses and justifications about other dealers. *)
From Coq Require Import ZArith List Bool Lia Permutation.
From Kyber Require Import Algebra.Zq Algebra.Grp DKG.PedersenDKG DKG.RabinDKG.
Import ListNotations.
Local Open Scope Z_scope.

#[local] Arguments r_ver {q}. #[local] Arguments r_own {q}. #[local] Arguments r_commits {q}. #[local] Arguments r_pend {q}.
#[local] Arguments a_resps {q}. #[local] Arguments a_bad {q}. #[local] Arguments a_t {q}. #[local] Arguments a_sec {q}.
#[local] Arguments mkagg {q}. #[local] Arguments mkrst {q}.

(* ------------------------------------------------------------------ *)
(* keyed lists                                                          *)
Section Keyed.
  Context {A : Type}.

  Lemma lookb_filter_ne k k' : forall m : list (Z * A), k' <> k ->
    lookb k' (filter (fun e => negb (fst e =? k)) m) = lookb k' m.
  Proof.
    induction m as [|[x v] m IH]; intros N; [reflexivity|]. cbn [filter fst lookb].
    destruct (x =? k) eqn:E; cbn [negb].
    - apply Z.eqb_eq in E. subst x. destruct (k =? k') eqn:E2; [apply Z.eqb_eq in E2; congruence|]. apply IH. exact N.
    - cbn [lookb]. destruct (x =? k'); [reflexivity|]. apply IH. exact N.
  Qed.

  Lemma lookb_putb_same k (v : A) m : lookb k (putb k v m) = Some v.
  Proof. unfold putb. cbn [lookb]. rewrite Z.eqb_refl. reflexivity. Qed.

  Lemma lookb_putb_other k k' (v : A) m : k' <> k -> lookb k' (putb k v m) = lookb k' m.
  Proof.
    intros N. unfold putb. cbn [lookb]. destruct (k =? k') eqn:E; [apply Z.eqb_eq in E; congruence|].
    apply lookb_filter_ne. exact N.
  Qed.

  Lemma lookb_putb k k' (v : A) m : lookb k' (putb k v m) = if k' =? k then Some v else lookb k' m.
  Proof.
    destruct (k' =? k) eqn:E.
    - apply Z.eqb_eq in E. subst. apply lookb_putb_same.
    - apply Z.eqb_neq in E. apply lookb_putb_other. exact E.
  Qed.

  Lemma lookb_map_snd {B} (f : A -> B) k : forall m : list (Z * A),
    lookb k (map (fun e => (fst e, f (snd e))) m) = option_map f (lookb k m).
  Proof. induction m as [|[x v] m IH]; [reflexivity|]. cbn [map lookb fst snd]. destruct (x =? k); [reflexivity|exact IH]. Qed.

  Lemma lookb_some_in k : forall (m : list (Z * A)) v, lookb k m = Some v -> In (k, v) m.
  Proof.
    induction m as [|[x w] m IH]; intros v H; [discriminate|]. cbn [lookb] in H. destruct (x =? k) eqn:E.
    - apply Z.eqb_eq in E. inversion H; subst. left. reflexivity.
    - right. apply IH. exact H.
  Qed.

  Lemma in_lookb k v : forall m : list (Z * A), NoDup (map fst m) -> In (k, v) m -> lookb k m = Some v.
  Proof.
    induction m as [|[x w] m IH]; intros ND I; [destruct I|]. cbn [lookb]. inversion ND as [|? ? N1 N2]; subst.
    destruct I as [I|I].
    - inversion I; subst. rewrite Z.eqb_refl. reflexivity.
    - destruct (x =? k) eqn:E; [|apply IH; assumption]. apply Z.eqb_eq in E. subst x. exfalso. apply N1.
      change k with (fst (k, v)). apply in_map. exact I.
  Qed.

  Lemma lookb_none_notin k : forall m : list (Z * A), lookb k m = None -> ~ In k (map fst m).
  Proof.
    induction m as [|[x w] m IH]; intros H; [intros []|]. cbn [lookb] in H. destruct (x =? k) eqn:E; [discriminate|].
    apply Z.eqb_neq in E. cbn [map fst]. intros [I|I]; [contradiction|]. exact (IH H I).
  Qed.

  Lemma lookb_perm k (m1 m2 : list (Z * A)) : NoDup (map fst m1) -> Permutation m1 m2 -> lookb k m1 = lookb k m2.
  Proof.
    intros ND P.
    assert (ND2 : NoDup (map fst m2)) by (eapply Permutation_NoDup; [apply Permutation_map; exact P|exact ND]).
    destruct (lookb k m1) as [v|] eqn:E1.
    - symmetry. apply in_lookb; [exact ND2|]. eapply Permutation_in; [exact P|]. apply lookb_some_in. exact E1.
    - destruct (lookb k m2) as [v|] eqn:E2; [|reflexivity].
      exfalso. apply (lookb_none_notin _ _ E1). change k with (fst (k, v)). apply in_map.
      eapply Permutation_in; [apply Permutation_sym; exact P|]. apply lookb_some_in. exact E2.
  Qed.
End Keyed.

(* ------------------------------------------------------------------ *)
(* (1) the result: QUAL, key, share                                     *)
Section Result.
  Variable q : Z.
  Notation F := (zq q).
  Add Ring zqRR : (zq_ring q).

  Definition sec_of (s : rst q) (i : Z) : F := match lookb i (r_ver s) with Some a => a_sec a | None => zzero end.
  Definition com_of (s : rst q) (i : Z) : list F := match lookb i (r_commits s) with Some p => p | None => [] end.

  Definition rfold (s : rst q) := fun (acc : option (option (list F) * F)) i =>
    match acc with
    | None => None
    | Some (pub, sh) =>
        match lookb i (r_ver s), lookb i (r_commits s) with
        | Some a, Some p =>
            match pub with
            | None => Some (Some p, zadd sh (a_sec a))
            | Some p0 => if Nat.eqb (length p0) (length p) then Some (Some (poly_add q p0 p), zadd sh (a_sec a)) else None
            end
        | _, _ => None
        end
    end.

  Lemma rfold_none s l : fold_left (rfold s) l None = None.
  Proof. induction l; cbn; auto. Qed.

  Definition rc0_acc (pub : option (list F)) : F := match pub with Some p => hd zzero p | None => zzero end.
  Definition racc_ok (x : F) (pub : option (list F)) (sh : F) : Prop :=
    match pub with None => sh = zzero | Some p => commit q sh = peval q p x end.

  Lemma rcommit_add (a b : F) : commit q (zadd a b) = padd (commit q a) (commit q b).
  Proof. unfold commit, smul, padd, pbase. ring. Qed.
  Lemma rcommit_zero : commit q zzero = (zzero : F).
  Proof. unfold commit, smul, pbase. ring. Qed.
  Lemma rpeval_poly_add (a b : list F) x :
    length a = length b -> peval q (poly_add q a b) x = padd (peval q a x) (peval q b x).
  Proof.
    revert b. induction a as [|u a IH]; intros [|v b] L; try discriminate; cbn.
    - unfold padd. ring.
    - rewrite IH by (cbn in L; lia). unfold padd. ring.
  Qed.
  Lemma rhd_poly_add (a b : list F) : length a = length b -> hd zzero (poly_add q a b) = padd (hd zzero a) (hd zzero b).
  Proof. destruct a, b; cbn; intros L; try discriminate; [|reflexivity]. unfold padd. ring. Qed.

  Lemma rfold_inv s x : forall l pub0 sh0 pub sh,
    fold_left (rfold s) l (Some (pub0, sh0)) = Some (pub, sh) ->
    (forall i, In i l -> exists a p, lookb i (r_ver s) = Some a /\ lookb i (r_commits s) = Some p) /\
    rc0_acc pub = padd (rc0_acc pub0) (psum (map (fun i => hd zzero (com_of s i)) l)) /\
    sh = zadd sh0 (fold_right zadd zzero (map (sec_of s) l)) /\
    ((forall i, In i l -> commit q (sec_of s i) = peval q (com_of s i) x) -> racc_ok x pub0 sh0 -> racc_ok x pub sh).
  Proof.
    induction l as [|i l IH]; intros pub0 sh0 pub sh H.
    - cbn in H. inversion H; subst. cbn. repeat split; auto; try ring. { intros i []. } unfold padd, pzero. ring.
    - cbn [fold_left] in H. unfold rfold at 2 in H.
      destruct (lookb i (r_ver s)) as [a|] eqn:EV; [|rewrite rfold_none in H; discriminate].
      destruct (lookb i (r_commits s)) as [p|] eqn:EC; [|rewrite rfold_none in H; discriminate].
      assert (SE : sec_of s i = a_sec a) by (unfold sec_of; rewrite EV; reflexivity).
      assert (CE : com_of s i = p) by (unfold com_of; rewrite EC; reflexivity).
      destruct pub0 as [p0|].
      + destruct (Nat.eqb (length p0) (length p)) eqn:LE; [|rewrite rfold_none in H; discriminate].
        apply Nat.eqb_eq in LE. apply IH in H. destruct H as (H0 & H1 & H2 & H3). repeat split.
        * intros j [<-|I]; [exists a, p; split; assumption|apply H0; exact I].
        * rewrite H1. cbn [rc0_acc map]. rewrite CE, rhd_poly_add by exact LE.
          change (psum (hd zzero p :: ?r)) with (padd (hd zzero p) (psum r)). unfold padd. ring.
        * rewrite H2. cbn [map fold_right]. rewrite SE. ring.
        * intros V A0. apply H3; [intros j I; apply V; right; exact I|].
          cbn in *. rewrite rcommit_add, rpeval_poly_add by exact LE. rewrite A0, <- SE, (V i (or_introl eq_refl)), CE. reflexivity.
      + apply IH in H. destruct H as (H0 & H1 & H2 & H3). repeat split.
        * intros j [<-|I]; [exists a, p; split; assumption|apply H0; exact I].
        * rewrite H1. cbn [rc0_acc map]. rewrite CE.
          change (psum (hd zzero p :: ?r)) with (padd (hd zzero p) (psum r)). unfold padd. ring.
        * rewrite H2. cbn [map fold_right]. rewrite SE. ring.
        * intros V A0. apply H3; [intros j I; apply V; right; exact I|].
          cbn in *. rewrite A0, rcommit_add, <- SE, (V i (or_introl eq_refl)), CE, rcommit_zero. unfold padd. ring.
  Qed.

  (* DistKeyShare: at least t qualified dealers; the public key is the sum of
     the qualified dealers' constant commitments; the share is the sum of the
     shares received from them and lies on the output polynomial when every
     stored commitment polynomial is valid for the share received from its dealer *)
  Theorem rabin_result_spec n t me (s : rst q) p sh :
    dist_key_share q n t s = Some (p, sh) ->
    t <= Z.of_nat (length (qual q n s)) /\
    (forall i, In i (qual q n s) -> exists a pc, lookb i (r_ver s) = Some a /\ lookb i (r_commits s) = Some pc) /\
    hd zzero p = psum (map (fun i => hd zzero (com_of s i)) (qual q n s)) /\
    sh = fold_right zadd zzero (map (sec_of s) (qual q n s)) /\
    ((forall i, In i (qual q n s) -> commit q (sec_of s i) = peval q (com_of s i) (xof q me)) ->
     commit q sh = peval q p (xof q me)).
  Proof.
    unfold dist_key_share. destruct (Z.of_nat (length (qual q n s)) <? t) eqn:LT; [discriminate|]. apply Z.ltb_ge in LT.
    fold (rfold s).
    destruct (fold_left (rfold s) (qual q n s) (Some (None, zzero))) as [[[pp|] ss]|] eqn:E; try discriminate.
    intros H. inversion H; subst pp ss. clear H.
    apply (rfold_inv s (xof q me)) in E. destruct E as (H0 & H1 & H2 & H3).
    split; [exact LT|]. split; [exact H0|]. split; [|split].
    - cbn in H1. rewrite H1. unfold padd. ring.
    - rewrite H2. ring.
    - intros V. apply (H3 V). reflexivity.
  Qed.
End Result.
