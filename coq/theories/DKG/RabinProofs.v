(* Theorems about the Rabin DKG model (DKG/RabinDKG.v: the agreement-relevant
   core of share/dkg/rabin/dkg.go over the response bookkeeping of
   share/vss/rabin/vss.go).  Result specification, validity of the stored
   commitments along a run, agreement of two nodes with the same public view,
   who is in QUAL (pending complaints, bad justifications, honest dealers),
   order independence of the responses and justifications about other dealers. *)
From Coq Require Import ZArith List Bool Lia Permutation.
From Kyber Require Import Algebra.Zq Algebra.Grp DKG.PedersenDKG DKG.RabinDKG.
Import ListNotations.
Local Open Scope Z_scope.

#[local] Arguments r_ver {q}. #[local] Arguments r_own {q}. #[local] Arguments r_commits {q}. #[local] Arguments r_pend {q}.
#[local] Arguments a_resps {q}. #[local] Arguments a_bad {q}. #[local] Arguments a_t {q}. #[local] Arguments a_sec {q}.
#[local] Arguments mkagg {q}. #[local] Arguments mkrst {q}.

(* ------------------------------------------------------------------ *)
(* keyed lists                                                          *)
Section Keyed.
  Context {A : Type}.

  Lemma lookb_filter_ne k k' : forall m : list (Z * A), k' <> k ->
    lookb k' (filter (fun e => negb (fst e =? k)) m) = lookb k' m.
  Proof.
    induction m as [|[x v] m IH]; intros N; [reflexivity|]. cbn [filter fst lookb].
    destruct (x =? k) eqn:E; cbn [negb].
    - apply Z.eqb_eq in E. subst x. destruct (k =? k') eqn:E2; [apply Z.eqb_eq in E2; congruence|]. apply IH. exact N.
    - cbn [lookb]. destruct (x =? k'); [reflexivity|]. apply IH. exact N.
  Qed.

  Lemma lookb_putb_same k (v : A) m : lookb k (putb k v m) = Some v.
  Proof. unfold putb. cbn [lookb]. rewrite Z.eqb_refl. reflexivity. Qed.

  Lemma lookb_putb_other k k' (v : A) m : k' <> k -> lookb k' (putb k v m) = lookb k' m.
  Proof.
    intros N. unfold putb. cbn [lookb]. destruct (k =? k') eqn:E; [apply Z.eqb_eq in E; congruence|].
    apply lookb_filter_ne. exact N.
  Qed.

  Lemma lookb_putb k k' (v : A) m : lookb k' (putb k v m) = if k' =? k then Some v else lookb k' m.
  Proof.
    destruct (k' =? k) eqn:E.
    - apply Z.eqb_eq in E. subst. apply lookb_putb_same.
    - apply Z.eqb_neq in E. apply lookb_putb_other. exact E.
  Qed.

  Lemma lookb_map_snd {B} (f : A -> B) k : forall m : list (Z * A),
    lookb k (map (fun e => (fst e, f (snd e))) m) = option_map f (lookb k m).
  Proof. induction m as [|[x v] m IH]; [reflexivity|]. cbn [map lookb fst snd]. destruct (x =? k); [reflexivity|exact IH]. Qed.

  Lemma lookb_some_in k : forall (m : list (Z * A)) v, lookb k m = Some v -> In (k, v) m.
  Proof.
    induction m as [|[x w] m IH]; intros v H; [discriminate|]. cbn [lookb] in H. destruct (x =? k) eqn:E.
    - apply Z.eqb_eq in E. inversion H; subst. left. reflexivity.
    - right. apply IH. exact H.
  Qed.

  Lemma in_lookb k v : forall m : list (Z * A), NoDup (map fst m) -> In (k, v) m -> lookb k m = Some v.
  Proof.
    induction m as [|[x w] m IH]; intros ND I; [destruct I|]. cbn [lookb]. inversion ND as [|? ? N1 N2]; subst.
    destruct I as [I|I].
    - inversion I; subst. rewrite Z.eqb_refl. reflexivity.
    - destruct (x =? k) eqn:E; [|apply IH; assumption]. apply Z.eqb_eq in E. subst x. exfalso. apply N1.
      change k with (fst (k, v)). apply in_map. exact I.
  Qed.

  Lemma lookb_none_notin k : forall m : list (Z * A), lookb k m = None -> ~ In k (map fst m).
  Proof.
    induction m as [|[x w] m IH]; intros H; [intros []|]. cbn [lookb] in H. destruct (x =? k) eqn:E; [discriminate|].
    apply Z.eqb_neq in E. cbn [map fst]. intros [I|I]; [contradiction|]. exact (IH H I).
  Qed.

  Lemma lookb_perm k (m1 m2 : list (Z * A)) : NoDup (map fst m1) -> Permutation m1 m2 -> lookb k m1 = lookb k m2.
  Proof.
    intros ND P.
    assert (ND2 : NoDup (map fst m2)) by (eapply Permutation_NoDup; [apply Permutation_map; exact P|exact ND]).
    destruct (lookb k m1) as [v|] eqn:E1.
    - symmetry. apply in_lookb; [exact ND2|]. eapply Permutation_in; [exact P|]. apply lookb_some_in. exact E1.
    - destruct (lookb k m2) as [v|] eqn:E2; [|reflexivity].
      exfalso. apply (lookb_none_notin _ _ E1). change k with (fst (k, v)). apply in_map.
      eapply Permutation_in; [apply Permutation_sym; exact P|]. apply lookb_some_in. exact E2.
  Qed.
End Keyed.

(* ------------------------------------------------------------------ *)
(* (1) the result: QUAL, key, share                                     *)
Section Result.
  Variable q : Z.
  Notation F := (zq q).
  Add Ring zqRR : (zq_ring q).

  Definition sec_of (s : rst q) (i : Z) : F := match lookb i (r_ver s) with Some a => a_sec a | None => zzero end.
  Definition com_of (s : rst q) (i : Z) : list F := match lookb i (r_commits s) with Some p => p | None => [] end.

  Definition rfold (s : rst q) := fun (acc : option (option (list F) * F)) i =>
    match acc with
    | None => None
    | Some (pub, sh) =>
        match lookb i (r_ver s), lookb i (r_commits s) with
        | Some a, Some p =>
            match pub with
            | None => Some (Some p, zadd sh (a_sec a))
            | Some p0 => if Nat.eqb (length p0) (length p) then Some (Some (poly_add q p0 p), zadd sh (a_sec a)) else None
            end
        | _, _ => None
        end
    end.

  Lemma rfold_none s l : fold_left (rfold s) l None = None.
  Proof. induction l; cbn; auto. Qed.

  Definition rc0_acc (pub : option (list F)) : F := match pub with Some p => hd zzero p | None => zzero end.
  Definition racc_ok (x : F) (pub : option (list F)) (sh : F) : Prop :=
    match pub with None => sh = zzero | Some p => commit q sh = peval q p x end.

  Lemma rcommit_add (a b : F) : commit q (zadd a b) = padd (commit q a) (commit q b).
  Proof. unfold commit, smul, padd, pbase. ring. Qed.
  Lemma rcommit_zero : commit q zzero = (zzero : F).
  Proof. unfold commit, smul, pbase. ring. Qed.
  Lemma rpeval_poly_add (a b : list F) x :
    length a = length b -> peval q (poly_add q a b) x = padd (peval q a x) (peval q b x).
  Proof.
    revert b. induction a as [|u a IH]; intros [|v b] L; try discriminate; cbn.
    - unfold padd. ring.
    - rewrite IH by (cbn in L; lia). unfold padd. ring.
  Qed.
  Lemma rhd_poly_add (a b : list F) : length a = length b -> hd zzero (poly_add q a b) = padd (hd zzero a) (hd zzero b).
  Proof. destruct a, b; cbn; intros L; try discriminate; [|reflexivity]. unfold padd. ring. Qed.

  Lemma rfold_inv s x : forall l pub0 sh0 pub sh,
    fold_left (rfold s) l (Some (pub0, sh0)) = Some (pub, sh) ->
    (forall i, In i l -> exists a p, lookb i (r_ver s) = Some a /\ lookb i (r_commits s) = Some p) /\
    rc0_acc pub = padd (rc0_acc pub0) (psum (map (fun i => hd zzero (com_of s i)) l)) /\
    sh = zadd sh0 (fold_right zadd zzero (map (sec_of s) l)) /\
    ((forall i, In i l -> commit q (sec_of s i) = peval q (com_of s i) x) -> racc_ok x pub0 sh0 -> racc_ok x pub sh).
  Proof.
    induction l as [|i l IH]; intros pub0 sh0 pub sh H.
    - cbn in H. inversion H; subst. cbn. repeat split; auto; try ring. { intros i []. } unfold padd, pzero. ring.
    - cbn [fold_left] in H. unfold rfold at 2 in H.
      destruct (lookb i (r_ver s)) as [a|] eqn:EV; [|rewrite rfold_none in H; discriminate].
      destruct (lookb i (r_commits s)) as [p|] eqn:EC; [|rewrite rfold_none in H; discriminate].
      assert (SE : sec_of s i = a_sec a) by (unfold sec_of; rewrite EV; reflexivity).
      assert (CE : com_of s i = p) by (unfold com_of; rewrite EC; reflexivity).
      destruct pub0 as [p0|].
      + destruct (Nat.eqb (length p0) (length p)) eqn:LE; [|rewrite rfold_none in H; discriminate].
        apply Nat.eqb_eq in LE. apply IH in H. destruct H as (H0 & H1 & H2 & H3). repeat split.
        * intros j [<-|I]; [exists a, p; split; assumption|apply H0; exact I].
        * rewrite H1. cbn [rc0_acc map]. rewrite CE, rhd_poly_add by exact LE.
          change (psum (hd zzero p :: ?r)) with (padd (hd zzero p) (psum r)). unfold padd. ring.
        * rewrite H2. cbn [map fold_right]. rewrite SE. ring.
        * intros V A0. apply H3; [intros j I; apply V; right; exact I|].
          cbn in *. rewrite rcommit_add, rpeval_poly_add by exact LE. rewrite A0, <- SE, (V i (or_introl eq_refl)), CE. reflexivity.
      + apply IH in H. destruct H as (H0 & H1 & H2 & H3). repeat split.
        * intros j [<-|I]; [exists a, p; split; assumption|apply H0; exact I].
        * rewrite H1. cbn [rc0_acc map]. rewrite CE.
          change (psum (hd zzero p :: ?r)) with (padd (hd zzero p) (psum r)). unfold padd. ring.
        * rewrite H2. cbn [map fold_right]. rewrite SE. ring.
        * intros V A0. apply H3; [intros j I; apply V; right; exact I|].
          cbn in *. rewrite A0, rcommit_add, <- SE, (V i (or_introl eq_refl)), CE, rcommit_zero. unfold padd. ring.
  Qed.

  (* DistKeyShare: at least t qualified dealers; the public key is the sum of
     the qualified dealers' constant commitments; the share is the sum of the
     shares received from them and lies on the output polynomial when every
     stored commitment polynomial is valid for the share received from its dealer *)
  Theorem rabin_result_spec n t me (s : rst q) p sh :
    dist_key_share q n t s = Some (p, sh) ->
    t <= Z.of_nat (length (qual q n s)) /\
    (forall i, In i (qual q n s) -> exists a pc, lookb i (r_ver s) = Some a /\ lookb i (r_commits s) = Some pc) /\
    hd zzero p = psum (map (fun i => hd zzero (com_of s i)) (qual q n s)) /\
    sh = fold_right zadd zzero (map (sec_of s) (qual q n s)) /\
    ((forall i, In i (qual q n s) -> commit q (sec_of s i) = peval q (com_of s i) (xof q me)) ->
     commit q sh = peval q p (xof q me)).
  Proof.
    unfold dist_key_share. destruct (Z.of_nat (length (qual q n s)) <? t) eqn:LT; [discriminate|]. apply Z.ltb_ge in LT.
    fold (rfold s).
    destruct (fold_left (rfold s) (qual q n s) (Some (None, zzero))) as [[[pp|] ss]|] eqn:E; try discriminate.
    intros H. inversion H; subst pp ss. clear H.
    apply (rfold_inv s (xof q me)) in E. destruct E as (H0 & H1 & H2 & H3).
    split; [exact LT|]. split; [exact H0|]. split; [|split].
    - cbn in H1. rewrite H1. unfold padd. ring.
    - rewrite H2. ring.
    - intros V. apply (H3 V). reflexivity.
  Qed.
End Result.

(* ------------------------------------------------------------------ *)
(* (2) agreement; (3) who is in QUAL                                    *)
Section Qual.
  Variable q : Z.
  Notation F := (zq q).

  Definition idxs (n : Z) : list Z := map Z.of_nat (seq 0 (Z.to_nat n)).

  Lemma in_idxs n i : In i (idxs n) <-> 0 <= i < n.
  Proof.
    unfold idxs. rewrite in_map_iff. split.
    - intros (k & <- & I). apply in_seq in I. lia.
    - intros H. exists (Z.to_nat i). split; [lia|]. apply in_seq. lia.
  Qed.

  (* the public part of an aggregator: recorded responses, bad-dealer flag, threshold *)
  Definition agg_pub (a : agg q) : list (Z * bool) * bool * Z := (a_resps a, a_bad a, a_t a).

  Lemma deal_certified_pub n (a b : agg q) : agg_pub a = agg_pub b -> deal_certified q n a = deal_certified q n b.
  Proof. destruct a, b. unfold agg_pub. cbn. intros H. inversion H; subst. reflexivity. Qed.

  (* public view of a node: per dealer, the public part of its aggregator,
     whether a complaint against it is pending, its stored secret commitments *)
  Definition rview (n : Z) (s : rst q) :=
    map (fun i => (option_map agg_pub (lookb i (r_ver s)), has_pend i (r_pend s), lookb i (r_commits s))) (idxs n).

  Lemma map_eq_in {A B} (f g : A -> B) : forall l, map f l = map g l -> forall x, In x l -> f x = g x.
  Proof. induction l as [|a l IH]; intros H x I; [destruct I|]. cbn in H. inversion H. destruct I as [<-|I]; auto. Qed.

  Lemma qual_filter n s : qual q n s = filter (fun i => match lookb i (r_ver s) with
                                                        | Some a => deal_certified q n a && negb (has_pend i (r_pend s))
                                                        | None => false end) (idxs n).
  Proof. reflexivity. Qed.

  Theorem qual_view n (s1 s2 : rst q) : rview n s1 = rview n s2 -> qual q n s1 = qual q n s2.
  Proof.
    intros V. rewrite !qual_filter. apply filter_ext_in. intros i I.
    pose proof (map_eq_in _ _ _ V i I) as E. cbn in E. inversion E as [[E1 E2 E3]]. rewrite E2.
    destruct (lookb i (r_ver s1)) as [a|], (lookb i (r_ver s2)) as [b|]; cbn in E1; try discriminate; [|reflexivity].
    assert (E1' : agg_pub a = agg_pub b) by congruence. rewrite (deal_certified_pub n a b E1'). reflexivity.
  Qed.

  Lemma rfold_view (s1 s2 : rst q) : forall l pub0 sh1 sh2 pub1 sh1' pub2 sh2',
    (forall i, In i l -> lookb i (r_commits s1) = lookb i (r_commits s2)) ->
    fold_left (rfold q s1) l (Some (pub0, sh1)) = Some (pub1, sh1') ->
    fold_left (rfold q s2) l (Some (pub0, sh2)) = Some (pub2, sh2') ->
    pub1 = pub2.
  Proof.
    induction l as [|i l IH]; intros pub0 sh1 sh2 pub1 sh1' pub2 sh2' C H1 H2.
    - cbn in *. congruence.
    - cbn [fold_left] in H1, H2. unfold rfold at 2 in H1. unfold rfold at 2 in H2.
      rewrite <- (C i (or_introl eq_refl)) in H2.
      destruct (lookb i (r_ver s1)) as [a1|]; [|rewrite rfold_none in H1; discriminate].
      destruct (lookb i (r_ver s2)) as [a2|]; [|rewrite rfold_none in H2; discriminate].
      destruct (lookb i (r_commits s1)) as [p|]; [|rewrite rfold_none in H1; discriminate].
      assert (C' : forall j, In j l -> lookb j (r_commits s1) = lookb j (r_commits s2)) by (intros j I; apply C; right; exact I).
      destruct pub0 as [p0|].
      + destruct (Nat.eqb (length p0) (length p)); [|rewrite rfold_none in H1; discriminate]. eapply IH; eassumption.
      + eapply IH; eassumption.
  Qed.

  (* two nodes with the same public view that both complete output the same
     QUAL and the same commitment polynomial (their shares differ, of course) *)
  Theorem rabin_agreement n t (s1 s2 : rst q) p1 sh1 p2 sh2 :
    rview n s1 = rview n s2 ->
    dist_key_share q n t s1 = Some (p1, sh1) -> dist_key_share q n t s2 = Some (p2, sh2) ->
    qual q n s1 = qual q n s2 /\ p1 = p2.
  Proof.
    intros V H1 H2. pose proof (qual_view n s1 s2 V) as Q. split; [exact Q|].
    unfold dist_key_share in H1, H2. rewrite <- Q in H2.
    destruct (Z.of_nat (length (qual q n s1)) <? t); [discriminate|].
    fold (rfold q s1) in H1. fold (rfold q s2) in H2.
    destruct (fold_left (rfold q s1) (qual q n s1) (Some (None, zzero))) as [[[pp1|] ss1]|] eqn:E1; try discriminate.
    destruct (fold_left (rfold q s2) (qual q n s1) (Some (None, zzero))) as [[[pp2|] ss2]|] eqn:E2; try discriminate.
    inversion H1; inversion H2; subst.
    assert (E : Some p1 = Some p2); [|inversion E; reflexivity].
    eapply (rfold_view s1 s2); [|exact E1|exact E2].
    intros i I. rewrite qual_filter in I. apply filter_In in I. destruct I as [I _].
    pose proof (map_eq_in _ _ _ V i I) as E. cbn beta in E. congruence.
  Qed.

  (* membership in QUAL *)
  Theorem in_qual_iff n (s : rst q) i :
    In i (qual q n s) <->
    0 <= i < n /\ exists a, lookb i (r_ver s) = Some a /\ deal_certified q n a = true /\ has_pend i (r_pend s) = false.
  Proof.
    rewrite qual_filter, filter_In, in_idxs. split.
    - intros [R H]. split; [exact R|]. destruct (lookb i (r_ver s)) as [a|]; [|discriminate].
      apply andb_true_iff in H. destruct H as [H1 H2]. apply negb_true_iff in H2. exists a. auto.
    - intros [R (a & -> & H1 & H2)]. split; [exact R|]. rewrite H1, H2. reflexivity.
  Qed.

  Lemma has_pend_in d v (l : list (Z * Z)) : In (d, v) l -> has_pend d l = true.
  Proof. intros I. unfold has_pend. apply existsb_exists. exists (d, v). split; [exact I|apply Z.eqb_refl]. Qed.

  (* a dealer against whom a complaint is pending is not in QUAL ... *)
  Theorem pending_complaint_disqualifies n (s : rst q) d v : In (d, v) (r_pend s) -> ~ In d (qual q n s).
  Proof. intros I H. apply in_qual_iff in H. destruct H as (_ & a & _ & _ & HP). rewrite (has_pend_in d v _ I) in HP. discriminate. Qed.

  (* ... nor is a dealer flagged bad by an invalid justification *)
  Theorem bad_dealer_disqualified n (s : rst q) d a : lookb d (r_ver s) = Some a -> a_bad a = true -> ~ In d (qual q n s).
  Proof.
    intros L B H. apply in_qual_iff in H. destruct H as (_ & a' & L' & DC & _). rewrite L in L'. inversion L'; subst a'.
    unfold deal_certified in DC. rewrite B in DC. rewrite andb_false_r in DC. discriminate.
  Qed.

  (* a dealer whose deal every participant approved (complaints that were
     validly justified count as approvals) is in QUAL *)
  Definition all_approved (n : Z) (a : agg q) : Prop := forall i, 0 <= i < n -> lookb i (a_resps a) = Some true.

  Lemma approvals_all n (a : agg q) : all_approved n a -> n <= approvals q a.
  Proof.
    intros H. unfold approvals.
    set (L := map (fun i => (i, true)) (idxs n)).
    assert (LL : Z.of_nat (length L) = Z.max 0 n).
    { unfold L, idxs. rewrite !map_length, seq_length. lia. }
    assert (NL : NoDup L).
    { unfold L, idxs. rewrite map_map. apply FinFun.Injective_map_NoDup; [|apply seq_NoDup].
      intros x y E. inversion E. lia. }
    assert (IL : incl L (filter (fun e : Z * bool => snd e) (a_resps a))).
    { intros e I. unfold L in I. apply in_map_iff in I. destruct I as (i & <- & I). apply in_idxs in I.
      apply filter_In. split; [apply lookb_some_in, H; exact I|reflexivity]. }
    pose proof (NoDup_incl_length NL IL). lia.
  Qed.

  Theorem approved_dealer_in_qual n (s : rst q) d a :
    0 <= d < n -> lookb d (r_ver s) = Some a -> all_approved n a -> a_t a <= n -> a_bad a = false ->
    has_pend d (r_pend s) = false -> In d (qual q n s).
  Proof.
    intros R L AA T B P. apply in_qual_iff. split; [exact R|]. exists a. repeat split; auto.
    unfold deal_certified, enough_approvals. rewrite B. cbn [negb]. rewrite andb_true_r. apply andb_true_iff. split.
    - apply Z.geb_le. pose proof (approvals_all n a AA). lia.
    - unfold all_responded. apply forallb_forall. intros k I. apply in_seq in I. rewrite AA by lia. reflexivity.
  Qed.
End Qual.

(* ------------------------------------------------------------------ *)
(* (4) along a run                                                      *)
Section Run.
  Variable q : Z.
  Notation F := (zq q).
  Variables n t me : Z.

  Definition rstep (s : rst q) (k : rcall q) : rst q := fst (rabin_step q n t me s k).
  Definition rexec (s : rst q) (ks : list (rcall q)) : rst q := fold_left rstep ks s.

  (* what never changes / only grows in an aggregator *)
  Definition agg_pres (a a' : agg q) : Prop :=
    a_sec a' = a_sec a /\ a_t a' = a_t a /\ (a_bad a = true -> a_bad a' = true).

  Lemma agg_pres_refl a : agg_pres a a.
  Proof. repeat split; auto. Qed.
  Lemma agg_pres_trans a b c : agg_pres a b -> agg_pres b c -> agg_pres a c.
  Proof. intros (A1 & A2 & A3) (B1 & B2 & B3). repeat split; try congruence. auto. Qed.

  Lemma add_response_pres a i ap a' : add_response q n a i ap = Some a' -> agg_pres a a'.
  Proof.
    unfold add_response. destruct (negb (in_range n i)); [discriminate|]. destruct (lookb i (a_resps a)); [discriminate|].
    intros H. inversion H; subst. repeat split; auto.
  Qed.

  Lemma add_response_quiet_pres a i ap : agg_pres a (add_response_quiet q n a i ap).
  Proof.
    unfold add_response_quiet. destruct (add_response q n a i ap) eqn:E; [eapply add_response_pres; exact E|apply agg_pres_refl].
  Qed.

  Lemma verify_justification_pres a i valid : agg_pres a (fst (verify_justification q n a i valid)).
  Proof.
    unfold verify_justification. destruct (negb (in_range n i)); [apply agg_pres_refl|].
    destruct (lookb i (a_resps a)) as [[|]|]; try apply agg_pres_refl.
    destruct valid; cbn [fst]; repeat split; auto.
  Qed.

  Lemma clean_verifiers_pres a : agg_pres a (clean_verifiers q n a).
  Proof.
    unfold clean_verifiers. generalize (seq 0 (Z.to_nat n)). intros l. revert a.
    induction l as [|i l IH]; intros a; cbn [fold_left]; [apply agg_pres_refl|].
    eapply agg_pres_trans; [|apply IH]. apply add_response_quiet_pres.
  Qed.

  (* a verifier record, once created, keeps its secret share and threshold, and stays bad once bad *)
  Lemma step_ver_pres (s : rst q) k i a :
    lookb i (r_ver s) = Some a -> exists a', lookb i (r_ver (rstep s k)) = Some a' /\ agg_pres a a'.
  Proof.
    intros L. unfold rstep, rabin_step.
    assert (SAME : exists a', lookb i (r_ver s) = Some a' /\ agg_pres a a') by (exists a; split; [exact L|apply agg_pres_refl]).
    destruct k as [dealer ok approved tv sec oe oa|dealer idx approved sid_ok sig_ok own_valid oe oj|dealer idx valid oe| |obs|obs|idx commits sid_ok sig_ok oe oc|obs].
    - destruct (negb (in_range n dealer)); [exact SAME|].
      destruct (lookb dealer (r_ver s)) eqn:LD; [exact SAME|]. destruct (negb ok); [exact SAME|]. cbn [fst r_ver].
      assert (i <> dealer) by congruence. rewrite lookb_putb_other by assumption. exact SAME.
    - destruct (lookb dealer (r_ver s)) as [a0|] eqn:LD; [|exact SAME].
      destruct (negb sid_ok || negb (in_range n idx) || negb sig_ok); [exact SAME|].
      destruct (add_response q n a0 idx approved) as [a1|] eqn:AR; [|exact SAME].
      pose proof (add_response_pres _ _ _ _ AR) as P1.
      assert (S1 : exists a', lookb i (putb dealer a1 (r_ver s)) = Some a' /\ agg_pres a a').
      { rewrite lookb_putb. destruct (i =? dealer) eqn:E; [|exact SAME]. apply Z.eqb_eq in E. subst i.
        rewrite L in LD. inversion LD; subst a0. exists a1. auto. }
      destruct (negb (dealer =? me)); [exact S1|].
      destruct (add_response q n (r_own s) idx approved) as [o'|]; [|exact S1].
      destruct approved; [exact S1|].
      pose proof (verify_justification_pres a1 idx own_valid) as P2.
      destruct (verify_justification q n a1 idx own_valid) as [a2 okj]. cbn [fst] in P2. cbn [fst r_ver].
      rewrite lookb_putb. destruct (i =? dealer) eqn:E.
      + apply Z.eqb_eq in E. subst i. rewrite L in LD. inversion LD; subst a0. exists a2. split; [reflexivity|].
        eapply agg_pres_trans; eassumption.
      + rewrite lookb_putb, E. exact SAME.
    - destruct (lookb dealer (r_ver s)) as [a0|] eqn:LD; [|exact SAME].
      pose proof (verify_justification_pres a0 idx valid) as P2.
      destruct (verify_justification q n a0 idx valid) as [a2 okj]. cbn [fst] in P2. cbn [fst r_ver].
      rewrite lookb_putb. destruct (i =? dealer) eqn:E; [|exact SAME].
      apply Z.eqb_eq in E. subst i. rewrite L in LD. inversion LD; subst a0. exists a2. auto.
    - cbn [fst r_ver]. rewrite lookb_map_snd, L. cbn. eexists. split; [reflexivity|apply clean_verifiers_pres].
    - exact SAME.
    - destruct (deal_certified q n (r_own s)); [destruct obs|]; exact SAME.
    - destruct (negb (in_range n idx)); [exact SAME|]. destruct (negb (in_qual q n s idx)); [exact SAME|].
      destruct (negb sid_ok || negb sig_ok); [exact SAME|]. destruct (lookb idx (r_ver s)); [|exact SAME].
      destruct (zeqb _ _); exact SAME.
    - exact SAME.
  Qed.

  Lemma exec_ver_pres ks : forall (s : rst q) i a,
    lookb i (r_ver s) = Some a -> exists a', lookb i (r_ver (rexec s ks)) = Some a' /\ agg_pres a a'.
  Proof.
    induction ks as [|k ks IH]; intros s i a L; cbn [rexec fold_left].
    - exists a. split; [exact L|apply agg_pres_refl].
    - destruct (step_ver_pres s k i a L) as (a1 & L1 & P1). destruct (IH _ _ _ L1) as (a2 & L2 & P2).
      exists a2. split; [exact L2|eapply agg_pres_trans; eassumption].
  Qed.

  (* ---- stored secret commitments are valid for the share received from their dealer ---- *)
  Definition commits_ok (s : rst q) : Prop :=
    forall i p, i <> me -> lookb i (r_commits s) = Some p ->
      exists a, lookb i (r_ver s) = Some a /\ peval q p (xof q me) = commit q (a_sec a).

  Lemma commits_ok_ver (s s' : rst q) :
    r_commits s' = r_commits s ->
    (forall i a, lookb i (r_ver s) = Some a -> exists a', lookb i (r_ver s') = Some a' /\ agg_pres a a') ->
    commits_ok s -> commits_ok s'.
  Proof.
    intros EC V H i p N L. rewrite EC in L. destruct (H i p N L) as (a & LA & E).
    destruct (V i a LA) as (a' & LA' & (S & _)). exists a'. split; [exact LA'|]. rewrite S. exact E.
  Qed.

  (* ProcessSecretCommits stores the commitments of another dealer only after
     checking them against the share received from that dealer; nothing else
     writes them (SecretCommits stores the node's OWN commitments) *)
  Theorem step_commits_ok (s : rst q) k : commits_ok s -> commits_ok (rstep s k).
  Proof.
    intros H.
    assert (V : forall i a, lookb i (r_ver s) = Some a -> exists a', lookb i (r_ver (rstep s k)) = Some a' /\ agg_pres a a')
      by (intros i a; apply step_ver_pres).
    destruct k as [dealer ok approved tv sec oe oa|dealer idx approved sid_ok sig_ok own_valid oe oj|dealer idx valid oe| |obs|obs|idx commits sid_ok sig_ok oe oc|obs].
    - apply (commits_ok_ver s); [|exact V|exact H].
      unfold rstep, rabin_step. destruct (negb (in_range n dealer)); [reflexivity|].
      destruct (lookb dealer (r_ver s)); [reflexivity|]. destruct (negb ok); reflexivity.
    - apply (commits_ok_ver s); [|exact V|exact H].
      unfold rstep, rabin_step. destruct (lookb dealer (r_ver s)) as [a0|]; [|reflexivity].
      destruct (negb sid_ok || negb (in_range n idx) || negb sig_ok); [reflexivity|].
      destruct (add_response q n a0 idx approved) as [a1|]; [|reflexivity].
      destruct (negb (dealer =? me)); [reflexivity|].
      destruct (add_response q n (r_own s) idx approved); [|reflexivity]. destruct approved; [reflexivity|].
      destruct (verify_justification q n a1 idx own_valid). reflexivity.
    - apply (commits_ok_ver s); [|exact V|exact H].
      unfold rstep, rabin_step. destruct (lookb dealer (r_ver s)) as [a0|]; [|reflexivity].
      destruct (verify_justification q n a0 idx valid). reflexivity.
    - apply (commits_ok_ver s); [reflexivity|exact V|exact H].
    - exact H.
    - (* SecretCommits: own entry only *)
      unfold rstep, rabin_step. destruct (deal_certified q n (r_own s)); [destruct obs as [p0|]|]; try exact H.
      cbn [fst]. intros i p N L. cbn [r_commits] in L. rewrite lookb_putb_other in L by exact N. cbn [r_ver]. apply H; assumption.
    - (* ProcessSecretCommits *)
      unfold rstep, rabin_step. destruct (negb (in_range n idx)); [exact H|]. destruct (negb (in_qual q n s idx)); [exact H|].
      destruct (negb sid_ok || negb sig_ok); [exact H|]. destruct (lookb idx (r_ver s)) as [a0|] eqn:LA; [|exact H].
      destruct (zeqb (peval q commits (xof q me)) (commit q (a_sec a0))) eqn:CK; [|exact H].
      apply zeqb_eq in CK. cbn [fst]. intros i p N L. cbn [r_commits r_ver] in *. rewrite lookb_putb in L.
      destruct (i =? idx) eqn:E; [|apply H; assumption]. apply Z.eqb_eq in E. subst i. inversion L; subst p.
      exists a0. auto.
    - exact H.
  Qed.

  Theorem exec_commits_ok ks : forall s : rst q, commits_ok s -> commits_ok (rexec s ks).
  Proof. induction ks as [|k ks IH]; intros s H; [exact H|]. cbn [rexec fold_left]. apply IH, step_commits_ok, H. Qed.

  Lemma commits_ok_init : commits_ok (init_rst q t).
  Proof. intros i p _ L. discriminate. Qed.

  (* the share output at the end of a run lies on the output polynomial,
     provided the node's own secret commitments are those of the polynomial it
     dealt its own share from *)
  Theorem rabin_share_on_polynomial ks p sh :
    let s := rexec (init_rst q t) ks in
    dist_key_share q n t s = Some (p, sh) ->
    (In me (qual q n s) -> commit q (sec_of q s me) = peval q (com_of q s me) (xof q me)) ->
    commit q sh = peval q p (xof q me).
  Proof.
    intros s H OWN. destruct (rabin_result_spec q n t me s p sh H) as (_ & EX & _ & _ & SP). apply SP.
    intros i I. destruct (Z.eq_dec i me) as [->|N]; [apply OWN; exact I|].
    destruct (EX i I) as (a & pc & LA & LC).
    destruct (exec_commits_ok ks _ commits_ok_init i pc N LC) as (a' & LA' & E). fold s in LA'.
    rewrite LA in LA'. inversion LA'; subst a'. unfold sec_of, com_of. rewrite LA, LC. symmetry. exact E.
  Qed.

  (* ---- complaints stay pending until they are validly justified ---- *)
  Lemma in_del_pend d v d' v' l : In (d, v) l -> (d, v) <> (d', v') -> In (d, v) (del_pend d' v' l).
  Proof.
    intros I N. unfold del_pend. apply filter_In. split; [exact I|]. cbn [fst snd].
    destruct (d =? d') eqn:E1; [|reflexivity]. destruct (v =? v') eqn:E2; [|reflexivity].
    apply Z.eqb_eq in E1, E2. subst. contradiction.
  Qed.

  Definition justifies (d v : Z) (k : rcall q) : Prop := exists oe, k = RJust d v true oe.

  Theorem step_pending_kept (s : rst q) k d v :
    d <> me -> In (d, v) (r_pend s) -> ~ justifies d v k -> In (d, v) (r_pend (rstep s k)).
  Proof.
    intros NM I NJ. unfold rstep, rabin_step.
    destruct k as [dealer ok approved tv sec oe oa|dealer idx approved sid_ok sig_ok own_valid oe oj|dealer idx valid oe| |obs|obs|idx commits sid_ok sig_ok oe oc|obs].
    - destruct (negb (in_range n dealer)); [exact I|]. destruct (lookb dealer (r_ver s)); [exact I|]. destruct (negb ok); [exact I|].
      cbn [fst r_pend]. destruct approved; [exact I|right; exact I].
    - destruct (lookb dealer (r_ver s)) as [a0|]; [|exact I].
      destruct (negb sid_ok || negb (in_range n idx) || negb sig_ok); [exact I|].
      destruct (add_response q n a0 idx approved) as [a1|]; [|exact I].
      assert (I1 : In (d, v) (if approved then r_pend s else add_pend dealer idx (r_pend s))) by (destruct approved; [exact I|right; exact I]).
      destruct (negb (dealer =? me)); [exact I1|].
      destruct (add_response q n (r_own s) idx approved); [|exact I1]. destruct approved; [exact I1|].
      destruct (verify_justification q n a1 idx own_valid) as [a2 [|]]; cbn [fst r_pend]; [|exact I1].
      apply in_del_pend; [exact I1|]. intros E. inversion E. congruence.
    - destruct (lookb dealer (r_ver s)) as [a0|]; [|exact I].
      destruct (verify_justification q n a0 idx valid) as [a2 okj] eqn:VJ. cbn [fst r_pend]. destruct okj; [|exact I].
      apply in_del_pend; [exact I|]. intros E. inversion E; subst dealer idx.
      assert (valid = true).
      { unfold verify_justification in VJ. destruct (negb (in_range n v)); [inversion VJ|].
        destruct (lookb v (a_resps a0)) as [[|]|]; try (inversion VJ; fail). destruct valid; [reflexivity|inversion VJ]. }
      subst valid. apply NJ. exists oe. reflexivity.
    - exact I.
    - exact I.
    - destruct (deal_certified q n (r_own s)); [destruct obs|]; exact I.
    - destruct (negb (in_range n idx)); [exact I|]. destruct (negb (in_qual q n s idx)); [exact I|].
      destruct (negb sid_ok || negb sig_ok); [exact I|]. destruct (lookb idx (r_ver s)); [|exact I]. destruct (zeqb _ _); exact I.
    - exact I.
  Qed.

  (* a dealer with a complaint that no valid justification answers is out of
     QUAL at the end, whatever else is processed (in particular a valid
     justification of ANOTHER complaint against the same dealer does not help) *)
  Theorem unjustified_dealer_disqualified ks : forall (s : rst q) d v,
    d <> me -> In (d, v) (r_pend s) -> (forall k, In k ks -> ~ justifies d v k) ->
    ~ In d (qual q n (rexec s ks)).
  Proof.
    induction ks as [|k ks IH]; intros s d v NM I NJ; cbn [rexec fold_left].
    - eapply pending_complaint_disqualifies. exact I.
    - apply (IH _ d v NM); [|intros k' I'; apply NJ; right; exact I'].
      apply step_pending_kept; [exact NM|exact I|apply NJ; left; reflexivity].
  Qed.

  (* a recorded complaint about another dealer becomes pending *)
  Theorem complaint_recorded (s : rst q) d v a oe oj :
    d <> me -> lookb d (r_ver s) = Some a -> 0 <= v < n -> lookb v (a_resps a) = None ->
    In (d, v) (r_pend (rstep s (RResp d v false true true true oe oj))).
  Proof.
    intros NM L R NR. unfold rstep, rabin_step. rewrite L. cbn [negb orb].
    assert (IR : in_range n v = true) by (unfold in_range; apply andb_true_iff; split; [apply Z.leb_le|apply Z.ltb_lt]; lia).
    rewrite IR. cbn [negb orb]. unfold add_response. rewrite IR, NR. cbn [negb].
    destruct (d =? me) eqn:E; [apply Z.eqb_eq in E; contradiction|]. cbn [negb fst r_pend]. left. reflexivity.
  Qed.

  (* an invalid justification of a recorded complaint condemns the dealer for good *)
  Theorem invalid_justification_disqualifies ks (s : rst q) d v a oe :
    lookb d (r_ver s) = Some a -> 0 <= v < n -> lookb v (a_resps a) = Some false ->
    ~ In d (qual q n (rexec (rstep s (RJust d v false oe)) ks)).
  Proof.
    intros L R C.
    assert (B : exists a1, lookb d (r_ver (rstep s (RJust d v false oe))) = Some a1 /\ a_bad a1 = true).
    { unfold rstep, rabin_step. rewrite L. unfold verify_justification.
      assert (IR : in_range n v = true) by (unfold in_range; apply andb_true_iff; split; [apply Z.leb_le|apply Z.ltb_lt]; lia).
      rewrite IR, C. cbn [negb fst r_ver]. rewrite lookb_putb_same. eexists. split; reflexivity. }
    destruct B as (a1 & L1 & B1). destruct (exec_ver_pres ks _ _ _ L1) as (a2 & L2 & (_ & _ & B2)).
    eapply bad_dealer_disqualified; [exact L2|auto].
  Qed.
End Run.

(* ------------------------------------------------------------------ *)
(* (5) order independence of the messages about OTHER dealers            *)
Lemma fold_left_perm_equiv {S A K} (E : S -> S -> Prop) (Inv : S -> Prop) (f : S -> A -> S) (key : A -> K) (ok : A -> Prop) :
  (forall s, E s s) -> (forall s1 s2 s3, E s1 s2 -> E s2 s3 -> E s1 s3) ->
  (forall s a, ok a -> Inv s -> Inv (f s a)) ->
  (forall s1 s2 a, ok a -> Inv s1 -> Inv s2 -> E s1 s2 -> E (f s1 a) (f s2 a)) ->
  (forall s a b, ok a -> ok b -> Inv s -> key a <> key b -> E (f (f s a) b) (f (f s b) a)) ->
  forall l l', Permutation l l' -> NoDup (map key l) -> (forall a, In a l -> ok a) ->
  forall s1 s2, Inv s1 -> Inv s2 -> E s1 s2 -> E (fold_left f l s1) (fold_left f l' s2).
Proof.
  intros Er Et Ip Rs Cm l l' P. induction P; intros ND OK s1 s2 I1 I2 H.
  - exact H.
  - cbn. inversion ND; subst. apply IHP; auto.
    + intros a I. apply OK. right. exact I.
    + apply Ip; [apply OK; left; reflexivity|exact I1].
    + apply Ip; [apply OK; left; reflexivity|exact I2].
    + apply Rs; auto. apply OK. left. reflexivity.
  - cbn. inversion ND as [|? ? N1 N2]; subst. inversion N2 as [|? ? N3 N4]; subst.
    assert (Oy : ok y) by (apply OK; left; reflexivity). assert (Ox : ok x) by (apply OK; right; left; reflexivity).
    assert (G : forall l0 sa sb, (forall a, In a l0 -> ok a) -> Inv sa -> Inv sb -> E sa sb -> E (fold_left f l0 sa) (fold_left f l0 sb)).
    { induction l0 as [|a l0 IH]; intros sa sb O Ia Ib Hab; [exact Hab|]. cbn. apply IH.
      - intros b Ib'. apply O. right. exact Ib'.
      - apply Ip; [apply O; left; reflexivity|exact Ia].
      - apply Ip; [apply O; left; reflexivity|exact Ib].
      - apply Rs; auto. apply O. left. reflexivity. }
    apply G.
    + intros a I. apply OK. right. right. exact I.
    + apply Ip; [exact Ox|apply Ip; [exact Oy|exact I1]].
    + apply Ip; [exact Oy|apply Ip; [exact Ox|exact I2]].
    + eapply Et; [apply Cm; auto|].
      * intros Eq. apply N1. left. symmetry. exact Eq.
      * apply Rs; [exact Oy|apply Ip; assumption|apply Ip; assumption|]. apply Rs; assumption.
  - assert (ND' : NoDup (map key l')) by (eapply Permutation_NoDup; [apply Permutation_map; exact P1|exact ND]).
    assert (OK' : forall a, In a l' -> ok a) by (intros a I; apply OK; eapply Permutation_in; [apply Permutation_sym; exact P1|exact I]).
    eapply Et; [apply (IHP1 ND OK s1 s1 I1 I1 (Er s1))|]. apply IHP2; assumption.
Qed.

Section Order.
  Variable q : Z.
  Notation F := (zq q).
  Variables n t me : Z.
  Local Notation rstep := (rstep q n t me).
  Local Notation rexec := (rexec q n t me).

  Definition agg_equiv (a b : agg q) : Prop :=
    Permutation (a_resps a) (a_resps b) /\ a_bad a = a_bad b /\ a_t a = a_t b /\ a_sec a = a_sec b.
  Definition agg_wf (a : agg q) : Prop := NoDup (map fst (a_resps a)).

  Definition ver_rel (x y : option (agg q)) : Prop :=
    match x, y with Some a, Some b => agg_equiv a b | None, None => True | _, _ => False end.

  (* equal up to the order in which responses, verifiers and complaints were recorded *)
  Definition st_equiv (s1 s2 : rst q) : Prop :=
    (forall d, ver_rel (lookb d (r_ver s1)) (lookb d (r_ver s2))) /\ r_own s1 = r_own s2 /\
    (forall d, lookb d (r_commits s1) = lookb d (r_commits s2)) /\ Permutation (r_pend s1) (r_pend s2).
  Definition st_wf (s : rst q) : Prop := forall d a, lookb d (r_ver s) = Some a -> agg_wf a.

  Lemma agg_equiv_refl a : agg_equiv a a.
  Proof. repeat split; reflexivity. Qed.
  Lemma agg_equiv_trans a b c : agg_equiv a b -> agg_equiv b c -> agg_equiv a c.
  Proof. intros (A1 & A2 & A3 & A4) (B1 & B2 & B3 & B4). repeat split; try congruence. etransitivity; eassumption. Qed.
  Lemma st_equiv_refl s : st_equiv s s.
  Proof. repeat split; try reflexivity. intros d. unfold ver_rel. destruct (lookb d (r_ver s)); [apply agg_equiv_refl|exact I]. Qed.
  Lemma st_equiv_trans s1 s2 s3 : st_equiv s1 s2 -> st_equiv s2 s3 -> st_equiv s1 s3.
  Proof.
    intros (A1 & A2 & A3 & A4) (B1 & B2 & B3 & B4). repeat split; try congruence; [|etransitivity; eassumption].
    intros d. specialize (A1 d). specialize (B1 d). unfold ver_rel in *.
    destruct (lookb d (r_ver s1)), (lookb d (r_ver s2)), (lookb d (r_ver s3)); try contradiction; auto.
    eapply agg_equiv_trans; eassumption.
  Qed.

  (* ---- aggregator operations respect the equivalence ---- *)
  Lemma add_response_equiv a b i ap : agg_wf a -> agg_equiv a b ->
    match add_response q n a i ap, add_response q n b i ap with
    | Some a', Some b' => agg_equiv a' b'
    | None, None => True
    | _, _ => False
    end.
  Proof.
    intros W (P & B & T & S). unfold add_response. destruct (negb (in_range n i)); [exact I|].
    rewrite <- (lookb_perm i _ _ W P). destruct (lookb i (a_resps a)); [exact I|].
    repeat split; cbn; auto. apply Permutation_app_tail. exact P.
  Qed.

  Lemma add_response_wf a i ap a' : agg_wf a -> add_response q n a i ap = Some a' -> agg_wf a'.
  Proof.
    unfold add_response, agg_wf. intros W. destruct (negb (in_range n i)); [discriminate|].
    destruct (lookb i (a_resps a)) eqn:L; [discriminate|]. intros H. inversion H; subst. cbn [a_resps].
    rewrite map_app. cbn [map fst]. eapply Permutation_NoDup; [apply Permutation_cons_append|].
    constructor; [exact (lookb_none_notin _ _ L)|exact W].
  Qed.

  Lemma lookb_app {A} k : forall l l' : list (Z * A),
    lookb k (l ++ l') = match lookb k l with Some v => Some v | None => lookb k l' end.
  Proof. induction l as [|[x v] l IH]; intros l'; [reflexivity|]. cbn [app lookb]. destruct (x =? k); [reflexivity|apply IH]. Qed.

  (* ---- a response about another dealer ---- *)
  Definition resp3 (s : rst q) (d i : Z) (ap so sg : bool) : rst q :=
    match lookb d (r_ver s) with
    | None => s
    | Some a =>
        if negb so || negb (in_range n i) || negb sg then s
        else match add_response q n a i ap with
             | None => s
             | Some a' => mkrst (putb d a' (r_ver s)) (r_own s) (r_commits s)
                                (if ap then r_pend s else add_pend d i (r_pend s))
             end
    end.

  Lemma rstep_resp_other s d i ap so sg ov oe oj : d <> me -> rstep s (RResp d i ap so sg ov oe oj) = resp3 s d i ap so sg.
  Proof.
    intros N. unfold RabinProofs.rstep, rabin_step, resp3. destruct (lookb d (r_ver s)) as [a|]; [|reflexivity].
    destruct (negb so || negb (in_range n i) || negb sg); [reflexivity|].
    destruct (add_response q n a i ap); [|reflexivity].
    destruct (d =? me) eqn:E; [apply Z.eqb_eq in E; contradiction|]. reflexivity.
  Qed.

  Lemma resp3_wf s d i ap so sg : st_wf s -> st_wf (resp3 s d i ap so sg).
  Proof.
    intros W. unfold resp3. destruct (lookb d (r_ver s)) as [a|] eqn:L; [|exact W].
    destruct (negb so || negb (in_range n i) || negb sg); [exact W|].
    destruct (add_response q n a i ap) as [a'|] eqn:AR; [|exact W].
    intros d' b. cbn [r_ver]. rewrite lookb_putb. destruct (d' =? d); [|apply W].
    intros H. inversion H; subst b. eapply add_response_wf; [apply (W d a L)|exact AR].
  Qed.

  Lemma resp3_respects s1 s2 d i ap so sg :
    st_wf s1 -> st_wf s2 -> st_equiv s1 s2 -> st_equiv (resp3 s1 d i ap so sg) (resp3 s2 d i ap so sg).
  Proof.
    intros W1 W2 E. pose proof E as (EV & EO & EC & EP). unfold resp3.
    pose proof (EV d) as Vd. unfold ver_rel in Vd.
    destruct (lookb d (r_ver s1)) as [a|] eqn:L1, (lookb d (r_ver s2)) as [b|] eqn:L2; try contradiction; [|exact E].
    destruct (negb so || negb (in_range n i) || negb sg); [exact E|].
    pose proof (add_response_equiv a b i ap (W1 d a L1) Vd) as AE.
    destruct (add_response q n a i ap) as [a'|], (add_response q n b i ap) as [b'|]; try contradiction; [|exact E].
    repeat split; cbn [r_ver r_own r_commits r_pend]; auto.
    - intros d'. rewrite !lookb_putb. destruct (d' =? d); [exact AE|apply EV].
    - destruct ap; [exact EP|]. unfold add_pend. constructor. exact EP.
  Qed.

  Lemma add_response_other_idx a i1 ap1 a1 i2 ap2 : i1 <> i2 -> add_response q n a i1 ap1 = Some a1 ->
    add_response q n a1 i2 ap2 =
    match add_response q n a i2 ap2 with
    | Some _ => Some (mkagg ((a_resps a ++ [(i1, ap1)]) ++ [(i2, ap2)]) (a_bad a) (a_t a) (a_sec a))
    | None => None
    end.
  Proof.
    intros N H. unfold add_response in *. destruct (negb (in_range n i1)); [discriminate|].
    destruct (lookb i1 (a_resps a)); [discriminate|]. inversion H; subst a1. cbn [a_resps a_bad a_t a_sec].
    destruct (negb (in_range n i2)); [reflexivity|]. rewrite lookb_app. destruct (lookb i2 (a_resps a)); [reflexivity|].
    cbn [lookb]. destruct (i1 =? i2) eqn:E; [apply Z.eqb_eq in E; contradiction|]. reflexivity.
  Qed.

  Lemma add_response_resps a i ap a' : add_response q n a i ap = Some a' ->
    a' = mkagg (a_resps a ++ [(i, ap)]) (a_bad a) (a_t a) (a_sec a).
  Proof.
    unfold add_response. destruct (negb (in_range n i)); [discriminate|]. destruct (lookb i (a_resps a)); [discriminate|].
    intros H. inversion H. reflexivity.
  Qed.

  Lemma perm_pend_swap (c1 c2 : bool) (x y : Z * Z) (l : list (Z * Z)) :
    Permutation (if c2 then (if c1 then l else x :: l) else y :: (if c1 then l else x :: l))
                (if c1 then (if c2 then l else y :: l) else x :: (if c2 then l else y :: l)).
  Proof. destruct c1, c2; try reflexivity. apply perm_swap. Qed.

  Lemma resp3_none s d i ap so sg : lookb d (r_ver s) = None -> resp3 s d i ap so sg = s.
  Proof. intros L. unfold resp3. rewrite L. reflexivity. Qed.
  Lemma resp3_bad s d i ap so sg : negb so || negb (in_range n i) || negb sg = true -> resp3 s d i ap so sg = s.
  Proof. intros B. unfold resp3. rewrite B. destruct (lookb d (r_ver s)); reflexivity. Qed.
  Lemma resp3_addnone s d i ap so sg a : lookb d (r_ver s) = Some a -> add_response q n a i ap = None -> resp3 s d i ap so sg = s.
  Proof. intros L A. unfold resp3. rewrite L, A. destruct (negb so || negb (in_range n i) || negb sg); reflexivity. Qed.
  Lemma resp3_some s d i ap so sg a a' : lookb d (r_ver s) = Some a -> negb so || negb (in_range n i) || negb sg = false ->
    add_response q n a i ap = Some a' ->
    resp3 s d i ap so sg = mkrst (putb d a' (r_ver s)) (r_own s) (r_commits s) (if ap then r_pend s else add_pend d i (r_pend s)).
  Proof. intros L B A. unfold resp3. rewrite L, B, A. reflexivity. Qed.

  Lemma resp3_commute s d1 i1 ap1 so1 sg1 d2 i2 ap2 so2 sg2 :
    st_wf s -> (d1, i1) <> (d2, i2) ->
    st_equiv (resp3 (resp3 s d1 i1 ap1 so1 sg1) d2 i2 ap2 so2 sg2) (resp3 (resp3 s d2 i2 ap2 so2 sg2) d1 i1 ap1 so1 sg1).
  Proof.
    intros W NE.
    destruct (Z.eq_dec d1 d2) as [ED|ND].
    - subst d2. assert (NI : i1 <> i2) by congruence.
      destruct (lookb d1 (r_ver s)) as [a|] eqn:L; [|rewrite !(resp3_none s) by exact L; apply st_equiv_refl].
      destruct (negb so1 || negb (in_range n i1) || negb sg1) eqn:B1.
      { rewrite (resp3_bad s d1 i1) by exact B1. rewrite (resp3_bad _ d1 i1) by exact B1. apply st_equiv_refl. }
      destruct (negb so2 || negb (in_range n i2) || negb sg2) eqn:B2.
      { rewrite (resp3_bad s d1 i2) by exact B2. rewrite (resp3_bad _ d1 i2) by exact B2. apply st_equiv_refl. }
      destruct (add_response q n a i1 ap1) as [a1|] eqn:A1, (add_response q n a i2 ap2) as [a2|] eqn:A2.
      + rewrite (resp3_some s d1 i1 ap1 so1 sg1 a a1 L B1 A1), (resp3_some s d1 i2 ap2 so2 sg2 a a2 L B2 A2).
        erewrite (resp3_some _ d1 i2 ap2 so2 sg2 a1); [|cbn [r_ver]; apply lookb_putb_same|exact B2|
          rewrite (add_response_other_idx a i1 ap1 a1 i2 ap2 NI A1), A2; reflexivity].
        erewrite (resp3_some _ d1 i1 ap1 so1 sg1 a2); [|cbn [r_ver]; apply lookb_putb_same|exact B1|
          rewrite (add_response_other_idx a i2 ap2 a2 i1 ap1 (not_eq_sym NI) A2), A1; reflexivity].
        repeat split; cbn [r_ver r_own r_commits r_pend]; auto.
        * intros d. rewrite !lookb_putb. destruct (d =? d1).
          -- repeat split; cbn; auto. rewrite <- !app_assoc. apply Permutation_app_head. apply perm_swap.
          -- unfold ver_rel. destruct (lookb d (r_ver s)); [apply agg_equiv_refl|exact I].
        * unfold add_pend. apply perm_pend_swap.
      + rewrite (resp3_addnone s d1 i2 ap2 so2 sg2 a L A2). rewrite !(resp3_some s d1 i1 ap1 so1 sg1 a a1 L B1 A1).
        rewrite (resp3_addnone _ d1 i2 ap2 so2 sg2 a1); [apply st_equiv_refl|cbn [r_ver]; apply lookb_putb_same|].
        rewrite (add_response_other_idx a i1 ap1 a1 i2 ap2 NI A1), A2. reflexivity.
      + rewrite (resp3_addnone s d1 i1 ap1 so1 sg1 a L A1). rewrite !(resp3_some s d1 i2 ap2 so2 sg2 a a2 L B2 A2).
        rewrite (resp3_addnone _ d1 i1 ap1 so1 sg1 a2); [apply st_equiv_refl|cbn [r_ver]; apply lookb_putb_same|].
        rewrite (add_response_other_idx a i2 ap2 a2 i1 ap1 (not_eq_sym NI) A2), A1. reflexivity.
      + rewrite (resp3_addnone s d1 i1 ap1 so1 sg1 a L A1), !(resp3_addnone s d1 i2 ap2 so2 sg2 a L A2).
        rewrite (resp3_addnone s d1 i1 ap1 so1 sg1 a L A1). apply st_equiv_refl.
    - (* different dealers: different records *)
      assert (K : forall (s0 : rst q) d i ap so sg d', d' <> d -> lookb d' (r_ver (resp3 s0 d i ap so sg)) = lookb d' (r_ver s0)).
      { intros s0 d i ap so sg d' N. unfold resp3. destruct (lookb d (r_ver s0)); [|reflexivity].
        destruct (negb so || negb (in_range n i) || negb sg); [reflexivity|]. destruct (add_response q n _ i ap); [|reflexivity].
        cbn [r_ver]. apply lookb_putb_other. exact N. }
      unfold resp3 at 1 3. rewrite (K s d1 i1 ap1 so1 sg1 d2 (not_eq_sym ND)), (K s d2 i2 ap2 so2 sg2 d1 ND).
      unfold resp3.
      destruct (lookb d1 (r_ver s)) as [a|] eqn:L1, (lookb d2 (r_ver s)) as [b|] eqn:L2; try apply st_equiv_refl.
      destruct (negb so1 || negb (in_range n i1) || negb sg1), (negb so2 || negb (in_range n i2) || negb sg2); try apply st_equiv_refl.
      destruct (add_response q n a i1 ap1) as [a1|], (add_response q n b i2 ap2) as [b2|]; try apply st_equiv_refl.
      repeat split; cbn [r_ver r_own r_commits r_pend]; auto.
      + intros d. rewrite !lookb_putb. destruct (d =? d1) eqn:E1, (d =? d2) eqn:E2; unfold ver_rel.
        * apply Z.eqb_eq in E1, E2. congruence.
        * apply agg_equiv_refl.
        * apply agg_equiv_refl.
        * destruct (lookb d (r_ver s)); [apply agg_equiv_refl|exact I].
      + unfold add_pend. apply perm_pend_swap.
  Qed.

  (* ---- QUAL and the commitment polynomial respect the equivalence ---- *)
  Lemma deal_certified_equiv a b : agg_wf a -> agg_equiv a b -> deal_certified q n a = deal_certified q n b.
  Proof.
    intros W (P & B & T & S).
    assert (EA : approvals q a = approvals q b).
    { unfold approvals. f_equal. apply Permutation_length.
      clear -P. induction P; cbn; auto; [destruct (snd x); auto|destruct (snd x), (snd y); auto; apply perm_swap|etransitivity; eassumption]. }
    assert (ER : all_responded q n a = all_responded q n b).
    { unfold all_responded. generalize (seq 0 (Z.to_nat n)). induction l as [|k l IH]; [reflexivity|]. cbn [forallb].
      rewrite IH, (lookb_perm (Z.of_nat k) _ _ W P). reflexivity. }
    unfold deal_certified, enough_approvals. rewrite EA, ER, B, T. reflexivity.
  Qed.

  Lemma has_pend_perm d (l1 l2 : list (Z * Z)) : Permutation l1 l2 -> has_pend d l1 = has_pend d l2.
  Proof.
    unfold has_pend. induction 1; cbn; auto; [congruence|destruct (fst x =? d), (fst y =? d); reflexivity|congruence].
  Qed.

  Theorem qual_equiv s1 s2 : st_wf s1 -> st_equiv s1 s2 -> qual q n s1 = qual q n s2.
  Proof.
    intros W (EV & _ & _ & EP). rewrite !qual_filter. apply filter_ext. intros i.
    specialize (EV i). unfold ver_rel in EV. rewrite (has_pend_perm i _ _ EP).
    destruct (lookb i (r_ver s1)) as [a|] eqn:L, (lookb i (r_ver s2)) as [b|]; try contradiction; [|reflexivity].
    rewrite (deal_certified_equiv a b (W i a L) EV). reflexivity.
  Qed.

  Lemma init_wf : st_wf (init_rst q t).
  Proof. intros d a L. discriminate. Qed.

  (* RESPONSE PHASE.  Responses about other dealers with pairwise distinct
     (dealer, verifier) - nobody equivocates - can be processed in any order:
     the states are equal up to the order of the records, so QUAL is the same
     (and, the stored commitments being untouched, so is the final polynomial) *)
  Definition is_resp3 (k : rcall q) : Prop :=
    match k with RResp d _ _ _ _ _ _ _ => d <> me | _ => False end.
  Definition rkey (k : rcall q) : Z * Z :=
    match k with RResp d i _ _ _ _ _ _ => (d, i) | RJust d i _ _ => (d, i) | _ => (-1, -1) end.

  Theorem responses_order_independent (ks ks' : list (rcall q)) (s : rst q) :
    Permutation ks ks' -> NoDup (map rkey ks) -> (forall k, In k ks -> is_resp3 k) -> st_wf s ->
    st_equiv (rexec s ks) (rexec s ks') /\ qual q n (rexec s ks) = qual q n (rexec s ks') /\
    (forall d, lookb d (r_commits (rexec s ks)) = lookb d (r_commits (rexec s ks'))).
  Proof.
    intros P ND OK W.
    assert (INV : forall l s0, (forall k, In k l -> is_resp3 k) -> st_wf s0 -> st_wf (rexec s0 l)).
    { induction l as [|k l IH]; intros s0 O W0; [exact W0|]. cbn [RabinProofs.rexec fold_left]. apply IH.
      - intros k' I. apply O. right. exact I.
      - pose proof (O k (or_introl eq_refl)) as Ok. destruct k; try contradiction. cbn in Ok.
        change (st_wf (rstep s0 (RResp dealer idx approved sid_ok sig_ok own_valid obs_err obs_just))).
        rewrite rstep_resp_other by exact Ok. apply resp3_wf. exact W0. }
    assert (E : st_equiv (rexec s ks) (rexec s ks')).
    { unfold RabinProofs.rexec.
      apply (fold_left_perm_equiv st_equiv st_wf (RabinProofs.rstep q n t me) rkey is_resp3); auto.
      - apply st_equiv_refl.
      - apply st_equiv_trans.
      - intros s0 k Ok W0. destruct k; try contradiction. cbn in Ok. rewrite rstep_resp_other by exact Ok. apply resp3_wf. exact W0.
      - intros s1 s2 k Ok W1 W2 E. destruct k; try contradiction. cbn in Ok. rewrite !rstep_resp_other by exact Ok.
        apply resp3_respects; assumption.
      - intros s0 a b Oa Ob W0 NK. destruct a; try contradiction. destruct b; try contradiction. cbn in Oa, Ob, NK.
        rewrite !rstep_resp_other by assumption. apply resp3_commute; assumption.
      - apply st_equiv_refl. }
    split; [exact E|]. split; [apply qual_equiv; [apply INV; assumption|exact E]|]. destruct E as (_ & _ & EC & _). exact EC.
  Qed.
End Order.
