(* DKG agreement, part 7: any Threshold output shares of honest nodes
   reconstruct (share.RecoverSecret, model Share/ShamirSM.v, theorem
   Share/ShamirProofs.recover_secret_correct = property C07) a secret whose
   commitment is the common public key; and every honest node may read its own
   permutation of the boards. *)
From Coq Require Import ZArith Znumtheory List Bool Lia Permutation.
From Kyber Require Import Algebra.Zq Algebra.Grp DKG.PedersenDKG DKG.PedersenProofs
  DKG.Agreement DKG.AgreementDeal DKG.AgreementResp DKG.AgreementJust DKG.AgreementProofs DKG.AgreementResult.
From Kyber Require Share.ShamirSM Share.ShamirProofs.
Import ListNotations.
Local Open Scope Z_scope.

Section Reconstruct.
  Variable q : Z.
  Hypothesis q_prime : prime q.
  Notation F := (zq q).
  Add Ring zqRrec : (zq_ring q).

  Lemma commit_id (s : F) : commit q s = s.
  Proof. unfold commit, smul, pbase. ring. Qed.

  Lemma peval_shamir (cs : list F) x : peval q cs x = ShamirSM.peval cs x.
  Proof.
    unfold ShamirSM.peval. induction cs as [|c cs IH]; [reflexivity|]. cbn [peval fold_right]. rewrite IH. ring.
  Qed.

  Lemma xof_xeval i : xof q i = ShamirSM.xeval q i.
  Proof. unfold xof, ShamirSM.xeval. f_equal. lia. Qed.

  Variable nodes : list (Z * Z).
  Variable thr : Z.
  Variable fast : bool.               (* Config.FastSync *)
  Notation honest := (honest q nodes thr fast).

  Definition out_idx (o : Z * cfg q * result q) : Z := fst (fst o).
  Definition out_entry (o : Z * cfg q * result q) : ShamirSM.entry q := Some (out_idx o, Some (res_share (snd o))).

  Lemma nonnil_entries outs : ShamirSM.nonnil (map out_entry outs) = map (fun o => (out_idx o, Some (res_share (snd o)))) outs.
  Proof. unfold ShamirSM.nonnil. induction outs as [|o outs IH]; [reflexivity|]. cbn. f_equal. exact IH. Qed.

  Lemma valid_idx_entries outs : ShamirProofs.valid_idx (map out_entry outs) = map out_idx outs.
  Proof.
    unfold ShamirProofs.valid_idx. rewrite nonnil_entries. unfold ShamirProofs.vidx.
    induction outs as [|o outs IH]; [reflexivity|]. cbn. f_equal. exact IH.
  Qed.

  (* [outs]: honest nodes (index, configuration, result) that completed.  Any
     Threshold of them (distinct indices, small enough to be x-coordinates)
     hand share.RecoverSecret shares from which it recovers a secret [s] with
     s*G = the constant commitment of the output polynomial of every one of
     them. *)
  Theorem any_t_shares_reconstruct (B : boards q) (outs : list (Z * cfg q * result q)) :
    boards_ok q B -> 1 <= thr ->
    (forall o, In o outs -> honest B (out_idx o) (snd (fst o)) /\ output q (snd (fst o)) B (snd o) /\
                            0 <= out_idx o < q - 1 /\ out_idx o < 4294967295) ->
    NoDup (map out_idx outs) -> (Z.to_nat thr <= length outs)%nat ->
    exists s, ShamirSM.recover_secret (Z.to_nat thr) (map out_entry outs) = Some s /\
              forall o, In o outs -> commit q s = hd zzero (res_commits (snd o)).
  Proof.
    intros OK T1 H ND LEN.
    destruct outs as [|o0 outs0] eqn:EO; [cbn in LEN; lia|]. rewrite <- EO in *.
    assert (I0 : In o0 outs) by (rewrite EO; left; reflexivity).
    set (C := res_commits (snd o0)).
    assert (SAME : forall o, In o outs -> res_commits (snd o) = C).
    { intros o I. destruct (Z.eq_dec (out_idx o) (out_idx o0)) as [E|N].
      - assert (o = o0) by (apply (nodup_key_inj out_idx outs _ _ ND I I0 E)). subst. reflexivity.
      - destruct (H o I) as (Ho & Oo & _). destruct (H o0 I0) as (H0 & O0 & _).
        apply (pedersen_agreement q nodes thr fast B _ _ _ _ _ _ OK Ho H0 N Oo O0). }
    exists (hd zzero C). split.
    - apply (ShamirProofs.recover_secret_correct q q_prime (Z.to_nat thr) C (map out_entry outs)).
      + lia.
      + destruct (H o0 I0) as (H0 & O0 & _).
        destruct (output_share_and_key q nodes thr fast B _ _ _ OK H0 O0) as (_ & _ & _ & L & _). unfold C. lia.
      + intros i y I. apply in_map_iff in I. destruct I as (o & E & I). unfold out_entry in E. inversion E; subst.
        destruct (H o I) as (Ho & Oo & R1 & R2). split; [exact R1|]. split; [exact R2|].
        destruct (output_share_and_key q nodes thr fast B _ _ _ OK Ho Oo) as (_ & SH & _).
        rewrite commit_id, (SAME o I), peval_shamir, xof_xeval in SH. exact SH.
      + rewrite valid_idx_entries, (nodup_fixed_point Z.eq_dec ND), map_length. exact LEN.
    - intros o I. rewrite commit_id, (SAME o I). reflexivity.
  Qed.
End Reconstruct.

(* ------------------------------------------------------------------ *)
(* delivery order: every honest node may be handed its own permutation of the
   three boards - what it sends and what it outputs is the same *)
Section Perm.
  Variable q : Z.

  Definition boards_perm (B B' : boards q) : Prop :=
    Permutation (bD B) (bD B') /\ Permutation (bR B) (bR B') /\ Permutation (bJ B) (bJ B').

  Theorem node_run_perm (c : cfg q) (B B' : boards q) :
    boards_ok q B -> boards_perm B B' ->
    st2 q c B = st2 q c B' /\ rbun q c B = rbun q c B' /\ rout q c B = rout q c B' /\
    jbun q c B = jbun q c B' /\ jout q c B = jout q c B'.
  Proof.
    intros (NDD & NDR & NDJ) (PD & PR & PJ).
    assert (E2 : process_deals q c (st1 q c) (bD B) = process_deals q c (st1 q c) (bD B'))
      by (apply process_deals_perm_invariant; assumption).
    assert (S2 : st2 q c B = st2 q c B') by (unfold st2; rewrite E2; reflexivity).
    assert (R2 : rbun q c B = rbun q c B') by (unfold rbun; rewrite E2; reflexivity).
    assert (RO : rout q c B = rout q c B').
    { unfold rout. rewrite S2. apply process_responses_perm_invariant; assumption. }
    assert (JB : jbun q c B = jbun q c B') by (unfold jbun; rewrite RO; reflexivity).
    assert (JO : jout q c B = jout q c B').
    { unfold jout. rewrite RO. apply process_justifs_perm_invariant; assumption. }
    auto.
  Qed.

  Corollary node_output_perm (c : cfg q) (B B' : boards q) r :
    boards_ok q B -> boards_perm B B' -> (output q c B r <-> output q c B' r).
  Proof.
    intros OK P. destruct (node_run_perm c B B' OK P) as (_ & _ & RO & _ & JO).
    unfold output, out_resp, out_just. rewrite RO, JO. reflexivity.
  Qed.

  (* agreement when every honest node reads its own permutation of the boards *)
  Variable nodes : list (Z * Z).
  Variable thr : Z.
  Variable fast : bool.

  Corollary pedersen_agreement_any_order (B Bi Bj : boards q) i ci j cj ri rj :
    boards_ok q B -> boards_perm B Bi -> boards_perm B Bj ->
    honest q nodes thr fast B i ci -> honest q nodes thr fast B j cj -> i <> j ->
    output q ci Bi ri -> output q cj Bj rj ->
    res_qual ri = res_qual rj /\ res_commits ri = res_commits rj.
  Proof.
    intros OK Pi Pj Hi Hj N Oi Oj.
    apply (node_output_perm ci B Bi ri OK Pi) in Oi. apply (node_output_perm cj B Bj rj OK Pj) in Oj.
    apply (pedersen_agreement q nodes thr fast B i ci j cj ri rj OK Hi Hj N Oi Oj).
  Qed.
End Perm.
