(* Runner for the C11 correspondence: replays, on the model, every call the
   harness made on a real DistKeyGenerator (share/dkg/pedersen, share/dkg/rabin)
   and on the Protocol driver's packet store, and lists the cases whose
   observations differ.  Not used by any theorem. *)
From Coq Require Import ZArith List Bool.
From Kyber Require Import Algebra.Zq Algebra.Grp.
From Kyber Require Export DKG.PacketSet DKG.PedersenDKG DKG.RabinDKG.
Import ListNotations.
Local Open Scope Z_scope.

(* order of vh.DlogGroup: 2^61 - 1 *)
Definition Q : Z := 2305843009213693951.
Notation F := (zq Q).
Definition sc (v : Z) : F := of_Z Q v.

(* ---- wire constructors (everything arrives as Z) *)
Definition wdeal (i : Z) (v : option Z) : @deal Q := mkdeal i (option_map sc v).
Definition wdb (dealer : Z) (ds : list (@deal Q)) (pub : list Z) (sid : bool) : @deal_bundle Q :=
  mkdb dealer ds (map sc pub) sid.
Definition wrb (holder : Z) (rs : list (Z * Z)) (sid : bool) : resp_bundle :=
  mkrb holder (map (fun r => mkresp (fst r) (snd r)) rs) sid.
Definition wjb (dealer : Z) (js : list (Z * Z)) (sid : bool) : @just_bundle Q :=
  mkjb dealer (map (fun j => mkjust (fst j) (sc (snd j))) js) sid.
Definition wres (qual : list Z) (commits : list Z) (i : Z) (v : Z) : @result Q :=
  mkres qual (map sc commits) i (sc v).
Definition wcfg (old new : list (Z * Z)) (key thr oldthr : Z) (fast has_share has_coeffs : bool)
           (priv oldpub : list Z) : @cfg Q :=
  new_handler Q old new key thr oldthr fast has_share has_coeffs (map sc priv) (map sc oldpub).

(* ---- comparison of observables *)
Fixpoint zlist_eqb (a b : list Z) : bool :=
  match a, b with
  | [], [] => true
  | x :: a', y :: b' => (x =? y) && zlist_eqb a' b'
  | _, _ => false
  end.
Fixpoint flist_eqb (a b : list F) : bool :=
  match a, b with
  | [], [] => true
  | x :: a', y :: b' => zeqb x y && flist_eqb a' b'
  | _, _ => false
  end.
Definition oF_eqb (a b : option F) : bool :=
  match a, b with Some x, Some y => zeqb x y | None, None => true | _, _ => false end.
Fixpoint list_eqb {A} (eq : A -> A -> bool) (a b : list A) : bool :=
  match a, b with
  | [], [] => true
  | x :: a', y :: b' => eq x y && list_eqb eq a' b'
  | _, _ => false
  end.
Definition opt_eqb {A} (eq : A -> A -> bool) (a b : option A) : bool :=
  match a, b with Some x, Some y => eq x y | None, None => true | _, _ => false end.

Definition deal_eqb (a b : @deal Q) := (dl_idx a =? dl_idx b) && oF_eqb (dl_share a) (dl_share b).
Definition db_eqb (a b : @deal_bundle Q) :=
  (db_dealer a =? db_dealer b) && list_eqb deal_eqb (db_deals a) (db_deals b)
  && flist_eqb (db_pub a) (db_pub b) && Bool.eqb (db_sid a) (db_sid b).
Definition rb_eqb (a b : resp_bundle) :=
  (rb_holder a =? rb_holder b)
  && list_eqb (fun x y => (r_dealer x =? r_dealer y) && (r_status x =? r_status y)) (rb_resps a) (rb_resps b)
  && Bool.eqb (rb_sid a) (rb_sid b).
Definition jb_eqb (a b : @just_bundle Q) :=
  (jb_dealer a =? jb_dealer b)
  && list_eqb (fun x y => (j_idx x =? j_idx y) && zeqb (j_share x) (j_share y)) (jb_justifs a) (jb_justifs b)
  && Bool.eqb (jb_sid a) (jb_sid b).
Definition res_eqb (a b : @result Q) :=
  zlist_eqb (res_qual a) (res_qual b) && flist_eqb (res_commits a) (res_commits b)
  && (res_idx a =? res_idx b) && zeqb (res_share a) (res_share b).

(* DistKeyGenerator.sign hashes the bundle it signs, and DealBundle.Hash /
   ResponseBundle.Hash / JustificationBundle.Hash sort the entries IN PLACE by
   index (sort.SliceStable): what Deals / ProcessDeals / ProcessResponses return
   is the bundle the model builds (entries in node-list order) sorted by share
   index / dealer index / share index.  The runner applies that step to the
   model's output before comparing. *)
Fixpoint insert_key {A} (key : A -> Z) (e : A) (l : list A) : list A :=
  match l with
  | [] => [e]
  | x :: r => if key e <? key x then e :: l else x :: insert_key key e r
  end.
Definition sort_key {A} (key : A -> Z) (l : list A) : list A := fold_right (insert_key key) [] l.
Definition signed_db (b : @deal_bundle Q) : @deal_bundle Q :=
  mkdb (db_dealer b) (sort_key dl_idx (db_deals b)) (db_pub b) (db_sid b).
Definition signed_rb (b : resp_bundle) : resp_bundle :=
  mkrb (rb_holder b) (sort_key r_dealer (rb_resps b)) (rb_sid b).
Definition signed_jb (b : @just_bundle Q) : @just_bundle Q :=
  mkjb (jb_dealer b) (sort_key j_idx (jb_justifs b)) (jb_sid b).

Definition err_code (e : err) : Z :=
  match e with ENone => 0 | EPhase => 1 | EEvicted => 2 | EOther => 3 end.

(* ---- the calls made on one generator *)
Inductive call :=
| KDeals (obs : option (@deal_bundle Q))
| KProcDeals (bs : list (@deal_bundle Q)) (failed : bool) (obs : option resp_bundle)
| KProcResps (bs : list resp_bundle) (e : Z) (res : option (@result Q)) (jb : option (@just_bundle Q))
| KProcJusts (bs : list (@just_bundle Q)) (e : Z) (res : option (@result Q))
| KState (cells : list Z) (evicted : list Z) (evicted_holders : list Z) (phase : Z).

Definition state_cells (s : @st Q) : list Z := flat_map (fun e => map snd (d_row (snd e))) (s_d s).
Definition state_evicted (s : @st Q) : list Z := flat_map (fun e => if d_ev (snd e) then [fst e] else []) (s_d s).
Definition state_evh (s : @st Q) : list Z := flat_map (fun e => if h_ev (snd e) then [fst e] else []) (s_h s).

(* one call: new state, and whether the observation matches *)
Definition do_call (c : @cfg Q) (s : @st Q) (k : call) : @st Q * bool :=
  match k with
  | KDeals obs =>
      match deals Q c s with
      | Some (s', b) => (s', opt_eqb db_eqb (Some (signed_db b)) obs)
      | None => (s, match obs with None => true | _ => false end)
      end
  | KProcDeals bs failed obs =>
      match process_deals Q c s bs with
      | Some (s', r) => (s', negb failed && opt_eqb rb_eqb (option_map signed_rb r) obs)
      | None => (s, failed)
      end
  | KProcResps bs e res jb =>
      let o := process_responses Q c s bs in
      (ro_st o, (err_code (ro_err o) =? e)
                && (negb (e =? 0) || (opt_eqb res_eqb (ro_res o) res && opt_eqb jb_eqb (option_map signed_jb (ro_just o)) jb)))
  | KProcJusts bs e res =>
      let o := process_justifs Q c s bs in
      (jo_st o, (err_code (jo_err o) =? e) && (negb (e =? 0) || opt_eqb res_eqb (jo_res o) res))
  | KState cells ev evh ph =>
      (* the harness reports the two eviction lists as sorted sets *)
      (s, zlist_eqb (state_cells s) cells && zlist_eqb (sort_key (fun x => x) (state_evicted s)) ev
          && zlist_eqb (sort_key (fun x => x) (state_evh s)) evh && (s_phase s =? ph))
  end.

Fixpoint run_calls (c : @cfg Q) (s : @st Q) (ks : list call) : bool :=
  match ks with
  | [] => true
  | k :: r => let '(s', ok) := do_call c s k in ok && run_calls c s' r
  end.

(* ---- Rabin: one generator, see DKG/RabinDKG.v *)
Definition wrcall := @rcall Q.

Inductive case :=
| CNode (id : Z) (c : @cfg Q) (ks : list call)
| CSet (id : Z) (pushes : list (Z * Z)) (stored : list (Z * Z)) (bad : list Z) (len : Z)
| CRabin (id : Z) (n t me : Z) (ks : list (@rcall Q)).

Fixpoint insert_pair (p : Z * Z) (l : list (Z * Z)) : list (Z * Z) :=
  match l with
  | [] => [p]
  | x :: r => if fst p <=? fst x then p :: l else x :: insert_pair p r
  end.
Fixpoint insert_z (p : Z) (l : list Z) : list Z :=
  match l with
  | [] => [p]
  | x :: r => if p <=? x then p :: l else x :: insert_z p r
  end.

Definition check (c : case) : option Z :=
  match c with
  | CNode id cf ks => if run_calls cf (init_st Q cf) ks then None else Some id
  | CSet id pushes stored bd len =>
      let s := push_all pushes in
      if list_eqb (fun a b => (fst a =? fst b) && (snd a =? snd b)) (fold_right insert_pair [] (vals s)) stored
         && zlist_eqb (fold_right insert_z [] (PacketSet.bad s)) bd
         && (Z.of_nat (length (vals s)) =? len)
      then None else Some id
  | CRabin id n t me ks => if rabin_run Q n t me ks then None else Some id
  end.

Definition mismatches (cs : list case) : list Z :=
  flat_map (fun c => match check c with Some i => [i] | None => [] end) cs.
