(* share/dkg/pedersen/protocol.go: the per-phase packet store [set] of the
   Protocol driver ([newSet], [Push], [isBad], [ToDeals]/[ToResponses]/...).

   A packet is abstracted to (sender index, content id): [Push] only uses
   [p.Index()] and compares [p.Hash()] (SHA-256 of the canonical encoding of
   the bundle); the content id stands for that hash (two packets have the same
   id iff they hash equally - collision freeness of SHA-256 is the modelling
   assumption).  The Go map [vals] is an association list; [bad] is the Go
   slice. *)
From Coq Require Import ZArith List Bool Lia Permutation.
Import ListNotations.
Local Open Scope Z_scope.

Definition packet := (Z * Z)%type.          (* sender, content id *)

Record pset := mkset { vals : list (Z * Z); bad : list Z }.

Definition empty_set : pset := mkset [] [].

Definition memz (x : Z) (l : list Z) : bool := existsb (Z.eqb x) l.

Fixpoint lookz (k : Z) (m : list (Z * Z)) : option Z :=
  match m with
  | [] => None
  | (k', v) :: r => if k' =? k then Some v else lookz k r
  end.

Definition delz (k : Z) (m : list (Z * Z)) : list (Z * Z) :=
  filter (fun e => negb (fst e =? k)) m.

(* func (s *set) Push(p Packet) *)
Definition push (s : pset) (p : packet) : pset :=
  let '(idx, h) := p in
  if memz idx (bad s) then s                      (* already misbehaved before *)
  else match lookz idx (vals s) with
       | Some h' =>
           if h' =? h then s                      (* same packet rebroadcast *)
           else mkset (delz idx (vals s)) (bad s ++ [idx])   (* conflicting: evict *)
       | None => mkset (vals s ++ [(idx, h)]) (bad s)
       end.

Definition push_all (l : list packet) : pset := fold_left push l empty_set.

(* ------------------------------------------------------------------ *)
(* characterisation of the final store by the SET of packets pushed     *)

Definition conflict (idx : Z) (L : list packet) : Prop :=
  exists h1 h2, In (idx, h1) L /\ In (idx, h2) L /\ h1 <> h2.

Definition represents (s : pset) (L : list packet) : Prop :=
  (forall idx, memz idx (bad s) = true <-> conflict idx L) /\
  (forall idx h, lookz idx (vals s) = Some h <-> (In (idx, h) L /\ ~ conflict idx L)).

Lemma memz_app x l l' : memz x (l ++ l') = memz x l || memz x l'.
Proof. unfold memz. apply existsb_app. Qed.

Lemma lookz_app k m m' :
  lookz k (m ++ m') = match lookz k m with Some v => Some v | None => lookz k m' end.
Proof.
  induction m as [|[k' v] r IH]; cbn; [reflexivity|].
  destruct (k' =? k); [reflexivity|exact IH].
Qed.

Lemma lookz_del_same k m : lookz k (delz k m) = None.
Proof.
  induction m as [|[k' v] r IH]; cbn; [reflexivity|].
  destruct (k' =? k) eqn:E; cbn; [exact IH|]. rewrite E. exact IH.
Qed.

Lemma lookz_del_other k k' m : k' <> k -> lookz k (delz k' m) = lookz k m.
Proof.
  intros H. induction m as [|[k2 v] r IH]; cbn; [reflexivity|].
  destruct (k2 =? k') eqn:E; cbn.
  - apply Z.eqb_eq in E. subst k2. destruct (k' =? k) eqn:E2; [apply Z.eqb_eq in E2; contradiction|exact IH].
  - destruct (k2 =? k); [reflexivity|exact IH].
Qed.

Lemma conflict_cons_other idx p L : fst p <> idx -> (conflict idx (p :: L) <-> conflict idx L).
Proof.
  intros H. split.
  - intros (h1 & h2 & [E1|I1] & [E2|I2] & N).
    + subst p. cbn in H. contradiction.
    + subst p. cbn in H. contradiction.
    + subst p. cbn in H. contradiction.
    + exists h1, h2. auto.
  - intros (h1 & h2 & I1 & I2 & N). exists h1, h2. cbn. auto.
Qed.

Lemma conflict_mono idx p L : conflict idx L -> conflict idx (p :: L).
Proof. intros (h1 & h2 & I1 & I2 & N). exists h1, h2. cbn. auto. Qed.

Lemma push_represents s L p : represents s L -> represents (push s p) (p :: L).
Proof.
  intros [HB HV]. destruct p as [i h]. unfold push.
  destruct (memz i (bad s)) eqn:Bi.
  - (* already bad *)
    pose proof (proj1 (HB i) Bi) as Ci. split.
    + intros idx. rewrite HB. destruct (Z.eq_dec i idx) as [->|N].
      * split; intros _; [apply conflict_mono; exact Ci|exact Ci].
      * symmetry. apply conflict_cons_other. exact N.
    + intros idx h0. rewrite HV. destruct (Z.eq_dec i idx) as [->|N].
      * split; intros [_ NC]; exfalso; apply NC; [exact Ci|apply conflict_mono; exact Ci].
      * rewrite (conflict_cons_other idx (i, h) L N). cbn.
        split; intros [I NC]; split; auto. destruct I as [E|I]; [inversion E; contradiction|exact I].
  - assert (NCi : ~ conflict i L). { intros C. apply HB in C. congruence. }
    destruct (lookz i (vals s)) as [h'|] eqn:Li.
    + pose proof (proj1 (HV i h') Li) as [Ih' _].
      destruct (h' =? h) eqn:Eh.
      * (* rebroadcast *)
        apply Z.eqb_eq in Eh. subst h'.
        assert (EQ : forall idx, conflict idx ((i, h) :: L) <-> conflict idx L).
        { intros idx. split; [|apply conflict_mono].
          intros (h1 & h2 & I1 & I2 & N). exists h1, h2.
          repeat split; [destruct I1 as [E|]; [inversion E; subst; exact Ih'|assumption]
                        |destruct I2 as [E|]; [inversion E; subst; exact Ih'|assumption]|exact N]. }
        split.
        -- intros idx. rewrite HB. symmetry. apply EQ.
        -- intros idx h0. rewrite HV, EQ. cbn. split; intros [I NC]; split; auto.
           destruct I as [E|I]; [inversion E; subst; exact Ih'|exact I].
      * (* conflicting packet *)
        apply Z.eqb_neq in Eh.
        assert (Ci : conflict i ((i, h) :: L)).
        { exists h, h'. cbn. repeat split; auto. }
        split.
        -- intros idx. cbn [bad]. rewrite memz_app. cbn. rewrite orb_false_r.
           destruct (Z.eq_dec i idx) as [->|N].
           ++ rewrite Z.eqb_refl, orb_true_r. split; auto.
           ++ rewrite (conflict_cons_other idx (i, h) L N), <- HB.
              destruct (idx =? i) eqn:E; [apply Z.eqb_eq in E; congruence|]. rewrite orb_false_r. reflexivity.
        -- intros idx h0. cbn [vals]. destruct (Z.eq_dec i idx) as [->|N].
           ++ rewrite lookz_del_same. split; [discriminate|]. intros [_ NC]. contradiction.
           ++ rewrite lookz_del_other by exact N. rewrite HV, (conflict_cons_other idx (i, h) L N). cbn.
              split; intros [I NC]; split; auto. destruct I as [E|I]; [inversion E; contradiction|exact I].
    + (* first packet of this sender *)
      assert (NoI : forall h0, ~ In (i, h0) L).
      { intros h0 I. assert (lookz i (vals s) = Some h0) by (apply HV; auto). congruence. }
      assert (NCi' : ~ conflict i ((i, h) :: L)).
      { intros (h1 & h2 & I1 & I2 & N).
        destruct I1 as [E1|I1]; [|exact (NoI _ I1)]. destruct I2 as [E2|I2]; [|exact (NoI _ I2)]. congruence. }
      split.
      * intros idx. cbn [bad]. rewrite HB. destruct (Z.eq_dec i idx) as [->|N].
        -- split; intros C; contradiction.
        -- symmetry. apply conflict_cons_other. exact N.
      * intros idx h0. cbn [vals]. rewrite lookz_app. destruct (Z.eq_dec i idx) as [->|N].
        -- rewrite Li. cbn. rewrite Z.eqb_refl. split.
           ++ intros E. inversion E. subst. split; [left; reflexivity|exact NCi'].
           ++ intros [[E|I] _]; [inversion E; reflexivity|exfalso; exact (NoI _ I)].
        -- destruct (lookz idx (vals s)) as [v|] eqn:Lx.
           ++ rewrite <- Lx, HV, (conflict_cons_other idx (i, h) L N). cbn.
              split; intros [I NC]; split; auto. destruct I as [E|I]; [inversion E; contradiction|exact I].
           ++ cbn. destruct (i =? idx) eqn:E; [apply Z.eqb_eq in E; contradiction|].
              split; [discriminate|]. intros [[E'|I] NC]; [inversion E'; contradiction|].
              assert (lookz idx (vals s) = Some h0) by (apply HV; split; [exact I|]; rewrite <- (conflict_cons_other idx (i, h) L N); exact NC).
              congruence.
Qed.

Lemma represents_ext s L L' : (forall p, In p L <-> In p L') -> represents s L -> represents s L'.
Proof.
  intros E [HB HV].
  assert (C : forall idx, conflict idx L <-> conflict idx L').
  { intros idx. split; intros (h1 & h2 & I1 & I2 & N); exists h1, h2; repeat split; auto; apply E; auto. }
  split.
  - intros idx. rewrite HB. apply C.
  - intros idx h. rewrite HV, C, E. reflexivity.
Qed.

Lemma fold_push_represents l : forall s L, represents s L -> represents (fold_left push l s) (rev l ++ L).
Proof.
  induction l as [|p r IH]; intros s L H; cbn; [exact H|].
  rewrite <- app_assoc. cbn. apply IH. apply push_represents. exact H.
Qed.

Lemma empty_represents : represents empty_set [].
Proof.
  split.
  - intros idx. cbn. split; [discriminate|]. intros (h1 & h2 & [] & _).
  - intros idx h. cbn. split; [discriminate|]. intros [[] _].
Qed.

(* the store after any push sequence: bad = senders with two different
   packets; stored = the unique packet of every other sender *)
Theorem push_all_spec l : represents (push_all l) l.
Proof.
  unfold push_all. eapply represents_ext; [|apply (fold_push_represents l empty_set []); apply empty_represents].
  intros p. rewrite app_nil_r. symmetry. apply in_rev.
Qed.

(* order independence: any two delivery sequences carrying the same set of
   packets (any interleaving, any duplication) leave the same store *)
Theorem packet_set_order_independent l l' :
  (forall p, In p l <-> In p l') ->
  (forall idx, memz idx (bad (push_all l)) = memz idx (bad (push_all l'))) /\
  (forall idx, lookz idx (vals (push_all l)) = lookz idx (vals (push_all l'))).
Proof.
  intros E.
  pose proof (push_all_spec l) as [B1 V1].
  pose proof (represents_ext _ _ _ (fun p => iff_sym (E p)) (push_all_spec l')) as [B2 V2].
  split.
  - intros idx. destruct (memz idx (bad (push_all l))) eqn:M1, (memz idx (bad (push_all l'))) eqn:M2; try reflexivity.
    + apply B1, B2 in M1. congruence.
    + apply B2, B1 in M2. congruence.
  - intros idx. destruct (lookz idx (vals (push_all l))) as [h|] eqn:M1.
    + apply V1, V2 in M1. auto.
    + destruct (lookz idx (vals (push_all l'))) as [h|] eqn:M2; [|reflexivity].
      apply V2, V1 in M2. congruence.
Qed.

Corollary packet_set_perm_invariant l l' :
  Permutation l l' ->
  (forall idx, memz idx (bad (push_all l)) = memz idx (bad (push_all l'))) /\
  (forall idx, lookz idx (vals (push_all l)) = lookz idx (vals (push_all l'))).
Proof.
  intros P. apply packet_set_order_independent. intros p. split; apply Permutation_in; [exact P|symmetry; exact P].
Qed.

(* one distinct packet per sender => stored; two distinct => absent and bad *)
Corollary single_packet_stored l idx h :
  In (idx, h) l -> (forall h', In (idx, h') l -> h' = h) ->
  lookz idx (vals (push_all l)) = Some h /\ memz idx (bad (push_all l)) = false.
Proof.
  intros I U. pose proof (push_all_spec l) as [B V].
  assert (NC : ~ conflict idx l).
  { intros (h1 & h2 & I1 & I2 & N). apply U in I1, I2. congruence. }
  split; [apply V; auto|].
  destruct (memz idx (bad (push_all l))) eqn:M; [apply B in M; contradiction|reflexivity].
Qed.

Corollary conflicting_packets_evicted l idx h1 h2 :
  In (idx, h1) l -> In (idx, h2) l -> h1 <> h2 ->
  lookz idx (vals (push_all l)) = None /\ memz idx (bad (push_all l)) = true.
Proof.
  intros I1 I2 N. pose proof (push_all_spec l) as [B V].
  assert (C : conflict idx l) by (exists h1, h2; auto).
  split; [|apply B; exact C].
  destruct (lookz idx (vals (push_all l))) as [h|] eqn:M; [|reflexivity].
  apply V in M. destruct M as [_ NC]. contradiction.
Qed.
