(* Executable model of the agreement-relevant core of share/dkg/rabin/dkg.go
   on top of the response bookkeeping of share/vss/rabin/vss.go (aggregator):
   ProcessDeal, ProcessResponse, ProcessJustification, SetTimeout, QUAL,
   SecretCommits, ProcessSecretCommits, DistKeyShare.  Definitions only.

   The verdict of the VSS share check (aggregator.VerifyDeal: share against the
   Pedersen commitments, threshold range, session id) is an INPUT of this model
   (it is the subject of property C10); so are "the session id of a response
   matches" and "its signature verifies".  What is modelled is what the DKG
   layer builds on these verdicts: which responses are recorded (first one per
   index wins), how justifications flip or condemn, time-outs, when a deal is
   certified, QUAL, which secret commitments are stored, and the final sums.
   ProcessComplaintCommits / ProcessReconstructCommits are not modelled (the
   harness checks their effect with oracles). Participants are 0..n-1. *)
From Coq Require Import ZArith List Bool Lia.
From Kyber Require Import Algebra.Zq Algebra.Grp DKG.PedersenDKG.
Import ListNotations.
Local Open Scope Z_scope.

Section Rabin.
  Variable q : Z.
  Notation F := (zq q).

  (* vss aggregator: responses (index -> approved), badDealer, t of the deal,
     and the secret share this node received in the deal *)
  Record agg := mkagg { a_resps : list (Z * bool); a_bad : bool; a_t : Z; a_sec : F }.

  Record rst := mkrst {
    r_ver : list (Z * agg);          (* d.verifiers *)
    r_own : agg;                     (* d.dealer's aggregator *)
    r_commits : list (Z * list F);   (* d.commitments *)
    r_pend : list (Z * Z)            (* d.pendingComplaints: (dealer, verifier) *)
  }.

  Definition add_pend (d v : Z) (l : list (Z * Z)) : list (Z * Z) := (d, v) :: l.
  Definition del_pend (d v : Z) (l : list (Z * Z)) : list (Z * Z) :=
    filter (fun e => negb ((fst e =? d) && (snd e =? v))) l.
  Definition has_pend (d : Z) (l : list (Z * Z)) : bool := existsb (fun e => fst e =? d) l.

  Fixpoint lookb {A} (k : Z) (m : list (Z * A)) : option A :=
    match m with [] => None | (k', v) :: r => if k' =? k then Some v else lookb k r end.
  Definition putb {A} (k : Z) (v : A) (m : list (Z * A)) : list (Z * A) :=
    (k, v) :: filter (fun e => negb (fst e =? k)) m.

  Definition in_range (n i : Z) : bool := (0 <=? i) && (i <? n).

  (* aggregator.addResponse *)
  Definition add_response (n : Z) (a : agg) (i : Z) (approved : bool) : option agg :=
    if negb (in_range n i) then None
    else match lookb i (a_resps a) with
         | Some _ => None
         | None => Some (mkagg (a_resps a ++ [(i, approved)]) (a_bad a) (a_t a) (a_sec a))
         end.
  Definition add_response_quiet n a i approved : agg :=
    match add_response n a i approved with Some a' => a' | None => a end.

  Definition approvals (a : agg) : Z := Z.of_nat (length (filter (fun e => snd e) (a_resps a))).
  Definition enough_approvals (a : agg) : bool := approvals a >=? a_t a.
  Definition all_responded (n : Z) (a : agg) : bool :=
    forallb (fun i => match lookb (Z.of_nat i) (a_resps a) with Some _ => true | None => false end) (seq 0 (Z.to_nat n)).
  (* aggregator.DealCertified *)
  Definition deal_certified (n : Z) (a : agg) : bool :=
    enough_approvals a && all_responded n a && negb (a_bad a).

  (* aggregator.cleanVerifiers *)
  Definition clean_verifiers (n : Z) (a : agg) : agg :=
    fold_left (fun a i => add_response_quiet n a (Z.of_nat i) false) (seq 0 (Z.to_nat n)) a.

  (* aggregator.verifyJustification with the VerifyDeal verdict as input *)
  Definition verify_justification (n : Z) (a : agg) (i : Z) (valid : bool) : agg * bool (* ok *) :=
    if negb (in_range n i) then (a, false)
    else match lookb i (a_resps a) with
         | None => (a, false)
         | Some true => (a, false)
         | Some false =>
             if valid
             then (mkagg (map (fun e => if fst e =? i then (i, true) else e) (a_resps a)) (a_bad a) (a_t a) (a_sec a), true)
             else (mkagg (a_resps a) true (a_t a) (a_sec a), false)
         end.

  (* QUAL (sorted by index; the Go map order is not observable) *)
  Definition qual (n : Z) (s : rst) : list Z :=
    filter (fun i => match lookb i (r_ver s) with Some a => deal_certified n a && negb (has_pend i (r_pend s)) | None => false end)
           (map Z.of_nat (seq 0 (Z.to_nat n))).
  Definition in_qual n s i : bool := existsb (Z.eqb i) (qual n s).

  Inductive rcall :=
  (* ProcessDeal: ok = the deal decrypts, decodes and is addressed to this node *)
  | RDeal (dealer : Z) (ok approved : bool) (t : Z) (sec : F) (obs_err obs_approved : bool)
  (* ProcessResponse *)
  | RResp (dealer idx : Z) (approved sid_ok sig_ok own_valid : bool) (obs_err obs_just : bool)
  (* ProcessJustification; valid = VerifyDeal verdict on the revealed deal *)
  | RJust (dealer idx : Z) (valid : bool) (obs_err : bool)
  | RTimeout
  | RQual (obs : list Z)
  | RSecCommits (obs : option (list F))
  | RProcSC (idx : Z) (commits : list F) (sid_ok sig_ok : bool) (obs_err obs_complaint : bool)
  | RFinal (obs : option (list F * F)).

  (* the dealer's own aggregator uses the node's threshold *)
  Definition init_rst (t : Z) : rst := mkrst [] (mkagg [] false t zzero) [] [].

  Fixpoint flist_eqb (a b : list F) : bool :=
    match a, b with
    | [], [] => true
    | x :: a', y :: b' => zeqb x y && flist_eqb a' b'
    | _, _ => false
    end.
  Fixpoint zl_eqb (a b : list Z) : bool :=
    match a, b with
    | [], [] => true
    | x :: a', y :: b' => (x =? y) && zl_eqb a' b'
    | _, _ => false
    end.

  (* DistKeyShare *)
  Definition dist_key_share (n t : Z) (s : rst) : option (list F * F) :=
    let ql := qual n s in
    if Z.of_nat (length ql) <? t then None
    else
      match fold_left (fun (acc : option (option (list F) * F)) i =>
           match acc with
           | None => None
           | Some (pub, sh) =>
               match lookb i (r_ver s), lookb i (r_commits s) with
               | Some a, Some p =>
                   match pub with
                   | None => Some (Some p, zadd sh (a_sec a))
                   | Some p0 => if Nat.eqb (length p0) (length p) then Some (Some (poly_add q p0 p), zadd sh (a_sec a)) else None
                   end
               | _, _ => None
               end
           end) ql (Some (None, zzero)) with
      | Some (Some p, sh) => Some (p, sh)
      | _ => None
      end.

  Definition rabin_step (n t me : Z) (s : rst) (k : rcall) : rst * bool :=
    match k with
    | RDeal dealer ok approved tv sec oe oa =>
        if negb (in_range n dealer) then (s, oe)
        else match lookb dealer (r_ver s) with
             | Some _ => (s, oe)
             | None =>
                 if negb ok then (s, oe)
                 else
                   let a0 := mkagg [] false tv sec in
                   let a1 := add_response_quiet n a0 me approved in
                   let a2 := add_response_quiet n a1 dealer true in
                   let own := if dealer =? me then add_response_quiet n (r_own s) me true else r_own s in
                   (mkrst (putb dealer a2 (r_ver s)) own (r_commits s)
                          (if approved then r_pend s else add_pend dealer me (r_pend s)),
                    negb oe && Bool.eqb approved oa)
             end
    | RResp dealer idx approved sid_ok sig_ok own_valid oe oj =>
        match lookb dealer (r_ver s) with
        | None => (s, oe)
        | Some a =>
            if negb sid_ok || negb (in_range n idx) || negb sig_ok then (s, oe)
            else match add_response n a idx approved with
                 | None => (s, oe)
                 | Some a' =>
                     let s1 := mkrst (putb dealer a' (r_ver s)) (r_own s) (r_commits s)
                                     (if approved then r_pend s else add_pend dealer idx (r_pend s)) in
                     if negb (dealer =? me) then (s1, negb oe && negb oj)
                     else match add_response n (r_own s) idx approved with
                          | None => (s1, oe)
                          | Some o' =>
                              let s2 := mkrst (r_ver s1) o' (r_commits s1) (r_pend s1) in
                              if approved then (s2, negb oe && negb oj)
                              else
                                let '(a'', ok) := verify_justification n a' idx own_valid in
                                (* the dealer's aggregator and the verifier of the own deal hold the SAME
                                   *Response (both ProcessResponse calls store the pointer they are given):
                                   when the own justification is accepted, verifyJustification sets
                                   r.Approved = true and the dealer's own count of approvals grows too *)
                                let o'' := if ok
                                           then mkagg (map (fun e => if fst e =? idx then (idx, true) else e) (a_resps o'))
                                                      (a_bad o') (a_t o') (a_sec o')
                                           else o' in
                                (mkrst (putb dealer a'' (r_ver s2)) o'' (r_commits s2)
                                       (if ok then del_pend me idx (r_pend s2) else r_pend s2),
                                 if ok then negb oe && oj else oe)
                          end
                 end
        end
    | RJust dealer idx valid oe =>
        match lookb dealer (r_ver s) with
        | None => (s, oe)
        | Some a =>
            let '(a', ok) := verify_justification n a idx valid in
            (mkrst (putb dealer a' (r_ver s)) (r_own s) (r_commits s)
                   (if ok then del_pend dealer idx (r_pend s) else r_pend s), Bool.eqb (negb ok) oe)
        end
    | RTimeout =>
        (mkrst (map (fun e => (fst e, clean_verifiers n (snd e))) (r_ver s)) (r_own s) (r_commits s) (r_pend s), true)
    | RQual obs => (s, zl_eqb (qual n s) obs)
    | RSecCommits obs =>
        if deal_certified n (r_own s)
        then match obs with
             | Some p => (mkrst (r_ver s) (r_own s) (putb me p (r_commits s)) (r_pend s), true)
             | None => (s, false)
             end
        else (s, match obs with None => true | Some _ => false end)
    | RProcSC idx commits sid_ok sig_ok oe oc =>
        if negb (in_range n idx) then (s, oe)
        else if negb (in_qual n s idx) then (s, oe)
        else if negb sid_ok || negb sig_ok then (s, oe)
        else match lookb idx (r_ver s) with
             | None => (s, oe)
             | Some a =>
                 if zeqb (peval q commits (xof q me)) (commit q (a_sec a))
                 then (mkrst (r_ver s) (r_own s) (putb idx commits (r_commits s)) (r_pend s), negb oe && negb oc)
                 else (s, negb oe && oc)
             end
    | RFinal obs =>
        (s, match dist_key_share n t s, obs with
            | Some (p, sh), Some (p', sh') => flist_eqb p p' && zeqb sh sh'
            | None, None => true
            | _, _ => false
            end)
    end.

  Fixpoint rabin_run_from (n t me : Z) (s : rst) (ks : list rcall) : bool :=
    match ks with
    | [] => true
    | k :: r => let '(s', ok) := rabin_step n t me s k in ok && rabin_run_from n t me s' r
    end.

  Definition rabin_run (n t me : Z) (ks : list rcall) : bool := rabin_run_from n t me (init_rst t) ks.
End Rabin.

Arguments RDeal {q}. Arguments RResp {q}. Arguments RJust {q}. Arguments RTimeout {q}. Arguments RQual {q}.
Arguments RSecCommits {q}. Arguments RProcSC {q}. Arguments RFinal {q}.
