(* Theorems about the RESHARING result of the Pedersen DKG model
   (PedersenDKG.compute_reshare_result = computeResharingResult of
   share/dkg/pedersen/dkg.go): key preservation, consistency of the new share
   with the new commitment polynomial, reconstruction from any newT new shares,
   agreement of two nodes with the same public view, independence of the order
   of the node lists.

   Lagrange interpolation at 0 (PedersenDKG.lagrange0, which mirrors what
   share.RecoverPriPoly(...).Secret() / share.RecoverCommit compute on the
   selected entries) is first shown to be a weighted sum whose weights depend on
   the indices only, then identified with ShamirSM.lagrange0_gen, whose
   correctness on the points of a polynomial is proved in Share/ShamirProofs.v. *)
From Coq Require Import ZArith Znumtheory List Bool Lia Ring Field Permutation Sorted.
From Kyber Require Import Algebra.Zq Algebra.Grp DKG.PedersenDKG DKG.PedersenProofs
                          Share.ShamirSM Share.ShamirProofs Share.PolyFacts.
Import ListNotations.
Local Open Scope Z_scope.

(* share indices whose x-coordinate i+1 is computed without uint32 wrap-around
   and is non-zero and injective modulo q (ShamirProofs.idx_ok) *)
Definition index_ok (q i : Z) : Prop := idx_ok q i.

(* ------------------------------------------------------------------ *)
(* generic list facts: look, sort_by_index                              *)
Section Lists.
  Context {A : Type}.
  Notation item := (Z * A)%type.

  Lemma look_some_in k : forall (l : list item) v, look k l = Some v -> In (k, v) l.
  Proof.
    induction l as [|[k' v'] l IH]; intros v H; [discriminate|]. cbn [look] in H.
    destruct (k' =? k) eqn:E.
    - apply Z.eqb_eq in E. inversion H; subst. left. reflexivity.
    - right. apply IH. exact H.
  Qed.

  Lemma look_none_notin k : forall l : list item, look k l = None -> ~ In k (map fst l).
  Proof.
    induction l as [|[k' v'] l IH]; intros H; [intros []|]. cbn [look] in H.
    destruct (k' =? k) eqn:E; [discriminate|]. apply Z.eqb_neq in E.
    cbn [map fst]. intros [I|I]; [contradiction|]. exact (IH H I).
  Qed.

  Lemma in_look k v : forall l : list item, NoDup (map fst l) -> In (k, v) l -> look k l = Some v.
  Proof.
    induction l as [|[k' v'] l IH]; intros ND I; [destruct I|]. cbn [look].
    inversion ND as [|? ? N1 N2]; subst. destruct I as [I|I].
    - inversion I; subst. rewrite Z.eqb_refl. reflexivity.
    - destruct (k' =? k) eqn:E; [|apply IH; assumption].
      apply Z.eqb_eq in E. subst k'. exfalso. apply N1. change k with (fst (k, v)). apply in_map. exact I.
  Qed.

  Lemma look_perm k (l1 l2 : list item) : NoDup (map fst l1) -> Permutation l1 l2 -> look k l1 = look k l2.
  Proof.
    intros ND P.
    assert (ND2 : NoDup (map fst l2)) by (eapply Permutation_NoDup; [apply Permutation_map; exact P|exact ND]).
    destruct (look k l1) as [v|] eqn:E1.
    - symmetry. apply in_look; [exact ND2|]. eapply Permutation_in; [exact P|]. apply look_some_in. exact E1.
    - destruct (look k l2) as [v|] eqn:E2; [|reflexivity].
      exfalso. apply (look_none_notin _ _ E1). change k with (fst (k, v)). apply in_map.
      eapply Permutation_in; [apply Permutation_sym; exact P|]. apply look_some_in. exact E2.
  Qed.

  Definition le_key (a b : item) : Prop := fst a <= fst b.
  Definition lt_key (a b : item) : Prop := fst a < fst b.

  Lemma insert_by_index_perm e : forall l : list item, Permutation (insert_by_index e l) (e :: l).
  Proof.
    induction l as [|x l IH]; cbn [insert_by_index]; [reflexivity|].
    destruct (fst e <? fst x); [reflexivity|]. rewrite IH. apply perm_swap.
  Qed.

  Lemma sort_by_index_perm : forall l : list item, Permutation (sort_by_index l) l.
  Proof.
    induction l as [|e l IH]; [reflexivity|]. unfold sort_by_index in *. cbn [fold_right].
    rewrite insert_by_index_perm. constructor. exact IH.
  Qed.

  Lemma insert_by_index_sorted e : forall l : list item,
    StronglySorted le_key l -> StronglySorted le_key (insert_by_index e l).
  Proof.
    induction l as [|x l IH]; intros S; cbn [insert_by_index].
    - constructor; constructor.
    - inversion S as [|? ? S' FA]; subst. destruct (fst e <? fst x) eqn:E.
      + apply Z.ltb_lt in E. constructor; [exact S|]. constructor; [unfold le_key; lia|].
        rewrite Forall_forall in *. intros y I. specialize (FA y I). unfold le_key in *. lia.
      + apply Z.ltb_ge in E. constructor; [apply IH; exact S'|].
        rewrite Forall_forall in *. intros y I.
        apply (Permutation_in _ (insert_by_index_perm e l)) in I. destruct I as [<-|I]; [exact E|apply FA; exact I].
  Qed.

  Lemma sort_by_index_sorted : forall l : list item, StronglySorted le_key (sort_by_index l).
  Proof.
    induction l as [|e l IH]; [constructor|]. unfold sort_by_index in *. cbn [fold_right].
    apply insert_by_index_sorted. exact IH.
  Qed.

  Lemma sorted_le_nodup_lt (l : list item) :
    StronglySorted le_key l -> NoDup (map fst l) -> StronglySorted lt_key l.
  Proof.
    induction l as [|h r IH]; intros Hs Hn; [constructor|].
    inversion Hs as [|? ? Hs' Hall]; subst. inversion Hn as [|? ? Hnotin Hn']; subst.
    constructor; [apply IH; assumption|].
    rewrite Forall_forall in *. intros x Hx. specialize (Hall x Hx). unfold le_key, lt_key in *.
    assert (fst x <> fst h); [|lia].
    intros E. apply Hnotin. rewrite <- E. apply in_map. exact Hx.
  Qed.

  Lemma strict_sorted_perm_unique (l1 l2 : list item) :
    StronglySorted lt_key l1 -> StronglySorted lt_key l2 -> Permutation l1 l2 -> l1 = l2.
  Proof.
    revert l2. induction l1 as [|h1 r1 IH]; intros l2 S1 S2 P.
    - apply Permutation_nil in P. subst. reflexivity.
    - destruct l2 as [|h2 r2]; [apply Permutation_sym, Permutation_nil in P; discriminate|].
      inversion S1 as [|? ? S1' A1]; subst. inversion S2 as [|? ? S2' A2]; subst.
      rewrite Forall_forall in A1, A2.
      assert (E : h1 = h2).
      { assert (I1 : In h1 (h2 :: r2)) by (eapply Permutation_in; [exact P|left; reflexivity]).
        assert (I2 : In h2 (h1 :: r1)) by (eapply Permutation_in; [apply Permutation_sym; exact P|left; reflexivity]).
        destruct I1 as [E|I1]; [symmetry; exact E|].
        destruct I2 as [E|I2]; [exact E|].
        specialize (A2 _ I1). specialize (A1 _ I2). unfold lt_key in *. lia. }
      subst h2. f_equal. apply IH; try assumption.
      eapply Permutation_cons_inv. exact P.
  Qed.

  (* sorting lists with distinct indices: the result depends on the SET of entries only *)
  Theorem sort_by_index_perm_invariant (l1 l2 : list item) :
    NoDup (map fst l1) -> Permutation l1 l2 -> sort_by_index l1 = sort_by_index l2.
  Proof.
    intros Hn P.
    assert (Hn2 : NoDup (map fst l2)) by (eapply Permutation_NoDup; [apply Permutation_map; exact P|exact Hn]).
    assert (S : forall l : list item, NoDup (map fst l) -> StronglySorted lt_key (sort_by_index l)).
    { intros l H. apply sorted_le_nodup_lt; [apply sort_by_index_sorted|].
      eapply Permutation_NoDup; [|exact H]. apply Permutation_map, Permutation_sym, sort_by_index_perm. }
    apply strict_sorted_perm_unique; try (apply S; assumption).
    rewrite (sort_by_index_perm l1), (sort_by_index_perm l2). exact P.
  Qed.

  Lemma NoDup_filter_keys (P : item -> bool) : forall l : list item, NoDup (map fst l) -> NoDup (map fst (filter P l)).
  Proof.
    induction l as [|e l IH]; intros ND; [constructor|]. inversion ND as [|? ? N1 N2]; subst. cbn [filter].
    destruct (P e); [|apply IH; exact N2]. cbn [map]. constructor; [|apply IH; exact N2].
    intros I. apply N1. apply in_map_iff in I. destruct I as (x & E & I). apply filter_In in I. destruct I as [I _].
    rewrite <- E. apply in_map. exact I.
  Qed.

  Lemma Permutation_filter (P : item -> bool) (l1 l2 : list item) :
    Permutation l1 l2 -> Permutation (filter P l1) (filter P l2).
  Proof.
    induction 1 as [|x l l' _ IH|x y l|l l' l'' _ IH1 _ IH2]; cbn [filter].
    - reflexivity.
    - destruct (P x); [constructor|]; exact IH.
    - destruct (P x), (P y); try reflexivity. apply perm_swap.
    - etransitivity; eassumption.
  Qed.
End Lists.

Lemma insert_by_index_map {A B} (f : Z * A -> Z * B) (Hf : forall e, fst (f e) = fst e) e :
  forall l, insert_by_index (f e) (map f l) = map f (insert_by_index e l).
Proof.
  induction l as [|x l IH]; [reflexivity|]. cbn [map insert_by_index]. rewrite !Hf.
  destruct (fst e <? fst x); [reflexivity|]. cbn [map]. rewrite IH. reflexivity.
Qed.

Lemma sort_by_index_map {A B} (f : Z * A -> Z * B) (Hf : forall e, fst (f e) = fst e) :
  forall l, sort_by_index (map f l) = map f (sort_by_index l).
Proof.
  induction l as [|e l IH]; [reflexivity|]. unfold sort_by_index in *. cbn [map fold_right].
  rewrite IH. apply insert_by_index_map. exact Hf.
Qed.

Lemma filter_map_comm {A B} (f : A -> B) (P : B -> bool) : forall l, filter P (map f l) = map f (filter (fun x => P (f x)) l).
Proof.
  induction l as [|x l IH]; [reflexivity|]. cbn [map filter]. destruct (P (f x)); cbn [map]; rewrite IH; reflexivity.
Qed.

Lemma existsb_perm {A} (f : A -> bool) (l1 l2 : list A) : Permutation l1 l2 -> existsb f l1 = existsb f l2.
Proof.
  induction 1 as [|x l l' _ IH|x y l|l l' l'' _ IH1 _ IH2]; cbn [existsb].
  - reflexivity.
  - rewrite IH. reflexivity.
  - destruct (f x), (f y); reflexivity.
  - congruence.
Qed.

(* ------------------------------------------------------------------ *)
Section Reshare.
  Variable q : Z.
  Hypothesis q_prime : prime q.
  Notation F := (zq q).
  Add Field zqFR : (zq_field q q_prime).

  Local Notation dpeval := (PedersenDKG.peval q).
  Local Notation xof := (PedersenDKG.xof q).
  Local Notation dcommit := (PedersenDKG.commit q).
  Local Notation lagrange0 := (PedersenDKG.lagrange0 q).

  (* ---------------------------------------------------------------- Lagrange weights *)
  Definition lnum (ks : list Z) (k : Z) : F :=
    fold_right (fun k' a => if k' =? k then a else zmul a (xof k')) zone ks.
  Definition lden (ks : list Z) (k : Z) : F :=
    fold_right (fun k' a => if k' =? k then a else zmul a (zsub (xof k') (xof k))) zone ks.
  Definition lw (ks : list Z) (k : Z) : F := zdiv (lnum ks k) (lden ks k).
  (* weighted sum of the values with the weights of the index list [ks] *)
  Definition wsum (ks : list Z) (pts : list (Z * F)) : F :=
    fold_right (fun p acc => zadd (zmul (lw ks (fst p)) (snd p)) acc) zzero pts.

  Lemma lnum_pts k : forall pts : list (Z * F),
    fold_right (fun p' a => if fst p' =? k then a else zmul a (xof (fst p'))) zone pts = lnum (map fst pts) k.
  Proof. induction pts as [|p pts IH]; [reflexivity|]. cbn [fold_right map]. unfold lnum in *. cbn [fold_right]. rewrite IH. reflexivity. Qed.

  Lemma lden_pts k : forall pts : list (Z * F),
    fold_right (fun p' a => if fst p' =? k then a else zmul a (zsub (xof (fst p')) (xof k))) zone pts = lden (map fst pts) k.
  Proof. induction pts as [|p pts IH]; [reflexivity|]. cbn [fold_right map]. unfold lden in *. cbn [fold_right]. rewrite IH. reflexivity. Qed.

  (* lagrange0 is linear in the values: the weights depend on the indices only *)
  Lemma lagrange0_wsum (pts : list (Z * F)) : lagrange0 pts = wsum (map fst pts) pts.
  Proof.
    unfold PedersenDKG.lagrange0, wsum.
    assert (G : forall l : list (Z * F),
      fold_right (fun p acc =>
        let xi := xof (fst p) in
        let num := fold_right (fun p' a => if fst p' =? fst p then a else zmul a (xof (fst p'))) zone pts in
        let den := fold_right (fun p' a => if fst p' =? fst p then a else zmul a (zsub (xof (fst p')) xi)) zone pts in
        zadd (zmul (zdiv num den) (snd p)) acc) zzero l
      = fold_right (fun p acc => zadd (zmul (lw (map fst pts) (fst p)) (snd p)) acc) zzero l).
    { induction l as [|p l IH]; [reflexivity|]. cbn [fold_right]. cbv zeta in *. rewrite IH.
      rewrite lnum_pts, lden_pts. reflexivity. }
    apply G.
  Qed.

  Lemma wsum_lin {A} ks (f g : Z * A -> F) x : forall l : list (Z * A),
    wsum ks (map (fun e => (fst e, zadd (f e) (zmul x (g e)))) l) =
    zadd (wsum ks (map (fun e => (fst e, f e)) l)) (zmul x (wsum ks (map (fun e => (fst e, g e)) l))).
  Proof.
    induction l as [|e l IH]; unfold wsum in *; cbn [map fold_right fst snd]; [ring|]. rewrite IH. ring.
  Qed.

  Lemma wsum_scale {A} ks (f : Z * A -> F) b : forall l : list (Z * A),
    wsum ks (map (fun e => (fst e, zmul (f e) b)) l) = zmul (wsum ks (map (fun e => (fst e, f e)) l)) b.
  Proof.
    induction l as [|e l IH]; unfold wsum in *; cbn [map fold_right fst snd]; [ring|]. rewrite IH. ring.
  Qed.

  Lemma wsum_ext {A} ks (f g : Z * A -> F) : forall l : list (Z * A),
    (forall e, In e l -> f e = g e) ->
    wsum ks (map (fun e => (fst e, f e)) l) = wsum ks (map (fun e => (fst e, g e)) l).
  Proof.
    induction l as [|e l IH]; intros H; [reflexivity|]. unfold wsum in *. cbn [map fold_right fst snd].
    rewrite IH by (intros e' I; apply H; right; exact I). rewrite (H e (or_introl eq_refl)). reflexivity.
  Qed.

  Lemma wsum_zero {A} ks : forall l : list (Z * A), wsum ks (map (fun e => (fst e, zzero)) l) = zzero.
  Proof. induction l as [|e l IH]; unfold wsum in *; cbn [map fold_right fst snd]; [reflexivity|]. rewrite IH. ring. Qed.

  Lemma map_fst_tag {A B} (f : Z * A -> B) (l : list (Z * A)) : map fst (map (fun e => (fst e, f e)) l) = map fst l.
  Proof. rewrite map_map. reflexivity. Qed.

  (* ---------------------------------------------------------------- ... is ShamirSM's interpolation at 0 *)
  Lemma lnum_zprod k : forall m : list (Z * F),
    lnum (map fst m) k = zprod (map (fun e' => xof (fst e')) (others k m)).
  Proof.
    induction m as [|e m IH]; [reflexivity|]. unfold lnum, others in *. cbn [map fold_right filter].
    destruct (fst e =? k); cbn [negb]; [exact IH|]. cbn [map]. unfold zprod in *. cbn [fold_right]. rewrite IH. ring.
  Qed.

  Lemma lden_zprod k : forall m : list (Z * F),
    lden (map fst m) k = zprod (map (fun e' => zsub (xof (fst e')) (xof k)) (others k m)).
  Proof.
    induction m as [|e m IH]; [reflexivity|]. unfold lden, others in *. cbn [map fold_right filter].
    destruct (fst e =? k); cbn [negb]; [exact IH|]. cbn [map]. unfold zprod in *. cbn [fold_right]. rewrite IH. ring.
  Qed.

  Lemma xof_xrec i : idx_ok q i -> xof i = xrec q i.
  Proof. intros H. rewrite (xrec_xeval q i H). unfold PedersenDKG.xof, xeval. f_equal. lia. Qed.

  Lemma dpeval_speval (c : list F) x : dpeval c x = ShamirSM.peval c x.
  Proof. induction c as [|a c IH]; [reflexivity|]. rewrite peval_cons. cbn [PedersenDKG.peval]. rewrite IH. ring. Qed.

  Lemma map_ext_others {B} (f g : Z * F -> B) k (m : list (Z * F)) :
    (forall e, In e m -> f e = g e) -> map f (others k m) = map g (others k m).
  Proof. intros H. apply map_ext_in. intros e I. apply H. apply others_in in I. tauto. Qed.

  Lemma lagrange0_shamir (m : list (Z * F)) :
    Forall (idx_ok q) (map fst m) -> lagrange0 m = lagrange0_gen m (fun _ => m).
  Proof.
    intros OK. rewrite lagrange0_wsum. unfold wsum, lagrange0_gen, zsum.
    assert (X : forall e, In e m -> xof (fst e) = xrec q (fst e)).
    { intros e I. apply xof_xrec. rewrite Forall_forall in OK. apply OK. apply in_map. exact I. }
    assert (G : forall l : list (Z * F), (forall e, In e l -> In e m) ->
      fold_right (fun p acc => zadd (zmul (lw (map fst m) (fst p)) (snd p)) acc) zzero l =
      fold_right zadd zzero (map (fun e => secret_term m e) l)).
    { induction l as [|e l IH]; intros Sub; [reflexivity|]. cbn [fold_right map].
      rewrite IH by (intros e' I; apply Sub; right; exact I). f_equal.
      unfold lw, secret_term. cbv zeta. rewrite lnum_zprod, lden_zprod.
      rewrite <- (X e (Sub e (or_introl eq_refl))).
      rewrite (map_ext_others (fun e' => xrec q (fst e')) (fun e' => xof (fst e')) (fst e) m) by (intros; symmetry; apply X; assumption).
      rewrite (map_ext_others (fun e' => zsub (xrec q (fst e')) (xof (fst e))) (fun e' => zsub (xof (fst e')) (xof (fst e))) (fst e) m)
        by (intros e' I; rewrite (X e' I); reflexivity).
      unfold zdiv. ring. }
    apply G. auto.
  Qed.

  Lemma speval_app_zeros (c : list F) n x : ShamirSM.peval (c ++ repeat zzero n) x = ShamirSM.peval c x.
  Proof.
    induction c as [|a c IH]; cbn [app].
    - rewrite (peval_repeat_zero q q_prime). reflexivity.
    - rewrite !peval_cons, IH. reflexivity.
  Qed.

  (* interpolation at 0 through points of a polynomial with at most as many
     coefficients as there are points gives its constant term *)
  Theorem lagrange0_on_poly (pts : list (Z * F)) (c : list F) :
    NoDup (map fst pts) -> Forall (idx_ok q) (map fst pts) -> (length c <= length pts)%nat ->
    (forall p, In p pts -> snd p = dpeval c (xof (fst p))) ->
    lagrange0 pts = hd zzero c.
  Proof.
    intros ND OK LE ON.
    destruct pts as [|p0 pts0] eqn:EP.
    - destruct c; [reflexivity|cbn in LE; lia].
    - rewrite <- EP in *. rewrite (lagrange0_shamir pts OK).
      set (c' := c ++ repeat zzero (length pts - length c)).
      assert (H : lagrange0_gen pts (fun _ => pts) = hd zzero c').
      { apply (lagrange0_correct q q_prime pts).
        - split; [exact ND|]. intros i j Hi Hj E. rewrite Forall_forall in OK.
          rewrite (xrec_xeval q i (OK i Hi)), (xrec_xeval q j (OK j Hj)) in E.
          apply (xeval_inj q i j); auto.
        - rewrite EP. discriminate.
        - reflexivity.
        - intros i. reflexivity.
        - unfold c'. rewrite app_length, repeat_length. lia.
        - intros j yj I. unfold c'. rewrite speval_app_zeros, <- dpeval_speval.
          rewrite <- xof_xrec by (rewrite Forall_forall in OK; apply OK; change j with (fst (j, yj)); apply in_map; exact I).
          exact (ON (j, yj) I). }
      rewrite H. unfold c'. destruct c as [|a c0]; [|reflexivity].
      cbn [app length]. destruct (length pts - 0)%nat; reflexivity.
  Qed.

  (* ---------------------------------------------------------------- what compute_reshare_result computes *)
  Definition pub_of (e : Z * dstate q) : list F := match d_pub (snd e) with Some p => p | None => [] end.
  Definition share_of (e : Z * dstate q) : F := match d_share (snd e) with Some v => v | None => zzero end.

  (* the dealers computeResharingResult interpolates over: the oldT lowest
     indices among the dealers without complaint *)
  Definition used (c : cfg q) (s : st q) : list (Z * dstate q) :=
    firstn (Z.to_nat (c_oldT c)) (sort_by_index (filter (fun e => all_true (d_row (snd e))) (s_d s))).

  Definition coeffs_of (n : nat) (u : list (Z * dstate q)) : list F :=
    map (fun i => lagrange0 (map (fun e => (fst e, nth_coeff q i (pub_of e))) u)) (seq 0 n).

  Definition qual_pred (c : cfg q) (s : st q) (n : Z * Z) : bool :=
    negb (existsb (fun o => negb (match look (fst o) (s_d s) with Some d => all_true (d_row d) | None => true end)
                            && (snd o =? snd n)) (c_old c))
    && negb (holder_evicted q s (fst n)).

  Lemma In_firstn {B} n : forall (l : list B) x, In x (firstn n l) -> In x l.
  Proof. induction n as [|n IH]; intros [|a l] x I; cbn in *; try contradiction. destruct I as [I|I]; [left; exact I|right; apply IH; exact I]. Qed.

  Lemma reshare_spec (c : cfg q) s r : compute_reshare_result q c s = Some r ->
    length (used c s) = Z.to_nat (c_oldT c) /\
    (forall e, In e (used c s) -> In e (s_d s) /\ all_true (d_row (snd e)) = true /\
                                  exists p v, d_pub (snd e) = Some p /\ d_share (snd e) = Some v) /\
    res_share r = lagrange0 (map (fun e => (fst e, share_of e)) (used c s)) /\
    res_commits r = coeffs_of (Z.to_nat (c_newT c)) (used c s) /\
    res_idx r = c_nidx c /\
    res_qual r = map fst (filter (qual_pred c s) (c_new c)) /\
    dpeval (res_commits r) (xof (c_nidx c)) = dcommit (res_share r).
  Proof.
    unfold compute_reshare_result. fold (used c s).
    set (good := filter (fun e => all_true (d_row (snd e))) (s_d s)).
    destruct (negb (forallb (fun e => match d_pub (snd e), d_share (snd e) with Some _, Some _ => true | _, _ => false end) good)) eqn:FB; [discriminate|].
    apply negb_false_iff in FB. rewrite forallb_forall in FB.
    destruct (Nat.ltb (length good) (Z.to_nat (c_oldT c))) eqn:LT; [discriminate|]. apply Nat.ltb_ge in LT.
    match goal with |- (if negb (zeqb ?a ?b) then _ else _) = _ -> _ => destruct (negb (zeqb a b)) eqn:CK end; [discriminate|].
    apply negb_false_iff, zeqb_eq in CK.
    match goal with |- (if ?a then _ else _) = _ -> _ => destruct a end; [discriminate|].
    intros H. inversion H; subst r; clear H. cbn [res_share res_commits res_idx res_qual].
    assert (UG : forall e, In e (used c s) -> In e good).
    { intros e I. unfold used in I. apply In_firstn in I. fold good in I.
      eapply Permutation_in; [apply sort_by_index_perm|exact I]. }
    repeat split.
    - unfold used. fold good. rewrite firstn_length, (Permutation_length (sort_by_index_perm good)). lia.
    - apply UG in H. apply filter_In in H. tauto.
    - apply UG in H. apply filter_In in H. tauto.
    - apply UG in H. specialize (FB _ H). destruct (d_pub (snd e)) as [p|]; [|discriminate].
      destruct (d_share (snd e)) as [v|]; [|discriminate]. exists p, v. split; reflexivity.
    - exact CK.
  Qed.

  Lemma NoDup_firstn_keys {A} n : forall l : list (Z * A), NoDup (map fst l) -> NoDup (map fst (firstn n l)).
  Proof.
    induction n as [|n IH]; intros [|e l] ND; cbn [firstn map]; try constructor.
    - inversion ND as [|? ? N1 N2]; subst. intros I. apply N1. apply in_map_iff in I. destruct I as (x & E & I).
      rewrite <- E. apply in_map. eapply In_firstn. exact I.
    - inversion ND; subst. apply IH. assumption.
  Qed.

  Lemma used_nodup (c : cfg q) s : NoDup (map fst (s_d s)) -> NoDup (map fst (used c s)).
  Proof.
    intros ND. unfold used. apply NoDup_firstn_keys.
    eapply Permutation_NoDup; [apply Permutation_map, Permutation_sym, sort_by_index_perm|].
    apply NoDup_filter_keys. exact ND.
  Qed.

  (* ---------------------------------------------------------------- (R1) the distributed public key is preserved *)
  Lemma nth0_hd (p : list F) : nth 0 p zzero = hd zzero p.
  Proof. destruct p; reflexivity. Qed.

  (* [Fold]: the public polynomial of the previous sharing (degree < oldT).  If
     the constant commitment of every used dealer is the old public share of
     that dealer, Fold(x_i) - what deal_loop / just_loop check against
     c_oldpub before a share is accepted - then the constant term of the new
     commitment polynomial is Fold's, whatever the other coefficients of the
     dealers' polynomials are. *)
  Theorem reshare_key_preserved (c : cfg q) s r (Fold : list F) :
    compute_reshare_result q c s = Some r ->
    0 < c_newT c -> (length Fold <= Z.to_nat (c_oldT c))%nat ->
    NoDup (map fst (s_d s)) ->
    (forall e, In e (used c s) -> idx_ok q (fst e)) ->
    (forall e, In e (used c s) -> hd zzero (pub_of e) = dpeval Fold (xof (fst e))) ->
    hd zzero (res_commits r) = hd zzero Fold.
  Proof.
    intros H NT LF ND OK C0. destruct (reshare_spec c s r H) as (LU & _ & _ & RC & _).
    rewrite RC. unfold coeffs_of. destruct (Z.to_nat (c_newT c)) as [|n] eqn:EN; [lia|].
    cbn [seq map hd]. apply lagrange0_on_poly.
    - rewrite map_fst_tag. apply used_nodup. exact ND.
    - rewrite map_fst_tag. apply Forall_forall. intros k I. apply in_map_iff in I. destruct I as (e & <- & I). apply OK. exact I.
    - rewrite map_length, LU. exact LF.
    - intros p I. apply in_map_iff in I. destruct I as (e & <- & I). cbn [fst snd]. unfold nth_coeff.
      rewrite nth0_hd. apply C0. exact I.
  Qed.

  (* ---------------------------------------------------------------- (R2) the new share lies on the new polynomial *)
  Lemma nth_S_tl (p : list F) i : nth (S i) p zzero = nth i (tl p) zzero.
  Proof. destruct p; [destruct i|]; reflexivity. Qed.

  Lemma dpeval_firstn_S n (p : list F) x :
    dpeval (firstn (S n) p) x = zadd (nth 0 p zzero) (zmul x (dpeval (firstn n (tl p)) x)).
  Proof. destruct p as [|a p]; cbn [firstn tl nth PedersenDKG.peval]; [destruct n; cbn [firstn PedersenDKG.peval]; ring|reflexivity]. Qed.

  (* evaluating the coefficient-wise interpolation = interpolating the evaluations *)
  Lemma dpeval_coeffs {A} ks x : forall n (P : Z * A -> list F) (u : list (Z * A)),
    dpeval (map (fun i => wsum ks (map (fun e => (fst e, nth i (P e) zzero)) u)) (seq 0 n)) x
    = wsum ks (map (fun e => (fst e, dpeval (firstn n (P e)) x)) u).
  Proof.
    induction n as [|n IH]; intros P u.
    - cbn [seq map PedersenDKG.peval firstn]. symmetry. apply wsum_zero.
    - cbn [seq map]. rewrite <- seq_shift, map_map. cbn [PedersenDKG.peval].
      rewrite (map_ext _ (fun i => wsum ks (map (fun e => (fst e, nth i (tl (P e)) zzero)) u))).
      2:{ intros i. f_equal. apply map_ext. intros e. rewrite nth_S_tl. reflexivity. }
      rewrite (IH (fun e => tl (P e)) u).
      rewrite (wsum_ext ks (fun e => dpeval (firstn (S n) (P e)) x)
                 (fun e => zadd (nth 0 (P e) zzero) (zmul x (dpeval (firstn n (tl (P e))) x)))).
      2:{ intros e _. apply dpeval_firstn_S. }
      rewrite wsum_lin. reflexivity.
  Qed.

  Lemma firstn_all_le {B} n (l : list B) : (length l <= n)%nat -> firstn n l = l.
  Proof. revert l. induction n as [|n IH]; intros [|a l] L; cbn in *; try reflexivity; try lia. f_equal. apply IH. lia. Qed.

  Lemma dcommit_mul (v : F) : dcommit v = zmul v zone.
  Proof. reflexivity. Qed.

  (* the test `peval coeffs x == commit sh` of computeResharingResult cannot
     fail when every used dealer's stored share is valid for its stored public
     polynomial (the invariant entry_ok, kept by ProcessDeals and
     ProcessJustifications) and that polynomial has at most newT coefficients
     (deal_step accepts only bundles with exactly Threshold coefficients) *)
  Theorem reshare_check_passes (n : nat) (x : F) (u : list (Z * dstate q)) :
    (forall e, In e u -> (length (pub_of e) <= n)%nat /\ dcommit (share_of e) = dpeval (pub_of e) x) ->
    dpeval (coeffs_of n u) x = dcommit (lagrange0 (map (fun e => (fst e, share_of e)) u)).
  Proof.
    intros H. unfold coeffs_of.
    rewrite (map_ext _ (fun i => wsum (map fst u) (map (fun e => (fst e, nth i (pub_of e) zzero)) u))).
    2:{ intros i. rewrite lagrange0_wsum, map_fst_tag. reflexivity. }
    rewrite dpeval_coeffs. rewrite lagrange0_wsum, map_fst_tag, dcommit_mul, <- wsum_scale.
    apply wsum_ext. intros e I. destruct (H e I) as [L E]. rewrite firstn_all_le by exact L.
    rewrite <- dcommit_mul. symmetry. exact E.
  Qed.

  (* on a result, the share lies on the output polynomial (that is the test itself) *)
  Theorem reshare_share_on_polynomial (c : cfg q) s r :
    compute_reshare_result q c s = Some r ->
    dcommit (res_share r) = dpeval (res_commits r) (xof (c_nidx c)) /\ res_idx r = c_nidx c.
  Proof. intros H. destruct (reshare_spec c s r H) as (_ & _ & _ & _ & RI & _ & CK). split; [symmetry; exact CK|exact RI]. Qed.

  (* completion: with at least oldT complaint-free dealers, a stored polynomial
     (of at most newT coefficients) and a valid stored share for each of them,
     and at least Threshold qualified new nodes, computeResharingResult returns a
     result - none of its error paths is taken *)
  Theorem reshare_completes (c : cfg q) s :
    let good := filter (fun e => all_true (d_row (snd e))) (s_d s) in
    (Z.to_nat (c_oldT c) <= length good)%nat ->
    (forall e, In e good -> exists p v, d_pub (snd e) = Some p /\ d_share (snd e) = Some v) ->
    (forall e, In e (used c s) -> (length (pub_of e) <= Z.to_nat (c_newT c))%nat /\
                                  entry_ok q (xof (c_nidx c)) e) ->
    c_thr c <= Z.of_nat (length (filter (qual_pred c s) (c_new c))) ->
    exists r, compute_reshare_result q c s = Some r.
  Proof.
    intros good LG PS EO QN. unfold compute_reshare_result. fold good. fold (used c s).
    assert (FB : forallb (fun e => match d_pub (snd e), d_share (snd e) with Some _, Some _ => true | _, _ => false end) good = true).
    { apply forallb_forall. intros e I. destruct (PS e I) as (p & v & -> & ->). reflexivity. }
    rewrite FB. cbn [negb]. destruct (Nat.ltb (length good) (Z.to_nat (c_oldT c))) eqn:LT; [apply Nat.ltb_lt in LT; lia|].
    assert (CK : dpeval (coeffs_of (Z.to_nat (c_newT c)) (used c s)) (xof (c_nidx c))
                 = dcommit (lagrange0 (map (fun e => (fst e, share_of e)) (used c s)))).
    { apply reshare_check_passes. intros e I. destruct (EO e I) as [L E]. split; [exact L|].
      assert (IG : In e good).
      { unfold used in I. apply In_firstn in I. eapply Permutation_in; [apply sort_by_index_perm|exact I]. }
      destruct (PS e IG) as (p & v & EP & EV). unfold share_of, pub_of. rewrite EP, EV. apply E; assumption. }
    unfold coeffs_of, share_of, pub_of, used in CK. fold good in CK. rewrite CK. rewrite (proj2 (zeqb_eq _ _ _) eq_refl). cbn [negb].
    fold (qual_pred c s).
    match goal with |- exists r, (if ?a then _ else _) = _ => destruct a eqn:QL end.
    - apply Z.ltb_lt in QL. change (Z.of_nat (length (filter (qual_pred c s) (c_new c))) < c_thr c) in QL. lia.
    - eexists. reflexivity.
  Qed.

  (* any family of new shares that lie on a common polynomial C with at most
     as many coefficients as there are shares interpolates (RecoverSecret) to a
     value whose commitment is C's constant term *)
  Lemma pts_eta {B} (pts : list (Z * B)) : map (fun e => (fst e, snd e)) pts = pts.
  Proof. induction pts as [|[a b] l IH]; [reflexivity|]. cbn [map fst snd]. rewrite IH. reflexivity. Qed.

  Theorem shares_on_poly_recover (C : list F) (pts : list (Z * F)) :
    NoDup (map fst pts) -> Forall (idx_ok q) (map fst pts) -> (length C <= length pts)%nat ->
    (forall p, In p pts -> dcommit (snd p) = dpeval C (xof (fst p))) ->
    dcommit (lagrange0 pts) = hd zzero C.
  Proof.
    intros ND OK LE ON.
    rewrite lagrange0_wsum, dcommit_mul. rewrite <- (pts_eta pts) at 2. rewrite <- wsum_scale.
    rewrite <- (map_fst_tag (fun e => zmul (snd e) zone) pts), <- lagrange0_wsum.
    apply lagrange0_on_poly.
    - rewrite map_fst_tag. exact ND.
    - rewrite map_fst_tag. exact OK.
    - rewrite map_length. exact LE.
    - intros p I. apply in_map_iff in I. destruct I as (e & <- & I). cbn [fst snd]. rewrite <- dcommit_mul. apply ON. exact I.
  Qed.

  (* (R2, reconstruction) new nodes that completed with the same commitment
     polynomial C: the shares of any set of them at least as large as C is long
     (newT) interpolate to a secret whose commitment is C_0 - which is the old
     public key by reshare_key_preserved *)
  Theorem reshare_new_shares_recover (C : list F) (nodes : list (cfg q * st q * result q)) :
    (forall n, In n nodes -> compute_reshare_result q (fst (fst n)) (snd (fst n)) = Some (snd n) /\ res_commits (snd n) = C) ->
    NoDup (map (fun n => res_idx (snd n)) nodes) ->
    Forall (idx_ok q) (map (fun n => res_idx (snd n)) nodes) ->
    (length C <= length nodes)%nat ->
    dcommit (lagrange0 (map (fun n => (res_idx (snd n), res_share (snd n))) nodes)) = hd zzero C.
  Proof.
    intros H ND OK LE. apply shares_on_poly_recover.
    - rewrite map_map. exact ND.
    - rewrite map_map. exact OK.
    - rewrite map_length. exact LE.
    - intros p I. apply in_map_iff in I. destruct I as (n & <- & I). cbn [fst snd].
      destruct (H n I) as [E EC]. destruct (reshare_share_on_polynomial _ _ _ E) as [S RI]. rewrite S, EC, RI. reflexivity.
  Qed.

  (* ---------------------------------------------------------------- (R3) agreement, independence of list orders *)
  (* the public view of the dealers: index, "row without complaint", broadcast polynomial *)
  Definition dvv (d : dstate q) : bool * option (list F) := (all_true (d_row d), d_pub d).
  Definition dview (s : st q) : list (Z * (bool * option (list F))) := map (fun e => (fst e, dvv (snd e))) (s_d s).

  Definition upubs (t : Z) (v : list (Z * (bool * option (list F)))) : list (Z * list F) :=
    map (fun e => (fst e, match snd (snd e) with Some p => p | None => [] end))
        (firstn (Z.to_nat t) (sort_by_index (filter (fun e => fst (snd e)) v))).

  Lemma used_view (c : cfg q) s : map (fun e => (fst e, pub_of e)) (used c s) = upubs (c_oldT c) (dview s).
  Proof.
    unfold upubs, dview, used. rewrite filter_map_comm.
    rewrite (sort_by_index_map (fun e : Z * dstate q => (fst e, dvv (snd e)))) by reflexivity.
    rewrite firstn_map, map_map. reflexivity.
  Qed.

  Lemma coeffs_of_pubs n u :
    coeffs_of n u = map (fun i => lagrange0 (map (fun e => (fst e, nth i (snd e) zzero)) (map (fun e => (fst e, pub_of e)) u))) (seq 0 n).
  Proof. unfold coeffs_of. apply map_ext. intros i. rewrite map_map. reflexivity. Qed.

  Lemma upubs_perm t v1 v2 : NoDup (map fst v1) -> Permutation v1 v2 -> upubs t v1 = upubs t v2.
  Proof.
    intros ND P. unfold upubs. f_equal. f_equal. apply sort_by_index_perm_invariant.
    - apply NoDup_filter_keys. exact ND.
    - apply Permutation_filter. exact P.
  Qed.

  Lemma look_tag {A B} (g : A -> B) k : forall l : list (Z * A),
    look k (map (fun e => (fst e, g (snd e))) l) = option_map g (look k l).
  Proof.
    induction l as [|[k' v] l IH]; [reflexivity|]. cbn [map look fst snd]. destruct (k' =? k); [reflexivity|exact IH].
  Qed.

  Lemma dview_keys s : map fst (dview s) = map fst (s_d s).
  Proof. unfold dview. rewrite map_map. reflexivity. Qed.

  Lemma row_ok_view s k :
    (match look k (s_d s) with Some d => all_true (d_row d) | None => true end)
    = (match look k (dview s) with Some v => fst v | None => true end).
  Proof. unfold dview. rewrite look_tag. destruct (look k (s_d s)); reflexivity. Qed.

  Lemma existsb_ext {A} (f g : A -> bool) (l : list A) : (forall x, f x = g x) -> existsb f l = existsb g l.
  Proof. intros H. induction l as [|x l IH]; [reflexivity|]. cbn. rewrite H, IH. reflexivity. Qed.

  Lemma qual_pred_view (c1 c2 : cfg q) s1 s2 n :
    Permutation (c_old c1) (c_old c2) -> NoDup (map fst (s_d s1)) -> Permutation (dview s1) (dview s2) ->
    (forall i, holder_evicted q s1 i = holder_evicted q s2 i) ->
    qual_pred c1 s1 n = qual_pred c2 s2 n.
  Proof.
    intros PO ND PV HE. unfold qual_pred. rewrite HE. f_equal. f_equal.
    rewrite <- (existsb_perm _ _ _ PO). apply existsb_ext. intros o.
    rewrite !row_ok_view. rewrite (look_perm (fst o) (dview s1) (dview s2)); [reflexivity| |exact PV].
    rewrite dview_keys. exact ND.
  Qed.

  (* Two new nodes whose public views coincide as SETS - the same dealers with
     the same "row without complaint" flag and the same broadcast polynomial,
     listed in any order (Config.OldNodes / the status matrix may be ordered
     differently), the same evicted holders, the same old and new thresholds -
     and who both complete output the same commitment polynomial and the same
     QUAL: equal as a list when Config.NewNodes is the same list, equal up to
     order when it is a permutation. *)
  Theorem reshare_agreement (c1 c2 : cfg q) s1 s2 r1 r2 :
    c_oldT c1 = c_oldT c2 -> c_newT c1 = c_newT c2 ->
    Permutation (c_old c1) (c_old c2) ->
    NoDup (map fst (s_d s1)) -> Permutation (dview s1) (dview s2) ->
    (forall i, holder_evicted q s1 i = holder_evicted q s2 i) ->
    compute_reshare_result q c1 s1 = Some r1 -> compute_reshare_result q c2 s2 = Some r2 ->
    res_commits r1 = res_commits r2 /\
    (c_new c1 = c_new c2 -> res_qual r1 = res_qual r2) /\
    (Permutation (c_new c1) (c_new c2) -> Permutation (res_qual r1) (res_qual r2)).
  Proof.
    intros ET EN PO ND PV HE H1 H2.
    destruct (reshare_spec c1 s1 r1 H1) as (_ & _ & _ & RC1 & _ & RQ1 & _).
    destruct (reshare_spec c2 s2 r2 H2) as (_ & _ & _ & RC2 & _ & RQ2 & _).
    assert (QP : forall n, qual_pred c1 s1 n = qual_pred c2 s2 n) by (intros n; apply qual_pred_view; assumption).
    repeat split.
    - rewrite RC1, RC2, !coeffs_of_pubs, !used_view, ET, EN.
      rewrite (upubs_perm (c_oldT c2) (dview s1) (dview s2)); [reflexivity| |exact PV].
      rewrite dview_keys. exact ND.
    - intros E. rewrite RQ1, RQ2, E. f_equal. apply filter_ext. exact QP.
    - intros P. rewrite RQ1, RQ2. apply Permutation_map.
      rewrite (filter_ext _ _ QP). apply Permutation_filter. exact P.
  Qed.
End Reshare.

(* ------------------------------------------------------------------ *)
(* the premise of reshare_key_preserved holds along a run: in a resharing a
   node stores a share of a dealer only after checking that the constant
   commitment of the dealer's polynomial is the dealer's OLD public share,
   c_oldpub evaluated at the dealer's index (deal_loop, just_loop)       *)
Section ConstTerm.
  Variable q : Z.
  Notation F := (zq q).
  Variable c : cfg q.
  Hypothesis RS : c_reshare c = true.

  Definition const_ok (e : Z * dstate q) : Prop :=
    forall v p, d_share (snd e) = Some v -> d_pub (snd e) = Some p ->
      PedersenDKG.peval q (c_oldpub c) (xof q (fst e)) = hd zzero p.

  Lemma const_ok_keeps f k d : keeps_sp q f -> const_ok (k, d) -> const_ok (k, f d).
  Proof. intros K H v p. cbn. destruct (K d) as [-> ->]. apply H. Qed.

  Lemma deal_loop_const dealer pub ds : forall d,
    d_pub d = Some pub -> const_ok (dealer, d) -> const_ok (dealer, deal_loop q c dealer pub ds d).
  Proof.
    induction ds as [|dl ds IH]; intros d DP H; cbn [deal_loop]; [exact H|].
    destruct (negb (included (c_new c) (dl_idx dl))); [apply const_ok_keeps; [apply keeps_set_ev|exact H]|].
    destruct (negb (dl_idx dl =? c_nidx c)); [apply IH; assumption|].
    destruct (dl_share dl) as [sh|]; [|apply IH; assumption].
    destruct (negb (zeqb (PedersenDKG.peval q pub (xof q (c_nidx c))) (PedersenDKG.commit q sh))); [apply IH; assumption|].
    rewrite RS. cbn [andb].
    destruct (negb (zeqb (PedersenDKG.peval q (c_oldpub c) (xof q dealer)) (hd zzero pub))) eqn:CK; [apply IH; assumption|].
    apply IH; [exact DP|].
    intros v p. cbn. intros _ E2. rewrite DP in E2. inversion E2; subst p.
    apply negb_false_iff, zeqb_eq in CK. exact CK.
  Qed.

  Lemma deal_step_const b d :
    deal_inv q c (db_dealer b, d) -> const_ok (db_dealer b, d) -> const_ok (db_dealer b, deal_step q c b d).
  Proof.
    intros [_ NS] H. cbn [fst snd] in NS. unfold deal_step.
    destruct (c_can_issue c && (db_dealer b =? c_oidx c)) eqn:OWN; [exact H|].
    specialize (NS eq_refl).
    destruct (negb (db_sid b)); [apply const_ok_keeps; [apply keeps_set_ev|exact H]|].
    destruct (negb (Z.of_nat (length (db_pub b)) =? c_thr c)); [apply const_ok_keeps; [apply keeps_set_ev|exact H]|].
    destruct (d_seen d) eqn:SE; [apply const_ok_keeps; [apply keeps_set_ev|exact H]|].
    apply deal_loop_const; [reflexivity|]. intros v p. cbn. rewrite (NS eq_refl). discriminate.
  Qed.

  Definition deal_inv_c (e : Z * dstate q) : Prop := deal_inv q c e /\ const_ok e.

  Theorem deals_keep_const bs : forall s,
    Forall deal_inv_c (s_d s) -> Forall deal_inv_c (s_d (fold_left (deal_fold q c) bs s)).
  Proof.
    induction bs as [|b bs IH]; intros s H; cbn [fold_left]; [exact H|].
    apply IH. unfold deal_fold, on_d. cbn [s_d]. apply Forall_upd_gen; [|exact H].
    intros d [I C]. split; [apply deal_step_inv; exact I|apply deal_step_const; assumption].
  Qed.

  Lemma just_loop_const dealer js : forall d,
    const_ok (dealer, d) -> const_ok (dealer, just_loop q c dealer js d).
  Proof.
    induction js as [|j js IH]; intros d H; cbn [just_loop]; [exact H|].
    destruct (negb (included (c_new c) (j_idx j))); [apply IH, const_ok_keeps; [apply keeps_set_ev|exact H]|].
    destruct (d_pub d) as [pub|] eqn:DP; [|apply const_ok_keeps; [apply keeps_set_ev|exact H]].
    destruct (negb (zeqb (PedersenDKG.commit q (j_share j)) (PedersenDKG.peval q pub (xof q (j_idx j)))));
      [apply IH, const_ok_keeps; [apply keeps_set_ev|exact H]|].
    rewrite RS. cbn [andb].
    destruct (negb (zeqb (PedersenDKG.peval q (c_oldpub c) (xof q dealer)) (hd zzero pub))) eqn:CK;
      [apply IH, const_ok_keeps; [apply keeps_set_ev|exact H]|].
    apply negb_false_iff, zeqb_eq in CK.
    apply IH. destruct (j_idx j =? c_nidx c).
    - intros v p. cbn. intros _ E2. rewrite DP in E2. inversion E2; subst p. exact CK.
    - apply const_ok_keeps; [apply keeps_set_cell|exact H].
  Qed.

  Lemma just_step_const b d : const_ok (jb_dealer b, d) -> const_ok (jb_dealer b, just_step q c b d).
  Proof.
    intros H. unfold just_step.
    destruct (d_seen d); [apply const_ok_keeps; [apply keeps_set_ev|exact H]|].
    destruct (c_can_issue c && (jb_dealer b =? c_oidx c)); [exact H|].
    destruct (d_ev d); [exact H|].
    destruct (negb (jb_sid b)); [apply const_ok_keeps; [apply keeps_set_ev|exact H]|].
    apply just_loop_const. apply const_ok_keeps; [apply keeps_set_seen|exact H].
  Qed.

  Theorem justifs_keep_const bs : forall s,
    Forall const_ok (s_d s) -> Forall const_ok (s_d (fold_left (just_fold q c) bs s)).
  Proof.
    induction bs as [|b bs IH]; intros s H; cbn [fold_left]; [exact H|].
    apply IH. unfold just_fold, on_d. cbn [s_d]. apply Forall_upd_gen; [|exact H].
    intros d. apply just_step_const.
  Qed.

  (* the bookkeeping between the loops and the result (self_success, response
     processing, mark_evicted, phases) touches neither shares nor polynomials *)
  Lemma const_ok_mark_evicted s : Forall const_ok (s_d s) -> Forall const_ok (s_d (mark_evicted q s)).
  Proof.
    intros H. unfold mark_evicted, on_d. cbn [s_d].
    apply (Forall_map_gen q const_ok const_ok); [|exact H].
    intros [k d] Hk. cbn [snd fst]. destruct (d_ev d); [|exact Hk]. apply const_ok_keeps; [apply keeps_set_row_all|exact Hk].
  Qed.
End ConstTerm.

Section KeyRun.
  Variable q : Z.
  Hypothesis q_prime : prime q.

  (* (R1) along a run: a state in which every stored share was accepted against
     the old public polynomial yields a result with the old public key *)
  Theorem reshare_key_preserved_run (c : cfg q) s r :
    c_reshare c = true ->
    compute_reshare_result q c s = Some r ->
    0 < c_newT c -> (length (c_oldpub c) <= Z.to_nat (c_oldT c))%nat ->
    NoDup (map fst (s_d s)) ->
    (forall e, In e (used q c s) -> idx_ok q (fst e)) ->
    Forall (const_ok q c) (s_d s) ->
    hd zzero (res_commits r) = hd zzero (c_oldpub c).
  Proof.
    intros RS H NT LF ND OK CO. apply (reshare_key_preserved q q_prime c s r (c_oldpub c)); try assumption.
    intros e I. destruct (reshare_spec q c s r H) as (_ & U & _). destruct (U e I) as (IS & _ & p & v & EP & EV).
    rewrite Forall_forall in CO. unfold pub_of. rewrite EP. symmetry. apply (CO e IS v p); assumption.
  Qed.
End KeyRun.
