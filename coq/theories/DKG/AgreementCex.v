(* Why ProcessResponses must not read the rows of evicted dealers.

   kyber's original ProcessResponses ended the protocol in the response phase
   when no complaint was on the board and statuses.CompleteSuccess() held -
   a test over ALL rows of the status matrix, including the rows of dealers the
   node had already evicted in ProcessDeals.  A node does not broadcast
   complaints against a dealer it has evicted, so the cell
   statuses[evicted dealer][self] is private: honest nodes could take different
   exits and then evict different dealers.  [complete_success_unrepaired] /
   [process_responses_unrepaired] below are the model of that original code
   (PedersenDKG.complete_success now skips evicted dealers, as the repaired
   kyber does); the example is a fresh DKG with n = 5, t = 3, honest 0, 1, 2:

   - dealer 3 lists valid deals for 0, 2, 4, then a deal for the share index 99
     (not a node), then the valid deal for 1.  ProcessDeals stops at index 99:
     every honest node evicts 3, nodes 0 and 2 have recorded Success for
     (3, self), node 1 keeps its pre-set Complaint in (3, 1).  Nobody complains
     about an evicted dealer: the response board is empty.
   - nodes 0 and 2: no complaint, matrix complete -> result in the response
     phase, QUAL = [0;1;2;4].
   - node 1: its private cell (3,1) is a complaint -> justification phase.
     Party 4 now broadcasts a justification bundle with a wrong session id:
     node 1 evicts 4, three good dealers remain (= t), QUAL = [0;1;2] and a
     different public key.

   With the repaired test all three honest nodes take the same exit (the
   response phase, QUAL = [0;1;2;4])
   ([agreement_after_repair]; in general DKG/AgreementProofs.pedersen_agreement). *)
From Coq Require Import ZArith List Bool.
From Kyber Require Import Algebra.Zq Algebra.Grp DKG.PedersenDKG.
Import ListNotations.
Local Open Scope Z_scope.

Section Unrepaired.
  Variable q : Z.

  Definition complete_success_unrepaired (s : st q) : bool :=
    forallb (fun e => all_true (d_row (snd e))) (s_d s).

  (* PedersenDKG.process_responses with the original completeness test *)
  Definition process_responses_unrepaired (c : cfg q) (s : st q) (bs : list resp_bundle) : resp_out q :=
    if (if negb (c_can_receive c)
        then negb (s_phase s =? 1) && negb (s_phase s =? 2)
        else negb (s_phase s =? 2))
    then mkro q s EPhase None None
    else with_evict_check q c (
      if negb (c_fast c) && (match bs with [] => true | _ => false end) && c_can_receive c && complete_success_unrepaired s
      then result_out q c s
      else
        let s1 := fold_left (resp_step q c) bs (reset_resp_locals q s) in
        let s2 := evict_silent q c s1 in
        if negb (s_found s2) && complete_success_unrepaired s2 then
          if c_can_receive c then result_out q c s2
          else mkro q (set_phase q 4 s2) ENone None None
        else
          let s3 := set_phase q 3 (evict_complained q c s2) in
          if negb (c_can_issue c) then mkro q s3 ENone None None
          else match my_justifs q c s3 with
               | [] => mkro q s3 ENone None None
               | js => mkro q (clear_own_complaints q c s3) ENone None (Some (mkjb (c_oidx c) js true))
               end).
End Unrepaired.

Definition cex_q : Z := 251.
Definition cex_f (v : Z) : zq cex_q := of_Z cex_q v.
Definition cex_nodes : list (Z * Z) := [(0, 100); (1, 101); (2, 102); (3, 103); (4, 104)].
Definition cex_priv (i : Z) : list Z := [5 + i; 7 * i + 1; 3 + 2 * i].
Definition cex_cfg (i : Z) : cfg cex_q :=
  new_handler cex_q [] cex_nodes (100 + i) 3 0 false false false (map cex_f (cex_priv i)) [].
Definition cex_honest_bundle (i : Z) : deal_bundle cex_q :=
  match deals cex_q (cex_cfg i) (init_st cex_q (cex_cfg i)) with
  | Some (_, b) => b
  | None => mkdb i [] [] false
  end.
Definition cex_pick (i h : Z) : list (deal cex_q) := filter (fun d => dl_idx d =? h) (db_deals (cex_honest_bundle i)).
(* dealer 3: valid deals, but an out-of-range share index before the deal of node 1 *)
Definition cex_bundle3 : deal_bundle cex_q :=
  mkdb 3 (cex_pick 3 0 ++ cex_pick 3 2 ++ cex_pick 3 4 ++ [mkdeal 99 None] ++ cex_pick 3 1)
       (db_pub (cex_honest_bundle 3)) true.
Definition cex_D : list (deal_bundle cex_q) :=
  [cex_honest_bundle 0; cex_honest_bundle 1; cex_honest_bundle 2; cex_bundle3; cex_honest_bundle 4].
Definition cex_R : list resp_bundle := [].
(* party 4: a justification bundle with a wrong session id *)
Definition cex_J : list (just_bundle cex_q) := [mkjb 4 [] false].

(* (phase in which the node finished, response bundle it sent, QUAL, public key) *)
Definition cex_run (pr : cfg cex_q -> st cex_q -> list resp_bundle -> resp_out cex_q) (i : Z)
  : option (Z * option resp_bundle * list Z * Z) :=
  let c := cex_cfg i in
  match deals cex_q c (init_st cex_q c) with
  | Some (s1, _) =>
      match process_deals cex_q c s1 cex_D with
      | Some (s2, rb) =>
          let o := pr c s2 cex_R in
          match ro_err o, ro_res o with
          | ENone, Some r => Some (2, rb, res_qual r, val (hd zzero (res_commits r)))
          | ENone, None =>
              let o2 := process_justifs cex_q c (ro_st o) cex_J in
              match jo_err o2, jo_res o2 with
              | ENone, Some r => Some (3, rb, res_qual r, val (hd zzero (res_commits r)))
              | _, _ => None
              end
          | _, _ => None
          end
      | None => None
      end
  | None => None
  end.

(* the original code: honest nodes 0, 2 and honest node 1 complete with
   different QUAL and different public keys *)
Example disagreement_before_repair :
  cex_run (process_responses_unrepaired cex_q) 0 = Some (2, None, [0; 1; 2; 4], 27) /\
  cex_run (process_responses_unrepaired cex_q) 1 = Some (3, None, [0; 1; 2], 18) /\
  cex_run (process_responses_unrepaired cex_q) 2 = Some (2, None, [0; 1; 2; 4], 27).
Proof. vm_compute. repeat split. Qed.

(* the repaired code on the same boards: the private cell (3,1) of the evicted
   dealer no longer matters, all three finish in the response phase and agree
   (party 4's late justification bundle is never processed) *)
Example agreement_after_repair :
  cex_run (process_responses cex_q) 0 = Some (2, None, [0; 1; 2; 4], 27) /\
  cex_run (process_responses cex_q) 1 = Some (2, None, [0; 1; 2; 4], 27) /\
  cex_run (process_responses cex_q) 2 = Some (2, None, [0; 1; 2; 4], 27).
Proof. vm_compute. repeat split. Qed.
