(* DKG agreement, part 3: the justification phase of an honest node of a fresh
   DKG: eviction of over-complained dealers, the own justification bundle, the
   ProcessJustifications loop. *)
From Coq Require Import ZArith List Bool Lia Permutation.
From Kyber Require Import Algebra.Zq Algebra.Grp DKG.PedersenDKG DKG.PedersenProofs DKG.Agreement DKG.AgreementDeal DKG.AgreementResp.
Import ListNotations.
Local Open Scope Z_scope.

Lemma look_map_keep {A} (g : Z * A -> Z * A) (m : list (Z * A)) k :
  (forall e, fst (g e) = fst e) ->
  look k (map g m) = match look k m with Some v => Some (snd (g (k, v))) | None => None end.
Proof.
  intros H. induction m as [|[k0 v] m IH]; [reflexivity|]. cbn [map].
  pose proof (H (k0, v)) as H0. destruct (g (k0, v)) as [k1 v1] eqn:G. cbn [fst] in H0. subst k1. cbn [look].
  destruct (k0 =? k) eqn:E; [|exact IH]. apply Z.eqb_eq in E. subst k0. rewrite G. reflexivity.
Qed.

Lemma map_keep_keys {A} (g : Z * A -> Z * A) (m : list (Z * A)) :
  (forall e, fst (g e) = fst e) -> map fst (map g m) = map fst m.
Proof. intros H. rewrite map_map. apply map_ext. exact H. Qed.

Section Just.
  Variable q : Z.
  Notation F := (zq q).
  Variable nodes : list (Z * Z).
  Variable thr : Z.
  Variable fast : bool.               (* Config.FastSync *)
  Notation K := (map fst nodes).
  Notation fresh := (fresh_cfg q nodes thr fast).

  (* ---------------------------------------------------------------- rows *)
  Definition clear1 (row : list (Z * Z)) : list (Z * Z) :=
    map (fun e : Z * Z => if snd e =? 1 then (fst e, 0) else e) row.

  Lemma clear1_keys row : map fst (clear1 row) = map fst row.
  Proof. unfold clear1. rewrite map_map. apply map_ext. intros [k v]. cbn. destruct (v =? 1); reflexivity. Qed.

  Lemma clear1_cell row h : cell (clear1 row) h = if cell row h =? 1 then 0 else cell row h.
  Proof.
    unfold cell, clear1. induction row as [|[k v] row IH]; [reflexivity|]. cbn [map fst snd].
    destruct (v =? 1) eqn:E; cbn [look]; destruct (k =? h); auto; rewrite E; reflexivity.
  Qed.

  Definition justs_of (priv : list F) (row : list (Z * Z)) : list (justif q) :=
    flat_map (fun e : Z * Z => if snd e =? 1 then [mkjust (fst e) (peval q priv (xof q (fst e)))] else []) row.

  Lemma justs_nil_clear priv row : justs_of priv row = [] -> clear1 row = row.
  Proof.
    induction row as [|[k v] row IH]; [reflexivity|]. cbn [justs_of flat_map clear1 map fst snd].
    destruct (v =? 1); [discriminate|]. intros H. f_equal. apply IH. exact H.
  Qed.

  Lemma justs_idx priv row h :
    existsb (fun j : justif q => j_idx j =? h) (justs_of priv row) = existsb (fun e : Z * Z => (fst e =? h) && (snd e =? 1)) row.
  Proof.
    induction row as [|[k v] row IH]; [reflexivity|]. cbn [justs_of flat_map existsb fst snd].
    rewrite existsb_app. fold (justs_of priv row). rewrite IH. destruct (v =? 1); cbn [existsb j_idx]; rewrite ?orb_false_r, ?andb_true_r, ?andb_false_r; reflexivity.
  Qed.

  Lemma existsb_row_cell (row : list (Z * Z)) h : NoDup (map fst row) ->
    existsb (fun e : Z * Z => (fst e =? h) && (snd e =? 1)) row = (cell row h =? 1).
  Proof.
    unfold cell. induction row as [|[k v] row IH]; intros ND; [reflexivity|]. cbn [existsb fst snd look map] in *.
    inversion ND as [|? ? N1 N2]; subst. destruct (k =? h) eqn:E; cbn [andb orb]; [|apply IH; exact N2].
    apply Z.eqb_eq in E. subst k. destruct (v =? 1); [reflexivity|]. cbn [orb].
    apply not_true_iff_false. intros X. apply existsb_exists in X. destruct X as ([k' v'] & I & X).
    cbn in X. apply andb_true_iff in X. destruct X as [X _]. apply Z.eqb_eq in X. subst k'.
    apply N1. apply (in_map fst) in I. exact I.
  Qed.

  Lemma justs_in priv row j : In j (justs_of priv row) ->
    In (j_idx j) (map fst row) /\ j_share j = peval q priv (xof q (j_idx j)).
  Proof.
    unfold justs_of. intros I. apply in_flat_map in I. destruct I as ([k v] & I & I2). cbn [fst snd] in I2.
    destruct (v =? 1); [|destruct I2]. destruct I2 as [<-|[]]. cbn. split; [|reflexivity].
    apply (in_map fst) in I. exact I.
  Qed.

  (* ---------------------------------------------------------------- the loop *)
  Definition pub3 (x : dstate q) : bool * option (list F) * list (Z * Z) := (d_ev x, d_pub x, d_row x).

  (* the public part of the loop's effect does not depend on the reader *)
  Lemma just_loop_pub3 i1 c1 i2 c2 dealer js : fresh i1 c1 -> fresh i2 c2 -> forall x1 x2,
    pub3 x1 = pub3 x2 -> pub3 (just_loop q c1 dealer js x1) = pub3 (just_loop q c2 dealer js x2).
  Proof.
    intros F1 F2. induction js as [|j js IH]; intros x1 x2 E; cbn [just_loop]; [exact E|].
    rewrite (fc_new _ _ _ _ _ _ F1), (fc_new _ _ _ _ _ _ F2), (fc_reshare _ _ _ _ _ _ F1), (fc_reshare _ _ _ _ _ _ F2). cbn [andb].
    assert (E' := E). unfold pub3 in E'. inversion E' as [[E1 E2 E3]].
    destruct (negb (included nodes (j_idx j))).
    { apply IH. unfold pub3. cbn [set_ev d_ev d_pub d_row]. congruence. }
    destruct (d_pub x1) as [pub|] eqn:DP1.
    2:{ unfold pub3. cbn [set_ev d_ev d_pub d_row]. congruence. }
    destruct (negb (zeqb (commit q (j_share j)) (peval q pub (xof q (j_idx j))))).
    { apply IH. unfold pub3. cbn [set_ev d_ev d_pub d_row]. congruence. }
    apply IH. unfold pub3.
    destruct (j_idx j =? c_nidx c1), (j_idx j =? c_nidx c2); cbn [set_share set_cell d_ev d_pub d_row]; congruence.
  Qed.

  (* a bundle all of whose justifications are valid clears exactly the cells it names *)
  Lemma just_loop_honest i c dealer pub js : fresh i c ->
    (forall j, In j js -> In (j_idx j) K /\ commit q (j_share j) = peval q pub (xof q (j_idx j))) ->
    forall x, d_pub x = Some pub ->
    let x' := just_loop q c dealer js x in
    d_ev x' = d_ev x /\ d_pub x' = Some pub /\ map fst (d_row x') = map fst (d_row x) /\
    (forall h, In h (map fst (d_row x)) ->
               cell (d_row x') h = if existsb (fun j : justif q => j_idx j =? h) js then 0 else cell (d_row x) h).
  Proof.
    intros FC. induction js as [|j js IH]; intros H x DP; cbn [just_loop].
    - cbn zeta. repeat split; auto.
    - destruct (H j (or_introl eq_refl)) as [IK CK].
      rewrite (fc_new _ _ _ _ _ _ FC), (fc_reshare _ _ _ _ _ _ FC). cbn [andb].
      assert (INC : included nodes (j_idx j) = true) by (apply included_in; exact IK). rewrite INC, DP. cbn [negb].
      assert (ZE : zeqb (commit q (j_share j)) (peval q pub (xof q (j_idx j))) = true) by (apply zeqb_eq; exact CK).
      rewrite ZE. cbn [negb].
      set (x2 := if j_idx j =? c_nidx c then set_share q (j_share j) (set_cell q (j_idx j) 0 x) else set_cell q (j_idx j) 0 x).
      assert (X2 : d_ev x2 = d_ev x /\ d_pub x2 = Some pub /\ d_row x2 = upd (j_idx j) (fun _ => 0) (d_row x)).
      { unfold x2. destruct (j_idx j =? c_nidx c); cbn [set_share set_cell d_ev d_pub d_row]; auto. }
      destruct X2 as (Y1 & Y2 & Y3).
      destruct (IH (fun j' I' => H j' (or_intror I')) x2 Y2) as (A1 & A2 & A3 & A4). cbn zeta in *.
      repeat split; try congruence.
      + rewrite A3, Y3. apply upd_keys.
      + intros h I. rewrite A4 by (rewrite Y3, upd_keys; exact I). rewrite Y3, cell_upd by exact I.
        cbn [existsb]. rewrite (Z.eqb_sym (j_idx j) h). destruct (h =? j_idx j); cbn [orb]; [|reflexivity].
        destruct (existsb _ js); reflexivity.
  Qed.

  (* a cell of the reader's own column changes only through a valid justification *)
  Lemma just_loop_own_cell i c dealer js : fresh i c -> forall x,
    In i (map fst (d_row x)) ->
    cell (d_row (just_loop q c dealer js x)) i = cell (d_row x) i \/
    (cell (d_row (just_loop q c dealer js x)) i = 0 /\
     exists j pub, In j js /\ j_idx j = i /\ d_pub x = Some pub /\ commit q (j_share j) = peval q pub (xof q i)).
  Proof.
    intros FC. induction js as [|j js IH]; intros x IK; cbn [just_loop]; [auto|].
    rewrite (fc_new _ _ _ _ _ _ FC), (fc_reshare _ _ _ _ _ _ FC), (fc_nidx _ _ _ _ _ _ FC). cbn [andb].
    destruct (negb (included nodes (j_idx j))).
    { destruct (IH (set_ev q x) IK) as [X|(X0 & j' & pub & I & X)]; [left; exact X|].
      right. split; [exact X0|]. exists j', pub. cbn [set_ev d_pub] in X. split; [right; exact I|exact X]. }
    destruct (d_pub x) as [pub|] eqn:DP; [|cbn [set_ev d_row]; auto].
    destruct (negb (zeqb (commit q (j_share j)) (peval q pub (xof q (j_idx j))))) eqn:CK.
    { destruct (IH (set_ev q x) IK) as [X|(X0 & j' & pub' & I & X)]; [left; exact X|].
      right. split; [exact X0|]. exists j', pub'. cbn [set_ev d_pub] in X. rewrite DP in X. split; [right; exact I|exact X]. }
    apply negb_false_iff, zeqb_eq in CK.
    set (x2 := if j_idx j =? i then set_share q (j_share j) (set_cell q (j_idx j) 0 x) else set_cell q (j_idx j) 0 x).
    assert (X2 : d_pub x2 = Some pub /\ d_row x2 = upd (j_idx j) (fun _ => 0) (d_row x)).
    { unfold x2. destruct (j_idx j =? i); cbn [set_share set_cell d_pub d_row]; auto. }
    destruct X2 as (Y2 & Y3).
    destruct (IH x2 ltac:(rewrite Y3, upd_keys; exact IK)) as [X|(X0 & j' & pub' & I & X1 & X2 & X3)].
    - rewrite Y3, cell_upd in X by exact IK. destruct (i =? j_idx j) eqn:E; [|left; exact X].
      apply Z.eqb_eq in E. right. split; [exact X|]. exists j, pub. rewrite <- E in CK. repeat split; auto. left. reflexivity.
    - right. split; [exact X0|]. exists j', pub'. rewrite Y2 in X2. split; [right; exact I|]. auto.
  Qed.

  Lemma just_loop_pub (c : cfg q) dealer js : forall x, d_pub (just_loop q c dealer js x) = d_pub x.
  Proof.
    induction js as [|j js IH]; intros x; cbn [just_loop]; [reflexivity|].
    destruct (negb (included (c_new c) (j_idx j))); [rewrite IH; reflexivity|].
    destruct (d_pub x) as [pub|] eqn:DP; [|cbn [set_ev d_pub]; exact DP].
    destruct (negb (zeqb (commit q (j_share j)) (peval q pub (xof q (j_idx j))))); [rewrite IH; cbn [set_ev d_pub]; exact DP|].
    destruct (c_reshare c && negb (zeqb (peval q (c_oldpub c) (xof q dealer)) (hd zzero pub))); [rewrite IH; cbn [set_ev d_pub]; exact DP|].
    rewrite IH. destruct (j_idx j =? c_nidx c); cbn [set_share set_cell d_pub]; exact DP.
  Qed.

  Lemma just_step_pub (c : cfg q) b x : d_pub (just_step q c b x) = d_pub x.
  Proof.
    unfold just_step. destruct (d_seen x); [reflexivity|].
    destruct (c_can_issue c && (jb_dealer b =? c_oidx c)); [reflexivity|].
    destruct (d_ev x); [reflexivity|]. destruct (negb (jb_sid b)); [reflexivity|].
    rewrite just_loop_pub. reflexivity.
  Qed.

  Lemma just_step_other i c b x : fresh i c -> jb_dealer b <> i -> d_seen x = false ->
    just_step q c b x = if d_ev x then x else if negb (jb_sid b) then set_ev q x
                        else just_loop q c (jb_dealer b) (jb_justifs b) (set_seen q true x).
  Proof.
    intros FC N S. unfold just_step. rewrite S, (fc_oidx _ _ _ _ _ _ FC).
    destruct (jb_dealer b =? i) eqn:E; [apply Z.eqb_eq in E; contradiction|]. rewrite andb_false_r. reflexivity.
  Qed.

  Lemma just_step_own i c b x : fresh i c -> jb_dealer b = i -> d_seen x = false -> just_step q c b x = x.
  Proof.
    intros FC E S. unfold just_step. rewrite S, (fc_oidx _ _ _ _ _ _ FC), (fc_issue _ _ _ _ _ _ FC), E, Z.eqb_refl. reflexivity.
  Qed.

  (* two readers, neither of them the dealer *)
  Lemma just_step_pub3 i1 c1 i2 c2 b x1 x2 : fresh i1 c1 -> fresh i2 c2 ->
    jb_dealer b <> i1 -> jb_dealer b <> i2 -> d_seen x1 = false -> d_seen x2 = false ->
    pub3 x1 = pub3 x2 -> pub3 (just_step q c1 b x1) = pub3 (just_step q c2 b x2).
  Proof.
    intros F1 F2 N1 N2 S1 S2 E. rewrite (just_step_other i1 c1 b x1 F1 N1 S1), (just_step_other i2 c2 b x2 F2 N2 S2).
    assert (E' := E). unfold pub3 in E'. inversion E' as [[E1 E2 E3]].
    destruct (d_ev x1) eqn:DE1; [exact E|]. destruct (negb (jb_sid b)).
    - unfold pub3. cbn [set_ev d_ev d_pub d_row]. congruence.
    - apply (just_loop_pub3 i1 c1 i2 c2 _ _ F1 F2). unfold pub3. cbn [set_seen d_ev d_pub d_row]. exact E.
  Qed.

  (* ---------------------------------------------------------------- the states of the phase *)
  (* eviction of dealers with at least Threshold complaints *)
  Definition ec (x : dstate q) : dstate q := if complaints (d_row x) >=? thr then set_ev q x else x.
  Definition x4 (c : cfg q) (B : boards q) (d : Z) : dstate q := ec (rrec q nodes fast c B d).

  Lemma rs4_spec i c B : fresh i c ->
    (forall d, In d K -> look d (s_d (rs4 q c B)) = Some (x4 c B d)) /\
    map fst (s_d (rs4 q c B)) = K /\
    (forall h, holder_evicted q (rs4 q c B) h = hevR nodes fast i (bR B) h) /\
    s_phase (rs4 q c B) = 3.
  Proof.
    intros FC. destruct (rs3_spec q nodes thr fast i c B FC) as (A1 & A2 & A3 & A4 & A5).
    assert (G : forall e : Z * dstate q,
              fst (if complaints (d_row (snd e)) >=? c_thr c then (fst e, set_ev q (snd e)) else e) = fst e).
    { intros e. destruct (complaints (d_row (snd e)) >=? c_thr c); reflexivity. }
    unfold rs4, evict_complained, set_phase, on_d. cbn [s_d s_h s_phase]. repeat split.
    - intros d IK. rewrite (look_map_keep _ _ d G), (A1 d IK). cbn [snd]. unfold x4, ec.
      rewrite (fc_thr _ _ _ _ _ _ FC). destruct (complaints (d_row (rrec q nodes fast c B d)) >=? thr); reflexivity.
    - rewrite (map_keep_keys _ _ G). exact A2.
    - intros h. rewrite <- A4. reflexivity.
  Qed.

  (* the record of dealer [d] when the loop of ProcessJustifications starts:
     the node has answered the complaints of its own row *)
  Definition clr (x : dstate q) : dstate q := mkd (clear1 (d_row x)) (d_share x) (d_pub x) (d_ev x) (d_seen x).
  Definition x5 (c : cfg q) (B : boards q) (d : Z) : dstate q :=
    set_seen q false (if d =? c_nidx c then clr (x4 c B d) else x4 c B d).
  (* ... and when it ends *)
  Definition x6 (c : cfg q) (B : boards q) (d : Z) : dstate q :=
    fold_left (fun x b => if d =? jb_dealer b then just_step q c b x else x) (bJ B) (x5 c B d).
  Definition s6 (c : cfg q) (B : boards q) : st q :=
    fold_left (just_fold q c) (bJ B) (on_d q (clear_seen q) (ro_st (rout q c B))).

  Lemma my_justifs_eq i c B : fresh i c ->
    my_justifs q c (rs4 q c B) = justs_of (c_priv c) (d_row (x4 c B i)).
  Proof.
    intros FC. destruct (rs4_spec i c B FC) as (A1 & _). unfold my_justifs.
    rewrite (fc_oidx _ _ _ _ _ _ FC), (A1 i (fc_in _ _ _ _ _ _ FC)). reflexivity.
  Qed.

  (* the deferred eviction check of ProcessResponses looks at the own record *)
  Lemma ce_x4 i c B : fresh i c ->
    check_evicted q c (match my_justifs q c (rs4 q c B) with
                       | [] => rs4 q c B
                       | _ :: _ => clear_own_complaints q c (rs4 q c B)
                       end) true = d_ev (x4 c B i).
  Proof.
    intros FC. destruct (rs4_spec i c B FC) as (A1 & _).
    unfold check_evicted. rewrite (fc_reshare _ _ _ _ _ _ FC), (fc_issue _ _ _ _ _ _ FC), (fc_oidx _ _ _ _ _ _ FC). cbn [andb negb].
    destruct (my_justifs q c (rs4 q c B)).
    - rewrite (A1 i (fc_in _ _ _ _ _ _ FC)). reflexivity.
    - unfold clear_own_complaints, on_d. cbn [s_d].
      rewrite look_upd, (A1 i (fc_in _ _ _ _ _ _ FC)), (fc_oidx _ _ _ _ _ _ FC), Z.eqb_refl. reflexivity.
  Qed.

  Lemma s6_spec i c B : fresh i c -> ro_err (rout q c B) = ENone -> ro_res (rout q c B) = None ->
    (forall d, In d K -> look d (s_d (s6 c B)) = Some (x6 c B d)) /\
    map fst (s_d (s6 c B)) = K /\
    (forall h, holder_evicted q (s6 c B) h = hevR nodes fast i (bR B) h) /\
    s_phase (ro_st (rout q c B)) = 3 /\
    d_ev (x4 c B i) = false /\
    jbun q c B = (match justs_of (c_priv c) (d_row (x4 c B i)) with
                  | [] => None
                  | _ :: _ => Some (mkjb i (justs_of (c_priv c) (d_row (x4 c B i))) true)
                  end).
  Proof.
    intros FC E1 E2. destruct (rout_continue q nodes thr fast i c B FC E1 E2) as (FN & ST & JB & CE).
    destruct (rs4_spec i c B FC) as (A1 & A2 & A3 & A4).
    rewrite (my_justifs_eq i c B FC) in ST, JB.
    assert (IKi : In i K) by apply (fc_in _ _ _ _ _ _ FC).
    (* the state handed to ProcessJustifications *)
    assert (L5 : forall d, In d K ->
              look d (s_d (on_d q (clear_seen q) (ro_st (rout q c B)))) = Some (x5 c B d)).
    { intros d IK. unfold on_d, clear_seen. cbn [s_d].
      rewrite (look_mapv (fun e : Z * dstate q => set_seen q false (snd e)) _ d). rewrite ST.
      unfold x5. rewrite (fc_nidx _ _ _ _ _ _ FC).
      destruct (justs_of (c_priv c) (d_row (x4 c B i))) eqn:JE.
      - rewrite (A1 d IK). cbn [snd]. destruct (d =? i) eqn:ED; [|reflexivity].
        apply Z.eqb_eq in ED. subst d. unfold clr. rewrite (justs_nil_clear _ _ JE). destruct (x4 c B i); reflexivity.
      - unfold clear_own_complaints, on_d. cbn [s_d]. rewrite look_upd, (A1 d IK), (fc_oidx _ _ _ _ _ _ FC). cbn [snd].
        destruct (d =? i); reflexivity. }
    assert (K5 : map fst (s_d (on_d q (clear_seen q) (ro_st (rout q c B)))) = K).
    { unfold on_d, clear_seen. cbn [s_d]. rewrite map_map. cbn [fst]. rewrite ST.
      destruct (justs_of (c_priv c) (d_row (x4 c B i))); [exact A2|].
      unfold clear_own_complaints, on_d. cbn [s_d]. rewrite upd_keys. exact A2. }
    assert (H5 : forall h, holder_evicted q (on_d q (clear_seen q) (ro_st (rout q c B))) h = hevR nodes fast i (bR B) h).
    { intros h. rewrite <- A3. unfold holder_evicted, on_d. cbn [s_h]. rewrite ST.
      destruct (justs_of (c_priv c) (d_row (x4 c B i))); reflexivity. }
    unfold s6, just_fold. rewrite (fold_on_d q jb_dealer (just_step q c)). cbn [s_d s_h]. repeat split.
    - intros d IK. rewrite look_fold_upd, (L5 d IK). reflexivity.
    - rewrite keys_fold_upd. exact K5.
    - intros h. rewrite <- H5. reflexivity.
    - rewrite ST. destruct (justs_of (c_priv c) (d_row (x4 c B i))); [exact A4|]. exact A4.
    - unfold check_evicted in CE. rewrite (fc_reshare _ _ _ _ _ _ FC), (fc_issue _ _ _ _ _ _ FC), (fc_oidx _ _ _ _ _ _ FC) in CE.
      cbn [andb negb] in CE. rewrite ST in CE.
      destruct (justs_of (c_priv c) (d_row (x4 c B i))).
      + rewrite (A1 i IKi) in CE. exact CE.
      + unfold clear_own_complaints, on_d in CE. cbn [s_d] in CE.
        rewrite look_upd, (A1 i IKi), (fc_oidx _ _ _ _ _ _ FC), Z.eqb_refl in CE. exact CE.
    - unfold jbun. rewrite E1, E2, JB. reflexivity.
  Qed.

  (* ProcessJustifications returned a result *)
  Lemma jout_result i c B r : fresh i c -> jo_res (jout q c B) = Some r ->
    compute_dkg_result q c (final q (s6 c B)) = Some r.
  Proof.
    intros FC. unfold jout, process_justifs. rewrite (fc_recv _ _ _ _ _ _ FC). cbn [negb].
    destruct (negb (s_phase (ro_st (rout q c B)) =? 3)); [discriminate|]. fold (s6 c B).
    destruct (check_evicted q c (s6 c B) false); [discriminate|].
    destruct (all_good q (s6 c B) <? (if c_reshare c then c_oldthr c else c_thr c)); [discriminate|].
    unfold compute_result. rewrite (fc_reshare _ _ _ _ _ _ FC). fold (final q (s6 c B)).
    destruct (compute_dkg_result q c (final q (s6 c B))); cbn [jo_res]; [auto|discriminate].
  Qed.

  (* fields of the records of the phase *)
  Lemma x4_fields c B d :
    d_pub (x4 c B d) = d_pub (rrec q nodes fast c B d) /\ d_share (x4 c B d) = d_share (rrec q nodes fast c B d) /\
    d_row (x4 c B d) = d_row (rrec q nodes fast c B d) /\ d_seen (x4 c B d) = d_seen (rrec q nodes fast c B d) /\
    d_ev (x4 c B d) = d_ev (rrec q nodes fast c B d) || (complaints (d_row (rrec q nodes fast c B d)) >=? thr).
  Proof.
    unfold x4, ec. destruct (complaints (d_row (rrec q nodes fast c B d)) >=? thr); cbn [set_ev d_pub d_share d_row d_seen d_ev];
      rewrite ?orb_true_r, ?orb_false_r; auto.
  Qed.

  Lemma x5_fields c B d :
    d_pub (x5 c B d) = d_pub (x4 c B d) /\ d_share (x5 c B d) = d_share (x4 c B d) /\
    d_ev (x5 c B d) = d_ev (x4 c B d) /\ d_seen (x5 c B d) = false /\
    d_row (x5 c B d) = if d =? c_nidx c then clear1 (d_row (x4 c B d)) else d_row (x4 c B d).
  Proof. unfold x5, clr. destruct (d =? c_nidx c); cbn [set_seen d_pub d_share d_ev d_seen d_row]; auto. Qed.
End Just.
