(* Towards the cross-phase agreement of a RESHARING (two node lists): the parts
   of a node's state that the resharing result reads besides the status matrix
   columns (C11_responses_column_function) are functions of the broadcast
   boards, for every configuration - old dealers, new holders, nodes in both.

   - deal phase: for every dealer other than the node itself, the eviction
     flag, the stored public polynomial and the seen flag after ProcessDeals
     depend on the bundles only (the out-of-range share index evicts wherever
     it stands in the bundle: deal_loop stops there, but it is reached for every
     node, since the entries before it never stop the loop);
   - response phase: the holder-eviction and author flags after the response
     bundles depend on the bundles only, for every bundle the node does not
     skip as its own.

   reshare_cross_phase_partial (see props/C11.v) lists what is still missing. *)
From Coq Require Import ZArith List Bool Lia.
From Kyber Require Import Algebra.Zq Algebra.Grp DKG.PedersenDKG DKG.PedersenProofs.
Import ListNotations.
Local Open Scope Z_scope.

Section Views.
  Variable q : Z.
  Notation F := (zq q).

  (* ---------------------------------------------------------------- deal phase *)
  Definition dpub (d : dstate q) : bool * option (list F) * bool := (d_ev d, d_pub d, d_seen d).

  Definition has_bad_idx (new : list (Z * Z)) (ds : list (deal q)) : bool :=
    existsb (fun dl => negb (included new (dl_idx dl))) ds.

  Lemma deal_loop_dpub (c : cfg q) dealer pub ds : forall d,
    dpub (deal_loop q c dealer pub ds d) = (d_ev d || has_bad_idx (c_new c) ds, d_pub d, d_seen d).
  Proof.
    induction ds as [|dl ds IH]; intros d; cbn [deal_loop has_bad_idx existsb].
    - unfold dpub. rewrite orb_false_r. reflexivity.
    - destruct (negb (included (c_new c) (dl_idx dl))) eqn:B; cbn [orb].
      + unfold dpub. cbn. rewrite orb_true_r. reflexivity.
      + fold (has_bad_idx (c_new c) ds).
        destruct (negb (dl_idx dl =? c_nidx c)); [apply IH|].
        destruct (dl_share dl) as [sh|]; [|apply IH].
        destruct (negb (zeqb (peval q pub (xof q (c_nidx c))) (commit q sh))); [apply IH|].
        destruct (c_reshare c && negb (zeqb (peval q (c_oldpub c) (xof q dealer)) (hd zzero pub))); [apply IH|].
        rewrite IH. reflexivity.
  Qed.

  Definition own_bundle (c : cfg q) (b : deal_bundle q) : bool := c_can_issue c && (db_dealer b =? c_oidx c).

  (* the public part of a dealer record after one bundle, for a node that does not skip it as its own *)
  Definition dpub_step (new : list (Z * Z)) (thr : Z) (b : deal_bundle q) (v : bool * option (list F) * bool)
    : bool * option (list F) * bool :=
    let '(ev, pb, seen) := v in
    if negb (db_sid b) then (true, pb, seen)
    else if negb (Z.of_nat (length (db_pub b)) =? thr) then (true, pb, seen)
    else if seen then (true, pb, seen)
    else (ev || has_bad_idx new (db_deals b), Some (db_pub b), true).

  Lemma deal_step_dpub (c : cfg q) b d : own_bundle c b = false ->
    dpub (deal_step q c b d) = dpub_step (c_new c) (c_thr c) b (dpub d).
  Proof.
    intros O. unfold deal_step, own_bundle in *. rewrite O. unfold dpub_step.
    destruct (negb (db_sid b)); [reflexivity|].
    destruct (negb (Z.of_nat (length (db_pub b)) =? c_thr c)); [reflexivity|].
    destruct (d_seen d) eqn:SE.
    - unfold dpub. cbn [set_ev d_ev d_pub d_seen]. rewrite SE. reflexivity.
    - rewrite deal_loop_dpub. unfold dpub. cbn [set_pub set_seen d_ev d_pub d_seen]. rewrite SE. reflexivity.
  Qed.

  Definition dpubs (s : st q) : list (Z * (bool * option (list F) * bool)) := map (fun e => (fst e, dpub (snd e))) (s_d s).

  Lemma dpubs_upd (s : st q) k f g :
    (forall d, dpub (f d) = g (dpub d)) ->
    dpubs (on_d q (upd k f) s) = upd k g (dpubs s).
  Proof.
    intros H. unfold dpubs, on_d, upd. cbn [s_d]. rewrite !map_map. apply map_ext. intros [k' d]. cbn [fst snd].
    destruct (k' =? k); cbn [fst snd]; [rewrite H|]; reflexivity.
  Qed.

  (* DEAL PHASE.  Two nodes of one resharing (same NewNodes and Threshold; old
     dealers, new holders or both) that process the same bundles, none of which
     is their own, hold afterwards the same eviction flags and the same public
     polynomials for every dealer, whatever their own indices and shares are. *)
  Theorem deal_phase_public_view (c1 c2 : cfg q) (bs : list (deal_bundle q)) : forall s1 s2,
    c_new c1 = c_new c2 -> c_thr c1 = c_thr c2 ->
    (forall b, In b bs -> own_bundle c1 b = false /\ own_bundle c2 b = false) ->
    dpubs s1 = dpubs s2 ->
    dpubs (fold_left (deal_fold q c1) bs s1) = dpubs (fold_left (deal_fold q c2) bs s2).
  Proof.
    induction bs as [|b bs IH]; intros s1 s2 EN ET O E; cbn [fold_left]; [exact E|].
    apply IH; auto; [intros b' I; apply O; right; exact I|].
    destruct (O b (or_introl eq_refl)) as [O1 O2]. unfold deal_fold.
    rewrite (dpubs_upd s1 (db_dealer b) _ (dpub_step (c_new c1) (c_thr c1) b)) by (intros d; apply deal_step_dpub; exact O1).
    rewrite (dpubs_upd s2 (db_dealer b) _ (dpub_step (c_new c2) (c_thr c2) b)) by (intros d; apply deal_step_dpub; exact O2).
    rewrite E, EN, ET. reflexivity.
  Qed.

  (* ---------------------------------------------------------------- response phase: holder flags *)
  Definition hflags (s : st q) : list (Z * (bool * bool)) := map (fun e => (fst e, (h_ev (snd e), h_auth (snd e)))) (s_h s).

  Definition hone (old : list (Z * Z)) (fast : bool) (holder : Z) (hs : list (Z * hstate)) (r : response) : list (Z * hstate) :=
    if negb (included old (r_dealer r)) then upd holder set_hev hs
    else if negb fast && (r_status r =? 0) then upd holder set_hev hs
    else upd holder set_hauth hs.

  Lemma s_h_resp_one (c : cfg q) holder s r : s_h (resp_one q c holder s r) = hone (c_old c) (c_fast c) holder (s_h s) r.
  Proof.
    unfold resp_one, hone. destruct (negb (included (c_old c) (r_dealer r))); [reflexivity|].
    destruct (negb (c_fast c) && (r_status r =? 0)); [reflexivity|]. destruct (r_status r =? 1); reflexivity.
  Qed.

  Lemma s_h_fold_resp_one (c : cfg q) holder rs : forall s,
    s_h (fold_left (resp_one q c holder) rs s) = fold_left (hone (c_old c) (c_fast c) holder) rs (s_h s).
  Proof. induction rs as [|r rs IH]; intros s; cbn [fold_left]; [reflexivity|]. rewrite IH, s_h_resp_one. reflexivity. Qed.

  Definition hstep (old new : list (Z * Z)) (fast skip : bool) (hs : list (Z * hstate)) (b : resp_bundle) : list (Z * hstate) :=
    if skip then hs
    else if negb (included new (rb_holder b)) then hs
    else if negb (rb_sid b) then upd (rb_holder b) set_hev hs
    else fold_left (hone old fast (rb_holder b)) (rb_resps b) hs.

  Lemma s_h_resp_step (c : cfg q) s b :
    s_h (resp_step q c s b) = hstep (c_old c) (c_new c) (c_fast c) (skips q c b) (s_h s) b.
  Proof.
    unfold resp_step, hstep, skips. destruct (c_can_issue c && c_new_present c && (rb_holder b =? c_nidx c)); [reflexivity|].
    destruct (negb (included (c_new c) (rb_holder b))); [reflexivity|]. destruct (negb (rb_sid b)); [reflexivity|].
    apply s_h_fold_resp_one.
  Qed.

  (* RESPONSE PHASE.  Two nodes of one run (same node lists and mode) that held
     the same holder records before hold the same holder records - evicted
     holders, authors of a valid response - after the response bundles, as long
     as neither skips one of them as its own. *)
  Theorem responses_holder_flags (c1 c2 : cfg q) bs : forall s1 s2,
    c_old c1 = c_old c2 -> c_new c1 = c_new c2 -> c_fast c1 = c_fast c2 ->
    (forall b, In b bs -> skips q c1 b = skips q c2 b) ->
    s_h s1 = s_h s2 ->
    s_h (fold_left (resp_step q c1) bs s1) = s_h (fold_left (resp_step q c2) bs s2).
  Proof.
    induction bs as [|b bs IH]; intros s1 s2 EO EN EF SK E; cbn [fold_left]; [exact E|].
    apply IH; auto; [intros b' I; apply SK; right; exact I|].
    rewrite !s_h_resp_step, EO, EN, EF, (SK b (or_introl eq_refl)), E. reflexivity.
  Qed.
End Views.
