(* System semantics for the fresh Pedersen DKG (regular and fast-sync mode, no
   resharing) over
   the node model of DKG/PedersenDKG.v, and the generic keyed-list lemmas the
   cross-phase induction of DKG/AgreementProofs.v is built on.

   A SYSTEM is: a node list, a threshold, and one broadcast board per phase
   (deal bundles, response bundles, justification bundles).  A board is what
   the packet store of protocol.go (DKG/PacketSet.v) hands to Process*: at most
   one bundle per sender.  Every party may put ARBITRARY bundles on the boards;
   a party is HONEST (predicate [honest]) when it runs
   Deals / ProcessDeals / ProcessResponses / ProcessJustifications of the model
   on the boards and the boards carry exactly what it emitted under its index
   (signatures: nobody else can publish under the index of an honest party).
   Each honest node may receive its own permutation of every board: the
   existing permutation-invariance theorems (PedersenProofs) reduce that to a
   common order ([node_output_perm] in AgreementProofs.v). *)
From Coq Require Import ZArith List Bool Lia Permutation.
From Kyber Require Import Algebra.Zq Algebra.Grp DKG.PedersenDKG DKG.PedersenProofs.
Import ListNotations.
Local Open Scope Z_scope.

(* ------------------------------------------------------------------ *)
(* keyed lists                                                          *)
Section Keyed.
  Context {A : Type}.

  Lemma look_mapv {B} (g : Z * A -> B) (m : list (Z * A)) k :
    look k (map (fun e => (fst e, g e)) m) = match look k m with Some v => Some (g (k, v)) | None => None end.
  Proof.
    induction m as [|[k0 v] m IH]; [reflexivity|]. cbn [map fst snd look].
    destruct (k0 =? k) eqn:E; [|exact IH]. apply Z.eqb_eq in E. subst. reflexivity.
  Qed.

  Lemma look_in k (m : list (Z * A)) : In k (map fst m) -> exists v, look k m = Some v.
  Proof.
    induction m as [|[k0 v] m IH]; [intros []|]. cbn [map fst look]. intros [E|I].
    - subst. rewrite Z.eqb_refl. eauto.
    - destruct (k0 =? k); eauto.
  Qed.

  Lemma look_some_in k (m : list (Z * A)) v : look k m = Some v -> In (k, v) m.
  Proof.
    induction m as [|[k0 v0] m IH]; [discriminate|]. cbn [look].
    destruct (k0 =? k) eqn:E.
    - apply Z.eqb_eq in E. intros H. inversion H; subst. left. reflexivity.
    - intros H. right. auto.
  Qed.

  Lemma look_none k (m : list (Z * A)) : ~ In k (map fst m) -> look k m = None.
  Proof.
    induction m as [|[k0 v] m IH]; [reflexivity|]. cbn [map fst look]. intros N.
    destruct (k0 =? k) eqn:E.
    - apply Z.eqb_eq in E. exfalso. apply N. left. exact E.
    - apply IH. intros I. apply N. right. exact I.
  Qed.

  Lemma in_look k v (m : list (Z * A)) : NoDup (map fst m) -> In (k, v) m -> look k m = Some v.
  Proof.
    induction m as [|[k0 v0] m IH]; [intros _ []|]. cbn [map fst look]. intros ND [E|I].
    - inversion E; subst. rewrite Z.eqb_refl. reflexivity.
    - inversion ND as [|? ? N1 N2]; subst. destruct (k0 =? k) eqn:E.
      + apply Z.eqb_eq in E. subst. exfalso. apply N1. apply (in_map fst) in I. exact I.
      + auto.
  Qed.

  Lemma look_keys_eq (m1 m2 : list (Z * A)) k :
    map fst m1 = map fst m2 -> (look k m1 = None <-> look k m2 = None).
  Proof.
    revert m2. induction m1 as [|[k1 v1] m1 IH]; intros [|[k2 v2] m2] E; try discriminate; [tauto|].
    cbn in E. inversion E; subst. cbn [look]. destruct (k2 =? k); [split; discriminate|]. apply IH. assumption.
  Qed.

  (* two keyed lists over the same key skeleton are equal as soon as they are
     pointwise equal *)
  Lemma keyed_ext (m1 m2 : list (Z * A)) :
    map fst m1 = map fst m2 -> NoDup (map fst m1) ->
    (forall k, In k (map fst m1) -> look k m1 = look k m2) -> m1 = m2.
  Proof.
    revert m2. induction m1 as [|[k1 v1] m1 IH]; intros [|[k2 v2] m2] E ND H; try discriminate; [reflexivity|].
    cbn in E. inversion E as [[E1 E2]]. subst k2. inversion ND as [|? ? N1 N2]; subst.
    assert (V : v1 = v2).
    { specialize (H k1 (or_introl eq_refl)). cbn [look] in H. rewrite Z.eqb_refl in H. inversion H. reflexivity. }
    subst. f_equal. apply IH; auto.
    intros k I. specialize (H k (or_intror I)). cbn [look] in H.
    destruct (k1 =? k) eqn:EK; [|exact H]. apply Z.eqb_eq in EK. subst. contradiction.
  Qed.

  (* ... and so are their images under key-preserving maps *)
  Lemma keyed_map_ext {B} (g1 g2 : Z * A -> B) (m1 m2 : list (Z * A)) :
    map fst m1 = map fst m2 -> NoDup (map fst m1) ->
    (forall k v1 v2, look k m1 = Some v1 -> look k m2 = Some v2 -> g1 (k, v1) = g2 (k, v2)) ->
    map (fun e => (fst e, g1 e)) m1 = map (fun e => (fst e, g2 e)) m2.
  Proof.
    revert m2. induction m1 as [|[k1 v1] m1 IH]; intros [|[k2 v2] m2] E ND H; try discriminate; [reflexivity|].
    cbn in E. inversion E as [[E1 E2]]. subst k2. inversion ND as [|? ? N1 N2]; subst.
    cbn [map fst]. f_equal.
    - f_equal. apply H; cbn [look]; rewrite Z.eqb_refl; reflexivity.
    - apply IH; auto. intros k w1 w2 L1 L2. apply H; cbn [look].
      + destruct (k1 =? k) eqn:EK; [|exact L1]. apply Z.eqb_eq in EK. subst.
        exfalso. apply N1. apply look_some_in in L1. apply (in_map fst) in L1. exact L1.
      + destruct (k1 =? k) eqn:EK; [|exact L2]. apply Z.eqb_eq in EK. subst.
        exfalso. apply N1. apply look_some_in in L1. apply (in_map fst) in L1. exact L1.
  Qed.

  (* a fold of keyed updates acts on every key separately *)
  Lemma look_fold_upd {B} (key : B -> Z) (G : B -> A -> A) (bs : list B) : forall (m : list (Z * A)) d,
    look d (fold_left (fun m b => upd (key b) (G b) m) bs m) =
    option_map (fun r => fold_left (fun r b => if d =? key b then G b r else r) bs r) (look d m).
  Proof.
    induction bs as [|b bs IH]; intros m d; cbn [fold_left].
    - destruct (look d m); reflexivity.
    - rewrite IH, look_upd. destruct (look d m); reflexivity.
  Qed.

  Lemma keys_fold_upd {B} (key : B -> Z) (G : B -> A -> A) (bs : list B) : forall (m : list (Z * A)),
    map fst (fold_left (fun m b => upd (key b) (G b) m) bs m) = map fst m.
  Proof.
    induction bs as [|b bs IH]; intros m; cbn [fold_left]; [reflexivity|]. rewrite IH. apply upd_keys.
  Qed.

  Lemma apply_absent {B} (key : B -> Z) (G : B -> A -> A) (bs : list B) d : forall r,
    ~ In d (map key bs) -> fold_left (fun r b => if d =? key b then G b r else r) bs r = r.
  Proof.
    induction bs as [|b bs IH]; intros r N; cbn [fold_left]; [reflexivity|].
    destruct (d =? key b) eqn:E.
    - apply Z.eqb_eq in E. exfalso. apply N. left. symmetry. exact E.
    - apply IH. intros I. apply N. right. exact I.
  Qed.

  Lemma apply_unique {B} (key : B -> Z) (G : B -> A -> A) (bs : list B) b : forall r,
    NoDup (map key bs) -> In b bs ->
    fold_left (fun r b' => if key b =? key b' then G b' r else r) bs r = G b r.
  Proof.
    induction bs as [|b0 bs IH]; intros r ND I; [destruct I|]. cbn [fold_left map] in *.
    inversion ND as [|? ? N1 N2]; subst. destruct I as [E|I].
    - subst b0. rewrite Z.eqb_refl. apply apply_absent. exact N1.
    - destruct (key b =? key b0) eqn:E.
      + apply Z.eqb_eq in E. exfalso. apply N1. rewrite <- E. apply in_map. exact I.
      + apply IH; assumption.
  Qed.

  Lemma fold_left_ext_in {S B} (f g : S -> B -> S) (l : list B) :
    (forall s b, In b l -> f s b = g s b) -> forall s, fold_left f l s = fold_left g l s.
  Proof.
    induction l as [|b l IH]; intros H s; cbn [fold_left]; [reflexivity|].
    rewrite H by (left; reflexivity). apply IH. intros s' b' I. apply H. right. exact I.
  Qed.
End Keyed.

Lemma included_in {A} (m : list (Z * A)) k : included m k = true <-> In k (map fst m).
Proof.
  unfold included. rewrite existsb_exists. split.
  - intros (e & I & E). apply Z.eqb_eq in E. subst. apply in_map. exact I.
  - intros I. apply in_map_iff in I. destruct I as (e & E & I). exists e. split; [exact I|]. apply Z.eqb_eq. exact E.
Qed.

Lemma find_pub_nodup (nodes : list (Z * Z)) n :
  NoDup (map snd nodes) -> In n nodes -> find_pub nodes (snd n) = Some (fst n).
Proof.
  induction nodes as [|[i k] r IH]; intros ND I; [destruct I|]. cbn [find_pub map snd] in *.
  inversion ND as [|? ? N1 N2]; subst. destruct I as [E|I].
  - subst n. cbn. rewrite Z.eqb_refl. reflexivity.
  - destruct (k =? snd n) eqn:E.
    + apply Z.eqb_eq in E. exfalso. apply N1. rewrite E. apply in_map. exact I.
    + auto.
Qed.

(* ------------------------------------------------------------------ *)
(* the system                                                           *)
Section System.
  Variable q : Z.
  Notation F := (zq q).
  Variable nodes : list (Z * Z).      (* (index, key id); OldNodes = NewNodes *)
  Variable thr : Z.
  Variable fast : bool.               (* Config.FastSync *)

  (* the configuration NewDistKeyHandler builds for a participant of a fresh
     DKG, FastSync = [fast] ([fresh_cfg_new_handler] below) *)
  Record fresh_cfg (i : Z) (c : cfg q) : Prop := {
    fc_ndi : NoDup (map fst nodes);       (* Config.CheckForDuplicates *)
    fc_ndk : NoDup (map snd nodes);       (* one index per participant key *)
    fc_in : In i (map fst nodes);
    fc_old : c_old c = nodes;
    fc_new : c_new c = nodes;
    fc_thr : c_thr c = thr;
    fc_fast : c_fast c = fast;
    fc_reshare : c_reshare c = false;
    fc_oidx : c_oidx c = i;
    fc_nidx : c_nidx c = i;
    fc_issue : c_can_issue c = true;
    fc_recv : c_can_receive c = true;
    fc_newp : c_new_present c = true;
    fc_priv : Z.of_nat (length (c_priv c)) = thr
  }.

  Lemma fresh_cfg_new_handler i key priv :
    NoDup (map fst nodes) -> NoDup (map snd nodes) -> In (i, key) nodes -> Z.of_nat (length priv) = thr ->
    fresh_cfg i (new_handler q [] nodes key thr 0 fast false false priv []).
  Proof.
    intros NDI ND I L. pose proof (find_pub_nodup nodes (i, key) ND I) as FP. cbn [fst snd] in FP.
    unfold new_handler. cbn [orb andb negb]. rewrite FP. cbn [andb]. rewrite FP.
    constructor; cbn; try reflexivity; try assumption.
    apply (in_map fst) in I. exact I.
  Qed.

  Record boards := mkboards {
    bD : list (deal_bundle q);
    bR : list resp_bundle;
    bJ : list (just_bundle q)
  }.

  (* at most one bundle per sender and phase (what set.Push leaves) *)
  Definition boards_ok (B : boards) : Prop :=
    NoDup (map db_dealer (bD B)) /\ NoDup (map rb_holder (bR B)) /\ NoDup (map jb_dealer (bJ B)).

  (* ---- what an honest node computes (Deals and ProcessDeals never fail for a
     fresh configuration: [st1_eq], [st2_eq] in AgreementProofs) ---- *)
  Definition st1 (c : cfg q) : st q :=
    match deals q c (init_st q c) with Some (s, _) => s | None => init_st q c end.
  Definition dbun (c : cfg q) : deal_bundle q :=
    match deals q c (init_st q c) with Some (_, b) => b | None => mkdb 0 [] [] false end.
  Definition st2 (c : cfg q) (B : boards) : st q :=
    match process_deals q c (st1 c) (bD B) with Some (s, _) => s | None => st1 c end.
  Definition rbun (c : cfg q) (B : boards) : option resp_bundle :=
    match process_deals q c (st1 c) (bD B) with Some (_, rb) => rb | None => None end.
  Definition rout (c : cfg q) (B : boards) : resp_out q := process_responses q c (st2 c B) (bR B).
  Definition jout (c : cfg q) (B : boards) : just_out q := process_justifs q c (ro_st (rout c B)) (bJ B).

  (* Protocol.sendJustifications: a justification bundle is broadcast only when
     ProcessResponses returned neither an error nor a result *)
  Definition jbun (c : cfg q) (B : boards) : option (just_bundle q) :=
    match ro_err (rout c B), ro_res (rout c B) with
    | ENone, None => ro_just (rout c B)
    | _, _ => None
    end.

  (* the node completes in the response phase / in the justification phase *)
  Definition out_resp (c : cfg q) (B : boards) (r : result q) : Prop :=
    ro_err (rout c B) = ENone /\ ro_res (rout c B) = Some r.
  Definition out_just (c : cfg q) (B : boards) (r : result q) : Prop :=
    ro_err (rout c B) = ENone /\ ro_res (rout c B) = None /\
    jo_err (jout c B) = ENone /\ jo_res (jout c B) = Some r.
  Definition output (c : cfg q) (B : boards) (r : result q) : Prop := out_resp c B r \/ out_just c B r.

  (* party [i] with configuration [c] is honest on the boards [B] *)
  Record honest (B : boards) (i : Z) (c : cfg q) : Prop := {
    h_cfg : fresh_cfg i c;
    h_deal : In (dbun c) (bD B);
    h_resp : match rbun c B with Some rb => In rb (bR B) | None => ~ In i (map rb_holder (bR B)) end;
    h_just : match jbun c B with Some jb => In jb (bJ B) | None => ~ In i (map jb_dealer (bJ B)) end
  }.

  (* what the deal board says about dealer [d], independently of the reader *)
  Definition bundle_of (D : list (deal_bundle q)) (d : Z) : option (deal_bundle q) :=
    find (fun b => db_dealer b =? d) D.
  Definition bad_idx (ds : list (deal q)) : bool := existsb (fun dl => negb (included nodes (dl_idx dl))) ds.
  Definition accepted (b : deal_bundle q) : bool := db_sid b && (Z.of_nat (length (db_pub b)) =? thr).
  Definition bad_deal (b : deal_bundle q) : bool := negb (accepted b) || bad_idx (db_deals b).
  (* the public polynomial / constant commitment (contribution) dealer [d] broadcast *)
  Definition pub_of (D : list (deal_bundle q)) (d : Z) : option (list F) :=
    match bundle_of D d with Some b => if accepted b then Some (db_pub b) else None | None => None end.
  Definition contribution (D : list (deal_bundle q)) (d : Z) : F :=
    match pub_of D d with Some p => hd zzero p | None => zzero end.
End System.

Arguments bD {q}. Arguments bR {q}. Arguments bJ {q}. Arguments mkboards {q}.
